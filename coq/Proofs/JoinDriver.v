(* Proofs/JoinDriver.v — the generic driver proof: for any kernel kind satisfying KindOK,
   the streamed driver (chunk refills, buffer flushes, tail loop) returns the relational
   join, or raises the clear ValueError of get_next_chunk; never OOB, never OutOfFuel. *)
From Coq Require Import ZArith List Lia Bool ZifyBool.
From EV Require Import Res Arr Join JoinSpec JoinBase JoinIface.
Import ListNotations.
Open Scope Z_scope.

Section Driver.
Variables (k:kind) (emit:bool) (L R:list Z) (inv cs:Z).
Variable K : KindOK k emit L R inv cs.
Hypothesis Hcs : 1 <= cs.

Notation v := (mkvar k emit).
Notation WL := (wl k emit).
Notation AbsK := (Abs k emit L R inv cs K).
Notation LocK := (Loc k emit L R inv cs K).

Lemma kmeas_nonneg p s : Buf cs s -> Pos p s -> 0 <= kmeas cs p s.
Proof.
  intros (Hl & Hr & Hrr) (Hi & Hj & _). unfold kmeas. destruct (finner s); lia.
Qed.

(* ---------------------------------------------------------------- one kernel call *)
Lemma krun_ok : forall fuel p la lb ra rb s ol orr O,
  Win k emit L R inv cs p la lb ra rb -> Buf cs s -> Pos p s -> LocK s ->
  AbsK (la + fi s) (ra + fj s) (sub_of s) O -> OutRel k emit ol orr s O ->
  Z.of_nat fuel > kmeas cs p s ->
  exists s' O', krun fuel k emit p s = Ok s' /\
    Buf cs s' /\ Pos p s' /\
    AbsK (la + fi s') (ra + fj s') (sub_of s') O' /\ OutRel k emit ol orr s' O' /\
    (fi s' >= ki_max p \/ fj s' >= kj_max p \/ fr s' >= cs) /\
    fi s <= fi s' /\ fj s <= fj s' /\ fr s <= fr s' /\
    (fi s < ki_max p -> fj s < kj_max p -> fr s < cs ->
     fi s + fj s + fr s < fi s' + fj s' + fr s').
Proof.
  induction fuel as [|fuel IH]; intros p la lb ra rb s ol orr O HW HB HP HL HA HO Hf.
  - pose proof (kmeas_nonneg p s HB HP). lia.
  - cbn [krun].
    destruct (kstep_ok k emit L R inv cs K p la lb ra rb s ol orr O HW HB HP HL HA HO)
      as [[E Hstop]|(s1 & O1 & E & HB1 & HP1 & HL1 & HA1 & HO1 & Hi1 & Hj1 & Hr1 & Hm1 & Hprog)].
    + rewrite E. cbn [bind]. exists s, O. splits; try assumption; try reflexivity; try lia.
    + rewrite E. cbn [bind].
      destruct (IH p la lb ra rb s1 ol orr O1 HW HB1 HP1 HL1 HA1 HO1 ltac:(lia))
        as (s' & O' & E' & HB' & HP' & HA' & HO' & Hstop' & Hi' & Hj' & Hr' & Hprog').
      exists s', O'. split; [exact E'|]. splits; try assumption; try lia.
Qed.

(* ---------------------------------------------------------------- driver invariants *)
Definition params_of (d:drv) : kparams :=
  mkkp (left_ d) (i_max_ d) (right_ d) (j_max_ d) inv (i_off_ d) (j_off_ d).

Definition GI (d:drv) : Z := i_off_ d + fi (df d).
Definition GJ (d:drv) : Z := j_off_ d + fj (df d).

Definition MidInv (d:drv) (O:list (Z * Z)) : Prop :=
  Win k emit L R inv cs (params_of d) (fst (lch d)) (snd (lch d)) (fst (rch d)) (snd (rch d)) /\
  Buf cs (df d) /\ Pos (params_of d) (df d) /\
  AbsK (GI d) (GJ d) (sub_of (df d)) O /\
  OutRel k emit (outl d) (outr d) (df d) O.

Definition HeadL (d:drv) : Prop := fi (df d) < i_max_ d \/ GI d = len L.
Definition HeadR (d:drv) : Prop := fj (df d) < j_max_ d \/ GJ d = len R.

Definition DInv (d:drv) (O:list (Z * Z)) : Prop :=
  MidInv d O /\ fr (df d) = 0 /\ HeadL d /\ HeadR d.

Definition CAP : Z := len L * len R + len L + len R.
Definition dmeas (d:drv) (O:list (Z * Z)) : Z := (len L - GI d) + (len R - GJ d) + (CAP - len O).

Lemma MidInv_bounds d O : MidInv d O -> 0 <= GI d <= len L /\ 0 <= GJ d <= len R.
Proof.
  intros (HW & HB & HP & _).
  destruct HW as (_ & Hio & Him & HcL & Hjo & Hjm & HcR).
  destruct HcL as (HL1 & HL2 & HL3 & _). destruct HcR as (HR1 & HR2 & HR3 & _).
  destruct HP as (Hi & Hj & _). unfold GI, GJ. unfold params_of in *. cbn [ki_off ki_max kj_off kj_max] in *. lia.
Qed.

Lemma len_map_snd (O:list (Z*Z)) : len (map snd O) = len O.
Proof. unfold len. rewrite map_length. reflexivity. Qed.

Lemma MidInv_lenO d O : MidInv d O -> len O = len (outr d) + fr (df d).
Proof.
  intros (_ & (Hbl & Hbr & Hbrr) & _ & _ & (HOr & _)).
  rewrite <- (len_map_snd O), <- HOr, len_app, len_slice by lia. lia.
Qed.

Lemma dmeas_nonneg d O : MidInv d O -> 0 <= dmeas d O.
Proof.
  intros HD. pose proof (MidInv_bounds d O HD) as (HI & HJ).
  destruct HD as (_ & _ & _ & HA & _).
  pose proof (Abs_len k emit L R inv cs K _ _ _ _ HA HI HJ). unfold dmeas, CAP. lia.
Qed.

(* the only error the driver can end in: the clear ValueError of get_next_chunk, and only when a
   whole window of cs keys on a trimmed side is one run that continues beyond the window *)
Definition long_run_in (X:list Z) : Prop :=
  exists a, 0 <= a /\ a + cs < len X /\ forall k, a < k < a + cs -> nthZ X (k - 1) = nthZ X k.
Definition LongRun : Prop :=
  (v_ltrim v = true /\ long_run_in L) \/ (v_rtrim v = true /\ long_run_in R).

Lemma fetch_raise_long trim start X :
  0 <= start <= len X -> fetch_chunk trim start cs X = Raise E_ValueError -> trim = true /\ long_run_in X.
Proof.
  intros Hs Hr. destruct (fetch_chunk_raise trim start cs X Hcs Hs Hr) as (Ht & Hlt & Hall).
  split; [exact Ht|]. exists start. splits; try lia. exact Hall.
Qed.

(* ---------------------------------------------------------------- the three driver steps *)
Definition refill_l (d:drv) : res drv :=
  if (i_off_ d + fi (df d) <? len L) && (snd (lch d) - fst (lch d) <=? fi (df d)) then
    do c <- fetch_chunk (v_ltrim v) (snd (lch d)) cs L;
    Ok (mkdrv (set_i (df d) 0) (fst c) (snd c) (snd (fst c) - fst (fst c)) (fst (fst c))
              (rch d) (right_ d) (j_max_ d) (j_off_ d) (outl d) (outr d))
  else Ok d.

Definition refill_r (d:drv) : res drv :=
  if (j_off_ d + fj (df d) <? len R) && (snd (rch d) - fst (rch d) <=? fj (df d)) then
    do c <- fetch_chunk (v_rtrim v) (snd (rch d)) cs R;
    Ok (mkdrv (set_j (df d) 0) (lch d) (left_ d) (i_max_ d) (i_off_ d)
              (fst c) (snd c) (snd (fst c) - fst (fst c)) (fst (fst c)) (outl d) (outr d))
  else Ok d.

Lemma main_iter_unfold d :
  main_iter v L R inv cs d =
  if (fi (df d) + i_off_ d <? len L) && (fj (df d) + j_off_ d <? len R) then
    do s <- krun (kfuel d cs) k emit (params_of d) (df d);
    do d1 <- refill_l (set_f d s);
    do d2 <- refill_r d1;
    Ok (Some (flush (v_writes_l v) d2))
  else Ok None.
Proof. reflexivity. Qed.

Lemma refill_l_ok d O : MidInv d O ->
  (refill_l d = Raise E_ValueError /\ LongRun) \/
  exists d1, refill_l d = Ok d1 /\ MidInv d1 O /\ GI d1 = GI d /\ GJ d1 = GJ d /\
             fr (df d1) = fr (df d) /\ outr d1 = outr d /\ HeadL d1 /\ (HeadR d -> HeadR d1).
Proof.
  intros HM. pose proof (MidInv_bounds d O HM) as (HI & HJ). unfold refill_l.
  destruct ((i_off_ d + fi (df d) <? len L) && (snd (lch d) - fst (lch d) <=? fi (df d))) eqn:Ec.
  - destruct HM as (HW & HB & HP & HA & HO).
    destruct HW as (Hpinv & Hio & Him & HcL & Hjo & Hjm & HcR).
    destruct HP as (Hpi & Hpj & Hpinn).
    destruct d as [s lc le im io rc ri jm jo ol orr].
    unfold GI, GJ, HeadL, HeadR, MidInv, Win, Pos, OutRel, params_of in *.
    cbn [df lch left_ i_max_ i_off_ rch right_ j_max_ j_off_ outl outr
         kinv ki_off ki_max kleft kj_off kj_max kright] in *.
    destruct HcL as (HL1 & HL2 & HL3 & HLd & HL5 & HLt).
    assert (Hinn : finner s = false).
    { destruct (finner s) eqn:Ein; [|reflexivity]. specialize (Hpinn eq_refl). lia. }
    destruct (fetch_chunk_spec (v_ltrim v) (snd lc) cs L Hcs ltac:(lia)) as [Hr|(b & data & Ef & Hck)].
    + left. split; [rewrite Hr; reflexivity|]. left. apply (fetch_raise_long _ (snd lc)); [lia|exact Hr].
    + right. rewrite Ef. cbn [bind fst snd]. eexists. split; [reflexivity|].
      unfold GI, GJ, HeadL, HeadR, MidInv, Win, Pos, OutRel, params_of.
      cbn [df lch left_ i_max_ i_off_ rch right_ j_max_ j_off_ outl outr set_i fi fj fr lres rres finner
           kinv ki_off ki_max kleft kj_off kj_max kright fst snd].
      change (sub_of (set_i s 0)) with (sub_of s). destruct HO as (HOr & HOl).
      pose proof Hck as (Hk1 & Hk2 & Hk3 & Hk4 & Hk5 & Hk6).
      assert (HIeq : snd lc + 0 = io + fi s) by lia.
      splits; try reflexivity; try assumption; try lia.
      * rewrite HIeq. exact HA.
  - right. exists d. splits; try reflexivity; try assumption.
    + destruct HM as (HW & _). destruct HW as (_ & Hio & Him & _).
      unfold params_of in Hio, Him. cbn [ki_off ki_max] in Hio, Him. unfold HeadL, GI in *. lia.
    + auto.
Qed.

Lemma refill_r_ok d O : MidInv d O ->
  (refill_r d = Raise E_ValueError /\ LongRun) \/
  exists d1, refill_r d = Ok d1 /\ MidInv d1 O /\ GI d1 = GI d /\ GJ d1 = GJ d /\
             fr (df d1) = fr (df d) /\ outr d1 = outr d /\ HeadR d1 /\ (HeadL d -> HeadL d1).
Proof.
  intros HM. pose proof (MidInv_bounds d O HM) as (HI & HJ). unfold refill_r.
  destruct ((j_off_ d + fj (df d) <? len R) && (snd (rch d) - fst (rch d) <=? fj (df d))) eqn:Ec.
  - destruct HM as (HW & HB & HP & HA & HO).
    destruct HW as (Hpinv & Hio & Him & HcL & Hjo & Hjm & HcR).
    destruct HP as (Hpi & Hpj & Hpinn).
    destruct d as [s lc le im io rc ri jm jo ol orr].
    unfold GI, GJ, HeadL, HeadR, MidInv, Win, Pos, OutRel, params_of in *.
    cbn [df lch left_ i_max_ i_off_ rch right_ j_max_ j_off_ outl outr
         kinv ki_off ki_max kleft kj_off kj_max kright] in *.
    destruct HcR as (HR1 & HR2 & HR3 & HRd & HR5 & HRt).
    assert (Hinn : finner s = false).
    { destruct (finner s) eqn:Ein; [|reflexivity]. specialize (Hpinn eq_refl). lia. }
    destruct (fetch_chunk_spec (v_rtrim v) (snd rc) cs R Hcs ltac:(lia)) as [Hr|(b & data & Ef & Hck)].
    + left. split; [rewrite Hr; reflexivity|]. right. apply (fetch_raise_long _ (snd rc)); [lia|exact Hr].
    + right. rewrite Ef. cbn [bind fst snd]. eexists. split; [reflexivity|].
      unfold GI, GJ, HeadL, HeadR, MidInv, Win, Pos, OutRel, params_of.
      cbn [df lch left_ i_max_ i_off_ rch right_ j_max_ j_off_ outl outr set_j fi fj fr lres rres finner
           kinv ki_off ki_max kleft kj_off kj_max kright fst snd].
      change (sub_of (set_j s 0)) with (sub_of s). destruct HO as (HOr & HOl).
      pose proof Hck as (Hk1 & Hk2 & Hk3 & Hk4 & Hk5 & Hk6).
      assert (HJeq : snd rc + 0 = jo + fj s) by lia.
      splits; try reflexivity; try assumption; try lia.
      * rewrite HJeq. exact HA.
  - right. exists d. splits; try reflexivity; try assumption.
    + destruct HM as (HW & _). destruct HW as (_ & _ & _ & _ & Hjo & Hjm & _).
      unfold params_of in Hjo, Hjm. cbn [kj_off kj_max] in Hjo, Hjm. unfold HeadR, GJ in *. lia.
    + auto.
Qed.

Lemma slice_0_0 {A} (l:list A) : slice l 0 0 = [].
Proof. reflexivity. Qed.

Lemma flush_ok d O : MidInv d O -> HeadL d -> HeadR d ->
  DInv (flush (v_writes_l v) d) O /\ GI (flush (v_writes_l v) d) = GI d /\ GJ (flush (v_writes_l v) d) = GJ d.
Proof.
  intros HM HhL HhR. unfold flush. destruct (0 <? fr (df d)) eqn:Efl.
  - destruct HM as (HW & HB & HP & HA & HO).
    destruct d as [s lc le im io rc ri jm jo ol orr].
    unfold DInv, GI, GJ, HeadL, HeadR, MidInv, Win, Pos, OutRel, Buf, params_of in *.
    cbn [df lch left_ i_max_ i_off_ rch right_ j_max_ j_off_ outl outr set_r fi fj fr lres rres finner
         kinv ki_off ki_max kleft kj_off kj_max kright] in *.
    change (sub_of (set_r s 0)) with (sub_of s).
    destruct HO as (HOr & HOl). rewrite !slice_0_0, !app_nil_r.
    destruct HW as (? & ? & ? & ? & ? & ? & ?). destruct HB as (? & ? & ?). destruct HP as (? & ? & ?).
    splits; try assumption; try reflexivity; try lia.
    unfold wl in *. destruct (v_writes_l v); assumption.
  - assert (Hfr0 : fr (df d) = 0) by (destruct HM as (_ & (_ & _ & ?) & _); lia).
    split; [|split; reflexivity]. unfold DInv. splits; assumption.
Qed.

(* one iteration of the main loop *)
Lemma main_iter_ok d O : DInv d O ->
  (main_iter v L R inv cs d = Raise E_ValueError /\ LongRun) \/
  (main_iter v L R inv cs d = Ok None /\ (GI d = len L \/ GJ d = len R)) \/
  (exists d' O', main_iter v L R inv cs d = Ok (Some d') /\ DInv d' O' /\ dmeas d' O' < dmeas d O).
Proof.
  intros (HM & Hr0 & HhL & HhR).
  pose proof (MidInv_bounds d O HM) as (HI & HJ).
  pose proof (MidInv_lenO d O HM) as HlenO.
  rewrite main_iter_unfold.
  replace (fi (df d) + i_off_ d) with (GI d) by (unfold GI; lia).
  replace (fj (df d) + j_off_ d) with (GJ d) by (unfold GJ; lia).
  destruct ((GI d <? len L) && (GJ d <? len R)) eqn:Econd;
    [|right; left; split; [reflexivity|lia]].
  destruct HM as (HW & HB & HP & HA & HO).
  assert (HLoc : LocK (df d)).
  { apply Loc_init; [exact Hr0| |]; destruct HP as (? & ? & _); lia. }
  assert (Hhi : fi (df d) < i_max_ d) by (unfold HeadL in HhL; lia).
  assert (Hhj : fj (df d) < j_max_ d) by (unfold HeadR in HhR; lia).
  assert (Hfuel : Z.of_nat (kfuel d cs) > kmeas cs (params_of d) (df d)).
  { clear - HW HB HP Hcs. unfold kfuel, kmeas.
    destruct HW as (_ & Hio & Him & HcL & Hjo & Hjm & HcR).
    destruct HcL as (HL1 & HL2 & HL3 & HLd & _). destruct HcR as (HR1 & HR2 & HR3 & HRd & _).
    destruct HP as (Hi & Hj & _). destruct HB as (_ & _ & Hrr).
    unfold params_of in *. cbn [ki_off ki_max kj_off kj_max kleft kright] in *.
    assert (Hlenl : len (left_ d) = Z.min (fst (lch d) + cs) (len L) - fst (lch d))
      by (rewrite HLd; apply len_slice; lia).
    assert (Hlenr : len (right_ d) = Z.min (fst (rch d) + cs) (len R) - fst (rch d))
      by (rewrite HRd; apply len_slice; lia).
    unfold len in *. destruct (finner (df d)); lia. }
  assert (HA0 : AbsK (fst (lch d) + fi (df d)) (fst (rch d) + fj (df d)) (sub_of (df d)) O).
  { destruct HW as (_ & Hio & _ & _ & Hjo & _). unfold params_of in Hio, Hjo. cbn [ki_off kj_off] in Hio, Hjo.
    unfold GI, GJ in HA. rewrite <- Hio, <- Hjo. exact HA. }
  destruct (krun_ok (kfuel d cs) (params_of d) _ _ _ _ (df d) (outl d) (outr d) O HW HB HP HLoc HA0 HO Hfuel)
    as (s' & O' & E & HB' & HP' & HA' & HO' & Hstop & Hi' & Hj' & Hr' & Hprog).
  rewrite E. cbn [bind].
  assert (Hprog' : fi (df d) + fj (df d) + fr (df d) < fi s' + fj s' + fr s').
  { apply Hprog; unfold params_of; cbn [ki_max kj_max]; lia. }
  assert (HM1 : MidInv (set_f d s') O').
  { unfold MidInv, set_f, GI, GJ, params_of.
    cbn [df lch left_ i_max_ i_off_ rch right_ j_max_ j_off_ outl outr].
    splits; try assumption.
    destruct HW as (_ & Hio & _ & _ & Hjo & _). unfold params_of in Hio, Hjo. cbn [ki_off kj_off] in Hio, Hjo.
    rewrite Hio, Hjo. exact HA'. }
  assert (HGI1 : GI (set_f d s') = i_off_ d + fi s') by reflexivity.
  assert (HGJ1 : GJ (set_f d s') = j_off_ d + fj s') by reflexivity.
  assert (Hfr1 : fr (df (set_f d s')) = fr s') by reflexivity.
  assert (Hor1 : outr (set_f d s') = outr d) by reflexivity.
  pose proof (MidInv_lenO _ _ HM1) as HlenO1. rewrite Hfr1, Hor1 in HlenO1.
  destruct (refill_l_ok _ _ HM1) as [(Hr & Hlong)|(d1 & E1 & HMd1 & HI1 & HJ1 & Hfrd1 & Hord1 & HhL1 & _)];
    [left; split; [rewrite Hr; reflexivity|exact Hlong]|].
  rewrite E1. cbn [bind].
  destruct (refill_r_ok _ _ HMd1) as [(Hr & Hlong)|(d2 & E2 & HMd2 & HI2 & HJ2 & Hfrd2 & Hord2 & HhR2 & HhL2)];
    [left; split; [rewrite Hr; reflexivity|exact Hlong]|].
  rewrite E2. cbn [bind].
  right. right.
  destruct (flush_ok _ _ HMd2 (HhL2 HhL1) HhR2) as (HD & HIf & HJf).
  eexists _, O'. split; [reflexivity|]. split; [exact HD|].
  unfold dmeas. rewrite HIf, HJf, HI2, HJ2, HI1, HJ1, HGI1, HGJ1. unfold GI, GJ. lia.
Qed.

(* ---------------------------------------------------------------- the main loop *)
Lemma main_loop_ok : forall fuel d O, DInv d O -> Z.of_nat fuel > dmeas d O ->
  (main_loop fuel v L R inv cs d = Raise E_ValueError /\ LongRun) \/
  exists d' O', main_loop fuel v L R inv cs d = Ok d' /\ DInv d' O' /\ (GI d' = len L \/ GJ d' = len R).
Proof.
  induction fuel as [|fuel IH]; intros d O HD Hf.
  - destruct HD as (HM & _). pose proof (dmeas_nonneg d O HM). lia.
  - cbn [main_loop].
    destruct (main_iter_ok d O HD) as [(Hr & Hlong)|[(E & Hend)|(d' & O' & E & HD' & Hm)]].
    + left. split; [rewrite Hr; reflexivity|exact Hlong].
    + right. rewrite E. cbn [bind]. exists d, O. auto.
    + rewrite E. cbn [bind]. apply (IH d' O' HD'). lia.
Qed.

(* ---------------------------------------------------------------- the tail loop (to_left drivers) *)
Lemma slice_upd_snoc (l:list Z) r x : 0 <= r < len l -> slice (upd l r x) 0 (r + 1) = slice l 0 r ++ [x].
Proof.
  intros H. unfold slice, upd. cbn [Z.to_nat skipn]. rewrite !Z.sub_0_r.
  replace (Z.to_nat (r + 1)) with (S (Z.to_nat r)) by lia.
  apply firstn_succ_upd_nat. unfold len in H. lia.
Qed.

Lemma remaining_ok both i_max i_off : 0 <= i_off -> forall fuel s,
  len (lres s) = cs -> len (rres s) = cs -> 0 <= fr s -> 0 <= fi s <= i_max ->
  fr s + (i_max - fi s) <= cs -> Z.of_nat fuel > i_max - fi s ->
  exists s', remaining fuel both i_max i_off inv s = Ok s' /\
    fi s' = i_max /\ fj s' = fj s /\ fr s' = fr s + (i_max - fi s) /\ sub_of s' = sub_of s /\
    len (lres s') = cs /\ len (rres s') = cs /\
    slice (rres s') 0 (fr s') = slice (rres s) 0 (fr s) ++ map (fun _ => inv) (seqZ (i_off + fi s) (i_max - fi s)) /\
    (if both then slice (lres s') 0 (fr s') = slice (lres s) 0 (fr s) ++ seqZ (i_off + fi s) (i_max - fi s)
     else lres s' = lres s).
Proof.
  intros Hoff. induction fuel as [|fuel IH]; intros s Hll Hlr Hr0 Hi Hfit Hf; [lia|].
  cbn [remaining].
  destruct (fi s <? i_max) eqn:Ei.
  - assert (Hg : (fr s <? len (if both then lres s else rres s)) = true) by (destruct both; lia).
    rewrite Hg. cbn [andb].
    assert (Hl' : (if both then set 50 (lres s) (fr s) (i_off + fi s) else Ok (lres s)) =
                  Ok (if both then upd (lres s) (fr s) (i_off + fi s) else lres s)).
    { destruct both; [apply set_ok; lia|reflexivity]. }
    rewrite Hl'. cbn [bind]. rewrite set_ok by lia. cbn [bind].
    set (s1 := upd_ijr s (fi s + 1) (fj s) (fr s + 1)
                 (if both then upd (lres s) (fr s) (i_off + fi s) else lres s) (upd (rres s) (fr s) inv)).
    destruct (IH s1) as (s' & E & H1 & H2 & H3 & H4 & H5 & H6 & H7 & H8);
      unfold s1; cbn [upd_ijr fi fj fr lres rres]; try lia.
    { destruct both; [rewrite len_upd|]; assumption. }
    { rewrite len_upd; assumption. }
    exists s'. split; [exact E|]. unfold s1 in *. cbn [upd_ijr fi fj fr lres rres] in *.
    splits; try assumption; try lia.
    + rewrite H7. rewrite slice_upd_snoc by lia.
      rewrite (seqZ_cons (i_off + fi s) (i_max - fi s)) by lia. cbn [map]. rewrite <- app_assoc. cbn [app].
      replace (i_off + (fi s + 1)) with (i_off + fi s + 1) by lia.
      replace (i_max - (fi s + 1)) with (i_max - fi s - 1) by lia. reflexivity.
    + destruct both; [|assumption].
      rewrite H8. rewrite slice_upd_snoc by lia.
      rewrite (seqZ_cons (i_off + fi s) (i_max - fi s)) by lia. rewrite <- app_assoc. cbn [app].
      replace (i_off + (fi s + 1)) with (i_off + fi s + 1) by lia.
      replace (i_max - (fi s + 1)) with (i_max - fi s - 1) by lia. reflexivity.
  - cbn [andb]. exists s. assert (fi s = i_max) by lia.
    splits; try reflexivity; try assumption; try lia.
    + rewrite seqZ_nil by lia. cbn [map]. rewrite app_nil_r. reflexivity.
    + destruct both; [|reflexivity]. rewrite seqZ_nil by lia. rewrite app_nil_r. reflexivity.
Qed.

(* the tail-loop invariant: everything in O0, then the unmatched left rows I0 .. GI-1 *)
Definition TInv (d:drv) (I0:Z) (O0:list (Z * Z)) : Prop :=
  let O := O0 ++ unmatched inv I0 (GI d) in
  Buf cs (df d) /\ fr (df d) = 0 /\
  0 <= fst (lch d) <= snd (lch d) /\ snd (lch d) <= len L /\ snd (lch d) <= fst (lch d) + cs /\
  i_off_ d = fst (lch d) /\ i_max_ d = snd (lch d) - fst (lch d) /\
  0 <= fi (df d) <= i_max_ d /\ I0 <= GI d /\ 0 <= I0 /\
  (fi (df d) < i_max_ d \/ GI d = len L) /\
  outr d = map snd O /\ (if WL then outl d = map fst O else outl d = []).

Lemma unmatched_app a b c : 0 <= a <= b -> b <= c ->
  unmatched inv a c = unmatched inv a b ++ unmatched inv b c.
Proof.
  intros H1 H2. unfold unmatched, seqZ. rewrite <- map_app, <- map_app. f_equal. f_equal.
  replace (Z.to_nat (c - a)) with (Z.to_nat (b - a) + Z.to_nat (c - b))%nat by lia.
  rewrite seq_app. f_equal. f_equal. lia.
Qed.

Lemma map_snd_unmatched a b : map snd (unmatched inv a b) = map (fun _ => inv) (seqZ a (b - a)).
Proof. unfold unmatched. rewrite map_map. reflexivity. Qed.
Lemma map_fst_unmatched a b : map fst (unmatched inv a b) = seqZ a (b - a).
Proof. unfold unmatched. rewrite map_map. cbn [fst]. apply map_id. Qed.

Lemma tail_loop_ok : forall fuel d I0 O0, emit = true -> TInv d I0 O0 -> Z.of_nat fuel > len L - GI d ->
  exists d', tail_loop fuel v L inv cs d = Ok d' /\
    outr d' = map snd (O0 ++ unmatched inv I0 (len L)) /\
    (if WL then outl d' = map fst (O0 ++ unmatched inv I0 (len L)) else outl d' = []).
Proof.
  induction fuel as [|fuel IH]; intros d I0 O0 Hemit HT Hf.
  - destruct HT as (_ & _ & Hc1 & Hc2 & _ & Hio & Him & Hi & _). unfold GI in Hf. lia.
  - cbn [tail_loop].
    replace (fi (df d) + i_off_ d) with (GI d) by (unfold GI; lia).
    destruct (GI d <? len L) eqn:Ec.
    + destruct HT as (HB & Hr0 & Hc1 & Hc2 & Hc3 & Hio & Him & Hi & HI0 & HI00 & Hhead & Hor & Hol).
      destruct HB as (Hbl & Hbr & Hbrr).
      destruct (remaining_ok (v_writes_l v) (i_max_ d) (i_off_ d) ltac:(lia) (S (S (Z.to_nat cs))) (df d))
        as (s' & E & H1 & H2 & H3 & H4 & H5 & H6 & H7 & H8); try lia.
      rewrite E. cbn [bind].
      rewrite Hr0, slice_0_0 in H7. cbn [app] in H7. rewrite Hr0 in H3.
      assert (Hnc : next_chunk (snd (lch d)) (len L) cs = (snd (lch d), Z.min (snd (lch d) + cs) (len L)))
        by (apply next_chunk_eq; lia).
      rewrite Hnc. cbn [fst snd].
      set (d1 := mkdrv (set_i s' 0) (snd (lch d), Z.min (snd (lch d) + cs) (len L)) (left_ d)
                       (Z.min (snd (lch d) + cs) (len L) - snd (lch d)) (snd (lch d))
                       (rch d) (right_ d) (j_max_ d) (j_off_ d) (outl d) (outr d)).
      assert (HGI1 : GI (flush (v_writes_l v) d1) = snd (lch d)).
      { unfold flush, d1. cbn [df]. destruct (0 <? fr (set_i s' 0)); unfold GI; cbn; lia. }
      assert (HGId : GI d = fst (lch d) + fi (df d)) by (unfold GI; lia).
      apply (IH (flush (v_writes_l v) d1) I0 O0 Hemit); [|rewrite HGI1; unfold GI in *; lia].
      assert (Hun : unmatched inv I0 (snd (lch d)) = unmatched inv I0 (GI d) ++ unmatched inv (GI d) (snd (lch d)))
        by (apply unmatched_app; lia).
      assert (Hcnt : snd (lch d) - GI d = i_max_ d - fi (df d)) by lia.
      unfold TInv. rewrite HGI1. unfold flush, d1. cbn [df].
      change (fr (set_i s' 0)) with (fr s').
      destruct (0 <? fr s') eqn:Efl.
      * cbn [df lch left_ i_max_ i_off_ rch right_ j_max_ j_off_ outl outr set_r set_i fi fj fr lres rres fst snd].
        unfold Buf. cbn [lres rres fr].
        rewrite Hun, app_assoc, (map_app snd), (map_app fst), map_snd_unmatched, map_fst_unmatched.
        splits; try assumption; try reflexivity; try lia.
        -- cbn. lia.
        -- rewrite Hor. f_equal. rewrite H7. rewrite Hcnt. rewrite HGId, Hio. reflexivity.
        -- unfold wl in *. destruct (v_writes_l v); [|assumption].
           rewrite Hr0, slice_0_0 in H8. cbn [app] in H8. rewrite H8, Hol. rewrite Hcnt, HGId, Hio. reflexivity.
      * assert (fr s' = 0) by lia. lia.
    + exists d. split; [reflexivity|].
      destruct HT as (HB & Hr0 & Hc1 & Hc2 & Hc3 & Hio & Him & Hi & HI0 & HI00 & Hhead & Hor & Hol).
      assert (GI d = len L) by (unfold GI in *; lia).
      rewrite <- H. split; assumption.
Qed.

(* ---------------------------------------------------------------- the whole driver *)
Definition spec_out : list Z * list Z :=
  let sp := join_spec emit inv L R in
  (if WL then map fst sp else [], map snd sp).

Theorem streamed_ok :
  streamed v L R inv cs = Ok spec_out \/ (streamed v L R inv cs = Raise E_ValueError /\ LongRun).
Proof.
  unfold streamed.
  pose proof (len_nonneg L) as HLn. pose proof (len_nonneg R) as HRn.
  destruct (fetch_chunk_spec (v_ltrim v) 0 cs L Hcs ltac:(lia)) as [Hr|(lb & ldata & El & HckL)];
    [right; split; [rewrite Hr; reflexivity|left; apply (fetch_raise_long _ 0); [lia|exact Hr]]|].
  rewrite El. cbn [bind].
  destruct (fetch_chunk_spec (v_rtrim v) 0 cs R Hcs ltac:(lia)) as [Hr|(rb & rdata & Er & HckR)];
    [right; split; [rewrite Hr; reflexivity|right; apply (fetch_raise_long _ 0); [lia|exact Hr]]|].
  rewrite Er. cbn [bind fst snd].
  set (buf := repeat 0 (Z.to_nat cs)).
  set (s0 := mkfsm 0 0 0 0 0 (-1) (-1) false buf buf).
  set (d0 := mkdrv s0 (0, lb) ldata (lb - 0) 0 (0, rb) rdata (rb - 0) 0 [] []).
  assert (Hbuf : len buf = cs) by (unfold buf, len; rewrite repeat_length; lia).
  assert (HD0 : DInv d0 []).
  { pose proof HckL as (Hk1 & Hk2 & Hk3 & Hk4 & Hk5 & Hk6).
    pose proof HckR as (Hq1 & Hq2 & Hq3 & Hq4 & Hq5 & Hq6).
    unfold DInv, MidInv, Win, Buf, Pos, OutRel, HeadL, HeadR, GI, GJ, params_of, d0, s0.
    cbn [df lch left_ i_max_ i_off_ rch right_ j_max_ j_off_ outl outr fi fj fr lres rres finner
         kinv ki_off ki_max kleft kj_off kj_max kright fst snd sub_of fii fjj fiimax fjjmax].
    rewrite !slice_0_0. cbn [app map].
    splits; try reflexivity; try assumption; try lia.
    - exact (Abs_init k emit L R inv cs K).
    - destruct WL; reflexivity. }
  assert (Hfuel : Z.of_nat (driver_fuel L R) > dmeas d0 []).
  { unfold driver_fuel, dmeas, CAP, GI, GJ, d0, s0. cbn [df i_off_ j_off_ fi fj]. unfold len. cbn [length]. nia. }
  destruct (main_loop_ok (driver_fuel L R) d0 [] HD0 Hfuel) as [(Hr & Hlong)|(d1 & O1 & E1 & HD1 & Hend)];
    [right; split; [rewrite Hr; reflexivity|exact Hlong]|].
  rewrite E1. cbn [bind].
  pose proof HD1 as (HM1 & Hr1 & HhL1 & HhR1).
  pose proof (MidInv_bounds d1 O1 HM1) as (HI1 & HJ1).
  pose proof HM1 as (HW1 & HB1 & HP1 & HA1 & HO1).
  assert (Hinn1 : s_inner (sub_of (df d1)) = false).
  { cbn [sub_of s_inner]. destruct (finner (df d1)) eqn:Ein; [|reflexivity].
    destruct HP1 as (Hpi & Hpj & Hpinn). specialize (Hpinn Ein).
    destruct HW1 as (_ & Hio & Him & HcL & Hjo & Hjm & HcR).
    destruct HcL as (? & ? & ? & _). destruct HcR as (? & ? & ? & _).
    unfold params_of in *. cbn [ki_off ki_max kj_off kj_max] in *. unfold GI, GJ in *. lia. }
  pose proof (Abs_final k emit L R inv cs K _ _ _ _ HA1 Hinn1 HI1 HJ1 Hend) as Hfinal.
  destruct HO1 as (HOr & HOl). rewrite Hr1, !slice_0_0, !app_nil_r in HOr, HOl.
  cbn [v_left].
  destruct (Bool.bool_dec emit true) as [Eemit|Eemit].
  - (* to_left: tail loop *)
    match goal with |- (do d2 <- (if emit then ?X else ?Y); _) = _ \/ _ =>
      replace (if emit then X else Y) with X by (rewrite Eemit; reflexivity) end.
    assert (HT : TInv d1 (GI d1) O1).
    { unfold TInv.
      destruct HW1 as (_ & Hio & Him & HcL & _). destruct HcL as (? & ? & ? & _).
      destruct HP1 as (Hpi & _). unfold params_of in *. cbn [ki_off ki_max] in *.
      assert (Hu : unmatched inv (GI d1) (GI d1) = []) by (unfold unmatched; rewrite seqZ_nil by lia; reflexivity).
      rewrite Hu, app_nil_r.
      splits; try assumption; try lia. }
    destruct (tail_loop_ok (S (S (length L))) d1 (GI d1) O1 Eemit HT) as (d2 & E2 & Hor2 & Hol2).
    { unfold len in *. lia. }
    rewrite E2. cbn [bind]. left. unfold spec_out. rewrite <- Hfinal.
    replace (if emit then unmatched inv (GI d1) (len L) else []) with (unmatched inv (GI d1) (len L))
      by (rewrite Eemit; reflexivity).
    rewrite Hor2. f_equal. f_equal. clear - Hol2. unfold wl in *. destruct (v_writes_l v); assumption.
  - assert (Ef : emit = false) by (apply Bool.not_true_is_false; exact Eemit).
    match goal with |- (do d2 <- (if emit then ?X else ?Y); _) = _ \/ _ =>
      replace (if emit then X else Y) with Y by (rewrite Ef; reflexivity) end.
    cbn [bind]. left. unfold spec_out. rewrite <- Hfinal.
    replace (if emit then unmatched inv (GI d1) (len L) else []) with (@nil (Z*Z))
      by (rewrite Ef; reflexivity).
    rewrite app_nil_r. rewrite HOr. f_equal. f_equal. clear - HOl. unfold wl in *. destruct (v_writes_l v); assumption.
Qed.

End Driver.
