(* Proofs/MiscKernelsBase.v — zipper lemmas: an array seen as  done ++ rest  with the cursor at len done. *)
From Coq Require Import ZArith List Lia Bool.
From EV Require Import Res Arr.
Import ListNotations.
Open Scope Z_scope.

Section Poly.
Context {A:Type}.

Lemma get_mid site (pre:list A) x t i : len pre = i -> get site (pre ++ x :: t) i = Ok x.
Proof.
  intros <-. unfold get, len. replace (Z.of_nat (length pre) <? 0) with false by (symmetry; apply Z.ltb_ge; lia).
  rewrite Nat2Z.id. rewrite nth_error_app2 by lia. rewrite Nat.sub_diag. reflexivity.
Qed.

Lemma get_head site (x:A) t : get site (x :: t) 0 = Ok x.
Proof. reflexivity. Qed.

Lemma get_end site (pre:list A) i : len pre = i -> get site pre i = OOB site.
Proof. intros <-. apply get_oob. lia. Qed.

Lemma set_nat_mid (pre:list A) x t v : set_nat (pre ++ x :: t) (length pre) v = Some (pre ++ v :: t).
Proof. induction pre as [|h p IH]; cbn; [reflexivity|]. rewrite IH. reflexivity. Qed.

Lemma set_mid site (pre:list A) x t i v : len pre = i -> set site (pre ++ x :: t) i v = Ok (pre ++ v :: t).
Proof.
  intros <-. unfold set, len. replace (Z.of_nat (length pre) <? 0) with false by (symmetry; apply Z.ltb_ge; lia).
  rewrite Nat2Z.id, set_nat_mid. reflexivity.
Qed.

Lemma set_end site (pre:list A) i v : len pre = i -> set site pre i v = OOB site.
Proof. intros <-. apply set_oob. lia. Qed.

Lemma app_snoc (pre:list A) x t : (pre ++ [x]) ++ t = pre ++ x :: t.
Proof. rewrite <- app_assoc. reflexivity. Qed.

Lemma len_snoc (pre:list A) x : len (pre ++ [x]) = len pre + 1.
Proof. rewrite len_app. reflexivity. Qed.

Lemma ltb_len_nil (pre:list A) i : len pre = i -> (i <? len (pre ++ [])) = false.
Proof. intros <-. rewrite app_nil_r. apply Z.ltb_irrefl. Qed.

Lemma ltb_len_cons (pre:list A) x t i : len pre = i -> (i <? len (pre ++ x :: t)) = true.
Proof. intros <-. rewrite len_app, len_cons. apply Z.ltb_lt. pose proof (len_nonneg t). lia. Qed.

Lemma len_mid (pre:list A) x t : len (pre ++ x :: t) = len pre + len t + 1.
Proof. rewrite len_app, len_cons. lia. Qed.

Lemma len_length (l:list A) : len l = Z.of_nat (length l).
Proof. reflexivity. Qed.

Lemma len_repeat (x:A) n : len (repeat x n) = Z.of_nat n.
Proof. unfold len. rewrite repeat_length. reflexivity. Qed.

Lemma skipn_len_app (pre t:list A) : skipn (length pre) (pre ++ t) = t.
Proof. induction pre; cbn; auto. Qed.

Lemma firstn_len_app (pre t:list A) : firstn (length pre) (pre ++ t) = pre.
Proof. induction pre; cbn; [destruct t; reflexivity|]. f_equal. assumption. Qed.

Lemma skipn_add (a b:nat) (l:list A) : skipn (a + b) l = skipn b (skipn a l).
Proof. revert l. induction a as [|a IH]; intros l; [reflexivity|]. destruct l; cbn; [destruct b; reflexivity|apply IH]. Qed.

End Poly.

Lemma bind_Ok {A B} (a:A) (f:A -> res B) : bind (Ok a) f = f a.
Proof. reflexivity. Qed.
