(* Proofs/SpansRleReduce.v — per-span reductions answered on a run-length encoding are the reference
   reductions (hence, on valid spans, the statement-level kernels) on the expanded column. *)
From Coq Require Import ZArith List Lia Bool.
From EV Require Import Res Arr Spans SpansSpec SpansBase SpansOrder SpansReduce SpansMain SpansRle SpansRleProofs.
Import ListNotations.
Open Scope Z_scope.

Section Lists.
Context {A:Type}.

Lemma firstn_repeat (v:A) k n : firstn k (repeat v n) = repeat v (Nat.min k n).
Proof.
  revert n; induction k as [|k IH]; intros n; [reflexivity|].
  destruct n; [reflexivity|]. cbn [repeat firstn Nat.min]. f_equal. apply IH.
Qed.

Lemma skipn_repeat' (v:A) k n : skipn k (repeat v n) = repeat v (n - k).
Proof.
  revert n; induction k as [|k IH]; intros n; [cbn; f_equal; lia|].
  destruct n; [reflexivity|]. cbn [repeat skipn]. apply IH.
Qed.

Lemma expand_skip (rl:list (A * Z)) : forall k, expand (rle_skip k rl) = skipn (Z.to_nat k) (expand rl).
Proof.
  induction rl as [|[v n] t IH]; intros k; [cbn; rewrite skipn_nil; reflexivity|].
  cbn [rle_skip]. destruct (k <=? 0) eqn:Ek.
  - apply Z.leb_le in Ek. replace (Z.to_nat k) with 0%nat by lia. reflexivity.
  - apply Z.leb_gt in Ek. destruct (n <=? k) eqn:En.
    + apply Z.leb_le in En. rewrite IH. cbn [expand]. rewrite skipn_app, repeat_length.
      rewrite skipn_repeat'. replace (Z.to_nat n - Z.to_nat k)%nat with 0%nat by lia. cbn [repeat app].
      f_equal. lia.
    + apply Z.leb_gt in En. cbn [expand]. rewrite skipn_app, repeat_length, skipn_repeat'.
      replace (Z.to_nat k - Z.to_nat n)%nat with 0%nat by lia. cbn [skipn].
      f_equal. f_equal. lia.
Qed.

Lemma expand_take (rl:list (A * Z)) : forall k, expand (rle_take k rl) = firstn (Z.to_nat k) (expand rl).
Proof.
  induction rl as [|[v n] t IH]; intros k; [cbn; rewrite firstn_nil; reflexivity|].
  cbn [rle_take]. destruct (k <=? 0) eqn:Ek.
  - apply Z.leb_le in Ek. replace (Z.to_nat k) with 0%nat by lia. reflexivity.
  - apply Z.leb_gt in Ek. destruct (n <=? k) eqn:En.
    + apply Z.leb_le in En. cbn [expand]. rewrite IH, firstn_app, repeat_length, firstn_repeat.
      replace (Nat.min (Z.to_nat k) (Z.to_nat n)) with (Z.to_nat n) by lia.
      f_equal. f_equal. lia.
    + apply Z.leb_gt in En. cbn [expand]. rewrite firstn_app, repeat_length, firstn_repeat.
      replace (Nat.min (Z.to_nat k) (Z.to_nat n)) with (Z.to_nat k) by lia.
      replace (Z.to_nat k - Z.to_nat n)%nat with 0%nat by lia. cbn [firstn]. reflexivity.
Qed.

Theorem expand_slice (rl:list (A * Z)) a b : expand (rle_slice rl a b) = slice (expand rl) a b.
Proof. unfold rle_slice, slice. rewrite expand_take, expand_skip. reflexivity. Qed.

(* ---- what the values of the non-empty runs determine --------------------------------------------- *)
Lemma forallb_repeat (q:A -> bool) v k : forallb q (repeat v (S k)) = q v.
Proof.
  induction k as [|k IH]; [cbn; apply andb_true_r|].
  change (repeat v (S (S k))) with (v :: repeat v (S k)). cbn [forallb]. rewrite IH. apply andb_diag.
Qed.

Lemma forallb_expand (q:A -> bool) (rl:list (A * Z)) : forallb q (expand rl) = forallb q (rle_vals rl).
Proof.
  induction rl as [|[v n] t IH]; [reflexivity|]. cbn [expand rle_vals]. destruct (n <=? 0) eqn:En.
  - apply Z.leb_le in En. replace (Z.to_nat n) with 0%nat by lia. exact IH.
  - apply Z.leb_gt in En. destruct (Z.to_nat n) as [|k] eqn:Ek; [lia|].
    rewrite forallb_app, forallb_repeat, IH. reflexivity.
Qed.

Lemma find_repeat_app (p:A -> bool) v k rest :
  find p (repeat v (S k) ++ rest) = if p v then Some v else find p rest.
Proof.
  induction k as [|k IH]; [reflexivity|].
  change (repeat v (S (S k)) ++ rest) with (v :: (repeat v (S k) ++ rest)). cbn [find]. rewrite IH.
  destruct (p v); reflexivity.
Qed.

Lemma find_expand (p:A -> bool) (rl:list (A * Z)) : find p (expand rl) = find p (rle_vals rl).
Proof.
  induction rl as [|[v n] t IH]; [reflexivity|]. cbn [expand rle_vals]. destruct (n <=? 0) eqn:En.
  - apply Z.leb_le in En. replace (Z.to_nat n) with 0%nat by lia. exact IH.
  - apply Z.leb_gt in En. destruct (Z.to_nat n) as [|k] eqn:Ek; [lia|].
    rewrite find_repeat_app. cbn [find]. rewrite IH. reflexivity.
Qed.

Lemma find_index_nonneg (p:A -> bool) l : 0 <= find_index p l.
Proof. induction l as [|x t IH]; cbn [find_index]; [lia|]. destruct (p x); lia. Qed.

Lemma find_index_repeat_app (p:A -> bool) v k rest :
  find_index p (repeat v k ++ rest) = if p v then (if (k =? 0)%nat then find_index p rest else 0)
                                      else Z.of_nat k + find_index p rest.
Proof.
  induction k as [|k IH].
  - cbn [repeat app Nat.eqb]. destruct (p v); [reflexivity|]. cbn. reflexivity.
  - cbn [repeat app find_index Nat.eqb]. destruct (p v) eqn:Ep; [reflexivity|].
    rewrite IH. lia.
Qed.

Lemma find_index_expand (p:A -> bool) (rl:list (A * Z)) : find_index p (expand rl) = rle_find p rl.
Proof.
  induction rl as [|[v n] t IH]; [reflexivity|]. cbn [expand rle_find]. rewrite find_index_repeat_app, IH.
  destruct (n <=? 0) eqn:En.
  - apply Z.leb_le in En. replace (Z.to_nat n) with 0%nat by lia. cbn [Nat.eqb]. destruct (p v); [reflexivity|]. cbn. reflexivity.
  - apply Z.leb_gt in En. destruct (Z.to_nat n) as [|k] eqn:Ek; [lia|]. cbn [Nat.eqb].
    destruct (p v); [reflexivity|]. lia.
Qed.

Lemma find_ext (p q:A -> bool) l : (forall x, p x = q x) -> find p l = find q l.
Proof. intros H. induction l as [|x t IH]; [reflexivity|]. cbn [find]. rewrite H, IH. reflexivity. Qed.
Lemma find_index_ext (p q:A -> bool) l : (forall x, p x = q x) -> find_index p l = find_index q l.
Proof. intros H. induction l as [|x t IH]; [reflexivity|]. cbn [find_index]. rewrite H, IH. reflexivity. Qed.
Lemma rle_find_ext (p q:A -> bool) (rl:list (A * Z)) : (forall x, p x = q x) -> rle_find p rl = rle_find q rl.
Proof.
  intros H. induction rl as [|[v n] t IH]; [reflexivity|]. cbn [rle_find]. rewrite H, IH. reflexivity.
Qed.

(* the element at the position find_index returns *)
Lemma nthd_find_index (d:A) (p:A -> bool) l :
  nthd d l (find_index p l) = match find p l with Some x => x | None => d end.
Proof.
  induction l as [|x t IH]; [reflexivity|]. cbn [find_index find]. destruct (p x); [reflexivity|].
  rewrite Z.add_comm, nthd_cons_succ by apply find_index_nonneg. exact IH.
Qed.

Lemma nthd_0_expand (d:A) (rl:list (A * Z)) : nthd d (expand rl) 0 = nthd d (rle_vals rl) 0.
Proof.
  induction rl as [|[v n] t IH]; [reflexivity|]. cbn [expand rle_vals]. destruct (n <=? 0) eqn:En.
  - apply Z.leb_le in En. replace (Z.to_nat n) with 0%nat by lia. exact IH.
  - apply Z.leb_gt in En. destruct (Z.to_nat n) as [|k] eqn:Ek; [lia|]. reflexivity.
Qed.

Lemma nthd_last (d:A) l : nthd d l (len l - 1) = last l d.
Proof.
  induction l as [|x t IH]; [reflexivity|]. destruct t as [|y t']; [reflexivity|].
  rewrite len_cons. replace (len (y :: t') + 1 - 1) with ((len (y :: t') - 1) + 1) by lia.
  rewrite nthd_cons_succ by (rewrite len_cons; pose proof (len_nonneg t'); lia). rewrite IH. reflexivity.
Qed.

Lemma last_app_ne (d:A) l1 l2 : l2 <> [] -> last (l1 ++ l2) d = last l2 d.
Proof.
  intros H. induction l1 as [|x t IH]; [reflexivity|]. cbn [app].
  destruct (t ++ l2) as [|a l] eqn:E; [destruct t; cbn in E; congruence|]. cbn [last]. exact IH.
Qed.

Lemma last_repeat (d v:A) k : last (repeat v (S k)) d = v.
Proof. induction k as [|k IH]; [reflexivity|]. change (repeat v (S (S k))) with (v :: repeat v (S k)). cbn [last]. exact IH. Qed.

Lemma expand_nil_iff (rl:list (A * Z)) : expand rl = [] <-> rle_vals rl = [].
Proof.
  induction rl as [|[v n] t IH]; [tauto|]. cbn [expand rle_vals]. destruct (n <=? 0) eqn:En.
  - apply Z.leb_le in En. replace (Z.to_nat n) with 0%nat by lia. exact IH.
  - apply Z.leb_gt in En. destruct (Z.to_nat n) as [|k] eqn:Ek; [lia|]. cbn [repeat app]. split; discriminate.
Qed.

Lemma last_expand (d:A) (rl:list (A * Z)) : last (expand rl) d = last (rle_vals rl) d.
Proof.
  induction rl as [|[v n] t IH]; [reflexivity|]. cbn [expand rle_vals]. destruct (n <=? 0) eqn:En.
  - apply Z.leb_le in En. replace (Z.to_nat n) with 0%nat by lia. exact IH.
  - apply Z.leb_gt in En. destruct (Z.to_nat n) as [|k] eqn:Ek; [lia|].
    destruct (rle_vals t) as [|w ws] eqn:Ev.
    + apply expand_nil_iff in Ev. rewrite Ev, app_nil_r. apply last_repeat.
    + assert (Hne : expand t <> []) by (intros H; apply expand_nil_iff in H; congruence).
      rewrite last_app_ne by exact Hne. rewrite IH. reflexivity.
Qed.
End Lists.

(* ---- the six reductions ------------------------------------------------------------------------------ *)
Section Reduce.
Context {A:Type}.
Variable ltb : A -> A -> bool.
Variable d : A.

Lemma rle_reduce_ref {R} (f:Z -> list A -> R) (g:Z -> list (A * Z) -> R) sp (rl:list (A * Z)) :
  (forall a r, g a r = f a (expand r)) -> rle_reduce g sp rl = reduce_spans f sp (expand rl).
Proof.
  intros H. unfold rle_reduce, reduce_spans. apply map_ext. intros [a b]. cbn [fst snd].
  rewrite H, expand_slice. reflexivity.
Qed.

Lemma is_least_expand (r:list (A * Z)) x : is_least ltb (expand r) x = is_least ltb (rle_vals r) x.
Proof. apply forallb_expand. Qed.
Lemma is_greatest_expand (r:list (A * Z)) x : is_greatest ltb (expand r) x = is_greatest ltb (rle_vals r) x.
Proof. apply forallb_expand. Qed.

Lemma min_spec_expand (r:list (A * Z)) : min_spec ltb d (rle_vals r) = min_spec ltb d (expand r).
Proof.
  unfold min_spec, argmin_spec. rewrite !nthd_find_index, find_expand.
  rewrite (find_ext _ _ _ (is_least_expand r)). reflexivity.
Qed.
Lemma max_spec_expand (r:list (A * Z)) : max_spec ltb d (rle_vals r) = max_spec ltb d (expand r).
Proof.
  unfold max_spec, argmax_spec. rewrite !nthd_find_index, find_expand.
  rewrite (find_ext _ _ _ (is_greatest_expand r)). reflexivity.
Qed.
Lemma argmin_spec_expand (r:list (A * Z)) : rle_find (is_least ltb (rle_vals r)) r = argmin_spec ltb (expand r).
Proof.
  unfold argmin_spec. rewrite find_index_expand. apply rle_find_ext. intros x. symmetry. apply is_least_expand.
Qed.
Lemma argmax_spec_expand (r:list (A * Z)) : rle_find (is_greatest ltb (rle_vals r)) r = argmax_spec ltb (expand r).
Proof.
  unfold argmax_spec. rewrite find_index_expand. apply rle_find_ext. intros x. symmetry. apply is_greatest_expand.
Qed.

Theorem rle_first_ref_ok sp rl : rle_first_ref d sp rl = first_ref d sp (expand rl).
Proof. apply rle_reduce_ref. intros a r. symmetry. apply nthd_0_expand. Qed.
Theorem rle_last_ref_ok sp rl : rle_last_ref d sp rl = last_ref d sp (expand rl).
Proof. apply rle_reduce_ref. intros a r. rewrite !nthd_last. symmetry. apply last_expand. Qed.
Theorem rle_min_ref_ok sp rl : rle_min_ref ltb d sp rl = min_ref ltb d sp (expand rl).
Proof. apply rle_reduce_ref. intros a r. apply min_spec_expand. Qed.
Theorem rle_max_ref_ok sp rl : rle_max_ref ltb d sp rl = max_ref ltb d sp (expand rl).
Proof. apply rle_reduce_ref. intros a r. apply max_spec_expand. Qed.
Theorem rle_index_of_min_ref_ok sp rl : rle_index_of_min_ref ltb sp rl = index_of_min_ref ltb sp (expand rl).
Proof. apply rle_reduce_ref. intros a r. f_equal. apply argmin_spec_expand. Qed.
Theorem rle_index_of_max_ref_ok sp rl : rle_index_of_max_ref ltb sp rl = index_of_max_ref ltb sp (expand rl).
Proof. apply rle_reduce_ref. intros a r. f_equal. apply argmax_spec_expand. Qed.

(* on valid spans the statement-level kernels, run on the expanded column, return what is computed on the encoding *)
Variable zero : A.
Hypothesis Hst : strict_total ltb.

Theorem apply_spans_rle_pf sp (rl:list (A * Z)) : valid_spans (rle_len rl) sp ->
  apply_spans_first zero sp (expand rl) = Ok (rle_first_ref d sp rl) /\
  apply_spans_last zero sp (expand rl) = Ok (rle_last_ref d sp rl) /\
  apply_spans_min ltb zero sp (expand rl) = Ok (rle_min_ref ltb d sp rl) /\
  apply_spans_max ltb zero sp (expand rl) = Ok (rle_max_ref ltb d sp rl) /\
  apply_spans_index_of_min ltb sp (expand rl) = Ok (rle_index_of_min_ref ltb sp rl) /\
  apply_spans_index_of_max ltb sp (expand rl) = Ok (rle_index_of_max_ref ltb sp rl).
Proof.
  intros Hv. rewrite <- len_expand in Hv.
  rewrite rle_first_ref_ok, rle_last_ref_ok, rle_min_ref_ok, rle_max_ref_ok, rle_index_of_min_ref_ok,
    rle_index_of_max_ref_ok.
  split; [apply apply_spans_first_pf; exact Hv|].
  split; [apply apply_spans_last_pf; exact Hv|].
  split; [apply apply_spans_min_pf; assumption|].
  split; [apply apply_spans_max_pf; assumption|].
  split; [apply apply_spans_index_of_min_pf; assumption|apply apply_spans_index_of_max_pf; assumption].
Qed.
End Reduce.
