(* Proofs/IdxWriterProofs.v — the staging state machine of WriteableIndexedFieldArray
   (Model/IdxWriter.v) stores exactly the prefix sums and the concatenation, for every
   chunksize >= 1, every backing and every history of write_part / complete / write calls. *)
From Coq Require Import ZArith List Lia Bool.
From EV Require Import Res Arr IdxWriter IdxWriterSpec StoreProofs.
Import ListNotations.
Open Scope Z_scope.

(* cumulative ends of the entries, starting from acc *)
Fixpoint cumends (acc:Z) (strs:list (list Z)) : list Z :=
  match strs with
  | [] => []
  | s :: t => (acc + len s) :: cumends (acc + len s) t
  end.

Lemma psums_from_cumends acc strs : psums_from acc (lengths strs) = acc :: cumends acc strs.
Proof.
  revert acc. induction strs as [|s t IH]; intros acc; cbn; [reflexivity|].
  f_equal. apply IH.
Qed.

Lemma len_concat_app (a b:list (list Z)) : len (concat (a ++ b)) = len (concat a) + len (concat b).
Proof. rewrite concat_app, len_app. reflexivity. Qed.

Lemma cumends_snoc acc strs s :
  cumends acc (strs ++ [s]) = cumends acc strs ++ [acc + len (concat strs) + len s].
Proof.
  revert acc. induction strs as [|x t IH]; intros acc; cbn [cumends app concat].
  - rewrite len_nil. f_equal. lia.
  - rewrite IH. cbn [app]. f_equal. f_equal. f_equal. rewrite len_app. lia.
Qed.

(* the index dataset: [] until something was flushed, then 0 :: flushed *)
Definition ind_repr (d flushed:list Z) : Prop :=
  (flushed = [] /\ d = []) \/ (flushed <> [] /\ d = 0 :: flushed).

Record InvB (w:iw) (B offs:list Z) : Prop := mkInvB {
  ib_cs : 1 <= iw_cs w;
  ib_lrv : len (iw_rawv w) = iw_cs w;
  ib_lri : len (iw_rawi w) = iw_cs w;
  ib_vi : 0 <= iw_vi w < iw_cs w;
  ib_ii : 0 <= iw_ii w < iw_cs w;
  ib_bytes : st_data (iw_val w) ++ firstn (Z.to_nat (iw_vi w)) (iw_rawv w) = B;
  ib_acc : iw_acc w = len B;
  ib_ind : exists flushed, ind_repr (st_data (iw_ind w)) flushed
                           /\ flushed ++ firstn (Z.to_nat (iw_ii w)) (iw_rawi w) = offs
}.

Lemma firstn_succ_upd (l:list Z) i v : 0 <= i < len l ->
  firstn (Z.to_nat (i + 1)) (upd l i v) = firstn (Z.to_nat i) l ++ [v].
Proof.
  intros H. unfold upd. replace (Z.to_nat (i + 1)) with (S (Z.to_nat i)) by lia.
  apply firstn_succ_upd_nat. unfold len in H. lia.
Qed.

Lemma slice_0 (l:list Z) b : slice l 0 b = firstn (Z.to_nat b) l.
Proof. unfold slice. rewrite Z.sub_0_r. reflexivity. Qed.

(* ---- the byte loop --------------------------------------------------------------- *)
Lemma iw_bytes_inv bs : forall w B offs,
  InvB w B offs -> exists w', iw_bytes w bs = Ok w' /\ InvB w' (B ++ bs) offs.
Proof.
  induction bs as [|v t IH]; intros w B offs I.
  - exists w. cbn. rewrite app_nil_r. auto.
  - destruct I as [Hcs Hlrv Hlri Hvi Hii Hb Hacc Hind].
    cbn [iw_bytes].
    rewrite set_ok by lia. cbn [bind].
    set (rv := upd (iw_rawv w) (iw_vi w) v).
    assert (Hlrv' : len rv = iw_cs w) by (unfold rv; rewrite len_upd; exact Hlrv).
    assert (Hfs : firstn (Z.to_nat (iw_vi w + 1)) rv = firstn (Z.to_nat (iw_vi w)) (iw_rawv w) ++ [v])
      by (unfold rv; apply firstn_succ_upd; lia).
    destruct (iw_vi w + 1 =? iw_cs w) eqn:E.
    + apply Z.eqb_eq in E.
      destruct (st_write_part_ok 0 (iw_val w) (slice rv 0 (iw_vi w + 1))) as (vs & Hw & Dv).
      rewrite Hw. cbn [bind iw_cs iw_ind iw_val iw_rawv iw_rawi iw_acc iw_ii iw_vi].
      replace (B ++ v :: t) with ((B ++ [v]) ++ t) by (rewrite <- app_assoc; reflexivity).
      apply IH. constructor; cbn [iw_cs iw_ind iw_val iw_rawv iw_rawi iw_acc iw_ii iw_vi]; try lia; auto.
      * rewrite Dv, slice_0, Hfs. cbn [Z.to_nat firstn]. rewrite app_nil_r, app_assoc, Hb. reflexivity.
      * rewrite len_app, len_cons, len_nil. lia.
    + apply Z.eqb_neq in E.
      cbn [bind iw_cs iw_ind iw_val iw_rawv iw_rawi iw_acc iw_ii iw_vi].
      replace (B ++ v :: t) with ((B ++ [v]) ++ t) by (rewrite <- app_assoc; reflexivity).
      apply IH. constructor; cbn [iw_cs iw_ind iw_val iw_rawv iw_rawi iw_acc iw_ii iw_vi]; try lia; auto.
      * rewrite Hfs, app_assoc, Hb. reflexivity.
      * rewrite len_app, len_cons, len_nil. lia.
Qed.

(* ---- the sentinel ------------------------------------------------------------------ *)
Lemma iw_sentinel_ok ind flushed :
  ind_repr (st_data ind) flushed ->
  exists i1, iw_sentinel ind = Ok i1 /\ st_data i1 = 0 :: flushed.
Proof.
  intros [[Hf Hd]|[Hf Hd]]; unfold iw_sentinel, st_len; rewrite Hd.
  - rewrite len_nil. cbn [Z.eqb].
    destruct (st_write_part_ok 0 ind [0]) as (i1 & H1 & D1). exists i1. split; [exact H1|].
    rewrite D1, Hd, Hf. reflexivity.
  - rewrite len_cons. pose proof (len_nonneg flushed) as Hn.
    destruct (len flushed + 1 =? 0) eqn:E; [apply Z.eqb_eq in E; lia|].
    exists ind. auto.
Qed.

(* ---- one string -------------------------------------------------------------------- *)
Lemma iw_string_inv w B offs s :
  InvB w B offs ->
  exists w', iw_string w s = Ok w' /\ InvB w' (B ++ s) (offs ++ [len B + len s]).
Proof.
  intros I. unfold iw_string.
  destruct (iw_bytes_inv s w B offs I) as (w1 & H1 & I1). rewrite H1. cbn [bind].
  destruct I1 as [Hcs Hlrv Hlri Hvi Hii Hb Hacc (flushed & Hrep & Hoffs)].
  rewrite set_ok by lia. cbn [bind].
  set (ri := upd (iw_rawi w1) (iw_ii w1) (iw_acc w1)).
  assert (Hlri' : len ri = iw_cs w1) by (unfold ri; rewrite len_upd; exact Hlri).
  assert (Hfs : firstn (Z.to_nat (iw_ii w1 + 1)) ri = firstn (Z.to_nat (iw_ii w1)) (iw_rawi w1) ++ [iw_acc w1])
    by (unfold ri; apply firstn_succ_upd; lia).
  assert (Hacc' : iw_acc w1 = len B + len s) by (rewrite Hacc, len_app; reflexivity).
  destruct (iw_ii w1 + 1 =? iw_cs w1) eqn:E.
  - apply Z.eqb_eq in E.
    destruct (iw_sentinel_ok _ _ Hrep) as (i1 & Hs & D1). rewrite Hs. cbn [bind].
    destruct (st_write_part_ok 0 i1 (slice ri 0 (iw_ii w1 + 1))) as (i2 & Hw & D2).
    rewrite Hw. cbn [bind]. eexists. split; [reflexivity|].
    constructor; cbn [iw_cs iw_ind iw_val iw_rawv iw_rawi iw_acc iw_ii iw_vi]; try lia; auto.
    exists (flushed ++ firstn (Z.to_nat (iw_ii w1)) (iw_rawi w1) ++ [iw_acc w1]). split.
    + right. split.
      * intros Hnil. apply app_eq_nil in Hnil. destruct Hnil as [_ Hnil].
        apply app_eq_nil in Hnil. destruct Hnil as [_ Hnil]. discriminate.
      * rewrite D2, D1, slice_0, Hfs. reflexivity.
    + cbn [Z.to_nat firstn]. rewrite app_nil_r, app_assoc, Hoffs, Hacc'. reflexivity.
  - apply Z.eqb_neq in E. eexists. split; [reflexivity|].
    constructor; cbn [iw_cs iw_ind iw_val iw_rawv iw_rawi iw_acc iw_ii iw_vi]; try lia; auto.
    exists flushed. split; [exact Hrep|].
    rewrite Hfs, app_assoc, Hoffs, Hacc'. reflexivity.
Qed.

(* ---- the invariant between strings ------------------------------------------------- *)
Definition Inv (w:iw) (strs:list (list Z)) : Prop := InvB w (concat strs) (cumends 0 strs).

Lemma iw_write_part_inv part : forall w strs,
  Inv w strs -> exists w', iw_write_part w part = Ok w' /\ Inv w' (strs ++ part).
Proof.
  induction part as [|s t IH]; intros w strs I.
  - exists w. cbn. rewrite app_nil_r. auto.
  - cbn [iw_write_part].
    destruct (iw_string_inv w _ _ s I) as (w1 & H1 & I1). rewrite H1. cbn [bind].
    assert (I1' : Inv w1 (strs ++ [s])).
    { unfold Inv. rewrite concat_app, cumends_snoc. cbn [concat]. rewrite app_nil_r.
      rewrite Z.add_0_l. exact I1. }
    destruct (IH w1 _ I1') as (w2 & H2 & I2). exists w2. split; [exact H2|].
    rewrite <- app_assoc in I2. exact I2.
Qed.

(* what the datasets hold once nothing is staged *)
Definition stored_offsets (strs:list (list Z)) : list Z :=
  match strs with [] => [] | _ => spec_offsets strs end.

Definition Clean (w:iw) (strs:list (list Z)) : Prop :=
  Inv w strs /\ iw_vi w = 0 /\ iw_ii w = 0.

Lemma cumends_nil_inv acc strs : cumends acc strs = [] -> strs = [].
Proof. destruct strs; [reflexivity|discriminate]. Qed.

Lemma clean_data w strs : Clean w strs ->
  st_data (iw_ind w) = stored_offsets strs /\ st_data (iw_val w) = spec_bytes strs.
Proof.
  intros (I & Hvi & Hii). destruct I as [Hcs Hlrv Hlri _ _ Hb Hacc (flushed & Hrep & Hoffs)].
  rewrite Hvi in Hb. rewrite Hii in Hoffs. cbn [Z.to_nat firstn] in *. rewrite app_nil_r in *.
  split; [|exact Hb].
  subst flushed. destruct Hrep as [[Hf Hd]|[Hf Hd]].
  - apply cumends_nil_inv in Hf. subst strs. exact Hd.
  - rewrite Hd. unfold stored_offsets. destruct strs as [|s t]; [exfalso; apply Hf; reflexivity|].
    unfold spec_offsets, psums. rewrite psums_from_cumends. reflexivity.
Qed.

Lemma iw_complete_inv w strs :
  Inv w strs -> exists w', iw_complete w = Ok w' /\ Clean w' strs.
Proof.
  intros I. unfold iw_complete.
  destruct I as [Hcs Hlrv Hlri Hvi Hii Hb Hacc (flushed & Hrep & Hoffs)].
  (* the value buffer *)
  assert (exists w1, (if negb (iw_vi w =? 0)
                      then do vs <- st_write_part 0 (iw_val w) (slice (iw_rawv w) 0 (iw_vi w));
                           Ok (mkIW (iw_cs w) (iw_ind w) vs (iw_rawv w) (iw_rawi w) (iw_acc w) (iw_ii w) 0)
                      else Ok w) = Ok w1
                     /\ iw_cs w1 = iw_cs w /\ iw_ind w1 = iw_ind w /\ iw_rawv w1 = iw_rawv w
                     /\ iw_rawi w1 = iw_rawi w /\ iw_acc w1 = iw_acc w /\ iw_ii w1 = iw_ii w
                     /\ iw_vi w1 = 0 /\ st_data (iw_val w1) = concat strs) as (w1 & H1 & E1).
  { destruct (iw_vi w =? 0) eqn:E; cbn [negb].
    - apply Z.eqb_eq in E. exists w. rewrite E in Hb. cbn [Z.to_nat firstn] in Hb. rewrite app_nil_r in Hb.
      repeat split; auto.
    - destruct (st_write_part_ok 0 (iw_val w) (slice (iw_rawv w) 0 (iw_vi w))) as (vs & Hw & Dv).
      rewrite Hw. cbn [bind]. eexists. split; [reflexivity|].
      cbn [iw_cs iw_ind iw_val iw_rawv iw_rawi iw_acc iw_ii iw_vi]. repeat split; auto.
      rewrite Dv, slice_0. exact Hb. }
  rewrite H1. cbn [bind].
  destruct E1 as (Ecs & Eind & Erv & Eri & Eacc & Eii & Evi & Eval).
  destruct (iw_ii w1 =? 0) eqn:E; cbn [negb].
  - apply Z.eqb_eq in E. exists w1. split; [reflexivity|]. split; [|split; auto].
    constructor; try lia; try congruence.
    + rewrite Evi, Eval. cbn [Z.to_nat firstn]. apply app_nil_r.
    + exists flushed. rewrite Eind, Eri, Eii. auto.
  - apply Z.eqb_neq in E.
    assert (Hrep1 : ind_repr (st_data (iw_ind w1)) flushed) by (rewrite Eind; exact Hrep).
    destruct (iw_sentinel_ok _ _ Hrep1) as (i1 & Hs & D1). rewrite Hs. cbn [bind].
    destruct (st_write_part_ok 0 i1 (slice (iw_rawi w1) 0 (iw_ii w1))) as (i2 & Hw & D2).
    rewrite Hw. cbn [bind]. eexists. split; [reflexivity|].
    split; [|cbn [iw_vi iw_ii]; auto].
    constructor; cbn [iw_cs iw_ind iw_val iw_rawv iw_rawi iw_acc iw_ii iw_vi]; try lia; try congruence.
    + rewrite Evi, Eval. cbn [Z.to_nat firstn]. apply app_nil_r.
    + exists (flushed ++ firstn (Z.to_nat (iw_ii w1)) (iw_rawi w1)). split.
      * right. split.
        -- rewrite Eri, Eii, Hoffs. intros Hnil.
           rewrite <- Hoffs in Hnil. apply app_eq_nil in Hnil. destruct Hnil as [_ Hnil].
           assert (Hl : len (firstn (Z.to_nat (iw_ii w)) (iw_rawi w)) = iw_ii w).
           { unfold len in *. rewrite firstn_length. lia. }
           rewrite Hnil, len_nil in Hl. lia.
        -- rewrite D2, D1, slice_0. reflexivity.
      * cbn [Z.to_nat firstn]. rewrite app_nil_r, Eri, Eii. exact Hoffs.
Qed.

(* ---- histories ------------------------------------------------------------------------ *)
(* the histories of the property: write_part* complete, write, repeated; clear only when
   nothing is staged (right after a complete / write, or on the fresh wrapper) *)
Fixpoint hist_ok (pending:bool) (ops:list iwop) : bool :=
  match ops with
  | [] => negb pending
  | OpPart _ :: t => hist_ok true t
  | OpComplete :: t => hist_ok false t
  | OpWrite _ :: t => hist_ok false t
  | OpClear :: t => negb pending && hist_ok false t
  | OpReopen :: t => negb pending && hist_ok false t
  end.

Fixpoint hist_written (acc:list (list Z)) (ops:list iwop) : list (list Z) :=
  match ops with
  | [] => acc
  | OpPart p :: t => hist_written (acc ++ p) t
  | OpWrite p :: t => hist_written (acc ++ p) t
  | OpComplete :: t => hist_written acc t
  | OpClear :: t => hist_written [] t
  | OpReopen :: t => hist_written acc t
  end.

Lemma st_data_clear (s:store Z) : st_data (st_clear s) = [].
Proof. destruct s; reflexivity. Qed.

Lemma iw_clear_clean w strs : Clean w strs -> Clean (iw_clear w) [].
Proof.
  intros (I & Hvi & Hii). destruct I as [Hcs Hlrv Hlri Hvi' Hii' Hb Hacc Hind].
  unfold iw_clear. split; [|cbn [iw_vi iw_ii]; auto].
  constructor; cbn [iw_cs iw_ind iw_val iw_rawv iw_rawi iw_acc iw_ii iw_vi concat cumends]; try lia; auto.
  - rewrite st_data_clear, Hvi. reflexivity.
  - exists []. rewrite st_data_clear, Hii. split; [left; auto|reflexivity].
Qed.

(* ---- the offsets invariant of the property text ------------------------------------------ *)
Lemma len_psums_from acc l : len (psums_from acc l) = len l + 1.
Proof. unfold len. rewrite psums_from_length. lia. Qed.

Lemma nthZ_psums_from l : forall acc k, 0 <= k <= len l ->
  nthZ (psums_from acc l) k = acc + sumZ (firstn (Z.to_nat k) l).
Proof.
  induction l as [|x t IH]; intros acc k Hk.
  - unfold len in Hk. cbn [length Z.of_nat] in Hk. assert (k = 0) by lia. subst. cbn. lia.
  - rewrite len_cons in Hk. destruct (Z.eq_dec k 0) as [->|Hk0].
    + cbn. lia.
    + cbn [psums_from]. replace k with ((k - 1) + 1) at 1 by lia.
      unfold nthZ. rewrite nthd_cons_succ by lia. fold (nthZ (psums_from (acc + x) t) (k - 1)).
      rewrite IH by lia.
      replace (Z.to_nat k) with (S (Z.to_nat (k - 1))) by lia. cbn [firstn sumZ]. lia.
Qed.

Lemma sumZ_nonneg l : (forall x, In x l -> 0 <= x) -> 0 <= sumZ l.
Proof.
  induction l as [|x t IH]; intros H; cbn; [lia|].
  assert (0 <= x) by (apply H; left; reflexivity).
  assert (0 <= sumZ t) by (apply IH; intros y Hy; apply H; right; exact Hy). lia.
Qed.

Lemma lengths_nonneg strs x : In x (lengths strs) -> 0 <= x.
Proof. unfold lengths. intros H. apply in_map_iff in H. destruct H as (s & <- & _). apply len_nonneg. Qed.

Lemma sumZ_lengths strs : sumZ (lengths strs) = len (concat strs).
Proof.
  induction strs as [|s t IH]; cbn [lengths map sumZ concat]; [reflexivity|].
  rewrite len_app. unfold lengths in IH. rewrite IH. reflexivity.
Qed.

Lemma firstn_split_le {A} (l:list A) i j : (i <= j)%nat ->
  firstn j l = firstn i l ++ firstn (j - i) (skipn i l).
Proof.
  revert l j. induction i as [|i IH]; intros l j H.
  - cbn. rewrite Nat.sub_0_r. reflexivity.
  - destruct j; [lia|]. destruct l; cbn; [rewrite firstn_nil; reflexivity|].
    f_equal. apply IH. lia.
Qed.

Lemma in_firstn {A} (x:A) n : forall l, In x (firstn n l) -> In x l.
Proof.
  induction n as [|n IH]; intros l H; [destruct H|].
  destruct l; [destruct H|]. cbn in H. destruct H as [->|H]; [left; reflexivity|right; apply IH; exact H].
Qed.

Lemma offsets_ok_lemma strs : offsets_ok (spec_offsets strs) (spec_bytes strs) (len strs).
Proof.
  unfold offsets_ok, spec_offsets, spec_bytes, psums.
  assert (Hl : len (lengths strs) = len strs) by (unfold lengths, len; rewrite map_length; reflexivity).
  pose proof (len_nonneg strs) as Hn.
  repeat split.
  - rewrite nthZ_psums_from by lia. cbn. lia.
  - intros i j Hi Hij Hj. rewrite len_psums_from, Hl in Hj.
    rewrite !nthZ_psums_from by lia.
    rewrite (firstn_split_le (lengths strs) (Z.to_nat i) (Z.to_nat j)) by lia.
    rewrite sumZ_app.
    assert (0 <= sumZ (firstn (Z.to_nat j - Z.to_nat i) (skipn (Z.to_nat i) (lengths strs)))).
    { apply sumZ_nonneg. intros x Hx. apply in_firstn in Hx.
      assert (In x (lengths strs)) by (rewrite <- (firstn_skipn (Z.to_nat i)); apply in_or_app; right; exact Hx).
      eapply lengths_nonneg; eauto. }
    lia.
  - rewrite len_psums_from. replace (len (lengths strs) + 1 - 1) with (len (lengths strs)) by lia.
    rewrite nthZ_psums_from by lia.
    unfold len at 1. rewrite Nat2Z.id, firstn_all, sumZ_lengths. lia.
  - rewrite len_psums_from, Hl. reflexivity.
Qed.

(* the stored offsets satisfy it as soon as one entry was written ... *)
Lemma stored_offsets_ok_lemma strs : strs <> [] ->
  offsets_ok (stored_offsets strs) (spec_bytes strs) (len strs).
Proof.
  intros H. destruct strs as [|s t]; [congruence|]. unfold stored_offsets. apply offsets_ok_lemma.
Qed.

(* ---- histories, continued ---------------------------------------------------------------- *)
(* a new wrapper on datasets that hold a completed column picks the running byte total up from
   the last offset *)
Lemma iw_reinit_clean w strs : Clean w strs ->
  exists w', iw_init (iw_cs w) (iw_ind w) (iw_val w) = Ok w' /\ Clean w' strs.
Proof.
  intros Cw. destruct (clean_data w strs Cw) as (Di & Dv).
  destruct Cw as (I & Hvi & Hii).
  destruct I as [Hcs Hlrv Hlri _ _ Hb Hacc (flushed & Hrep & Hoffs)].
  unfold iw_init, st_len. rewrite Di.
  assert (Hacc' : exists acc, (if 0 <? len (stored_offsets strs)
                               then np_index 1 (stored_offsets strs) (-1) else Ok 0) = Ok acc
                              /\ acc = len (concat strs)).
  { destruct strs as [|s t].
    - exists 0. split; reflexivity.
    - unfold stored_offsets.
      destruct (offsets_ok_lemma (s :: t)) as (_ & _ & Hlast & Hlen).
      pose proof (len_nonneg (s :: t)) as Hn.
      replace (0 <? len (spec_offsets (s :: t))) with true by (symmetry; apply Z.ltb_lt; lia).
      unfold np_index. replace (-1 <? 0) with true by reflexivity.
      rewrite (getZ_ok 1) by lia.
      exists (nthZ (spec_offsets (s :: t)) (-1 + len (spec_offsets (s :: t)))). split; [reflexivity|].
      replace (-1 + len (spec_offsets (s :: t))) with (len (spec_offsets (s :: t)) - 1) by lia.
      exact Hlast. }
  destruct Hacc' as (acc & -> & Eacc). cbn [bind]. eexists. split; [reflexivity|].
  split; [|cbn [iw_vi iw_ii]; auto].
  constructor; cbn [iw_cs iw_ind iw_val iw_rawv iw_rawi iw_acc iw_ii iw_vi]; try lia.
  - rewrite len_repeat. lia.
  - rewrite len_repeat. lia.
  - rewrite Dv. cbn [Z.to_nat firstn]. apply app_nil_r.
  - exists flushed. split; [exact Hrep|]. rewrite Hii in Hoffs. exact Hoffs.
Qed.

Lemma iw_run_inv ops : forall w strs pending,
  Inv w strs -> (pending = false -> iw_vi w = 0 /\ iw_ii w = 0) ->
  hist_ok pending ops = true ->
  exists w', iw_run w ops = Ok w' /\ Clean w' (hist_written strs ops).
Proof.
  induction ops as [|o t IH]; intros w strs pending I Hp Hok.
  - cbn in *. exists w. destruct pending; [discriminate|]. split; [reflexivity|]. split; [exact I|]. apply Hp. reflexivity.
  - cbn [iw_run hist_written]. destruct o as [p| |p| |]; cbn [iw_op hist_ok] in *.
    + destruct (iw_write_part_inv p w strs I) as (w1 & H1 & I1). rewrite H1. cbn [bind].
      apply (IH w1 _ true I1); [discriminate|exact Hok].
    + destruct (iw_complete_inv w strs I) as (w1 & H1 & (I1 & C1)). rewrite H1. cbn [bind].
      apply (IH w1 _ false I1); [intros _; exact C1|exact Hok].
    + destruct (iw_write_part_inv p w strs I) as (w1 & H1 & I1). rewrite H1. cbn [bind].
      destruct (iw_complete_inv w1 _ I1) as (w2 & H2 & (I2 & C2)). rewrite H2. cbn [bind].
      apply (IH w2 _ false I2); [intros _; exact C2|exact Hok].
    + apply andb_prop in Hok. destruct Hok as [Hnp Hok]. destruct pending; [discriminate|].
      cbn [bind].
      assert (Cw : Clean w strs) by (split; [exact I|apply Hp; reflexivity]).
      destruct (iw_clear_clean w strs Cw) as (I1 & C1).
      apply (IH (iw_clear w) [] false I1); [intros _; exact C1|exact Hok].
    + apply andb_prop in Hok. destruct Hok as [Hnp Hok]. destruct pending; [discriminate|].
      assert (Cw : Clean w strs) by (split; [exact I|apply Hp; reflexivity]).
      destruct (iw_reinit_clean w strs Cw) as (w1 & H1 & (I1 & C1)). rewrite H1. cbn [bind].
      apply (IH w1 strs false I1); [intros _; exact C1|exact Hok].
Qed.

Lemma iw_init_fresh h5 cs : 1 <= cs ->
  exists w0, iw_init cs (fresh h5) (fresh h5) = Ok w0 /\ Clean w0 [].
Proof.
  intros Hcs. unfold iw_init.
  assert (Hd : st_data (fresh h5) = []) by (destruct h5; reflexivity).
  unfold st_len. rewrite Hd. change (0 <? len (@nil Z)) with false. cbn [bind]. eexists. split; [reflexivity|].
  split; [|cbn [iw_vi iw_ii]; auto].
  constructor; cbn [iw_cs iw_ind iw_val iw_rawv iw_rawi iw_acc iw_ii iw_vi concat cumends]; try lia.
  - rewrite len_repeat. lia.
  - rewrite len_repeat. lia.
  - rewrite Hd. reflexivity.
  - reflexivity.
  - exists []. rewrite Hd. split; [left; auto|reflexivity].
Qed.

(* ---- main theorem ---------------------------------------------------------------------- *)
Lemma idx_writer_roundtrip_lemma (h5:bool) (cs:Z) (ops:list iwop) :
  1 <= cs -> hist_ok false ops = true ->
  iw_history h5 cs ops = Ok (stored_offsets (hist_written [] ops), spec_bytes (hist_written [] ops)).
Proof.
  intros Hcs Hok. unfold iw_history.
  destruct (iw_init_fresh h5 cs Hcs) as (w0 & H0 & (I0 & C0)). rewrite H0. cbn [bind].
  destruct (iw_run_inv ops w0 [] false I0 (fun _ => C0) Hok) as (w & Hr & Cw). rewrite Hr. cbn [bind].
  destruct (clean_data w _ Cw) as (Di & Dv). rewrite Di, Dv. reflexivity.
Qed.

(* the property's histories: one write, or any partition into write_part calls then complete *)
Lemma idx_write_lemma h5 cs strs : 1 <= cs ->
  iw_history h5 cs [OpWrite strs] = Ok (stored_offsets strs, spec_bytes strs).
Proof. intros Hcs. apply (idx_writer_roundtrip_lemma h5 cs [OpWrite strs] Hcs). reflexivity. Qed.

Lemma hist_ok_parts parts : hist_ok true (map OpPart parts ++ [OpComplete]) = true.
Proof. induction parts; cbn; auto. Qed.

Lemma hist_written_parts parts : forall acc,
  hist_written acc (map OpPart parts ++ [OpComplete]) = acc ++ concat parts.
Proof.
  induction parts as [|p t IH]; intros acc; cbn [map app hist_written concat].
  - rewrite app_nil_r. reflexivity.
  - rewrite IH, app_assoc. reflexivity.
Qed.

Lemma idx_partition_lemma h5 cs (parts:list (list (list Z))) : 1 <= cs ->
  iw_history h5 cs (map OpPart parts ++ [OpComplete])
  = Ok (stored_offsets (concat parts), spec_bytes (concat parts)).
Proof.
  intros Hcs.
  pose proof (idx_writer_roundtrip_lemma h5 cs (map OpPart parts ++ [OpComplete]) Hcs) as H.
  rewrite hist_written_parts in H. cbn [app] in H. apply H.
  destruct parts; [reflexivity|]. cbn [map app hist_ok]. apply hist_ok_parts.
Qed.

(* ... and not for the empty sequence: the dataset stays [] (F-C01e) *)
Lemma offsets_empty_refuted_lemma :
  forall h5 cs, 1 <= cs ->
  iw_history h5 cs [OpWrite []] = Ok ([], []) /\ ~ offsets_ok [] [] 0 /\ spec_offsets [] = [0].
Proof.
  intros h5 cs Hcs. split; [apply (idx_write_lemma h5 cs [] Hcs)|]. split; [|reflexivity].
  intros (_ & _ & _ & H). cbn in H. discriminate.
Qed.

(* F-C01b: a memory-backed array adopts the dtype of the first part *)
Lemma mem_dtype_refuted_lemma : stored_dtype false 3 [4] <> 3 /\ stored_dtype true 3 [4] = 3.
Proof. split; [discriminate|reflexivity]. Qed.

(* Outside the property's histories: clear() while data is staged keeps the staging fill levels
   (fields.py:635-638 resets only _accumulated), so the abandoned entry resurfaces in the next write.
   Observed identically on the real code (write_part(['a']); clear(); write(['b']) reads back ['a','']). *)
Lemma clear_with_staged_data_lemma :
  hist_ok false [OpPart [[97]]; OpClear; OpWrite [[98]]] = false
  /\ iw_history true 2 [OpPart [[97]]; OpClear; OpWrite [[98]]] = Ok ([0; 1; 1], [97; 98])
  /\ hist_written [] [OpPart [[97]]; OpClear; OpWrite [[98]]] = [[98]].
Proof. repeat split; vm_compute; reflexivity. Qed.
