(* Proofs/ToCsvRound.v — the reference re-import of the exported file reproduces the columns;
   decimal literals read back. *)
From Coq Require Import ZArith List Bool Lia Decimal DecimalZ DecimalPos.
From EV Require Import Res Arr ToCsv ToCsvSpec ToCsvParse ToCsvLoop ToCsvTop.
Import ListNotations.
Open Scope Z_scope.

(* ---- integers -------------------------------------------------------------------------------- *)
Lemma bytes_uint_bytes u : bytes_uint (uint_bytes u) = Some u.
Proof. induction u; cbn [uint_bytes bytes_uint]; try rewrite IHu; reflexivity. Qed.

Lemma uint_bytes_head u : u <> Nil -> exists c t, uint_bytes u = c :: t /\ (c =? 45) = false.
Proof. destruct u; intros H; try congruence; cbn [uint_bytes]; eexists; eexists; split; reflexivity. Qed.

Lemma parse_render_int z : parse_int (render_int z) = Some z.
Proof.
  unfold render_int. pose proof (DecimalZ.of_to z) as Hz.
  destruct (Z.to_int z) as [u|u] eqn:E.
  - assert (Hu : u <> Nil).
    { destruct z; cbn in E; try discriminate; injection E as <-; [discriminate | apply Unsigned.to_uint_nonnil]. }
    destruct (uint_bytes_head u Hu) as [c [t [Hb Hc]]].
    unfold parse_int. rewrite Hb, Hc, <- Hb, bytes_uint_bytes. f_equal. exact Hz.
  - assert (Hu : u <> Nil).
    { destruct z; cbn in E; try discriminate. injection E as <-. apply Unsigned.to_uint_nonnil. }
    destruct (uint_bytes_head u Hu) as [c [t [Hb Hc]]].
    unfold parse_int. rewrite Z.eqb_refl. rewrite Hb, <- Hb, bytes_uint_bytes. f_equal. exact Hz.
Qed.

(* ---- columns of a zipped table ------------------------------------------------------------------ *)
Section Cols.
Context {A:Type}.
Variable d : A.

Definition same_len (cols:list (list A)) (L:nat) : Prop := forall c, In c cols -> length c = L.

Lemma zip_cons_len (c:list A) : forall rows, length rows = length c -> length (zip_cons c rows) = length c.
Proof.
  induction c as [|x c IH]; intros [|r rows] H; cbn in *; try lia. rewrite IH; lia.
Qed.

Lemma zipcols_len cols L : cols <> [] -> same_len cols L -> length (zipcols cols) = L.
Proof.
  induction cols as [|c rest IH]; intros Hne H; [congruence|].
  destruct rest as [|c2 r].
  - cbn. rewrite map_length. apply H. left. reflexivity.
  - change (zipcols (c :: c2 :: r)) with (zip_cons c (zipcols (c2 :: r))).
    assert (Hc : length c = L) by (apply H; left; reflexivity).
    assert (Hr : length (zipcols (c2 :: r)) = L).
    { apply IH; [discriminate|]. intros x Hx. apply H. right. exact Hx. }
    rewrite zip_cons_len; lia.
Qed.

Lemma map_hd_zip_cons (c:list A) : forall rows, length rows = length c ->
  map (fun r => nth 0 r d) (zip_cons c rows) = c.
Proof.
  induction c as [|x c IH]; intros [|r rows] H; cbn in *; try lia; [reflexivity|].
  f_equal. apply IH. lia.
Qed.

Lemma map_tl_zip_cons j (c:list A) : forall rows, length rows = length c ->
  map (fun r => nth (S j) r d) (zip_cons c rows) = map (fun r => nth j r d) rows.
Proof.
  induction c as [|x c IH]; intros [|r rows] H; cbn in *; try lia; [reflexivity|].
  f_equal. apply IH. lia.
Qed.

Lemma zipcols_column cols L : same_len cols L -> forall j dd, (j < length cols)%nat ->
  map (fun r => nth j r d) (zipcols cols) = nth j cols dd.
Proof.
  induction cols as [|c rest IH]; intros H j dd Hj; [cbn in Hj; lia|].
  assert (Hc : length c = L) by (apply H; left; reflexivity).
  assert (Hrest : same_len rest L) by (intros x Hx; apply H; right; exact Hx).
  destruct rest as [|c2 r].
  - cbn in Hj. assert (j = O) by lia. subst j. cbn. rewrite map_map. cbn. apply map_id.
  - change (zipcols (c :: c2 :: r)) with (zip_cons c (zipcols (c2 :: r))).
    assert (Hr : length (zipcols (c2 :: r)) = length c).
    { rewrite (zipcols_len (c2 :: r) L); [lia | discriminate | exact Hrest]. }
    destruct j as [|j].
    + cbn [nth]. apply map_hd_zip_cons. exact Hr.
    + rewrite map_tl_zip_cons by exact Hr. cbn [nth]. apply IH; [exact Hrest|]. cbn in *. lia.
Qed.

Lemma select_map {B} (g:A -> B) : forall f l, map g (select f l) = select f (map g l).
Proof.
  induction f as [|b f IH]; intros [|x l]; cbn; try reflexivity.
  destruct b; cbn; rewrite IH; reflexivity.
Qed.

Lemma list_as_seq (l:list A) : l = map (fun j => nth j l d) (seq 0 (length l)).
Proof.
  induction l as [|x l IH]; [reflexivity|].
  cbn [length seq map nth]. f_equal. rewrite <- seq_shift, map_map. cbn [nth]. exact IH.
Qed.

End Cols.

Lemma select_opt_map {A B} (g:A -> B) flt l : map g (select_opt flt l) = select_opt flt (map g l).
Proof. destruct flt; cbn; [apply select_map | reflexivity]. Qed.

Lemma table_columns_spec fr rf cf :
  rect fr (spec_names fr rf cf) -> table_columns (spec_table fr rf cf) = spec_columns fr rf cf.
Proof.
  intros Hrect. unfold table_columns, spec_table, spec_columns, spec_rows, spec_column.
  set (names := spec_names fr rf cf) in *. set (flt := spec_filter rf).
  set (cols := map (column fr) names).
  assert (Hrhs : forall G : name -> bytes * list bytes,
             map G names = map (fun j => G (nth j names [])) (seq 0 (length names))).
  { intros G. rewrite (list_as_seq [] names) at 1. rewrite map_map. reflexivity. }
  rewrite Hrhs.
  apply map_ext_in. intros j Hj. apply in_seq in Hj. f_equal.
  rewrite map_map.
  assert (Hn : forall r : list cell, nth j (map cell_text r) [] = cell_text (nth j r (CStr []))).
  { intros r. change (@nil Z) with (cell_text (CStr [])). apply map_nth. }
  rewrite (map_ext _ _ Hn). rewrite <- (map_map (fun r => nth j r (CStr [])) cell_text).
  f_equal. rewrite select_opt_map. f_equal.
  assert (Hsl : same_len cols (length (column fr (nth j names [])))).
  { intros c Hc. unfold cols in Hc. apply in_map_iff in Hc. destruct Hc as [a [<- Ha]].
    apply Hrect; [exact Ha|]. apply nth_In. lia. }
  rewrite (zipcols_column (CStr []) cols _ Hsl j (column fr [])).
  - unfold cols. apply map_nth.
  - unfold cols. rewrite map_length. lia.
Qed.

Theorem export_import_roundtrip fr rf cf chunk fuel file :
  0 < chunk -> cf_valid fr cf = true -> (fuel >= to_csv_fuel fr chunk)%nat ->
  rect fr (spec_names fr rf cf) ->
  to_csv fuel V_fix fr rf cf chunk = Ok file ->
  table_columns (csv_parse file) = spec_columns fr rf cf.
Proof.
  intros Hc Hv Hf Hr H. rewrite (to_csv_parse fr rf cf chunk fuel file Hc Hv Hf H).
  apply table_columns_spec. exact Hr.
Qed.
