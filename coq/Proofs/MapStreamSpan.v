(* Proofs/MapStreamSpan.v — the memory bound of the repaired sub-chunker (fix-F-C02f):
   the valid entries of a sub-chunk cut by next_map_subchunk2 span fewer than chunksize source
   rows, whatever their order; hence the source window data[min:max+1] that
   get_valid_value_extents2 selects for it holds at most chunksize rows (the bound the original
   code had for non-decreasing maps only). *)
From Coq Require Import ZArith List Lia Bool.
From EV Require Import Res Arr MapStream MapStreamSpec MapStreamBase.
Import ListNotations.
Open Scope Z_scope.

Lemma nms2_loop_span map_ inv cs sm0 : 1 <= cs -> 0 <= sm0 -> forall fuel sm found lo hi sm2,
  sm0 <= sm -> sm <= len map_ ->
  ((found = false /\ all_inv map_ inv sm0 sm) \/
   (found = true /\ hi - lo < cs /\ forall t, sm0 <= t < sm -> nthZ map_ t <> inv -> lo <= nthZ map_ t <= hi)) ->
  nms2_loop fuel map_ sm inv cs found lo hi = Ok sm2 ->
  sm <= sm2 <= len map_ /\
  exists lo' hi', hi' - lo' < cs /\ forall t, sm0 <= t < sm2 -> nthZ map_ t <> inv -> lo' <= nthZ map_ t <= hi'.
Proof.
  intros Hcs Hs0. induction fuel as [|f IH]; intros sm found lo hi sm2 Hsm Hle St Hr; [discriminate|].
  cbn [nms2_loop] in Hr. destruct (sm <? len map_) eqn:E.
  - rewrite (getZ_ok 104 map_ sm) in Hr by lia. cbn [bind] in Hr.
    destruct (nthZ map_ sm =? inv) eqn:Ei; cbn [negb] in Hr.
    + (* invalid entry: skipped *)
      destruct (IH (sm + 1) found lo hi sm2) as [B X]; try lia; [|exact Hr|split; [lia|exact X]].
      destruct St as [[F Ha]|[F [Hw Hb]]].
      * left. split; [exact F|]. intros t Ht. destruct (Z.eq_dec t sm) as [->|]; [lia|]. apply Ha. lia.
      * right. split; [exact F|]. split; [exact Hw|].
        intros t Ht Hne. destruct (Z.eq_dec t sm) as [->|]; [lia|]. apply Hb; [lia|exact Hne].
    + destruct found; cbn [negb] in Hr.
      * destruct St as [[F _]|[_ [Hw Hb]]]; [discriminate|].
        destruct (Z.max hi (nthZ map_ sm) - Z.min lo (nthZ map_ sm) >=? cs) eqn:Ec.
        -- inversion Hr; subst sm2. split; [lia|]. exists lo, hi. split; [exact Hw|exact Hb].
        -- destruct (IH (sm + 1) true (Z.min lo (nthZ map_ sm)) (Z.max hi (nthZ map_ sm)) sm2) as [B X];
             try lia; [|exact Hr|split; [lia|exact X]].
           right. split; [reflexivity|]. split; [lia|].
           intros t Ht Hne. destruct (Z.eq_dec t sm) as [->|]; [lia|].
           pose proof (Hb t ltac:(lia) Hne). lia.
      * destruct St as [[_ Ha]|[F _]]; [|discriminate].
        destruct (IH (sm + 1) true (nthZ map_ sm) (nthZ map_ sm) sm2) as [B X]; try lia; [|exact Hr|split; [lia|exact X]].
        right. split; [reflexivity|]. split; [lia|].
        intros t Ht Hne. destruct (Z.eq_dec t sm) as [->|]; [lia|]. exfalso. apply Hne. apply Ha. lia.
  - inversion Hr; subst sm2. split; [lia|].
    destruct St as [[_ Ha]|[_ [Hw Hb]]].
    + exists 0, 0. split; [lia|]. intros t Ht Hne. exfalso. apply Hne. apply Ha. lia.
    + exists lo, hi. split; [exact Hw|exact Hb].
Qed.

Theorem subchunk_span_bounded map_ sm inv cs nsm :
  1 <= cs -> 0 <= sm <= len map_ -> next_map_subchunk2 map_ sm inv cs = Ok nsm ->
  sm <= nsm <= len map_ /\
  forall t u, sm <= t < nsm -> sm <= u < nsm -> nthZ map_ t <> inv -> nthZ map_ u <> inv ->
    nthZ map_ t - nthZ map_ u < cs.
Proof.
  intros Hcs Hs Hr. unfold next_map_subchunk2 in Hr.
  destruct (nms2_loop_span map_ inv cs sm Hcs ltac:(lia) (S (length map_)) sm false inv inv nsm) as [B [lo [hi [Hw Hb]]]];
    try lia; [|exact Hr|].
  { left. split; [reflexivity|]. intros t Ht. lia. }
  split; [exact B|]. intros t u Ht Hu Hnt Hnu.
  pose proof (Hb t Ht Hnt). pose proof (Hb u Hu Hnu). lia.
Qed.

(* the window the repaired get_valid_value_extents selects for such a sub-chunk: at most cs rows *)
Corollary subchunk_window_rows map_ sm inv cs nsm first last :
  1 <= cs -> 0 <= sm <= len map_ -> next_map_subchunk2 map_ sm inv cs = Ok nsm ->
  get_valid_value_extents2 map_ sm nsm inv = Ok (first, last) -> first <> inv ->
  0 <= last - first < cs.
Proof.
  intros Hcs Hs Hn Hg Hne.
  destruct (subchunk_span_bounded map_ sm inv cs nsm Hcs Hs Hn) as [B Hsp].
  destruct (gve2_spec map_ sm nsm inv) as [[Ha Hg']|[i0 [j0 [H1 [H2 [Hn1 [Hn2 [Hb Hg']]]]]]]]; try lia.
  - rewrite Hg in Hg'. inversion Hg'. contradiction.
  - rewrite Hg in Hg'. inversion Hg'; subst first last.
    pose proof (Hb i0 ltac:(lia) Hn1). pose proof (Hsp j0 i0 ltac:(lia) ltac:(lia) Hn2 Hn1). lia.
Qed.
