(* Proofs/SpansSorted.v — check_if_sorted_for_multi_fields decides lexicographic sortedness of the rows. *)
From Coq Require Import ZArith List Lia Bool.
From EV Require Import Res Arr Spans SpansSpec SpansBase SpansKernels SpansOrder SpansReduce.
Import ListNotations.
Open Scope Z_scope.

Lemma forallb_ext_in' {T} (f g:T -> bool) l : (forall x, In x l -> f x = g x) -> forallb f l = forallb g l.
Proof.
  induction l as [|x t IH]; intros H; [reflexivity|]. cbn [forallb].
  rewrite H by (left; reflexivity). rewrite IH by (intros y Hy; apply H; right; exact Hy). reflexivity.
Qed.
Lemma forallb_snoc {T} (f:T -> bool) l x : forallb f (l ++ [x]) = forallb f l && f x.
Proof. rewrite forallb_app. cbn [forallb]. rewrite andb_true_r. reflexivity. Qed.

Section Sorted.
Context {A:Type}.
Variable ltb : A -> A -> bool.
Variable d : A.
Hypothesis Hord : strict_total ltb.

Lemma ltb_asym x y : ltb x y = true -> ltb y x = false.
Proof.
  intros H. destruct (ltb y x) eqn:E; [|reflexivity].
  pose proof (proj1 (proj2 Hord) x y x H E) as C. rewrite (proj1 Hord) in C. discriminate.
Qed.

Lemma sorted_row_lex pre cur : sorted_row ltb pre cur = lex_leb ltb pre cur.
Proof.
  revert cur. induction pre as [|p pt IH]; intros [|c ct]; cbn [sorted_row lex_leb]; try reflexivity.
  destruct (ltb c p) eqn:E1.
  - rewrite (ltb_asym c p E1). reflexivity.
  - destruct (ltb p c); [reflexivity|]. apply IH.
Qed.

Definition adj_ok (xs:list (list A)) (i:Z) : bool := lex_leb ltb (nthd [] xs (i - 1)) (nthd [] xs i).

Lemma rows_sortedb_shift s (xs:list (list A)) :
  rows_sortedb ltb xs = forallb (fun i => adj_ok xs (i - s)) (zrange (s + 1) (length xs - 1)).
Proof.
  revert s. induction xs as [|x t IH]; intros s; [reflexivity|].
  destruct t as [|y t']; [reflexivity|].
  change (rows_sortedb ltb (x :: y :: t')) with (lex_leb ltb x y && rows_sortedb ltb (y :: t')).
  replace (length (x :: y :: t') - 1)%nat with (S (length (y :: t') - 1)) by (cbn [length]; lia).
  cbn [zrange forallb]. f_equal.
  - unfold adj_ok. replace (s + 1 - s - 1) with 0 by lia. replace (s + 1 - s) with (0 + 1) by lia.
    rewrite nthd_cons_succ by lia. reflexivity.
  - rewrite (IH (s + 1)). apply forallb_ext_in'. intros k Hk. apply in_zrange in Hk. unfold adj_ok.
    replace (k - s - 1) with ((k - (s + 1) - 1) + 1) by lia. replace (k - s) with ((k - (s + 1)) + 1) by lia.
    rewrite !nthd_cons_succ by lia. reflexivity.
Qed.

Lemma rows_sortedb_table (xs:list (list A)) :
  rows_sortedb ltb xs = forallb (adj_ok xs) (zrange 1 (length xs - 1)).
Proof.
  rewrite (rows_sortedb_shift 0). apply forallb_ext_in'. intros k _. f_equal. lia.
Qed.

Lemma column_at_ok fields n i : Forall (fun f => len f = n) fields -> 0 <= i < n ->
  column_at fields i = Ok (row_at d fields i).
Proof.
  intros Hall Hi. unfold column_at, row_at. apply map_res_ok. intros f Hf.
  rewrite Forall_forall in Hall. apply (get_ok 71 d). rewrite (Hall f Hf). exact Hi.
Qed.

Theorem check_if_sorted_ref (fields:list (list A)) (n:Z) :
  fields <> [] -> Forall (fun f => len f = n) fields ->
  check_if_sorted_for_multi_fields ltb fields = Ok (rows_sortedb ltb (rows_of d fields n)).
Proof.
  intros Hne Hall. destruct fields as [|f0 ft] eqn:Ef; [congruence|]. rewrite <- Ef in *.
  assert (Hf0 : len f0 = n). { rewrite Ef in Hall. inversion Hall; assumption. }
  assert (Hn0 : 0 <= n) by (rewrite <- Hf0; apply len_nonneg).
  assert (Hg : get 70 fields 0 = Ok f0) by (rewrite Ef; reflexivity).
  unfold check_if_sorted_for_multi_fields. rewrite Hg. cbn [bind]. rewrite Hf0.
  set (xs := rows_of d fields n).
  assert (Hxs : length xs = Z.to_nat n). { unfold xs, rows_of. rewrite map_length, zrange_length. reflexivity. }
  destruct (n =? 0) eqn:En.
  - apply Z.eqb_eq in En. f_equal. rewrite rows_sortedb_table, Hxs, En. reflexivity.
  - apply Z.eqb_neq in En. rewrite (column_at_ok fields n 0) by (try assumption; lia). cbn [bind].
    assert (Hrow : forall k, 0 <= k < n -> nthd [] xs k = row_at d fields k).
    { intros k Hk. unfold xs, rows_of. rewrite nthd_map_zrange by lia. reflexivity. }
    destruct (for_range_inv (fun k (st:bool * list A) =>
                1 <= k <= n /\ fst st = forallb (adj_ok xs) (zrange 1 (Z.to_nat (k - 1))) /\
                (fst st = true -> snd st = row_at d fields (k - 1)))
              (sorted_body ltb fields) (range_len 1 n) 1 (true, row_at d fields 0)) as [st [Hr [_ [Hok _]]]].
    + split; [lia|]. split; [reflexivity|]. intros _. reflexivity.
    + unfold range_len. intros k [ok pre] Hk [Hk1 [Hok Hpre]]. cbn [fst snd] in *. unfold sorted_body.
      destruct ok.
      * rewrite (column_at_ok fields n k) by (try assumption; lia). cbn [bind]. eexists. split; [reflexivity|].
        cbn [fst snd]. split; [lia|]. split.
        -- replace (Z.to_nat (k + 1 - 1)) with (S (Z.to_nat (k - 1))) by lia. rewrite zrange_snoc, forallb_snoc, <- Hok.
           cbn [andb]. replace (1 + Z.of_nat (Z.to_nat (k - 1))) with k by lia. unfold adj_ok.
           rewrite !Hrow by lia. rewrite Hpre by reflexivity. apply sorted_row_lex.
        -- intros _. f_equal. lia.
      * eexists. split; [reflexivity|]. cbn [fst snd]. split; [lia|]. split; [|discriminate].
        replace (Z.to_nat (k + 1 - 1)) with (S (Z.to_nat (k - 1))) by lia. rewrite zrange_snoc, forallb_snoc, <- Hok.
        reflexivity.
    + rewrite Hr. cbn [bind]. f_equal. rewrite Hok, rows_sortedb_table, Hxs. f_equal. f_equal. unfold range_len. lia.
Qed.
End Sorted.
