(* Proofs/MapCompose.v — C04, algebra of the mapping specification: it is row-wise (length, append)
   and mapping through two maps in succession is mapping once through the composed map, where the
   composed map is the second map mapped through the first with the invalid marker as filler.
   No precondition: the equations hold for every data, marker and maps. *)
From Coq Require Import ZArith List Bool Lia.
From EV Require Import Res Arr MapStream MapStreamSpec MapStreamBase MapStreamFixed MapStreamGen.
Import ListNotations.
Open Scope Z_scope.

Lemma map_spec_length_pf {A} (e:A) data inv m : length (map_spec e data inv m) = length m.
Proof. unfold map_spec. apply map_length. Qed.

Lemma map_spec_app_pf {A} (e:A) data inv m1 m2 :
  map_spec e data inv (m1 ++ m2) = map_spec e data inv m1 ++ map_spec e data inv m2.
Proof. unfold map_spec. apply map_app. Qed.

Definition compose_maps (inv:Z) (m1 m2:list Z) : list Z := map_spec inv m1 inv m2.

Theorem map_spec_compose_pf {A} (e:A) data inv m1 m2 :
  map_spec e (map_spec e data inv m1) inv m2 = map_spec e data inv (compose_maps inv m1 m2).
Proof.
  unfold compose_maps, map_spec. rewrite map_map. apply map_ext. intros k.
  destruct (k =? inv) eqn:Hk; [now rewrite Z.eqb_refl|].
  unfold nthd.
  set (f := fun k0 : Z => if k0 =? inv then e else nth (Z.to_nat k0) data e).
  assert (Hf : f inv = e) by (unfold f; now rewrite Z.eqb_refl).
  transitivity (nth (Z.to_nat k) (map f m1) (f inv)); [now rewrite Hf|].
  rewrite map_nth. reflexivity.
Qed.

Lemma nthd_map_in' {A B} (f:A -> B) (dA:A) (dB:B) (l:list A) i :
  0 <= i < len l -> nthd dB (map f l) i = f (nthd dA l i).
Proof.
  intros Hi. unfold nthd, len in *.
  rewrite (nth_indep _ dB (f dA)) by (rewrite map_length; lia).
  apply map_nth.
Qed.

Lemma len_compose inv m1 m2 : len (compose_maps inv m1 m2) = len m2.
Proof. unfold compose_maps, map_spec, len. now rewrite map_length. Qed.

Lemma nthZ_compose inv m1 m2 i : 0 <= i < len m2 ->
  nthZ (compose_maps inv m1 m2) i = if nthZ m2 i =? inv then inv else nthd inv m1 (nthZ m2 i).
Proof.
  intros Hi. unfold compose_maps, map_spec, nthZ.
  apply (nthd_map_in' (fun k => if k =? inv then inv else nthd inv m1 k) 0 0 m2 i Hi).
Qed.

(* the composed map of two in-range maps is in range *)
Lemma compose_in_range n inv m1 m2 :
  in_range_map n inv m1 -> in_range_map (len m1) inv m2 -> in_range_map n inv (compose_maps inv m1 m2).
Proof.
  unfold in_range_map. intros H1 H2 i Hi Hne.
  rewrite len_compose in Hi. rewrite nthZ_compose in * by exact Hi.
  destruct (nthZ m2 i =? inv) eqn:Hk; [congruence|].
  assert (Hk' : nthZ m2 i <> inv) by lia. specialize (H2 i Hi Hk').
  assert (Hn : nthd inv m1 (nthZ m2 i) = nthZ m1 (nthZ m2 i)).
  { unfold nthZ at 1, nthd. apply nth_indep. unfold len in H2. lia. }
  rewrite Hn in *. apply H1; [exact H2|exact Hne].
Qed.

(* streamed twice = streamed once through the composed map (any three chunk sizes) *)
Theorem map_stream_twice_pf (A:Type) (zfill empty:A) (data:list A) (inv:Z) (m1 m2:list Z)
        (cs1 cs2 cs3:Z) (f1 f2 f3:nat) :
  1 <= cs1 -> 1 <= cs2 -> 1 <= cs3 ->
  in_range_map (len data) inv m1 -> in_range_map (len m1) inv m2 ->
  (f1 >= length m1 + 1)%nat -> (f2 >= length m2 + 1)%nat -> (f3 >= length m2 + 1)%nat ->
  exists d1, ordered_map_valid_stream zfill empty f1 Fixed data m1 inv cs1 = Ok d1 /\
             ordered_map_valid_stream zfill empty f2 Fixed d1 m2 inv cs2
             = ordered_map_valid_stream zfill empty f3 Fixed data (compose_maps inv m1 m2) inv cs3.
Proof.
  intros Hc1 Hc2 Hc3 H1 H2 Hf1 Hf2 Hf3.
  exists (map_spec empty data inv m1). split.
  - apply map_stream_correct_any; assumption.
  - assert (Hl : len (map_spec empty data inv m1) = len m1)
      by (unfold len; now rewrite map_spec_length_pf).
    rewrite map_stream_correct_any; [|exact Hc2|rewrite Hl; exact H2|exact Hf2].
    rewrite map_stream_correct_any;
      [|exact Hc3|apply compose_in_range; assumption
       |unfold compose_maps; rewrite map_spec_length_pf; exact Hf3].
    f_equal. apply map_spec_compose_pf.
Qed.
