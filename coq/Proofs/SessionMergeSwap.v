(* Proofs/SessionMergeSwap.v — the inner join listed from the other side (C19).
   Session.ordered_merge_inner, left key with duplicates and right key unique, calls
   ordered_inner_map_left_unique(right, left, ...): the pairs come out right-major.  On sorted keys
   with a unique right key that is the same list as the left-major inner join. *)
From Coq Require Import ZArith List Lia Bool ZifyBool Sorted.
From EV Require Import Res Arr JoinSpec JoinBase SessionMergeBase.
Import ListNotations.
Open Scope Z_scope.

Definition swap (p:Z * Z) : Z * Z := (snd p, fst p).
Definition plt (p q:Z * Z) : Prop := fst p < fst q \/ (fst p = fst q /\ snd p < snd q).

Lemma inner_join_from_In R : forall L i0 i j,
  In (i, j) (inner_join_from L R i0) <->
  (i0 <= i < i0 + len L /\ 0 <= j < len R /\ nthZ L (i - i0) = nthZ R j).
Proof.
  induction L as [|key t IH]; intros i0 i j; cbn [inner_join_from].
  - rewrite len_nil. split; [intros []|lia].
  - rewrite len_cons. pose proof (len_nonneg t) as Ht. rewrite in_app_iff, IH, in_map_iff. split.
    + intros [(j' & Hp & Hj')|(H1 & H2 & H3)].
      * injection Hp as <- <-. apply matches_In in Hj'. rewrite Z.sub_diag, nthZ_cons_0. lia.
      * split; [lia|]. split; [lia|]. replace (i - i0) with (i - (i0 + 1) + 1) by lia.
        rewrite nthZ_cons_succ by lia. exact H3.
    + intros (H1 & H2 & H3). destruct (Z.eq_dec i i0) as [->|Hne].
      * left. exists j. split; [reflexivity|]. apply matches_In. rewrite Z.sub_diag, nthZ_cons_0 in H3. lia.
      * right. split; [lia|]. split; [lia|]. replace (i - i0) with (i - (i0 + 1) + 1) in H3 by lia.
        rewrite nthZ_cons_succ in H3 by lia. exact H3.
Qed.

Lemma inner_join_In L R i j :
  In (i, j) (inner_join L R) <-> (0 <= i < len L /\ 0 <= j < len R /\ nthZ L i = nthZ R j).
Proof. unfold inner_join. rewrite inner_join_from_In, Z.sub_0_r. lia. Qed.

(* ---- strictly sorted lists ---- *)
Lemma SS_app {A} (P:A -> A -> Prop) : forall l1 l2,
  StronglySorted P l1 -> StronglySorted P l2 -> (forall x y, In x l1 -> In y l2 -> P x y) ->
  StronglySorted P (l1 ++ l2).
Proof.
  induction l1 as [|a t IH]; intros l2 H1 H2 H; cbn [app]; [exact H2|].
  apply StronglySorted_inv in H1. destruct H1 as (Ht & Hf). constructor.
  - apply IH; [exact Ht|exact H2|]. intros x y Hx Hy. apply H; [right; exact Hx|exact Hy].
  - apply Forall_app. split; [exact Hf|]. apply Forall_forall. intros y Hy. apply H; [left; reflexivity|exact Hy].
Qed.

Lemma matches_from_SS key : forall R j0, StronglySorted Z.lt (matches_from key R j0).
Proof.
  induction R as [|x t IH]; intros j0; cbn [matches_from]; [constructor|].
  destruct (x =? key); [|apply IH]. constructor; [apply IH|].
  apply Forall_forall. intros j Hj. apply matches_from_In in Hj. lia.
Qed.

Lemma SS_map {A B} (P:A -> A -> Prop) (Q:B -> B -> Prop) (f:A -> B) : forall l,
  StronglySorted P l -> (forall x y, In x l -> In y l -> P x y -> Q (f x) (f y)) ->
  StronglySorted Q (map f l).
Proof.
  induction l as [|a t IH]; intros HS H; cbn [map]; [constructor|].
  apply StronglySorted_inv in HS. destruct HS as (Ht & Hf). constructor.
  - apply IH; [exact Ht|]. intros x y Hx Hy. apply H; right; assumption.
  - apply Forall_forall. intros y Hy. apply in_map_iff in Hy. destruct Hy as (x & <- & Hx).
    apply H; [left; reflexivity|right; exact Hx|]. rewrite Forall_forall in Hf. apply Hf. exact Hx.
Qed.

Lemma inner_join_from_SS R : forall L i0, StronglySorted plt (inner_join_from L R i0).
Proof.
  induction L as [|key t IH]; intros i0; cbn [inner_join_from]; [constructor|].
  apply SS_app.
  - apply (SS_map Z.lt plt (fun j => (i0, j))); [apply matches_from_SS|].
    intros x y _ _ Hxy. right. cbn [fst snd]. lia.
  - apply IH.
  - intros x y Hx Hy. apply in_map_iff in Hx. destruct Hx as (j & <- & _).
    destruct y as (i', j'). apply inner_join_from_In in Hy. left. cbn [fst]. lia.
Qed.

Lemma plt_irrefl p : ~ plt p p.
Proof. unfold plt. lia. Qed.
Lemma plt_asym p q : plt p q -> plt q p -> False.
Proof. unfold plt. lia. Qed.

(* two strictly sorted lists with the same elements are equal *)
Lemma SS_unique : forall l1 l2 : list (Z * Z),
  StronglySorted plt l1 -> StronglySorted plt l2 -> (forall x, In x l1 <-> In x l2) -> l1 = l2.
Proof.
  induction l1 as [|a t IH]; intros l2 H1 H2 Hin.
  - destruct l2 as [|b u]; [reflexivity|]. exfalso. apply (proj2 (Hin b)). left. reflexivity.
  - destruct l2 as [|b u]; [exfalso; apply (proj1 (Hin a)); left; reflexivity|].
    apply StronglySorted_inv in H1. destruct H1 as (Ht & Hfa).
    apply StronglySorted_inv in H2. destruct H2 as (Hu & Hfb).
    rewrite Forall_forall in Hfa, Hfb.
    assert (Hab : a = b).
    { destruct (proj1 (Hin a) (or_introl eq_refl)) as [Hb|Hb]; [symmetry; exact Hb|].
      destruct (proj2 (Hin b) (or_introl eq_refl)) as [Ha|Ha]; [exact Ha|].
      exfalso. exact (plt_asym a b (Hfa b Ha) (Hfb a Hb)). }
    subst b. f_equal. apply IH; [exact Ht|exact Hu|].
    intros x. split; intros Hx.
    + destruct (proj1 (Hin x) (or_intror Hx)) as [Hax|Hxu]; [|exact Hxu].
      subst x. exfalso. exact (plt_irrefl a (Hfa a Hx)).
    + destruct (proj2 (Hin x) (or_intror Hx)) as [Hax|Hxt]; [|exact Hxt].
      subst x. exfalso. exact (plt_irrefl a (Hfb a Hx)).
Qed.

(* ---- the swap ---- *)
Theorem inner_join_swap L R : sorted L -> ssorted R ->
  inner_join L R = map swap (inner_join R L).
Proof.
  intros HL HR. apply SS_unique.
  - apply inner_join_from_SS.
  - apply (SS_map plt plt swap); [apply inner_join_from_SS|].
    intros (j, i) (j', i') Hx Hy Hlt. apply inner_join_In in Hx. apply inner_join_In in Hy.
    unfold plt, swap in *. cbn [fst snd] in *.
    destruct Hlt as [Hlt|(-> & Hlt)]; [|left; exact Hlt].
    left. pose proof (HR j j' ltac:(lia) ltac:(lia) ltac:(lia)) as Hr.
    destruct (Z_lt_ge_dec i i') as [Hi|Hi]; [exact Hi|exfalso].
    pose proof (HL i' i ltac:(lia) ltac:(lia) ltac:(lia)). lia.
  - intros (i, j). rewrite inner_join_In, in_map_iff. split.
    + intros H. exists (j, i). split; [reflexivity|]. apply inner_join_In. lia.
    + intros ((j', i') & Hs & H). unfold swap in Hs. cbn [fst snd] in Hs. injection Hs as <- <-.
      apply inner_join_In in H. lia.
Qed.

Lemma map_fst_swap l : map fst (map swap l) = map snd l.
Proof. rewrite map_map. reflexivity. Qed.
Lemma map_snd_swap l : map snd (map swap l) = map fst l.
Proof. rewrite map_map. reflexivity. Qed.
