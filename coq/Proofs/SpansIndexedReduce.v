(* Proofs/SpansIndexedReduce.v — apply_spans_index_of_min_indexed / max_indexed return, per span, the
   row index of the first lexicographically smallest / largest string (byte-wise unsigned order, a
   proper prefix is smaller). *)
From Coq Require Import ZArith List Lia Bool.
From EV Require Import Res Arr Spans SpansSpec SpansBase SpansKernels SpansIndexed SpansOrder SpansReduce SpansMerge.
Import ListNotations.
Open Scope Z_scope.

(* three-way comparison of the common prefix *)
Fixpoint cmp3 (x y:list Z) : comparison :=
  match x, y with
  | a :: x', b :: y' => if a <? b then Lt else if b <? a then Gt else cmp3 x' y'
  | _, _ => Eq
  end.

Lemma bytes_ltb_cmp3 x y :
  bytes_ltb x y = match cmp3 x y with Lt => true | Gt => false | Eq => len x <? len y end.
Proof.
  revert y. induction x as [|a x IH]; intros [|b y]; cbn [bytes_ltb cmp3].
  - reflexivity.
  - rewrite len_nil, len_cons. pose proof (len_nonneg y). symmetry. apply Z.ltb_lt. lia.
  - rewrite len_nil, len_cons. pose proof (len_nonneg x). symmetry. apply Z.ltb_ge. lia.
  - destruct (a <? b); [reflexivity|]. destruct (b <? a); [reflexivity|]. rewrite IH, !len_cons.
    destruct (cmp3 x y); try reflexivity. destruct (len x <? len y) eqn:E1, (len x + 1 <? len y + 1) eqn:E2; try reflexivity; lia.
Qed.

Lemma indexed_cmp_ok values : forall (n:nat) k cs ce ms me,
  0 <= k -> 0 <= cs -> 0 <= ms -> cs + k <= ce <= len values -> ms + k <= me <= len values ->
  Z.of_nat n = Z.min (ce - cs - k) (me - ms - k) ->
  indexed_cmp n k values cs ms = Ok (cmp3 (slice values (cs + k) ce) (slice values (ms + k) me)).
Proof.
  induction n as [|n IH]; intros k cs ce ms me Hk Hcs Hms Hce Hme Hn.
  - cbn [indexed_cmp]. f_equal.
    destruct (Z.eq_dec (ce - cs - k) 0) as [E|E].
    + replace ce with (cs + k) by lia. rewrite slice_empty. reflexivity.
    + replace me with (ms + k) by lia. rewrite slice_empty. destruct (slice values (cs + k) ce); reflexivity.
  - cbn [indexed_cmp]. rewrite !getZ_ok by lia. cbn [bind].
    rewrite (slice_cons_Z values (cs + k) ce) by lia. rewrite (slice_cons_Z values (ms + k) me) by lia.
    cbn [cmp3]. destruct (nthZ values (cs + k) <? nthZ values (ms + k)); [reflexivity|].
    destruct (nthZ values (ms + k) <? nthZ values (cs + k)); [reflexivity|].
    replace (cs + k + 1) with (cs + (k + 1)) by lia. replace (ms + k + 1) with (ms + (k + 1)) by lia.
    apply IH; lia.
Qed.

Section Indexed.
Variables indices values : list Z.
Hypothesis Hs : sorted indices.
Hypothesis Hl : 1 <= len indices.
Hypothesis Hf : nthZ indices 0 = 0.
Hypothesis Hlast : nthZ indices (len indices - 1) = len values.

Let m := len indices - 1.
Let rows := indexed_rows indices values.
Definition rowlen (j:Z) : Z := nthZ indices (j + 1) - nthZ indices j.

Lemma idx_bounds i : 0 <= i <= m -> 0 <= nthZ indices i <= len values.
Proof. intros Hi. rewrite <- Hf, <- Hlast. split; apply Hs; unfold m in *; lia. Qed.
Lemma idx_mono i : 0 <= i < m -> nthZ indices i <= nthZ indices (i + 1).
Proof. intros Hi. apply Hs; unfold m in *; lia. Qed.
Lemma row_eq k : 0 <= k < m -> nthd [] rows k = slice values (nthZ indices k) (nthZ indices (k + 1)).
Proof. intros Hk. unfold rows. rewrite indexed_rows_table. fold m. rewrite nthd_map_zrange by lia. reflexivity. Qed.
Lemma len_rows : len rows = m.
Proof. unfold rows. rewrite len_indexed_rows. unfold m. lia. Qed.
Lemma len_row k : 0 <= k < m -> len (nthd [] rows k) = rowlen k.
Proof.
  intros Hk. rewrite row_eq by exact Hk. pose proof (idx_bounds k). pose proof (idx_bounds (k + 1)).
  pose proof (idx_mono k). rewrite len_slice by lia. reflexivity.
Qed.

Lemma min_inner_ok j minind : 0 <= j < m -> 0 <= minind < m ->
  min_indexed_inner indices values j (minind, nthZ indices minind, rowlen minind) =
  Ok (if bytes_ltb (nthd [] rows j) (nthd [] rows minind) then (j, nthZ indices j, rowlen j)
      else (minind, nthZ indices minind, rowlen minind)).
Proof.
  intros Hj Hm. unfold min_indexed_inner. rewrite !getZ_ok by (unfold m in *; lia). cbn [bind].
  pose proof (idx_bounds j). pose proof (idx_bounds (j + 1)). pose proof (idx_mono j).
  pose proof (idx_bounds minind). pose proof (idx_bounds (minind + 1)). pose proof (idx_mono minind).
  fold (rowlen j).
  rewrite (indexed_cmp_ok values _ 0 (nthZ indices j) (nthZ indices (j + 1)) (nthZ indices minind) (nthZ indices (minind + 1)))
    by (unfold rowlen; lia).
  cbn [bind]. rewrite !Z.add_0_r. rewrite <- !row_eq by lia.
  rewrite bytes_ltb_cmp3, !len_row by lia.
  destruct (cmp3 (nthd [] rows j) (nthd [] rows minind)); try reflexivity. destruct (rowlen j <? rowlen minind); reflexivity.
Qed.

Lemma max_inner_ok j minind : 0 <= j < m -> 0 <= minind < m ->
  max_indexed_inner indices values j (minind, nthZ indices minind, rowlen minind) =
  Ok (if flip_ltb bytes_ltb (nthd [] rows j) (nthd [] rows minind) then (j, nthZ indices j, rowlen j)
      else (minind, nthZ indices minind, rowlen minind)).
Proof.
  intros Hj Hm. unfold max_indexed_inner, flip_ltb. rewrite !getZ_ok by (unfold m in *; lia). cbn [bind].
  pose proof (idx_bounds j). pose proof (idx_bounds (j + 1)). pose proof (idx_mono j).
  pose proof (idx_bounds minind). pose proof (idx_bounds (minind + 1)). pose proof (idx_mono minind).
  fold (rowlen j).
  rewrite (indexed_cmp_ok values _ 0 (nthZ indices minind) (nthZ indices (minind + 1)) (nthZ indices j) (nthZ indices (j + 1)))
    by (unfold rowlen; lia).
  cbn [bind]. rewrite !Z.add_0_r. rewrite <- !row_eq by lia.
  rewrite bytes_ltb_cmp3, !len_row by lia.
  destruct (cmp3 (nthd [] rows minind) (nthd [] rows j)); try reflexivity. destruct (rowlen minind <? rowlen j); reflexivity.
Qed.

Section Generic.
Variable ltb : list Z -> list Z -> bool.
Variable inner : list Z -> list Z -> Z -> Z * Z * Z -> res (Z * Z * Z).
Hypothesis Hord : strict_total ltb.
Hypothesis Hinner : forall j minind, 0 <= j < m -> 0 <= minind < m ->
  inner indices values j (minind, nthZ indices minind, rowlen minind) =
  Ok (if ltb (nthd [] rows j) (nthd [] rows minind) then (j, nthZ indices j, rowlen j)
      else (minind, nthZ indices minind, rowlen minind)).

Lemma inner_loop cur : 0 <= cur -> forall (k:nat) i0 besti, 1 <= i0 -> 0 <= besti < i0 ->
  cur + i0 + Z.of_nat k <= m ->
  let r := argmin_from ltb (slice rows (cur + i0) (cur + i0 + Z.of_nat k)) i0 (nthd [] rows (cur + besti)) besti in
  for_range k (cur + i0) (inner indices values) (cur + besti, nthZ indices (cur + besti), rowlen (cur + besti))
  = Ok (cur + r, nthZ indices (cur + r), rowlen (cur + r)) /\ 0 <= r < i0 + Z.of_nat k.
Proof.
  intros Hcur. induction k as [|k IH]; intros i0 besti Hi0 Hb Hk.
  - rewrite slice_empty_gen by lia. cbn [argmin_from for_range]. split; [reflexivity|lia].
  - cbn [for_range]. rewrite Hinner by lia. cbn [bind].
    rewrite (slice_cons [] rows (cur + i0)) by (try rewrite len_rows; lia). cbn [argmin_from].
    replace (cur + i0 + Z.of_nat (S k)) with (cur + (i0 + 1) + Z.of_nat k) by lia.
    replace (cur + i0 + 1) with (cur + (i0 + 1)) by lia.
    destruct (ltb (nthd [] rows (cur + i0)) (nthd [] rows (cur + besti))).
    + destruct (IH (i0 + 1) i0) as [H1 H2]; [lia|lia|lia|]. split; [exact H1|lia].
    + destruct (IH (i0 + 1) besti) as [H1 H2]; [lia|lia|lia|]. split; [exact H1|lia].
Qed.

Theorem indexed_kernel_ref sp : valid_spans m sp ->
  apply_spans_index_of_indexed inner sp indices values =
  Ok (reduce_spans (fun (a:Z) (rs:list (list Z)) => a + argmin_spec ltb rs) sp rows).
Proof.
  intros Hv. pose proof Hv as [_ [Hsl _]]. unfold apply_spans_index_of_indexed.
  rewrite np_zeros_ok by lia. cbn [bind]. unfold range_len. replace (len sp - 1 - 0) with (len sp - 1) by lia.
  rewrite reduce_spans_table.
  apply for_range_tabulate; [rewrite len_repeat; lia|].
  intros i dest Hi Hd. destruct (valid_spans_bounds _ _ i Hv) as [B1 [B2 B3]]; [lia|].
  unfold indexed_body. rewrite !getZ_ok by lia. cbn [bind].
  rewrite (slice_cons [] rows) by (try rewrite len_rows; lia).
  pose proof (argmin_spec_correct ltb [] Hord (nthd [] rows (nthZ sp i)) (slice rows (nthZ sp i + 1) (nthZ sp (i + 1)))) as Ha.
  cbn [argmin] in Ha. injection Ha as Ha. rewrite <- Ha.
  destruct (nthZ sp (i + 1) - nthZ sp i =? 1) eqn:E1.
  - rewrite set_ok by lia. do 2 f_equal. replace (nthZ sp (i + 1)) with (nthZ sp i + 1) by lia.
    rewrite slice_empty. cbn [argmin_from]. lia.
  - rewrite !getZ_ok by (unfold m in *; lia). cbn [bind]. unfold range_len.
    fold (rowlen (nthZ sp i)).
    pose proof (inner_loop (nthZ sp i) B1 (Z.to_nat (nthZ sp (i + 1) - (nthZ sp i + 1))) 1 0) as Hloop.
    replace (nthZ sp i + 0) with (nthZ sp i) in Hloop by lia.
    destruct Hloop as [Hr _]; [lia|lia|lia|]. rewrite Hr. cbn [bind].
    replace (nthZ sp i + 1 + Z.of_nat (Z.to_nat (nthZ sp (i + 1) - (nthZ sp i + 1)))) with (nthZ sp (i + 1)) by lia.
    apply set_ok. lia.
Qed.
End Generic.

Theorem apply_spans_index_of_min_indexed_ref sp : valid_spans m sp ->
  apply_spans_index_of_min_indexed sp indices values = Ok (index_of_min_ref bytes_ltb sp rows).
Proof. intros Hv. apply (indexed_kernel_ref bytes_ltb min_indexed_inner bytes_ltb_strict_total min_inner_ok sp Hv). Qed.

Theorem apply_spans_index_of_max_indexed_ref sp : valid_spans m sp ->
  apply_spans_index_of_max_indexed sp indices values = Ok (index_of_max_ref bytes_ltb sp rows).
Proof.
  intros Hv.
  apply (indexed_kernel_ref (flip_ltb bytes_ltb) max_indexed_inner (strict_total_flip _ bytes_ltb_strict_total) max_inner_ok sp Hv).
Qed.
End Indexed.
