(* Proofs/CsvTypedGen.v — the window / regrowth driver with an ARBITRARY importer list (Model/CsvTyped.v, SC05).

   1. Conservativity: the generic driver instantiated with the indexed-string importers of Model/Csv.v
      is Csv.read_file (same result, same errors, same fuel).
   2. The importer list does not steer the driver: if the list is SOUND — whenever the staging buffers
      hold a group of records `recs` in the columnar layout (predicate Good), one round of import_part
      calls takes the state "after the records A" to the state "after A ++ recs" — then the import of a
      well-formed file ends in the state "after all records", for every chunk_row_size whose window holds
      every line and every positive budget vector (regrowth, re-entry, passes that commit no record).
      This is Proofs/CsvRegrowDrv.v (section DriverR) with the importer invariant made abstract. *)
From Coq Require Import ZArith List Lia Bool.
From EV Require Import Res Arr Csv CsvSpec CsvBase CsvKernel CsvTable CsvRows CsvDriver CsvPrefix CsvMulti CsvRegrow CsvRegrowDrv CsvTyped.
Import ListNotations.
Open Scope Z_scope.

(* ---- 1. conservativity ------------------------------------------------------------------------------ *)
Definition to_dst (g:gdst (list imp)) : dst :=
  mkDst (g_chunk g) (g_hdr g) (g_acc g) (g_inds g) (g_vals g) (g_offs g) (g_ifull g) (g_vfull g)
        (g_content g) (g_start g) (g_imps g) (g_trace g).

Definition lift_step (r:res (gdst (list imp) + gdst (list imp))) : res (dst + dst) :=
  match r with
  | Ok (inl g) => Ok (inl (to_dst g))
  | Ok (inr g) => Ok (inr (to_dst g))
  | OOB s => OOB s
  | Raise c => Raise c
  | OutOfFuel => OutOfFuel
  end.

Definition lift_res (r:res (gdst (list imp))) : res dst :=
  match r with Ok g => Ok (to_dst g) | OOB s => OOB s | Raise c => Raise c | OutOfFuel => OutOfFuel end.

Lemma gdrv_step_string file ncols cbs index_map g :
  drv_step file ncols cbs index_map (to_dst g) =
  lift_step (gdrv_step (list imp) (fun inds vals offs wrc ms => import_all inds vals offs index_map wrc ms) file ncols cbs g).
Proof.
  destruct g as [chunk hd acc inds vals offs dif dvf cont st imps tr].
  unfold drv_step, gdrv_step, to_dst.
  cbn [d_chunk d_hdr d_acc d_inds d_vals d_offs d_ifull d_vfull d_content d_start d_imps d_trace
       g_chunk g_hdr g_acc g_inds g_vals g_offs g_ifull g_vfull g_content g_start g_imps g_trace].
  cbv zeta.
  match goal with |- (if ?b then _ else _) = lift_step (if ?b then _ else _) => destruct b end; [reflexivity|].
  match goal with |- bind ?k _ = lift_step (bind ?k _) => destruct k as [r| | |] end; cbn [bind lift_step]; try reflexivity.
  match goal with |- (if ?b then _ else _) = lift_step (if ?b then _ else _) => destruct b end; [reflexivity|].
  match goal with |- bind ?k _ = lift_step (bind ?k _) => destruct k as [ms| | |] end; cbn [bind lift_step]; try reflexivity.
  match goal with |- bind ?k _ = lift_step (bind ?k _) => destruct k as [[o v]| | |] end; cbn [bind lift_step]; reflexivity.
Qed.

Lemma gdrv_loop_string file ncols cbs index_map : forall fuel g,
  drv_loop fuel file ncols cbs index_map (to_dst g) =
  lift_res (gdrv_loop (list imp) (fun inds vals offs wrc ms => import_all inds vals offs index_map wrc ms) fuel file ncols cbs g).
Proof.
  induction fuel as [|f IH]; intros g; [reflexivity|].
  cbn [drv_loop gdrv_loop]. replace (d_chunk (to_dst g)) with (g_chunk g) by reflexivity.
  destruct (g_chunk g <? len file); [|reflexivity].
  rewrite gdrv_step_string.
  destruct (gdrv_step (list imp) _ file ncols cbs g) as [[g'|g']| | |]; cbn [lift_step bind lift_res]; try reflexivity.
  apply IH.
Qed.

Theorem sread_file_is_read_file fuel file crs ncols offs index_map :
  read_file fuel file crs ncols offs index_map = lift_res (sread_file fuel file crs ncols offs index_map).
Proof.
  unfold read_file, sread_file, gread_file. rewrite <- gdrv_loop_string. reflexivity.
Qed.

(* ---- 2. sound importer lists --------------------------------------------------------------------------- *)
(* `ist A` is the state of the whole importer list after the records A *)
Definition imp_sound (I:Type) (imp_all:arr2 -> list Z -> list Z -> Z -> I -> res I) (ncols:Z)
           (ist:list (list cell) -> I) : Prop :=
  forall (A recs:list (list cell)) (w V:Z) (offs:list Z) (inds:arr2) (vals:list Z),
    len offs = ncols + 1 -> len recs + 1 <= w -> nthZ offs 0 = 0 ->
    (forall c, 0 <= c < ncols -> nthZ offs c + len (CB recs c) < nthZ offs (c + 1)) ->
    nthZ offs ncols <= V ->
    Good ncols w V offs recs (fun _ => len recs) inds vals ->
    imp_all inds vals offs (len recs) (ist A) = Ok (ist (A ++ recs)).

(* ---- the driver ------------------------------------------------------------------------------ *)
Section GenR.
Variables (hdr : list cell) (rows : list (list cell)) (file : list Z) (crs ncols : Z).
Variable I : Type.
Variable imp_all : arr2 -> list Z -> list Z -> Z -> I -> res I.
Variable ist : list (list cell) -> I.
Let ALL := render_file (hdr :: rows).
Let cbs := crs * 2 * ncols.
Hypothesis Hncols : 0 < ncols.
Hypothesis Hhdr : len hdr = ncols.
Hypothesis Hrect : Forall (fun rw : list cell => len rw = ncols) rows.
Hypothesis Hfile : file = ALL \/ (file ++ [NL] = ALL /\ file <> [] /\ last file NL <> NL).
Hypothesis Hwin : forall r, In r (hdr :: rows) -> len (render_row r) <= cbs.
Hypothesis Hsound : imp_sound I imp_all ncols ist.

Notation okoffs := (okoffs ncols).
Notation mu := (mu ncols rows).

Lemma cbs_pos' : 0 < cbs.
Proof. pose proof (Hwin hdr (or_introl eq_refl)) as H. pose proof (len_render_row_ge hdr) as (_ & H1). lia. Qed.

Definition pos (m:nat) : Z := len (render_file (hdr :: firstn m rows)).

(* one iteration of the driver, once the kernel call and the import are known *)
Lemma gdrv_step_post2 chunk hd acc inds vals offsd dif dvf cont st imps tr content start out imps' :
  (if negb dif && negb dvf
   then content = content_of file cbs chunk /\ start = 0 /\ len (slice file chunk (chunk + cbs)) <> 0
   else content = cont /\ start = st) ->
  fast_csv_reader (fsm_fuel content start) content start inds vals offsd hd = Ok out ->
  (f_ifull out = false -> f_vfull out = false -> 0 < f_next out) ->
  imp_all (f_inds out) (f_vals out) offsd (f_rows out) imps = Ok imps' ->
  (f_vfull out = true -> 0 <= f_vfc out < ncols) -> len offsd = ncols + 1 ->
  exists d', gdrv_step I imp_all file ncols cbs (mkG chunk hd acc inds vals offsd dif dvf cont st imps tr) = Ok (inl d') /\
    let full := (f_ifull out || f_vfull out) && (f_next out <? len content) in
    g_chunk d' = (if full then chunk else chunk + f_next out) /\ g_hdr d' = false /\ g_acc d' = acc + f_rows out /\
    g_inds d' = (if f_ifull out then zeros2 ncols ((fst (f_inds out) - 1) * 2 + 1) else f_inds out) /\
    g_offs d' = (if f_vfull out then dbl offsd (f_vfc out) else offsd) /\
    g_vals d' = (if f_vfull out then zeros (last (dbl offsd (f_vfc out)) 0) else f_vals out) /\
    g_ifull d' = full && f_ifull out /\ g_vfull d' = full && f_vfull out /\
    g_content d' = content /\ g_start d' = (if full then f_next out else start) /\ g_imps d' = imps'.
Proof.
  intros Hfr Hk Hnext Himp Hvfc Hlo.
  unfold gdrv_step. cbn [g_ifull g_vfull g_chunk g_content g_start g_inds g_vals g_offs g_hdr g_imps g_acc g_trace].
  cbv zeta.
  assert (Hcommon : forall (X:res (gdst I + gdst I)),
    (do r <- fast_csv_reader (fsm_fuel content start) content start inds vals offsd hd;
     if negb (f_ifull r) && negb (f_vfull r) && (f_next r <=? 0) then Raise E_ValueError else
     do imps'0 <- imp_all (f_inds r) (f_vals r) offsd (f_rows r) imps;
     do '(offs', vals') <-
        (if f_vfull r && negb (f_vfc r =? -1) then
           do a <- get 30 offsd (f_vfc r + 1);
           do b <- get 30 offsd (f_vfc r);
           Ok (firstn (Z.to_nat (f_vfc r + 1)) offsd ++ map (fun x => x + (a - b) * (2 - 1)) (skipn (Z.to_nat (f_vfc r + 1)) offsd),
               zeros (last (firstn (Z.to_nat (f_vfc r + 1)) offsd ++ map (fun x => x + (a - b) * (2 - 1)) (skipn (Z.to_nat (f_vfc r + 1)) offsd)) 0))
         else Ok (offsd, f_vals r));
     Ok (inl (mkG (if (f_ifull r || f_vfull r) && (f_next r <? len content) then chunk else chunk + f_next r) false (acc + f_rows r)
                 (if f_ifull r then zeros2 ncols ((fst (f_inds r) - 1) * 2 + 1) else f_inds r) vals' offs'
                 ((f_ifull r || f_vfull r) && (f_next r <? len content) && f_ifull r)
                 ((f_ifull r || f_vfull r) && (f_next r <? len content) && f_vfull r) content
                 (if (f_ifull r || f_vfull r) && (f_next r <? len content) then f_next r else start)
                 imps'0 ([chunk; start; len content; f_next r; f_rows r; b2z (f_ifull r); b2z (f_vfull r); b2z (f_esc r); b2z (f_cand r)] :: tr)))) = X ->
    exists d', X = Ok (inl d') /\
      g_chunk d' = (if (f_ifull out || f_vfull out) && (f_next out <? len content) then chunk else chunk + f_next out) /\
      g_hdr d' = false /\ g_acc d' = acc + f_rows out /\
      g_inds d' = (if f_ifull out then zeros2 ncols ((fst (f_inds out) - 1) * 2 + 1) else f_inds out) /\
      g_offs d' = (if f_vfull out then dbl offsd (f_vfc out) else offsd) /\
      g_vals d' = (if f_vfull out then zeros (last (dbl offsd (f_vfc out)) 0) else f_vals out) /\
      g_ifull d' = (f_ifull out || f_vfull out) && (f_next out <? len content) && f_ifull out /\
      g_vfull d' = (f_ifull out || f_vfull out) && (f_next out <? len content) && f_vfull out /\
      g_content d' = content /\ g_start d' = (if (f_ifull out || f_vfull out) && (f_next out <? len content) then f_next out else start) /\
      g_imps d' = imps').
  { intros X <-. rewrite Hk. cbn [bind].
    assert (Ev : negb (f_ifull out) && negb (f_vfull out) && (f_next out <=? 0) = false).
    { destruct (f_ifull out) eqn:E1; [reflexivity|]. destruct (f_vfull out) eqn:E2; [reflexivity|]. cbn [negb andb].
      apply Z.leb_gt. apply Hnext; reflexivity. }
    rewrite Ev. rewrite Himp. cbn [bind].
    destruct (f_vfull out) eqn:Evf.
    - specialize (Hvfc eq_refl). assert (Ene : (f_vfc out =? -1) = false) by (apply Z.eqb_neq; lia).
      rewrite Ene. cbn [negb andb]. rewrite !getZ_ok by lia. cbn [bind].
      eexists. split; [reflexivity|]. cbn [g_chunk g_hdr g_acc g_inds g_vals g_offs g_ifull g_vfull g_imps g_content g_start].
      unfold dbl. repeat split.
    - cbn [andb bind]. eexists. split; [reflexivity|]. cbn [g_chunk g_hdr g_acc g_inds g_vals g_offs g_ifull g_vfull g_imps g_content g_start].
      repeat split. }
  destruct dif, dvf; cbn [negb andb] in Hfr |- *.
  - destruct Hfr as (-> & ->). apply Hcommon. reflexivity.
  - destruct Hfr as (-> & ->). apply Hcommon. reflexivity.
  - destruct Hfr as (-> & ->). apply Hcommon. reflexivity.
  - destruct Hfr as (Hc & -> & Hc0). unfold content_of in Hc.
    destruct (len (slice file chunk (chunk + cbs)) =? 0) eqn:E0; [apply Z.eqb_eq in E0; contradiction|].
    rewrite <- Hc. apply Hcommon. reflexivity.
Qed.

Definition fresh (d:gdst I) : bool := negb (g_ifull d) && negb (g_vfull d).

Definition InvR (m:nat) (d:gdst I) : Prop :=
  (m <= length rows)%nat /\ g_hdr d = false /\ g_acc d = Z.of_nat m /\
  g_imps d = ist (firstn m rows) /\
  okoffs (g_offs d) /\ len (g_vals d) = nthZ (g_offs d) ncols /\
  (exists wd, 2 <= wd /\ shape ncols wd (g_inds d)) /\ (forall c, 0 <= c < ncols -> I2 (g_inds d) c 0 = 0) /\
  (if fresh d then g_chunk d = pos m
   else g_chunk d < len file /\ 0 <= g_start d <= len (g_content d) /\ g_chunk d + g_start d = pos m /\
        exists (k:nat) p, (k <= length (skipn m rows))%nat /\
          suf (g_content d) (g_start d) = render_file (firstn k (skipn m rows)) ++ p /\
          cutp (skipn m rows) k p /\ (g_start d = 0 -> (1 <= k)%nat)).

Definition Mz (d:gdst I) : Z := 2 * (len rows - g_acc d) + 2 * mu (g_offs d) + (if fresh d then 0 else 1).

Lemma pos_add m j : pos (m + j) = pos m + len (render_file (firstn j (skipn m rows))).
Proof. unfold pos. rewrite firstn_add. rewrite <- len_app, <- render_file_app. reflexivity. Qed.

Lemma okoffs_nonneg o c : okoffs o -> 0 <= c <= ncols -> 0 <= nthZ o c.
Proof.
  intros (Hl & H0 & Hb) Hc. apply (offs_nonneg1 o 0 ncols [] H0 Hb c Hc).
Qed.

Lemma render_file_firstn_pos (T:list (list cell)) (j:nat) : (1 <= j)%nat -> (j <= length T)%nat -> 0 < len (render_file (firstn j T)).
Proof.
  intros H1 H2. destruct T as [|r0 T]; [cbn in H2; lia|]. destruct j; [lia|]. cbn [firstn]. rewrite render_file_cons, len_app.
  pose proof (len_render_row_ge r0) as (_ & Hg). pose proof (len_nonneg (render_file (firstn j T))). lia.
Qed.

(* a kernel call followed by the import and the regrowth bookkeeping *)
Lemma after_call (m:nat) chunk hd inds vals offsd dif dvf cont st tr content start base (k:nat) p out wd :
  (m <= length rows)%nat ->
  (if negb dif && negb dvf
   then content = content_of file cbs chunk /\ start = 0 /\ len (slice file chunk (chunk + cbs)) <> 0
   else content = cont /\ start = st) ->
  okoffs offsd -> len vals = nthZ offsd ncols -> 2 <= wd -> shape ncols wd inds ->
  fast_csv_reader (fsm_fuel content start) content start inds vals offsd hd = Ok out ->
  KOut content offsd (wd - 1) ncols (nthZ offsd ncols) (skipn m rows) k base out ->
  chunk + base = pos m -> 0 <= base <= len content -> chunk < len file ->
  (k <= length (skipn m rows))%nat ->
  suf content base = render_file (firstn k (skipn m rows)) ++ p -> cutp (skipn m rows) k p ->
  (base = 0 -> (1 <= k)%nat) ->
  (hd = false -> negb dif && negb dvf = true -> (1 <= k)%nat) ->
  exists (j:nat) d',
    gdrv_step I imp_all file ncols cbs
      (mkG chunk hd (Z.of_nat m) inds vals offsd dif dvf cont st (ist (firstn m rows)) tr) = Ok (inl d') /\
    InvR (m + j) d' /\
    Mz d' + 1 <= 2 * (len rows - Z.of_nat m) + 2 * mu offsd + (if negb dif && negb dvf then 0 else 1) + (if hd then 2 else 0).
Proof.
  intros Hm Hfr Hok Hlv Hwd Hsh Hk (j & Hjk & Hrows & Hjm & Hnext & HG & Hcase) Hpos Hbase Hchunk Hkl Hsuf Hcut Hb0 Hk1.
  set (T := skipn m rows) in *.
  assert (HlT : length T = (length rows - m)%nat) by (unfold T; apply skipn_length).
  pose proof Hok as (Hlo & Ho0 & Hob).
  assert (Hw1 : wd - 1 + 1 = wd) by lia.
  pose proof (len_nonneg (render_file (firstn j T))) as Hlrf.
  assert (Hjpos : (1 <= j)%nat -> 0 < len (render_file (firstn j T))) by (intros; apply render_file_firstn_pos; lia).
  (* the import *)
  pose proof (GoodL_Good offsd (wd - 1) ncols (nthZ offsd ncols) T _ _ _ HG) as HG1. rewrite Hw1 in HG1.
  pose proof (Good_firstn ncols wd (nthZ offsd ncols) offsd T j (f_inds out) (f_vals out) ltac:(lia) HG1) as HG2.
  set (recs := firstn j T) in *.
  assert (Hlrecs : len recs = Z.of_nat j) by (unfold recs, len; rewrite firstn_length; lia).
  assert (Hbrecs : forall c, 0 <= c < ncols -> nthZ offsd c + len (CB recs c) < nthZ offsd (c + 1)).
  { intros c Hc. destruct HG as (_ & _ & HGc). destruct (HGc c Hc) as (_ & Hbd & _). unfold bud in Hbd.
    unfold recs. rewrite len_CB_firstn_P. lia. }
  pose proof (Hsound (firstn m rows) recs wd (nthZ offsd ncols) offsd (f_inds out) (f_vals out) Hlo ltac:(lia) Ho0 Hbrecs ltac:(lia) HG2) as Himp.
  rewrite Hlrecs, <- Hrows in Himp.
  assert (Hnv : f_ifull out = false -> f_vfull out = false -> 0 < f_next out).
  { intros E1 E2. destruct Hcase as [(A & _)|[(_ & A & _)|(_ & _ & A)]]; try congruence. subst j.
    rewrite Hnext. destruct (Z.eq_dec base 0) as [E0|E0]; [|lia]. specialize (Hjpos (Hb0 E0)). lia. }
  assert (Hvfc : f_vfull out = true -> 0 <= f_vfc out < ncols).
  { intros E. destruct Hcase as [(_ & _ & A & _)|[(A & _)|(A & _)]]; [exact A|congruence|congruence]. }
  destruct (gdrv_step_post2 chunk hd (Z.of_nat m) inds vals offsd dif dvf cont st _ tr content start out _ Hfr Hk Hnv Himp Hvfc Hlo)
    as (d' & Hd & D1 & D2 & D3 & D4 & D5 & D6 & D7 & D8 & D9 & D10 & D11).
  exists j, d'. split; [exact Hd|]. subst recs.
  (* facts common to all outcomes *)
  assert (Hmj : (m + j <= length rows)%nat) by lia.
  assert (Himps' : g_imps d' = ist (firstn (m + j) rows)).
  { rewrite D11, firstn_add. reflexivity. }
  assert (Hacc' : g_acc d' = Z.of_nat (m + j)) by (rewrite D3, Hrows; lia).
  assert (Hposj : chunk + f_next out = pos (m + j)) by (rewrite pos_add; fold T; lia).
  assert (Hnle : f_next out <= len content).
  { destruct (suf_bound content base _ ltac:(lia) Hsuf) as [Hb|Hb].
    - assert (Hkj : firstn k T = firstn j T ++ firstn (k - j) (skipn j T)) by (replace k with (j + (k - j))%nat at 1 by lia; apply firstn_add).
      rewrite Hkj, render_file_app, !len_app in Hb. pose proof (len_nonneg (render_file (firstn (k - j) (skipn j T)))). pose proof (len_nonneg p). lia.
    - apply app_eq_nil in Hb. destruct Hb as (Hb & _).
      assert (j = 0%nat \/ (1 <= j)%nat) as [->|Hj1] by lia; [cbn [firstn render_file map concat] in Hnext; replace (len (@nil Z)) with 0 in Hnext by reflexivity; lia|].
      assert (Hkp : 0 < len (render_file (firstn k T))) by (apply render_file_firstn_pos; lia). rewrite Hb in Hkp. cbn in Hkp. lia. }
  assert (Hshape_out : shape ncols wd (f_inds out)) by (destruct HG1 as (A & _); exact A).
  assert (HI0 : forall c, 0 <= c < ncols -> I2 (f_inds out) c 0 = 0).
  { intros c Hc. destruct HG as (_ & _ & HGc). destruct (HGc c Hc) as (_ & _ & Hi & _). rewrite (Hi 0 ltac:(lia)). apply P_0. }
  assert (Hlvo : len (f_vals out) = nthZ offsd ncols) by (destruct HG as (_ & A & _); exact A).
  (* the state in which the same window is re-entered *)
  assert (Hre : forall k' , k' = (k - j)%nat ->
            (k' <= length (skipn (m + j) rows))%nat /\
            suf content (f_next out) = render_file (firstn k' (skipn (m + j) rows)) ++ p /\
            cutp (skipn (m + j) rows) k' p /\ (f_next out = 0 -> (1 <= k')%nat)).
  { intros k' ->. assert (Esk : skipn (m + j) rows = skipn j T) by (unfold T; rewrite skipn_skipn_; reflexivity).
    rewrite Esk. split; [rewrite skipn_length; lia|]. split; [|split].
    - assert (Hkj : firstn k T = firstn j T ++ firstn (k - j) (skipn j T)) by (replace k with (j + (k - j))%nat at 1 by lia; apply firstn_add).
      rewrite Hkj, render_file_app, <- app_assoc in Hsuf. rewrite Hnext. apply (suf_app_len content base _ _ ltac:(lia) Hsuf).
    - destruct Hcut as [->|(Hk2 & q & Hq & Eq)]; [left; reflexivity|right]. split; [rewrite skipn_length; lia|].
      exists q. split; [exact Hq|]. rewrite nth_skipn_. replace (j + (k - j))%nat with k by lia. exact Eq.
    - intros E0. assert (j = 0%nat \/ (1 <= j)%nat) as [->|Hj1] by lia.
      + rewrite Nat.sub_0_r. apply Hb0. cbn [firstn render_file map concat] in Hnext. replace (len (@nil Z)) with 0 in Hnext by reflexivity. lia.
      + specialize (Hjpos Hj1). lia. }
  unfold InvR, Mz, fresh. rewrite D2, Hacc', Himps', D4, D5, D6, D7, D8, D9, D10, D1.
  destruct Hcase as [(Evf & Eif & Hv & Hbv & Hnl)|[(Evf & Eif & Ejm)|(Evf & Eif & Ejk)]]; rewrite Evf, Eif; cbn [orb andb negb].
  - (* values full: the budget of column vfc is doubled, the window is re-entered *)
    assert (Elt : (f_next out <? len content) = true) by (apply Z.ltb_lt; exact Hnl). rewrite Elt. cbn [andb negb].
    pose proof (okoffs_dbl ncols offsd (f_vfc out) Hok Hv) as Hok'.
    split; [|].
    + split; [exact Hmj|]. split; [reflexivity|]. split; [reflexivity|]. split; [reflexivity|]. split; [exact Hok'|].
      split; [rewrite (okoffs_last ncols Hncols _ Hok'); apply len_zeros; apply (okoffs_nonneg _ ncols Hok'); lia|].
      split; [exists wd; split; [lia|exact Hshape_out]|]. split; [exact HI0|].
      split; [exact Hchunk|]. split; [lia|]. split; [exact Hposj|].
      exists (k - j)%nat, p. apply Hre. reflexivity.
    + assert (Hbv2 : 1 <= bud offsd (f_vfc out) <= len (CB rows (f_vfc out))).
      { unfold bud. pose proof (Hob (f_vfc out) Hv). pose proof (len_CB_skipn m rows (f_vfc out)). fold T in H0. unfold bud in Hbv. lia. }
      pose proof (mu_dbl ncols rows Hncols offsd (f_vfc out) Hok Hv Hbv2) as Hmu.
      destruct (negb dif && negb dvf); destruct hd; lia.
  - (* indices full *)
    assert (Hj1 : (1 <= j)%nat) by lia.
    assert (Hz : shape ncols ((wd - 1) * 2 + 1) (zeros2 ncols ((fst (f_inds out) - 1) * 2 + 1))).
    { destruct Hshape_out as (Hf & _). rewrite Hf. apply shape_zeros2; lia. }
    assert (Hz0 : forall c, 0 <= c < ncols -> I2 (zeros2 ncols ((fst (f_inds out) - 1) * 2 + 1)) c 0 = 0).
    { intros c Hc. destruct Hshape_out as (Hf & _). rewrite Hf. apply I2_zeros2; lia. }
    destruct (f_next out <? len content) eqn:Elt; cbn [andb negb].
    + apply Z.ltb_lt in Elt. split.
      * split; [exact Hmj|]. split; [reflexivity|]. split; [reflexivity|]. split; [reflexivity|]. split; [exact Hok|].
        split; [exact Hlvo|]. split; [exists ((wd - 1) * 2 + 1); split; [lia|exact Hz]|]. split; [exact Hz0|].
        split; [exact Hchunk|]. split; [lia|]. split; [exact Hposj|].
        exists (k - j)%nat, p. apply Hre. reflexivity.
      * destruct (negb dif && negb dvf); destruct hd; pose proof (mu_nonneg ncols rows offsd); lia.
    + split.
      * split; [exact Hmj|]. split; [reflexivity|]. split; [reflexivity|]. split; [reflexivity|]. split; [exact Hok|].
        split; [exact Hlvo|]. split; [exists ((wd - 1) * 2 + 1); split; [lia|exact Hz]|]. split; [exact Hz0|]. exact Hposj.
      * destruct (negb dif && negb dvf); destruct hd; pose proof (mu_nonneg ncols rows offsd); lia.
  - (* the window is consumed *)
    subst j. split.
    + split; [exact Hmj|]. split; [reflexivity|]. split; [reflexivity|]. split; [reflexivity|]. split; [exact Hok|].
      split; [exact Hlvo|]. split; [exists wd; split; [lia|exact Hshape_out]|]. split; [exact HI0|]. exact Hposj.
    + destruct (negb dif && negb dvf) eqn:Efr0.
      * destruct hd; [pose proof (mu_nonneg ncols rows offsd); lia|].
        specialize (Hk1 eq_refl eq_refl). pose proof (mu_nonneg ncols rows offsd). lia.
      * destruct hd; pose proof (mu_nonneg ncols rows offsd); lia.
Qed.

Lemma Forall_skipn' {A} (Pp:A -> Prop) n l : Forall Pp l -> Forall Pp (skipn n l).
Proof.
  revert l. induction n as [|n IH]; intros l H; [exact H|]. destruct l as [|x l]; [constructor|].
  cbn [skipn]. inversion H; subst. auto.
Qed.

Lemma pre_split' m : render_file (hdr :: firstn m rows) ++ render_file (skipn m rows) = ALL.
Proof. unfold ALL. rewrite <- render_file_app. cbn [app]. rewrite firstn_skipn. reflexivity. Qed.

Lemma Mz_nonneg m d : InvR m d -> 0 <= Mz d.
Proof.
  intros (Hm & _ & Hacc & _). unfold Mz. rewrite Hacc. pose proof (mu_nonneg ncols rows (g_offs d)).
  unfold len. destruct (fresh d); lia.
Qed.

(* any iteration after the first *)
Lemma step_general m d : InvR m d -> ((m < length rows)%nat \/ fresh d = false) ->
  g_chunk d < len file /\
  exists j d', gdrv_step I imp_all file ncols cbs d = Ok (inl d') /\ InvR (m + j) d' /\ Mz d' + 1 <= Mz d.
Proof.
  intros (Hm & Hh & Hacc & Himps & Hok & Hlv & (wd & Hwd & Hsh) & H0 & Hposn) Hgo.
  pose proof cbs_pos' as Hcbs. pose proof Hok as (Hlo & Ho0 & Hob).
  set (T := skipn m rows).
  assert (HTrect : Forall (fun r : list cell => len r = ncols) T) by (apply Forall_skipn'; exact Hrect).
  assert (Hsh' : shape ncols (wd - 1 + 1) (g_inds d)) by (replace (wd - 1 + 1) with wd by lia; exact Hsh).
  destruct d as [chunk hd acc inds vals doffs dif dvf cont st imps tr].
  unfold Mz, fresh in *. cbn [g_chunk g_hdr g_acc g_ifull g_vfull g_offs g_inds g_vals g_imps g_content g_start] in *.
  subst hd acc imps.
  destruct (negb dif && negb dvf) eqn:Efr.
  - (* a fresh window *)
    destruct Hgo as [Hlt|Hgo]; [|discriminate].
    assert (HTne : T <> []).
    { unfold T. intros E. pose proof (skipn_length m rows) as Hs. rewrite E in Hs. cbn in Hs. lia. }
    assert (HTwin : forall r, In r T -> len (render_row r) <= cbs).
    { intros r Hr. apply Hwin. right. unfold T in Hr. rewrite <- (firstn_skipn m rows). apply in_or_app. right. exact Hr. }
    destruct (window_records file ALL cbs Hfile Hcbs ncols crs T (render_file (hdr :: firstn m rows)) eq_refl Hncols (pre_split' m) HTne HTrect
                (last_render_file _) HTwin) as (Hc0 & Hlt2 & k & p & Ec & (Hk1 & Hk2) & _ & Hp).
    fold (pos m) in Hc0, Hlt2, Ec. rewrite <- Hposn in Hc0, Hlt2, Ec. split; [exact Hlt2|].
    assert (Hcut : cutp T k p).
    { destruct Hp as [->|(_ & Hp2 & Hp3)]; [left; reflexivity|right]. split; assumption. }
    assert (Hrange : 0 <= 0 <= len (content_of file cbs chunk)).
    { pose proof (len_nonneg (content_of file cbs chunk)). lia. }
    destruct (kernel_gen_nohdr (content_of file cbs chunk) doffs (wd - 1) ncols Hlo Hncols ltac:(lia) (nthZ doffs ncols) T Ho0 Hob
                ltac:(lia) HTrect k 0 inds vals p Hk2 Hrange Ec Hcut Hsh' H0 Hlv) as (out & Hk & HK).
    destruct (after_call m chunk false inds vals doffs dif dvf cont st tr (content_of file cbs chunk) 0 0 k p out wd Hm) as (j & d' & Hd & HI & HM);
      try assumption; try lia.
    + rewrite Efr. auto.
    + rewrite Efr in HM. unfold Mz, fresh in HM. exists j, d'. split; [exact Hd|]. split; [exact HI|]. lia.
  - (* the same window re-entered at the saved offset *)
    destruct Hposn as (Hchunk & Hst & Hps & k & p & Hkl & Hsuf & Hcut & Hs0). split; [exact Hchunk|].
    destruct (kernel_gen_nohdr cont doffs (wd - 1) ncols Hlo Hncols ltac:(lia) (nthZ doffs ncols) T Ho0 Hob
                ltac:(lia) HTrect k st inds vals p Hkl Hst Hsuf Hcut Hsh' H0 Hlv) as (out & Hk & HK).
    destruct (after_call m chunk false inds vals doffs dif dvf cont st tr cont st st k p out wd Hm) as (j & d' & Hd & HI & HM);
      try assumption; try lia.
    + rewrite Efr. auto.
    + intros _ E. rewrite Efr in E. discriminate.
    + rewrite Efr in HM. unfold Mz, fresh in HM. exists j, d'. split; [exact Hd|]. split; [exact HI|]. lia.
Qed.

(* the first iteration: header line first *)
Lemma step_first_r offs0 tr0 cont0 st0 : okoffs offs0 ->
  exists j d', gdrv_step I imp_all file ncols cbs
     (mkG 0 true 0 (zeros2 ncols (crs * 2 + 1)) (zeros (last offs0 0)) offs0 false false cont0 st0
            (ist (firstn 0 rows)) tr0) = Ok (inl d') /\ InvR j d' /\
     Mz d' + 1 <= 2 * len rows + 2 * mu offs0 + 2 /\ 0 < len file.
Proof.
  intros Hok. pose proof cbs_pos' as Hcbs. pose proof Hok as (Hlo & Ho0 & Hob).
  assert (Hcrs : 0 < crs) by (unfold cbs in Hcbs; nia).
  assert (HTrect : Forall (fun r : list cell => len r = ncols) (hdr :: rows)) by (constructor; assumption).
  destruct (window_records file ALL cbs Hfile Hcbs ncols crs (hdr :: rows) [] eq_refl Hncols eq_refl ltac:(discriminate) HTrect
              eq_refl Hwin) as (Hc0 & Hlt2 & k & p & Ec & (Hk1 & Hk2) & _ & Hp).
  replace (len (@nil Z)) with 0 in * by reflexivity.
  destruct k as [|k0]; [lia|]. cbn [firstn length nth] in *. rewrite render_file_cons, <- app_assoc in Ec.
  assert (HVl : last offs0 0 = nthZ offs0 ncols) by (apply okoffs_last; assumption).
  assert (HVn : 0 <= nthZ offs0 ncols) by (apply (okoffs_nonneg offs0 ncols Hok); lia).
  assert (Hcut : cutp rows k0 p).
  { destruct Hp as [->|(_ & Hp2 & Hp3)]; [left; reflexivity|right]. split; [lia|exact Hp3]. }
  assert (Hshz : shape ncols (crs * 2 + 1) (zeros2 ncols (crs * 2 + 1))) by (apply shape_zeros2; lia).
  assert (Hz0 : forall c, 0 <= c < ncols -> I2 (zeros2 ncols (crs * 2 + 1)) c 0 = 0) by (intros c Hc; apply I2_zeros2; lia).
  assert (Hlz : len (zeros (last offs0 0)) = nthZ offs0 ncols) by (rewrite HVl; apply len_zeros; exact HVn).
  destruct (kernel_gen_hdr (content_of file cbs 0) offs0 (crs * 2) ncols Hlo Hncols ltac:(lia) (nthZ offs0 ncols) rows Ho0 Hob
              ltac:(lia) Hrect hdr k0 (zeros2 ncols (crs * 2 + 1)) (zeros (last offs0 0)) p ltac:(lia) Hhdr Ec Hcut Hshz Hz0 Hlz)
    as (out & Hk & HK).
  pose proof (len_render_row_ge hdr) as (_ & Hh1).
  assert (Hsuf0 : suf (content_of file cbs 0) 0 = render_row hdr ++ (render_file (firstn k0 rows) ++ p)) by (rewrite suf_0; exact Ec).
  pose proof (suf_app_len _ 0 _ _ ltac:(lia) Hsuf0) as Hsufb. rewrite Z.add_0_l in Hsufb.
  assert (Hlenc : len (render_row hdr) <= len (content_of file cbs 0)).
  { rewrite Ec, len_app. pose proof (len_nonneg (render_file (firstn k0 rows) ++ p)). lia. }
  replace (crs * 2) with (crs * 2 + 1 - 1) in HK by lia.
  destruct (after_call 0 0 true (zeros2 ncols (crs * 2 + 1)) (zeros (last offs0 0)) offs0 false false cont0 st0 tr0
              (content_of file cbs 0) 0 (len (render_row hdr)) k0 p out (crs * 2 + 1) ltac:(lia)) as (j & d' & Hd & HI & HM);
    try assumption; try lia.
  - cbn [negb andb]. auto.
  - unfold pos. cbn [firstn]. cbn [render_file map concat]. rewrite app_nil_r. lia.
  - cbn [skipn]. lia.
  - cbn [negb andb] in HM. exists j, d'. split; [|split; [exact HI|split; [cbn [Nat.add] in *; replace (Z.of_nat 0) with 0 in HM by reflexivity; lia|lia]]].
    exact Hd.
Qed.

Lemma loop_done_r d : InvR (length rows) d -> fresh d = true -> forall fuel, (1 <= fuel)%nat ->
  gdrv_loop I imp_all fuel file ncols cbs d = Ok d.
Proof.
  intros (_ & _ & _ & _ & _ & _ & _ & _ & Hch) Hf fuel Hfu. rewrite Hf in Hch. destruct fuel as [|f]; [lia|]. cbn [gdrv_loop].
  unfold pos in Hch. rewrite firstn_all in Hch. fold ALL in Hch.
  assert (Hle : len file <= len ALL).
  { destruct Hfile as [->|(E & _)]; [lia|]. rewrite <- E, len_app. pose proof (len_nonneg [NL]). lia. }
  destruct (g_chunk d <? len file) eqn:E; [apply Z.ltb_lt in E; lia|reflexivity].
Qed.

Lemma loop_all_r : forall (n:nat) m d, InvR m d -> Mz d <= Z.of_nat n -> forall fuel, (n + 1 <= fuel)%nat ->
  exists d', gdrv_loop I imp_all fuel file ncols cbs d = Ok d' /\ InvR (length rows) d' /\ fresh d' = true.
Proof.
  induction n as [|n IH]; intros m d HI HM fuel Hf.
  - pose proof HI as (Hm & _).
    destruct (fresh d) eqn:Efr; [destruct (Nat.eq_dec m (length rows)) as [->|Hne]|].
    + exists d. split; [apply loop_done_r; [exact HI|exact Efr|lia]|auto].
    + destruct (step_general m d HI ltac:(left; lia)) as (_ & j & d' & _ & HI' & HM'). pose proof (Mz_nonneg _ _ HI'). lia.
    + destruct (step_general m d HI (or_intror Efr)) as (_ & j & d' & _ & HI' & HM'). pose proof (Mz_nonneg _ _ HI'). lia.
  - pose proof HI as (Hm & _).
    assert (Hcase : (fresh d = true /\ m = length rows) \/ ((m < length rows)%nat \/ fresh d = false)).
    { destruct (fresh d); [|right; right; reflexivity]. destruct (Nat.eq_dec m (length rows)); [left; auto|right; left; lia]. }
    destruct Hcase as [(Efr & ->)|Hgo].
    + exists d. split; [apply loop_done_r; [exact HI|exact Efr|lia]|auto].
    + destruct (step_general m d HI Hgo) as (Hch & j & d' & Hd & HI' & HM').
      destruct fuel as [|f]; [lia|]. cbn [gdrv_loop].
      destruct (g_chunk d <? len file) eqn:E; [|apply Z.ltb_ge in E; lia].
      rewrite Hd. cbn [bind]. apply (IH (m + j)%nat d' HI'); lia.
Qed.

Theorem gread_file_sound offs0 fuel : okoffs offs0 ->
  (2 * length rows + 2 * Z.to_nat (mu offs0) + 4 <= fuel)%nat ->
  exists d, gread_file I imp_all fuel file crs ncols offs0 (ist []) = Ok d /\
    g_acc d = len rows /\ g_imps d = ist rows.
Proof.
  intros Hok Hf. unfold gread_file. destruct fuel as [|f]; [lia|]. cbn [gdrv_loop g_chunk].
  destruct (step_first_r offs0 [] [] 0 Hok) as (j & d1 & Hd & HI & HM & Hlen).
  destruct (0 <? len file) eqn:E; [|apply Z.ltb_ge in E; lia].
  cbn [firstn] in Hd. fold cbs. rewrite Hd. cbn [bind].
  pose proof (mu_nonneg ncols rows offs0) as Hmu.
  destruct (loop_all_r (2 * length rows + 2 * Z.to_nat (mu offs0) + 2)%nat j d1 HI ltac:(unfold len in *; lia) f ltac:(lia)) as (d & Hl & HId & _).
  exists d. split; [exact Hl|].
  destruct HId as (_ & _ & Hacc & Himps & _).
  split; [rewrite Hacc; reflexivity|]. rewrite Himps, firstn_all. reflexivity.
Qed.

End GenR.
(* any two chunk sizes and any two positive budget vectors leave a sound importer list in the same state *)
Theorem gread_file_chunk_independent hdr rows file crs1 crs2 ncols I imp_all ist offs1 offs2 fuel1 fuel2 :
  0 < ncols -> len hdr = ncols -> Forall (fun rw : list cell => len rw = ncols) rows ->
  (file = render_file (hdr :: rows) \/
   (file ++ [NL] = render_file (hdr :: rows) /\ file <> [] /\ last file NL <> NL)) ->
  (forall r, In r (hdr :: rows) -> len (render_row r) <= crs1 * 2 * ncols) ->
  (forall r, In r (hdr :: rows) -> len (render_row r) <= crs2 * 2 * ncols) ->
  imp_sound I imp_all ncols ist ->
  okoffs ncols offs1 -> okoffs ncols offs2 ->
  (2 * length rows + 2 * Z.to_nat (mu ncols rows offs1) + 4 <= fuel1)%nat ->
  (2 * length rows + 2 * Z.to_nat (mu ncols rows offs2) + 4 <= fuel2)%nat ->
  exists d1 d2, gread_file I imp_all fuel1 file crs1 ncols offs1 (ist []) = Ok d1 /\
                gread_file I imp_all fuel2 file crs2 ncols offs2 (ist []) = Ok d2 /\
                g_acc d1 = g_acc d2 /\ g_imps d1 = g_imps d2.
Proof.
  intros Hn Hh Hr Hf Hw1 Hw2 Hs Ho1 Ho2 Hf1 Hf2.
  destruct (gread_file_sound hdr rows file crs1 ncols I imp_all ist Hn Hh Hr Hf Hw1 Hs offs1 fuel1 Ho1 Hf1) as (d1 & E1 & A1 & C1).
  destruct (gread_file_sound hdr rows file crs2 ncols I imp_all ist Hn Hh Hr Hf Hw2 Hs offs2 fuel2 Ho2 Hf2) as (d2 & E2 & A2 & C2).
  exists d1, d2. repeat split; try assumption; congruence.
Qed.
