(* Proofs/ToCsvWriter.v — the repaired line writer agrees with the stdlib csv.writer
   (lineterminator LF) on every record it wrote correctly, i.e. when no cell holds a CR or
   starts with a blank; and an index-level reading of `select`. *)
From Coq Require Import ZArith List Bool Lia.
From EV Require Import Res Arr ToCsv ToCsvSpec ToCsvLoop.
Import ListNotations.
Open Scope Z_scope.

Definition plain_cell (s:bytes) : bool := negb (starts_blank s) && negb (mem CR s).

Lemma any_special_agree s : mem CR s = false -> any fix_special s = any (writer_special [LF]) s.
Proof.
  induction s as [|c t IH]; intros H; [reflexivity|].
  cbn [mem] in H. apply orb_false_iff in H. destruct H as [Hc Ht].
  cbn [any]. rewrite IH by assumption. f_equal.
  unfold fix_special, writer_special. cbn [mem]. rewrite Z.eqb_sym in Hc.
  unfold CR in *. rewrite Hc. rewrite !orb_false_r. reflexivity.
Qed.

Lemma fix_cell_writer s : plain_cell s = true -> fix_cell s = writer_field [LF] s.
Proof.
  unfold plain_cell. intros H. apply andb_prop in H. destruct H as [Hb Hc].
  apply negb_true_iff in Hb, Hc. unfold fix_cell, writer_field.
  rewrite Hb, (any_special_agree s Hc). reflexivity.
Qed.

Lemma join_two_nonnil a b t : join (a :: b :: t) <> [].
Proof. cbn [join]. destruct a; cbn; discriminate. Qed.

Theorem fix_line_conservative cells :
  forallb plain_cell cells = true -> fix_line cells = writer_row [LF] cells.
Proof.
  intros H. unfold fix_line, writer_row.
  assert (Hm : map fix_cell cells = map (writer_field [LF]) cells).
  { apply map_ext_in. intros s Hs. apply fix_cell_writer. rewrite forallb_forall in H. auto. }
  rewrite Hm. destruct cells as [|a [|b t]]; try reflexivity.
  destruct (join (map (writer_field [LF]) (a :: b :: t))) eqn:J; [|reflexivity].
  exfalso. cbn [map] in J. exact (join_two_nonnil _ _ _ J).
Qed.

(* `select f rows` keeps row i exactly when i < |f| and f[i] — the wording of the property *)
Lemma select_index {A} (rows:list A) : forall f k,
  select (skipn k f) rows
  = map snd (filter (fun p => nth (fst p) f false) (combine (seq k (length rows)) rows)).
Proof.
  induction rows as [|r t IH]; intros f k.
  - rewrite select_nil_r. reflexivity.
  - cbn [length seq combine filter fst]. rewrite (skipn_nth_error f k).
    destruct (nth_error f k) as [b|] eqn:N.
    + rewrite (nth_error_nth f k false N). cbn [select].
      destruct b; cbn [map snd]; rewrite IH; reflexivity.
    + assert (Hn : nth k f false = false).
      { apply nth_overflow. apply nth_error_None. exact N. }
      rewrite Hn. cbn [select]. rewrite <- IH.
      assert (Hs : skipn (S k) f = []) by (apply skipn_all2; apply nth_error_None in N; lia).
      rewrite Hs. destruct t; reflexivity.
Qed.

Theorem select_opt_index {A} flt (rows:list A) :
  select_opt flt rows
  = map snd (filter (fun p => match flt with None => true | Some f => nth (fst p) f false end)
                    (combine (seq 0 (length rows)) rows)).
Proof.
  destruct flt as [f|]; cbn [select_opt].
  - exact (select_index rows f 0).
  - assert (G : forall k, rows = map snd (filter (fun _ : nat * A => true) (combine (seq k (length rows)) rows))).
    { induction rows as [|r t IH]; intros k; [reflexivity|]. cbn. f_equal. apply IH. }
    apply G.
Qed.
