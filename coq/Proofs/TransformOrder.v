(* Proofs/TransformOrder.v — the packed key table may present the entries of the schema in ANY arrangement
   (strengthening SC06): the kernels compare whole byte strings against every entry, so neither the order
   get_byte_map happens to choose (str order = UTF-8 byte order, not length order) nor repeated entries are
   observable.  A kernel that stops scanning early because "keys are ordered by length" contradicts these. *)
From Coq Require Import ZArith List Bool Lia.
From EV Require Import Res Arr Transform TransformSpec TransformBase TransformCat TransformLeaky.
Import ListNotations.
Open Scope Z_scope.

Definition same_entries (s cats:list (list Z * Z)) : Prop := forall kv, In kv s <-> In kv cats.

Lemma same_entries_sort cats : same_entries (sort_keys cats) cats.
Proof. intros kv. apply sort_keys_in. Qed.

Lemma same_entries_rev cats : same_entries (rev cats) cats.
Proof. intros kv. symmetry. apply in_rev. Qed.

Lemma lmo_lookup_any cats s cell :
  keys_distinct cats = true -> same_entries s cats -> lmo s cell None = lookup cats cell.
Proof.
  intros Hd Hs. destruct (lookup cats cell) as [v|] eqn:L.
  - apply lookup_some in L.
    destruct (lmo_some s cell None v) as [v' [Hin H]]; [apply Hs; exact L|].
    apply Hs in Hin. rewrite H. f_equal. exact (keys_distinct_unique cats cell v' v Hd Hin L).
  - apply lmo_none. intros kv Hin. apply Hs in Hin. eapply lookup_none; eauto.
Qed.

Lemma byte_map_arrangement cats :
  cats_ok cats = true -> sumZ (map lenfst cats) <= I64MAX ->
  exists s, same_entries s cats /\ get_byte_map cats = Ok (bm_of s).
Proof.
  intros Hok Hsz. exists (sort_keys cats). split; [apply same_entries_sort|].
  pose proof (cats_ok_values cats Hok) as Hv.
  unfold get_byte_map. apply get_byte_map_gen_ok; [|exact Hsz].
  intros kv Hin. specialize (Hv kv Hin). lia.
Qed.

Theorem cat_any_order_proof cats s cc off slack tail :
  cats_ok cats = true -> same_entries s cats -> 0 <= off -> 0 <= tail ->
  fold_res (cat_import_part (bm_of s)) [] (map (mk_chunk off slack tail) cc) = Ok (spec_cat cats (concat cc)).
Proof.
  intros Hok Hs Ho Ht.
  assert (Hd : keys_distinct cats = true) by (unfold cats_ok in Hok; apply andb_prop in Hok; tauto).
  rewrite fold_cat_import_ok by assumption. cbn [app]. unfold spec_cat.
  f_equal. apply map_ext. intros cell. unfold cat_code. rewrite (lmo_lookup_any cats s cell Hd Hs). reflexivity.
Qed.

Theorem leaky_any_order_proof cats s cc off slack tail :
  cats_ok cats = true -> same_entries s cats -> 0 <= off -> 0 <= slack -> 0 <= tail ->
  exists st, fold_res (leaky_import_part (bm_of s)) lkst0 (map (mk_chunk off slack tail) cc) = Ok st /\
             (ls_data st, ls_idx st, ls_vals st) = spec_leaky cats (concat cc) /\
             ls_acc st = len (ls_vals st).
Proof.
  intros Hok Hs Ho Hsl Ht.
  pose proof (cats_ok_values cats Hok) as Hv.
  assert (Hd : keys_distinct cats = true) by (unfold cats_ok in Hok; apply andb_prop in Hok; tauto).
  change lkst0 with (lk_state_of s []).
  rewrite fold_leaky_import_ok by assumption. cbn [app].
  eexists. split; [reflexivity|]. unfold lk_state_of. cbn [ls_data ls_idx ls_vals ls_acc]. split.
  - unfold spec_leaky.
    assert (Hcode : forall cell, lk_code s cell = match lookup cats cell with Some v => v | None => -1 end).
    { intros cell. unfold lk_code. rewrite (lmo_lookup_any cats s cell Hd Hs).
      destruct (lookup cats cell) as [v|] eqn:L; [|reflexivity].
      cbn [option_map sel]. apply wrap_i8_small. apply lookup_some in L. exact (Hv _ L). }
    f_equal; [f_equal|].
    + apply map_ext. exact Hcode.
    + f_equal. apply map_ext. intros cell. unfold lk_len. rewrite (lmo_lookup_any cats s cell Hd Hs).
      destruct (lookup cats cell); reflexivity.
    + f_equal. apply map_ext. intros cell. unfold lk_text. rewrite (lmo_lookup_any cats s cell Hd Hs).
      destruct (lookup cats cell); reflexivity.
  - apply lk_len_text.
Qed.

(* a table in which a key of fewer characters has more UTF-8 bytes: 男 (1 character, 3 bytes) and NA (2, 2) *)
Definition mixed_cats : list (list Z * Z) := [([], 0); ([231; 148; 183], 1); ([78; 65], 3)].
Example mixed_cats_ok : cats_ok mixed_cats = true /\ same_entries (rev mixed_cats) mixed_cats.
Proof. split; [reflexivity|apply same_entries_rev]. Qed.
