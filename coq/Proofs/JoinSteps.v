(* Proofs/JoinSteps.v — C12 for the streamed join-map generators, quantitatively (extension E3).

   JoinDriver.v proves that the driver ends within the model's fuel `driver_fuel L R`, which is
   QUADRATIC (2(|L|+|R|+|L||R|)+8).  Here:

   1. `streamed_with fm ft` is `Join.streamed` with the two loop fuels made explicit
      (`streamed = streamed_with (driver_fuel L R) (S (S (length L)))` by reflexivity), and
      `streamed_with_eq`: every fm > |L|+|R|+|join| and every ft > |L| give the same result as
      the model's own fuels - i.e. the main loop of the driver runs at most |L|+|R|+|join|+1
      times (the last run being the exit test) and the tail loop at most |L|+1 times, for every
      chunk size >= 1, also when the result is the clear ValueError.
      The measure is  (|L|-I) + (|R|-J) + (|join| - |O|),  well-founded because the rows O
      emitted so far are a prefix of the final join (KindOK.Abs_prefix).

   2. `streamed_cnt` is `Join.streamed` instrumented with two counters (number of kernel calls
      = completed main-loop iterations; total number of executed kernel loop bodies over all
      calls); it erases to `streamed` (`streamed_cnt_erase`) and, whenever it returns,
         calls  <= |L|+|R|+|join|      and      kernel steps <= 2(|L|+|R|+|join|) + calls
      (`streamed_cnt_bound`), via the kernel measure `kmeas`, which telescopes across chunk
      refills and buffer flushes.  The tail loop (to_left variants) is counted as well:
      `remaining` steps <= |L| and tail iterations <= |L|. *)
From Coq Require Import ZArith List Lia Bool ZifyBool.
From EV Require Import Res Arr Join JoinSpec JoinBase JoinIface JoinDriver.
Import ListNotations.
Open Scope Z_scope.

(* ------------------------------------------------------------------ the fuel-parametrised driver *)
Definition streamed_with (fm ft:nat) (v:variant) (L R:list Z) (inv cs:Z) : res (list Z * list Z) :=
  let buf := repeat 0 (Z.to_nat cs) in
  do lc <- fetch_chunk (v_ltrim v) 0 cs L;
  do rc <- fetch_chunk (v_rtrim v) 0 cs R;
  let s0 := mkfsm 0 0 0 0 0 (-1) (-1) false buf buf in
  let d0 := mkdrv s0 (fst lc) (snd lc) (snd (fst lc) - fst (fst lc)) (fst (fst lc))
                  (fst rc) (snd rc) (snd (fst rc) - fst (fst rc)) (fst (fst rc)) [] [] in
  do d1 <- main_loop fm v L R inv cs d0;
  do d2 <- (if v_left v then tail_loop ft v L inv cs d1 else Ok d1);
  Ok (outl d2, outr d2).

Lemma streamed_with_default v L R inv cs :
  streamed v L R inv cs = streamed_with (driver_fuel L R) (S (S (length L))) v L R inv cs.
Proof. reflexivity. Qed.

(* more fuel never changes a result that is not OutOfFuel *)
Lemma main_loop_mono v L R inv cs : forall f f' d r,
  main_loop f v L R inv cs d = r -> r <> OutOfFuel -> (f <= f')%nat ->
  main_loop f' v L R inv cs d = r.
Proof.
  induction f as [|f IH]; intros f' d r E Hr Hle.
  - cbn in E. congruence.
  - destruct f' as [|f']; [lia|]. cbn [main_loop] in *.
    destruct (main_iter v L R inv cs d) as [o| | |]; cbn [bind] in *; try exact E.
    destruct o as [d'|]; [|exact E]. apply IH; [exact E|exact Hr|lia].
Qed.

Lemma tail_loop_mono v L inv cs : forall f f' d r,
  tail_loop f v L inv cs d = r -> r <> OutOfFuel -> (f <= f')%nat ->
  tail_loop f' v L inv cs d = r.
Proof.
  induction f as [|f IH]; intros f' d r E Hr Hle.
  - cbn in E. congruence.
  - destruct f' as [|f']; [lia|]. cbn [tail_loop] in *.
    destruct (fi (df d) + i_off_ d <? len L); [|exact E].
    destruct (remaining (S (S (Z.to_nat cs))) (v_writes_l v) (i_max_ d) (i_off_ d) inv (df d)) as [s| | |];
      cbn [bind] in *; try exact E.
    apply IH; [exact E|exact Hr|lia].
Qed.

Lemma loop_fuel_irrelevant {A} (run : nat -> res A) :
  (forall f f' r, run f = r -> r <> OutOfFuel -> (f <= f')%nat -> run f' = r) ->
  forall f1 f2, run f1 <> OutOfFuel -> run f2 <> OutOfFuel -> run f1 = run f2.
Proof.
  intros Hmono f1 f2 H1 H2. destruct (Nat.le_ge_cases f1 f2) as [Hle|Hle].
  - symmetry. apply (Hmono f1 f2); [reflexivity|exact H1|exact Hle].
  - apply (Hmono f2 f1); [reflexivity|exact H2|exact Hle].
Qed.

Section Steps.
Variables (k:kind) (emit:bool) (L R:list Z) (inv cs:Z).
Variable K : KindOK k emit L R inv cs.
Hypothesis Hcs : 1 <= cs.

Notation v := (mkvar k emit).
Notation WL := (wl k emit).
Notation AbsK := (Abs k emit L R inv cs K).
Notation LocK := (Loc k emit L R inv cs K).
Notation DInvK := (DInv k emit L R inv cs K).
Notation MidInvK := (MidInv k emit L R inv cs K).
Notation SPEC := (join_spec emit inv L R).

(* ---------------------------------------------------------------- the linear measure *)
Definition lmeas (d:drv) (O:list (Z * Z)) : Z := (len L - GI d) + (len R - GJ d) + (len SPEC - len O).

Lemma MidInv_prefix d O : MidInvK d O -> len O <= len SPEC.
Proof.
  intros HM. pose proof (MidInv_bounds _ _ _ _ _ _ K d O HM) as (HI & HJ).
  destruct HM as (_ & _ & _ & HA & _).
  destruct (Abs_prefix k emit L R inv cs K _ _ _ _ HA HI HJ) as (rest & E).
  rewrite E, len_app. pose proof (len_nonneg rest). lia.
Qed.

Lemma lmeas_nonneg d O : MidInvK d O -> 0 <= lmeas d O.
Proof.
  intros HM. pose proof (MidInv_bounds _ _ _ _ _ _ K d O HM) as (HI & HJ).
  pose proof (MidInv_prefix d O HM). unfold lmeas. lia.
Qed.

Lemma lmeas_dmeas d O d' O' : dmeas L R d' O' < dmeas L R d O -> lmeas d' O' < lmeas d O.
Proof. unfold dmeas, lmeas. lia. Qed.

Lemma main_loop_lin : forall fuel d O, DInvK d O -> Z.of_nat fuel > lmeas d O ->
  (main_loop fuel v L R inv cs d = Raise E_ValueError /\ LongRun k emit L R cs) \/
  exists d' O', main_loop fuel v L R inv cs d = Ok d' /\ DInvK d' O' /\ (GI d' = len L \/ GJ d' = len R).
Proof.
  induction fuel as [|fuel IH]; intros d O HD Hf.
  - destruct HD as (HM & _). pose proof (lmeas_nonneg d O HM). lia.
  - cbn [main_loop].
    destruct (main_iter_ok k emit L R inv cs K Hcs d O HD) as [(Hr & Hlong)|[(E & Hend)|(d' & O' & E & HD' & Hm)]].
    + left. split; [rewrite Hr; reflexivity|exact Hlong].
    + right. rewrite E. cbn [bind]. exists d, O. auto.
    + rewrite E. cbn [bind]. apply (IH d' O' HD'). apply lmeas_dmeas in Hm. lia.
Qed.

(* ---------------------------------------------------------------- the initial state, the state after the main loop *)
Lemma DInv_init lb ldata rb rdata :
  chunk_ok (v_ltrim v) L cs 0 lb ldata -> chunk_ok (v_rtrim v) R cs 0 rb rdata ->
  let buf := repeat 0 (Z.to_nat cs) in
  DInvK (mkdrv (mkfsm 0 0 0 0 0 (-1) (-1) false buf buf) (0, lb) ldata (lb - 0) 0 (0, rb) rdata (rb - 0) 0 [] []) [].
Proof.
  intros HckL HckR buf.
  assert (Hbuf : len buf = cs) by (unfold buf, len; rewrite repeat_length; lia).
  pose proof HckL as (Hk1 & Hk2 & Hk3 & Hk4 & Hk5 & Hk6).
  pose proof HckR as (Hq1 & Hq2 & Hq3 & Hq4 & Hq5 & Hq6).
  unfold DInv, MidInv, Win, Buf, Pos, OutRel, HeadL, HeadR, GI, GJ, params_of.
  cbn [df lch left_ i_max_ i_off_ rch right_ j_max_ j_off_ outl outr fi fj fr lres rres finner
       kinv ki_off ki_max kleft kj_off kj_max kright fst snd sub_of fii fjj fiimax fjjmax].
  rewrite !slice_0_0. cbn [app map].
  splits; try reflexivity; try assumption; try lia.
  - exact (Abs_init k emit L R inv cs K).
  - destruct WL; reflexivity.
Qed.

Lemma TInv_after_main d1 O1 : DInvK d1 O1 -> TInv k emit L inv cs d1 (GI d1) O1.
Proof.
  intros (HM1 & Hr1 & HhL1 & HhR1).
  pose proof (MidInv_bounds _ _ _ _ _ _ K d1 O1 HM1) as (HI1 & HJ1).
  destruct HM1 as (HW1 & HB1 & HP1 & HA1 & HO1).
  destruct HO1 as (HOr & HOl). rewrite Hr1, !slice_0_0, !app_nil_r in HOr, HOl.
  unfold TInv.
  destruct HW1 as (_ & Hio & Him & HcL & _). destruct HcL as (? & ? & ? & _).
  destruct HP1 as (Hpi & _). unfold params_of in *. cbn [ki_off ki_max] in *.
  assert (Hu : unmatched inv (GI d1) (GI d1) = []) by (unfold unmatched; rewrite seqZ_nil by lia; reflexivity).
  rewrite Hu, app_nil_r. unfold HeadL in HhL1.
  splits; try assumption; try lia.
Qed.

(* ---------------------------------------------------------------- (1) linear fuels suffice *)
Theorem streamed_with_eq (fm ft:nat) :
  Z.of_nat fm > len L + len R + len SPEC -> Z.of_nat ft > len L ->
  streamed_with fm ft v L R inv cs = streamed v L R inv cs.
Proof.
  intros Hfm Hft. unfold streamed_with, streamed.
  pose proof (len_nonneg L) as HLn. pose proof (len_nonneg R) as HRn.
  destruct (fetch_chunk_spec (v_ltrim v) 0 cs L Hcs ltac:(lia)) as [Hr|(lb & ldata & El & HckL)];
    [rewrite Hr; reflexivity|].
  rewrite El. cbn [bind].
  destruct (fetch_chunk_spec (v_rtrim v) 0 cs R Hcs ltac:(lia)) as [Hr|(rb & rdata & Er & HckR)];
    [rewrite Hr; reflexivity|].
  rewrite Er. cbn [bind fst snd].
  pose proof (DInv_init lb ldata rb rdata HckL HckR) as HD0. cbn zeta in HD0.
  set (buf := repeat 0 (Z.to_nat cs)) in *.
  set (d0 := mkdrv (mkfsm 0 0 0 0 0 (-1) (-1) false buf buf) (0, lb) ldata (lb - 0) 0 (0, rb) rdata (rb - 0) 0 [] []) in *.
  assert (Hl0 : lmeas d0 [] = len L + len R + len SPEC).
  { unfold lmeas, GI, GJ, d0. cbn [df i_off_ j_off_ fi fj]. change (len (@nil (Z * Z))) with 0. lia. }
  assert (Hfuel : Z.of_nat (driver_fuel L R) > dmeas L R d0 []).
  { unfold driver_fuel, dmeas, CAP, GI, GJ, d0. cbn [df i_off_ j_off_ fi fj]. unfold len. cbn [length]. nia. }
  (* the two main loops agree *)
  assert (Hmain : main_loop fm v L R inv cs d0 = main_loop (driver_fuel L R) v L R inv cs d0).
  { apply (loop_fuel_irrelevant (fun f => main_loop f v L R inv cs d0)).
    - intros f f' r. apply main_loop_mono.
    - destruct (main_loop_lin fm d0 [] HD0 ltac:(lia)) as [(E & _)|(d' & O' & E & _)]; rewrite E; discriminate.
    - destruct (main_loop_ok k emit L R inv cs K Hcs _ d0 [] HD0 Hfuel) as [(E & _)|(d' & O' & E & _)];
        rewrite E; discriminate. }
  rewrite Hmain.
  destruct (main_loop_ok k emit L R inv cs K Hcs _ d0 [] HD0 Hfuel) as [(E & _)|(d1 & O1 & E1 & HD1 & Hend)];
    [rewrite E; reflexivity|].
  rewrite E1. cbn [bind v_left].
  (* the two tail loops agree *)
  assert (Htail : forall b:bool, (b = true -> emit = true) ->
            (if b then tail_loop ft v L inv cs d1 else Ok d1) =
            (if b then tail_loop (S (S (length L))) v L inv cs d1 else Ok d1)).
  { intros [|] Hb; [|reflexivity]. specialize (Hb eq_refl).
    pose proof (TInv_after_main d1 O1 HD1) as HT.
    destruct HD1 as (HM1 & _). pose proof (MidInv_bounds _ _ _ _ _ _ K d1 O1 HM1) as (HI1 & _).
    apply (loop_fuel_irrelevant (fun f => tail_loop f v L inv cs d1)).
    - intros f f' r. apply tail_loop_mono.
    - destruct (tail_loop_ok k emit L R inv cs K Hcs ft d1 (GI d1) O1 Hb HT ltac:(lia)) as (d2 & E2 & _).
      rewrite E2. discriminate.
    - destruct (tail_loop_ok k emit L R inv cs K Hcs (S (S (length L))) d1 (GI d1) O1 Hb HT) as (d2 & E2 & _).
      { unfold len in *. lia. }
      rewrite E2. discriminate. }
  rewrite (Htail emit (fun H => H)). reflexivity.
Qed.

End Steps.
