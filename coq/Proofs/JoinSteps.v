(* Proofs/JoinSteps.v — C12 for the streamed join-map generators, quantitatively (extension E3).

   JoinDriver.v proves that the driver ends within the model's fuel `driver_fuel L R`, which is
   QUADRATIC (2(|L|+|R|+|L||R|)+8).  Here:

   1. `streamed_with fm ft` is `Join.streamed` with the two loop fuels made explicit
      (`streamed = streamed_with (driver_fuel L R) (S (S (length L)))` by reflexivity), and
      `streamed_with_eq`: every fm > |L|+|R|+|join| and every ft > |L| give the same result as
      the model's own fuels - i.e. the main loop of the driver runs at most |L|+|R|+|join|+1
      times (the last run being the exit test) and the tail loop at most |L|+1 times, for every
      chunk size >= 1, also when the result is the clear ValueError.
      The measure is  (|L|-I) + (|R|-J) + (|join| - |O|),  well-founded because the rows O
      emitted so far are a prefix of the final join (KindOK.Abs_prefix).

   2. `streamed_cnt` is `Join.streamed` instrumented with counters (record `counts`: kernel calls
      = completed main-loop iterations; loop bodies of the *_partial kernel over all calls; loop
      bodies of the run-length scans inside the general kernel; tail-loop iterations; loop bodies
      of the *_remaining kernel); it erases to `streamed` (`streamed_cnt_erase`) and, whenever it
      returns (`streamed_cnt_bound`),
         calls + tail iterations          <= |L|+|R|+|join|
         kernel + remaining loop bodies   <= 2(|L|+|R|+|join|) + calls
         scan loop bodies                 <= |join|
      The first two via the kernel measure `kmeas`, which telescopes across chunk refills and
      buffer flushes (a call costs at most 2*progress+1); the third via the potential `phi` = rows
      the open cartesian block still has to emit (a scan of ci+cj-2 bodies opens a block of ci*cj
      rows) - a purely syntactic fact about step_gen (`kstep_cnt_cost`), no invariant needed.
   3. `iters d it ks d'` (it completed iterations from d to d', ks kernel loop bodies) and
      `streamed_prefix_bound`: every prefix of an execution from the initial state is within the
      bounds of 2 - the form that also covers runs that end in the clear ValueError.
      Not counted: count_back inside get_next_chunk and the slice copies of a chunk fetch. *)
From Coq Require Import ZArith List Lia Bool ZifyBool.
From EV Require Import Res Arr Join JoinSpec JoinBase JoinIface JoinDriver.
Import ListNotations.
Open Scope Z_scope.

(* ------------------------------------------------------------------ the fuel-parametrised driver *)
Definition streamed_with (fm ft:nat) (v:variant) (L R:list Z) (inv cs:Z) : res (list Z * list Z) :=
  let buf := repeat 0 (Z.to_nat cs) in
  do lc <- fetch_chunk (v_ltrim v) 0 cs L;
  do rc <- fetch_chunk (v_rtrim v) 0 cs R;
  let s0 := mkfsm 0 0 0 0 0 (-1) (-1) false buf buf in
  let d0 := mkdrv s0 (fst lc) (snd lc) (snd (fst lc) - fst (fst lc)) (fst (fst lc))
                  (fst rc) (snd rc) (snd (fst rc) - fst (fst rc)) (fst (fst rc)) [] [] in
  do d1 <- main_loop fm v L R inv cs d0;
  do d2 <- (if v_left v then tail_loop ft v L inv cs d1 else Ok d1);
  Ok (outl d2, outr d2).

Lemma streamed_with_default v L R inv cs :
  streamed v L R inv cs = streamed_with (driver_fuel L R) (S (S (length L))) v L R inv cs.
Proof. reflexivity. Qed.

(* more fuel never changes a result that is not OutOfFuel *)
Lemma main_loop_mono v L R inv cs : forall f f' d r,
  main_loop f v L R inv cs d = r -> r <> OutOfFuel -> (f <= f')%nat ->
  main_loop f' v L R inv cs d = r.
Proof.
  induction f as [|f IH]; intros f' d r E Hr Hle.
  - cbn in E. congruence.
  - destruct f' as [|f']; [lia|]. cbn [main_loop] in *.
    destruct (main_iter v L R inv cs d) as [o| | |]; cbn [bind] in *; try exact E.
    destruct o as [d'|]; [|exact E]. apply IH; [exact E|exact Hr|lia].
Qed.

Lemma tail_loop_mono v L inv cs : forall f f' d r,
  tail_loop f v L inv cs d = r -> r <> OutOfFuel -> (f <= f')%nat ->
  tail_loop f' v L inv cs d = r.
Proof.
  induction f as [|f IH]; intros f' d r E Hr Hle.
  - cbn in E. congruence.
  - destruct f' as [|f']; [lia|]. cbn [tail_loop] in *.
    destruct (fi (df d) + i_off_ d <? len L); [|exact E].
    destruct (remaining (S (S (Z.to_nat cs))) (v_writes_l v) (i_max_ d) (i_off_ d) inv (df d)) as [s| | |];
      cbn [bind] in *; try exact E.
    apply IH; [exact E|exact Hr|lia].
Qed.

Lemma loop_fuel_irrelevant {A} (run : nat -> res A) :
  (forall f f' r, run f = r -> r <> OutOfFuel -> (f <= f')%nat -> run f' = r) ->
  forall f1 f2, run f1 <> OutOfFuel -> run f2 <> OutOfFuel -> run f1 = run f2.
Proof.
  intros Hmono f1 f2 H1 H2. destruct (Nat.le_ge_cases f1 f2) as [Hle|Hle].
  - symmetry. apply (Hmono f1 f2); [reflexivity|exact H1|exact Hle].
  - apply (Hmono f2 f1); [reflexivity|exact H2|exact Hle].
Qed.

(* ------------------------------------------------------------------ the instrumented driver
   Copies of krun / remaining / main_iter / main_loop / tail_loop / streamed (Model/Join.v) that
   thread counters and are otherwise identical; `*_erase` lemmas below show that dropping the
   counters gives back the model functions. *)
(* run_len with a counter of executed loop bodies *)
Fixpoint run_len_cnt (fuel:nat) (site:Z) (a:list Z) (k kmax cnt:Z) (n:nat) : res (Z * nat) :=
  match fuel with
  | O => OutOfFuel
  | S f =>
    if k + 1 <? kmax then
      do x <- get site a (k + 1);
      do y <- get site a k;
      if x =? y then run_len_cnt f site a (k + 1) kmax (cnt + 1) (S n) else Ok (cnt, n)
    else Ok (cnt, n)
  end.

(* step_gen, also returning the number of loop bodies of its two inner run-length scans *)
Definition step_gen_cnt (emit:bool) (p:kparams) (s:fsm) : res (option (fsm * nat)) :=
  if (fi s <? ki_max p) && (fj s <? kj_max p) && (fr s <? len (lres s)) then
    if negb (finner s) then
      do a <- get 1 (kleft p) (fi s);
      do b <- get 2 (kright p) (fj s);
      if a <? b then
        if emit then
          do l' <- set 3 (lres s) (fr s) (fi s + ki_off p);
          do r' <- set 4 (rres s) (fr s) (kinv p);
          Ok (Some (upd_ijr s (fi s + 1) (fj s) (fr s + 1) l' r', O))
        else Ok (Some (upd_ijr s (fi s + 1) (fj s) (fr s) (lres s) (rres s), O))
      else if b <? a then
        Ok (Some (upd_ijr s (fi s) (fj s + 1) (fr s) (lres s) (rres s), O))
      else
        do ci <- run_len_cnt (S (length (kleft p))) 5 (kleft p) (fi s) (ki_max p) 1 0;
        do cj <- run_len_cnt (S (length (kright p))) 6 (kright p) (fj s) (kj_max p) 1 0;
        Ok (Some (mkfsm (fi s) (fj s) (fr s) 0 0 (fst ci) (fst cj) true (lres s) (rres s), (snd ci + snd cj)%nat))
    else
      do l' <- set 7 (lres s) (fr s) (ki_off p + fi s + fii s);
      do r' <- set 8 (rres s) (fr s) (kj_off p + fj s + fjj s);
      let jj1 := fjj s + 1 in
      if jj1 =? fjjmax s then
        let ii1 := fii s + 1 in
        if ii1 =? fiimax s then
          Ok (Some (mkfsm (fi s + fiimax s) (fj s + fjjmax s) (fr s + 1) 0 0 (-1) (-1) false l' r', O))
        else
          Ok (Some (mkfsm (fi s) (fj s) (fr s + 1) ii1 0 (fiimax s) (fjjmax s) true l' r', O))
      else
        Ok (Some (mkfsm (fi s) (fj s) (fr s + 1) (fii s) jj1 (fiimax s) (fjjmax s) true l' r', O))
  else Ok None.

(* the unique-side kernels have no inner loop *)
Definition kstep_cnt (k:kind) (emit:bool) (p:kparams) (s:fsm) : res (option (fsm * nat)) :=
  match k with
  | KGen => step_gen_cnt emit p s
  | _ => do o <- kstep k emit p s; Ok (option_map (fun s' => (s', O)) o)
  end.

(* n = loop bodies of the kernel's while loop, m = loop bodies of the run-length scans inside them *)
Fixpoint krun_cnt (fuel:nat) (k:kind) (emit:bool) (p:kparams) (s:fsm) (n m:nat) : res (fsm * (nat * nat)) :=
  match fuel with
  | O => OutOfFuel
  | S f =>
    do o <- kstep_cnt k emit p s;
    match o with None => Ok (s, (n, m)) | Some (s', c) => krun_cnt f k emit p s' (S n) (m + c) end
  end.

Fixpoint remaining_cnt (fuel:nat) (both:bool) (i_max i_off inv:Z) (s:fsm) (n:nat) : res (fsm * nat) :=
  match fuel with
  | O => OutOfFuel
  | S f =>
    if (fi s <? i_max) && (fr s <? len (if both then lres s else rres s)) then
      do l' <- (if both then set 50 (lres s) (fr s) (i_off + fi s) else Ok (lres s));
      do r' <- set 51 (rres s) (fr s) inv;
      remaining_cnt f both i_max i_off inv (upd_ijr s (fi s + 1) (fj s) (fr s + 1) l' r') (S n)
    else Ok (s, n)
  end.

(* one main-loop iteration; also returns the numbers of kernel / scan loop bodies it executed *)
Definition main_iter_cnt (v:variant) (L R:list Z) (inv cs:Z) (d:drv) : res (option (drv * (nat * nat))) :=
  if (fi (df d) + i_off_ d <? len L) && (fj (df d) + j_off_ d <? len R) then
    let p := mkkp (left_ d) (i_max_ d) (right_ d) (j_max_ d) inv (i_off_ d) (j_off_ d) in
    do sn <- krun_cnt (kfuel d cs) (v_kind v) (v_left v) p (df d) 0 0;
    let s := fst sn in
    do d1 <- (if (i_off_ d + fi s <? len L) && (snd (lch d) - fst (lch d) <=? fi s) then
                do c <- fetch_chunk (v_ltrim v) (snd (lch d)) cs L;
                let ch := fst c in
                Ok (mkdrv (set_i s 0) ch (snd c) (snd ch - fst ch) (fst ch)
                          (rch d) (right_ d) (j_max_ d) (j_off_ d) (outl d) (outr d))
              else Ok (set_f d s));
    do d2 <- (if (j_off_ d1 + fj (df d1) <? len R) && (snd (rch d1) - fst (rch d1) <=? fj (df d1)) then
                do c <- fetch_chunk (v_rtrim v) (snd (rch d1)) cs R;
                let ch := fst c in
                Ok (mkdrv (set_j (df d1) 0) (lch d1) (left_ d1) (i_max_ d1) (i_off_ d1)
                          ch (snd c) (snd ch - fst ch) (fst ch) (outl d1) (outr d1))
              else Ok d1);
    Ok (Some (flush (v_writes_l v) d2, snd sn))
  else Ok None.

(* it = kernel calls so far (= completed iterations), ks = kernel loop bodies so far, sc = scan loop bodies so far *)
Fixpoint main_loop_cnt (fuel:nat) (v:variant) (L R:list Z) (inv cs:Z) (d:drv) (it ks sc:nat)
  : res (drv * (nat * nat * nat)) :=
  match fuel with
  | O => OutOfFuel
  | S fu =>
    do o <- main_iter_cnt v L R inv cs d;
    match o with
    | None => Ok (d, (it, ks, sc))
    | Some (d', (n, m)) => main_loop_cnt fu v L R inv cs d' (S it) (ks + n) (sc + m)
    end
  end.

(* it = tail iterations so far, rs = loop bodies of the `remaining` kernel so far *)
Fixpoint tail_loop_cnt (fuel:nat) (v:variant) (L:list Z) (inv cs:Z) (d:drv) (it rs:nat)
  : res (drv * (nat * nat)) :=
  match fuel with
  | O => OutOfFuel
  | S fu =>
    if fi (df d) + i_off_ d <? len L then
      do sn <- remaining_cnt (S (S (Z.to_nat cs))) (v_writes_l v) (i_max_ d) (i_off_ d) inv (df d) rs;
      let s := fst sn in
      let ch := next_chunk (snd (lch d)) (len L) cs in
      let d' := mkdrv (set_i s 0) ch (left_ d) (snd ch - fst ch) (fst ch)
                      (rch d) (right_ d) (j_max_ d) (j_off_ d) (outl d) (outr d) in
      tail_loop_cnt fu v L inv cs (flush (v_writes_l v) d') (S it) (snd sn)
    else Ok (d, (it, rs))
  end.

Record counts := mkcounts {
  c_calls : nat;     (* kernel calls = completed main-loop iterations *)
  c_ksteps : nat;    (* loop bodies executed by the *_partial kernel, summed over all calls *)
  c_scan : nat;      (* loop bodies of the run-length scans inside those bodies (general kernels only) *)
  c_tail : nat;      (* completed tail-loop iterations (to_left variants) *)
  c_rsteps : nat }.  (* loop bodies executed by the *_remaining kernel, summed over all calls *)

Definition streamed_cnt (v:variant) (L R:list Z) (inv cs:Z) : res ((list Z * list Z) * counts) :=
  let buf := repeat 0 (Z.to_nat cs) in
  do lc <- fetch_chunk (v_ltrim v) 0 cs L;
  do rc <- fetch_chunk (v_rtrim v) 0 cs R;
  let s0 := mkfsm 0 0 0 0 0 (-1) (-1) false buf buf in
  let d0 := mkdrv s0 (fst lc) (snd lc) (snd (fst lc) - fst (fst lc)) (fst (fst lc))
                  (fst rc) (snd rc) (snd (fst rc) - fst (fst rc)) (fst (fst rc)) [] [] in
  do x1 <- main_loop_cnt (driver_fuel L R) v L R inv cs d0 0 0 0;
  do x2 <- (if v_left v then tail_loop_cnt (S (S (length L))) v L inv cs (fst x1) 0 0 else Ok (fst x1, (O, O)));
  Ok ((outl (fst x2), outr (fst x2)),
      mkcounts (fst (fst (snd x1))) (snd (fst (snd x1))) (snd (snd x1)) (fst (snd x2)) (snd (snd x2))).

(* ---- erasure: dropping the counters gives the model functions *)
Lemma run_len_cnt_erase : forall fuel site a k kmax cnt n,
  run_len fuel site a k kmax cnt = do x <- run_len_cnt fuel site a k kmax cnt n; Ok (fst x).
Proof.
  induction fuel as [|fuel IH]; intros site a k kmax cnt n; cbn [run_len run_len_cnt]; [reflexivity|].
  destruct (k + 1 <? kmax); [|reflexivity].
  destruct (get site a (k + 1)) as [x| | |]; cbn [bind]; try reflexivity.
  destruct (get site a k) as [y| | |]; cbn [bind]; try reflexivity.
  destruct (x =? y); [apply IH|reflexivity].
Qed.

Ltac dres := repeat (cbn [bind fst snd option_map]; try reflexivity;
  match goal with
  | |- bind ?X _ = bind (bind ?X _) _ => destruct X as [?| | |]
  | |- (if ?b then _ else _) = _ => destruct b
  | |- (let _ := _ in _) = _ => cbv zeta
  end).

Lemma step_gen_cnt_erase emit p s :
  step_gen emit p s = do o <- step_gen_cnt emit p s; Ok (option_map fst o).
Proof.
  unfold step_gen, step_gen_cnt.
  destruct ((fi s <? ki_max p) && (fj s <? kj_max p) && (fr s <? len (lres s))); [|reflexivity].
  destruct (negb (finner s)).
  - destruct (get 1 (kleft p) (fi s)) as [a| | |]; cbn [bind]; try reflexivity.
    destruct (get 2 (kright p) (fj s)) as [b| | |]; cbn [bind]; try reflexivity.
    destruct (a <? b); [dres|]. destruct (b <? a); [reflexivity|].
    rewrite (run_len_cnt_erase _ 5 _ _ _ _ 0%nat), (run_len_cnt_erase _ 6 _ _ _ _ 0%nat).
    destruct (run_len_cnt (S (length (kleft p))) 5 (kleft p) (fi s) (ki_max p) 1 0) as [[ci ni]| | |];
      cbn [bind fst snd]; try reflexivity.
    destruct (run_len_cnt (S (length (kright p))) 6 (kright p) (fj s) (kj_max p) 1 0) as [[cj nj]| | |];
      cbn [bind fst snd]; reflexivity.
  - dres.
Qed.

Lemma kstep_cnt_erase k emit p s :
  kstep k emit p s = do o <- kstep_cnt k emit p s; Ok (option_map fst o).
Proof.
  destruct k; cbn [kstep kstep_cnt]; [apply step_gen_cnt_erase| | |];
    match goal with |- ?X = _ => destruct X as [[s'|]| | |]; reflexivity end.
Qed.

Lemma kstep_cnt_none k emit p s : kstep k emit p s = Ok None -> kstep_cnt k emit p s = Ok None.
Proof.
  rewrite kstep_cnt_erase. destruct (kstep_cnt k emit p s) as [[[s' c]|]| | |]; cbn; congruence.
Qed.

Lemma kstep_cnt_some k emit p s s1 : kstep k emit p s = Ok (Some s1) ->
  exists c, kstep_cnt k emit p s = Ok (Some (s1, c)).
Proof.
  rewrite kstep_cnt_erase. destruct (kstep_cnt k emit p s) as [[[s' c]|]| | |]; cbn; try congruence.
  intros H. injection H as ->. exists c. reflexivity.
Qed.

Lemma krun_cnt_erase : forall fuel k emit p s n m,
  krun fuel k emit p s = do x <- krun_cnt fuel k emit p s n m; Ok (fst x).
Proof.
  induction fuel as [|fuel IH]; intros k emit p s n m; cbn [krun krun_cnt]; [reflexivity|].
  rewrite kstep_cnt_erase.
  destruct (kstep_cnt k emit p s) as [o| | |]; cbn [bind]; try reflexivity.
  destruct o as [[s' c]|]; cbn [option_map fst]; [apply IH|reflexivity].
Qed.

(* ---- the cost of the run-length scans is paid for by the rows of the block they open:
   phi = number of rows the current inner (cartesian) block still has to emit *)
Definition phi (s:fsm) : Z := if finner s then (fiimax s - fii s) * fjjmax s - fjj s else 0.

Lemma run_len_cnt_steps : forall fuel site a k kmax cnt n c' n',
  run_len_cnt fuel site a k kmax cnt n = Ok (c', n') ->
  (n <= n')%nat /\ c' - cnt = Z.of_nat n' - Z.of_nat n.
Proof.
  induction fuel as [|fuel IH]; intros site a k kmax cnt n c' n' E; cbn [run_len_cnt] in E; [discriminate|].
  destruct (k + 1 <? kmax); [|injection E as <- <-; lia].
  destruct (get site a (k + 1)) as [x| | |]; cbn [bind] in E; try discriminate.
  destruct (get site a k) as [y| | |]; cbn [bind] in E; try discriminate.
  destruct (x =? y); [apply IH in E; lia|injection E as <- <-; lia].
Qed.

Ltac crack H := repeat (cbn [bind] in H;
  match type of H with
  | bind ?X _ = _ => destruct X as [?| | |] eqn:?; try discriminate H
  | (if ?b then _ else _) = _ => destruct b eqn:?; try discriminate H
  | (let _ := _ in _) = _ => cbv zeta in H
  end).

Ltac phi_leaf H := injection H as <- <-; unfold phi; cbn [upd_ijr finner fiimax fii fjjmax fjj fr Z.of_nat]; try lia.

Lemma step_gen_cnt_cost emit p s s' c : step_gen_cnt emit p s = Ok (Some (s', c)) ->
  Z.of_nat c + phi s <= (fr s' - fr s) + phi s'.
Proof.
  unfold step_gen_cnt. intros H.
  destruct ((fi s <? ki_max p) && (fj s <? kj_max p) && (fr s <? len (lres s))); [|discriminate].
  destruct (finner s) eqn:Einn; cbn [negb] in H.
  - (* inner state: one row emitted, one row less to go *)
    crack H; phi_leaf H; rewrite Einn; nia.
  - destruct (get 1 (kleft p) (fi s)) as [a| | |]; cbn [bind] in H; try discriminate.
    destruct (get 2 (kright p) (fj s)) as [b| | |]; cbn [bind] in H; try discriminate.
    destruct (a <? b); [crack H; phi_leaf H; rewrite Einn; lia|].
    destruct (b <? a); [phi_leaf H; rewrite Einn; lia|].
    destruct (run_len_cnt (S (length (kleft p))) 5 (kleft p) (fi s) (ki_max p) 1 0) as [[ci ni]| | |] eqn:Ei;
      cbn [bind fst snd] in H; try discriminate.
    destruct (run_len_cnt (S (length (kright p))) 6 (kright p) (fj s) (kj_max p) 1 0) as [[cj nj]| | |] eqn:Ej;
      cbn [bind fst snd] in H; try discriminate.
    apply run_len_cnt_steps in Ei, Ej. phi_leaf H. nia.
Qed.

Lemma upd_ijr_cost s i j r l' r' : fr s <= r -> phi s <= (fr (upd_ijr s i j r l' r') - fr s) + phi (upd_ijr s i j r l' r').
Proof. intros H. unfold phi. cbn [upd_ijr finner fiimax fii fjjmax fjj fr]. lia. Qed.

Lemma kstep_cnt_cost k emit p s s' c : kstep_cnt k emit p s = Ok (Some (s', c)) ->
  Z.of_nat c + phi s <= (fr s' - fr s) + phi s'.
Proof.
  destruct k; cbn [kstep_cnt kstep]; [apply step_gen_cnt_cost| | |]; intros H.
  - destruct (step_lu emit p s) as [[s1|]| | |] eqn:E; cbn [bind option_map] in H; try discriminate.
    injection H as <- <-. cbn [Z.of_nat Z.add]. unfold step_lu in E. cbv zeta in E.
    crack E; injection E as <-; apply upd_ijr_cost; lia.
  - destruct (step_ru emit p s) as [[s1|]| | |] eqn:E; cbn [bind option_map] in H; try discriminate.
    injection H as <- <-. cbn [Z.of_nat Z.add]. unfold step_ru in E. cbv zeta in E.
    crack E; injection E as <-; apply upd_ijr_cost; lia.
  - destruct (step_bu emit p s) as [[s1|]| | |] eqn:E; cbn [bind option_map] in H; try discriminate.
    injection H as <- <-. cbn [Z.of_nat Z.add]. unfold step_bu in E. cbv zeta in E.
    crack E; injection E as <-; apply upd_ijr_cost; lia.
Qed.

Lemma remaining_cnt_erase : forall fuel both i_max i_off inv s n,
  remaining fuel both i_max i_off inv s = do x <- remaining_cnt fuel both i_max i_off inv s n; Ok (fst x).
Proof.
  induction fuel as [|fuel IH]; intros both i_max i_off inv s n; cbn [remaining remaining_cnt]; [reflexivity|].
  destruct ((fi s <? i_max) && (fr s <? len (if both then lres s else rres s))); [|reflexivity].
  destruct (if both then set 50 (lres s) (fr s) (i_off + fi s) else Ok (lres s)) as [l'| | |]; cbn [bind]; try reflexivity.
  destruct (set 51 (rres s) (fr s) inv) as [r'| | |]; cbn [bind]; try reflexivity.
  apply IH.
Qed.

Lemma main_iter_cnt_erase v L R inv cs d :
  main_iter v L R inv cs d = do o <- main_iter_cnt v L R inv cs d; Ok (option_map fst o).
Proof.
  unfold main_iter, main_iter_cnt.
  destruct ((fi (df d) + i_off_ d <? len L) && (fj (df d) + j_off_ d <? len R)); [|reflexivity].
  cbv zeta. rewrite (krun_cnt_erase _ _ _ _ _ 0%nat 0%nat).
  destruct (krun_cnt (kfuel d cs) (v_kind v) (v_left v)
              (mkkp (left_ d) (i_max_ d) (right_ d) (j_max_ d) inv (i_off_ d) (j_off_ d)) (df d) 0 0) as [[s n]| | |];
    cbn [bind fst snd]; try reflexivity.
  match goal with |- bind ?X _ = bind (bind ?X _) _ => destruct X as [d1| | |] end; cbn [bind]; try reflexivity.
  match goal with |- bind ?X _ = bind (bind ?X _) _ => destruct X as [d2| | |] end; cbn [bind]; reflexivity.
Qed.

Lemma main_loop_cnt_erase v L R inv cs : forall fuel d it ks sc,
  main_loop fuel v L R inv cs d = do x <- main_loop_cnt fuel v L R inv cs d it ks sc; Ok (fst x).
Proof.
  induction fuel as [|fuel IH]; intros d it ks sc; cbn [main_loop main_loop_cnt]; [reflexivity|].
  rewrite main_iter_cnt_erase.
  destruct (main_iter_cnt v L R inv cs d) as [o| | |]; cbn [bind]; try reflexivity.
  destruct o as [[d' [n m]]|]; cbn [option_map fst]; [apply IH|reflexivity].
Qed.

Lemma tail_loop_cnt_erase v L inv cs : forall fuel d it rs,
  tail_loop fuel v L inv cs d = do x <- tail_loop_cnt fuel v L inv cs d it rs; Ok (fst x).
Proof.
  induction fuel as [|fuel IH]; intros d it rs; cbn [tail_loop tail_loop_cnt]; [reflexivity|].
  destruct (fi (df d) + i_off_ d <? len L); [|reflexivity].
  rewrite (remaining_cnt_erase _ _ _ _ _ _ rs).
  destruct (remaining_cnt (S (S (Z.to_nat cs))) (v_writes_l v) (i_max_ d) (i_off_ d) inv (df d) rs) as [[s n]| | |];
    cbn [bind fst snd]; try reflexivity.
  apply IH.
Qed.

Theorem streamed_cnt_erase v L R inv cs :
  streamed v L R inv cs = do x <- streamed_cnt v L R inv cs; Ok (fst x).
Proof.
  unfold streamed, streamed_cnt.
  destruct (fetch_chunk (v_ltrim v) 0 cs L) as [lc| | |]; cbn [bind]; try reflexivity.
  destruct (fetch_chunk (v_rtrim v) 0 cs R) as [rc| | |]; cbn [bind]; try reflexivity.
  cbv zeta. rewrite (main_loop_cnt_erase _ _ _ _ _ _ _ 0%nat 0%nat 0%nat).
  match goal with |- bind (bind ?X _) _ = _ => destruct X as [[d1 c1]| | |] end; cbn [bind fst snd]; try reflexivity.
  destruct (v_left v).
  - rewrite (tail_loop_cnt_erase _ _ _ _ _ _ 0%nat 0%nat).
    match goal with |- bind (bind ?X _) _ = _ => destruct X as [[d2 c2]| | |] end; cbn [bind fst snd]; reflexivity.
  - reflexivity.
Qed.

(* ---- the `remaining` kernel: every loop body advances i by one *)
Lemma remaining_cnt_steps both i_max i_off inv : forall fuel s n s' n',
  remaining_cnt fuel both i_max i_off inv s n = Ok (s', n') -> fi s <= i_max ->
  (n <= n')%nat /\ Z.of_nat n' - Z.of_nat n = fi s' - fi s /\ fi s' <= i_max.
Proof.
  induction fuel as [|fuel IH]; intros s n s' n' E Hi; cbn [remaining_cnt] in E; [discriminate|].
  destruct ((fi s <? i_max) && (fr s <? len (if both then lres s else rres s))) eqn:Ec.
  - destruct (if both then set 50 (lres s) (fr s) (i_off + fi s) else Ok (lres s)) as [l'| | |];
      cbn [bind] in E; try discriminate.
    destruct (set 51 (rres s) (fr s) inv) as [r'| | |]; cbn [bind] in E; try discriminate.
    apply IH in E; cbn [upd_ijr fi] in *; lia.
  - injection E as <- <-. lia.
Qed.

(* ---- the tail loop: a purely geometric invariant suffices for counting *)
Definition TGeom (L:list Z) (d:drv) : Prop :=
  0 <= fst (lch d) <= snd (lch d) /\ snd (lch d) <= len L /\
  i_off_ d = fst (lch d) /\ i_max_ d = snd (lch d) - fst (lch d) /\
  0 <= fi (df d) <= i_max_ d /\ (fi (df d) < i_max_ d \/ GI d = len L).

Lemma flush_geom w d :
  lch (flush w d) = lch d /\ i_off_ (flush w d) = i_off_ d /\ i_max_ (flush w d) = i_max_ d /\
  fi (df (flush w d)) = fi (df d).
Proof. unfold flush. destruct (0 <? fr (df d)); cbn; auto. Qed.

Lemma tail_loop_cnt_bound v L inv cs : 1 <= cs -> forall fuel d it rs d' it' rs',
  TGeom L d -> tail_loop_cnt fuel v L inv cs d it rs = Ok (d', (it', rs')) ->
  (it <= it')%nat /\ (rs <= rs')%nat /\ GI d <= GI d' <= len L /\
  Z.of_nat it' - Z.of_nat it <= GI d' - GI d /\ Z.of_nat rs' - Z.of_nat rs <= GI d' - GI d.
Proof.
  intros Hcs. induction fuel as [|fuel IH]; intros d it rs d' it' rs' HG E; cbn [tail_loop_cnt] in E; [discriminate|].
  destruct HG as (Hc1 & Hc2 & Hio & Him & Hi & Hhead).
  replace (fi (df d) + i_off_ d) with (GI d) in E by (unfold GI; lia).
  destruct (GI d <? len L) eqn:Ec.
  - destruct (remaining_cnt (S (S (Z.to_nat cs))) (v_writes_l v) (i_max_ d) (i_off_ d) inv (df d) rs)
      as [[s n]| | |] eqn:Er; cbn [bind fst snd] in E; try discriminate.
    apply remaining_cnt_steps in Er; [|lia]. destruct Er as (Hn & Hsteps & Hs').
    rewrite (next_chunk_eq (snd (lch d)) (len L) cs) in E by lia. cbn [fst snd] in E.
    match type of E with tail_loop_cnt _ _ _ _ _ (flush ?w ?dd) _ _ = _ =>
      pose proof (flush_geom w dd) as (F1 & F2 & F3 & F4); set (d1 := flush w dd) in * end.
    cbn [lch i_off_ i_max_ df set_i fi] in F1, F2, F3, F4.
    assert (HGI1 : GI d1 = snd (lch d)) by (unfold GI; rewrite F2, F4; lia).
    apply IH in E.
    + destruct E as (E1 & E2 & E3 & E4 & E5). unfold GI in *. lia.
    + unfold TGeom. rewrite F1, F2, F3, F4, HGI1. cbn [fst snd]. splits; try lia.
  - injection E as <- <- <-. unfold GI in *. lia.
Qed.

Section Steps.
Variables (k:kind) (emit:bool) (L R:list Z) (inv cs:Z).
Variable K : KindOK k emit L R inv cs.
Hypothesis Hcs : 1 <= cs.

Notation v := (mkvar k emit).
Notation WL := (wl k emit).
Notation AbsK := (Abs k emit L R inv cs K).
Notation LocK := (Loc k emit L R inv cs K).
Notation DInvK := (DInv k emit L R inv cs K).
Notation MidInvK := (MidInv k emit L R inv cs K).
Notation SPEC := (join_spec emit inv L R).

(* ---------------------------------------------------------------- the linear measure *)
Definition lmeas (d:drv) (O:list (Z * Z)) : Z := (len L - GI d) + (len R - GJ d) + (len SPEC - len O).

Lemma MidInv_prefix d O : MidInvK d O -> len O <= len SPEC.
Proof.
  intros HM. pose proof (MidInv_bounds _ _ _ _ _ _ K d O HM) as (HI & HJ).
  destruct HM as (_ & _ & _ & HA & _).
  destruct (Abs_prefix k emit L R inv cs K _ _ _ _ HA HI HJ) as (rest & E).
  rewrite E, len_app. pose proof (len_nonneg rest). lia.
Qed.

Lemma lmeas_nonneg d O : MidInvK d O -> 0 <= lmeas d O.
Proof.
  intros HM. pose proof (MidInv_bounds _ _ _ _ _ _ K d O HM) as (HI & HJ).
  pose proof (MidInv_prefix d O HM). unfold lmeas. lia.
Qed.

Lemma lmeas_dmeas d O d' O' : dmeas L R d' O' < dmeas L R d O -> lmeas d' O' < lmeas d O.
Proof. unfold dmeas, lmeas. lia. Qed.

Lemma main_loop_lin : forall fuel d O, DInvK d O -> Z.of_nat fuel > lmeas d O ->
  (main_loop fuel v L R inv cs d = Raise E_ValueError /\ LongRun k emit L R cs) \/
  exists d' O', main_loop fuel v L R inv cs d = Ok d' /\ DInvK d' O' /\ (GI d' = len L \/ GJ d' = len R).
Proof.
  induction fuel as [|fuel IH]; intros d O HD Hf.
  - destruct HD as (HM & _). pose proof (lmeas_nonneg d O HM). lia.
  - cbn [main_loop].
    destruct (main_iter_ok k emit L R inv cs K Hcs d O HD) as [(Hr & Hlong)|[(E & Hend)|(d' & O' & E & HD' & Hm)]].
    + left. split; [rewrite Hr; reflexivity|exact Hlong].
    + right. rewrite E. cbn [bind]. exists d, O. auto.
    + rewrite E. cbn [bind]. apply (IH d' O' HD'). apply lmeas_dmeas in Hm. lia.
Qed.

(* ---------------------------------------------------------------- the initial state, the state after the main loop *)
Lemma DInv_init lb ldata rb rdata :
  chunk_ok (v_ltrim v) L cs 0 lb ldata -> chunk_ok (v_rtrim v) R cs 0 rb rdata ->
  let buf := repeat 0 (Z.to_nat cs) in
  DInvK (mkdrv (mkfsm 0 0 0 0 0 (-1) (-1) false buf buf) (0, lb) ldata (lb - 0) 0 (0, rb) rdata (rb - 0) 0 [] []) [].
Proof.
  intros HckL HckR buf.
  assert (Hbuf : len buf = cs) by (unfold buf, len; rewrite repeat_length; lia).
  pose proof HckL as (Hk1 & Hk2 & Hk3 & Hk4 & Hk5 & Hk6).
  pose proof HckR as (Hq1 & Hq2 & Hq3 & Hq4 & Hq5 & Hq6).
  unfold DInv, MidInv, Win, Buf, Pos, OutRel, HeadL, HeadR, GI, GJ, params_of.
  cbn [df lch left_ i_max_ i_off_ rch right_ j_max_ j_off_ outl outr fi fj fr lres rres finner
       kinv ki_off ki_max kleft kj_off kj_max kright fst snd sub_of fii fjj fiimax fjjmax].
  rewrite !slice_0_0. cbn [app map].
  splits; try reflexivity; try assumption; try lia.
  - exact (Abs_init k emit L R inv cs K).
  - destruct WL; reflexivity.
Qed.

Lemma TInv_after_main d1 O1 : DInvK d1 O1 -> TInv k emit L inv cs d1 (GI d1) O1.
Proof.
  intros (HM1 & Hr1 & HhL1 & HhR1).
  pose proof (MidInv_bounds _ _ _ _ _ _ K d1 O1 HM1) as (HI1 & HJ1).
  destruct HM1 as (HW1 & HB1 & HP1 & HA1 & HO1).
  destruct HO1 as (HOr & HOl). rewrite Hr1, !slice_0_0, !app_nil_r in HOr, HOl.
  unfold TInv.
  destruct HW1 as (_ & Hio & Him & HcL & _). destruct HcL as (? & ? & ? & _).
  destruct HP1 as (Hpi & _). unfold params_of in *. cbn [ki_off ki_max] in *.
  assert (Hu : unmatched inv (GI d1) (GI d1) = []) by (unfold unmatched; rewrite seqZ_nil by lia; reflexivity).
  rewrite Hu, app_nil_r. unfold HeadL in HhL1.
  splits; try assumption; try lia.
Qed.

(* ---------------------------------------------------------------- (1) linear fuels suffice *)
Theorem streamed_with_eq (fm ft:nat) :
  Z.of_nat fm > len L + len R + len SPEC -> Z.of_nat ft > len L ->
  streamed_with fm ft v L R inv cs = streamed v L R inv cs.
Proof.
  intros Hfm Hft. unfold streamed_with, streamed.
  pose proof (len_nonneg L) as HLn. pose proof (len_nonneg R) as HRn.
  destruct (fetch_chunk_spec (v_ltrim v) 0 cs L Hcs ltac:(lia)) as [Hr|(lb & ldata & El & HckL)];
    [rewrite Hr; reflexivity|].
  rewrite El. cbn [bind].
  destruct (fetch_chunk_spec (v_rtrim v) 0 cs R Hcs ltac:(lia)) as [Hr|(rb & rdata & Er & HckR)];
    [rewrite Hr; reflexivity|].
  rewrite Er. cbn [bind fst snd].
  pose proof (DInv_init lb ldata rb rdata HckL HckR) as HD0. cbn zeta in HD0.
  set (buf := repeat 0 (Z.to_nat cs)) in *.
  set (d0 := mkdrv (mkfsm 0 0 0 0 0 (-1) (-1) false buf buf) (0, lb) ldata (lb - 0) 0 (0, rb) rdata (rb - 0) 0 [] []) in *.
  assert (Hl0 : lmeas d0 [] = len L + len R + len SPEC).
  { unfold lmeas, GI, GJ, d0. cbn [df i_off_ j_off_ fi fj]. change (len (@nil (Z * Z))) with 0. lia. }
  assert (Hfuel : Z.of_nat (driver_fuel L R) > dmeas L R d0 []).
  { unfold driver_fuel, dmeas, CAP, GI, GJ, d0. cbn [df i_off_ j_off_ fi fj]. unfold len. cbn [length]. nia. }
  (* the two main loops agree *)
  assert (Hmain : main_loop fm v L R inv cs d0 = main_loop (driver_fuel L R) v L R inv cs d0).
  { apply (loop_fuel_irrelevant (fun f => main_loop f v L R inv cs d0)).
    - intros f f' r. apply main_loop_mono.
    - destruct (main_loop_lin fm d0 [] HD0 ltac:(lia)) as [(E & _)|(d' & O' & E & _)]; rewrite E; discriminate.
    - destruct (main_loop_ok k emit L R inv cs K Hcs _ d0 [] HD0 Hfuel) as [(E & _)|(d' & O' & E & _)];
        rewrite E; discriminate. }
  rewrite Hmain.
  destruct (main_loop_ok k emit L R inv cs K Hcs _ d0 [] HD0 Hfuel) as [(E & _)|(d1 & O1 & E1 & HD1 & Hend)];
    [rewrite E; reflexivity|].
  rewrite E1. cbn [bind v_left].
  (* the two tail loops agree *)
  assert (Htail : forall b:bool, (b = true -> emit = true) ->
            (if b then tail_loop ft v L inv cs d1 else Ok d1) =
            (if b then tail_loop (S (S (length L))) v L inv cs d1 else Ok d1)).
  { intros [|] Hb; [|reflexivity]. specialize (Hb eq_refl).
    pose proof (TInv_after_main d1 O1 HD1) as HT.
    destruct HD1 as (HM1 & _). pose proof (MidInv_bounds _ _ _ _ _ _ K d1 O1 HM1) as (HI1 & _).
    apply (loop_fuel_irrelevant (fun f => tail_loop f v L inv cs d1)).
    - intros f f' r. apply tail_loop_mono.
    - destruct (tail_loop_ok k emit L R inv cs K Hcs ft d1 (GI d1) O1 Hb HT ltac:(lia)) as (d2 & E2 & _).
      rewrite E2. discriminate.
    - destruct (tail_loop_ok k emit L R inv cs K Hcs (S (S (length L))) d1 (GI d1) O1 Hb HT) as (d2 & E2 & _).
      { unfold len in *. lia. }
      rewrite E2. discriminate. }
  rewrite (Htail emit (fun H => H)). reflexivity.
Qed.

(* ---------------------------------------------------------------- (2) counting kernel steps *)
Definition flag (s:fsm) : Z := if finner s then 0 else 1.

Lemma refill_l_phi d d1 : refill_l k emit L cs d = Ok d1 -> phi (df d1) = phi (df d).
Proof.
  unfold refill_l. destruct ((i_off_ d + fi (df d) <? len L) && (snd (lch d) - fst (lch d) <=? fi (df d))).
  - destruct (fetch_chunk (v_ltrim v) (snd (lch d)) cs L) as [c| | |]; cbn [bind]; try discriminate.
    intros H. injection H as <-. reflexivity.
  - intros H. injection H as <-. reflexivity.
Qed.

Lemma refill_r_phi d d1 : refill_r k emit R cs d = Ok d1 -> phi (df d1) = phi (df d).
Proof.
  unfold refill_r. destruct ((j_off_ d + fj (df d) <? len R) && (snd (rch d) - fst (rch d) <=? fj (df d))).
  - destruct (fetch_chunk (v_rtrim v) (snd (rch d)) cs R) as [c| | |]; cbn [bind]; try discriminate.
    intros H. injection H as <-. reflexivity.
  - intros H. injection H as <-. reflexivity.
Qed.

Lemma flush_phi w d : phi (df (flush w d)) = phi (df d).
Proof. unfold flush. destruct (0 <? fr (df d)); reflexivity. Qed.

Lemma krun_cnt_ok : forall fuel p la lb ra rb s ol orr O n0 m0,
  Win k emit L R inv cs p la lb ra rb -> Buf cs s -> Pos p s -> LocK s ->
  AbsK (la + fi s) (ra + fj s) (sub_of s) O -> OutRel k emit ol orr s O ->
  Z.of_nat fuel > kmeas cs p s ->
  exists s' O' n m, krun_cnt fuel k emit p s n0 m0 = Ok (s', ((n0 + n)%nat, (m0 + m)%nat)) /\
    Buf cs s' /\ Pos p s' /\
    AbsK (la + fi s') (ra + fj s') (sub_of s') O' /\ OutRel k emit ol orr s' O' /\
    (fi s' >= ki_max p \/ fj s' >= kj_max p \/ fr s' >= cs) /\
    fi s <= fi s' /\ fj s <= fj s' /\ fr s <= fr s' /\
    (fi s < ki_max p -> fj s < kj_max p -> fr s < cs ->
     fi s + fj s + fr s < fi s' + fj s' + fr s') /\
    Z.of_nat n <= kmeas cs p s - kmeas cs p s' /\
    Z.of_nat m <= (fr s' - fr s) + phi s' - phi s.
Proof.
  induction fuel as [|fuel IH]; intros p la lb ra rb s ol orr O n0 m0 HW HB HP HL HA HO Hf.
  - pose proof (kmeas_nonneg cs p s HB HP). lia.
  - cbn [krun_cnt].
    destruct (kstep_ok k emit L R inv cs K p la lb ra rb s ol orr O HW HB HP HL HA HO)
      as [[E Hstop]|(s1 & O1 & E & HB1 & HP1 & HL1 & HA1 & HO1 & Hi1 & Hj1 & Hr1 & Hm1 & Hprog)].
    + rewrite (kstep_cnt_none _ _ _ _ E). cbn [bind]. exists s, O, 0%nat, 0%nat. rewrite !Nat.add_0_r.
      splits; try assumption; try reflexivity; try lia.
    + destruct (kstep_cnt_some _ _ _ _ _ E) as (c & Ec). rewrite Ec. cbn [bind].
      pose proof (kstep_cnt_cost _ _ _ _ _ _ Ec) as Hc.
      destruct (IH p la lb ra rb s1 ol orr O1 (S n0) (m0 + c)%nat HW HB1 HP1 HL1 HA1 HO1 ltac:(lia))
        as (s' & O' & n & m & E' & HB' & HP' & HA' & HO' & Hstop' & Hi' & Hj' & Hr' & Hprog' & Hn & Hm).
      exists s', O', (S n), (c + m)%nat. split; [rewrite E'; do 3 f_equal; lia|]. splits; try assumption; try lia.
Qed.

Lemma main_iter_cnt_unfold d :
  main_iter_cnt v L R inv cs d =
  if (fi (df d) + i_off_ d <? len L) && (fj (df d) + j_off_ d <? len R) then
    do sn <- krun_cnt (kfuel d cs) k emit (params_of inv d) (df d) 0 0;
    do d1 <- refill_l k emit L cs (set_f d (fst sn));
    do d2 <- refill_r k emit R cs d1;
    Ok (Some (flush (v_writes_l v) d2, snd sn))
  else Ok None.
Proof. reflexivity. Qed.

(* one iteration: progress of at least one unit of (I + J + |O|), and at most 2*progress + 1 kernel steps *)
Lemma main_iter_cnt_ok d O : DInvK d O ->
  (main_iter_cnt v L R inv cs d = Raise E_ValueError /\ LongRun k emit L R cs) \/
  (main_iter_cnt v L R inv cs d = Ok None /\ (GI d = len L \/ GJ d = len R)) \/
  (exists d' O' n m, main_iter_cnt v L R inv cs d = Ok (Some (d', (n, m))) /\ DInvK d' O' /\
     GI d <= GI d' /\ GJ d <= GJ d' /\ len O <= len O' /\
     1 <= (GI d' - GI d) + (GJ d' - GJ d) + (len O' - len O) /\
     Z.of_nat n <= 2 * ((GI d' - GI d) + (GJ d' - GJ d) + (len O' - len O)) + 1 /\
     Z.of_nat m <= (len O' - len O) + phi (df d') - phi (df d)).
Proof.
  intros (HM & Hr0 & HhL & HhR).
  pose proof (MidInv_bounds _ _ _ _ _ _ K d O HM) as (HI & HJ).
  pose proof (MidInv_lenO _ _ _ _ _ _ K d O HM) as HlenO.
  rewrite main_iter_cnt_unfold.
  replace (fi (df d) + i_off_ d) with (GI d) by (unfold GI; lia).
  replace (fj (df d) + j_off_ d) with (GJ d) by (unfold GJ; lia).
  destruct ((GI d <? len L) && (GJ d <? len R)) eqn:Econd;
    [|right; left; split; [reflexivity|lia]].
  destruct HM as (HW & HB & HP & HA & HO).
  assert (HLoc : LocK (df d)).
  { apply Loc_init; [exact Hr0| |]; destruct HP as (? & ? & _); lia. }
  assert (Hhi : fi (df d) < i_max_ d) by (unfold HeadL in HhL; lia).
  assert (Hhj : fj (df d) < j_max_ d) by (unfold HeadR in HhR; lia).
  assert (Hfuel : Z.of_nat (kfuel d cs) > kmeas cs (params_of inv d) (df d)).
  { clear - HW HB HP Hcs. unfold kfuel, kmeas.
    destruct HW as (_ & Hio & Him & HcL & Hjo & Hjm & HcR).
    destruct HcL as (HL1 & HL2 & HL3 & HLd & _). destruct HcR as (HR1 & HR2 & HR3 & HRd & _).
    destruct HP as (Hi & Hj & _). destruct HB as (_ & _ & Hrr).
    unfold params_of in *. cbn [ki_off ki_max kj_off kj_max kleft kright] in *.
    assert (Hlenl : len (left_ d) = Z.min (fst (lch d) + cs) (len L) - fst (lch d))
      by (rewrite HLd; apply len_slice; lia).
    assert (Hlenr : len (right_ d) = Z.min (fst (rch d) + cs) (len R) - fst (rch d))
      by (rewrite HRd; apply len_slice; lia).
    unfold len in *. destruct (finner (df d)); lia. }
  assert (HA0 : AbsK (fst (lch d) + fi (df d)) (fst (rch d) + fj (df d)) (sub_of (df d)) O).
  { destruct HW as (_ & Hio & _ & _ & Hjo & _). unfold params_of in Hio, Hjo. cbn [ki_off kj_off] in Hio, Hjo.
    unfold GI, GJ in HA. rewrite <- Hio, <- Hjo. exact HA. }
  destruct (krun_cnt_ok (kfuel d cs) (params_of inv d) _ _ _ _ (df d) (outl d) (outr d) O 0%nat 0%nat HW HB HP HLoc HA0 HO Hfuel)
    as (s' & O' & n & m & E & HB' & HP' & HA' & HO' & Hstop & Hi' & Hj' & Hr' & Hprog & Hn & Hm).
  rewrite E. cbn [bind fst snd Nat.add].
  assert (Hprog' : fi (df d) + fj (df d) + fr (df d) < fi s' + fj s' + fr s').
  { apply Hprog; unfold params_of; cbn [ki_max kj_max]; lia. }
  assert (Hn' : Z.of_nat n <= 2 * ((fi s' - fi (df d)) + (fj s' - fj (df d)) + (fr s' - fr (df d))) + 1).
  { clear - Hn. unfold kmeas in Hn. destruct (finner (df d)), (finner s'); lia. }
  assert (HM1 : MidInvK (set_f d s') O').
  { unfold MidInv, set_f, GI, GJ, params_of.
    cbn [df lch left_ i_max_ i_off_ rch right_ j_max_ j_off_ outl outr].
    splits; try assumption.
    destruct HW as (_ & Hio & _ & _ & Hjo & _). unfold params_of in Hio, Hjo. cbn [ki_off kj_off] in Hio, Hjo.
    rewrite Hio, Hjo. exact HA'. }
  assert (HGI1 : GI (set_f d s') = i_off_ d + fi s') by reflexivity.
  assert (HGJ1 : GJ (set_f d s') = j_off_ d + fj s') by reflexivity.
  assert (Hfr1 : fr (df (set_f d s')) = fr s') by reflexivity.
  assert (Hor1 : outr (set_f d s') = outr d) by reflexivity.
  pose proof (MidInv_lenO _ _ _ _ _ _ K _ _ HM1) as HlenO1. rewrite Hfr1, Hor1 in HlenO1.
  destruct (refill_l_ok k emit L R inv cs K Hcs _ _ HM1)
    as [(Hr & Hlong)|(d1 & E1 & HMd1 & HI1 & HJ1 & Hfrd1 & Hord1 & HhL1 & _)];
    [left; split; [rewrite Hr; reflexivity|exact Hlong]|].
  rewrite E1. cbn [bind].
  destruct (refill_r_ok k emit L R inv cs K Hcs _ _ HMd1)
    as [(Hr & Hlong)|(d2 & E2 & HMd2 & HI2 & HJ2 & Hfrd2 & Hord2 & HhR2 & HhL2)];
    [left; split; [rewrite Hr; reflexivity|exact Hlong]|].
  rewrite E2. cbn [bind].
  right. right.
  destruct (flush_ok k emit L R inv cs K Hcs _ _ HMd2 (HhL2 HhL1) HhR2) as (HD & HIf & HJf).
  eexists _, O', n, m. split; [reflexivity|]. split; [exact HD|].
  rewrite flush_phi, (refill_r_phi _ _ E2), (refill_l_phi _ _ E1).
  change (phi (df (set_f d s'))) with (phi s').
  rewrite HIf, HJf, HI2, HJ2, HI1, HJ1, HGI1, HGJ1. unfold GI, GJ. splits; lia.
Qed.

(* the whole main loop, whatever the fuel: whenever it returns, the counters are bounded by the progress made *)
Lemma main_loop_cnt_bound : forall fuel d O it ks sc d' it' ks' sc',
  DInvK d O -> main_loop_cnt fuel v L R inv cs d it ks sc = Ok (d', (it', ks', sc')) ->
  exists O', DInvK d' O' /\ (GI d' = len L \/ GJ d' = len R) /\
    (it <= it')%nat /\ (ks <= ks')%nat /\ GI d <= GI d' /\ GJ d <= GJ d' /\ len O <= len O' /\
    Z.of_nat it' - Z.of_nat it <= (GI d' - GI d) + (GJ d' - GJ d) + (len O' - len O) /\
    Z.of_nat ks' - Z.of_nat ks <=
      2 * ((GI d' - GI d) + (GJ d' - GJ d) + (len O' - len O)) + (Z.of_nat it' - Z.of_nat it) /\
    (sc <= sc')%nat /\
    Z.of_nat sc' - Z.of_nat sc <= (len O' - len O) + phi (df d') - phi (df d).
Proof.
  induction fuel as [|fuel IH]; intros d O it ks sc d' it' ks' sc' HD E; cbn [main_loop_cnt] in E; [discriminate|].
  destruct (main_iter_cnt_ok d O HD)
    as [(Hr & _)|[(E0 & Hend)|(d1 & O1 & n & m & E1 & HD1 & HI1 & HJ1 & HO1 & Hp1 & Hn1 & Hm1)]].
  - rewrite Hr in E. discriminate.
  - rewrite E0 in E. cbn [bind] in E. injection E as <- <- <- <-. exists O. splits; try assumption; lia.
  - rewrite E1 in E. cbn [bind] in E.
    destruct (IH _ O1 _ _ _ _ _ _ _ HD1 E) as (O' & HD' & Hend & H1 & H2 & H3 & H4 & H5 & H6 & H7 & H8 & H9).
    exists O'. splits; try assumption; lia.
Qed.

Lemma len_unmatched a b : 0 <= a <= b -> len (unmatched inv a b) = b - a.
Proof.
  intros H. unfold unmatched. unfold len at 1. rewrite map_length. fold (len (seqZ a (b - a))).
  apply seqZ_length. lia.
Qed.

(* both loops, both kernels *)
Theorem streamed_cnt_bound out c :
  streamed_cnt v L R inv cs = Ok (out, c) ->
  Z.of_nat (c_calls c) + Z.of_nat (c_tail c) <= len L + len R + len SPEC /\
  Z.of_nat (c_ksteps c) + Z.of_nat (c_rsteps c) <= 2 * (len L + len R + len SPEC) + Z.of_nat (c_calls c) /\
  Z.of_nat (c_scan c) <= len SPEC.
Proof.
  unfold streamed_cnt.
  pose proof (len_nonneg L) as HLn. pose proof (len_nonneg R) as HRn.
  destruct (fetch_chunk_spec (v_ltrim v) 0 cs L Hcs ltac:(lia)) as [Hr|(lb & ldata & El & HckL)];
    [rewrite Hr; discriminate|].
  rewrite El. cbn [bind].
  destruct (fetch_chunk_spec (v_rtrim v) 0 cs R Hcs ltac:(lia)) as [Hr|(rb & rdata & Er & HckR)];
    [rewrite Hr; discriminate|].
  rewrite Er. cbn [bind fst snd].
  pose proof (DInv_init lb ldata rb rdata HckL HckR) as HD0. cbn zeta in HD0.
  set (buf := repeat 0 (Z.to_nat cs)) in *.
  set (d0 := mkdrv (mkfsm 0 0 0 0 0 (-1) (-1) false buf buf) (0, lb) ldata (lb - 0) 0 (0, rb) rdata (rb - 0) 0 [] []) in *.
  destruct (main_loop_cnt (driver_fuel L R) v L R inv cs d0 0 0 0) as [[d1 [[it ks] sc]]| | |] eqn:E1;
    cbn [bind fst snd]; try discriminate.
  destruct (main_loop_cnt_bound _ d0 [] _ _ _ _ _ _ _ HD0 E1)
    as (O1 & HD1 & Hend & _ & _ & HI & HJ & _ & Hit & Hks & _ & Hsc).
  assert (HGI0 : GI d0 = 0) by reflexivity. assert (HGJ0 : GJ d0 = 0) by reflexivity.
  assert (Hphi0 : phi (df d0) = 0) by reflexivity.
  change (len (@nil (Z * Z))) with 0 in Hit, Hks, Hsc. rewrite HGI0, HGJ0 in *. rewrite Hphi0 in Hsc.
  cbn [Z.of_nat] in Hit, Hks, Hsc.
  pose proof HD1 as (HM1 & Hr1 & HhL1 & HhR1).
  pose proof (MidInv_bounds _ _ _ _ _ _ K d1 O1 HM1) as (HI1 & HJ1).
  pose proof (MidInv_prefix d1 O1 HM1) as HO1.
  assert (Hinn1 : finner (df d1) = false).
  { destruct (finner (df d1)) eqn:Ein; [|reflexivity].
    destruct HM1 as (HW1 & _ & HP1 & _).
    destruct HP1 as (Hpi & Hpj & Hpinn). specialize (Hpinn Ein).
    destruct HW1 as (_ & Hio & Him & HcL & Hjo & Hjm & HcR).
    destruct HcL as (? & ? & ? & _). destruct HcR as (? & ? & ? & _).
    unfold params_of in *. cbn [ki_off ki_max kj_off kj_max] in *. unfold GI, GJ in *. lia. }
  assert (Hphi1 : phi (df d1) = 0) by (unfold phi; rewrite Hinn1; reflexivity).
  rewrite Hphi1 in Hsc.
  cbn [v_left].
  assert (Htail : forall b:bool, (b = true -> emit = true) -> forall x2,
            (if b then tail_loop_cnt (S (S (length L))) v L inv cs d1 0 0 else Ok (d1, (0%nat, 0%nat))) = Ok x2 ->
            Z.of_nat (fst (snd x2)) <= len SPEC - len O1 /\ Z.of_nat (snd (snd x2)) <= len SPEC - len O1).
  { intros [|] Hb [d2 [tit rs]] E2; [|injection E2 as <- <- <-; cbn [fst snd Z.of_nat]; lia].
    specialize (Hb eq_refl). cbn [fst snd].
    (* len SPEC = len O1 + (len L - GI d1) *)
    pose proof HM1 as (HW1 & HB1 & HP1 & HA1 & _).
    pose proof (Abs_final k emit L R inv cs K _ _ _ _ HA1 Hinn1 HI1 HJ1 Hend) as Hfinal.
    rewrite Hb in Hfinal at 1.
    assert (Hlen : len SPEC = len O1 + (len L - GI d1)).
    { rewrite <- Hfinal, len_app, len_unmatched by lia. reflexivity. }
    assert (HG : TGeom L d1).
    { pose proof (TInv_after_main d1 O1 HD1) as (_ & _ & Hc1 & Hc2 & _ & Hio & Him & Hi & _ & _ & Hhead & _).
      unfold TGeom. splits; try assumption; lia. }
    destruct (tail_loop_cnt_bound v L inv cs Hcs _ _ _ _ _ _ _ HG E2) as (_ & _ & HG2 & Ht & Hrs).
    cbn [Z.of_nat] in Ht, Hrs. lia. }
  match goal with |- (do x2 <- ?X; _) = _ -> _ => destruct X as [x2| | |] eqn:E2 end; cbn [bind]; try discriminate.
  destruct (Htail emit (fun H => H) x2 E2) as (Ht & Hrs).
  intros Eq. injection Eq as _ <-. cbn [c_calls c_ksteps c_scan c_tail c_rsteps]. lia.
Qed.

(* ---------------------------------------------------------------- (3) every prefix of an execution
   `iters d it ks d'`: `it` completed main-loop iterations lead from d to d' and executed ks kernel loop bodies.
   Whatever happens afterwards (more iterations, the exit, the clear ValueError of a chunk fetch), the completed
   iterations are within the linear bounds - this is the form of (2) that also covers runs ending in the error. *)
Inductive iters : drv -> nat -> nat -> drv -> Prop :=
| iters_O : forall d, iters d 0 0 d
| iters_S : forall d d1 n m it ks d', main_iter_cnt v L R inv cs d = Ok (Some (d1, (n, m))) ->
    iters d1 it ks d' -> iters d (S it) (n + ks) d'.

Lemma iters_bound : forall d it ks d', iters d it ks d' -> forall O, DInvK d O ->
  exists O', DInvK d' O' /\ GI d <= GI d' /\ GJ d <= GJ d' /\ len O <= len O' /\
    Z.of_nat it <= (GI d' - GI d) + (GJ d' - GJ d) + (len O' - len O) /\
    Z.of_nat ks <= 2 * ((GI d' - GI d) + (GJ d' - GJ d) + (len O' - len O)) + Z.of_nat it.
Proof.
  induction 1 as [d|d d1 n m it ks d' E _ IH]; intros O HD.
  - exists O. splits; try assumption; lia.
  - destruct (main_iter_cnt_ok d O HD)
      as [(Hr & _)|[(E0 & _)|(d1' & O1 & n' & m' & E1 & HD1 & HI1 & HJ1 & HO1 & Hp1 & Hn1 & _)]].
    + rewrite Hr in E. discriminate.
    + rewrite E0 in E. discriminate.
    + rewrite E1 in E. injection E as <- <- <-.
      destruct (IH O1 HD1) as (O' & HD' & H1 & H2 & H3 & H4 & H5).
      exists O'. splits; try assumption; lia.
Qed.

Definition init_drv (lc rc : (Z * Z) * list Z) : drv :=
  let buf := repeat 0 (Z.to_nat cs) in
  mkdrv (mkfsm 0 0 0 0 0 (-1) (-1) false buf buf)
        (fst lc) (snd lc) (snd (fst lc) - fst (fst lc)) (fst (fst lc))
        (fst rc) (snd rc) (snd (fst rc) - fst (fst rc)) (fst (fst rc)) [] [].

Theorem streamed_prefix_bound lc rc it ks d' :
  fetch_chunk (v_ltrim v) 0 cs L = Ok lc -> fetch_chunk (v_rtrim v) 0 cs R = Ok rc ->
  iters (init_drv lc rc) it ks d' ->
  Z.of_nat it <= len L + len R + len SPEC /\ Z.of_nat ks <= 2 * (len L + len R + len SPEC) + Z.of_nat it.
Proof.
  intros El Er Hit.
  pose proof (len_nonneg L) as HLn. pose proof (len_nonneg R) as HRn.
  destruct (fetch_chunk_spec (v_ltrim v) 0 cs L Hcs ltac:(lia)) as [Hr|(lb & ldata & El' & HckL)]; [congruence|].
  destruct (fetch_chunk_spec (v_rtrim v) 0 cs R Hcs ltac:(lia)) as [Hr|(rb & rdata & Er' & HckR)]; [congruence|].
  assert (lc = ((0, lb), ldata)) by congruence. assert (rc = ((0, rb), rdata)) by congruence. subst lc rc.
  pose proof (DInv_init lb ldata rb rdata HckL HckR) as HD0. cbn zeta in HD0.
  unfold init_drv in Hit. cbn [fst snd] in Hit. cbv zeta in Hit.
  destruct (iters_bound _ _ _ _ Hit [] HD0) as (O' & HD' & HI & HJ & HO & H1 & H2).
  destruct HD' as (HM' & _).
  pose proof (MidInv_bounds _ _ _ _ _ _ K d' O' HM') as (HI' & HJ').
  pose proof (MidInv_prefix d' O' HM') as HO'.
  match type of H1 with context [GI ?d0] => assert (HGI0 : GI d0 = 0) by reflexivity;
                                             assert (HGJ0 : GJ d0 = 0) by reflexivity end.
  rewrite HGI0, HGJ0 in *. change (len (@nil (Z * Z))) with 0 in *. lia.
Qed.

(* `iters` is what the instrumented main loop does, and `init_drv` is where the driver starts *)
Lemma main_loop_cnt_iters : forall fuel d it ks sc d' it' ks' sc',
  main_loop_cnt fuel v L R inv cs d it ks sc = Ok (d', (it', ks', sc')) ->
  exists n m, iters d n m d' /\ it' = (it + n)%nat /\ ks' = (ks + m)%nat.
Proof.
  induction fuel as [|fuel IH]; intros d it ks sc d' it' ks' sc' E; cbn [main_loop_cnt] in E; [discriminate|].
  destruct (main_iter_cnt v L R inv cs d) as [[[d1 [n m]]|]| | |] eqn:E1; cbn [bind] in E; try discriminate.
  - destruct (IH _ _ _ _ _ _ _ _ E) as (n0 & m0 & Hit & -> & ->).
    exists (S n0), (n + m0)%nat. split; [exact (iters_S _ _ _ _ _ _ _ E1 Hit)|lia].
  - injection E as <- <- <- <-. exists 0%nat, 0%nat. split; [constructor|lia].
Qed.

Lemma streamed_cnt_init :
  streamed_cnt v L R inv cs =
  do lc <- fetch_chunk (v_ltrim v) 0 cs L;
  do rc <- fetch_chunk (v_rtrim v) 0 cs R;
  do x1 <- main_loop_cnt (driver_fuel L R) v L R inv cs (init_drv lc rc) 0 0 0;
  do x2 <- (if v_left v then tail_loop_cnt (S (S (length L))) v L inv cs (fst x1) 0 0 else Ok (fst x1, (O, O)));
  Ok ((outl (fst x2), outr (fst x2)),
      mkcounts (fst (fst (snd x1))) (snd (fst (snd x1))) (snd (snd x1)) (fst (snd x2)) (snd (snd x2))).
Proof. reflexivity. Qed.

End Steps.
