(* Proofs/GroupHistP.v — C07: the per-call theorem groupby_steps_correct lifts to histories by induction. *)
From Coq Require Import ZArith List Bool Lia.
From EV Require Import Res Arr StableSort Spans SpansSpec FilterIndex FilterIndexSpec Group GroupSpec GroupCompose
  GroupHist GroupHistSpec.
Import ListNotations.
Open Scope Z_scope.

Lemma drop_duplicates_as_steps cols by_ hint d :
  df_groupby_steps cols by_ hint [] [GDistinct true] = Ok d -> df_drop_duplicates cols by_ [] hint = Ok d.
Proof.
  unfold df_groupby_steps, df_drop_duplicates.
  destruct (df_groupby cols by_ hint) as [g|e|s|]; cbn [bind run_gsteps run_gstep]; try discriminate.
  destruct (gb_distinct cols g [] true) as [x|e|s|]; cbn [bind]; intros H; try discriminate; exact H.
Qed.

Theorem hist_correct_pf : forall evs cols outs r,
  spec_hist cols evs outs = Some r -> run_hist cols evs outs = Ok r.
Proof.
  induction evs as [|e t IH]; intros cols outs r H.
  - cbn in H |- *. inversion H. reflexivity.
  - destruct e; cbn [spec_hist run_hist] in H |- *.
    + destruct (spec_groupby_steps cols by_ hint [] steps) as [d|] eqn:Hs; try discriminate.
      rewrite (df_groupby_steps_correct _ _ _ _ _ _ Hs). cbn [bind]. apply IH. exact H.
    + destruct (spec_groupby_steps cols by_ hint [] [GDistinct true]) as [d|] eqn:Hs; try discriminate.
      rewrite (drop_duplicates_as_steps _ _ _ _ (df_groupby_steps_correct _ _ _ _ _ _ Hs)).
      cbn [bind]. apply IH. exact H.
    + destruct (hist_mutate cols (HWrite name b)) as [[c'|?|?|]|]; try discriminate. cbn [bind]. apply IH. exact H.
    + destruct (hist_mutate cols (HFieldIndex name idx)) as [[c'|?|?|]|]; try discriminate. cbn [bind]. apply IH. exact H.
    + destruct (hist_mutate cols (HFilter flt)) as [[c'|?|?|]|]; try discriminate. cbn [bind]. apply IH. exact H.
    + destruct (hist_mutate cols (HIndex idx)) as [[c'|?|?|]|]; try discriminate. cbn [bind]. apply IH. exact H.
    + destruct (hist_mutate cols (HSort by_)) as [[c'|?|?|]|]; try discriminate. cbn [bind]. apply IH. exact H.
Qed.

(* every group-by of a history is the call alone on the frame at that time: the history of a prefix followed by
   one more group-by adds exactly the one-call result on the frame the prefix leaves behind *)
Lemma run_hist_app : forall evs1 evs2 cols outs,
  run_hist cols (evs1 ++ evs2) outs
  = (do r <- run_hist cols evs1 outs; run_hist (snd r) evs2 (fst r)).
Proof.
  induction evs1 as [|e t IH]; intros evs2 cols outs.
  - reflexivity.
  - cbn [app]. destruct e; cbn [run_hist].
    + destruct (df_groupby_steps cols by_ hint [] steps); cbn [bind]; try reflexivity. apply IH.
    + destruct (df_drop_duplicates cols by_ [] hint); cbn [bind]; try reflexivity. apply IH.
    + destruct (hist_mutate cols (HWrite name b)) as [[c'|?|?|]|]; cbn [bind]; try reflexivity. apply IH.
    + destruct (hist_mutate cols (HFieldIndex name idx)) as [[c'|?|?|]|]; cbn [bind]; try reflexivity. apply IH.
    + destruct (hist_mutate cols (HFilter flt)) as [[c'|?|?|]|]; cbn [bind]; try reflexivity. apply IH.
    + destruct (hist_mutate cols (HIndex idx)) as [[c'|?|?|]|]; cbn [bind]; try reflexivity. apply IH.
    + destruct (hist_mutate cols (HSort by_)) as [[c'|?|?|]|]; cbn [bind]; try reflexivity. apply IH.
Qed.

Theorem hist_last_call_alone_pf : forall evs cols outs outs' cols' by_ hint ss,
  run_hist cols evs outs = Ok (outs', cols') ->
  run_hist cols (evs ++ [HGroup by_ hint ss]) outs
  = (do d <- df_groupby_steps cols' by_ hint [] ss; Ok (outs' ++ [d], cols')).
Proof.
  intros. rewrite run_hist_app, H. cbn [bind fst snd run_hist].
  destruct (df_groupby_steps cols' by_ hint [] ss); reflexivity.
Qed.
