(* Proofs/FilterIndexExamples.v — non-trivial inputs satisfying the hypotheses of the C09 theorems
   (so that no theorem holds vacuously), checked by computation. *)
From Coq Require Import ZArith List Bool Lia Permutation.
From EV Require Import Res Arr StableSort FilterIndex FilterIndexSpec FilterIndexKernels FilterIndexSort FilterIndexFrames.
Import ListNotations.
Open Scope Z_scope.

(* a 4-row frame: an indexed string column ("bb", "", "é"(2 bytes), "a"), an int column with ties,
   a one-byte fixed string column *)
Definition ex_s : field := mkField [1;0;0] true (BIdx [0;2;2;4;5] [98;98;195;169;97]).
Definition ex_n : field := mkField [3;5;0] true (BDat [1;0;1;0]).
Definition ex_f : field := mkField [2;0;1] true (BDat [120;121;120;122]).
Definition ex_cols : frame := [(0, ex_s); (1, ex_n); (2, ex_f)].

Example ex_kernel_filter :
  (length [true; false; true] <= length [[98;98]; []; [195;169]; [97]])%nat /\
  apply_filter_to_index_values [true; false; true] [0;2;2;4;5] [98;98;195;169;97] = Ok ([0;2;4], [98;98;195;169]).
Proof. split; [cbn; lia|vm_compute; reflexivity]. Qed.

Example ex_kernel_index :
  Forall (valid_ix [[98;98]; []; [195;169]; [97]]) [3; 3; -4; 1] /\
  apply_indices_to_index_values [3; 3; -4; 1] [0;2;2;4;5] [98;98;195;169;97] = Ok ([0;1;2;4;4], [97;97;98;98]).
Proof. split; [repeat constructor; unfold valid_ix; cbn; lia|vm_compute; reflexivity]. Qed.

Example ex_spec_filter_defined :
  exists r, spec_filter ex_cols 1 [2; 0; -1; 0] (Some []) = Some r /\
            df_apply_filter ex_cols 1 [2; 0; -1; 0] (Some []) = Ok r.
Proof. eexists. split; vm_compute; reflexivity. Qed.

Example ex_spec_index_defined :
  exists r, spec_index ex_cols [3; 3; 0] None = Some r /\ df_apply_index ex_cols [3; 3; 0] None = Ok r.
Proof. eexists. split; vm_compute; reflexivity. Qed.

(* sort by (int column, string column): ties on the int column are broken by the string column,
   full ties keep their order *)
Example ex_spec_sort_defined :
  exists r, spec_sort ex_cols [1; 0] (Some []) = Some r /\ df_sort_values ex_cols [1; 0] (Some []) = Ok r /\
            lexsort_perm (rows_of 4 [field_cells ex_n; field_cells ex_s]) = [1; 3; 0; 2].
Proof. eexists. repeat split; vm_compute; reflexivity. Qed.

Example ex_sort_index :
  dataset_sort_index [[[1];[0];[1];[0]]; [[5];[5];[4];[5]]] (iota 0 4) = Ok [1; 3; 2; 0].
Proof. vm_compute. reflexivity. Qed.

Example ex_wf : wf_bodyb (fbody ex_s) = true /\ frame_ok 4 ex_cols = true.
Proof. split; vm_compute; reflexivity. Qed.
