(* Proofs/MergeOrdered.v — C02: _ordered_merge (repaired call-site table) = the destination built
   from the relational join, given the C03 end-to-end statement of the selected generator. *)
From Coq Require Import ZArith List Lia Bool.
From EV Require Import Res Arr Join JoinSpec MapStream MapStreamSpec MapIndexedDriver Merge MergeSpec MergeBase.
Import ListNotations.
Open Scope Z_scope.

(* the generator the repaired table selects and its (left, right) arguments *)
Definition sel_variant (how:Z) (lu ru:bool) : variant :=
  if how =? 0 then mkvar (kind_of_unique lu ru) true
  else if how =? 1 then mkvar (kind_of_unique ru lu) true
  else mkvar (kind_of_unique lu ru) false.
Definition sel_a (how:Z) (lk rk:list Z) : list Z := if how =? 1 then rk else lk.
Definition sel_b (how:Z) (lk rk:list Z) : list Z := if how =? 1 then lk else rk.

(* what the generator must return (C03): (left map or [], right map) of the relational join *)
Definition c03_out (v:variant) (inv:Z) (A B:list Z) : list Z * list Z :=
  (if v_writes_l v then map fst (join_spec (v_left v) inv A B) else [],
   map snd (join_spec (v_left v) inv A B)).

(* (_left_map, _right_map) as they must end up in the destination *)
Definition jmaps (how:Z) (lu ru:bool) (lk rk:list Z) (inv:Z) : option (list Z) * option (list Z) :=
  let v := sel_variant how lu ru in
  let sp := join_spec (v_left v) inv (sel_a how lk rk) (sel_b how lk rk) in
  let am := if v_writes_l v then Some (map fst sp) else None in
  let bm := Some (map snd sp) in
  if how =? 1 then (bm, am) else (am, bm).

Definition map_fields (lm rm:option (list Z)) : frame :=
  (match lm with Some m => [(N_left_map, map_column m)] | None => [] end) ++
  (match rm with Some m => [(N_right_map, map_column m)] | None => [] end).

Definition ordered_dest (how:Z) (lu ru:bool) (lk rk:list Z) (lcols rcols:frame) (lsuf rsuf:list Z) : frame :=
  let inv := merge_invalid lu ru (len lk) (len rk) in
  let '(lm, rm) := jmaps how lu ru lk rk inv in
  map_fields lm rm ++
  side_out lcols (frame_names rcols) lsuf lm inv ++
  side_out rcols (frame_names lcols) rsuf rm inv.

Section Ordered.
Variables (how:Z) (lu ru:bool) (lk rk:list Z) (lcols rcols:frame) (lsuf rsuf:list Z) (cs mcs vf ccs:Z).
Let inv := merge_invalid lu ru (len lk) (len rk).
Let v := sel_variant how lu ru.
Let A := sel_a how lk rk.
Let B := sel_b how lk rk.

Hypothesis Hhow : how = 0 \/ how = 1 \/ how = 2.
(* the C03 end-to-end statement for the selected generator, in its successful branch *)
Hypothesis C03 : streamed v A B inv cs = Ok (c03_out v inv A B).

Lemma ordered_maps_ok : ordered_maps MFixed how lu ru lk rk inv cs = Ok (jmaps how lu ru lk rk inv).
Proof.
  unfold ordered_maps, jmaps. fold v A B.
  destruct Hhow as [E|[E|E]]; subst how; cbn [Z.eqb orb Pos.eqb] in *.
  - change (streamed (mkvar (kind_of_unique lu ru) true) lk rk inv cs) with (streamed v A B inv cs).
    rewrite C03. unfold c03_out. cbn [bind fst snd].
    change (mkvar (kind_of_unique lu ru) true) with v. destruct (v_writes_l v); reflexivity.
  - change (streamed (mkvar (kind_of_unique ru lu) true) rk lk inv cs) with (streamed v A B inv cs).
    rewrite C03. unfold c03_out. cbn [bind fst snd].
    change (mkvar (kind_of_unique ru lu) true) with v. destruct (v_writes_l v); reflexivity.
  - change (streamed (mkvar (kind_of_unique lu ru) false) lk rk inv cs) with (streamed v A B inv cs).
    rewrite C03. unfold c03_out. cbn [bind fst snd].
    assert (Hw : v_writes_l v = true) by reflexivity. rewrite Hw. reflexivity.
Qed.

Hypothesis Hmcs : 1 <= mcs.
Hypothesis Hvf : 0 <= vf.
Hypothesis Hccs : 1 <= ccs.
(* every mapped column has the length of its side's key column; the maps meet the precondition of
   ordered_map_valid*_stream (C04); indexed entries fit the value buffer *)
Hypothesis Hlcols : cols_ok (len lk) lcols (fst (jmaps how lu ru lk rk inv)) inv (mcs * vf).
Hypothesis Hrcols : cols_ok (len rk) rcols (snd (jmaps how lu ru lk rk inv)) inv (mcs * vf).
(* no two destination fields get the same name *)
Hypothesis Hnames : NoDup (frame_names (ordered_dest how lu ru lk rk lcols rcols lsuf rsuf)).

Lemma bind_assoc {X Y W} (r:res X) (f:X -> res Y) (g:Y -> res W) :
  (do y <- (do x <- r; f x); g y) = (do x <- r; do y <- f x; g y).
Proof. destruct r; reflexivity. Qed.

Theorem ordered_merge_ok :
  ordered_merge MFixed how lu ru lk rk lcols rcols lsuf rsuf (len lk) (len rk) cs mcs vf ccs
  = Ok (ordered_dest how lu ru lk rk lcols rcols lsuf rsuf).
Proof.
  unfold ordered_merge. fold inv. rewrite ordered_maps_ok. cbn [bind].
  unfold ordered_dest in *. fold inv in Hnames |- *.
  destruct (jmaps how lu ru lk rk inv) as [lm rm] eqn:Ej. cbn [fst snd] in *.
  (* the map fields *)
  assert (Hd1 : (do d0 <- match lm with Some m => dest_add [] N_left_map (map_column m) | None => Ok [] end;
                 match rm with Some m => dest_add d0 N_right_map (map_column m) | None => Ok d0 end)
                = Ok (map_fields lm rm)).
  { unfold map_fields. destruct lm as [l|], rm as [r|]; cbn [bind app]; try reflexivity. }
  rewrite <- bind_assoc. rewrite Hd1. cbn [bind].
  replace (match rm with Some _ => Ok tt | None => Ok tt end) with (@Ok unit tt) by (destruct rm; reflexivity).
  cbn [bind].
  unfold frame_names in Hnames. rewrite !map_app in Hnames.
  rewrite (map_side_ok (frame_names rcols) lsuf lm inv mcs vf ccs (len lk) Hmcs Hvf Hccs lcols (map_fields lm rm) Hlcols).
  2:{ rewrite app_assoc in Hnames. apply NoDup_app_l in Hnames. exact Hnames. }
  cbn [bind].
  rewrite (map_side_ok (frame_names lcols) rsuf rm inv mcs vf ccs (len rk) Hmcs Hvf Hccs rcols _ Hrcols).
  2:{ unfold frame_names. rewrite map_app. rewrite <- app_assoc. exact Hnames. }
  rewrite <- app_assoc. reflexivity.
Qed.

End Ordered.
