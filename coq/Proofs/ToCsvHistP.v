(* Proofs/ToCsvHistP.v — histories of to_csv calls (C18). *)
From Coq Require Import ZArith List Bool Lia.
From EV Require Import Res Arr ToCsv ToCsvSpec ToCsvTop ToCsvHist ToCsvHistSpec.
Import ListNotations.
Open Scope Z_scope.

Lemma closed_form fr rf cf chunk :
  to_csv (to_csv_fuel fr chunk) V_fix fr rf cf chunk = to_csv_closed fr rf cf chunk.
Proof.
  unfold to_csv_closed.
  destruct (0 <? chunk) eqn:Hc; cbn [andb].
  - apply Z.ltb_lt in Hc.
    destruct (cf_valid fr cf) eqn:Hv.
    + apply to_csv_rows_correct; auto.
    + apply to_csv_rejects. right. exact Hv.
  - apply Z.ltb_ge in Hc. apply to_csv_rejects. left. exact Hc.
Qed.

Lemma call_correct st c :
  to_csv (to_csv_fuel (c_fr c) (c_chunk c)) V_fix (c_fr c) (c_rf c) (resolve st (c_cf c)) (c_chunk c)
  = call_spec st c.
Proof. apply closed_form. Qed.

(* the repaired code: a history is a sequence of independent calls *)
Theorem history_correct st : forall calls file,
  run_hist true st file calls = spec_hist st file calls.
Proof.
  induction calls as [|c t IH]; intros file; [reflexivity|].
  cbn [run_hist spec_hist]. rewrite call_correct. rewrite IH. reflexivity.
Qed.

(* in the words of the property: in every history every valid call writes header :: selected rows
   of the arguments as written and of the frame as it is then, whatever was exported before, and
   that is what the destination holds afterwards *)
Theorem history_nth st calls file k c :
  nth_error calls k = Some c -> 0 < c_chunk c -> cf_valid (c_fr c) (resolve st (c_cf c)) = true ->
  let out := concat (map fix_line (spec_table (c_fr c) (c_rf c) (resolve st (c_cf c)))) in
  nth_error (run_hist true st file calls) k = Some (Ok out, Some out).
Proof.
  rewrite history_correct. revert file k.
  induction calls as [|c0 t IH]; intros file k Hn Hc Hv; [destruct k; discriminate|].
  destruct k as [|k]; cbn [nth_error spec_hist] in *.
  - injection Hn as ->. unfold call_spec, to_csv_closed. apply Z.ltb_lt in Hc. rewrite Hc, Hv. cbn [andb]. reflexivity.
  - apply IH; assumption.
Qed.

(* a failing call leaves the destination as it was *)
Theorem history_failed_call_keeps_file st c t file :
  (c_chunk c <= 0 \/ cf_valid (c_fr c) (resolve st (c_cf c)) = false) ->
  hd_error (run_hist true st file (c :: t)) = Some (Raise E_ValueError, file).
Proof.
  intros H. cbn [run_hist hd_error]. rewrite (to_csv_rejects _ _ _ _ _ H). reflexivity.
Qed.

(* the code that hands the caller's list to list.remove: the second export through the same
   list object lacks a column the caller selected (finding F-C18j) *)
Definition j_frame : frame := [([97], [CInt 1; CInt 2; CInt 3]); ([102], [CLit [84]; CLit [70]; CLit [84]])].
Definition j_store : store := [[[97]; [102]]].
Definition j_calls : list call :=
  [mkcall j_frame (RF_field true [102] [true; false; true]) (CA_ref 0) 2; mkcall j_frame RF_none (CA_ref 0) 2].

Theorem history_aliasing_refuted :
  run_hist false j_store None j_calls <> spec_hist j_store None j_calls
  /\ run_hist true j_store None j_calls = spec_hist j_store None j_calls.
Proof. split; [vm_compute; discriminate | apply history_correct]. Qed.
