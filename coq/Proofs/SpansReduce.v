(* Proofs/SpansReduce.v — every apply_spans_* kernel on plain arrays returns the per-span reference. *)
From Coq Require Import ZArith List Lia Bool.
From EV Require Import Res Arr Spans SpansSpec SpansBase SpansKernels SpansIndexed SpansOrder.
Import ListNotations.
Open Scope Z_scope.

Lemma np_zeros_ok {A} (z:A) n : 0 <= n -> np_zeros z n = Ok (repeat z (Z.to_nat n)).
Proof. intros H. unfold np_zeros. destruct (n <? 0) eqn:E; [lia|reflexivity]. Qed.
Lemma len_repeat {A} (z:A) n : len (repeat z n) = Z.of_nat n.
Proof. unfold len. rewrite repeat_length. reflexivity. Qed.

Lemma reduce_spans_table {A R} (f:Z -> list A -> R) sp xs :
  reduce_spans f sp xs =
  map (fun i => f (nthZ sp i) (slice xs (nthZ sp i) (nthZ sp (i + 1)))) (zrange 0 (Z.to_nat (len sp - 1))).
Proof. unfold reduce_spans. rewrite span_pairs_zrange, map_map. reflexivity. Qed.

(* valid spans: every span [sp i, sp (i+1)) is non-empty and inside [0, n] *)
Lemma valid_spans_bounds n sp i : valid_spans n sp -> 0 <= i < len sp - 1 ->
  0 <= nthZ sp i /\ nthZ sp i < nthZ sp (i + 1) /\ nthZ sp (i + 1) <= n.
Proof.
  intros [Hs [Hl [H0 Hn]]] Hi. pose proof (ssorted_sorted sp Hs) as Hw.
  split; [specialize (Hw 0 i); lia|]. split; [apply Hs; lia|]. specialize (Hw (i + 1) (len sp - 1)). lia.
Qed.

(* ---- span-only kernels ------------------------------------------------------------------------------ *)
Theorem apply_spans_count_ref sp : 1 <= len sp -> apply_spans_count sp = Ok (count_ref sp).
Proof.
  intros Hl. unfold apply_spans_count. rewrite np_zeros_ok by lia. cbn [bind].
  unfold range_len. replace (len sp - 1 - 0) with (len sp - 1) by lia.
  rewrite (for_range_tabulate _ (fun i => nthZ sp (i + 1) - nthZ sp i)).
  - f_equal. unfold count_ref. rewrite span_pairs_zrange, map_map. reflexivity.
  - rewrite len_repeat. lia.
  - intros i dest Hi Hd. unfold count_body. rewrite !getZ_ok by lia. cbn [bind]. apply set_ok. lia.
Qed.

Lemma map_fst_span_pairs sp : map fst (span_pairs sp) = removelast sp.
Proof.
  induction sp as [|a t IH]; [reflexivity|]. destruct t as [|b t']; [reflexivity|].
  change (span_pairs (a :: b :: t')) with ((a, b) :: span_pairs (b :: t')). cbn [map fst]. rewrite IH. reflexivity.
Qed.
Lemma map_snd_span_pairs sp : map snd (span_pairs sp) = tl sp.
Proof.
  induction sp as [|a t IH]; [reflexivity|]. destruct t as [|b t']; [reflexivity|].
  change (span_pairs (a :: b :: t')) with ((a, b) :: span_pairs (b :: t')). cbn [map snd tl]. f_equal.
  rewrite IH. reflexivity.
Qed.

Theorem apply_spans_index_of_first_ref sp : 1 <= len sp -> apply_spans_index_of_first sp = Ok (index_of_first_ref sp).
Proof.
  intros Hl. unfold apply_spans_index_of_first. rewrite np_zeros_ok by lia. cbn [bind].
  unfold index_of_first_ref. rewrite map_fst_span_pairs. reflexivity.
Qed.
Theorem apply_spans_index_of_last_ref sp : 1 <= len sp -> apply_spans_index_of_last sp = Ok (index_of_last_ref sp).
Proof.
  intros Hl. unfold apply_spans_index_of_last. rewrite np_zeros_ok by lia. cbn [bind].
  unfold index_of_last_ref. rewrite <- map_snd_span_pairs, map_map. reflexivity.
Qed.

(* ---- kernels reading a source array -------------------------------------------------------------------- *)
Lemma map_res_ok {A B} (f:A -> res B) (g:A -> B) l : (forall x, In x l -> f x = Ok (g x)) -> map_res f l = Ok (map g l).
Proof.
  induction l as [|x t IH]; intros H; [reflexivity|]. cbn [map_res map].
  rewrite H by (left; reflexivity). cbn [bind]. rewrite IH by (intros y Hy; apply H; right; exact Hy). reflexivity.
Qed.

Section Src.
Context {A:Type}.
Variable ltb : A -> A -> bool.
Variable d : A.

Theorem apply_spans_first_ref zero sp (src:list A) : valid_spans (len src) sp ->
  apply_spans_first zero sp src = Ok (first_ref d sp src).
Proof.
  intros Hv. pose proof Hv as [_ [Hl _]]. unfold apply_spans_first. rewrite np_zeros_ok by lia. cbn [bind].
  rewrite <- map_fst_span_pairs. unfold first_ref. rewrite reduce_spans_table.
  rewrite span_pairs_zrange, map_map. cbn [fst].
  rewrite (map_res_ok _ (fun a => nthd d src a)).
  - f_equal. rewrite map_map. apply map_ext_in. intros i Hi. apply in_zrange in Hi.
    destruct (valid_spans_bounds _ _ i Hv) as [B1 [B2 B3]]; [lia|]. rewrite nthd_slice by lia. f_equal. lia.
  - intros a Ha. apply in_map_iff in Ha. destruct Ha as [i [<- Hi]]. apply in_zrange in Hi.
    destruct (valid_spans_bounds _ _ i Hv) as [B1 [B2 B3]]; [lia|].
    unfold np_getitem. destruct (nthZ sp i <? 0) eqn:E; [lia|]. apply get_ok. lia.
Qed.

Theorem apply_spans_last_ref zero sp (src:list A) : valid_spans (len src) sp ->
  apply_spans_last zero sp src = Ok (last_ref d sp src).
Proof.
  intros Hv. pose proof Hv as [_ [Hl _]]. unfold apply_spans_last. rewrite np_zeros_ok by lia. cbn [bind].
  rewrite <- map_snd_span_pairs. unfold last_ref. rewrite reduce_spans_table.
  rewrite span_pairs_zrange, !map_map. cbn [snd].
  rewrite (map_res_ok _ (fun a => nthd d src a)).
  - f_equal. rewrite map_map. apply map_ext_in. intros i Hi. apply in_zrange in Hi.
    destruct (valid_spans_bounds _ _ i Hv) as [B1 [B2 B3]]; [lia|].
    rewrite len_slice by lia. rewrite nthd_slice by lia. f_equal. lia.
  - intros a Ha. apply in_map_iff in Ha. destruct Ha as [i [<- Hi]]. apply in_zrange in Hi.
    destruct (valid_spans_bounds _ _ i Hv) as [B1 [B2 B3]]; [lia|].
    unfold np_getitem. destruct (nthZ sp (i + 1) - 1 <? 0) eqn:E; [lia|]. apply get_ok. lia.
Qed.

Hypothesis Hord : strict_total ltb.

Lemma slice_cons (l:list A) a b : 0 <= a < b -> b <= len l -> slice l a b = nthd d l a :: slice l (a + 1) b.
Proof.
  intros Ha Hb. apply (list_eq_nthd d).
  - rewrite len_cons, !len_slice by lia. lia.
  - intros i Hi. rewrite len_slice in Hi by lia. rewrite nthd_slice by lia.
    destruct (Z.eq_dec i 0) as [->|Hi0]; [rewrite nthd_cons_0; f_equal; lia|].
    replace i with ((i - 1) + 1) at 2 by lia. rewrite nthd_cons_succ by lia. rewrite nthd_slice by lia. f_equal. lia.
Qed.

(* index_of_min / index_of_max *)
Theorem apply_spans_index_of_min_ref sp (src:list A) : valid_spans (len src) sp ->
  apply_spans_index_of_min ltb sp src = Ok (index_of_min_ref ltb sp src).
Proof.
  intros Hv. pose proof Hv as [_ [Hl _]]. unfold apply_spans_index_of_min, apply_spans_index_of.
  rewrite np_zeros_ok by lia. cbn [bind]. unfold range_len. replace (len sp - 1 - 0) with (len sp - 1) by lia.
  unfold index_of_min_ref. rewrite reduce_spans_table.
  apply for_range_tabulate; [rewrite len_repeat; lia|].
  intros i dest Hi Hd. destruct (valid_spans_bounds _ _ i Hv) as [B1 [B2 B3]]; [lia|].
  unfold index_of_body. rewrite !getZ_ok by lia. cbn [bind].
  rewrite np_slice_slice by lia. rewrite (slice_cons src) by lia.
  rewrite (argmin_spec_correct ltb d Hord). cbn [bind].
  destruct (nthZ sp (i + 1) - nthZ sp i =? 1) eqn:E1.
  - rewrite set_ok by lia. do 2 f_equal.
    replace (nthZ sp (i + 1)) with (nthZ sp i + 1) by lia. unfold slice at 1.
    replace (Z.to_nat (nthZ sp i + 1 - (nthZ sp i + 1))) with 0%nat by lia. cbn [firstn].
    unfold argmin_spec, is_least. cbn [find_index forallb]. rewrite (proj1 Hord). cbn. lia.
  - apply set_ok. lia.
Qed.
End Src.

Theorem apply_spans_index_of_max_ref {A} (ltb:A -> A -> bool) (d:A) sp (src:list A) :
  strict_total ltb -> valid_spans (len src) sp ->
  apply_spans_index_of_max ltb sp src = Ok (index_of_max_ref ltb sp src).
Proof.
  intros Hord Hv.
  exact (apply_spans_index_of_min_ref (flip_ltb ltb) d (strict_total_flip ltb Hord) sp src Hv).
Qed.

(* min / max *)
Section MinMax.
Context {A:Type}.
Variable ltb : A -> A -> bool.
Variable d : A.
Hypothesis Hord : strict_total ltb.

Lemma extreme_inner_loop (src:list A) : forall (k:nat) (a:Z) (v:A), 0 <= a -> a + Z.of_nat k <= len src ->
  for_range k a (extreme_inner (fun x m => ltb x m) src) v = Ok (fold_min ltb v (slice src a (a + Z.of_nat k))).
Proof.
  induction k as [|k IH]; intros a v Ha Hb.
  - cbn [for_range]. unfold slice. replace (Z.to_nat (a + Z.of_nat 0 - a)) with 0%nat by lia. reflexivity.
  - cbn [for_range]. unfold extreme_inner at 1. rewrite (get_ok 65 d) by lia. cbn [bind].
    rewrite (slice_cons d src a) by lia. unfold fold_min. cbn [fold_left].
    replace (a + Z.of_nat (S k)) with (a + 1 + Z.of_nat k) by lia.
    destruct (ltb (nthd d src a) v) eqn:E.
    + rewrite (get_ok 66 d) by lia. cbn [bind]. apply IH; lia.
    + cbn [bind]. apply IH; lia.
Qed.

Theorem apply_spans_min_ref zero sp (src:list A) : valid_spans (len src) sp ->
  apply_spans_min ltb zero sp src = Ok (min_ref ltb d sp src).
Proof.
  intros Hv. pose proof Hv as [_ [Hl _]]. unfold apply_spans_min, apply_spans_extreme.
  rewrite np_zeros_ok by lia. cbn [bind]. unfold range_len. replace (len sp - 1 - 0) with (len sp - 1) by lia.
  unfold min_ref. rewrite reduce_spans_table.
  apply for_range_tabulate; [rewrite len_repeat; lia|].
  intros i dest Hi Hd. destruct (valid_spans_bounds _ _ i Hv) as [B1 [B2 B3]]; [lia|].
  unfold extreme_body. rewrite !getZ_ok by lia. cbn [bind].
  rewrite (slice_cons d src) by lia. rewrite <- (fold_min_spec ltb d Hord).
  destruct (nthZ sp (i + 1) - nthZ sp i =? 1) eqn:E1.
  - rewrite (get_ok 67 d) by lia. cbn [bind]. rewrite set_ok by lia. do 2 f_equal.
    replace (nthZ sp (i + 1)) with (nthZ sp i + 1) by lia. unfold slice.
    replace (Z.to_nat (nthZ sp i + 1 - (nthZ sp i + 1))) with 0%nat by lia. reflexivity.
  - rewrite (get_ok 69 d) by lia. cbn [bind]. unfold range_len.
    rewrite extreme_inner_loop by lia. cbn [bind].
    replace (nthZ sp i + 1 + Z.of_nat (Z.to_nat (nthZ sp (i + 1) - (nthZ sp i + 1)))) with (nthZ sp (i + 1)) by lia.
    apply set_ok. lia.
Qed.
End MinMax.

Theorem apply_spans_max_ref {A} (ltb:A -> A -> bool) (d:A) zero sp (src:list A) :
  strict_total ltb -> valid_spans (len src) sp ->
  apply_spans_max ltb zero sp src = Ok (max_ref ltb d sp src).
Proof.
  intros Hord Hv.
  exact (apply_spans_min_ref (flip_ltb ltb) d (strict_total_flip ltb Hord) zero sp src Hv).
Qed.
