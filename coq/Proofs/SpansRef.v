(* Proofs/SpansRef.v — the reference span list: closed form, it satisfies the property predicate,
   and the predicate determines the list (uniqueness). *)
From Coq Require Import ZArith List Lia Bool.
From EV Require Import Res Arr Spans SpansSpec SpansBase.
Import ListNotations.
Open Scope Z_scope.

Section Ref.
Context {A:Type}.
Variable d : A.
Variable neqb : A -> A -> bool.

(* row i differs from row i-1 *)
Definition bnd (xs:list A) (i:Z) : bool := neqb (nthd d xs (i - 1)) (nthd d xs i).

Lemma bounds_from_filter s l :
  bounds_from neqb s l = filter (fun k => bnd l (k - s)) (zrange (s + 1) (length l - 1)).
Proof.
  revert s. induction l as [|x t IH]; intros s; [reflexivity|].
  destruct t as [|y t']; [reflexivity|].
  change (bounds_from neqb s (x :: y :: t'))
    with (if neqb x y then (s + 1) :: bounds_from neqb (s + 1) (y :: t') else bounds_from neqb (s + 1) (y :: t')).
  replace (length (x :: y :: t') - 1)%nat with (S (length (y :: t') - 1)) by (cbn [length]; lia).
  cbn [zrange filter].
  assert (Hh : bnd (x :: y :: t') (s + 1 - s) = neqb x y).
  { unfold bnd. replace (s + 1 - s - 1) with 0 by lia. replace (s + 1 - s) with (0 + 1) by lia.
    rewrite nthd_cons_succ by lia. reflexivity. }
  rewrite Hh. rewrite IH.
  assert (Ht : filter (fun k => bnd (y :: t') (k - (s + 1))) (zrange (s + 1 + 1) (length (y :: t') - 1))
             = filter (fun k => bnd (x :: y :: t') (k - s)) (zrange (s + 1 + 1) (length (y :: t') - 1))).
  { apply filter_ext_in. intros k Hk. apply in_zrange in Hk. unfold bnd.
    replace (k - s - 1) with ((k - (s + 1) - 1) + 1) by lia. replace (k - s) with ((k - (s + 1)) + 1) by lia.
    rewrite !nthd_cons_succ by lia. reflexivity. }
  rewrite Ht. reflexivity.
Qed.

(* closed form of the reference for a non-empty column *)
Definition inner (xs:list A) : list Z := filter (bnd xs) (zrange 1 (length xs - 1)).

Lemma spans_ref_closed xs : xs <> [] -> spans_ref neqb xs = 0 :: inner xs ++ [len xs].
Proof.
  intros Hne. destruct xs as [|x t]; [congruence|]. unfold spans_ref, inner.
  rewrite bounds_from_filter. f_equal. f_equal. apply filter_ext. intros k. f_equal. lia.
Qed.

Lemma in_inner xs k : In k (inner xs) <-> 1 <= k < len xs /\ bnd xs k = true.
Proof.
  unfold inner. rewrite filter_In, in_zrange. unfold len. split; intros [H1 H2]; (split; [lia|exact H2]).
Qed.

Hypothesis Hneqb : forall x y, neqb x y = false <-> x = y.

Lemma nthZ_last_snoc l x : nthZ (l ++ [x]) (len (l ++ [x]) - 1) = x.
Proof.
  assert (H1 : len [x] = 1) by reflexivity.
  rewrite len_app, H1. unfold nthZ. rewrite nthd_app_r by lia.
  replace (len l + 1 - 1 - len l) with 0 by lia. reflexivity.
Qed.

Theorem spans_ref_is_spans xs : is_spans d xs (spans_ref neqb xs).
Proof.
  destruct xs as [|x0 t0] eqn:E.
  - cbn [spans_ref]. unfold is_spans. split; [apply ssorted_single|].
    split; [unfold len; cbn; lia|]. split; [reflexivity|]. split; [reflexivity|].
    intros r Hr Hr2. unfold len in Hr2; cbn in Hr2; lia.
  - rewrite <- E. assert (Hne : xs <> []) by (rewrite E; discriminate).
    assert (Hn : 1 <= len xs) by (rewrite E, len_cons; pose proof (len_nonneg t0); lia).
    rewrite spans_ref_closed by exact Hne. unfold is_spans.
    split.
    { apply ssorted_cons.
      - apply ssorted_app; [apply ssorted_filter, ssorted_zrange|apply ssorted_single|].
        intros a b Ha Hb. apply in_inner in Ha. destruct Hb as [<-|[]]. lia.
      - intros y Hy. apply in_app_or in Hy. destruct Hy as [Hy|[<-|[]]]; [apply in_inner in Hy|]; lia. }
    split; [rewrite len_cons; pose proof (len_nonneg (inner xs ++ [len xs])); lia|].
    split; [reflexivity|].
    split.
    { change (0 :: inner xs ++ [len xs]) with ((0 :: inner xs) ++ [len xs]). apply nthZ_last_snoc. }
    intros r Hr Hr2.
    assert (Hin : In (r + 1) (0 :: inner xs ++ [len xs]) <-> bnd xs (r + 1) = true).
    { split.
      - intros [H|H]; [lia|]. apply in_app_or in H. destruct H as [H|[H|[]]]; [|lia].
        apply in_inner in H. tauto.
      - intros H. right. apply in_or_app. left. apply in_inner. split; [lia|exact H]. }
    rewrite Hin. unfold bnd. replace (r + 1 - 1) with r by lia.
    rewrite <- Hneqb. destruct (neqb (nthd d xs r) (nthd d xs (r + 1))); split; congruence.
Qed.

End Ref.

(* the predicate determines the list: whatever returns a list satisfying it returns the same list *)
Theorem is_spans_unique {A:Type} (d:A) (xs:list A) (sp1 sp2:list Z) :
  is_spans d xs sp1 -> is_spans d xs sp2 -> sp1 = sp2.
Proof.
  assert (G : forall sp, is_spans d xs sp ->
              forall k, In k sp <-> (k = 0 \/ k = len xs \/ (0 < k < len xs /\ nthd d xs (k - 1) <> nthd d xs k))).
  { intros sp [Hs [Hl [H0 [Hn Hiff]]]] k. split.
    - intros Hk. destruct (In_nthZ sp k Hk) as [i [Hi Hv]].
      pose proof (ssorted_bounds sp i Hs Hi) as Hb. rewrite H0, Hn, Hv in Hb.
      destruct (Z.eq_dec k 0) as [->|]; [tauto|]. destruct (Z.eq_dec k (len xs)) as [->|]; [tauto|].
      right. right. split; [lia|]. intros Heq. specialize (Hiff (k - 1)).
      replace (k - 1 + 1) with k in Hiff by lia. apply Hiff; [lia|lia|exact Heq|exact Hk].
    - intros [->|[->|[Hk Hne]]].
      + rewrite <- H0. apply nthZ_In. lia.
      + rewrite <- Hn. apply nthZ_In. lia.
      + destruct (in_dec Z.eq_dec k sp) as [Hi|Hni]; [exact Hi|]. exfalso. apply Hne.
        specialize (Hiff (k - 1)). replace (k - 1 + 1) with k in Hiff by lia. apply Hiff; [lia|lia|exact Hni]. }
  intros H1 H2. apply ssorted_ext; [apply H1|apply H2|].
  intros k. rewrite (G sp1 H1), (G sp2 H2). tauto.
Qed.

(* instances of the inequality test *)
Lemma Z_neqb_spec x y : Z_neqb x y = false <-> x = y.
Proof. unfold Z_neqb. destruct (Z.eqb_spec x y); cbn; split; congruence. Qed.

Lemma bytes_eqb_spec a b : bytes_eqb a b = true <-> a = b.
Proof.
  revert b. induction a as [|x a IH]; intros [|y b]; cbn [bytes_eqb]; try (split; congruence).
  rewrite andb_true_iff, IH, Z.eqb_eq. split; [intros [-> ->]; reflexivity|intros H; inversion H; auto].
Qed.
Lemma bytes_neqb_spec a b : bytes_neqb a b = false <-> a = b.
Proof. unfold bytes_neqb. rewrite negb_false_iff. apply bytes_eqb_spec. Qed.
