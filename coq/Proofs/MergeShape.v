(* Proofs/MergeShape.v — C02, extension E4 (part 3): two consequences of ordered_dest / merge_spec stated on
   their own: every destination column has the same number of rows, and the rows of the ordered path are in
   non-decreasing key order (with the key column of the destination as the witness). *)
From Coq Require Import ZArith List Lia Bool.
From EV Require Import Res Arr Join JoinSpec JoinBase JoinIface JoinRows MapStream MapStreamSpec MapIndexedDriver
  JoinDriver JoinMain JoinAll Merge MergeSpec MergeBase MergeOrdered MergeMaps MergeTop MergeRows MergeCopy MergeAll.
Import ListNotations.
Open Scope Z_scope.

(* ================================================================ all columns have the same length *)
Lemma len_map {A B} (f:A -> B) l : len (map f l) = len l.
Proof. unfold len. rewrite map_length. reflexivity. Qed.

Lemma col_len_gather c ix : col_len (gather_col c ix) = len ix.
Proof.
  destruct c as [z e d|idx vals]; cbn [gather_col col_len].
  - apply len_map.
  - unfold offsets_of, psums, len. rewrite psums_from_length, !map_length. lia.
Qed.

Lemma col_len_map_column m : col_len (map_column m) = len m.
Proof. unfold map_column. cbn [col_len]. apply len_map. Qed.

(* the specification: every column of merge_spec has one row per row of the relational join *)
Theorem merge_spec_same_length how lkeys rkeys lcols rcols lsuf rsuf f :
  In f (merge_spec how lkeys rkeys lcols rcols lsuf rsuf) ->
  col_len (snd f) = len (merge_pairs how lkeys rkeys).
Proof.
  unfold merge_spec, merge_pairs. cbv zeta. intros Hin. apply in_app_or in Hin.
  destruct Hin as [Hin|Hin]; apply in_map_iff in Hin; destruct Hin as (g & <- & _); cbn [snd];
    rewrite col_len_gather; apply len_map.
Qed.

Lemma merge_pairs_single how lk rk : merge_pairs how [lk] [rk] = join_pairs how (map single lk) (map single rk).
Proof. unfold merge_pairs. rewrite !key_rows_single. reflexivity. Qed.

(* the relational join of C03 (marker form) and of MergeSpec (option form) have the same rows *)
Lemma len_merge_pairs how lu ru lk rk inv : how = 0 \/ how = 1 \/ how = 2 -> len lk <= inv -> len rk <= inv ->
  len (merge_pairs how [lk] [rk])
  = len (join_spec (v_left (sel_variant how lu ru)) inv (sel_a how lk rk) (sel_b how lk rk)).
Proof.
  intros Hhow HiL HiR. rewrite merge_pairs_single. unfold join_pairs.
  destruct Hhow as [E|[E|E]]; subst how; cbn [Z.eqb Pos.eqb sel_variant sel_a sel_b v_left].
  - rewrite (left_pairs_jf inv rk HiR), jf_spec. apply len_map.
  - rewrite (left_pairs_jf inv lk HiL), jf_spec. rewrite !len_map. reflexivity.
  - rewrite (inner_pairs_jf inv rk HiR), jf_spec. apply len_map.
Qed.

(* the streamed path: the join-map fields and every mapped or copied column have that same length *)
Theorem ordered_dest_same_length how lu ru lk rk lcols rcols lsuf rsuf :
  let inv := merge_invalid lu ru (len lk) (len rk) in
  how = 0 \/ how = 1 \/ how = 2 ->
  sorted lk -> sorted rk -> nbd (sel_a how lk rk) (sel_b how lk rk) ->
  (v_writes_l (sel_variant how lu ru) = false -> ssorted (sel_b how lk rk)) ->
  len lk <= inv -> len rk <= inv ->
  frame_wf (len lk) lcols -> frame_wf (len rk) rcols ->
  forall f, In f (ordered_dest how lu ru lk rk lcols rcols lsuf rsuf) ->
  col_len (snd f) = len (merge_pairs how [lk] [rk]).
Proof.
  intros inv Hhow HL HR Hd Hu HiL HiR HwL HwR f Hin.
  rewrite (ordered_dest_is_merge_spec_all how lu ru lk rk lcols rcols lsuf rsuf Hhow HL HR Hd Hu HiL HiR HwL HwR) in Hin.
  fold inv in Hin. apply in_app_or in Hin. destruct Hin as [Hin|Hin].
  2:{ apply (merge_spec_same_length how [lk] [rk] lcols rcols lsuf rsuf). exact Hin. }
  rewrite (len_merge_pairs how lu ru lk rk inv Hhow HiL HiR).
  unfold jmaps, map_fields in Hin.
  set (sp := join_spec (v_left (sel_variant how lu ru)) inv (sel_a how lk rk) (sel_b how lk rk)) in *.
  destruct (how =? 1), (v_writes_l (sel_variant how lu ru)); cbn [fst snd app] in Hin;
    repeat (destruct Hin as [<-|Hin]; [cbn [snd]; rewrite col_len_map_column; apply len_map|]); destruct Hin.
Qed.

(* ================================================================ rows are in non-decreasing key order *)
Lemma lsorted_app l1 l2 : lsorted l1 -> lsorted l2 -> (forall a b, In a l1 -> In b l2 -> a <= b) -> lsorted (l1 ++ l2).
Proof.
  induction l1 as [|x t IH]; intros H1 H2 H; [exact H2|].
  cbn [app lsorted] in *. destruct H1 as (Hx & Ht). split.
  - intros y Hy. apply in_app_or in Hy. destruct Hy as [Hy|Hy]; [apply Hx; exact Hy|apply H; [left; reflexivity|exact Hy]].
  - apply IH; [exact Ht|exact H2|]. intros a b Ha Hb. apply H; [right; exact Ha|exact Hb].
Qed.

Lemma lsorted_const x l : (forall y, In y l -> y = x) -> lsorted l.
Proof.
  induction l as [|a t IH]; intros H; [exact I|]. cbn [lsorted]. split.
  - intros y Hy. rewrite (H a (or_introl eq_refl)), (H y (or_intror Hy)). lia.
  - apply IH. intros y Hy. apply H. right. exact Hy.
Qed.

(* each key of a sorted list replaced by a block of copies of itself *)
Lemma lsorted_flat_map (f:Z -> list Z) L : (forall x y, In y (f x) -> y = x) -> lsorted L -> lsorted (flat_map f L).
Proof.
  intros Hf. induction L as [|x t IH]; intros Hs; [exact I|]. cbn [flat_map lsorted] in *. destruct Hs as (Hx & Ht).
  apply lsorted_app; [apply (lsorted_const x); apply Hf|apply IH; exact Ht|].
  intros a b Ha Hb. apply Hf in Ha. subst a. apply in_flat_map in Hb. destruct Hb as (z & Hz & Hb). apply Hf in Hb. subst b.
  apply Hx. exact Hz.
Qed.

Lemma lsorted_sorted l : lsorted l -> sorted l.
Proof.
  induction l as [|x t IH]; intros Hs i j Hi Hij Hj.
  - rewrite len_nil in Hj. lia.
  - cbn [lsorted] in Hs. destruct Hs as (Hx & Ht). rewrite len_cons in Hj.
    destruct (Z.eq_dec j 0) as [->|Hj0]; [assert (i = 0) by lia; subst; lia|].
    replace j with ((j - 1) + 1) by lia. rewrite (nthZ_cons_succ x t (j - 1)) by lia.
    destruct (Z.eq_dec i 0) as [->|Hi0].
    + rewrite nthZ_cons_0. apply Hx. unfold nthZ, nthd. apply nth_In. unfold len in Hj. lia.
    + replace i with ((i - 1) + 1) by lia. rewrite (nthZ_cons_succ x t (i - 1)) by lia. apply IH; try lia. exact Ht.
Qed.

(* the key of a pair, read on its first side *)
Definition keyA (X:list Z) (p:option Z * option Z) : Z := match fst p with Some i => nthZ X i | None => 0 end.

Definition block_left (R':list (list Z)) (x:Z) : list Z :=
  match matches_rows [x] R' 0 with [] => [x] | ms => map (fun _ => x) ms end.
Definition block_inner (R':list (list Z)) (x:Z) : list Z := map (fun _ => x) (matches_rows [x] R' 0).

Lemma keyA_left_pairs X R' : forall L i0, 0 <= i0 ->
  (forall k, 0 <= k < len L -> nthZ X (i0 + k) = nthZ L k) ->
  map (keyA X) (left_pairs (map single L) R' i0) = flat_map (block_left R') L.
Proof.
  induction L as [|x t IH]; intros i0 Hi0 Hsh; [reflexivity|].
  cbn [map left_pairs flat_map]. rewrite map_app. pose proof (len_nonneg t) as Ht. f_equal.
  - assert (Hx : nthZ X i0 = x).
    { specialize (Hsh 0). rewrite len_cons, Z.add_0_r, nthZ_cons_0 in Hsh. apply Hsh. lia. }
    unfold block_left, single at 1. destruct (matches_rows [x] R' 0) as [|m ms].
    + cbn [map]. unfold keyA. cbn [fst]. rewrite Hx. reflexivity.
    + cbn [map]. unfold keyA at 1. cbn [fst]. rewrite Hx. f_equal.
      rewrite map_map. apply map_ext. intros j. unfold keyA. cbn [fst]. exact Hx.
  - apply IH; [lia|]. intros k Hk. specialize (Hsh (k + 1)). rewrite len_cons, nthZ_cons_succ in Hsh by lia.
    replace (i0 + 1 + k) with (i0 + (k + 1)) by lia. apply Hsh. lia.
Qed.

Lemma keyA_inner_pairs X R' : forall L i0, 0 <= i0 ->
  (forall k, 0 <= k < len L -> nthZ X (i0 + k) = nthZ L k) ->
  map (keyA X) (inner_pairs (map single L) R' i0) = flat_map (block_inner R') L.
Proof.
  induction L as [|x t IH]; intros i0 Hi0 Hsh; [reflexivity|].
  cbn [map inner_pairs flat_map]. rewrite map_app. pose proof (len_nonneg t) as Ht. f_equal.
  - assert (Hx : nthZ X i0 = x).
    { specialize (Hsh 0). rewrite len_cons, Z.add_0_r, nthZ_cons_0 in Hsh. apply Hsh. lia. }
    unfold block_inner, single at 1. rewrite map_map. apply map_ext. intros j. unfold keyA. cbn [fst]. exact Hx.
  - apply IH; [lia|]. intros k Hk. specialize (Hsh (k + 1)). rewrite len_cons, nthZ_cons_succ in Hsh by lia.
    replace (i0 + 1 + k) with (i0 + (k + 1)) by lia. apply Hsh. lia.
Qed.

Lemma block_left_const R' x y : In y (block_left R' x) -> y = x.
Proof.
  unfold block_left. destruct (matches_rows [x] R' 0) as [|m ms].
  - intros [<-|[]]. reflexivity.
  - intros H. apply in_map_iff in H. destruct H as (j & <- & _). reflexivity.
Qed.

Lemma block_inner_const R' x y : In y (block_inner R' x) -> y = x.
Proof. unfold block_inner. intros H. apply in_map_iff in H. destruct H as (j & <- & _). reflexivity. Qed.

Lemma dest_keys_eq how lk rk : how = 0 \/ how = 1 \/ how = 2 ->
  dest_keys how lk rk =
  if how =? 0 then flat_map (block_left (map single rk)) lk
  else if how =? 1 then flat_map (block_left (map single lk)) rk
  else flat_map (block_inner (map single rk)) lk.
Proof.
  intros Hhow. unfold dest_keys. rewrite merge_pairs_single. unfold join_pairs.
  destruct Hhow as [E|[E|E]]; subst how; cbn [Z.eqb Pos.eqb].
  - apply (keyA_left_pairs lk (map single rk) lk 0); [lia|]. intros k _. reflexivity.
  - rewrite map_map. cbn [swap_pair snd]. apply (keyA_left_pairs rk (map single lk) rk 0); [lia|]. intros k _. reflexivity.
  - apply (keyA_inner_pairs lk (map single rk) lk 0); [lia|]. intros k _. reflexivity.
Qed.

(* the rows of the ordered path are in non-decreasing key order *)
Theorem dest_keys_sorted how lk rk : how = 0 \/ how = 1 \/ how = 2 -> sorted lk -> sorted rk ->
  sorted (dest_keys how lk rk).
Proof.
  intros Hhow HL HR. rewrite (dest_keys_eq how lk rk Hhow). apply lsorted_sorted.
  destruct (how =? 0); [|destruct (how =? 1)]; apply lsorted_flat_map;
    try apply block_left_const; try apply block_inner_const; apply sorted_lsorted; assumption.
Qed.

(* ================================================================ what the pairs of the join look like *)
Lemma in_left_pairs R : forall L i0 p, In p (left_pairs (map single L) (map single R) i0) ->
  exists k, 0 <= k < len L /\ fst p = Some (i0 + k) /\
    (snd p = None \/ exists j, snd p = Some j /\ 0 <= j < len R /\ nthZ R j = nthZ L k).
Proof.
  induction L as [|x t IH]; intros i0 p Hp; [destruct Hp|].
  cbn [map left_pairs] in Hp. pose proof (len_nonneg t) as Ht. apply in_app_or in Hp. destruct Hp as [Hp|Hp].
  - exists 0. rewrite len_cons, Z.add_0_r, nthZ_cons_0. split; [lia|].
    unfold single at 1 in Hp. rewrite matches_rows_single in Hp.
    destruct (matches_from x R 0) as [|m ms] eqn:Em.
    + destruct Hp as [<-|[]]. cbn [fst snd]. split; [reflexivity|left; reflexivity].
    + change (In p (map (fun j : Z => (Some i0, Some j)) (m :: ms))) in Hp.
      rewrite <- Em in Hp. apply in_map_iff in Hp. destruct Hp as (j & <- & Hj). cbn [fst snd].
      split; [reflexivity|right]. exists j. split; [reflexivity|].
      apply in_matches_from in Hj. rewrite Z.sub_0_r in Hj. lia.
  - destruct (IH _ _ Hp) as (k & Hk & Hf & Hs). exists (k + 1). rewrite len_cons, nthZ_cons_succ by lia.
    split; [lia|]. split; [rewrite Hf; f_equal; lia|exact Hs].
Qed.

Lemma in_inner_pairs R : forall L i0 p, In p (inner_pairs (map single L) (map single R) i0) ->
  exists k j, 0 <= k < len L /\ fst p = Some (i0 + k) /\ snd p = Some j /\ 0 <= j < len R /\ nthZ R j = nthZ L k.
Proof.
  induction L as [|x t IH]; intros i0 p Hp; [destruct Hp|].
  cbn [map inner_pairs] in Hp. pose proof (len_nonneg t) as Ht. apply in_app_or in Hp. destruct Hp as [Hp|Hp].
  - unfold single at 1 in Hp. rewrite matches_rows_single in Hp.
    apply in_map_iff in Hp. destruct Hp as (j & <- & Hj). exists 0, j. rewrite len_cons, Z.add_0_r, nthZ_cons_0. cbn [fst snd].
    apply in_matches_from in Hj. rewrite Z.sub_0_r in Hj. splits; try reflexivity; lia.
  - destruct (IH _ _ Hp) as (k & j & Hk & Hf & Hs & Hj & He). exists (k + 1), j. rewrite len_cons, nthZ_cons_succ by lia.
    splits; try assumption; try lia. rewrite Hf; f_equal; lia.
Qed.

(* where both sides of a row are present the two keys are equal; row numbers are in range *)
Theorem merge_pairs_keys_agree how lk rk i j : how = 0 \/ how = 1 \/ how = 2 ->
  In (Some i, Some j) (merge_pairs how [lk] [rk]) ->
  0 <= i < len lk /\ 0 <= j < len rk /\ nthZ lk i = nthZ rk j.
Proof.
  intros Hhow Hin. rewrite merge_pairs_single in Hin. unfold join_pairs in Hin.
  destruct Hhow as [E|[E|E]]; subst how; cbn [Z.eqb Pos.eqb] in Hin.
  - apply in_left_pairs in Hin. destruct Hin as (k & Hk & Hf & [Hs|(j' & Hs & Hj & He)]); cbn [fst snd] in *; [discriminate|].
    inversion Hf; inversion Hs; subst. splits; lia.
  - apply in_map_iff in Hin. destruct Hin as (p & Hp & Hin). apply in_left_pairs in Hin.
    destruct p as [a b]. unfold swap_pair in Hp. cbn [fst snd] in *. inversion Hp; subst.
    destruct Hin as (k & Hk & Hf & [Hs|(j' & Hs & Hj & He)]); [discriminate|].
    inversion Hf; inversion Hs; subst. splits; lia.
  - apply in_inner_pairs in Hin. destruct Hin as (k & j' & Hk & Hf & Hs & Hj & He). cbn [fst snd] in *.
    inversion Hf; inversion Hs; subst. splits; lia.
Qed.

(* the side a row is read on is never `none` *)
Lemma merge_pairs_left_side how lk rk p : how = 0 \/ how = 2 -> In p (merge_pairs how [lk] [rk]) ->
  exists i, fst p = Some i /\ 0 <= i < len lk.
Proof.
  intros Hhow Hin. rewrite merge_pairs_single in Hin. unfold join_pairs in Hin.
  destruct Hhow as [E|E]; subst how; cbn [Z.eqb Pos.eqb] in Hin.
  - apply in_left_pairs in Hin. destruct Hin as (k & Hk & Hf & _). exists (0 + k). split; [exact Hf|lia].
  - apply in_inner_pairs in Hin. destruct Hin as (k & j & Hk & Hf & _). exists (0 + k). split; [exact Hf|lia].
Qed.

Lemma merge_pairs_right_side how lk rk p : how = 1 \/ how = 2 -> In p (merge_pairs how [lk] [rk]) ->
  exists j, snd p = Some j /\ 0 <= j < len rk /\
            (how = 2 -> exists i, fst p = Some i /\ nthZ lk i = nthZ rk j).
Proof.
  intros Hhow Hin. rewrite merge_pairs_single in Hin. unfold join_pairs in Hin.
  destruct Hhow as [E|E]; subst how; cbn [Z.eqb Pos.eqb] in Hin.
  - apply in_map_iff in Hin. destruct Hin as (q & <- & Hin). apply in_left_pairs in Hin.
    destruct Hin as (k & Hk & Hf & _). exists (0 + k). unfold swap_pair. cbn [snd]. splits; [exact Hf|lia|lia|].
    intros; discriminate.
  - apply in_inner_pairs in Hin. destruct Hin as (k & j & Hk & Hf & Hs & Hj & He). exists j. splits; try assumption; try lia.
    intros _. exists (0 + k). split; [exact Hf|]. rewrite Z.add_0_l. lia.
Qed.

Lemma nthd_map_single e lk i : 0 <= i < len lk -> nthd e (map single lk) i = single (nthZ lk i).
Proof.
  intros Hi. unfold nthd, nthZ, nthd. rewrite (nth_indep _ e (single 0)) by (rewrite map_length; unfold len in Hi; lia).
  apply (map_nth single).
Qed.

(* the key column, carried along as an ordinary column, comes out as dest_keys: it is the witness of the
   row order in the destination itself *)
Theorem gather_left_key_column how lk rk z e : how = 0 \/ how = 2 ->
  gather_col (CFix z e (map single lk)) (map fst (merge_pairs how [lk] [rk]))
  = CFix z e (map single (dest_keys how lk rk)).
Proof.
  intros Hhow. cbn [gather_col]. f_equal. unfold dest_keys. rewrite !map_map. apply map_ext_in. intros p Hp.
  destruct (merge_pairs_left_side how lk rk p Hhow Hp) as (i & Hf & Hi).
  replace (how =? 1) with false by (destruct Hhow; subst; reflexivity). rewrite Hf. apply nthd_map_single. exact Hi.
Qed.

Theorem gather_right_key_column how lk rk z e : how = 1 \/ how = 2 ->
  gather_col (CFix z e (map single rk)) (map snd (merge_pairs how [lk] [rk]))
  = CFix z e (map single (dest_keys how lk rk)).
Proof.
  intros Hhow. cbn [gather_col]. f_equal. unfold dest_keys. rewrite !map_map. apply map_ext_in. intros p Hp.
  destruct (merge_pairs_right_side how lk rk p Hhow Hp) as (j & Hs & Hj & Hboth).
  destruct Hhow as [E|E]; subst how; cbn [Z.eqb Pos.eqb].
  - rewrite Hs. apply nthd_map_single. exact Hj.
  - destruct (Hboth eq_refl) as (i & Hf & He). rewrite Hs, Hf, He. apply nthd_map_single. exact Hj.
Qed.

(* ================================================================ end to end, no hypothesis about C03 *)
Lemma kind_pre_b_unique k e A B : kind_pre k A B -> v_writes_l (mkvar k e) = false -> ssorted B.
Proof. destruct k, e; cbn; intros (H1 & H2) Hw; try discriminate; exact H2. Qed.

Lemma hints_b_unique how lu ru lk rk : hints_truthful lu ru lk rk ->
  v_writes_l (sel_variant how lu ru) = false -> ssorted (sel_b how lk rk).
Proof.
  intros Hpre Hw. apply (sel_kind_pre how) in Hpre. rewrite (sel_variant_eta how lu ru) in Hw.
  exact (kind_pre_b_unique _ _ _ _ Hpre Hw).
Qed.

Section EndToEnd.
Variables (how:Z) (lu ru:bool) (lk rk:list Z) (lcols rcols:frame) (lsuf rsuf:list Z) (cs mcs vf ccs:Z).
Let inv := merge_invalid lu ru (len lk) (len rk).
Hypothesis Hhow : how = 0 \/ how = 1 \/ how = 2.
Hypothesis Hcs : 1 <= cs.
Hypothesis Hmcs : 1 <= mcs.
Hypothesis Hvf : 0 <= vf.
Hypothesis Hccs : 1 <= ccs.
Hypothesis Hpre : hints_truthful lu ru lk rk.
Hypothesis Hnbd : nbd (sel_a how lk rk) (sel_b how lk rk).
Hypothesis Hck : chunks_ok (v_kind (sel_variant how lu ru)) cs (sel_a how lk rk) (sel_b how lk rk).
Hypothesis Hlframe : frame_ok (len lk) lcols (mcs * vf).
Hypothesis Hrframe : frame_ok (len rk) rcols (mcs * vf).
Hypothesis Hnames : NoDup (frame_names (ordered_dest how lu ru lk rk lcols rcols lsuf rsuf)).
Hypothesis HlenL : len lk <= INVALID_INDEX_64.
Hypothesis HlenR : len rk <= INVALID_INDEX_64.

Lemma dest_is_spec :
  ordered_dest how lu ru lk rk lcols rcols lsuf rsuf
  = map_fields (fst (jmaps how lu ru lk rk inv)) (snd (jmaps how lu ru lk rk inv)) ++
    merge_spec how [lk] [rk] lcols rcols lsuf rsuf.
Proof.
  destruct Hpre as (HsL & HsR & _).
  apply ordered_dest_is_merge_spec_all; try assumption.
  - apply hints_b_unique. exact Hpre.
  - apply merge_invalid_ge. exact HlenL.
  - apply merge_invalid_ge_r. exact HlenR.
  - eapply frame_ok_wf. exact Hlframe.
  - eapply frame_ok_wf. exact Hrframe.
Qed.

(* _ordered_merge = the join maps + merge_spec: the relational join, for every variant *)
Theorem ordered_merge_is_relational_join :
  ordered_merge MFixed how lu ru lk rk lcols rcols lsuf rsuf (len lk) (len rk) cs mcs vf ccs
  = Ok (map_fields (fst (jmaps how lu ru lk rk inv)) (snd (jmaps how lu ru lk rk inv)) ++
        merge_spec how [lk] [rk] lcols rcols lsuf rsuf).
Proof. rewrite <- dest_is_spec. apply ordered_merge_correct_all; assumption. Qed.

(* every field of the destination has one row per row of the relational join *)
Theorem ordered_merge_same_length d :
  ordered_merge MFixed how lu ru lk rk lcols rcols lsuf rsuf (len lk) (len rk) cs mcs vf ccs = Ok d ->
  forall f, In f d -> col_len (snd f) = len (merge_pairs how [lk] [rk]).
Proof.
  rewrite ordered_merge_correct_all by assumption. intros Hd. inversion Hd; subst d. clear Hd.
  destruct Hpre as (HsL & HsR & _).
  apply ordered_dest_same_length; try assumption.
  - apply hints_b_unique. exact Hpre.
  - apply merge_invalid_ge. exact HlenL.
  - apply merge_invalid_ge_r. exact HlenR.
  - eapply frame_ok_wf. exact Hlframe.
  - eapply frame_ok_wf. exact Hrframe.
Qed.

(* a key column carried along on the side that is never `none` comes out sorted *)
Theorem ordered_merge_left_key_sorted d n z e : how = 0 \/ how = 2 ->
  ordered_merge MFixed how lu ru lk rk lcols rcols lsuf rsuf (len lk) (len rk) cs mcs vf ccs = Ok d ->
  In (n, CFix z e (map single lk)) lcols ->
  In (spec_name n (frame_names rcols) lsuf, CFix z e (map single (dest_keys how lk rk))) d /\
  sorted (dest_keys how lk rk).
Proof.
  intros Hh. rewrite ordered_merge_is_relational_join. intros Hd Hin. inversion Hd; subst d. clear Hd.
  destruct Hpre as (HsL & HsR & _). split; [|apply dest_keys_sorted; assumption].
  apply in_or_app. right. unfold merge_spec. cbv zeta. apply in_or_app. left.
  apply in_map_iff. exists (n, CFix z e (map single lk)). split; [|exact Hin]. cbn [fst snd]. f_equal.
  apply (gather_left_key_column how lk rk z e Hh).
Qed.

Theorem ordered_merge_right_key_sorted d n z e : how = 1 \/ how = 2 ->
  ordered_merge MFixed how lu ru lk rk lcols rcols lsuf rsuf (len lk) (len rk) cs mcs vf ccs = Ok d ->
  In (n, CFix z e (map single rk)) rcols ->
  In (spec_name n (frame_names lcols) rsuf, CFix z e (map single (dest_keys how lk rk))) d /\
  sorted (dest_keys how lk rk).
Proof.
  intros Hh. rewrite ordered_merge_is_relational_join. intros Hd Hin. inversion Hd; subst d. clear Hd.
  destruct Hpre as (HsL & HsR & _). split; [|apply dest_keys_sorted; assumption].
  apply in_or_app. right. unfold merge_spec. cbv zeta. apply in_or_app. right.
  apply in_map_iff. exists (n, CFix z e (map single rk)). split; [|exact Hin]. cbn [fst snd]. f_equal.
  apply (gather_right_key_column how lk rk z e Hh).
Qed.
End EndToEnd.

(* ================================================================ the hypotheses are satisfiable (non-BU variants) *)
(* how='left' with a truthful right-unique hint (generator to_left_right_unique: left side trimmed, left columns
   copied), join chunk 3 on 4 keys: two kernel calls, one refill; an unmatched row at the end *)
Example all_hyps_example_ru :
  hints_truthful false true [1;2;2;5] [0;2;3;4] /\
  nbd (sel_a 0 [1;2;2;5] [0;2;3;4]) (sel_b 0 [1;2;2;5] [0;2;3;4]) /\
  chunks_ok (v_kind (sel_variant 0 false true)) 3 (sel_a 0 [1;2;2;5] [0;2;3;4]) (sel_b 0 [1;2;2;5] [0;2;3;4]) /\
  v_writes_l (sel_variant 0 false true) = false /\
  ordered_merge MFixed 0 false true [1;2;2;5] [0;2;3;4]
     [([107], CFix [0] [0] [[1];[2];[2];[5]]); ([120;97], CIdx [0;1;1;3;4] [97;99;99;100])]
     [([105;112], CFix [0] [0] [[10];[20];[30];[40]])] [95;108] [95;114] 4 4 3 2 2 2
  = Ok [ (N_right_map, map_column [INVALID_INDEX_32; 1; 1; INVALID_INDEX_32]);
         ([107], CFix [0] [0] [[1];[2];[2];[5]]); ([120;97], CIdx [0;1;1;3;4] [97;99;99;100]);
         ([105;112], CFix [0] [0] [[0];[20];[20];[0]]) ] /\
  dest_keys 0 [1;2;2;5] [0;2;3;4] = [1;2;2;5].
Proof.
  assert (HR : ssorted [0;2;3;4]) by (apply ssortedb_ssorted; reflexivity).
  assert (HL : sorted [1;2;2;5]) by (apply sortedb_sorted; reflexivity).
  split; [|split; [|split; [|split; [|split]]]].
  - unfold hints_truthful. split; [exact HL|]. split; [apply ssorted_sorted; exact HR|]. split; [discriminate|intros _; exact HR].
  - apply nbd_right_unique. exact HR.
  - split; [|discriminate]. intros _ a Ha Hlt. assert (a = 0) as -> by (cbn in Hlt; lia).
    exists 1. split; [lia|cbv; discriminate].
  - reflexivity.
  - vm_compute. reflexivity.
  - vm_compute. reflexivity.
Qed.

(* how='inner' without unique hints (general generator, both sides trimmed), a run on the left, none repeated on both *)
Example all_hyps_example_gen :
  hints_truthful false false [1;1;2;3] [1;3;4] /\
  nbd (sel_a 2 [1;1;2;3] [1;3;4]) (sel_b 2 [1;1;2;3] [1;3;4]) /\
  chunks_ok (v_kind (sel_variant 2 false false)) 3 (sel_a 2 [1;1;2;3] [1;3;4]) (sel_b 2 [1;1;2;3] [1;3;4]) /\
  ordered_merge MFixed 2 false false [1;1;2;3] [1;3;4]
     [([107], CFix [0] [0] [[1];[1];[2];[3]])] [([107], CFix [0] [0] [[1];[3];[4]])] [95;108] [95;114] 4 3 3 2 2 2
  = Ok [ (N_left_map, map_column [0;1;3]); (N_right_map, map_column [0;0;1]);
         ([107;95;108], CFix [0] [0] [[1];[1];[3]]); ([107;95;114], CFix [0] [0] [[1];[1];[3]]) ] /\
  dest_keys 2 [1;1;2;3] [1;3;4] = [1;1;3].
Proof.
  assert (HR : ssorted [1;3;4]) by (apply ssortedb_ssorted; reflexivity).
  assert (HL : sorted [1;1;2;3]) by (apply sortedb_sorted; reflexivity).
  split; [|split; [|split; [|split]]].
  - unfold hints_truthful. split; [exact HL|]. split; [apply ssorted_sorted; exact HR|]. split; discriminate.
  - apply nbd_right_unique. exact HR.
  - split; intros _ a Ha Hlt.
    + assert (a = 0) as -> by (cbn in Hlt; lia). exists 2. split; [lia|cbv; discriminate].
    + cbn in Hlt. lia.
  - vm_compute. reflexivity.
  - vm_compute. reflexivity.
Qed.
