(* Proofs/MergeShape.v — C02, extension E4 (part 3): two consequences of ordered_dest / merge_spec stated on
   their own: every destination column has the same number of rows, and the rows of the ordered path are in
   non-decreasing key order (with the key column of the destination as the witness). *)
From Coq Require Import ZArith List Lia Bool.
From EV Require Import Res Arr Join JoinSpec JoinBase JoinIface JoinRows MapStream MapStreamSpec MapIndexedDriver
  Merge MergeSpec MergeBase MergeOrdered MergeMaps MergeTop MergeRows MergeCopy.
Import ListNotations.
Open Scope Z_scope.

(* ================================================================ all columns have the same length *)
Lemma len_map {A B} (f:A -> B) l : len (map f l) = len l.
Proof. unfold len. rewrite map_length. reflexivity. Qed.

Lemma col_len_gather c ix : col_len (gather_col c ix) = len ix.
Proof.
  destruct c as [z e d|idx vals]; cbn [gather_col col_len].
  - apply len_map.
  - unfold offsets_of, psums, len. rewrite psums_from_length, !map_length. lia.
Qed.

Lemma col_len_map_column m : col_len (map_column m) = len m.
Proof. unfold map_column. cbn [col_len]. apply len_map. Qed.

(* the specification: every column of merge_spec has one row per row of the relational join *)
Theorem merge_spec_same_length how lkeys rkeys lcols rcols lsuf rsuf f :
  In f (merge_spec how lkeys rkeys lcols rcols lsuf rsuf) ->
  col_len (snd f) = len (merge_pairs how lkeys rkeys).
Proof.
  unfold merge_spec, merge_pairs. cbv zeta. intros Hin. apply in_app_or in Hin.
  destruct Hin as [Hin|Hin]; apply in_map_iff in Hin; destruct Hin as (g & <- & _); cbn [snd];
    rewrite col_len_gather; apply len_map.
Qed.

Lemma merge_pairs_single how lk rk : merge_pairs how [lk] [rk] = join_pairs how (map single lk) (map single rk).
Proof. unfold merge_pairs. rewrite !key_rows_single. reflexivity. Qed.

(* the relational join of C03 (marker form) and of MergeSpec (option form) have the same rows *)
Lemma len_merge_pairs how lu ru lk rk inv : how = 0 \/ how = 1 \/ how = 2 -> len lk <= inv -> len rk <= inv ->
  len (merge_pairs how [lk] [rk])
  = len (join_spec (v_left (sel_variant how lu ru)) inv (sel_a how lk rk) (sel_b how lk rk)).
Proof.
  intros Hhow HiL HiR. rewrite merge_pairs_single. unfold join_pairs.
  destruct Hhow as [E|[E|E]]; subst how; cbn [Z.eqb Pos.eqb sel_variant sel_a sel_b v_left].
  - rewrite (left_pairs_jf inv rk HiR), jf_spec. apply len_map.
  - rewrite (left_pairs_jf inv lk HiL), jf_spec. rewrite !len_map. reflexivity.
  - rewrite (inner_pairs_jf inv rk HiR), jf_spec. apply len_map.
Qed.

(* the streamed path: the join-map fields and every mapped or copied column have that same length *)
Theorem ordered_dest_same_length how lu ru lk rk lcols rcols lsuf rsuf :
  let inv := merge_invalid lu ru (len lk) (len rk) in
  how = 0 \/ how = 1 \/ how = 2 ->
  sorted lk -> sorted rk -> nbd (sel_a how lk rk) (sel_b how lk rk) ->
  (v_writes_l (sel_variant how lu ru) = false -> ssorted (sel_b how lk rk)) ->
  len lk <= inv -> len rk <= inv ->
  frame_wf (len lk) lcols -> frame_wf (len rk) rcols ->
  forall f, In f (ordered_dest how lu ru lk rk lcols rcols lsuf rsuf) ->
  col_len (snd f) = len (merge_pairs how [lk] [rk]).
Proof.
  intros inv Hhow HL HR Hd Hu HiL HiR HwL HwR f Hin.
  rewrite (ordered_dest_is_merge_spec_all how lu ru lk rk lcols rcols lsuf rsuf Hhow HL HR Hd Hu HiL HiR HwL HwR) in Hin.
  fold inv in Hin. apply in_app_or in Hin. destruct Hin as [Hin|Hin].
  2:{ apply (merge_spec_same_length how [lk] [rk] lcols rcols lsuf rsuf). exact Hin. }
  rewrite (len_merge_pairs how lu ru lk rk inv Hhow HiL HiR).
  unfold jmaps, map_fields in Hin.
  set (sp := join_spec (v_left (sel_variant how lu ru)) inv (sel_a how lk rk) (sel_b how lk rk)) in *.
  destruct (how =? 1), (v_writes_l (sel_variant how lu ru)); cbn [fst snd app] in Hin;
    repeat (destruct Hin as [<-|Hin]; [cbn [snd]; rewrite col_len_map_column; apply len_map|]); destruct Hin.
Qed.

(* ================================================================ rows are in non-decreasing key order *)
Lemma lsorted_app l1 l2 : lsorted l1 -> lsorted l2 -> (forall a b, In a l1 -> In b l2 -> a <= b) -> lsorted (l1 ++ l2).
Proof.
  induction l1 as [|x t IH]; intros H1 H2 H; [exact H2|].
  cbn [app lsorted] in *. destruct H1 as (Hx & Ht). split.
  - intros y Hy. apply in_app_or in Hy. destruct Hy as [Hy|Hy]; [apply Hx; exact Hy|apply H; [left; reflexivity|exact Hy]].
  - apply IH; [exact Ht|exact H2|]. intros a b Ha Hb. apply H; [right; exact Ha|exact Hb].
Qed.

Lemma lsorted_const x l : (forall y, In y l -> y = x) -> lsorted l.
Proof.
  induction l as [|a t IH]; intros H; [exact I|]. cbn [lsorted]. split.
  - intros y Hy. rewrite (H a (or_introl eq_refl)), (H y (or_intror Hy)). lia.
  - apply IH. intros y Hy. apply H. right. exact Hy.
Qed.

(* each key of a sorted list replaced by a block of copies of itself *)
Lemma lsorted_flat_map (f:Z -> list Z) L : (forall x y, In y (f x) -> y = x) -> lsorted L -> lsorted (flat_map f L).
Proof.
  intros Hf. induction L as [|x t IH]; intros Hs; [exact I|]. cbn [flat_map lsorted] in *. destruct Hs as (Hx & Ht).
  apply lsorted_app; [apply (lsorted_const x); apply Hf|apply IH; exact Ht|].
  intros a b Ha Hb. apply Hf in Ha. subst a. apply in_flat_map in Hb. destruct Hb as (z & Hz & Hb). apply Hf in Hb. subst b.
  apply Hx. exact Hz.
Qed.

Lemma lsorted_sorted l : lsorted l -> sorted l.
Proof.
  induction l as [|x t IH]; intros Hs i j Hi Hij Hj.
  - rewrite len_nil in Hj. lia.
  - cbn [lsorted] in Hs. destruct Hs as (Hx & Ht). rewrite len_cons in Hj.
    destruct (Z.eq_dec j 0) as [->|Hj0]; [assert (i = 0) by lia; subst; lia|].
    replace j with ((j - 1) + 1) by lia. rewrite (nthZ_cons_succ x t (j - 1)) by lia.
    destruct (Z.eq_dec i 0) as [->|Hi0].
    + rewrite nthZ_cons_0. apply Hx. unfold nthZ, nthd. apply nth_In. unfold len in Hj. lia.
    + replace i with ((i - 1) + 1) by lia. rewrite (nthZ_cons_succ x t (i - 1)) by lia. apply IH; try lia. exact Ht.
Qed.

(* the key of a pair, read on its first side *)
Definition keyA (X:list Z) (p:option Z * option Z) : Z := match fst p with Some i => nthZ X i | None => 0 end.

Definition block_left (R':list (list Z)) (x:Z) : list Z :=
  match matches_rows [x] R' 0 with [] => [x] | ms => map (fun _ => x) ms end.
Definition block_inner (R':list (list Z)) (x:Z) : list Z := map (fun _ => x) (matches_rows [x] R' 0).

Lemma keyA_left_pairs X R' : forall L i0, 0 <= i0 ->
  (forall k, 0 <= k < len L -> nthZ X (i0 + k) = nthZ L k) ->
  map (keyA X) (left_pairs (map single L) R' i0) = flat_map (block_left R') L.
Proof.
  induction L as [|x t IH]; intros i0 Hi0 Hsh; [reflexivity|].
  cbn [map left_pairs flat_map]. rewrite map_app. pose proof (len_nonneg t) as Ht. f_equal.
  - assert (Hx : nthZ X i0 = x).
    { specialize (Hsh 0). rewrite len_cons, Z.add_0_r, nthZ_cons_0 in Hsh. apply Hsh. lia. }
    unfold block_left, single at 1. destruct (matches_rows [x] R' 0) as [|m ms].
    + cbn [map]. unfold keyA. cbn [fst]. rewrite Hx. reflexivity.
    + cbn [map]. unfold keyA at 1. cbn [fst]. rewrite Hx. f_equal.
      rewrite map_map. apply map_ext. intros j. unfold keyA. cbn [fst]. exact Hx.
  - apply IH; [lia|]. intros k Hk. specialize (Hsh (k + 1)). rewrite len_cons, nthZ_cons_succ in Hsh by lia.
    replace (i0 + 1 + k) with (i0 + (k + 1)) by lia. apply Hsh. lia.
Qed.

Lemma keyA_inner_pairs X R' : forall L i0, 0 <= i0 ->
  (forall k, 0 <= k < len L -> nthZ X (i0 + k) = nthZ L k) ->
  map (keyA X) (inner_pairs (map single L) R' i0) = flat_map (block_inner R') L.
Proof.
  induction L as [|x t IH]; intros i0 Hi0 Hsh; [reflexivity|].
  cbn [map inner_pairs flat_map]. rewrite map_app. pose proof (len_nonneg t) as Ht. f_equal.
  - assert (Hx : nthZ X i0 = x).
    { specialize (Hsh 0). rewrite len_cons, Z.add_0_r, nthZ_cons_0 in Hsh. apply Hsh. lia. }
    unfold block_inner, single at 1. rewrite map_map. apply map_ext. intros j. unfold keyA. cbn [fst]. exact Hx.
  - apply IH; [lia|]. intros k Hk. specialize (Hsh (k + 1)). rewrite len_cons, nthZ_cons_succ in Hsh by lia.
    replace (i0 + 1 + k) with (i0 + (k + 1)) by lia. apply Hsh. lia.
Qed.

Lemma block_left_const R' x y : In y (block_left R' x) -> y = x.
Proof.
  unfold block_left. destruct (matches_rows [x] R' 0) as [|m ms].
  - intros [<-|[]]. reflexivity.
  - intros H. apply in_map_iff in H. destruct H as (j & <- & _). reflexivity.
Qed.

Lemma block_inner_const R' x y : In y (block_inner R' x) -> y = x.
Proof. unfold block_inner. intros H. apply in_map_iff in H. destruct H as (j & <- & _). reflexivity. Qed.

Lemma dest_keys_eq how lk rk : how = 0 \/ how = 1 \/ how = 2 ->
  dest_keys how lk rk =
  if how =? 0 then flat_map (block_left (map single rk)) lk
  else if how =? 1 then flat_map (block_left (map single lk)) rk
  else flat_map (block_inner (map single rk)) lk.
Proof.
  intros Hhow. unfold dest_keys. rewrite merge_pairs_single. unfold join_pairs.
  destruct Hhow as [E|[E|E]]; subst how; cbn [Z.eqb Pos.eqb].
  - apply (keyA_left_pairs lk (map single rk) lk 0); [lia|]. intros k _. reflexivity.
  - rewrite map_map. cbn [swap_pair snd]. apply (keyA_left_pairs rk (map single lk) rk 0); [lia|]. intros k _. reflexivity.
  - apply (keyA_inner_pairs lk (map single rk) lk 0); [lia|]. intros k _. reflexivity.
Qed.

(* the rows of the ordered path are in non-decreasing key order *)
Theorem dest_keys_sorted how lk rk : how = 0 \/ how = 1 \/ how = 2 -> sorted lk -> sorted rk ->
  sorted (dest_keys how lk rk).
Proof.
  intros Hhow HL HR. rewrite (dest_keys_eq how lk rk Hhow). apply lsorted_sorted.
  destruct (how =? 0); [|destruct (how =? 1)]; apply lsorted_flat_map;
    try apply block_left_const; try apply block_inner_const; apply sorted_lsorted; assumption.
Qed.
