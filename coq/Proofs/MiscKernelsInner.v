(* Proofs/MiscKernelsInner.v — ordered_inner_map_left_unique_partial = its list-level walk *)
From Coq Require Import ZArith List Lia Bool.
From EV Require Import Res Arr MiscKernels MiscKernelsSpec MiscKernelsBase.
Import ListNotations.
Open Scope Z_scope.

Lemma ilu_walk_nil_r l cap i j : ilu_walk l cap i j [] = ([], (i, j)).
Proof. destruct l; reflexivity. Qed.

Lemma ilu_walk_cons x l' y r' cap i j :
  ilu_walk (x :: l') cap i j (y :: r') =
  if cap <=? 0 then ([], (i, j))
  else if x <? y then ilu_walk l' cap (i + 1) j (y :: r')
  else if y <? x then ilu_walk (x :: l') cap i (j + 1) r'
  else let rest := if run_ends y r' then ilu_walk l' (cap - 1) (i + 1) (j + 1) r'
                   else ilu_walk (x :: l') (cap - 1) i (j + 1) r' in
       ((i, j) :: fst rest, snd rest).
Proof. reflexivity. Qed.

Definition ilu_result (d_i d_j m:Z) (ldone lrest rdone rrest:list Z) (w:list (Z * Z) * (Z * Z)) :=
  (fst (snd w), snd (snd w), m + len (fst w),
   ldone ++ overwrite lrest (map (fun p => fst p + d_i) (fst w)),
   rdone ++ overwrite rrest (map (fun p => snd p + d_j) (fst w))).

Lemma overwrite_nil buf : overwrite buf [] = buf.
Proof. reflexivity. Qed.

Lemma overwrite_cons a buf v new : overwrite (a :: buf) (v :: new) = v :: overwrite buf new.
Proof. reflexivity. Qed.

Lemma ilu_loop_spec d_i d_j : forall n l r lpre rpre ldone lrest rdone rrest i j m fuel,
  (length l + length r <= n)%nat -> (n < fuel)%nat ->
  len lpre = i -> len rpre = j -> len ldone = m -> len rdone = m ->
  (length lrest <= length rrest)%nat ->
  ilu_loop fuel d_i d_j (lpre ++ l) (rpre ++ r) (ldone ++ lrest) (rdone ++ rrest) i j m =
  Ok (ilu_result d_i d_j m ldone lrest rdone rrest (ilu_walk l (len lrest) i j r)).
Proof.
  induction n as [|n IH]; intros l r lpre rpre ldone lrest rdone rrest i j m fuel Hn Hf Hi Hj Hl Hr Hc;
    (destruct fuel as [|fuel]; [lia|]); cbn [ilu_loop].
  - destruct l; [|cbn in Hn; lia]. rewrite (ltb_len_nil lpre i Hi). cbn [andb].
    unfold ilu_result. cbn [ilu_walk fst snd map]. rewrite !overwrite_nil, len_nil. do 4 f_equal. lia.
  - destruct l as [|x l'].
    { rewrite (ltb_len_nil lpre i Hi). cbn [andb].
      unfold ilu_result. cbn [ilu_walk fst snd map]. rewrite !overwrite_nil, len_nil. do 4 f_equal. lia. }
    rewrite (ltb_len_cons lpre x l' i Hi).
    destruct r as [|y r'].
    { rewrite (ltb_len_nil rpre j Hj). cbn [andb]. rewrite ilu_walk_nil_r.
      unfold ilu_result. cbn [fst snd map]. rewrite !overwrite_nil, len_nil. do 4 f_equal. lia. }
    rewrite (ltb_len_cons rpre y r' j Hj). cbn [andb]. rewrite ilu_walk_cons.
    destruct lrest as [|a lrest'].
    { rewrite (ltb_len_nil ldone m Hl). rewrite len_nil. cbn [Z.leb Z.compare].
      unfold ilu_result. cbn [fst snd map]. rewrite !overwrite_nil, len_nil. do 4 f_equal. lia. }
    rewrite (ltb_len_cons ldone a lrest' m Hl).
    replace (len (a :: lrest') <=? 0) with false
      by (symmetry; apply Z.leb_gt; rewrite len_cons; pose proof (len_nonneg lrest'); lia).
    rewrite (get_mid 130 lpre x l' i Hi), (get_mid 131 rpre y r' j Hj). cbn [bind].
    cbn [length] in Hn.
    destruct (x <? y).
    { rewrite <- (app_snoc lpre x l').
      apply (IH l' (y :: r') (lpre ++ [x]) rpre ldone (a :: lrest') rdone rrest (i + 1) j m fuel);
        try assumption; try (cbn [length]; lia). rewrite len_snoc; lia. }
    destruct (y <? x).
    { rewrite <- (app_snoc rpre y r').
      apply (IH (x :: l') r' lpre (rpre ++ [y]) ldone (a :: lrest') rdone rrest i (j + 1) m fuel);
        try assumption; try (cbn [length]; lia). rewrite len_snoc; lia. }
    destruct rrest as [|b rrest']; [cbn in Hc; lia|].
    rewrite (set_mid 132 ldone a lrest' m _ Hl). cbn [bind].
    rewrite (set_mid 133 rdone b rrest' m _ Hr). cbn [bind].
    assert (Hadv : (if len (rpre ++ y :: r') <=? j + 1 then Ok true
                    else do b1 <- get 134 (rpre ++ y :: r') (j + 1);
                         do b0 <- get 135 (rpre ++ y :: r') j; Ok (negb (b1 =? b0))) = Ok (run_ends y r')).
    { destruct r' as [|y' r''].
      - rewrite len_mid, len_nil. replace (len rpre + 0 + 1 <=? j + 1) with true by (symmetry; apply Z.leb_le; lia).
        reflexivity.
      - rewrite len_mid, len_cons.
        replace (len rpre + (len r'' + 1) + 1 <=? j + 1) with false
          by (symmetry; apply Z.leb_gt; pose proof (len_nonneg r''); lia).
        rewrite (get_mid 135 rpre y (y' :: r'') j Hj).
        rewrite <- (app_snoc rpre y (y' :: r'')).
        rewrite (get_mid 134 (rpre ++ [y]) y' r'' (j + 1)) by (rewrite len_snoc; lia). reflexivity. }
    rewrite Hadv. cbn [bind]. cbv zeta.
    replace (len (a :: lrest') - 1) with (len lrest') by (rewrite len_cons; lia).
    rewrite <- (app_snoc ldone (i + d_i) lrest'), <- (app_snoc rdone (j + d_j) rrest').
    rewrite <- (app_snoc rpre y r').
    cbn [length] in Hc.
    destruct (run_ends y r').
    + rewrite <- (app_snoc lpre x l').
      rewrite (IH l' r' (lpre ++ [x]) (rpre ++ [y]) (ldone ++ [i + d_i]) lrest' (rdone ++ [j + d_j]) rrest'
                 (i + 1) (j + 1) (m + 1) fuel); try (rewrite len_snoc; lia); try lia.
      unfold ilu_result. cbn [fst snd map]. rewrite !overwrite_cons, len_cons, <- !app_assoc.
      cbn [app]. do 4 f_equal. lia.
    + rewrite (IH (x :: l') r' lpre (rpre ++ [y]) (ldone ++ [i + d_i]) lrest' (rdone ++ [j + d_j]) rrest'
                 i (j + 1) (m + 1) fuel); try (rewrite len_snoc; lia); try assumption; try (cbn [length]; lia).
      unfold ilu_result. cbn [fst snd map]. rewrite !overwrite_cons, len_cons, <- !app_assoc.
      cbn [app]. do 4 f_equal. lia.
Qed.

Theorem ordered_inner_map_left_unique_partial_correct d_i d_j left right lti rti fuel :
  ilu_pre_b lti rti = true -> (ilu_fuel left right <= fuel)%nat ->
  ordered_inner_map_left_unique_partial fuel d_i d_j left right lti rti =
  Ok (ilu_partial_spec d_i d_j left right lti rti).
Proof.
  intros Hp Hf. unfold ilu_pre_b in Hp. apply Z.leb_le in Hp. unfold ilu_fuel in Hf.
  unfold ordered_inner_map_left_unique_partial.
  pose proof (ilu_loop_spec d_i d_j (length left + length right) left right [] [] [] lti [] rti 0 0 0 fuel
                ltac:(lia) ltac:(lia) eq_refl eq_refl eq_refl eq_refl ltac:(unfold len in Hp; lia)) as H.
  cbn [app] in H. rewrite H. unfold ilu_result, ilu_partial_spec. cbn [app]. do 4 f_equal. 
Qed.

(* the result buffers must be equally long: the loop guard only looks at left_to_inner *)
Theorem ordered_inner_map_left_unique_partial_short_right_buffer_oob :
  exists left right lti rti, ordered_inner_map_left_unique_partial (ilu_fuel left right) 0 0 left right lti rti = OOB 133.
Proof. exists [1], [1], [0], []. reflexivity. Qed.
