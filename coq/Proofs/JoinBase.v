(* Proofs/JoinBase.v — lemmas shared by the C03 proofs: the chunk helpers establish the
   Trim property; the join specification on sorted keys is an interval of row indices. *)
From Coq Require Import ZArith List Lia Bool ZifyBool.
From EV Require Import Res Arr Join JoinSpec.
Import ListNotations.
Open Scope Z_scope.

(* ------------------------------------------------------------------ small list facts *)
Definition seqZ (a n:Z) : list Z := map Z.of_nat (seq (Z.to_nat a) (Z.to_nat n)).

Lemma seqZ_nil a n : n <= 0 -> seqZ a n = [].
Proof. intros H. unfold seqZ. replace (Z.to_nat n) with O by lia. reflexivity. Qed.

Lemma seqZ_cons a n : 0 <= a -> 0 < n -> seqZ a n = a :: seqZ (a + 1) (n - 1).
Proof.
  intros Ha Hn. unfold seqZ.
  replace (Z.to_nat n) with (S (Z.to_nat (n - 1))) by lia. cbn [seq map].
  rewrite Z2Nat.id by lia. f_equal. replace (Z.to_nat (a + 1)) with (S (Z.to_nat a)) by lia. reflexivity.
Qed.

Lemma seqZ_snoc a n : 0 <= a -> 0 <= n -> seqZ a (n + 1) = seqZ a n ++ [a + n].
Proof.
  intros Ha Hn. unfold seqZ. replace (Z.to_nat (n + 1)) with (Z.to_nat n + 1)%nat by lia.
  rewrite seq_app, map_app. cbn [seq map]. f_equal. f_equal. lia.
Qed.

Lemma seqZ_length a n : 0 <= n -> len (seqZ a n) = n.
Proof. intros H. unfold len, seqZ. rewrite map_length, seq_length. lia. Qed.

Lemma nthZ_cons_succ x l i : 0 <= i -> nthZ (x :: l) (i + 1) = nthZ l i.
Proof. intros; unfold nthZ; apply nthd_cons_succ; assumption. Qed.

Lemma nthZ_cons_0 x l : nthZ (x :: l) 0 = x.
Proof. reflexivity. Qed.

Lemma nthZ_slice l a b i : 0 <= a -> 0 <= i < b - a -> nthZ (slice l a b) i = nthZ l (a + i).
Proof. intros; unfold nthZ; apply nthd_slice; assumption. Qed.

(* ------------------------------------------------------------------ matches on a sorted list *)
Lemma matches_from_none key R j0 :
  (forall j, 0 <= j < len R -> nthZ R j <> key) -> matches_from key R j0 = [].
Proof.
  revert j0. induction R as [|x t IH]; intros j0 H; cbn [matches_from]; [reflexivity|].
  destruct (x =? key) eqn:E.
  - exfalso. apply (H 0); [rewrite len_cons; pose proof (len_nonneg t); lia|]. rewrite nthZ_cons_0. lia.
  - apply IH. intros j Hj. specialize (H (j + 1)). rewrite len_cons, nthZ_cons_succ in H by lia. apply H. lia.
Qed.

(* the matches of key in R are exactly the interval [a, b) *)
Lemma matches_from_interval key R : forall j0 a b,
  0 <= j0 -> 0 <= a <= b -> b <= len R ->
  (forall j, 0 <= j < a -> nthZ R j <> key) ->
  (forall j, a <= j < b -> nthZ R j = key) ->
  (forall j, b <= j < len R -> nthZ R j <> key) ->
  matches_from key R j0 = seqZ (j0 + a) (b - a).
Proof.
  induction R as [|x t IH]; intros j0 a b Hj0 Hab Hb Hlt Heq Hgt.
  - rewrite len_nil in Hb. cbn. rewrite seqZ_nil by lia. reflexivity.
  - rewrite len_cons in Hb. pose proof (len_nonneg t) as Hlt0. cbn [matches_from]. destruct (x =? key) eqn:E.
    + assert (a = 0).
      { destruct (Z.eq_dec a 0); [assumption|]. exfalso. apply (Hlt 0); [lia|]. rewrite nthZ_cons_0. lia. }
      subst a.
      assert (0 < b).
      { destruct (Z.eq_dec b 0); [|lia]. subst b. exfalso.
        apply (Hgt 0); [rewrite len_cons; lia|]. rewrite nthZ_cons_0. lia. }
      rewrite (IH (j0 + 1) 0 (b - 1)); try lia.
      * replace (j0 + 1 + 0) with (j0 + 1) by lia. replace (b - 1 - 0) with (b - 1) by lia.
        replace (j0 + 0) with j0 by lia. replace (b - 0) with b by lia.
        rewrite (seqZ_cons j0 b) by lia. reflexivity.
      * intros j Hj. rewrite <- (nthZ_cons_succ x t j) by lia. apply Heq. lia.
      * intros j Hj. rewrite <- (nthZ_cons_succ x t j) by lia. apply Hgt. rewrite len_cons. lia.
    + destruct (Z.eq_dec a 0) as [Ha|Ha].
      * (* then b = 0 too, since R[0] <> key *)
        subst a. assert (b = 0).
        { destruct (Z.eq_dec b 0); [assumption|]. exfalso. specialize (Heq 0). rewrite nthZ_cons_0 in Heq. lia. }
        subst b. rewrite seqZ_nil by lia. apply matches_from_none.
        intros j Hj. rewrite <- (nthZ_cons_succ x t j) by lia. apply Hgt. rewrite len_cons. lia.
      * rewrite (IH (j0 + 1) (a - 1) (b - 1)); try lia.
        -- f_equal; lia.
        -- intros j Hj. rewrite <- (nthZ_cons_succ x t j) by lia. apply Hlt. lia.
        -- intros j Hj. rewrite <- (nthZ_cons_succ x t j) by lia. apply Heq. lia.
        -- intros j Hj. rewrite <- (nthZ_cons_succ x t j) by lia. apply Hgt. rewrite len_cons. lia.
Qed.

(* ------------------------------------------------------------------ count_back *)
Lemma count_back_aux_spec (a:list Z) : forall fuel v,
  (Z.of_nat fuel > Z.max 0 v) -> v < len a ->
  exists w, count_back_aux fuel a v = Ok w /\ 0 <= w /\ (w <= v \/ (v < 0 /\ w = 0)) /\
            (0 < w -> nthZ a (w - 1) <> nthZ a w) /\
            (w = 0 -> forall k, 0 < k <= v -> nthZ a (k - 1) = nthZ a k).
Proof.
  induction fuel as [|fuel IH]; intros v Hf Hv.
  - lia.
  - cbn [count_back_aux]. destruct (0 <? v) eqn:E.
    + rewrite (getZ_ok 10 a (v - 1)) by lia. rewrite (getZ_ok 11 a v) by lia. cbn [bind].
      destruct (nthZ a (v - 1) =? nthZ a v) eqn:E2; cbn [negb].
      * destruct (IH (v - 1)) as (w & Hw & H0 & H1 & H2 & H3); try lia.
        exists w. split; [exact Hw|]. repeat split; try lia; try assumption.
        intros Hw0 k Hk. destruct (Z.eq_dec k v) as [->|]; [lia|]. apply H3; lia.
      * exists v. repeat split; try lia; intros; lia.
    + exists 0. repeat split; try lia; intros; lia.
Qed.

Lemma count_back_spec (a:list Z) :
  exists w, count_back a = Ok w /\ 0 <= w /\ (w < len a \/ w = 0) /\
            (0 < w -> nthZ a (w - 1) <> nthZ a w) /\
            (w = 0 -> forall k, 0 < k < len a -> nthZ a (k - 1) = nthZ a k).
Proof.
  unfold count_back.
  destruct (count_back_aux_spec a (S (length a)) (len a - 1)) as (w & Hw & H0 & H1 & H2 & H3);
    [unfold len; lia|lia|].
  exists w. split; [exact Hw|]. repeat split; try lia; try assumption.
  intros Hw0 k Hk. apply H3; lia.
Qed.

(* ------------------------------------------------------------------ chunks *)
Definition Trim (X:list Z) (a b:Z) : Prop :=
  b = len X \/ (a < b /\ nthZ X (b - 1) <> nthZ X b).

Definition chunk_ok (trim:bool) (X:list Z) (cs a b:Z) (data:list Z) : Prop :=
  0 <= a <= b /\ b <= len X /\ b <= a + cs /\
  data = slice X a (Z.min (a + cs) (len X)) /\
  (a < len X -> a < b) /\
  (if trim then Trim X a b else b = Z.min (a + cs) (len X)).

Lemma next_chunk_spec cur n cs : next_chunk cur n cs = (cur, Z.min (cur + cs) n) \/
                                 (n < cur /\ next_chunk cur n cs = (cur, n)).
Proof.
  unfold next_chunk. destruct (cur + cs <? n) eqn:E.
  - left. f_equal. lia.
  - destruct (Z_lt_le_dec n cur); [right; split; [lia|reflexivity]|left; f_equal; lia].
Qed.

Lemma next_chunk_eq cur n cs : 0 <= cs -> cur <= n -> next_chunk cur n cs = (cur, Z.min (cur + cs) n).
Proof. intros H1 H2. unfold next_chunk. destruct (cur + cs <? n) eqn:E; f_equal; lia. Qed.

Lemma fetch_chunk_spec trim start cs X :
  1 <= cs -> 0 <= start <= len X ->
  fetch_chunk trim start cs X = Raise E_ValueError \/
  exists b data, fetch_chunk trim start cs X = Ok ((start, b), data) /\ chunk_ok trim X cs start b data.
Proof.
  intros Hcs Hs. unfold fetch_chunk. destruct trim.
  - unfold get_next_chunk. rewrite next_chunk_eq by lia. cbn [fst snd].
    set (e := Z.min (start + cs) (len X)).
    destruct (e =? len X) eqn:E; cbn [negb].
    + right. exists e, (slice X start e). split; [reflexivity|].
      unfold chunk_ok. repeat split; try lia. left. lia.
    + destruct (count_back_spec (slice X start e)) as (w & Hw & H0 & H1 & H2 & H3).
      rewrite Hw. cbn [bind]. destruct (w =? 0) eqn:Ew; [left; reflexivity|].
      right. exists (start + w), (slice X start e). split; [reflexivity|].
      assert (Hlen : len (slice X start e) = e - start) by (apply len_slice; lia).
      unfold chunk_ok. repeat split; try lia.
      right. split; [lia|].
      specialize (H2 ltac:(lia)). rewrite !nthZ_slice in H2 by lia.
      replace (start + (w - 1)) with (start + w - 1) in H2 by lia. exact H2.
  - right. unfold get_untrimmed_chunk. rewrite next_chunk_eq by lia. cbn [fst snd].
    eexists _, _. split; [reflexivity|]. unfold chunk_ok. repeat split; try lia.
Qed.

(* a trimmed fetch raises only when the whole window is one run continuing beyond it *)
Lemma fetch_chunk_raise trim start cs X :
  1 <= cs -> 0 <= start <= len X ->
  fetch_chunk trim start cs X = Raise E_ValueError ->
  trim = true /\ start + cs < len X /\ forall k, start < k < start + cs -> nthZ X (k - 1) = nthZ X k.
Proof.
  intros Hcs Hs. unfold fetch_chunk. destruct trim; [|discriminate].
  unfold get_next_chunk. rewrite next_chunk_eq by lia. cbn [fst snd].
  set (e := Z.min (start + cs) (len X)).
  destruct (e =? len X) eqn:E; cbn [negb]; [discriminate|].
  destruct (count_back_spec (slice X start e)) as (w & Hw & H0 & H1 & H2 & H3).
  rewrite Hw. cbn [bind]. destruct (w =? 0) eqn:Ew; [|discriminate]. intros _.
  split; [reflexivity|]. split; [lia|]. intros k Hk.
  assert (Hlen : len (slice X start e) = e - start) by (apply len_slice; lia).
  specialize (H3 ltac:(lia) (k - start) ltac:(lia)). rewrite !nthZ_slice in H3 by lia.
  replace (start + (k - start - 1)) with (k - 1) in H3 by lia.
  replace (start + (k - start)) with k in H3 by lia. exact H3.
Qed.

(* ------------------------------------------------------------------ run_len *)
(* within a window [.., kmax) of a sorted array, run_len returns the number of further equal
   elements; the run it finds is maximal inside the window *)
Lemma run_len_spec site (a:list Z) : forall fuel k kmax cnt,
  0 <= k -> k < kmax -> kmax <= len a -> (Z.of_nat fuel > kmax - k) ->
  exists c, run_len fuel site a k kmax cnt = Ok (cnt + c) /\ 0 <= c /\ k + c < kmax /\
            (forall m, k <= m <= k + c -> nthZ a m = nthZ a k) /\
            (k + c + 1 < kmax -> nthZ a (k + c + 1) <> nthZ a k).
Proof.
  induction fuel as [|fuel IH]; intros k kmax cnt Hk Hkm Hlen Hf; [lia|].
  cbn [run_len]. destruct (k + 1 <? kmax) eqn:E.
  - rewrite (getZ_ok site a (k + 1)) by lia. rewrite (getZ_ok site a k) by lia. cbn [bind].
    destruct (nthZ a (k + 1) =? nthZ a k) eqn:E2.
    + destruct (IH (k + 1) kmax (cnt + 1)) as (c & Hc & H0 & H1 & H2 & H3); try lia.
      exists (c + 1). split; [rewrite Hc; f_equal; lia|]. repeat split; try lia.
      * intros m Hm. destruct (Z.eq_dec m k) as [->|]; [reflexivity|].
        rewrite H2 by lia. lia.
      * intros Hlt. replace (k + (c + 1) + 1) with (k + 1 + c + 1) by lia.
        assert (nthZ a (k + 1) = nthZ a k) by lia. rewrite <- H. apply H3. lia.
    + exists 0. split; [f_equal; lia|]. repeat split; try lia.
      * intros m Hm. replace m with k by lia. reflexivity.
      * intros _. replace (k + 0 + 1) with (k + 1) by lia. lia.
  - exists 0. split; [f_equal; lia|]. repeat split; try lia.
    intros m Hm. replace m with k by lia. reflexivity.
Qed.

(* split conjunctions without unfolding defined predicates *)
Ltac splits := repeat match goal with |- _ /\ _ => split end.

Lemma slice_upd_snoc' (l:list Z) r x : 0 <= r < len l -> slice (upd l r x) 0 (r + 1) = slice l 0 r ++ [x].
Proof.
  intros H. unfold slice, upd. cbn [Z.to_nat skipn]. rewrite !Z.sub_0_r.
  replace (Z.to_nat (r + 1)) with (S (Z.to_nat r)) by lia.
  apply firstn_succ_upd_nat. unfold len in H. lia.
Qed.
