(* Proofs/FilterIndexCompose.v — C09, algebra of the row selections: selecting rows twice is
   selecting once with the composed positions, and the two selections commute with any per-cell
   map (so aligned columns stay aligned under any chain of filter / index / sort steps). *)
From Coq Require Import ZArith List Bool Lia.
From EV Require Import Res Arr StableSort FilterIndex FilterIndexSpec FilterIndexFrames.
Import ListNotations.
Open Scope Z_scope.

Lemma nthd_map_in {A B} (f:A -> B) (dA:A) (dB:B) (l:list A) i :
  0 <= i < len l -> nthd dB (map f l) i = f (nthd dA l i).
Proof.
  intros Hi. unfold nthd, len in *.
  rewrite (nth_indep _ dB (f dA)) by (rewrite map_length; lia).
  apply map_nth.
Qed.

(* index after index = one index through the composed positions *)
Theorem gather_gather_proof {A} (d:A) (l:list A) (ps qs:list Z) :
  in_range (len ps) qs = true ->
  gather d (gather d l ps) qs = gather d l (gather 0 ps qs).
Proof.
  intros Hr. unfold gather. rewrite map_map. apply map_ext_in.
  intros q Hq. unfold in_range in Hr. rewrite forallb_forall in Hr. specialize (Hr q Hq).
  apply andb_true_iff in Hr. destruct Hr as [H0 H1].
  apply (nthd_map_in (fun p => nthd d l p) 0 d ps q). lia.
Qed.

(* filter after any selection = one selection: the positions that survive both *)
Corollary filter_after_select_proof {A} (d:A) (l:list A) (ps:list Z) (m:list bool) :
  len m = len ps ->
  gather d (gather d l ps) (sel m) = gather d l (gather 0 ps (sel m)).
Proof.
  intros Hm. apply gather_gather_proof. rewrite <- Hm. apply sel_in_range.
Qed.

(* a selection commutes with a per-cell map (any in-range positions) *)
Theorem gather_map_proof {A B} (f:A -> B) (dA:A) (dB:B) (l:list A) (ps:list Z) :
  in_range (len l) ps = true ->
  gather dB (map f l) ps = map f (gather dA l ps).
Proof.
  intros Hr. unfold gather. rewrite map_map. apply map_ext_in.
  intros p Hp. unfold in_range in Hr. rewrite forallb_forall in Hr. specialize (Hr p Hp).
  apply andb_true_iff in Hr. destruct Hr as [H0 H1].
  apply nthd_map_in. lia.
Qed.
