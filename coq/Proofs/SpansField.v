(* Proofs/SpansField.v — get_spans_for_field (numpy level) returns the reference span list. *)
From Coq Require Import ZArith List Lia Bool.
From EV Require Import Res Arr Spans SpansSpec SpansBase SpansRef.
Import ListNotations.
Open Scope Z_scope.

Section Field.
Context {A:Type}.
Variable neqb : A -> A -> bool.

Lemma adj_neq_length (l:list A) : length (adj_neq neqb l) = (length l - 1)%nat.
Proof.
  induction l as [|x t IH]; [reflexivity|]. destruct t as [|y t']; [reflexivity|].
  change (adj_neq neqb (x :: y :: t')) with (neqb x y :: adj_neq neqb (y :: t')).
  cbn [length] in *. rewrite IH. lia.
Qed.

Lemma nonzero_from_app i l1 l2 :
  nonzero_from i (l1 ++ l2) = nonzero_from i l1 ++ nonzero_from (i + len l1) l2.
Proof.
  revert i. induction l1 as [|b t IH]; intros i.
  - cbn [app nonzero_from]. rewrite len_nil. f_equal. lia.
  - cbn [app nonzero_from]. rewrite IH, len_cons. replace (i + 1 + len t) with (i + (len t + 1)) by lia.
    destruct b; reflexivity.
Qed.

Lemma nonzero_adj_neq i (l:list A) : nonzero_from (i + 1) (adj_neq neqb l) = bounds_from neqb i l.
Proof.
  revert i. induction l as [|x t IH]; intros i; [reflexivity|]. destruct t as [|y t']; [reflexivity|].
  change (adj_neq neqb (x :: y :: t')) with (neqb x y :: adj_neq neqb (y :: t')).
  change (bounds_from neqb i (x :: y :: t'))
    with (if neqb x y then (i + 1) :: bounds_from neqb (i + 1) (y :: t') else bounds_from neqb (i + 1) (y :: t')).
  cbn [nonzero_from]. rewrite IH. reflexivity.
Qed.

Lemma upd_nat_snoc {B} (l:list B) x v : upd_nat (l ++ [x]) (length l) v = l ++ [v].
Proof. induction l as [|h t IH]; cbn; [reflexivity|]. rewrite IH. reflexivity. Qed.

Lemma skipn_repeat {B} (x:B) n m : skipn n (repeat x m) = repeat x (m - n).
Proof.
  revert m; induction n as [|n IH]; intros m; [cbn; f_equal; lia|].
  destruct m; [reflexivity|]. cbn [repeat skipn]. apply IH.
Qed.

Theorem get_spans_for_field_ref (a:list A) : get_spans_for_field neqb a = spans_ref neqb a.
Proof.
  destruct a as [|x t] eqn:E; [reflexivity|]. rewrite <- E.
  set (d := adj_neq neqb a).
  assert (Hd : length d = (length a - 1)%nat) by apply adj_neq_length.
  assert (Hla : (1 <= length a)%nat) by (rewrite E; cbn; lia).
  unfold get_spans_for_field. fold d.
  replace (Z.to_nat (len a + 1)) with (S (length a)) by (unfold len; lia).
  assert (H1 : assign_inner (repeat false (S (length a))) d = false :: d ++ [false]).
  { unfold assign_inner. cbn [repeat firstn app]. f_equal. f_equal.
    replace (1 + length d)%nat with (S (length d)) by lia. cbn [skipn].
    rewrite skipn_repeat. replace (length a - length d)%nat with 1%nat by lia. reflexivity. }
  rewrite H1.
  assert (H2 : upd (false :: d ++ [false]) 0 true = true :: d ++ [false]) by reflexivity.
  rewrite H2.
  assert (H3 : upd (true :: d ++ [false]) (len (true :: d ++ [false]) - 1) true = true :: d ++ [true]).
  { unfold upd. rewrite len_cons, len_app. replace (len [false]) with 1 by reflexivity.
    replace (Z.to_nat (len d + 1 + 1 - 1)) with (S (length d)) by (unfold len; lia).
    cbn [upd_nat]. f_equal. apply upd_nat_snoc. }
  rewrite H3. unfold nonzero. cbn [nonzero_from]. rewrite nonzero_from_app.
  replace (0 + 1) with 1 by lia. cbn [nonzero_from].
  change 1 with (0 + 1) at 1. unfold d. rewrite nonzero_adj_neq.
  rewrite E. cbn [spans_ref]. rewrite <- E. f_equal. f_equal. f_equal.
  fold d. unfold len. rewrite Hd. lia.
Qed.

End Field.
