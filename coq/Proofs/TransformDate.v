(* Proofs/TransformDate.v — the date path: transform_to_values + strip + datetime.strptime('%Y-%m-%d') +
   datetime(...).timestamp() (DateImporter.import_part / write_part) against the date printers. *)
From Coq Require Import ZArith List Bool Lia ZifyBool.
From EV Require Import Res Arr Transform TransformSpec TransformBase TransformCat TransformFixed TransformTrim TransformTs.
Import ListNotations.
Open Scope Z_scope.

(* ================================================================== chunks *)
Lemma values_rows_ok c cells : rows_viewed c cells ->
  forall post pre, cells = pre ++ post -> values_rows (length post) (len pre) c = Ok post.
Proof.
  intros Hrv. induction post as [|cell post IH]; intros pre Hc; [reflexivity|].
  cbn [length values_rows].
  destruct (Hrv pre cell post Hc) as [ks A B Hrow Hi0 Hi1 Hvals Hbase].
  rewrite Hi0, Hi1. cbn [bind].
  replace (len pre + 1) with (len (pre ++ [cell])) by (rewrite len_app; reflexivity).
  rewrite (IH (pre ++ [cell])) by (rewrite <- app_assoc; exact Hc). cbn [bind].
  f_equal. f_equal. rewrite Hvals.
  replace (c_off c + ks) with (len A) by lia.
  replace (c_off c + (ks + len cell)) with (len A + len cell) by lia.
  apply slice_mid.
Qed.

Lemma transform_to_values_ok off slack tail cells : 0 <= off ->
  transform_to_values (mk_chunk off slack tail cells) = Ok cells.
Proof.
  intros Ho. unfold transform_to_values. rewrite mk_chunk_rows.
  replace (Z.to_nat (len cells)) with (length cells) by (unfold len; lia).
  exact (values_rows_ok _ cells (rows_viewed_mk off slack tail cells Ho) cells [] eq_refl).
Qed.

Definition app_cols (st rs:list Z * list Z * list Z) : list Z * list Z * list Z :=
  (fst (fst st) ++ fst (fst rs), snd (fst st) ++ snd (fst rs), snd st ++ snd rs).

(* chunk independence of the two date importers: the column is the row function mapped over all cells *)
Lemma fold_dt_import_ok rowf off slack tail : 0 <= off ->
  (forall v, rowf (strip v) = rowf v) ->
  forall cc st,
  fold_res (dt_import_part rowf) st (map (mk_chunk off slack tail) cc)
  = bind (map_res rowf (concat cc)) (fun rs => Ok (app_cols st (dt_cols rs))).
Proof.
  intros Ho Hs. induction cc as [|cells cc IH]; intros st; cbn [map fold_res concat].
  - cbn [map_res bind]. destruct st as [[a b] c]. unfold app_cols, dt_cols. cbn [map concat fst snd].
    rewrite !app_nil_r. reflexivity.
  - unfold dt_import_part at 1. rewrite transform_to_values_ok by exact Ho. cbn [bind].
    rewrite (map_res_ext _ rowf) by (intros; apply Hs).
    rewrite map_res_app.
    destruct (map_res rowf cells) as [r1| | |]; cbn [bind]; try reflexivity.
    destruct st as [[a b] c]. cbn [bind]. rewrite IH.
    destruct (map_res rowf (concat cc)) as [r2| | |]; cbn [bind]; try reflexivity.
    unfold app_cols, dt_cols. cbn [fst snd]. rewrite !map_app, concat_app, !app_assoc. reflexivity.
Qed.

Lemma date_row_strip v : date_row (strip v) = date_row v.
Proof. unfold date_row. rewrite strip_idem. reflexivity. Qed.

Lemma datetime_row_strip v : datetime_row (strip v) = datetime_row v.
Proof. unfold datetime_row. rewrite strip_idem. reflexivity. Qed.

Theorem date_chunk_independent_proof cc off slack tail : 0 <= off ->
  date_import (map (mk_chunk off slack tail) cc)
  = bind (map_res date_row (concat cc)) (fun rs => Ok (dt_cols rs)).
Proof.
  intros Ho. unfold date_import. rewrite (fold_dt_import_ok date_row) by (exact Ho || exact date_row_strip).
  destruct (map_res date_row (concat cc)) as [rs| | |]; cbn [bind]; reflexivity.
Qed.

Theorem datetime_chunk_independent_proof cc off slack tail : 0 <= off ->
  datetime_import (map (mk_chunk off slack tail) cc)
  = bind (map_res datetime_row (concat cc)) (fun rs => Ok (dt_cols rs)).
Proof.
  intros Ho. unfold datetime_import. rewrite (fold_dt_import_ok datetime_row) by (exact Ho || exact datetime_row_strip).
  destruct (map_res datetime_row (concat cc)) as [rs| | |]; cbn [bind]; reflexivity.
Qed.

(* ================================================================== strptime, with boolean tests *)
Lemma some_pair_inj {A B} (a a':A) (b b':B) : Some (a, b) = Some (a', b') -> a = a' /\ b = b'.
Proof. intros H. inversion H. auto. Qed.

Definition cond2 (a b:Z) : bool :=
  ((a =? 49) && (48 <=? b) && (b <=? 50)) || ((a =? 48) && (49 <=? b) && (b <=? 57)).
Definition cond1 (a:Z) : bool := (49 <=? a) && (a <=? 57).

Definition pm (r:list Z) : option (Z * list Z) :=
  match r with
  | a :: b :: s :: r' =>
    if s =? 45 then (if cond2 a b then Some (dval a * 10 + dval b, r') else None)
    else if b =? 45 then (if cond1 a then Some (dval a, s :: r') else None) else None
  | [a; b] => if b =? 45 then (if cond1 a then Some (dval a, []) else None) else None
  | _ => None
  end.

Definition pd (r':list Z) : option (Z * list Z) :=
  match r' with
  | a :: t =>
    match t with
    | b :: t' =>
      if (a =? 51) && ((b =? 48) || (b =? 49)) then Some (30 + dval b, t')
      else if ((a =? 49) || (a =? 50)) && is_digit b then Some (dval a * 10 + dval b, t')
      else if (a =? 48) && (49 <=? b) && (b <=? 57) then Some (dval b, t')
      else if (49 <=? a) && (a <=? 57) then Some (dval a, t)
      else if (a =? 32) && (49 <=? b) && (b <=? 57) then Some (dval b, t')
      else None
    | [] => if (49 <=? a) && (a <=? 57) then Some (dval a, []) else None
    end
  | [] => None
  end.

Definition yval (y0 y1 y2 y3:Z) : Z := ((dval y0 * 10 + dval y1) * 10 + dval y2) * 10 + dval y3.

Definition strptime_b (v:list Z) : res (Z * Z * Z) :=
  match v with
  | y0 :: y1 :: y2 :: y3 :: s :: r =>
    if (s =? 45) && (is_digit y0 && is_digit y1 && is_digit y2 && is_digit y3) then
      match pm r with
      | Some (m, r') =>
        match pd r' with
        | Some (d, []) => Ok (yval y0 y1 y2 y3, m, d)
        | _ => Raise E_ValueError
        end
      | None => Raise E_ValueError
      end
    else Raise E_ValueError
  | _ => Raise E_ValueError
  end.

(* case analysis of a byte against the literal 45 that a `match` on Z performs *)
Ltac z45 s :=
  destruct s as [|s|s]; try reflexivity;
  do 6 (try (destruct s as [s|s|]; try reflexivity)).

Lemma sp_month_pm r : sp_month r = pm r.
Proof.
  unfold sp_month, pm, cond1, cond2. destruct r as [|a [|b [|s r']]]; try reflexivity.
  - z45 b.
  - z45 s; z45 b.
Qed.

(* ---- ASCII text: decoding is the identity, \d is [0-9] ---- *)
Lemma ascii_cons x l : ascii (x :: l) = true <-> 0 <= x < 128 /\ ascii l = true.
Proof. unfold ascii. cbn [forallb]. rewrite andb_true_iff. split; intros [H1 H2]; split; try assumption; lia. Qed.

Lemma ascii_app a b : ascii (a ++ b) = ascii a && ascii b.
Proof. apply forallb_app. Qed.

Lemma decode_ascii v : ascii v = true -> decode_utf8 v = Some v.
Proof.
  induction v as [|x v IH]; intros H; [reflexivity|]. apply ascii_cons in H. destruct H as [Hx Hv].
  cbn [decode_utf8]. replace ((0 <=? x) && (x <? 128)) with true by lia. rewrite (IH Hv). reflexivity.
Qed.

Lemma find_none {A} (f:A -> bool) l : (forall z, In z l -> f z = false) -> find f l = None.
Proof.
  induction l as [|h l IH]; intros H; [reflexivity|]. cbn [find]. rewrite (H h (or_introl eq_refl)).
  apply IH. intros z Hz. apply H. right. exact Hz.
Qed.

Lemma nd_zero_ascii x : 0 <= x < 128 -> nd_zero x = if is_digit x then Some 48 else None.
Proof.
  intros Hx. unfold nd_zero. change ND_ZEROS with (48 :: tl ND_ZEROS).
  remember (tl ND_ZEROS) as T eqn:ET. cbn [find]. unfold is_digit.
  destruct ((48 <=? x) && (x <=? 57)) eqn:E.
  - replace ((48 <=? x) && (x <? 48 + 10)) with true by lia. reflexivity.
  - replace ((48 <=? x) && (x <? 48 + 10)) with false by lia.
    apply find_none. intros z Hz.
    assert (Hbig : 128 <= z).
    { revert z Hz. apply Forall_forall. subst T. unfold ND_ZEROS, tl.
      repeat (apply Forall_cons; [lia|]). apply Forall_nil. }
    lia.
Qed.

Lemma is_digit_u_ascii x : 0 <= x < 128 -> is_digit_u x = is_digit x.
Proof. intros H. unfold is_digit_u. rewrite nd_zero_ascii by exact H. destruct (is_digit x); reflexivity. Qed.

Lemma dval_u_digit x : is_digit x = true -> dval_u x = dval x.
Proof.
  intros H. unfold dval_u, dval. rewrite nd_zero_ascii by (unfold is_digit in H; lia). rewrite H. reflexivity.
Qed.

Lemma sp_day_pd r' : ascii r' = true -> sp_day r' = pd r'.
Proof.
  intros H. unfold sp_day, pd. destruct r' as [|a [|b t']]; try reflexivity.
  apply ascii_cons in H. destruct H as [_ H]. apply ascii_cons in H. destruct H as [Hb _].
  rewrite is_digit_u_ascii by exact Hb.
  destruct (is_digit b) eqn:D; [rewrite (dval_u_digit b D); reflexivity|].
  rewrite !andb_false_r. reflexivity.
Qed.

Lemma pm_suffix r m r' : pm r = Some (m, r') -> exists pre, r = pre ++ r'.
Proof.
  unfold pm. destruct r as [|a [|b [|s r0]]]; try discriminate.
  - destruct (b =? 45); [|discriminate]. destruct (cond1 a); [|discriminate].
    intros H. apply some_pair_inj in H. destruct H as [_ <-]. exists [a; b]. reflexivity.
  - destruct (s =? 45).
    + destruct (cond2 a b); [|discriminate]. intros H. apply some_pair_inj in H. destruct H as [_ <-].
      exists [a; b; s]. reflexivity.
    + destruct (b =? 45); [|discriminate]. destruct (cond1 a); [|discriminate].
      intros H. apply some_pair_inj in H. destruct H as [_ <-]. exists [a; b]. reflexivity.
Qed.

Lemma strptime_ymd_b v : ascii v = true -> strptime_ymd v = strptime_b v.
Proof.
  intros Ha. unfold strptime_ymd. rewrite (decode_ascii v Ha). unfold strptime_cps, strptime_b.
  destruct v as [|y0 [|y1 [|y2 [|y3 [|s r]]]]]; try reflexivity.
  apply ascii_cons in Ha. destruct Ha as [A0 Ha]. apply ascii_cons in Ha. destruct Ha as [A1 Ha].
  apply ascii_cons in Ha. destruct Ha as [A2 Ha]. apply ascii_cons in Ha. destruct Ha as [A3 Ha].
  apply ascii_cons in Ha. destruct Ha as [_ Ha].
  rewrite !is_digit_u_ascii by assumption.
  z45 s.
  cbn [Z.eqb Pos.eqb andb].
  destruct (is_digit y0) eqn:D0; [|reflexivity]. destruct (is_digit y1) eqn:D1; [|reflexivity].
  destruct (is_digit y2) eqn:D2; [|reflexivity]. destruct (is_digit y3) eqn:D3; [|reflexivity]. cbn [andb].
  rewrite !dval_u_digit by assumption. rewrite sp_month_pm.
  destruct (pm r) as [[m r']|] eqn:Em; [|reflexivity].
  destruct (pm_suffix r m r' Em) as [pre Er]. rewrite Er, ascii_app in Ha. apply andb_prop in Ha.
  rewrite sp_day_pd by apply Ha. reflexivity.
Qed.

(* ================================================================== digits *)
Ltac Zify.zify_post_hook ::= Z.div_mod_to_equations.

Lemma digit_range v : 48 <= digit v <= 57.
Proof. unfold digit. lia. Qed.

Lemma dval_digit v : dval (digit v) = v mod 10.
Proof. unfold dval, digit. lia. Qed.

Lemma yval_d4 y : 0 <= y <= 9999 ->
  yval (digit (y / 1000)) (digit (y / 100)) (digit (y / 10)) (digit y) = y.
Proof. intros H. unfold yval. rewrite !dval_digit. lia. Qed.

Lemma d4_yval y0 y1 y2 y3 :
  is_digit y0 = true -> is_digit y1 = true -> is_digit y2 = true -> is_digit y3 = true ->
  d4 (yval y0 y1 y2 y3) = [y0; y1; y2; y3] /\ 0 <= yval y0 y1 y2 y3 <= 9999.
Proof.
  unfold is_digit, d4, yval, digit, dval. intros H0 H1 H2 H3. split; [|lia].
  repeat f_equal; lia.
Qed.

Lemma not_high_digit v : (128 <=? digit v) = false.
Proof. pose proof (digit_range v). lia. Qed.

(* ================================================================== month and day fields *)
Lemma pm_texts m mt r' : 1 <= m <= 12 -> In mt (month_texts m) -> (forall t, r' <> 45 :: t) ->
  pm (mt ++ 45 :: r') = Some (m, r').
Proof.
  intros Hm Hin Hr.
  assert (C : m = 1 \/ m = 2 \/ m = 3 \/ m = 4 \/ m = 5 \/ m = 6 \/ m = 7 \/ m = 8 \/ m = 9 \/ m = 10 \/ m = 11 \/ m = 12) by lia.
  destruct r' as [|z r'].
  - repeat (destruct C as [->|C]); try subst m;
      cbn in Hin; repeat (destruct Hin as [<-|Hin]; [reflexivity|]); contradiction.
  - assert (E : (z =? 45) = false)
      by (destruct (Z.eqb_spec z 45); [subst; exfalso; eapply Hr; reflexivity|reflexivity]).
    repeat (destruct C as [->|C]); try subst m;
      cbn in Hin; repeat (destruct Hin as [<-|Hin]; [cbn; rewrite ?E; reflexivity|]); contradiction.
Qed.

Lemma day_texts_head d dt : In dt (day_texts d) -> forall t, dt <> 45 :: t.
Proof.
  intros Hin t E. subst dt. unfold day_texts, d2 in Hin.
  pose proof (digit_range (d / 10)). pose proof (digit_range d).
  destruct (d <? 10); cbn [In] in Hin;
    repeat (destruct Hin as [Hin|Hin]; [inversion Hin; lia|]); contradiction.
Qed.

Lemma pd_texts d dt : 1 <= d <= 31 -> In dt (day_texts d) -> pd dt = Some (d, []).
Proof.
  intros Hd Hin.
  pose proof (forallb_range (fun d => forallb (fun dt => match pd dt with
                                                         | Some (d', []) => d' =? d
                                                         | _ => false end) (day_texts d) || (d =? 0)) 32) as F.
  specialize (F ltac:(vm_compute; reflexivity) d ltac:(lia)). cbv beta in F.
  replace (d =? 0) with false in F by lia. rewrite orb_false_r in F.
  rewrite forallb_forall in F. specialize (F dt Hin).
  destruct (pd dt) as [[d' [|? ?]]|]; try discriminate. f_equal. f_equal. lia.
Qed.

Lemma ascii_digit v : (0 <=? digit v) && (digit v <? 128) = true.
Proof. pose proof (digit_range v). lia. Qed.

Lemma month_texts_ascii m mt : In mt (month_texts m) -> ascii mt = true.
Proof.
  intros Hin. unfold month_texts, d2 in Hin. destruct (m <? 10); cbn [In] in Hin.
  - destruct Hin as [<-|[<-|[]]]; unfold ascii; cbn [forallb]; rewrite ?ascii_digit; reflexivity.
  - destruct Hin as [<-|[]]; unfold ascii; cbn [forallb]; rewrite ?ascii_digit; reflexivity.
Qed.

Lemma day_texts_ascii d dt : In dt (day_texts d) -> ascii dt = true.
Proof.
  intros Hin. unfold day_texts, d2 in Hin. destruct (d <? 10); cbn [In] in Hin.
  - destruct Hin as [<-|[<-|[<-|[]]]]; unfold ascii; cbn [forallb]; rewrite ?ascii_digit; reflexivity.
  - destruct Hin as [<-|[]]; unfold ascii; cbn [forallb]; rewrite ?ascii_digit; reflexivity.
Qed.

Lemma in_date_texts y m d t :
  In t (date_texts y m d) <->
  exists mt dt, In mt (month_texts m) /\ In dt (day_texts d) /\ t = d4 y ++ [45] ++ mt ++ [45] ++ dt.
Proof.
  unfold date_texts. rewrite in_flat_map. split.
  - intros [mt [Hm H]]. apply in_map_iff in H. destruct H as [dt [E Hd]]. exists mt, dt. auto.
  - intros [mt [dt [Hm [Hd E]]]]. exists mt. split; [exact Hm|]. apply in_map_iff. exists dt. auto.
Qed.

Lemma date_texts_ascii y m d t : In t (date_texts y m d) -> ascii t = true.
Proof.
  intros Hin. apply in_date_texts in Hin. destruct Hin as [mt [dt [Hmt [Hdt ->]]]].
  rewrite !ascii_app, (month_texts_ascii m mt Hmt), (day_texts_ascii d dt Hdt).
  unfold d4, ascii. cbn [forallb]. rewrite !ascii_digit. reflexivity.
Qed.

(* every text of a date is read back as that date *)
Lemma strptime_texts y m d t : 0 <= y <= 9999 -> 1 <= m <= 12 -> 1 <= d <= 31 ->
  In t (date_texts y m d) -> strptime_ymd t = Ok (y, m, d).
Proof.
  intros Hy Hm Hd Hin. rewrite strptime_ymd_b by (eapply date_texts_ascii; exact Hin).
  apply in_date_texts in Hin. destruct Hin as [mt [dt [Hmt [Hdt ->]]]].
  unfold strptime_b, d4. cbn [app].
  rewrite !digit_is_digit. cbn [Z.eqb Pos.eqb andb].
  rewrite (pm_texts m mt dt Hm Hmt (day_texts_head d dt Hdt)), (pd_texts d dt Hd Hdt), yval_d4 by exact Hy. reflexivity.
Qed.

(* ... and nothing else is *)
Lemma pm_inv r m r' : pm r = Some (m, r') ->
  exists mt, r = mt ++ 45 :: r' /\ In mt (month_texts m) /\ 1 <= m <= 12.
Proof.
  unfold pm, cond1, cond2, month_texts, d2, digit, dval.
  destruct r as [|a [|b [|s r0]]]; try discriminate.
  - destruct (b =? 45) eqn:Eb; [|discriminate]. destruct ((49 <=? a) && (a <=? 57)) eqn:Ea; [|discriminate].
    intros H. inversion H; subst. exists [a]. split; [cbn [app]; repeat f_equal; lia|]. split; [|lia].
    replace (a - 48 <? 10) with true by lia. right. left. f_equal. lia.
  - destruct (s =? 45) eqn:Es.
    + match goal with |- context [if ?c then _ else _] => destruct c eqn:Ec end; [|discriminate].
      intros H. inversion H; subst. exists [a; b]. split; [cbn [app]; repeat f_equal; lia|]. split; [|lia].
      left. repeat f_equal; lia.
    + destruct (b =? 45) eqn:Eb; [|discriminate]. destruct ((49 <=? a) && (a <=? 57)) eqn:Ea; [|discriminate].
      intros H. inversion H; subst. exists [a]. split; [cbn [app]; repeat f_equal; lia|]. split; [|lia].
      replace (a - 48 <? 10) with true by lia. right. left. f_equal. lia.
Qed.

Lemma pd_inv r' d : pd r' = Some (d, []) -> In r' (day_texts d) /\ 1 <= d <= 31.
Proof.
  unfold pd, day_texts, d2, digit, dval, is_digit.
  destruct r' as [|a [|b t']]; try discriminate.
  - destruct ((49 <=? a) && (a <=? 57)) eqn:Ea; [|discriminate].
    intros H. apply some_pair_inj in H. destruct H as [Hd Ht]. subst d; try subst t'. split; [|lia]. replace (a - 48 <? 10) with true by lia.
    right. left. f_equal. lia.
  - destruct ((a =? 51) && ((b =? 48) || (b =? 49))) eqn:E1.
    { intros H. apply some_pair_inj in H. destruct H as [Hd Ht]. subst d; try subst t'. split; [|lia]. left. repeat f_equal; lia. }
    destruct (((a =? 49) || (a =? 50)) && ((48 <=? b) && (b <=? 57))) eqn:E2.
    { intros H. apply some_pair_inj in H. destruct H as [Hd Ht]. subst d; try subst t'. split; [|lia]. left. repeat f_equal; lia. }
    destruct ((a =? 48) && (49 <=? b) && (b <=? 57)) eqn:E3.
    { intros H. apply some_pair_inj in H. destruct H as [Hd Ht]. subst d; try subst t'. split; [|lia]. left. repeat f_equal; lia. }
    destruct ((49 <=? a) && (a <=? 57)) eqn:E4; [discriminate|].
    destruct ((a =? 32) && (49 <=? b) && (b <=? 57)) eqn:E5; [|discriminate].
    intros H. apply some_pair_inj in H. destruct H as [Hd Ht]. subst d; try subst t'. split; [|lia]. replace (b - 48 <? 10) with true by lia.
    right. right. left. repeat f_equal; lia.
Qed.

Lemma strptime_inv t y m d : ascii t = true -> strptime_ymd t = Ok (y, m, d) ->
  0 <= y <= 9999 /\ 1 <= m <= 12 /\ 1 <= d <= 31 /\ In t (date_texts y m d).
Proof.
  intros Ha. rewrite strptime_ymd_b by exact Ha. unfold strptime_b.
  destruct t as [|y0 [|y1 [|y2 [|y3 [|s r]]]]]; try discriminate.
  destruct (s =? 45) eqn:Es; [|discriminate]. cbn [andb].
  destruct (is_digit y0) eqn:D0; [|discriminate]. destruct (is_digit y1) eqn:D1; [|discriminate].
  destruct (is_digit y2) eqn:D2; [|discriminate]. destruct (is_digit y3) eqn:D3; [|discriminate]. cbn [andb].
  destruct (pm r) as [[m' r']|] eqn:Em; [|discriminate].
  destruct (pd r') as [[d' [|? ?]]|] eqn:Ed; try discriminate.
  intros H. inversion H; subst. clear H.
  destruct (d4_yval y0 y1 y2 y3 D0 D1 D2 D3) as [E4 Hy].
  destruct (pm_inv r m r' Em) as [mt [Er [Hmt Hm]]]. destruct (pd_inv r' d Ed) as [Hdt Hd].
  repeat split; try lia.
  apply in_date_texts. exists mt, r'. repeat split; try assumption.
  rewrite E4, Er. cbn [app]. repeat f_equal. lia.
Qed.

Ltac z45r s :=
  destruct s as [|s|s]; try (right; reflexivity);
  do 6 (try (destruct s as [s|s|]; try (right; reflexivity))).

(* on every byte string: a date or ValueError (UnicodeDecodeError is one) *)
Lemma strptime_res t : (exists r, strptime_ymd t = Ok r) \/ strptime_ymd t = Raise E_ValueError.
Proof.
  unfold strptime_ymd. destruct (decode_utf8 t) as [v|]; [|right; reflexivity]. unfold strptime_cps.
  destruct v as [|y0 [|y1 [|y2 [|y3 [|s r]]]]]; try (right; reflexivity).
  z45r s.
  destruct (is_digit_u y0 && is_digit_u y1 && is_digit_u y2 && is_digit_u y3); [|right; reflexivity].
  destruct (sp_month r) as [[m' r']|]; [|right; reflexivity].
  destruct (sp_day r') as [[d' [|? ?]]|]; try (right; reflexivity). left. eexists. reflexivity.
Qed.

(* ================================================================== the stored instant *)
Lemma days_in_month_le y m : days_in_month y m <= 31.
Proof.
  unfold days_in_month. destruct (m =? 2); [destruct (is_leap y); lia|].
  destruct (inl m [4; 6; 9; 11]); lia.
Qed.

Lemma date_ok_ranges y m d : date_ok y m d = true -> 0 <= y <= 9999 /\ 1 <= m <= 12 /\ 1 <= d <= 31.
Proof.
  unfold date_ok. intros H. repeat (apply andb_prop in H; destruct H as [H ?]).
  pose proof (days_in_month_le y m). lia.
Qed.

Lemma datetime_us_date y m d :
  datetime_us y m d 0 0 0 0 = if date_ok y m d then Ok (midnight_us y m d) else Raise E_ValueError.
Proof.
  unfold datetime_us, date_ok, midnight_us, instant_us. cbn [cy cmo cd chh cmi css].
  destruct ((1 <=? y) && (y <=? 9999)); cbn [negb andb]; [|reflexivity].
  destruct ((1 <=? m) && (m <=? 12)); cbn [negb andb]; [|reflexivity].
  destruct ((1 <=? d) && (d <=? days_in_month y m)); cbn [negb andb]; reflexivity.
Qed.

(* ================================================================== one cell *)
Lemma ascii_strip cell : ascii cell = true -> ascii (strip cell) = true.
Proof.
  intros H. rewrite strip_trimw. destruct (trimw_decomp is_ws cell) as [w1 [core [w2 [Hc [_ [_ [-> _]]]]]]].
  rewrite Hc, !ascii_app in H. apply andb_prop in H. destruct H as [_ H]. apply andb_prop in H. apply H.
Qed.

Lemma date_row_res cell : (exists r, date_row cell = Ok r) \/ date_row cell = Raise E_ValueError.
Proof.
  unfold date_row. destruct (strip cell) as [|z l]; [left; eexists; reflexivity|].
  destruct (strptime_res (z :: l)) as [[[[y m] d] Ep]|Ep]; rewrite Ep; cbn [bind]; [|right; reflexivity].
  rewrite datetime_us_date. destruct (date_ok y m d); cbn [bind]; [left; eexists; reflexivity|right; reflexivity].
Qed.

Theorem date_cell_table_proof cell : ascii cell = true -> date_cell_spec cell (date_row cell).
Proof.
  intros Hascii. apply ascii_strip in Hascii.
  unfold date_row. destruct (strip cell) as [|z l] eqn:Es.
  - apply DC_blank. exact Es.
  - destruct (strptime_res (z :: l)) as [[[[y m] d] Ep]|Ep]; rewrite Ep; cbn [bind].
    + destruct (strptime_inv _ _ _ _ Hascii Ep) as [Hy [Hm [Hd Hin]]].
      rewrite datetime_us_date. destruct (date_ok y m d) eqn:Eok; cbn [bind].
      * rewrite <- Es in *. apply DC_date; assumption.
      * apply DC_bad; [rewrite Es; discriminate|].
        intros y' m' d' Hok' Hin'. rewrite Es in Hin'.
        destruct (date_ok_ranges _ _ _ Hok') as [Ry [Rm Rd]].
        rewrite (strptime_texts y' m' d' _ Ry Rm Rd Hin') in Ep. inversion Ep; subst. congruence.
    + apply DC_bad; [rewrite Es; discriminate|].
      intros y' m' d' Hok' Hin'. rewrite Es in Hin'.
      destruct (date_ok_ranges _ _ _ Hok') as [Ry [Rm Rd]].
      rewrite (strptime_texts y' m' d' _ Ry Rm Rd Hin') in Ep. discriminate.
Qed.

(* the specification determines the result *)
Theorem date_cell_spec_deterministic_proof cell r1 r2 :
  date_cell_spec cell r1 -> date_cell_spec cell r2 -> r1 = r2.
Proof.
  intros H1 H2.
  assert (Hnil : forall y m d, date_ok y m d = true -> ~ In [] (date_texts y m d)).
  { intros y m d Hok Hin. destruct (date_ok_ranges _ _ _ Hok) as [Ry [Rm Rd]].
    pose proof (strptime_texts y m d [] Ry Rm Rd Hin) as P. discriminate. }
  destruct H1 as [E1|y1 m1 d1 O1 I1|N1 B1]; destruct H2 as [E2|y2 m2 d2 O2 I2|N2 B2]; try reflexivity;
    try contradiction.
  - rewrite E1 in I2. destruct (Hnil _ _ _ O2 I2).
  - rewrite E2 in I1. destruct (Hnil _ _ _ O1 I1).
  - destruct (date_ok_ranges _ _ _ O1) as [Ry1 [Rm1 Rd1]]. destruct (date_ok_ranges _ _ _ O2) as [Ry2 [Rm2 Rd2]].
    pose proof (strptime_texts _ _ _ _ Ry1 Rm1 Rd1 I1) as P1. pose proof (strptime_texts _ _ _ _ Ry2 Rm2 Rd2 I2) as P2.
    rewrite P1 in P2. inversion P2; subst. reflexivity.
  - destruct (B2 _ _ _ O1 I1).
  - destruct (B1 _ _ _ O2 I2).
Qed.

(* ================================================================== YYYY-MM-DD, white space around it *)
Lemma is_ws_digit v : is_ws (digit v) = false.
Proof. pose proof (digit_range v). unfold is_ws. lia. Qed.

Lemma fmt_ymd_cons y m d :
  fmt_ymd y m d = [digit (y / 1000); digit (y / 100); digit (y / 10); digit y; 45;
                   digit (m / 10); digit m; 45; digit (d / 10); digit d].
Proof. reflexivity. Qed.

Lemma fmt_ymd_core y m d : core_ok is_ws (fmt_ymd y m d).
Proof.
  right. rewrite fmt_ymd_cons. split.
  - eexists. eexists. split; [reflexivity|]. apply is_ws_digit.
  - exists [digit (y / 1000); digit (y / 100); digit (y / 10); digit y; 45; digit (m / 10); digit m; 45; digit (d / 10)],
      (digit d). split; [reflexivity|]. apply is_ws_digit.
Qed.

Lemma strip_padded w1 w2 y m d : all_ws w1 = true -> all_ws w2 = true ->
  strip (w1 ++ fmt_ymd y m d ++ w2) = fmt_ymd y m d.
Proof. intros H1 H2. rewrite strip_trimw. apply trimw_of; [exact H1|exact H2|apply fmt_ymd_core]. Qed.

Lemma strip_blank w : all_ws w = true -> strip w = [].
Proof.
  intros H. rewrite strip_trimw. pose proof (trimw_of is_ws w [] [] H eq_refl (or_introl eq_refl)) as P.
  cbn [app] in P. rewrite app_nil_r in P. exact P.
Qed.

Lemma fmt_ymd_in_texts y m d : In (fmt_ymd y m d) (date_texts y m d).
Proof.
  apply in_date_texts. exists (d2 m), (d2 d). split; [left; reflexivity|]. split; [left; reflexivity|]. reflexivity.
Qed.

(* a valid civil date printed as YYYY-MM-DD (white space around it is dropped) is stored as the UTC
   midnight of that date, the day string is the 10 bytes of the date, the flag is set *)
Theorem date_canonical_proof w1 w2 y m d : all_ws w1 = true -> all_ws w2 = true -> date_ok y m d = true ->
  date_row (w1 ++ fmt_ymd y m d ++ w2) = Ok (midnight_us y m d, fmt_ymd y m d, 1).
Proof.
  intros H1 H2 Hok. unfold date_row. rewrite strip_padded by assumption.
  destruct (date_ok_ranges _ _ _ Hok) as [Ry [Rm Rd]].
  rewrite (strptime_texts y m d _ Ry Rm Rd (fmt_ymd_in_texts y m d)).
  rewrite fmt_ymd_cons at 1. cbn [bind]. rewrite datetime_us_date, Hok. cbn [bind]. reflexivity.
Qed.

Theorem date_blank_proof w : all_ws w = true -> date_row w = Ok (0, zeros 10, 0).
Proof. intros H. unfold date_row. rewrite strip_blank by exact H. reflexivity. Qed.

Lemma dcell_row x : dcell_ok x = true -> date_row (dcell_text x) = Ok (dcell_store x).
Proof.
  destruct x as [w|w1 y m d w2]; cbn [dcell_ok dcell_text dcell_store]; intros H.
  - apply date_blank_proof. exact H.
  - apply andb_prop in H. destruct H as [H H2]. apply andb_prop in H. destruct H as [H1 Hok].
    apply date_canonical_proof; assumption.
Qed.

(* the whole column, any chunking, any buffer layout *)
Theorem date_column_roundtrip_proof (dd:list (list dcell)) off slack tail : 0 <= off ->
  forallb dcell_ok (concat dd) = true ->
  date_import (map (mk_chunk off slack tail) (map (map dcell_text) dd))
  = Ok (dt_cols (map dcell_store (concat dd))).
Proof.
  intros Ho Hok. rewrite date_chunk_independent_proof by exact Ho.
  rewrite <- concat_map. rewrite map_res_map.
  rewrite (map_res_ok _ dcell_store).
  - reflexivity.
  - intros x Hx. apply dcell_row. rewrite forallb_forall in Hok. apply Hok. exact Hx.
Qed.

(* a cell that is neither blank nor a text of a valid civil date makes the import raise ValueError *)
Lemma map_res_raise {A B} (f:A -> res B) e l x :
  (forall y, In y l -> (exists r, f y = Ok r) \/ f y = Raise e) -> In x l -> f x = Raise e ->
  map_res f l = Raise e.
Proof.
  induction l as [|h l IH]; intros Hall Hin Hx; [destruct Hin|]. cbn [map_res].
  destruct (Hall h (or_introl eq_refl)) as [[r Hr]|Hr]; rewrite Hr; cbn [bind]; [|reflexivity].
  destruct Hin as [->|Hin]; [congruence|].
  rewrite IH; [reflexivity| |exact Hin|exact Hx]. intros y Hy. apply Hall. right. exact Hy.
Qed.

Theorem date_invalid_raises_proof cc cell off slack tail : 0 <= off ->
  In cell (concat cc) -> ascii cell = true -> strip cell <> [] ->
  (forall y m d, date_ok y m d = true -> ~ In (strip cell) (date_texts y m d)) ->
  date_import (map (mk_chunk off slack tail) cc) = Raise E_ValueError.
Proof.
  intros Ho Hin Hascii Hne Hbad. rewrite date_chunk_independent_proof by exact Ho.
  rewrite (map_res_raise date_row E_ValueError (concat cc) cell); [reflexivity| |exact Hin|].
  - intros y _. apply date_row_res.
  - pose proof (date_cell_table_proof cell Hascii) as S.
    pose proof (date_cell_spec_deterministic_proof cell _ _ S (DC_bad cell Hne Hbad)) as E. exact E.
Qed.

(* ================================================================== the calendar behind midnight_us *)
(* consecutive civil dates have consecutive ordinals, and 1970-01-01 is day EPOCH_ORD: midnight_us y m d is
   86400 * 10^6 times the number of days from 1970-01-01 to y-m-d *)
Lemma days_before_year_succ y : 1 <= y ->
  days_before_year (y + 1) = days_before_year y + (if is_leap y then 366 else 365).
Proof.
  intros Hy. unfold days_before_year, is_leap. replace (y + 1 - 1) with y by lia.
  destruct ((y mod 4 =? 0) && negb (y mod 100 =? 0) || (y mod 400 =? 0)) eqn:E; lia.
Qed.

Lemma days_before_month_12 y : days_before_month_n y 12 = if is_leap y then 366 else 365.
Proof. unfold days_before_month_n, days_in_month. cbn. destruct (is_leap y); reflexivity. Qed.

Lemma ordinal_next y m d : date_ok y m d = true ->
  let '(y', m', d') := next_day y m d in ordinal y' m' d' = ordinal y m d + 1.
Proof.
  intros Hok. destruct (date_ok_ranges _ _ _ Hok) as [Ry [Rm Rd]].
  unfold date_ok in Hok. repeat (apply andb_prop in Hok; destruct Hok as [Hok ?]).
  unfold next_day. destruct (d <? days_in_month y m) eqn:E1.
  - unfold ordinal. lia.
  - assert (d = days_in_month y m) by lia. destruct (m <? 12) eqn:E2.
    + unfold ordinal. replace (Z.to_nat (m + 1 - 1)) with (S (Z.to_nat (m - 1))) by lia.
      cbn [days_before_month_n]. replace (Z.of_nat (S (Z.to_nat (m - 1)))) with m by lia. lia.
    + assert (m = 12) by lia. subst m. unfold ordinal.
      replace (Z.to_nat (1 - 1)) with O by reflexivity. replace (Z.to_nat (12 - 1)) with 11%nat by reflexivity.
      rewrite days_before_year_succ by lia.
      pose proof (days_before_month_12 y) as P. cbn [days_before_month_n] in P |- *.
      replace (Z.of_nat 12) with 12 in P by reflexivity. lia.
Qed.

Theorem midnight_next_day_proof y m d : date_ok y m d = true ->
  let '(y', m', d') := next_day y m d in midnight_us y' m' d' = midnight_us y m d + 86400 * 1000000.
Proof.
  intros Hok. pose proof (ordinal_next y m d Hok) as P. destruct (next_day y m d) as [[y' m'] d'].
  unfold midnight_us, instant_us. cbn [cy cmo cd chh cmi css]. rewrite P. lia.
Qed.

Lemma midnight_epoch : midnight_us 1970 1 1 = 0.
Proof. reflexivity. Qed.

(* the hypotheses of date_invalid_raises, from a computed run of the model *)
Lemma date_bad_of_run cell : ascii cell = true -> date_row cell = Raise E_ValueError ->
  strip cell <> [] /\ forall y m d, date_ok y m d = true -> ~ In (strip cell) (date_texts y m d).
Proof.
  intros Ha H. pose proof (date_cell_table_proof cell Ha) as S. rewrite H in S. inversion S. split; assumption.
Qed.

(* outside the ASCII domain: the year and the second digit of the day are matched by \d, which accepts every
   decimal digit of Unicode; such a text is no printing of any date, yet it is imported *)
Definition arabic_indic_2020_01_05 : list Z := [217; 162; 217; 160; 217; 162; 217; 160; 45; 48; 49; 45; 48; 53].

Lemma date_unicode_digits :
  ascii arabic_indic_2020_01_05 = false /\
  (forall y m d, ~ In (strip arabic_indic_2020_01_05) (date_texts y m d)) /\
  date_row arabic_indic_2020_01_05 = Ok (midnight_us 2020 1 5, [217; 162; 217; 160; 217; 162; 217; 160; 45; 48], 1).
Proof.
  split; [reflexivity|]. split; [|vm_compute; reflexivity].
  intros y m d Hin. apply date_texts_ascii in Hin. vm_compute in Hin. discriminate.
Qed.
