(* Proofs/ToCsvFastP.v — csv_parse_f (rev_append) = csv_parse (List.rev). *)
From Coq Require Import ZArith List Bool.
From EV Require Import Res Arr ToCsv ToCsvSpec ToCsvFast.
Import ListNotations.
Open Scope Z_scope.

Lemma frev_eq {A} (l:list A) : frev l = rev l.
Proof. unfold frev. symmetry. apply rev_alt. Qed.

Lemma close_rec_f_eq fld rec recs : close_rec_f fld rec recs = close_rec fld rec recs.
Proof. unfold close_rec_f, close_rec. rewrite !frev_eq. reflexivity. Qed.

Lemma step_sf_f_eq rec recs c : step_sf_f rec recs c = step_sf rec recs c.
Proof. unfold step_sf_f, step_sf. rewrite !close_rec_f_eq. reflexivity. Qed.

Lemma step_sr_f_eq recs c : step_sr_f recs c = step_sr recs c.
Proof. unfold step_sr_f, step_sr. rewrite step_sf_f_eq. reflexivity. Qed.

Lemma step_f_eq s c : step_f s c = step s c.
Proof.
  destruct s as [m fld rec recs]. unfold step_f, step.
  destruct m; rewrite ?step_sr_f_eq, ?step_sf_f_eq, ?close_rec_f_eq, ?frev_eq; reflexivity.
Qed.

Lemma finish_f_eq s : finish_f s = finish s.
Proof.
  destruct s as [m fld rec recs]. unfold finish_f, finish.
  destruct m; rewrite ?close_rec_f_eq, ?frev_eq; reflexivity.
Qed.

Lemma fold_step_f_eq file : forall s, fold_left step_f file s = fold_left step file s.
Proof.
  induction file as [|c t IH]; intros s; [reflexivity|].
  cbn [fold_left]. rewrite step_f_eq. apply IH.
Qed.

Theorem csv_parse_f_eq file : csv_parse_f file = csv_parse file.
Proof. unfold csv_parse_f, csv_parse. rewrite fold_step_f_eq. apply finish_f_eq. Qed.
