(* Proofs/JoinLU.v — KindOK for the left-unique kernels
   (generate_ordered_map_to_left_left_unique_partial, ..._to_inner_left_unique_partial):
   left keys strictly increasing and untrimmed, right keys sorted with repeats and trimmed;
   the kernel emits one pair per right row of the current left key and advances the left
   index when the look-ahead right[j+1] differs (or the trimmed window ends). *)
From Coq Require Import ZArith List Lia Bool ZifyBool.
From EV Require Import Res Arr Join JoinSpec JoinBase JoinIface JoinRows JoinWin.
Import ListNotations.
Open Scope Z_scope.

(* the pairs (I, a), (I, a+1), ..., (I, b-1) *)
Definition lu_pairs (I a b:Z) : list (Z * Z) := map (fun j => (I, j)) (seqZ a (b - a)).

Lemma lu_pairs_nil I a : lu_pairs I a a = [].
Proof. unfold lu_pairs. rewrite seqZ_nil by lia. reflexivity. Qed.

Lemma lu_pairs_snoc I a b : 0 <= a <= b -> lu_pairs I a (b + 1) = lu_pairs I a b ++ [(I, b)].
Proof.
  intros H. unfold lu_pairs. replace (b + 1 - a) with (b - a + 1) by lia.
  rewrite seqZ_snoc by lia. rewrite map_app. cbn [map]. do 3 f_equal. lia.
Qed.

Lemma len_lu_pairs I a b : a <= b -> len (lu_pairs I a b) = b - a.
Proof.
  intros H. unfold lu_pairs. unfold len at 1. rewrite map_length. fold (len (seqZ a (b - a))).
  apply seqZ_length. lia.
Qed.

Section LU.
Variables (emit:bool) (L R:list Z) (inv cs:Z).
Hypothesis HL : ssorted L.
Hypothesis HR : sorted R.
Hypothesis Hcs : 1 <= cs.

(* a = global index of the first right row of the current left key that was already emitted;
   a = J: nothing of row I emitted yet ("clean"); a < J: the run R[a..J] (J included) has key L[I] *)
Definition AbsLU (I J:Z) (sb:sub) (O:list (Z * Z)) : Prop :=
  s_inner sb = false /\
  0 <= I <= len L /\ 0 <= J <= len R /\
  exists a, 0 <= a <= J /\
    O = rows_upto emit inv L R I ++ lu_pairs I a J /\
    (forall j' i', 0 <= j' < a -> I <= i' < len L -> nthZ R j' < nthZ L i') /\
    (a < J -> I < len L /\ J < len R /\ forall j', a <= j' <= J -> nthZ R j' = nthZ L I).

(* the inner kernel has no `r < len(result)` guard: every write advances j, and j_max <= cs *)
Definition LocLU (s:fsm) : Prop := emit = false -> fr s <= fj s.

Lemma sortedL_LU : sorted L. Proof. apply ssorted_sorted, HL. Qed.

Lemma row_none_LU I J : 0 <= I < len L -> 0 <= J <= len R ->
  (forall j', 0 <= j' < J -> nthZ R j' < nthZ L I) ->
  (J < len R -> nthZ L I < nthZ R J) ->
  row emit inv R I (nthZ L I) = if emit then [(I, inv)] else [].
Proof.
  intros HI HJ Hlt Hgt.
  rewrite (row_interval emit inv R I (nthZ L I) J J); try lia.
  - replace (J <? J) with false by lia. reflexivity.
  - intros j Hj. specialize (Hlt j Hj). lia.
  - intros j Hj. specialize (Hgt ltac:(lia)). pose proof (HR J j ltac:(lia) ltac:(lia) ltac:(lia)). lia.
Qed.

Lemma row_run_LU I a b : 0 <= I < len L -> 0 <= a < b -> b <= len R ->
  (forall j', 0 <= j' < a -> nthZ R j' < nthZ L I) ->
  (forall j', a <= j' < b -> nthZ R j' = nthZ L I) ->
  (forall j', b <= j' < len R -> nthZ R j' <> nthZ L I) ->
  row emit inv R I (nthZ L I) = lu_pairs I a b.
Proof.
  intros HI Hab Hb Hlt Heq Hgt.
  rewrite (row_interval emit inv R I (nthZ L I) a b); try lia; try assumption.
  - replace (a <? b) with true by lia. reflexivity.
  - intros j Hj. specialize (Hlt j Hj). lia.
Qed.

Lemma kstep_ok_LU : forall p la lb ra rb s ol orr O,
  Win KLU emit L R inv cs p la lb ra rb -> Buf cs s -> Pos p s -> LocLU s ->
  AbsLU (la + fi s) (ra + fj s) (sub_of s) O -> OutRel KLU emit ol orr s O ->
  (kstep KLU emit p s = Ok None /\
   (fi s >= ki_max p \/ fj s >= kj_max p \/ fr s >= cs))
  \/
  (exists s' O', kstep KLU emit p s = Ok (Some s') /\
     Buf cs s' /\ Pos p s' /\ LocLU s' /\
     AbsLU (la + fi s') (ra + fj s') (sub_of s') O' /\ OutRel KLU emit ol orr s' O' /\
     fi s <= fi s' /\ fj s <= fj s' /\ fr s <= fr s' /\
     kmeas cs p s' < kmeas cs p s /\
     (fi s + fj s + fr s < fi s' + fj s' + fr s' \/
      (finner s = false /\ finner s' = true /\ fi s' = fi s /\ fj s' = fj s /\ fr s' = fr s))).
Proof.
  intros p la lb ra rb s ol orr O HW HB HP HLoc HA HO.
  pose proof (win_facts _ _ _ _ _ _ _ _ _ _ _ HW) as W. destruct W.
  cbn [ltrim rtrim v_ltrim v_rtrim v_kind] in wf_ltrim, wf_rtrim.
  destruct HB as (Hll & Hlr & Hrr). destruct HP as (Hpi & Hpj & Hpinn).
  destruct HA as (Hinn & HI & HJ & a0 & Ha0 & HOeq & Hfront & Hmid). cbn [sub_of s_inner] in Hinn.
  unfold LocLU in HLoc.
  assert (Hlenl : len (kleft p) = ki_max p) by lia.
  assert (Hlenr : kj_max p <= len (kright p)) by lia.
  cbn [kstep]. unfold step_lu. rewrite Hlenl, Hll.
  set (cond := if emit then (fi s <? ki_max p) && (fj s <? kj_max p) && (fr s <? cs)
               else (fi s <? ki_max p) && (fj s <? kj_max p)).
  destruct cond eqn:Ec; unfold cond in Ec.
  2:{ left. split; [reflexivity|]. destruct emit; lia. }
  right.
  assert (Hi : fi s < ki_max p) by (destruct emit; lia).
  assert (Hj : fj s < kj_max p) by (destruct emit; lia).
  assert (Hr : fr s < cs).
  { destruct emit; [lia|]. specialize (HLoc eq_refl). lia. }
  clear Ec cond.
  rewrite (wf_getl 21) by lia. rewrite (wf_getr 22) by lia. cbn [bind].
  set (I := la + fi s) in *. set (J := ra + fj s) in *.
  set (a := nthZ L I). set (b := nthZ R J).
  assert (HIlt : 0 <= I < len L) by (unfold I; lia).
  assert (HJlt : 0 <= J < len R) by (unfold J; lia).
  assert (Hfront_I : forall j', 0 <= j' < a0 -> nthZ R j' < nthZ L I) by (intros j' Hj'; apply Hfront; lia).
  assert (HWL : wl KLU emit = true) by (unfold wl, v_writes_l; cbn; destruct emit; reflexivity).
  destruct (Z.ltb_spec a b) as [E1|E1]; [|destruct (Z.ltb_spec b a) as [E2|E2]].
  - (* left key smaller: unmatched; only possible in a clean state *)
    assert (Hclean : a0 = J).
    { destruct (Z.eq_dec a0 J) as [e|ne]; [exact e|]. exfalso.
      destruct (Hmid ltac:(lia)) as (_ & _ & Hrun). specialize (Hrun J ltac:(lia)). fold a b in Hrun. lia. }
    subst a0. rewrite lu_pairs_nil, app_nil_r in HOeq.
    assert (Hrow : row emit inv R I (nthZ L I) = if emit then [(I, inv)] else []).
    { apply (row_none_LU I J); try lia; try assumption. }
    destruct (Bool.bool_dec emit true) as [Ee|Ee].
    + rewrite Ee. rewrite set_ok by lia. cbn [bind]. rewrite set_ok by lia. cbn [bind].
      eexists _, (O ++ [(I, inv)]). split; [reflexivity|].
      simp_st.
      splits; try lia.
      * unfold Buf. simp_st. rewrite !len_upd. lia.
      * unfold Pos. simp_st. splits; try lia; try (intros Hx; rewrite Hinn in Hx; discriminate).
      * unfold LocLU. simp_st. intros Hx. rewrite Ee in Hx. discriminate.
      * unfold AbsLU. simp_st. splits; try assumption; try lia.
        exists J. fold J. splits; try lia.
        -- replace (la + (fi s + 1)) with (I + 1) by (unfold I; lia).
           rewrite rows_upto_succ by lia. rewrite HOeq, Hrow, Ee, lu_pairs_nil, app_nil_r. reflexivity.
        -- intros j' i' Hj' Hi'. apply Hfront; unfold I, J in *; lia.
      * rewrite <- Ee. apply (OutRel_push KLU emit cs ol orr s _ O I inv HO); simp_st; try lia; try reflexivity.
        -- rewrite wf_inv. reflexivity.
        -- intros _. rewrite wf_ioff. unfold I. f_equal. lia.
      * unfold kmeas. simp_st. rewrite Hinn. lia.
    + apply Bool.not_true_is_false in Ee. rewrite Ee.
      eexists _, O. split; [reflexivity|].
      simp_st.
      splits; try lia.
      * unfold Buf. simp_st. lia.
      * unfold Pos. simp_st. splits; try lia; try (intros Hx; rewrite Hinn in Hx; discriminate).
      * unfold LocLU. simp_st. intros Hx. specialize (HLoc Hx). lia.
      * unfold AbsLU. simp_st. splits; try assumption; try lia.
        exists J. fold J. splits; try lia.
        -- replace (la + (fi s + 1)) with (I + 1) by (unfold I; lia).
           rewrite rows_upto_succ by lia. rewrite HOeq, Hrow, Ee, lu_pairs_nil, !app_nil_r. reflexivity.
        -- intros j' i' Hj' Hi'. apply Hfront; unfold I, J in *; lia.
      * rewrite <- Ee. apply (OutRel_same KLU emit ol orr s _ O HO); reflexivity.
      * unfold kmeas. simp_st. rewrite Hinn. lia.
  - (* right key smaller: skip it; only possible in a clean state *)
    assert (Hclean : a0 = J).
    { destruct (Z.eq_dec a0 J) as [e|ne]; [exact e|]. exfalso.
      destruct (Hmid ltac:(lia)) as (_ & _ & Hrun). specialize (Hrun J ltac:(lia)). fold a b in Hrun. lia. }
    subst a0. rewrite lu_pairs_nil, app_nil_r in HOeq.
    eexists _, O. split; [reflexivity|].
    simp_st.
    splits; try lia.
    * unfold Buf. simp_st. lia.
    * unfold Pos. simp_st. splits; try lia; try (intros Hx; rewrite Hinn in Hx; discriminate).
    * unfold LocLU. simp_st. intros Hx. specialize (HLoc Hx). lia.
    * unfold AbsLU. simp_st. splits; try assumption; try lia.
      exists (J + 1). replace (ra + (fj s + 1)) with (J + 1) by (unfold J; lia). fold I. splits; try lia.
      -- rewrite lu_pairs_nil, app_nil_r. exact HOeq.
      -- intros j' i' Hj' Hi'.
         destruct (Z.eq_dec j' J) as [->|Hne].
         ++ fold b. pose proof (sortedL_LU I i' ltac:(lia) ltac:(lia) ltac:(lia)) as H. fold a in H. lia.
         ++ apply Hfront; lia.
    * apply (OutRel_same KLU emit ol orr s _ O HO); reflexivity.
    * unfold kmeas. simp_st. rewrite Hinn. lia.
  - (* equal keys: emit (I, J); advance i when the run of this key ends at J *)
    assert (Hab : a = b) by lia.
    assert (Hrun : forall j', a0 <= j' <= J -> nthZ R j' = nthZ L I).
    { intros j' Hj'. destruct (Z.eq_dec a0 J) as [e|ne].
      - replace j' with J by lia. fold a b. lia.
      - destruct (Hmid ltac:(lia)) as (_ & _ & Hrun). apply Hrun. lia. }
    rewrite set_ok by lia. cbn [bind]. rewrite set_ok by lia. cbn [bind].
    (* the look-ahead *)
    assert (Hadv : exists adv,
      (if kj_max p <=? fj s + 1 then Ok true
       else do x <- get 27 (kright p) (fj s + 1); Ok (negb (x =? b))) = Ok adv /\
      (adv = true -> forall j', J + 1 <= j' < len R -> nthZ R j' <> nthZ L I) /\
      (adv = false -> J + 1 < len R /\ fj s + 1 < kj_max p /\ nthZ R (J + 1) = nthZ L I)).
    { destruct (kj_max p <=? fj s + 1) eqn:E3.
      - exists true. split; [reflexivity|]. split; [|discriminate].
        intros _ j' Hj'. assert (Hrb : rb = J + 1) by (unfold J; lia).
        destruct wf_rtrim as [Hend|(_ & Hne)]; [lia|].
        rewrite Hrb in Hne. replace (J + 1 - 1) with J in Hne by lia. fold b in Hne.
        pose proof (HR J (J + 1) ltac:(lia) ltac:(lia) ltac:(lia)) as H1.
        pose proof (HR (J + 1) j' ltac:(lia) ltac:(lia) ltac:(lia)) as H2. fold a b in H1 |- *. lia.
      - rewrite (wf_getr 27) by lia. cbn [bind].
        replace (ra + (fj s + 1)) with (J + 1) by (unfold J; lia).
        destruct (nthZ R (J + 1) =? b) eqn:E4; cbn [negb].
        + exists false. split; [reflexivity|]. split; [discriminate|]. intros _. fold a. lia.
        + exists true. split; [reflexivity|]. split; [|discriminate].
          intros _ j' Hj'.
          pose proof (HR J (J + 1) ltac:(lia) ltac:(lia) ltac:(lia)) as H1.
          pose proof (HR (J + 1) j' ltac:(lia) ltac:(lia) ltac:(lia)) as H2. fold a b in H1 |- *. lia. }
    destruct Hadv as (adv & Eadv & Hadv1 & Hadv0). rewrite Eadv. cbn [bind].
    eexists _, (O ++ [(I, J)]). split; [reflexivity|].
    simp_st.
    splits; try lia.
    * unfold Buf. simp_st. rewrite !len_upd. lia.
    * unfold Pos. simp_st. splits; try (destruct adv; lia); try (intros Hx; rewrite Hinn in Hx; discriminate).
    * unfold LocLU. simp_st. intros Hx. specialize (HLoc Hx). lia.
    * unfold AbsLU. simp_st. splits; try assumption; try (destruct adv; lia).
      replace (ra + (fj s + 1)) with (J + 1) by (unfold J; lia).
      destruct adv.
      -- (* the row of I is complete *)
         exists (J + 1). replace (la + (fi s + 1)) with (I + 1) by (unfold I; lia). splits; try lia.
         ++ rewrite rows_upto_succ by lia.
            rewrite (row_run_LU I a0 (J + 1)); try lia; try assumption.
            ** rewrite HOeq, lu_pairs_nil, app_nil_r, lu_pairs_snoc by lia. rewrite app_assoc. reflexivity.
            ** intros j' Hj'. apply Hrun. lia.
            ** apply Hadv1. reflexivity.
         ++ intros j' i' Hj' Hi'.
            assert (nthZ R j' <= nthZ L I).
            { destruct (Z_lt_le_dec j' a0) as [Hlt|Hge].
              - specialize (Hfront_I j' ltac:(lia)). lia.
              - rewrite Hrun by lia. lia. }
            pose proof (HL I i' ltac:(lia) ltac:(lia) ltac:(lia)). lia.
      -- (* still inside the run of key L[I] *)
         destruct (Hadv0 eq_refl) as (Hj1 & Hj2 & Hnext).
         exists a0. fold I. splits; try lia.
         ++ rewrite HOeq, lu_pairs_snoc by lia. rewrite app_assoc. reflexivity.
         ++ exact Hfront.
         ++ intros _. splits; try lia. intros j' Hj'.
            destruct (Z.eq_dec j' (J + 1)) as [->|Hne]; [exact Hnext|]. apply Hrun. lia.
    * apply (OutRel_push KLU emit cs ol orr s _ O I J HO); simp_st; try lia.
      -- rewrite wf_joff. unfold J. f_equal. lia.
      -- intros _. rewrite wf_ioff. unfold I. f_equal. lia.
    * unfold kmeas. simp_st. rewrite Hinn. destruct adv; lia.
Qed.

Lemma Abs_final_LU : forall I J sb O, AbsLU I J sb O -> s_inner sb = false ->
  0 <= I <= len L -> 0 <= J <= len R -> (I = len L \/ J = len R) ->
  O ++ (if emit then unmatched inv I (len L) else []) = join_spec emit inv L R.
Proof.
  intros I J sb O (_ & _ & _ & a0 & Ha0 & HO & Hfront & Hmid) _ HI HJ Hend.
  assert (a0 = J) by (destruct (Z.eq_dec a0 J) as [e|ne]; [exact e|]; destruct (Hmid ltac:(lia)); lia).
  subst a0. rewrite lu_pairs_nil, app_nil_r in HO. subst O.
  symmetry. apply rows_unmatched_tail; [lia|].
  intros i Hi. destruct Hend as [He|He]; [lia|].
  apply matches_from_none. intros j Hj. specialize (Hfront j i ltac:(lia) ltac:(lia)). lia.
Qed.

Lemma Abs_len_LU : forall I J sb O, AbsLU I J sb O -> 0 <= I <= len L -> 0 <= J <= len R ->
  len O <= len L * len R + len L + len R.
Proof.
  intros I J sb O (_ & _ & _ & a0 & Ha0 & HO & _ & Hmid) HI HJ. subst O.
  rewrite len_app, len_lu_pairs by lia.
  pose proof (len_rows_upto emit inv L R I HI) as H1. pose proof (len_nonneg R) as H2.
  destruct (Z.eq_dec a0 J) as [e|ne]; [nia|].
  destruct (Hmid ltac:(lia)) as (H3 & H4 & _). nia.
Qed.

(* O = rows_upto I ++ the first J-a pairs of row I (the run R[a..J] has key L[I], everything before a is smaller) *)
Lemma Abs_prefix_LU : forall I J sb O, AbsLU I J sb O -> 0 <= I <= len L -> 0 <= J <= len R ->
  exists rest, join_spec emit inv L R = O ++ rest.
Proof.
  intros I J sb O (_ & _ & _ & a0 & Ha0 & HO & Hfront & Hmid) HI HJ. subst O.
  destruct (Z.eq_dec a0 J) as [e|ne].
  - subst a0. rewrite lu_pairs_nil, app_nil_r. apply rows_upto_prefix. exact HI.
  - destruct (Hmid ltac:(lia)) as (HIlt & HJlt & Hrun).
    destruct (row_run_prefix emit inv R I (nthZ L I) a0 J ltac:(lia) ltac:(lia)) as (suf & Hrow).
    + intros j Hj. specialize (Hfront j I ltac:(lia) ltac:(lia)). lia.
    + intros j Hj. apply Hrun. lia.
    + apply (rows_row_prefix emit inv L R I _ suf); [lia|exact Hrow].
Qed.

Definition KindOK_LU : KindOK KLU emit L R inv cs.
Proof.
  refine (mkKindOK KLU emit L R inv cs AbsLU LocLU _ _ Abs_len_LU kstep_ok_LU Abs_final_LU Abs_prefix_LU).
  - intros s Hr Hi Hj. unfold LocLU. lia.
  - unfold AbsLU. simp_st. pose proof (len_nonneg L). pose proof (len_nonneg R).
    splits; try lia; try reflexivity.
    exists 0. splits; try lia; try reflexivity.
Defined.

End LU.
