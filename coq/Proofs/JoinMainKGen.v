(* Proofs/JoinMainKGen.v — the end results of C03 for the general streamed joins
   (generate_ordered_map_to_left_streamed / generate_ordered_map_to_inner_streamed: duplicates
   allowed on both sides, both sides trimmed), from JoinDriver.streamed_ok and KindOK_Gen. *)
From Coq Require Import ZArith List Lia Bool ZifyBool.
From EV Require Import Res Arr Join JoinSpec JoinBase JoinIface JoinRows JoinWin JoinDriver JoinGen JoinMain.
Import ListNotations.
Open Scope Z_scope.

(* the streamed general join returns the relational join, or raises the ValueError of
   get_next_chunk, and that only when one side has a window of cs equal keys that continues *)
Lemma streamed_gen_ok is_left L R inv cs :
  1 <= cs -> sorted L -> sorted R ->
  streamed (mkvar KGen is_left) L R inv cs = Ok (expected KGen is_left inv L R)
  \/ (streamed (mkvar KGen is_left) L R inv cs = Raise E_ValueError /\ LongRun KGen is_left L R cs).
Proof.
  intros Hcs HL HR.
  exact (streamed_ok KGen is_left L R inv cs (KindOK_Gen is_left L R inv cs HL HR Hcs) Hcs).
Qed.

(* every window of cs consecutive keys X[a..a+cs) that does not reach the end of X contains two
   different adjacent keys *)
Definition no_long_run (cs:Z) (X:list Z) : Prop :=
  forall a, 0 <= a -> a + cs < len X ->
  exists k, a < k < a + cs /\ nthZ X (k - 1) <> nthZ X k.

Lemma no_long_run_not cs X : no_long_run cs X -> ~ long_run_in cs X.
Proof.
  intros H (a & Ha & Hlt & Hall). destruct (H a Ha Hlt) as (k & Hk & Hne). apply Hne, Hall, Hk.
Qed.

Lemma no_long_run_LongRun is_left L R cs :
  no_long_run cs L -> no_long_run cs R -> ~ LongRun KGen is_left L R cs.
Proof.
  intros HnL HnR [(_ & H)|(_ & H)]; [exact (no_long_run_not cs L HnL H)|exact (no_long_run_not cs R HnR H)].
Qed.

Lemma streamed_gen_correct is_left L R inv cs :
  1 <= cs -> sorted L -> sorted R -> no_long_run cs L -> no_long_run cs R ->
  streamed (mkvar KGen is_left) L R inv cs = Ok (expected KGen is_left inv L R).
Proof.
  intros Hcs HL HR HnL HnR.
  destruct (streamed_gen_ok is_left L R inv cs Hcs HL HR) as [H|(_ & H)]; [exact H|].
  exfalso. exact (no_long_run_LongRun is_left L R cs HnL HnR H).
Qed.

(* chunking is unobservable *)
Lemma streamed_gen_chunking is_left L R inv cs1 cs2 :
  1 <= cs1 -> 1 <= cs2 -> sorted L -> sorted R ->
  no_long_run cs1 L -> no_long_run cs1 R -> no_long_run cs2 L -> no_long_run cs2 R ->
  streamed (mkvar KGen is_left) L R inv cs1 = streamed (mkvar KGen is_left) L R inv cs2.
Proof.
  intros H1 H2 HL HR A1 B1 A2 B2.
  rewrite (streamed_gen_correct is_left L R inv cs1), (streamed_gen_correct is_left L R inv cs2); auto.
Qed.

(* the hypotheses are satisfiable by an input with duplicates on both sides, whose cartesian
   blocks straddle the buffer flushes (cs = 3) *)
Example streamed_gen_example :
  let L := [1; 1; 2; 3; 3] in let R := [1; 3; 3; 4] in
  sorted L /\ sorted R /\ no_long_run 3 L /\ no_long_run 3 R /\
  streamed (mkvar KGen true) L R (-1) 3 =
    Ok ([0; 1; 2; 3; 3; 4; 4], [0; 0; -1; 1; 2; 1; 2]).
Proof.
  cbv zeta. splits.
  - apply sortedb_sorted. reflexivity.
  - apply sortedb_sorted. reflexivity.
  - intros a Ha Hlt. change (len [1; 1; 2; 3; 3]) with 5 in Hlt.
    assert (Hc : a = 0 \/ a = 1) by lia. destruct Hc as [->| ->]; exists 2; (split; [lia|]); cbv; discriminate.
  - intros a Ha Hlt. change (len [1; 3; 3; 4]) with 4 in Hlt.
    assert (Hc : a = 0) by lia. subst a. exists 1. (split; [lia|]); cbv; discriminate.
  - vm_compute. reflexivity.
Qed.

Print Assumptions streamed_gen_ok.
Print Assumptions streamed_gen_correct.
Print Assumptions streamed_gen_chunking.
