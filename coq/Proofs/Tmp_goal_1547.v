(* Proofs/JoinDriver.v — the generic driver proof: for any kernel kind satisfying KindOK,
   the streamed driver (chunk refills, buffer flushes, tail loop) returns the relational
   join, or raises the clear ValueError of get_next_chunk; never OOB, never OutOfFuel. *)
From Coq Require Import ZArith List Lia Bool ZifyBool.
From EV Require Import Res Arr Join JoinSpec JoinBase JoinIface.
Import ListNotations.
Open Scope Z_scope.

Section Driver.
Variables (k:kind) (emit:bool) (L R:list Z) (inv cs:Z).
Variable K : KindOK k emit L R inv cs.
Hypothesis Hcs : 1 <= cs.

Notation v := (mkvar k emit).
Notation WL := (wl k emit).
Notation AbsK := (Abs k emit L R inv cs K).
Notation LocK := (Loc k emit L R inv cs K).

Lemma kmeas_nonneg p s : Buf cs s -> Pos p s -> 0 <= kmeas cs p s.
Proof.
  intros (Hl & Hr & Hrr) (Hi & Hj & _). unfold kmeas. destruct (finner s); lia.
Qed.

(* ---------------------------------------------------------------- one kernel call *)
Lemma krun_ok : forall fuel p la lb ra rb s ol orr O,
  Win k emit L R inv cs p la lb ra rb -> Buf cs s -> Pos p s -> LocK s ->
  AbsK (la + fi s) (ra + fj s) (sub_of s) O -> OutRel k emit ol orr s O ->
  Z.of_nat fuel > kmeas cs p s ->
  exists s' O', krun fuel k emit p s = Ok s' /\
    Buf cs s' /\ Pos p s' /\
    AbsK (la + fi s') (ra + fj s') (sub_of s') O' /\ OutRel k emit ol orr s' O' /\
    (fi s' >= ki_max p \/ fj s' >= kj_max p \/ fr s' >= cs) /\
    fi s <= fi s' /\ fj s <= fj s' /\ fr s <= fr s' /\
    (fi s < ki_max p -> fj s < kj_max p -> fr s < cs ->
     fi s + fj s + fr s < fi s' + fj s' + fr s').
Proof.
  induction fuel as [|fuel IH]; intros p la lb ra rb s ol orr O HW HB HP HL HA HO Hf.
  - pose proof (kmeas_nonneg p s HB HP). lia.
  - cbn [krun].
    destruct (kstep_ok k emit L R inv cs K p la lb ra rb s ol orr O HW HB HP HL HA HO)
      as [[E Hstop]|(s1 & O1 & E & HB1 & HP1 & HL1 & HA1 & HO1 & Hi1 & Hj1 & Hr1 & Hm1 & Hprog)].
    + rewrite E. cbn [bind]. exists s, O. splits; try assumption; try reflexivity; try lia.
    + rewrite E. cbn [bind].
      destruct (IH p la lb ra rb s1 ol orr O1 HW HB1 HP1 HL1 HA1 HO1 ltac:(lia))
        as (s' & O' & E' & HB' & HP' & HA' & HO' & Hstop' & Hi' & Hj' & Hr' & Hprog').
      exists s', O'. split; [exact E'|]. splits; try assumption; try lia.
Qed.

(* ---------------------------------------------------------------- driver invariant *)
Definition params_of (d:drv) : kparams :=
  mkkp (left_ d) (i_max_ d) (right_ d) (j_max_ d) inv (i_off_ d) (j_off_ d).

Definition DInv (d:drv) (O:list (Z * Z)) : Prop :=
  let s := df d in
  Win k emit L R inv cs (params_of d) (fst (lch d)) (snd (lch d)) (fst (rch d)) (snd (rch d)) /\
  Buf cs s /\ fr s = 0 /\ Pos (params_of d) s /\
  AbsK (i_off_ d + fi s) (j_off_ d + fj s) (sub_of s) O /\
  outr d = map snd O /\ (if WL then outl d = map fst O else outl d = []) /\
  (fi s < i_max_ d \/ i_off_ d + fi s = len L) /\
  (fj s < j_max_ d \/ j_off_ d + fj s = len R).

Definition CAP : Z := len L * len R + len L + len R.
Definition dmeas (d:drv) (O:list (Z * Z)) : Z :=
  (len L - (i_off_ d + fi (df d))) + (len R - (j_off_ d + fj (df d))) + (CAP - len O).

Lemma DInv_bounds d O : DInv d O ->
  0 <= i_off_ d + fi (df d) <= len L /\ 0 <= j_off_ d + fj (df d) <= len R.
Proof.
  intros (HW & HB & Hr0 & HP & _).
  destruct HW as (_ & Hio & Him & HcL & Hjo & Hjm & HcR).
  destruct HcL as (HL1 & HL2 & HL3 & _). destruct HcR as (HR1 & HR2 & HR3 & _).
  destruct HP as (Hi & Hj & _). cbn [params_of ki_off ki_max kj_off kj_max] in *. lia.
Qed.

Lemma dmeas_nonneg d O : DInv d O -> 0 <= dmeas d O.
Proof.
  intros HD. pose proof (DInv_bounds d O HD) as (HI & HJ).
  destruct HD as (_ & _ & _ & _ & HA & _).
  pose proof (Abs_len k emit L R inv cs K _ _ _ _ HA HI HJ). unfold dmeas, CAP. lia.
Qed.

Lemma len_map_fst_snd (O:list (Z*Z)) : len (map snd O) = len O /\ len (map fst O) = len O.
Proof. unfold len. rewrite !map_length. split; reflexivity. Qed.

Lemma sub_of_set_i s x : sub_of (set_i s x) = sub_of s. Proof. reflexivity. Qed.
Lemma sub_of_set_j s x : sub_of (set_j s x) = sub_of s. Proof. reflexivity. Qed.
Lemma sub_of_set_r s x : sub_of (set_r s x) = sub_of s. Proof. reflexivity. Qed.

Lemma slice_0_0 {A} (l:list A) : slice l 0 0 = [].
Proof. reflexivity. Qed.

(* one iteration of the main loop *)
Lemma main_iter_ok d O : DInv d O ->
  main_iter v L R inv cs d = Raise E_ValueError \/
  (main_iter v L R inv cs d = Ok None /\
   (i_off_ d + fi (df d) = len L \/ j_off_ d + fj (df d) = len R)) \/
  (exists d' O', main_iter v L R inv cs d = Ok (Some d') /\ DInv d' O' /\ dmeas d' O' < dmeas d O).
Proof.
  intros HD. pose proof (DInv_bounds d O HD) as (HI & HJ).
  destruct HD as (HW & HB & Hr0 & HP & HA & Hor & Hol & HheadL & HheadR).
  unfold main_iter.
  replace (fi (df d) + i_off_ d) with (i_off_ d + fi (df d)) by lia.
  replace (fj (df d) + j_off_ d) with (j_off_ d + fj (df d)) by lia.
  destruct ((i_off_ d + fi (df d) <? len L) && (j_off_ d + fj (df d) <? len R)) eqn:Econd;
    [|right; left; split; [reflexivity|lia]].
  fold (params_of d). cbn [v_kind v_left].
  set (s := df d) in *.
  pose proof HW as HW0.
  destruct HW as (Hpinv & Hio & Him & HcL & Hjo & Hjm & HcR).
  pose proof HcL as HcL0. pose proof HcR as HcR0.
  destruct HcL as (HL1 & HL2 & HL3 & HLd & HL5 & HLt). destruct HcR as (HR1 & HR2 & HR3 & HRd & HR5 & HRt).
  cbn [params_of ki_off ki_max kj_off kj_max kleft kright] in Hio, Him, Hjo, Hjm, HLd, HRd.
  assert (Hlenl : len (left_ d) = Z.min (fst (lch d) + cs) (len L) - fst (lch d))
    by (rewrite HLd; apply len_slice; lia).
  assert (Hlenr : len (right_ d) = Z.min (fst (rch d) + cs) (len R) - fst (rch d))
    by (rewrite HRd; apply len_slice; lia).
  (* the kernel call *)
  assert (HOut : OutRel k emit (outl d) (outr d) s O).
  { unfold OutRel. rewrite Hr0. rewrite !slice_0_0, !app_nil_r. split; [exact Hor|].
    destruct WL; assumption. }
  assert (HLoc : LocK s).
  { apply Loc_init; [exact Hr0| |]; destruct HP as (? & ? & _); lia. }
  assert (HAbs : AbsK (fst (lch d) + fi s) (fst (rch d) + fj s) (sub_of s) O).
  { rewrite <- Hio, <- Hjo. exact HA. }
  assert (Hfuel : Z.of_nat (kfuel d cs) > kmeas cs (params_of d) s).
  { unfold kfuel, kmeas. destruct HP as (Hi & Hj & _). destruct HB as (_ & _ & Hrr).
    unfold params_of in *; cbn [ki_max kj_max] in *. unfold len in *.
    destruct (finner s); lia. }
  destruct (krun_ok (kfuel d cs) (params_of d) _ _ _ _ s (outl d) (outr d) O HW0 HB HP HLoc HAbs HOut Hfuel)
    as (s' & O' & E & HB' & HP' & HA' & HO' & Hstop & Hi' & Hj' & Hr' & Hprog).
  rewrite E. cbn [bind].
  assert (Hhead_i : fi s < i_max_ d) by lia.
  assert (Hhead_j : fj s < j_max_ d) by lia.
  assert (Hprog' : fi s + fj s + fr s < fi s' + fj s' + fr s').
  { apply Hprog; unfold params_of; cbn [ki_max kj_max]; lia. }
  destruct HP' as (Hpi & Hpj & Hpinn).
  unfold params_of in Hpi, Hpj, Hpinn, Hstop. cbn [ki_max kj_max] in Hpi, Hpj, Hpinn, Hstop.
  (* ---- left refill *)
  set (condL := (i_off_ d + fi s' <? len L) && (snd (lch d) - fst (lch d) <=? fi s')).
  assert (HleftStep :
    (condL = true /\ fetch_chunk (v_ltrim v) (snd (lch d)) cs L = Raise E_ValueError) \/
    exists d1, (if condL then
                  do c <- fetch_chunk (v_ltrim v) (snd (lch d)) cs L;
                  Ok (mkdrv (set_i s' 0) (fst c) (snd c) (snd (fst c) - fst (fst c)) (fst (fst c))
                            (rch d) (right_ d) (j_max_ d) (j_off_ d) (outl d) (outr d))
                else Ok (set_f d s')) = Ok d1 /\
      (* facts about d1 *)
      rch d1 = rch d /\ right_ d1 = right_ d /\ j_max_ d1 = j_max_ d /\ j_off_ d1 = j_off_ d /\
      outl d1 = outl d /\ outr d1 = outr d /\
      fj (df d1) = fj s' /\ fr (df d1) = fr s' /\ lres (df d1) = lres s' /\ rres (df d1) = rres s' /\
      sub_of (df d1) = sub_of s' /\
      i_off_ d1 + fi (df d1) = i_off_ d + fi s' /\
      i_off_ d1 = fst (lch d1) /\ i_max_ d1 = snd (lch d1) - fst (lch d1) /\
      chunk_ok (ltrim k emit) L cs (fst (lch d1)) (snd (lch d1)) (left_ d1) /\
      0 <= fi (df d1) <= i_max_ d1 /\
      (finner (df d1) = true -> fi (df d1) < i_max_ d1) /\
      (fi (df d1) < i_max_ d1 \/ i_off_ d1 + fi (df d1) = len L)).
  { destruct condL eqn:EcL.
    - unfold condL in EcL. apply andb_prop in EcL. destruct EcL as [Ec1 Ec2].
      assert (Hinn : finner s' = false).
      { destruct (finner s') eqn:Ein; [|reflexivity]. specialize (Hpinn eq_refl). lia. }
      destruct (fetch_chunk_spec (v_ltrim v) (snd (lch d)) cs L Hcs ltac:(lia))
        as [Hraise|(b & data & Ef & Hck)].
      + left. split; [reflexivity|exact Hraise].
      + right. rewrite Ef. cbn [bind fst snd].
        eexists. split; [reflexivity|]. cbn [rch right_ j_max_ j_off_ outl outr df lch left_ i_max_ i_off_ fst snd].
        cbn [set_i fi fj fr lres rres finner].
        pose proof Hck as Hck0. destruct Hck as (Hk1 & Hk2 & Hk3 & Hk4 & Hk5 & Hk6).
        repeat split; try reflexivity; try lia; try assumption;
          try (intros Hx; rewrite Hinn in Hx; discriminate).
    - right. eexists. split; [reflexivity|]. unfold set_f.
      cbn [rch right_ j_max_ j_off_ outl outr df lch left_ i_max_ i_off_ fst snd].
      unfold condL in EcL.
      repeat split; try reflexivity; try lia; try assumption;
        try (intros Hx; apply Hpinn in Hx; lia). }
  destruct HleftStep as [[EcL Hraise]|(d1 & Ed1 & Hd1)].
  { left. rewrite EcL. rewrite Hraise. reflexivity. }
  fold condL. rewrite Ed1. cbn [bind].
  destruct Hd1 as (Hrch & Hright & Hjmax & Hjoff & Houtl1 & Houtr1 & Hfj1 & Hfr1 & Hlres1 & Hrres1 & Hsub1 &
                   HI1 & Hio1 & Him1 & Hck1 & Hpi1 & Hinn1 & Hhead1).
  (* ---- right refill *)
  set (condR := (j_off_ d1 + fj (df d1) <? len R) && (snd (rch d1) - fst (rch d1) <=? fj (df d1))).
  assert (HrightStep :
    (condR = true /\ fetch_chunk (v_rtrim v) (snd (rch d1)) cs R = Raise E_ValueError) \/
    exists d2, (if condR then
                  do c <- fetch_chunk (v_rtrim v) (snd (rch d1)) cs R;
                  Ok (mkdrv (set_j (df d1) 0) (lch d1) (left_ d1) (i_max_ d1) (i_off_ d1)
                            (fst c) (snd c) (snd (fst c) - fst (fst c)) (fst (fst c)) (outl d1) (outr d1))
                else Ok d1) = Ok d2 /\
      lch d2 = lch d1 /\ left_ d2 = left_ d1 /\ i_max_ d2 = i_max_ d1 /\ i_off_ d2 = i_off_ d1 /\
      outl d2 = outl d /\ outr d2 = outr d /\
      fi (df d2) = fi (df d1) /\ fr (df d2) = fr s' /\ lres (df d2) = lres s' /\ rres (df d2) = rres s' /\
      sub_of (df d2) = sub_of s' /\
      j_off_ d2 + fj (df d2) = j_off_ d + fj s' /\
      j_off_ d2 = fst (rch d2) /\ j_max_ d2 = snd (rch d2) - fst (rch d2) /\
      chunk_ok (rtrim k emit) R cs (fst (rch d2)) (snd (rch d2)) (right_ d2) /\
      0 <= fj (df d2) <= j_max_ d2 /\
      (finner (df d2) = true -> fj (df d2) < j_max_ d2) /\
      (fj (df d2) < j_max_ d2 \/ j_off_ d2 + fj (df d2) = len R)).
  { destruct condR eqn:EcR.
    - unfold condR in EcR. apply andb_prop in EcR. destruct EcR as [Ec1 Ec2].
      rewrite Hfj1 in Ec1, Ec2. rewrite Hjoff in Ec1. rewrite Hrch in Ec2.
      assert (Hinn : finner s' = false).
      { destruct (finner s') eqn:Ein; [|reflexivity]. specialize (Hpinn eq_refl). lia. }
      rewrite Hrch.
      destruct (fetch_chunk_spec (v_rtrim v) (snd (rch d)) cs R Hcs ltac:(lia))
        as [Hraise|(b & data & Ef & Hck)].
      + left. split; [reflexivity|exact Hraise].
      + right. rewrite Ef. cbn [bind fst snd].
        eexists. split; [reflexivity|]. cbn [rch right_ j_max_ j_off_ outl outr df lch left_ i_max_ i_off_ fst snd].
        cbn [set_j fi fj fr lres rres finner].
        destruct Hck as (Hk1 & Hk2 & Hk3 & Hk4 & Hk5 & Hk6).
        repeat split; try reflexivity; try lia; try assumption.
        * unfold chunk_ok. repeat split; try lia; assumption.
Show. 
