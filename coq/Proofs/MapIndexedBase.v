(* Proofs/MapIndexedBase.v — list lemmas for the indexed-string drivers: running offsets,
   byte copies into a prefix of a buffer, the value-window decomposition. *)
From Coq Require Import ZArith List Lia Bool.
From EV Require Import Res Arr MapStream MapStreamSpec MapStreamBase.
Import ListNotations.
Open Scope Z_scope.

(* running end offsets of a list of strings, starting after `acc` bytes *)
Fixpoint offs_tail (acc:Z) (strs:list (list Z)) : list Z :=
  match strs with
  | [] => []
  | s :: t => (acc + len s) :: offs_tail (acc + len s) t
  end.

Definition total (strs:list (list Z)) : Z := len (concat strs).

Lemma total_nil : total [] = 0.
Proof. reflexivity. Qed.

Lemma total_cons s t : total (s :: t) = len s + total t.
Proof. unfold total. cbn [concat]. apply len_app. Qed.

Lemma total_app a b : total (a ++ b) = total a + total b.
Proof. unfold total. rewrite concat_app. apply len_app. Qed.

Lemma total_nonneg l : 0 <= total l.
Proof. apply len_nonneg. Qed.

Lemma offs_tail_app acc a b : offs_tail acc (a ++ b) = offs_tail acc a ++ offs_tail (acc + total a) b.
Proof.
  revert acc. induction a as [|s t IH]; intros acc.
  - cbn [app offs_tail]. rewrite total_nil, Z.add_0_r. reflexivity.
  - cbn [app offs_tail]. rewrite IH. rewrite total_cons. f_equal. f_equal. f_equal. lia.
Qed.

Lemma len_offs_tail acc l : len (offs_tail acc l) = len l.
Proof. revert acc. induction l as [|s t IH]; intros acc; [reflexivity|]. cbn [offs_tail]. rewrite !len_cons, IH. reflexivity. Qed.

Lemma psums_from_offs_tail acc strs : psums_from acc (map (@len Z) strs) = acc :: offs_tail acc strs.
Proof.
  revert acc. induction strs as [|s t IH]; intros acc; [reflexivity|].
  cbn [map psums_from offs_tail]. rewrite IH. reflexivity.
Qed.

Lemma offsets_of_offs_tail strs : offsets_of strs = 0 :: offs_tail 0 strs.
Proof. apply psums_from_offs_tail. Qed.

Lemma offs_tail_all_empty acc (l:list (list Z)) : (forall s, In s l -> s = []) ->
  offs_tail acc l = repeat acc (length l).
Proof.
  induction l as [|s t IH]; intros H; [reflexivity|].
  cbn [offs_tail length repeat]. rewrite (H s (or_introl eq_refl)). rewrite len_nil, Z.add_0_r.
  f_equal. apply IH. intros s' Hs'. apply H. right. exact Hs'.
Qed.

Lemma concat_all_empty (l:list (list Z)) : (forall s, In s l -> s = []) -> concat l = [].
Proof.
  induction l as [|s t IH]; intros H; [reflexivity|].
  cbn [concat]. rewrite (H s (or_introl eq_refl)). apply IH. intros s' Hs'. apply H. right. exact Hs'.
Qed.

(* ---------- slices ---------- *)
Lemma slice_empty {A} (l:list A) a : slice l a a = [].
Proof. unfold slice. rewrite Z.sub_diag. reflexivity. Qed.

Lemma slice_cons_nthd {A} (d:A) (l:list A) a b : 0 <= a -> a < b -> b <= len l ->
  slice l a b = nthd d l a :: slice l (a + 1) b.
Proof.
  intros Ha Hab Hb. apply (list_eq_nthd d).
  - rewrite len_cons. rewrite !len_slice by lia. lia.
  - intros i Hi. rewrite len_slice in Hi by lia. rewrite nthd_slice by lia.
    destruct (Z.eq_dec i 0) as [->|Hne].
    + rewrite nthd_cons_0. f_equal. lia.
    + replace i with ((i - 1) + 1) at 2 by lia. rewrite nthd_cons_succ by lia.
      rewrite nthd_slice by lia. f_equal. lia.
Qed.

Lemma slice_snoc {A} (l:list A) a b c : 0 <= a -> a <= b -> b <= c -> c <= len l ->
  slice l a c = slice l a b ++ slice l b c.
Proof.
  intros Ha Hab Hbc Hc. destruct l as [|d0 l'] eqn:El.
  - unfold len in Hc. cbn in Hc. assert (a = 0) by lia. assert (b = 0) by lia. assert (c = 0) by lia. subst. reflexivity.
  - rewrite <- El in *. apply (list_eq_nthd d0).
    + rewrite len_app. rewrite !len_slice by lia. lia.
    + intros i Hi. rewrite len_slice in Hi by lia. rewrite nthd_slice by lia.
      destruct (Z_lt_dec i (b - a)) as [Hlt|Hge].
      * rewrite nthd_app_l by (rewrite len_slice by lia; lia). rewrite nthd_slice by lia. reflexivity.
      * rewrite nthd_app_r by (rewrite len_slice by lia; lia). rewrite len_slice by lia.
        rewrite nthd_slice by lia. f_equal. lia.
Qed.

Lemma slice_firstn {A} (l:list A) b : slice l 0 b = firstn (Z.to_nat b) l.
Proof. unfold slice. cbn [Z.to_nat skipn]. rewrite Z.sub_0_r. reflexivity. Qed.

(* writing at the end of a prefix *)
Lemma firstn_upd_snoc {A} (l:list A) k x : 0 <= k < len l ->
  firstn (Z.to_nat (k + 1)) (upd l k x) = firstn (Z.to_nat k) l ++ [x].
Proof.
  intros H. unfold upd. replace (Z.to_nat (k + 1)) with (S (Z.to_nat k)) by lia.
  apply firstn_succ_upd_nat. unfold len in H. lia.
Qed.

Lemma firstn_upd_before {A} (l:list A) k j x : 0 <= j <= k -> firstn (Z.to_nat j) (upd l k x) = firstn (Z.to_nat j) l.
Proof. intros H. unfold upd. apply firstn_upd_nat_lt. lia. Qed.

(* ---------- copy_bytes ---------- *)
Lemma copy_bytes_spec n : forall values v rval rv,
  0 <= v -> v + Z.of_nat n <= len values -> 0 <= rv -> rv + Z.of_nat n <= len rval ->
  exists rval', copy_bytes n values v rval rv = Ok (rval', rv + Z.of_nat n) /\
                len rval' = len rval /\
                firstn (Z.to_nat (rv + Z.of_nat n)) rval' =
                firstn (Z.to_nat rv) rval ++ slice values v (v + Z.of_nat n).
Proof.
  induction n as [|n IH]; intros values v rval rv Hv Hvn Hr Hrn.
  - exists rval. cbn [copy_bytes]. rewrite Z.add_0_r. split; [reflexivity|]. split; [reflexivity|].
    rewrite Z.add_0_r. rewrite slice_empty, app_nil_r. reflexivity.
  - cbn [copy_bytes]. rewrite (getZ_ok 141 values v) by lia. cbn [bind].
    rewrite set_ok by lia. cbn [bind].
    destruct (IH values (v + 1) (upd rval rv (nthZ values v)) (rv + 1)) as [r' [H1 [H2 H3]]]; try lia.
    { rewrite len_upd. lia. }
    exists r'. replace (rv + Z.of_nat (S n)) with (rv + 1 + Z.of_nat n) by lia.
    split; [exact H1|]. split; [rewrite H2; apply len_upd|].
    rewrite H3. rewrite firstn_upd_snoc by lia. rewrite <- app_assoc. f_equal.
    replace (v + Z.of_nat (S n)) with (v + 1 + Z.of_nat n) by lia.
    rewrite (slice_cons_nthd 0 values v (v + 1 + Z.of_nat n)) by lia. reflexivity.
Qed.

(* ---------- np_get on in-range indices ---------- *)
Lemma np_get_ok {A} (d:A) (l:list A) k : 0 <= k < len l -> np_get l k = Ok (nthd d l k).
Proof.
  intros H. unfold np_get. destruct (k <? 0) eqn:E; [lia|]. rewrite E.
  unfold nthd, len in *. destruct (nth_error l (Z.to_nat k)) eqn:N.
  - f_equal. symmetry. apply nth_error_nth. exact N.
  - apply nth_error_None in N. lia.
Qed.

(* ---------- chains ---------- *)
Lemma chain_app a : forall s mid e b, chain a s mid -> chain b mid e -> mid <= e -> chain (a ++ b) s e.
Proof.
  induction a as [|p t IH]; intros s mid e b Ha Hb Hme.
  - cbn [chain] in Ha. subst. exact Hb.
  - cbn [chain] in Ha. destruct Ha as [H1 [H2 [H3 H4]]]. cbn [app chain].
    repeat split; try lia. apply (IH _ mid); assumption.
Qed.

Lemma chain_le subs : forall a e, chain subs a e -> a <= e.
Proof.
  induction subs as [|p t IH]; intros a e H; cbn [chain] in H; [lia|].
  destruct H as [_ [H2 [H3 _]]]. lia.
Qed.

(* element s of a chain *)
Lemma chain_nth subs : forall a e s, chain subs a e -> 0 <= s < len subs ->
  let p := nthd (0,0) subs s in a <= fst p /\ fst p < snd p /\ snd p <= e /\
  (s + 1 < len subs -> fst (nthd (0,0) subs (s + 1)) = snd p) /\
  (s + 1 = len subs -> snd p = e) /\ (s = 0 -> fst p = a).
Proof.
  induction subs as [|q t IH]; intros a e s H Hs; [unfold len in Hs; cbn in Hs; lia|].
  cbn [chain] in H. destruct H as [H1 [H2 [H3 H4]]]. rewrite len_cons in Hs.
  destruct (Z.eq_dec s 0) as [->|Hne].
  - cbn zeta. rewrite nthd_cons_0. repeat split; try lia.
    + intros Hn. rewrite len_cons in Hn. replace (0 + 1) with (0 + 1) by lia.
      rewrite (nthd_cons_succ (0,0) q t 0) by lia.
      destruct t as [|q2 t2]; [unfold len in Hn; cbn in Hn; lia|].
      rewrite nthd_cons_0. cbn [chain] in H4. lia.
    + intros Hn. rewrite len_cons in Hn. destruct t; [cbn [chain] in H4; lia|]. rewrite len_cons in Hn. pose proof (len_nonneg t). lia.
  - specialize (IH (snd q) e (s - 1) H4 ltac:(lia)). cbn zeta in IH.
    cbn zeta. replace s with ((s - 1) + 1) by lia. rewrite nthd_cons_succ by lia.
    destruct IH as [I1 [I2 [I3 [I4 [I5 I6]]]]]. repeat split; try lia.
    + intros Hn. rewrite len_cons in Hn. replace (s - 1 + 1 + 1) with ((s - 1 + 1) + 1) by lia.
      rewrite nthd_cons_succ by lia. apply I4. lia.
    + intros Hn. rewrite len_cons in Hn. apply I5. lia.
Qed.

(* ---------- calculate_chunk_decomposition ---------- *)
Lemma calc_decomp_chain indices vcs : forall fuel s e,
  0 <= s -> s < e -> e < len indices -> (Z.to_nat (e - s) <= fuel)%nat ->
  exists subs, calc_decomp fuel s e indices vcs = Ok subs /\ chain subs s e /\ 1 <= len subs <= e - s.
Proof.
  induction fuel as [|f IH]; intros s e Hs Hse He Hf; [lia|].
  cbn [calc_decomp]. rewrite (np_get_ok 0 indices e) by lia. cbn [bind].
  rewrite (np_get_ok 0 indices s) by lia. cbn [bind].
  destruct ((nthd 0 indices e - nthd 0 indices s >? vcs) && (e - s >? 1)) eqn:E.
  - assert (Hd : e - s > 1) by lia.
    set (mid := s + (e - s) / 2).
    assert (Hmid : s < mid < e).
    { unfold mid. pose proof (Z.div_pos (e - s) 2 ltac:(lia) ltac:(lia)).
      assert (1 <= (e - s) / 2) by (apply Z.div_le_lower_bound; lia).
      assert ((e - s) / 2 < e - s) by (apply Z.div_lt; lia). lia. }
    destruct (IH s mid) as [a [Ha [Ca La]]]; try lia.
    destruct (IH mid e) as [b [Hb [Cb Lb]]]; try lia.
    rewrite Ha. cbn [bind]. rewrite Hb. cbn [bind].
    exists (a ++ b). split; [reflexivity|]. split; [apply (chain_app a s mid e b); try assumption; lia|].
    rewrite len_app. lia.
  - exists [(s, e)]. split; [reflexivity|]. split; [cbn [chain fst snd]; lia|].
    rewrite len_cons, len_nil. lia.
Qed.
