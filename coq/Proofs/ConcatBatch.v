(* Proofs/ConcatBatch.v — C16: one call of _apply_spans_concat_2 (a batch) and the
   Session.apply_spans_concat loop (repaired driver) against the specification. *)
From Coq Require Import ZArith List Lia Bool ZifyBool.
From EV Require Import Res Arr Concat ConcatSpec ConcatLists ConcatKernel ConcatSpan.
Import ListNotations.
Open Scope Z_scope.

Definition entry_of (strs:list (list Z)) (p:Z * Z) : list Z := concat_entry (span_strs strs p).

Lemma concat_spec_entries spans strs : concat_spec spans strs = map (entry_of strs) (adjacent_pairs spans).
Proof. reflexivity. Qed.

Lemma adjacent_pairs_cons2 a b rest : adjacent_pairs (a :: b :: rest) = (a, b) :: adjacent_pairs (b :: rest).
Proof. reflexivity. Qed.

Section Batch.
Variable strs : list (list Z).
Variables maxi maxv start_v : Z.
Variable N : Z.

Lemma span_loop_ok : forall rest spre a iacc irest acc dv0,
  rest <> [] ->
  Forall (fun x => 0 <= x <= len strs) (a :: rest) ->
  let es := map (entry_of strs) (adjacent_pairs (a :: rest)) in
  len dv0 = N ->
  (forall e, In e es -> len e + Z.max 0 (maxv - 1) <= N) ->
  len acc + len (hd [] es) <= N ->
  len iacc + len irest = maxi + 1 -> len iacc <= maxi ->
  exists k, (1 <= k <= length rest)%nat /\ (k <= length irest)%nat /\
    len acc + len (concat (firstn k es)) <= N /\
    span_loop (length rest) (len spre) (spre ++ a :: rest) (psums (map (@len Z) strs)) (concat strs)
              (iacc ++ irest) (blit dv0 0 acc) maxi maxv SEP DELIM start_v (len iacc) (len acc)
    = Ok (len spre + Z.of_nat k, len iacc + Z.of_nat k, len acc + len (concat (firstn k es)),
          (iacc ++ offs_from (len acc + start_v) (map (@len Z) (firstn k es))) ++ skipn k irest,
          blit dv0 0 (acc ++ concat (firstn k es))).
Proof.
  induction rest as [|b rest IH]; intros spre a iacc irest acc dv0 Hne Hrange es Hdv Hfits Hfirst Hilen Himax;
    [congruence|].
  clear Hne.
  assert (Ha : 0 <= a <= len strs) by (inversion Hrange; assumption).
  assert (Hb : 0 <= b <= len strs) by (inversion Hrange as [|? ? _ Hr]; inversion Hr; assumption).
  assert (Hrange' : Forall (fun x => 0 <= x <= len strs) (b :: rest)) by (inversion Hrange; assumption).
  unfold es in *. clear es. rewrite adjacent_pairs_cons2 in *. cbn [map hd] in *.
  set (e := entry_of strs (a, b)) in *.
  set (es' := map (entry_of strs) (adjacent_pairs (b :: rest))) in *.
  destruct irest as [|x irest1].
  { rewrite len_nil in Hilen. lia. }
  rewrite len_cons in Hilen.
  cbn [length span_loop].
  pose proof (len_nonneg acc) as Hacc. pose proof (len_nonneg e) as Hel. pose proof (len_nonneg iacc) as Hia.
  assert (He : concat_entry (slice strs a b) = e) by reflexivity.
  pose proof (one_span_ok strs spre a b rest iacc x irest1 dv0 acc start_v Ha Hb) as Hone.
  cbn zeta in Hone. rewrite He in Hone. rewrite Hone by lia. clear Hone.
  cbn [bind].
  assert (Hk1 : Ok (len spre + 1, len iacc + 1, len acc + len e, (iacc ++ [len acc + len e + start_v]) ++ irest1,
                    blit dv0 0 (acc ++ e))
              = Ok (len spre + Z.of_nat 1, len iacc + Z.of_nat 1, len acc + len (concat (firstn 1 (e :: es'))),
                    (iacc ++ offs_from (len acc + start_v) (map (@len Z) (firstn 1 (e :: es')))) ++ skipn 1 (x :: irest1),
                    blit dv0 0 (acc ++ concat (firstn 1 (e :: es'))))).
  { cbn [firstn concat map offs_from skipn]. rewrite app_nil_r.
    replace (len acc + start_v + len e) with (len acc + len e + start_v) by lia. reflexivity. }
  assert (Hk1' : (1 <= length (x :: irest1))%nat /\ len acc + len (concat (firstn 1 (e :: es'))) <= N).
  { split; [cbn [length]; lia|]. cbn [firstn concat]. rewrite app_nil_r. exact Hfirst. }
  destruct Hk1' as [Hk1a Hk1b].
  destruct ((len iacc + 1 >=? maxi) || (len acc + len e >=? maxv)) eqn:Ebrk.
  { exists 1%nat. split; [cbn [length]; lia|]. split; [exact Hk1a|]. split; [exact Hk1b|]. exact Hk1. }
  destruct rest as [|c rest2].
  { exists 1%nat. split; [cbn [length]; lia|]. split; [exact Hk1a|]. split; [exact Hk1b|]. cbn [length]. exact Hk1. }
  clear Hk1.
  (* no break, spans remain: continue with the next span *)
  apply orb_false_iff in Ebrk. destruct Ebrk as [Ebi Ebv].
  change (length (c :: rest2)) with (S (length rest2)). cbn iota.
  change (S (length rest2)) with (length (c :: rest2)).
  assert (Hes' : es' = entry_of strs (b, c) :: map (entry_of strs) (adjacent_pairs (c :: rest2))) by reflexivity.
  destruct (IH (spre ++ [a]) b (iacc ++ [len acc + len e + start_v]) irest1 (acc ++ e) dv0) as (k & Hk & Hki & Hkv & Hrun);
    try assumption; try discriminate.
  - intros e0 He0. apply Hfits. right. exact He0.
  - fold es'. rewrite Hes'. cbn [hd]. rewrite len_app.
    assert (Hf2 : len (entry_of strs (b, c)) + Z.max 0 (maxv - 1) <= N).
    { apply Hfits. right. fold es'. rewrite Hes'. left. reflexivity. }
    lia.
  - rewrite len_snoc. lia.
  - rewrite len_snoc. lia.
  - exists (S k). split; [cbn [length] in *; lia|]. split; [cbn [length] in *; lia|].
    split; [cbn [firstn concat]; fold es' in Hkv; rewrite !len_app in *; lia|].
    rewrite !len_snoc, !len_app, <- snoc_frame_cons in Hrun. fold es' in Hrun.
    etransitivity; [exact Hrun|].
    cbn [firstn concat map offs_from skipn]. rewrite !len_app, <- !app_assoc. cbn [app].
    replace (len acc + len e + start_v) with (len acc + start_v + len e) by lia.
    replace (len spre + 1 + Z.of_nat k) with (len spre + Z.of_nat (S k)) by lia.
    replace (len iacc + 1 + Z.of_nat k) with (len iacc + Z.of_nat (S k)) by lia.
    replace (len acc + len e + len (concat (firstn k es'))) with (len acc + (len e + len (concat (firstn k es')))) by lia.
    reflexivity.
Qed.

End Batch.
