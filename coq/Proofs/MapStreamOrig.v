(* Proofs/MapStreamOrig.v — the code as found (version Orig) is correct in the only configuration
   the repository's tests exercise: marker -1 and a column type whose fill(0) value is the empty
   value (numeric, bool).  This is why F-C04a stayed invisible: with -1 an all-invalid sub-chunk
   can only be the whole map chunk, so wiping the whole buffer is harmless. *)
From Coq Require Import ZArith List Lia Bool.
From EV Require Import Res Arr MapStream MapStreamSpec MapStreamBase MapStreamFixed.
Import ListNotations.
Open Scope Z_scope.

(* chains whose interior boundaries sit on valid entries *)
Fixpoint chainv (map_:list Z) (inv:Z) (subs:list (Z * Z)) (a e:Z) : Prop :=
  match subs with
  | [] => a = e
  | p :: t => fst p = a /\ a < snd p /\ snd p <= e /\ (snd p < e -> nthZ map_ (snd p) <> inv) /\
              chainv map_ inv t (snd p) e
  end.

Lemma nms_skip_valid fuel map_ sm inv :
  0 <= sm <= len map_ -> (Z.to_nat (len map_ - sm) < fuel)%nat ->
  exists sm1, nms_skip fuel map_ sm inv = Ok sm1 /\ sm <= sm1 <= len map_ /\
              (sm1 < len map_ -> nthZ map_ sm1 <> inv).
Proof.
  revert sm. induction fuel as [|f IH]; intros sm Hs Hf; [lia|].
  cbn [nms_skip]. destruct (sm <? len map_) eqn:E.
  - rewrite (getZ_ok 101 map_ sm) by lia. cbn [bind].
    destruct (nthZ map_ sm =? inv) eqn:E2.
    + destruct (IH (sm + 1)) as [s1 [H1 [H2 H3]]]; [lia|lia|]. exists s1. split; [exact H1|]. split; [lia|exact H3].
    + exists sm. split; [reflexivity|]. split; [lia|]. intros _. lia.
  - exists sm. split; [reflexivity|]. split; lia.
Qed.

Lemma nms_span_stop fuel map_ sm start cs :
  0 <= sm <= len map_ -> (Z.to_nat (len map_ - sm) < fuel)%nat ->
  exists sm2, nms_span fuel map_ sm start cs = Ok sm2 /\ sm <= sm2 <= len map_ /\
              (sm < len map_ -> nthZ map_ sm - start < cs -> sm + 1 <= sm2) /\
              (sm2 < len map_ -> nthZ map_ sm2 - start >= cs).
Proof.
  revert sm. induction fuel as [|f IH]; intros sm Hs Hf; [lia|].
  cbn [nms_span]. destruct (sm <? len map_) eqn:E.
  - rewrite (getZ_ok 103 map_ sm) by lia. cbn [bind].
    destruct (nthZ map_ sm - start <? cs) eqn:E2.
    + destruct (IH (sm + 1)) as [s2 [H1 [H2 [_ H4]]]]; [lia|lia|]. exists s2. split; [exact H1|].
      split; [lia|]. split; [lia|exact H4].
    + exists sm. split; [reflexivity|]. split; [lia|]. split; lia.
  - exists sm. split; [reflexivity|]. split; [lia|]. split; lia.
Qed.

Lemma next_map_subchunk_m1 map_ sm cs :
  0 <= sm < len map_ -> 1 <= cs ->
  (forall i, 0 <= i < len map_ -> nthZ map_ i <> -1 -> 0 <= nthZ map_ i) ->
  exists nsm, next_map_subchunk map_ sm (-1) cs = Ok nsm /\ sm < nsm <= len map_ /\
              (nsm < len map_ -> nthZ map_ nsm <> -1).
Proof.
  intros Hs Hcs Hpos. unfold next_map_subchunk.
  assert (Hlen : len map_ = Z.of_nat (length map_)) by reflexivity.
  destruct (nms_skip_valid (S (length map_)) map_ sm (-1)) as [sm1 [H1 [B1 V1]]]; [lia|lia|].
  rewrite H1. cbn [bind].
  destruct (sm1 <? len map_) eqn:E.
  - rewrite (getZ_ok 102 map_ sm1) by lia. cbn [bind].
    destruct (nms_span_stop (S (length map_)) map_ sm1 (nthZ map_ sm1) cs) as [sm2 [H2 [B2 [P2 S2]]]]; [lia|lia|].
    exists sm2. split; [exact H2|]. specialize (P2 ltac:(lia) ltac:(lia)). split; [lia|].
    intros Hlt. specialize (S2 Hlt). pose proof (Hpos sm1 ltac:(lia) (V1 ltac:(lia))). lia.
  - cbn [bind].
    destruct (nms_span_stop (S (length map_)) map_ sm1 (-1) cs) as [sm2 [H2 [B2 _]]]; [lia|lia|].
    exists sm2. split; [exact H2|]. split; lia.
Qed.

Lemma subchunks_loop_chainv fuel map_ cs sm :
  0 <= sm <= len map_ -> 1 <= cs -> (Z.to_nat (len map_ - sm) < fuel)%nat ->
  (forall i, 0 <= i < len map_ -> nthZ map_ i <> -1 -> 0 <= nthZ map_ i) ->
  exists subs, subchunks_loop fuel Orig map_ (-1) cs sm = Ok subs /\ chainv map_ (-1) subs sm (len map_).
Proof.
  revert sm. induction fuel as [|f IH]; intros sm Hs Hcs Hf Hpos; [lia|].
  cbn [subchunks_loop]. unfold next_map_subchunk_v, span_kernels. destruct (sm <? len map_) eqn:E.
  - destruct (next_map_subchunk_m1 map_ sm cs) as [nsm [H1 [B1 V1]]]; [lia|lia|exact Hpos|].
    rewrite H1. cbn [bind].
    destruct (IH nsm) as [rest [H2 C2]]; [lia|lia|lia|exact Hpos|].
    rewrite H2. cbn [bind]. exists ((sm, nsm) :: rest). split; [reflexivity|].
    cbn [chainv fst snd]. repeat split; try lia; assumption.
  - exists []. split; [reflexivity|]. cbn [chainv]. lia.
Qed.

Section OrigProof.
Context {A:Type}.
Variable empty : A.
Variable data : list A.
Notation fval := (fval empty data (-1)).

(* one sub-chunk of the original driver, marker -1, fill(0) value = empty value *)
Lemma stream_subchunk_orig map_ rd s e :
  0 <= s -> s < e -> e <= len map_ -> e <= len rd -> valid_map (len data) (-1) map_ ->
  (s = 0 \/ nthZ map_ s <> -1) ->
  (forall i, 0 <= i < s -> nthd empty rd i = fval (nthZ map_ i)) ->
  exists rd', stream_subchunk empty empty Orig data map_ (-1) rd (s, e) = Ok rd' /\
              len rd' = len rd /\
              forall i, 0 <= i < e -> nthd empty rd' i = fval (nthZ map_ i).
Proof.
  intros Hs Hse He Hr Hv Hstart Hprev.
  destruct (gve_spec map_ s e (-1)) as [[Ha Hg]|Hvalid]; try lia.
  - (* all invalid: only possible when the sub-chunk starts the chunk *)
    destruct Hstart as [->|Hne]; [|exfalso; apply Hne; apply Ha; lia].
    unfold stream_subchunk, get_valid_value_extents_v, span_kernels. cbn [fst snd]. rewrite Hg. cbn [bind]. rewrite Z.eqb_refl.
    exists (map (fun _ => empty) rd). split; [reflexivity|]. split; [apply len_map|].
    intros i Hi. rewrite (nthd_map (fun _ => empty) empty empty) by lia.
    unfold MapStreamFixed.fval. rewrite Ha by lia. rewrite Z.eqb_refl. reflexivity.
  - (* some valid entry: same kernel call as the repaired code *)
    destruct (stream_subchunk_spec empty empty data (-1) map_ rd s e Hs Hse He Hr Hv) as [rd' [E1 [L1 P1]]].
    assert (Hsame : stream_subchunk empty empty Orig data map_ (-1) rd (s, e)
                    = stream_subchunk empty empty Fixed0 data map_ (-1) rd (s, e)).
    { unfold stream_subchunk, get_valid_value_extents_v, span_kernels. cbn [fst snd].
      destruct Hvalid as [i0 [j0 [H1 [H2 [H3 [Ha1 [Ha2 [Hn1 [Hn2 Hg]]]]]]]]].
      rewrite Hg. cbn [bind]. destruct (nthZ map_ i0 =? -1) eqn:E; [lia|]. reflexivity. }
    rewrite Hsame, E1. exists rd'. split; [reflexivity|]. split; [exact L1|].
    intros i Hi. rewrite P1 by lia.
    destruct ((s <=? i) && (i <? e)) eqn:E; [reflexivity|]. apply Hprev. lia.
Qed.

Lemma stream_fold_orig map_ : valid_map (len data) (-1) map_ ->
  forall subs a rd, chainv map_ (-1) subs a (len map_) -> 0 <= a -> len map_ <= len rd ->
  (a = 0 \/ a = len map_ \/ nthZ map_ a <> -1) ->
  (forall i, 0 <= i < a -> nthd empty rd i = fval (nthZ map_ i)) ->
  exists rd', fold_res (stream_subchunk empty empty Orig data map_ (-1)) subs rd = Ok rd' /\
              len rd' = len rd /\
              forall i, 0 <= i < len map_ -> nthd empty rd' i = fval (nthZ map_ i).
Proof.
  intros Hv. induction subs as [|[s e] t IH]; intros a rd Hc Ha Hl Hst Hprev.
  - cbn [chainv] in Hc. subst a. exists rd. split; [reflexivity|]. split; [reflexivity|exact Hprev].
  - cbn [chainv fst snd] in Hc. destruct Hc as [-> [H1 [H2 [H3 Hc]]]]. cbn [fold_res].
    assert (Hst' : a = 0 \/ nthZ map_ a <> -1).
    { destruct Hst as [?|[?|?]]; [left; assumption|lia|right; assumption]. }
    destruct (stream_subchunk_orig map_ rd a e ltac:(lia) ltac:(lia) ltac:(lia) ltac:(lia) Hv Hst' Hprev)
      as [rd1 [E1 [L1 P1]]].
    rewrite E1. cbn [bind].
    assert (Hst2 : e = 0 \/ e = len map_ \/ nthZ map_ e <> -1).
    { destruct (Z_lt_dec e (len map_)) as [Hlt|]; [right; right; apply H3; exact Hlt|right; left; lia]. }
    destruct (IH e rd1 Hc ltac:(lia) ltac:(lia) Hst2 P1) as [rd2 [E2 [L2 P2]]].
    exists rd2. split; [exact E2|]. split; [lia|exact P2].
Qed.

Lemma stream_loop_orig mapf cs kfuel :
  1 <= cs -> valid_map (len data) (-1) mapf -> (Z.to_nat (len mapf) < kfuel)%nat ->
  forall fuel m_off rd out,
  0 <= m_off <= len mapf -> len rd = cs -> (Z.to_nat (len mapf - m_off) < fuel)%nat ->
  let e := Z.min (m_off + cs) (len mapf) in
  stream_loop empty empty fuel kfuel Orig data mapf (-1) cs (m_off, e) (slice mapf m_off e) (e - m_off) m_off rd out
  = Ok (out ++ map fval (skipn (Z.to_nat m_off) mapf)).
Proof.
  intros Hcs Hv Hk. induction fuel as [|f IH]; intros m_off rd out Hm Hrd Hf e; [lia|].
  cbn [stream_loop]. rewrite Z.add_0_l.
  destruct (m_off <? len mapf) eqn:E.
  - assert (He : m_off < e <= len mapf) by lia.
    set (map_ := slice mapf m_off e).
    assert (Hlm : len map_ = e - m_off) by (apply len_slice; lia).
    assert (Hvm : valid_map (len data) (-1) map_) by (apply valid_map_slice; try lia; exact Hv).
    unfold get_map_subchunks.
    destruct (subchunks_loop_chainv kfuel map_ cs 0) as [subs [Hs Hc]]; try lia.
    { intros i Hi Hne. destruct Hvm as [Hr _]. specialize (Hr i Hi Hne). lia. }
    rewrite Hs. cbn [bind].
    destruct (stream_fold_orig map_ Hvm subs 0 rd Hc ltac:(lia) ltac:(lia) ltac:(left; reflexivity)
                ltac:(intros; lia)) as [rd' [Hfo [Hl' Hp']]].
    rewrite Hfo. cbn [bind snd].
    rewrite (untrimmed_chunk_spec mapf e cs) by lia. cbv zeta.
    rewrite (IH e rd' (out ++ np_slice rd' 0 (e - m_off))) by lia.
    rewrite <- app_assoc. apply f_equal. apply f_equal.
    rewrite (skipn_slice_skipn mapf m_off e) by lia. rewrite map_app.
    apply (f_equal2 (@app A)); [|reflexivity].
    rewrite np_slice_slice by lia.
    apply (list_eq_nthd empty).
    + rewrite len_slice by lia. rewrite len_map. fold map_. lia.
    + intros i Hi. rewrite len_slice in Hi by lia.
      rewrite nthd_slice by lia. rewrite Z.add_0_l. rewrite Hp' by lia.
      fold map_. rewrite (nthd_map fval 0 empty) by lia. reflexivity.
  - replace m_off with (len mapf) by lia.
    unfold len. rewrite Nat2Z.id. rewrite skipn_all. cbn [map]. rewrite app_nil_r. reflexivity.
Qed.

Theorem map_stream_orig_minus1_gen (m:list Z) (cs:Z) (fuel:nat) :
  1 <= cs -> valid_map (len data) (-1) m -> (fuel >= length m + 1)%nat ->
  ordered_map_valid_stream empty empty fuel Orig data m (-1) cs = Ok (map_spec empty data (-1) m).
Proof.
  intros Hcs Hv Hf. unfold ordered_map_valid_stream.
  destruct (cs <? 0) eqn:E; [lia|].
  pose proof (len_nonneg m) as Hm0.
  rewrite (untrimmed_chunk_spec m 0 cs) by lia. cbv zeta.
  rewrite Z.add_0_l.
  pose proof (stream_loop_orig m cs fuel Hcs Hv ltac:(unfold len; lia) fuel 0 (repeat empty (Z.to_nat cs)) []
                ltac:(lia) ltac:(rewrite len_repeat; lia) ltac:(unfold len; lia)) as H.
  cbv zeta in H. rewrite Z.add_0_l, Z.sub_0_r in H. rewrite Z.sub_0_r. rewrite H.
  cbn [app skipn Z.to_nat]. reflexivity.
Qed.

End OrigProof.
