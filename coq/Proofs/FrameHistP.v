(* Proofs/FrameHistP.v — C09: the per-call theorems (df_filter_correct, df_index_correct, df_sort_correct,
   session_sort_on_*_correct) lift to histories that cross entry-point levels, by induction. *)
From Coq Require Import ZArith List Bool Lia.
From EV Require Import Res Arr StableSort FilterIndex FilterIndexSpec FilterIndexFrames FrameHist FrameHistSpec.
Import ListNotations.
Open Scope Z_scope.

(* the local `go` of FilterIndex.run_step, named *)
Definition go_model (w:world) (src:Z) (dst:option Z) (f:frame -> option frame -> res (frame * option frame))
  : res world :=
  do cols <- wget w src;
  match dst with
  | None =>
    do '(c', _) <- f cols None;
    wset w src c'
  | Some j =>
    if j =? src then Raise E_ValueError
    else
      do d <- wget w j;
      do '(c', d') <- f cols (Some d);
      do w1 <- wset w src c';
      match d' with Some dd => wset w1 j dd | None => Ok w1 end
  end.

Lemma run_step_go w s :
  run_step w s =
  match s with
  | SFilter src dt flt dst => go_model w src dst (fun c d => df_apply_filter c dt flt d)
  | SIndex src idx dst => go_model w src dst (fun c d => df_apply_index c idx d)
  | SSort src by_ dst => go_model w src dst (fun c d => df_sort_values c by_ d)
  | SSortOn src keys dst => go_model w src dst (fun c d => session_sort_on c keys d)
  end.
Proof. destruct s; reflexivity. Qed.

Lemma go_correct w src dst f fs w' :
  (forall c d r, fs c d = Some r -> f c d = Ok r) ->
  spec_go w src dst fs = Some w' -> go_model w src dst f = Ok w'.
Proof.
  intros Hf. unfold spec_go, go_model.
  destruct (wget w src) as [cols|?|?|]; try discriminate. cbn [bind].
  destruct dst as [j|].
  - destruct (j =? src); try discriminate.
    destruct (wget w j) as [d|?|?|]; try discriminate. cbn [bind].
    destruct (fs cols (Some d)) as [[c' [d'|]]|] eqn:E; try discriminate.
    rewrite (Hf _ _ _ E). cbn [bind].
    destruct (wset w src c') as [w1|?|?|]; try discriminate. cbn [bind].
    destruct (wset w1 j d') as [w2|?|?|]; try discriminate.
    intros X. inversion X. reflexivity.
  - destruct (fs cols None) as [[c' o]|] eqn:E; try discriminate.
    rewrite (Hf _ _ _ E). cbn [bind].
    destruct (wset w src c') as [w1|?|?|]; try discriminate.
    intros X. inversion X. reflexivity.
Qed.

Lemma session_sort_on_correct cols keys d r :
  spec_sort_on cols keys d = Some r -> session_sort_on cols keys d = Ok r.
Proof.
  destruct d as [d|].
  - cbn [spec_sort_on]. apply session_sort_on_dest_correct.
  - apply session_sort_on_same_correct.
Qed.

(* one dataframe- / session-level call on a world *)
Theorem spec_call_correct w s w' : spec_call w s = Some w' -> run_step w s = Ok w'.
Proof.
  rewrite run_step_go. destruct s; cbn [spec_call]; apply go_correct; intros c d r H.
  - apply df_filter_correct; exact H.
  - apply df_index_correct; exact H.
  - apply df_sort_correct; exact H.
  - apply session_sort_on_correct; exact H.
Qed.

Lemma spec_fev_correct w e w' : spec_fev w e = Some w' -> run_fev w e = Ok w'.
Proof.
  destruct e; cbn [spec_fev].
  - cbn [run_fev]. apply spec_call_correct.
  - destruct (run_fev w (FWrite src name b)) as [x|?|?|]; try discriminate. intros X; inversion X; reflexivity.
  - destruct (run_fev w (FFieldIndex src name idx)) as [x|?|?|]; try discriminate. intros X; inversion X; reflexivity.
  - destruct (run_fev w (FFieldFilter src name dt flt)) as [x|?|?|]; try discriminate. intros X; inversion X; reflexivity.
  - destruct (run_fev w (FSessIndex src name idx)) as [x|?|?|]; try discriminate. intros X; inversion X; reflexivity.
Qed.

(* the whole history *)
Theorem fhist_correct_pf : forall evs w w',
  spec_fhist w evs = Some w' -> run_fhist w evs = Ok w'.
Proof.
  induction evs as [|e t IH]; intros w w' H.
  - cbn in H |- *. inversion H. reflexivity.
  - cbn [spec_fhist run_fhist] in H |- *.
    destruct (spec_fev w e) as [w1|] eqn:E; try discriminate.
    rewrite (spec_fev_correct _ _ _ E). cbn [bind]. apply IH. exact H.
Qed.

Lemma run_fhist_app : forall evs1 evs2 w,
  run_fhist w (evs1 ++ evs2) = (do w1 <- run_fhist w evs1; run_fhist w1 evs2).
Proof.
  induction evs1 as [|e t IH]; intros evs2 w.
  - reflexivity.
  - cbn [app run_fhist]. destruct (run_fev w e); cbn [bind]; try reflexivity. apply IH.
Qed.

(* every call of a history is the call ALONE on the world the prefix leaves behind *)
Theorem fhist_last_call_alone_pf : forall evs w w1 s,
  run_fhist w evs = Ok w1 -> run_fhist w (evs ++ [FCall s]) = run_step w1 s.
Proof.
  intros. rewrite run_fhist_app, H. cbn [bind run_fhist run_fev].
  destruct (run_step w1 s); reflexivity.
Qed.

(* the class of the missed seed, stated directly: after ANY history (dataframe-level, session-level,
   field-level, direct writes), sort_values on a frame that satisfies the one-call precondition leaves exactly
   the stable lexicographic sort of the rows as they stand now — in place and into a destination frame *)
Theorem fhist_sort_after_any_history_pf : forall evs w w1 src by_ dst w2,
  run_fhist w evs = Ok w1 ->
  spec_call w1 (SSort src by_ dst) = Some w2 ->
  run_fhist w (evs ++ [FCall (SSort src by_ dst)]) = Ok w2.
Proof.
  intros. rewrite (fhist_last_call_alone_pf _ _ _ _ H). apply spec_call_correct. assumption.
Qed.

Theorem fhist_call_after_any_history_pf : forall evs w w1 s w2,
  run_fhist w evs = Ok w1 ->
  spec_call w1 s = Some w2 ->
  run_fhist w (evs ++ [FCall s]) = Ok w2.
Proof.
  intros. rewrite (fhist_last_call_alone_pf _ _ _ _ H). apply spec_call_correct. assumption.
Qed.

(* in place == destination form at the end of any history: sorting frame `src` in place and sorting it into
   the empty frame `dst` produce the same columns (content and metadata; only the write flag of the
   destination's columns is `true` by construction) — from the one-call specification *)
Lemma spec_select_same_content cols ps d :
  map (fun nf:Z * field => (fst nf, fmeta (snd nf), fbody (snd nf))) (fst (spec_select cols ps None))
  = map (fun nf:Z * field => (fst nf, fmeta (snd nf), fbody (snd nf)))
        (skipn (length d) (match snd (spec_select cols ps (Some d)) with Some x => x | None => [] end)).
Proof.
  cbn [spec_select fst snd].
  rewrite skipn_app, skipn_all, Nat.sub_diag. cbn [skipn app].
  rewrite !map_map. apply map_ext. intros [n f]. reflexivity.
Qed.
