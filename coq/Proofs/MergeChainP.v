(* Proofs/MergeChainP.v — facts about Model/MergeChain.v (C02, strengthening VC02): field names as data. *)
From Coq Require Import ZArith List Bool.
From EV Require Import Res Arr Val Join MapStream Merge MergeSpec MergeChain.
Import ListNotations.
Open Scope Z_scope.

Lemma existsb_name_in_nil : forall l : list (list Z), existsb (fun n => name_in n []) l = false.
Proof. induction l as [|x t IH]; [reflexivity|]. cbn [existsb]. rewrite IH. reflexivity. Qed.

(* an empty destination: merge_into is merge *)
Lemma merge_into_nil : forall pd a, merge_into pd [] a = merge pd a.
Proof.
  intros pd a. unfold merge_into.
  destruct (merge pd a) as [[o d]|s|c|]; cbn [bind]; try reflexivity.
  cbn [frame_names map]. rewrite existsb_name_in_nil. reflexivity.
Qed.

(* names used below *)
Definition nk : list Z := [107].          (* "k" *)
Definition nr : list Z := [114].          (* "r" *)
Definition na : list Z := [97].           (* "a" *)
Definition nb : list Z := [98].           (* "b" *)
Definition nc : list Z := [99].           (* "c" *)
Definition no : list Z := [111].          (* "o" *)
Definition s_l : list Z := [95;108].      (* "_l" *)
Definition s_r : list Z := [95;114].      (* "_r" *)
Definition ncol (l:list Z) : column := CFix [0] [0] (map (fun v => [v]) l).

(* F-C02j: a left payload field called '_right_map'; how='left'.  With the ordered hints the streamed path has created
   its own '_right_map' when the payload is written: ValueError.  Without hints the merge succeeds and is the
   relational join (plus valid_r): a truthful hint makes the call raise. *)
Definition j_args (hinted:bool) : margs :=
  mk_margs MFixed 0 hinted false hinted false [[1;2;4]] [[2;3;4]]
           [(nk, ncol [1;2;4]); (N_right_map, ncol [0;0;1])] [(nr, ncol [2;3;4]); (nb, ncol [7;8;9])]
           s_l s_r 4 4 8 4.

Lemma payload_called_like_map_raises :
  is_ordered (j_args true) = true /\
  merge join_pairs (j_args true) = Raise E_ValueError /\
  merge join_pairs (j_args false)
  = Ok (false, merge_spec 0 [[1;2;4]] [[2;3;4]] (a_lcols (j_args false)) (a_rcols (j_args false)) s_l s_r
               ++ [(N_valid ++ s_r, CFix [0] [0] [[0];[1];[1]])]).
Proof. vm_compute. repeat split; reflexivity. Qed.

(* the same payload name where the streamed path does NOT create a '_right_map' of its own (how='right', left keys
   hinted unique: the right frame is copied): the payload is an ordinary column and the right frame comes out unchanged *)
Definition c_args : margs :=
  mk_margs MFixed 1 true true true true [[1;2;4]] [[2;3;4]]
           [(nk, ncol [1;2;4]); (N_right_map, ncol [0;0;1])] [(nr, ncol [2;3;4]); (nb, ncol [7;8;9])]
           s_l s_r 4 4 8 4.

Lemma payload_called_like_absent_map_is_data :
  exists m, merge join_pairs c_args
            = Ok (true, (N_left_map, m) ::
                        merge_spec 1 [[1;2;4]] [[2;3;4]] (a_lcols c_args) (a_rcols c_args) s_l s_r) /\
            frame_get (merge_spec 1 [[1;2;4]] [[2;3;4]] (a_lcols c_args) (a_rcols c_args) s_l s_r) nb = Some (ncol [7;8;9]).
Proof. vm_compute. eexists. split; reflexivity. Qed.

(* a chain: A left-join B through the streamed path with every hint (the destination holds '_right_map' next to the
   joined columns), then that destination right-join C, every hint again: '_right_map' of the first destination is a
   payload column of the left frame of the second merge; the second destination is the join map followed by the
   relational join of (first destination, C), C's columns unchanged *)
Definition a1 : margs :=
  mk_margs MFixed 0 true true true true [[1;3;5;7;9]] [[1;2;3;5;8;9]]
           [(nk, ncol [1;3;5;7;9]); (na, ncol [10;30;50;70;90])]
           [(nr, ncol [1;2;3;5;8;9]); (nb, ncol [11;12;13;15;18;19])]
           s_l s_r 4 3 8 2.
Definition st2 : step2 :=
  mk_step2 true 1 true true true true nk None [0;1;3;4;5;9;10]
           [(no, ncol [0;1;3;4;5;9;10]); (nc, ncol [1000;1001;1003;1004;1005;1009;1010])].

Lemma chain_map_field_is_payload :
  match merge_into join_pairs [] a1 with
  | Ok (_, d1) =>
    match chain_args a1 d1 st2 with
    | Some a2 =>
      name_in N_right_map (frame_names (a_lcols a2)) = true /\
      exists m, merge_chain join_pairs [] a1 st2
                = Ok (true, (N_left_map, m) ::
                            merge_spec 1 (a_lkeys a2) (a_rkeys a2) (a_lcols a2) (a_rcols a2) s_l s_r) /\
                frame_get (merge_spec 1 (a_lkeys a2) (a_rkeys a2) (a_lcols a2) (a_rcols a2) s_l s_r) nc
                = Some (ncol [1000;1001;1003;1004;1005;1009;1010])
    | None => False
    end
  | _ => False
  end.
Proof. vm_compute. split; [reflexivity|]. eexists. split; reflexivity. Qed.
