(* Proofs/CsvDriver.v — the driver on a file that fits one window; include / exclude selection *)
From Coq Require Import ZArith List Lia Bool.
From EV Require Import Res Arr Csv CsvSpec CsvBase CsvKernel CsvTable CsvRows.
Import ListNotations.
Open Scope Z_scope.

Lemma slice_all (l:list Z) b : len l <= b -> slice l 0 b = l.
Proof.
  intros H. unfold slice. cbn [Z.to_nat skipn]. rewrite Z.sub_0_r. apply firstn_all2. unfold len in H. lia.
Qed.

Lemma map_add0 (l:list Z) : map (fun x => x + 0) l = l.
Proof. induction l as [|x l IH]; cbn; [reflexivity|]. rewrite IH. f_equal. lia. Qed.

Lemma len_zeros n : 0 <= n -> len (zeros n) = n.
Proof. intros H. unfold zeros, len. rewrite repeat_length. lia. Qed.

Lemma I2_zeros2 r w0 c k : 0 <= c < r -> 0 <= k < w0 -> I2 (zeros2 r w0) c k = 0.
Proof.
  intros Hc Hk. unfold I2, zeros2. cbn [snd]. unfold nthd. rewrite nth_repeat_lt by lia.
  unfold nthZ, nthd, zeros. apply nth_repeat_lt. lia.
Qed.

Section Import.
Variables (ncols w V : Z) (offs : list Z) (rows : list (list cell)).
Let nrows := len rows.
Hypothesis Hoffs : len offs = ncols + 1.
Hypothesis Hw : nrows + 1 <= w.
Hypothesis Hoffs0 : nthZ offs 0 = 0.
Hypothesis Hbudget : forall c, 0 <= c < ncols -> nthZ offs c + len (CB rows c) < nthZ offs (c + 1).
Hypothesis HV : nthZ offs ncols <= V.

Lemma import_part_good inds vals c :
  Good ncols w V offs rows (fun _ => nrows) inds vals -> 0 <= c < ncols ->
  import_part inds vals offs c nrows imp_new =
  Ok (mkImp (len (CB rows c)) (enc_indices (colt rows c)) (enc_values (colt rows c))).
Proof.
  intros (Hsh & Hv & HG) Hc. destruct (HG c Hc) as (_ & Hk & Hb). destruct Hsh as (Hf & Hl & Hr).
  pose proof (len_nonneg rows) as Hn0. fold nrows in Hn0.
  assert (HP : P rows c nrows = len (CB rows c)).
  { unfold P, CB, nrows, len. rewrite Nat2Z.id. rewrite <- (colt_length rows c). apply pre_all. }
  unfold import_part. rewrite (get_ok 20 []) by lia. cbn [bind].
  set (rowv := nthd [] (snd inds) c).
  assert (Hlr : len rowv = w) by (apply Hr; exact Hc).
  unfold np_index. destruct (nrows <? 0) eqn:E; [apply Z.ltb_lt in E; lia|].
  rewrite getZ_ok by lia. cbn [bind]. rewrite getZ_ok by lia. cbn [bind].
  assert (Hlast : nthZ rowv nrows = len (CB rows c)).
  { rewrite <- HP. apply (Hk nrows). lia. }
  rewrite Hlast. cbn [i_acc i_indices i_values imp_new]. rewrite Z.add_0_l, map_add0.
  assert (Hidx : firstn (Z.to_nat (nrows + 1)) rowv = enc_indices (colt rows c)).
  { apply (list_eq_nthd 0).
    - unfold len. rewrite firstn_length, enc_indices_length, colt_length. unfold nrows, len in *. lia.
    - intros i Hi. unfold len in Hi. rewrite firstn_length in Hi. unfold len in Hlr.
      unfold nthd. rewrite nth_firstn by lia. rewrite enc_indices_nth by (rewrite colt_length; unfold nrows, len in *; lia).
      apply (Hk i). unfold nrows, len in *; lia. }
  rewrite Hidx. f_equal. f_equal.
  - unfold enc_indices, psums. destruct (map (fun t => len t) (colt rows c)); reflexivity.
  - unfold enc_values. fold (CB rows c). cbn [app].
    pose proof (offs_nonneg ncols offs rows Hoffs0 Hbudget c ltac:(lia)) as Hon.
    pose proof (P_le rows c nrows ltac:(unfold nrows; lia)) as Hple.
    pose proof (offs_mono ncols offs rows Hbudget (c + 1) ncols ltac:(lia) ltac:(lia) ltac:(lia)) as Hm.
    pose proof (Hbudget c Hc) as Hbu. pose proof (len_nonneg (CB rows c)) as Hcb.
    apply (list_eq_nthd 0).
    + rewrite len_slice; lia.
    + intros j Hj. rewrite len_slice in Hj by lia. rewrite nthd_slice by lia.
      apply (Hb j). rewrite HP. lia.
Qed.

Lemma import_all_good inds vals : Good ncols w V offs rows (fun _ => nrows) inds vals ->
  forall index_map, Forall (fun c => 0 <= c < ncols) index_map ->
  import_all inds vals offs index_map nrows (map (fun _ => imp_new) index_map) =
  Ok (map (fun c => mkImp (len (CB rows c)) (enc_indices (colt rows c)) (enc_values (colt rows c))) index_map).
Proof.
  intros HG. induction index_map as [|c t IH]; intros Hall; [reflexivity|].
  cbn [map import_all]. rewrite import_part_good by (try assumption; apply (Forall_inv Hall)). cbn [bind].
  rewrite IH by (apply (Forall_inv_tail Hall)). reflexivity.
Qed.

End Import.

(* ---- include / exclude ---------------------------------------------------------------- *)
Lemma list_eqb_eq a b : list_eqb a b = true <-> a = b.
Proof.
  revert b. induction a as [|x a IH]; intros [|y b]; cbn; split; intros H; try reflexivity; try discriminate.
  - apply andb_prop in H. destruct H as (H1 & H2). apply Z.eqb_eq in H1. apply IH in H2. subst. reflexivity.
  - inversion H; subst. rewrite Z.eqb_refl. apply (proj2 (IH b)). reflexivity.
Qed.

Lemma mem_name_In k l : mem_name k l = true <-> In k l.
Proof.
  unfold mem_name. rewrite existsb_exists. split.
  - intros (x & Hx & E). apply list_eqb_eq in E. subst. exact Hx.
  - intros H. exists k. split; [exact H|]. apply list_eqb_eq. reflexivity.
Qed.

Lemma fields_to_use_spec names inc exc k :
  In k (fields_to_use names inc exc) <->
  In k names /\ (forall l, inc = Some l -> In k l) /\ (forall l, exc = Some l -> ~ In k l).
Proof.
  unfold fields_to_use. destruct inc as [i|]; destruct exc as [e|]; repeat rewrite filter_In;
    repeat rewrite negb_true_iff; split.
  - intros ((H1 & H2) & H3). apply mem_name_In in H2. split; [exact H1|]. split; intros l E; inversion E; subst; [exact H2|].
    intros Hin. apply mem_name_In in Hin. congruence.
  - intros (H1 & H2 & H3). split; [split; [exact H1|apply mem_name_In; apply H2; reflexivity]|].
    destruct (mem_name k e) eqn:E; [|reflexivity]. apply mem_name_In in E. exfalso. apply (H3 e eq_refl E).
  - intros (H1 & H2). apply mem_name_In in H2. split; [exact H1|]. split; intros l E; inversion E; subst. exact H2.
  - intros (H1 & H2 & H3). split; [exact H1|apply mem_name_In; apply H2; reflexivity].
  - intros (H1 & H3). split; [exact H1|]. split; intros l E; inversion E; subst.
    intros Hin. apply mem_name_In in Hin. congruence.
  - intros (H1 & H2 & H3). split; [exact H1|].
    destruct (mem_name k e) eqn:E; [|reflexivity]. apply mem_name_In in E. exfalso. apply (H3 e eq_refl E).
  - intros H1. split; [exact H1|]. split; intros l E; discriminate.
  - intros (H1 & _). exact H1.
Qed.

Lemma index_of_spec k names : In k names ->
  exists i, index_of k names = Ok i /\ 0 <= i < len names /\ nthd [] names i = k.
Proof.
  induction names as [|x t IH]; intros H; [contradiction|]. cbn [index_of].
  destruct (list_eqb x k) eqn:E.
  - apply list_eqb_eq in E. subst. exists 0. rewrite len_cons. pose proof (len_nonneg t). repeat split; lia.
  - destruct H as [->|H]; [rewrite (proj2 (list_eqb_eq k k) eq_refl) in E; discriminate|].
    destruct (IH H) as (i & Hi & Hr & Hn). rewrite Hi. cbn [bind]. exists (i + 1). rewrite len_cons.
    split; [reflexivity|]. split; [lia|]. rewrite nthd_cons_succ by lia. exact Hn.
Qed.

(* ---- one window holds the whole file ---------------------------------------------------- *)
Lemma last_app_ne (a b:list Z) d : b <> [] -> last (a ++ b) d = last b d.
Proof.
  intros Hb. induction a as [|x a IH]; [reflexivity|]. cbn [app]. destruct (a ++ b) eqn:E.
  - destruct a; [cbn in E; contradiction|discriminate].
  - cbn [last]. rewrite <- IH. reflexivity.
Qed.

Lemma last_render_row r : last (render_row r) NL = NL.
Proof.
  induction r as [|c t IH]; [reflexivity|]. destruct t as [|c2 t].
  - cbn [render_row]. apply last_last.
  - change (render_row (c :: c2 :: t)) with (render_cell c ++ SEP :: render_row (c2 :: t)).
    rewrite last_app_ne by discriminate. pose proof (render_row_nonnil (c2 :: t)) as Hn.
    destruct (render_row (c2 :: t)) eqn:E; [contradiction|]. exact IH.
Qed.

Lemma last_render_file rws : last (render_file rws) NL = NL.
Proof.
  induction rws as [|r rws IH]; [reflexivity|]. unfold render_file in *. cbn [map concat].
  destruct (concat (map render_row rws)) eqn:E.
  - rewrite app_nil_r. apply last_render_row.
  - rewrite last_app_ne by discriminate. exact IH.
Qed.

Lemma last_nthZ (l:list Z) : l <> [] -> last l 0 = nthZ l (len l - 1).
Proof.
  induction l as [|x l IH]; intros H; [contradiction|]. destruct l as [|y l].
  - reflexivity.
  - rewrite len_cons. replace (len (y :: l) + 1 - 1) with ((len (y :: l) - 1) + 1) by lia.
    unfold nthZ. rewrite nthd_cons_succ by (rewrite len_cons; pose proof (len_nonneg l); lia).
    cbn [last]. apply IH. discriminate.
Qed.

Theorem read_file_single_window hdr rows file crs ncols offs index_map fuel :
  0 < ncols -> len hdr = ncols -> Forall (fun rw => len rw = ncols) rows ->
  (file = render_file (hdr :: rows) \/
   (file ++ [NL] = render_file (hdr :: rows) /\ file <> [] /\ last file NL <> NL)) ->
  len (render_file (hdr :: rows)) <= crs * 2 * ncols ->
  len rows < crs * 2 ->
  len offs = ncols + 1 -> nthZ offs 0 = 0 ->
  (forall c, 0 <= c < ncols -> nthZ offs c + len (CB rows c) < nthZ offs (c + 1)) ->
  Forall (fun c => 0 <= c < ncols) index_map ->
  (2 <= fuel)%nat ->
  exists d, read_file fuel file crs ncols offs index_map = Ok d /\
    d_acc d = len rows /\
    map (fun m => (i_indices m, i_values m)) (d_imps d) =
    map (fun ts => (enc_indices ts, enc_values ts)) (select index_map rows).
Proof.
  intros Hncols Hhdr Hrect Hfile Hwin Hidx Hoffs Hoffs0 Hbudget Himap Hfuel.
  set (src := render_file (hdr :: rows)) in *.
  pose proof (len_nonneg rows) as Hn0.
  assert (Hsrc_ne : src <> []).
  { unfold src, render_file. cbn [map concat]. intros E. destruct (render_row_nonnil hdr).
    destruct (render_row hdr); [reflexivity|discriminate]. }
  assert (Hoffs_ne : offs <> []) by (intros ->; unfold len in Hoffs; cbn in Hoffs; lia).
  assert (HV : last offs 0 = nthZ offs ncols) by (rewrite last_nthZ by assumption; f_equal; lia).
  assert (HVn : 0 <= nthZ offs ncols) by (apply (offs_nonneg ncols offs rows Hoffs0 Hbudget); lia).
  assert (Hfile_ne : file <> []) by (destruct Hfile as [->|(_ & H & _)]; assumption).
  assert (Hlenf : 0 < len file <= len src).
  { assert (0 < len file) by (destruct file; [contradiction|rewrite len_cons; pose proof (len_nonneg file); lia]).
    destruct Hfile as [->|(E & _)]; [lia|]. rewrite <- E, len_app. replace (len [NL]) with 1 by reflexivity. lia. }
  destruct (kernel_roundtrip src offs (crs * 2) ncols Hoffs Hncols ltac:(lia) (nthZ offs ncols) rows Hoffs0 Hbudget ltac:(lia) Hidx
              hdr (zeros2 ncols (crs * 2 + 1)) (zeros (nthZ offs ncols)) Hhdr Hrect eq_refl)
    as (out & Hk & Hnext & Hrows & Hif & Hvf & HG).
  { apply shape_zeros2; lia. }
  { intros c Hc. apply I2_zeros2; lia. }
  { apply len_zeros. exact HVn. }
  destruct fuel as [|[|fuel]]; try lia.
  unfold read_file. cbn [drv_loop d_chunk].
  destruct (0 <? len file) eqn:E0; [|apply Z.ltb_ge in E0; lia].
  unfold drv_step. cbn [d_ifull d_vfull d_chunk d_content d_start d_inds d_vals d_offs d_hdr d_imps d_acc d_trace negb andb].
  rewrite Z.add_0_l. rewrite slice_all by lia.
  destruct (len file =? 0) eqn:E1; [apply Z.eqb_eq in E1; lia|].
  rewrite Z.eqb_refl. cbn [andb].
  assert (Hcontent : (if negb (last file NL =? NL) then file ++ [NL] else file) = src).
  { destruct Hfile as [->|(E & _ & Hl)].
    - fold src. unfold src at 1. rewrite last_render_file, Z.eqb_refl. reflexivity.
    - destruct (last file NL =? NL) eqn:E2; [apply Z.eqb_eq in E2; contradiction|]. exact E. }
  rewrite Hcontent. rewrite HV. rewrite Hk. cbn [bind].
  rewrite Hif, Hvf, Hnext, Hrows. cbn [negb andb orb].
  destruct (len src <=? 0) eqn:E3; [apply Z.leb_le in E3; lia|].
  rewrite (import_all_good ncols (crs * 2 + 1) (nthZ offs ncols) offs rows Hoffs ltac:(lia) Hoffs0 Hbudget ltac:(lia) _ _ HG index_map Himap).
  cbn [bind]. cbn [d_chunk].
  destruct (0 + len src <? len file) eqn:E4; [apply Z.ltb_lt in E4; lia|].
  eexists. split; [reflexivity|]. cbn [d_acc d_imps]. split; [lia|].
  unfold select. rewrite !map_map. apply map_ext. intros c. reflexivity.
Qed.

(* two chunk sizes whose window holds the whole file give the same import *)
Theorem read_file_chunk_independent_one_window hdr rows file crs1 crs2 ncols offs1 offs2 index_map fuel1 fuel2 :
  0 < ncols -> len hdr = ncols -> Forall (fun rw => len rw = ncols) rows ->
  (file = render_file (hdr :: rows) \/
   (file ++ [NL] = render_file (hdr :: rows) /\ file <> [] /\ last file NL <> NL)) ->
  len (render_file (hdr :: rows)) <= crs1 * 2 * ncols -> len (render_file (hdr :: rows)) <= crs2 * 2 * ncols ->
  len rows < crs1 * 2 -> len rows < crs2 * 2 ->
  len offs1 = ncols + 1 -> nthZ offs1 0 = 0 -> len offs2 = ncols + 1 -> nthZ offs2 0 = 0 ->
  (forall c, 0 <= c < ncols -> nthZ offs1 c + len (CB rows c) < nthZ offs1 (c + 1)) ->
  (forall c, 0 <= c < ncols -> nthZ offs2 c + len (CB rows c) < nthZ offs2 (c + 1)) ->
  Forall (fun c => 0 <= c < ncols) index_map -> (2 <= fuel1)%nat -> (2 <= fuel2)%nat ->
  exists d1 d2, read_file fuel1 file crs1 ncols offs1 index_map = Ok d1 /\
                read_file fuel2 file crs2 ncols offs2 index_map = Ok d2 /\
                d_acc d1 = d_acc d2 /\
                map (fun m => (i_indices m, i_values m)) (d_imps d1) = map (fun m => (i_indices m, i_values m)) (d_imps d2).
Proof.
  intros. 
  destruct (read_file_single_window hdr rows file crs1 ncols offs1 index_map fuel1) as (d1 & E1 & A1 & C1); try assumption.
  destruct (read_file_single_window hdr rows file crs2 ncols offs2 index_map fuel2) as (d2 & E2 & A2 & C2); try assumption.
  exists d1, d2. repeat split; try assumption; congruence.
Qed.
