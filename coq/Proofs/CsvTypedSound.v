(* Proofs/CsvTypedSound.v — the typed importer list of Model/CsvTyped.v is SOUND (Proofs/CsvTypedGen.v):
   when the staging buffers hold a group of records in the columnar layout (CsvTable.Good), one round of
   import_part calls takes every importer (indexed string, fixed string, categorical, categorical with
   free text) from its state after the records A to its state after A ++ recs.  With the generic driver
   theorem this gives the end-to-end import of a typed CSV file = the per-column specification of
   Spec/TransformSpec.v (C06) applied to the column's cell texts, for every chunk_row_size whose window
   holds every line and every positive budget vector. *)
From Coq Require Import ZArith List Lia Bool.
From EV Require Import Res Arr Csv CsvSpec CsvBase CsvTable CsvMulti CsvRegrowDrv.
From EV Require Import Transform TransformSpec TransformBase TransformCat TransformLeaky TransformFixed.
From EV Require Import CsvTyped CsvTypedGen.
Import ListNotations.
Open Scope Z_scope.

(* ---- lists ------------------------------------------------------------------------------------------ *)
Lemma split3 (l:list Z) a n : 0 <= a -> 0 <= n -> a + n <= len l ->
  l = firstn (Z.to_nat a) l ++ slice l a (a + n) ++ skipn (Z.to_nat (a + n)) l.
Proof.
  intros Ha Hn Hl. unfold slice. replace (a + n - a) with n by lia.
  rewrite <- (firstn_skipn (Z.to_nat a) l) at 1. f_equal.
  rewrite <- (firstn_skipn (Z.to_nat n) (skipn (Z.to_nat a) l)) at 1. f_equal.
  rewrite skipn_skipn_. f_equal. lia.
Qed.

Lemma nth_mid {A} (pre:list A) x post d : nth (length pre) (pre ++ x :: post) d = x.
Proof. rewrite app_nth2 by lia. rewrite Nat.sub_diag. reflexivity. Qed.

(* ---- the chunk view of one column of Good buffers ----------------------------------------------------- *)
Section View.
Variables (ncols w V : Z) (offs : list Z) (recs : list (list cell)).
Hypothesis Hoffs : len offs = ncols + 1.
Hypothesis Hw : len recs + 1 <= w.
Hypothesis Hoffs0 : nthZ offs 0 = 0.
Hypothesis Hbudget : forall c, 0 <= c < ncols -> nthZ offs c + len (CB recs c) < nthZ offs (c + 1).
Hypothesis HV : nthZ offs ncols <= V.

Definition view_chunk (inds:arr2) (vals:list Z) (c:Z) : chunk :=
  mkChunk (nthd [] (snd inds) c) vals (nthZ offs c) (nthZ offs (c + 1) - nthZ offs c) (len recs).

Lemma good_chunk inds vals c :
  CsvTable.Good ncols w V offs recs (fun _ => len recs) inds vals -> 0 <= c < ncols ->
  chunk_of inds vals offs c (len recs) = Ok (view_chunk inds vals c) /\
  rows_viewed (view_chunk inds vals c) (colt recs c) /\
  len (c_inds (view_chunk inds vals c)) = w /\
  sumZ (map len (colt recs c)) <= c_count (view_chunk inds vals c).
Proof.
  intros (Hsh & Hv & HG) Hc. destruct (HG c Hc) as (_ & Hk & Hb). destruct Hsh as (Hf & Hl & Hr).
  pose proof (len_nonneg recs) as Hn0.
  pose proof (offs_nonneg ncols offs recs Hoffs0 Hbudget c ltac:(lia)) as Hon.
  pose proof (offs_mono ncols offs recs Hbudget (c + 1) ncols ltac:(lia) ltac:(lia) ltac:(lia)) as Hm.
  pose proof (Hbudget c Hc) as Hbu.
  assert (HP : P recs c (len recs) = len (CB recs c)).
  { unfold P, CB, len. rewrite Nat2Z.id. rewrite <- (colt_length recs c). apply pre_all. }
  split; [|split; [|split]].
  - unfold chunk_of, view_chunk. rewrite (get_ok 70 []) by lia. cbn [bind].
    rewrite !getZ_ok by lia. reflexivity.
  - intros pre cell post Hsplit.
    assert (Hlc : length (colt recs c) = (length pre + S (length post))%nat) by (rewrite Hsplit, app_length; reflexivity).
    rewrite colt_length in Hlc.
    assert (Hr0 : 0 <= len pre < len recs) by (unfold len; lia).
    assert (Hct : cell_text recs (len pre) c = cell).
    { unfold cell_text, len. rewrite Nat2Z.id, Hsplit. apply nth_mid. }
    pose proof (P_succ recs c (len pre) Hr0) as Hps. rewrite Hct in Hps.
    pose proof (P_nonneg recs c (len pre)) as Hpn.
    pose proof (P_le recs c (len pre + 1) ltac:(lia)) as Hple.
    pose proof (len_nonneg cell) as Hcl.
    set (a := nthZ offs c + P recs c (len pre)).
    assert (Hrowlen : len (nthd [] (snd inds) c) = w) by (apply Hr; exact Hc).
    apply (mkRowView _ _ _ (P recs c (len pre)) (firstn (Z.to_nat a) vals) (skipn (Z.to_nat (a + len cell)) vals)).
    + lia.
    + intros site. cbn [view_chunk c_inds]. rewrite getZ_ok by lia. f_equal. apply (Hk (len pre)). lia.
    + intros site. cbn [view_chunk c_inds]. rewrite getZ_ok by lia. f_equal. rewrite <- Hps. apply (Hk (len pre + 1)). lia.
    + cbn [view_chunk c_vals].
      rewrite (split3 vals a (len cell)) at 1 by (unfold a; lia). f_equal. f_equal.
      apply (list_eq_nthd 0).
      * rewrite len_slice by (unfold a; lia). lia.
      * intros j Hj. rewrite len_slice in Hj by (unfold a; lia).
        rewrite nthd_slice by (unfold a; lia).
        unfold a. replace (nthZ offs c + P recs c (len pre) + j) with (nthZ offs c + (P recs c (len pre) + j)) by lia.
        fold (nthZ vals (nthZ offs c + (P recs c (len pre) + j))).
        rewrite (Hb (P recs c (len pre) + j)) by (rewrite HP; lia).
        rewrite (CB_at recs c (len pre) j Hr0) by (rewrite Hct; lia). rewrite Hct. reflexivity.
    + cbn [view_chunk c_off]. unfold len at 1. rewrite firstn_length. unfold a, len in *. lia.
  - cbn [view_chunk c_inds]. apply Hr. exact Hc.
  - cbn [view_chunk c_count]. unfold CB in Hbu. rewrite sumZ_map_len_concat. lia.
Qed.

End View.

(* ---- import_part of the typed importers on a viewed chunk ------------------------------------------------ *)
Lemma leaky_import_part_view s prev ch cells :
  rows_viewed ch cells -> c_rows ch = len cells -> len cells + 1 <= len (c_inds ch) ->
  sumZ (map len cells) <= c_count ch ->
  leaky_import_part (bm_of s) (lk_state_of s prev) ch = Ok (lk_state_of s (prev ++ cells)).
Proof.
  intros Hrv Hrows Hinds Hcount. unfold leaky_import_part, leaky_categorical_transform, bm_of.
  rewrite Hrows.
  pose proof (lk_rows_ok ch s cells Hrv cells [] (Z.to_nat (len (c_inds ch) - 1)) (c_count ch) eq_refl) as H.
  cbn [map app len length Z.of_nat concat] in H.
  fold (len cells) in H.
  replace (zeros (len cells + 1)) with (psums [] ++ zeros (len cells)).
  2:{ unfold psums. cbn [psums_from app]. rewrite zeros_succ by apply len_nonneg. reflexivity. }
  rewrite H; [|unfold len in *; lia|exact Hcount].
  clear H. cbn [bind lk_fi lk_chunk lk_fv].
  assert (G : get 38 (psums (map (lk_len s) cells)) (len cells) = Ok (sumZ (map (lk_len s) cells))).
  { replace (len cells) with (Z.of_nat (length (map (lk_len s) cells))) by (rewrite map_length; reflexivity).
    unfold psums. rewrite (get_nth 38 _ _ 0) by (rewrite psums_from_length; lia).
    rewrite psums_from_nth_last. f_equal; lia. }
  rewrite G. cbn [bind]. unfold lk_state_of. cbn [ls_data ls_idx ls_vals ls_acc].
  f_equal. f_equal.
  - rewrite map_app. reflexivity.
  - rewrite map_app. unfold psums. rewrite TransformBase.psums_from_app. f_equal.
    rewrite map_add_psums_from. destruct (map (lk_len s) cells); reflexivity.
  - rewrite map_app, concat_app. f_equal.
    rewrite lk_len_text. unfold slice. cbn [Z.to_nat skipn]. rewrite Z.sub_0_r.
    unfold len. rewrite Nat2Z.id. rewrite firstn_app, Nat.sub_diag, firstn_all. cbn [firstn]. apply app_nil_r.
  - rewrite map_app, sumZ_app. reflexivity.
Qed.

Lemma cat_import_part_view s data ch cells :
  rows_viewed ch cells -> c_rows ch = len cells -> len cells + 1 <= len (c_inds ch) ->
  cat_import_part (bm_of s) data ch = Ok (data ++ map (cat_code s) cells).
Proof.
  intros Hrv Hrows Hinds. unfold cat_import_part, categorical_transform, bm_of. rewrite Hrows.
  pose proof (cat_rows_ok ch s cells Hrv cells [] (Z.to_nat (len (c_inds ch) - 1)) eq_refl) as H.
  cbn [map app len length Z.of_nat] in H. rewrite H; [reflexivity|]. unfold len in *. lia.
Qed.

Lemma fixed_import_part_view n data ch cells :
  0 <= n -> rows_viewed ch cells -> c_rows ch = len cells ->
  fixed_import_part n data ch = Ok (data ++ spec_fixed n cells).
Proof.
  intros Hn Hrv Hrows. unfold fixed_import_part, fixed_string_transform. rewrite Hrows.
  pose proof (fs_rows_ok ch n cells [] Hn Hrv cells [] eq_refl) as H.
  cbn [map concat app len length Z.of_nat] in H. rewrite !app_nil_r in H.
  replace (Z.to_nat (len cells)) with (length cells) by (unfold len; lia).
  fold (len cells) in H. rewrite H. reflexivity.
Qed.

(* ---- the state of each importer after the records A ----------------------------------------------------------- *)
(* the definitions this theorem covers: the importers that never raise on cell contents *)
Definition fdef_ok (d:fdef) : Prop :=
  match d with
  | FStr => True
  | FFixed n => 0 <= n
  | FCat cats | FLeaky cats => cats_ok cats = true /\ sumZ (map lenfst cats) <= I64MAX
  | FBool _ _ | FInt _ _ _ _ _ => False
  end.

Definition fimp_of (d:fdef) (A:list (list cell)) (c:Z) : fimp :=
  match d with
  | FStr => MStr (imp_of A c)
  | FFixed n => MFixed n (spec_fixed n (colt A c))
  | FCat cats => MCat (bm_of (sort_keys cats)) (map (cat_code (sort_keys cats)) (colt A c))
  | FLeaky cats => MLeaky (bm_of (sort_keys cats)) (lk_state_of (sort_keys cats) (colt A c))
  | FBool inv mode => MBool inv mode ([], [])
  | FInt lo hi mode it iv => MInt lo hi mode it iv ([], [])
  end.

Lemma fimp_new_ok d c : fdef_ok d -> fimp_new d = Ok (fimp_of d [] c).
Proof.
  destruct d as [|n|cats|cats|inv mode|lo hi mode it iv]; cbn [fdef_ok fimp_new fimp_of]; intros H; try contradiction.
  - reflexivity.
  - reflexivity.
  - destruct H as (Hok & Hsz). pose proof (cats_ok_values cats Hok) as Hv.
    rewrite create_categorical_ok by (intros kv Hin; specialize (Hv kv Hin); lia). cbn [bind].
    unfold get_byte_map. rewrite get_byte_map_gen_ok; [|intros kv Hin; specialize (Hv kv Hin); lia|exact Hsz].
    reflexivity.
  - destruct H as (Hok & Hsz). pose proof (cats_ok_values cats Hok) as Hv.
    unfold get_byte_map. rewrite get_byte_map_gen_ok; [|intros kv Hin; specialize (Hv kv Hin); lia|exact Hsz].
    cbn [bind]. rewrite create_categorical_ok by (intros kv Hin; specialize (Hv kv Hin); lia). reflexivity.
Qed.

Lemma spec_fixed_app n a b : spec_fixed n (a ++ b) = spec_fixed n a ++ spec_fixed n b.
Proof. unfold spec_fixed. rewrite map_app. apply concat_app. Qed.

Section Sound.
Variables (ncols w V : Z) (offs : list Z) (A recs : list (list cell)) (inds : arr2) (vals : list Z).
Hypothesis Hoffs : len offs = ncols + 1.
Hypothesis Hw : len recs + 1 <= w.
Hypothesis Hoffs0 : nthZ offs 0 = 0.
Hypothesis Hbudget : forall c, 0 <= c < ncols -> nthZ offs c + len (CB recs c) < nthZ offs (c + 1).
Hypothesis HV : nthZ offs ncols <= V.
Hypothesis HG : CsvTable.Good ncols w V offs recs (fun _ => len recs) inds vals.

Lemma fimp_part_sound d c : fdef_ok d -> 0 <= c < ncols ->
  fimp_part inds vals offs c (len recs) (fimp_of d A c) = Ok (fimp_of d (A ++ recs) c).
Proof.
  intros Hd Hc.
  destruct (good_chunk ncols w V offs recs Hoffs Hw Hoffs0 Hbudget HV inds vals c HG Hc) as (Hch & Hrv & Hli & Hcnt).
  assert (Hlc : len (colt recs c) = len recs) by (unfold len; rewrite colt_length; reflexivity).
  destruct d as [|n|cats|cats|inv mode|lo hi mode it iv]; cbn [fdef_ok] in Hd; try contradiction; cbn [fimp_of fimp_part].
  - rewrite (import_part_gen ncols w V offs recs Hoffs Hw Hoffs0 Hbudget HV inds vals c (imp_of A c) HG Hc). cbn [bind].
    rewrite imp_add_of. reflexivity.
  - rewrite Hch. cbn [bind].
    rewrite (fixed_import_part_view n _ _ (colt recs c) Hd Hrv) by (cbn [view_chunk c_rows]; lia). cbn [bind].
    rewrite colt_app, spec_fixed_app. reflexivity.
  - rewrite Hch. cbn [bind].
    rewrite (cat_import_part_view _ _ _ (colt recs c) Hrv) by (cbn [view_chunk c_rows]; lia). cbn [bind].
    rewrite colt_app, map_app. reflexivity.
  - rewrite Hch. cbn [bind].
    rewrite (leaky_import_part_view _ _ _ (colt recs c) Hrv) by (cbn [view_chunk c_rows]; lia). cbn [bind].
    rewrite colt_app. reflexivity.
Qed.

Lemma fimp_all_sound : forall (defs:list fdef) (index_map:list Z),
  Forall fdef_ok defs -> Forall (fun c => 0 <= c < ncols) index_map -> length defs = length index_map ->
  fimp_all index_map inds vals offs (len recs) (map (fun dc => fimp_of (fst dc) A (snd dc)) (combine defs index_map))
  = Ok (map (fun dc => fimp_of (fst dc) (A ++ recs) (snd dc)) (combine defs index_map)).
Proof.
  induction defs as [|d defs IH]; intros index_map Hd Hi Hl.
  - destruct index_map; reflexivity.
  - destruct index_map as [|c t]; [discriminate|]. cbn [combine map fimp_all fst snd].
    rewrite fimp_part_sound by (try apply (Forall_inv Hd); apply (Forall_inv Hi)). cbn [bind].
    rewrite IH by (try apply (Forall_inv_tail Hd); try apply (Forall_inv_tail Hi); cbn in Hl; lia). reflexivity.
Qed.

End Sound.

Definition tist (defs:list fdef) (index_map:list Z) (A:list (list cell)) : list fimp :=
  map (fun dc => fimp_of (fst dc) A (snd dc)) (combine defs index_map).

Theorem typed_importers_sound ncols defs index_map :
  Forall fdef_ok defs -> Forall (fun c => 0 <= c < ncols) index_map -> length defs = length index_map ->
  imp_sound (list fimp) (fimp_all index_map) ncols (tist defs index_map).
Proof.
  intros Hd Hi Hl A recs w V offs inds vals Hoffs Hw Hoffs0 Hbudget HV HG. unfold tist.
  apply (fimp_all_sound ncols w V offs A recs inds vals Hoffs Hw Hoffs0 Hbudget HV HG defs index_map Hd Hi Hl).
Qed.

Lemma map_res_fimp_new : forall defs index_map, Forall fdef_ok defs -> length defs = length index_map ->
  Csv.map_res fimp_new defs = Ok (tist defs index_map []).
Proof.
  induction defs as [|d defs IH]; intros index_map Hd Hl.
  - destruct index_map; reflexivity.
  - destruct index_map as [|c t]; [discriminate|]. cbn [Csv.map_res]. unfold tist. cbn [combine map fst snd].
    rewrite (fimp_new_ok d c (Forall_inv Hd)). cbn [bind].
    fold (tist defs t []). rewrite (IH t (Forall_inv_tail Hd)) by (cbn in Hl; lia). reflexivity.
Qed.

(* ---- what is observable of an importer, and what the property promises for it ------------------------------ *)
Definition obs (m:fimp) : list (list Z) :=
  match m with
  | MStr s => [i_indices s; i_values s]
  | MFixed _ d => [d]
  | MCat _ d => [d]
  | MLeaky _ st => [ls_data st; ls_idx st; ls_vals st]
  | MBool _ _ st => [fst st; snd st]
  | MInt _ _ _ _ _ st => [fst st; snd st]
  end.

Definition spec_obs (d:fdef) (ts:list (list Z)) : list (list Z) :=
  match d with
  | FStr => [enc_indices ts; enc_values ts]
  | FFixed n => [spec_fixed n ts]
  | FCat cats => [spec_cat cats ts]
  | FLeaky cats => let '(codes, idx, bytes) := spec_leaky cats ts in [codes; idx; bytes]
  | FBool _ _ | FInt _ _ _ _ _ => []
  end.

Lemma obs_fimp_of d rows c : fdef_ok d -> obs (fimp_of d rows c) = spec_obs d (colt rows c).
Proof.
  destruct d as [|n|cats|cats|inv mode|lo hi mode it iv]; cbn [fdef_ok fimp_of obs spec_obs]; intros H; try contradiction.
  - reflexivity.
  - reflexivity.
  - destruct H as (Hok & _). unfold spec_cat. f_equal. apply map_ext. intros cl. apply cat_code_spec.
    unfold cats_ok in Hok. apply andb_prop in Hok. tauto.
  - destruct H as (Hok & _). pose proof (cats_ok_values cats Hok) as Hv.
    assert (Hd : keys_distinct cats = true) by (unfold cats_ok in Hok; apply andb_prop in Hok; tauto).
    unfold spec_leaky, lk_state_of. cbn [ls_data ls_idx ls_vals].
    f_equal; [|f_equal; [|f_equal]].
    + apply map_ext. intros cl. unfold lk_code. rewrite lmo_lookup by exact Hd.
      destruct (lookup cats cl) as [v|] eqn:L; [|reflexivity].
      cbn [option_map sel]. apply wrap_i8_small. apply lookup_some in L. exact (Hv _ L).
    + f_equal. apply map_ext. intros cl. unfold lk_len. rewrite lmo_lookup by exact Hd.
      destruct (lookup cats cl); reflexivity.
    + f_equal. apply map_ext. intros cl. unfold lk_text. rewrite lmo_lookup by exact Hd.
      destruct (lookup cats cl); reflexivity.
Qed.

(* ---- end to end --------------------------------------------------------------------------------------------- *)
Theorem typed_read_file_roundtrip hdr rows file crs ncols offs index_map defs fuel :
  0 < ncols -> len hdr = ncols -> Forall (fun rw : list cell => len rw = ncols) rows ->
  (file = render_file (hdr :: rows) \/
   (file ++ [NL] = render_file (hdr :: rows) /\ file <> [] /\ last file NL <> NL)) ->
  (forall r, In r (hdr :: rows) -> len (render_row r) <= crs * 2 * ncols) ->
  okoffs ncols offs ->
  Forall fdef_ok defs -> Forall (fun c => 0 <= c < ncols) index_map -> length defs = length index_map ->
  (2 * length rows + 2 * Z.to_nat (mu ncols rows offs) + 4 <= fuel)%nat ->
  exists d, tread_file fuel file crs ncols offs index_map defs = Ok d /\
    g_acc d = len rows /\
    map obs (g_imps d) =
    map (fun dc => spec_obs (fst dc) (column (Z.to_nat (snd dc)) rows)) (combine defs index_map).
Proof.
  intros Hn Hh Hr Hf Hw Ho Hd Hi Hl Hfu. unfold tread_file.
  rewrite (map_res_fimp_new defs index_map Hd Hl). cbn [bind].
  destruct (gread_file_sound hdr rows file crs ncols (list fimp) (fimp_all index_map) (tist defs index_map)
              Hn Hh Hr Hf Hw (typed_importers_sound ncols defs index_map Hd Hi Hl) offs fuel Ho Hfu) as (d & E & Ha & Hs).
  exists d. split; [exact E|]. split; [exact Ha|]. rewrite Hs. unfold tist. rewrite map_map.
  apply map_ext_in. intros [df c] Hin. cbn [fst snd]. apply obs_fimp_of.
  apply in_combine_l in Hin. rewrite Forall_forall in Hd. apply Hd. exact Hin.
Qed.
