(* Proofs/SpansRleProofs.v — the span list computed on a run-length encoding is the span list the
   statement-level models compute on the expanded column. *)
From Coq Require Import ZArith List Lia Bool.
From EV Require Import Res Arr Spans SpansSpec SpansBase SpansRef SpansField SpansIndexed SpansMain SpansRle.
Import ListNotations.
Open Scope Z_scope.

Section RleProofs.
Context {A:Type}.
Variable neqb : A -> A -> bool.

Lemma len_repeat (v:A) k : len (repeat v k) = Z.of_nat k.
Proof. unfold len. rewrite repeat_length. reflexivity. Qed.

Lemma len_expand (rl:list (A * Z)) : len (expand rl) = rle_len rl.
Proof.
  induction rl as [|[v n] t IH]; [reflexivity|].
  cbn [expand rle_len]. rewrite len_app, len_repeat, IH. lia.
Qed.

Hypothesis Hrefl : forall x, neqb x x = false.

(* a run of k more copies of the head contributes no boundary *)
Lemma bounds_from_run i (v:A) k rest :
  bounds_from neqb i (v :: repeat v k ++ rest) = bounds_from neqb (i + Z.of_nat k) (v :: rest).
Proof.
  revert i. induction k as [|k IH]; intros i.
  - cbn [repeat app]. f_equal. lia.
  - cbn [repeat app].
    change (bounds_from neqb i (v :: v :: repeat v k ++ rest))
      with (if neqb v v then (i + 1) :: bounds_from neqb (i + 1) (v :: repeat v k ++ rest)
            else bounds_from neqb (i + 1) (v :: repeat v k ++ rest)).
    rewrite Hrefl, IH. f_equal. lia.
Qed.

Lemma rle_bounds_some rl : forall p pos,
  rle_bounds neqb (Some p) pos rl = bounds_from neqb (pos - 1) (p :: expand rl).
Proof.
  induction rl as [|[v n] t IH]; intros p pos; [reflexivity|].
  cbn [rle_bounds expand]. destruct (n <=? 0) eqn:En.
  - apply Z.leb_le in En. replace (Z.to_nat n) with 0%nat by lia. cbn [repeat app]. apply IH.
  - apply Z.leb_gt in En. destruct (Z.to_nat n) as [|k] eqn:Ek; [lia|].
    cbn [repeat app].
    change (bounds_from neqb (pos - 1) (p :: v :: repeat v k ++ expand t))
      with (if neqb p v then (pos - 1 + 1) :: bounds_from neqb (pos - 1 + 1) (v :: repeat v k ++ expand t)
            else bounds_from neqb (pos - 1 + 1) (v :: repeat v k ++ expand t)).
    rewrite bounds_from_run. rewrite !IH.
    replace (pos - 1 + 1) with pos by lia.
    replace (pos + n - 1) with (pos + Z.of_nat k) by lia. reflexivity.
Qed.

Lemma rle_bounds_none rl : rle_bounds neqb None 0 rl = bounds_from neqb 0 (expand rl).
Proof.
  induction rl as [|[v n] t IH]; [reflexivity|].
  cbn [rle_bounds expand]. destruct (n <=? 0) eqn:En.
  - apply Z.leb_le in En. replace (Z.to_nat n) with 0%nat by lia. cbn [repeat app]. apply IH.
  - apply Z.leb_gt in En. destruct (Z.to_nat n) as [|k] eqn:Ek; [lia|].
    cbn [repeat app]. rewrite bounds_from_run, rle_bounds_some.
    f_equal. lia.
Qed.

Theorem spans_of_rle_ref rl : spans_of_rle neqb rl = spans_ref neqb (expand rl).
Proof.
  unfold spans_of_rle. rewrite <- len_expand, rle_bounds_none.
  destruct (expand rl) as [|x t] eqn:E.
  - reflexivity.
  - assert (H : (len (x :: t) =? 0) = false).
    { apply Z.eqb_neq. rewrite len_cons. pose proof (len_nonneg t). lia. }
    rewrite H. reflexivity.
Qed.
End RleProofs.

(* ---- consequences for the statement-level models ------------------------------------------------ *)
Lemma neq_test_refl {A} (neqb:A -> A -> bool) : neq_test neqb -> forall x, neqb x x = false.
Proof. intros H x. apply H. reflexivity. Qed.

(* get_spans_for_field on the expanded column (Field.get_spans, Session.get_spans(field | ndarray)) *)
Theorem spans_rle_field_pf {A} (neqb:A -> A -> bool) (rl:list (A * Z)) :
  neq_test neqb -> get_spans_for_field neqb (expand rl) = spans_of_rle neqb rl.
Proof.
  intros H. rewrite get_spans_for_field_ref. symmetry. apply spans_of_rle_ref. apply neq_test_refl, H.
Qed.

(* the answer on the encoding is THE span list of the expanded column *)
Theorem spans_rle_correct_pf {A} (neqb:A -> A -> bool) (d:A) (rl:list (A * Z)) :
  neq_test neqb -> is_spans d (expand rl) (spans_of_rle neqb rl).
Proof.
  intros H. rewrite spans_of_rle_ref by (apply neq_test_refl, H). apply spans_ref_is_spans. exact H.
Qed.

(* an indexed string field whose rows are the expanded encoding *)
Theorem spans_rle_indexed_pf indices values (rl:list (list Z * Z)) :
  valid_indexed indices values -> indexed_rows indices values = expand rl ->
  get_spans_for_index_string_field indices values = Ok (spans_of_rle bytes_neqb rl).
Proof.
  intros Hv Hr. rewrite entry_points_agree_indexed_pf by exact Hv. rewrite Hr.
  f_equal. apply spans_rle_field_pf. exact bytes_neqb_spec.
Qed.

(* two columns: the Field path (merge of the two boundary lists) and the ndarray path (2-field kernel) *)
Theorem spans_rle_2_arrays_pf {A B} (neqbA:A -> A -> bool) (neqbB:B -> B -> bool) (dA:A) (dB:B)
  (r0:list (A * Z)) (r1:list (B * Z)) :
  neq_test neqbA -> neq_test neqbB -> rle_len r0 = rle_len r1 ->
  get_spans_for_2_fields neqbA neqbB (expand r0) (expand r1) = spans_of_rle_2 neqbA neqbB r0 r1 /\
  exists sp, spans_of_rle_2 neqbA neqbB r0 r1 = Ok sp /\ is_spans (dA, dB) (combine (expand r0) (expand r1)) sp.
Proof.
  intros HA HB Hl.
  assert (Hlen : len (expand r0) = len (expand r1)) by (rewrite !len_expand; exact Hl).
  assert (E : get_spans_for_2_fields neqbA neqbB (expand r0) (expand r1) = spans_of_rle_2 neqbA neqbB r0 r1).
  { unfold spans_of_rle_2. rewrite <- (spans_rle_field_pf neqbA r0 HA), <- (spans_rle_field_pf neqbB r1 HB).
    symmetry. apply (entry_points_agree_pf neqbA neqbB dA dB); assumption. }
  split; [exact E|]. rewrite <- E.
  apply spans_2_fields_correct_pf; assumption.
Qed.

(* Field.get_spans() of a field whose rows are the expanded encoding, per field kind *)
Theorem field_get_spans_rle_num_pf (r:list (Z * Z)) :
  field_get_spans (ColNum (expand r)) = Ok (spans_of_rle Z_neqb r).
Proof. cbn [field_get_spans]. f_equal. apply spans_rle_field_pf. exact Z_neqb_spec. Qed.
Theorem field_get_spans_rle_fixed_pf (r:list (list Z * Z)) :
  field_get_spans (ColFixed (expand r)) = Ok (spans_of_rle bytes_neqb r).
Proof. cbn [field_get_spans]. f_equal. apply spans_rle_field_pf. exact bytes_neqb_spec. Qed.
Theorem field_get_spans_rle_indexed_pf indices values (r:list (list Z * Z)) :
  valid_indexed indices values -> indexed_rows indices values = expand r ->
  field_get_spans (ColIndexed indices values) = Ok (spans_of_rle bytes_neqb r).
Proof. intros Hv Hr. cbn [field_get_spans]. apply spans_rle_indexed_pf; assumption. Qed.

(* Session.get_spans(fields=(Field, Field)): the merge of whatever the two fields return *)
Theorem session_fields_rle_pf c0 c1 s0 s1 :
  field_get_spans c0 = Ok s0 -> field_get_spans c1 = Ok s1 ->
  session_get_spans_fields c0 c1 = get_spans_for_2_fields_by_spans s0 s1.
Proof. intros H0 H1. unfold session_get_spans_fields. rewrite H0, H1. reflexivity. Qed.
