(* Proofs/FilterIndexKernels.v — the two two-pass kernels of operations.py return the canonical
   storage (prefix-sum index, concatenated values) of the selected entries, for every column of
   byte strings, every filter not longer than the column and every in-range index array. *)
From Coq Require Import ZArith List Bool Lia.
From EV Require Import Res Arr StableSort FilterIndex FilterIndexSpec.
Import ListNotations.
Open Scope Z_scope.

Definition lens (cs:list cell) : list Z := map (@len Z) cs.
Definition off (cs:list cell) : Z := sumZ (lens cs).

(* ------------------------------------------------------------------ list helpers *)
Lemma firstn_app_exact {A} (l1 l2:list A) : firstn (length l1) (l1 ++ l2) = l1.
Proof. induction l1 as [|x t IH]; cbn; [reflexivity|]. rewrite IH; reflexivity. Qed.

Lemma skipn_app_exact {A} (l1 l2:list A) : skipn (length l1) (l1 ++ l2) = l2.
Proof. induction l1 as [|x t IH]; cbn; [reflexivity|]. exact IH. Qed.

Lemma skipn_app_plus {A} (l1 l2:list A) k : skipn (length l1 + k) (l1 ++ l2) = skipn k l2.
Proof. induction l1 as [|x t IH]; cbn; [reflexivity|]. exact IH. Qed.

Lemma skipn_repeat {A} (x:A) k m : skipn k (repeat x (k + m)) = repeat x m.
Proof. induction k as [|k IH]; cbn; [reflexivity|]. exact IH. Qed.

Lemma upd_nat_app_exact {A} (l1 l2:list A) x v : upd_nat (l1 ++ x :: l2) (length l1) v = l1 ++ v :: l2.
Proof. induction l1 as [|y t IH]; cbn; [reflexivity|]. rewrite IH; reflexivity. Qed.

Lemma sumZ_nonneg l : Forall (fun x => 0 <= x) l -> 0 <= sumZ l.
Proof. induction 1; cbn; lia. Qed.

Lemma lens_nonneg cs : Forall (fun x => 0 <= x) (lens cs).
Proof. unfold lens. apply Forall_forall. intros x Hx. apply in_map_iff in Hx. destruct Hx as [c [<- _]]. apply len_nonneg. Qed.

Lemma off_nonneg cs : 0 <= off cs.
Proof. apply sumZ_nonneg, lens_nonneg. Qed.

Lemma off_cons c cs : off (c :: cs) = len c + off cs.
Proof. reflexivity. Qed.

Lemma off_app a b : off (a ++ b) = off a + off b.
Proof. unfold off, lens. rewrite map_app, sumZ_app. reflexivity. Qed.

Lemma len_concat (cs:list cell) : len (concat cs) = off cs.
Proof.
  induction cs as [|c t IH]; [reflexivity|]. cbn [concat]. rewrite len_app, IH. reflexivity.
Qed.

Lemma psums_from_nth acc l i : (i <= length l)%nat -> nth i (psums_from acc l) 0 = acc + sumZ (firstn i l).
Proof.
  revert acc i. induction l as [|x t IH]; intros acc [|i] H; cbn [psums_from firstn sumZ nth length] in *; try lia.
  rewrite IH by lia. lia.
Qed.

Lemma len_psums l : len (psums l) = len l + 1.
Proof. unfold psums, len. rewrite psums_from_length. lia. Qed.

Lemma psums_snoc l x : psums (l ++ [x]) = psums l ++ [sumZ l + x].
Proof. unfold psums. rewrite psums_from_snoc. reflexivity. Qed.

Lemma len_repeat {A} (x:A) n : len (repeat x n) = Z.of_nat n.
Proof. unfold len. rewrite repeat_length. reflexivity. Qed.

(* ------------------------------------------------------------------ reading one row *)
Section Rows.
Variable cells : list cell.
Local Notation idx := (psums (lens cells)).
Local Notation vals := (concat cells).
Local Notation cur_ := (slice idx 0 (len idx - 1)).
Local Notation next_ := (skipn 1 idx).

Lemma len_idx : len idx = len cells + 1.
Proof. rewrite len_psums. unfold lens, len. rewrite map_length. reflexivity. Qed.

Lemma len_cur : len cur_ = len cells.
Proof. rewrite len_slice; rewrite ?len_idx; pose proof (len_nonneg cells); lia. Qed.

Lemma len_next : len next_ = len cells.
Proof. pose proof len_idx as H. unfold len in *. rewrite skipn_length. lia. Qed.

Lemma idx_at pre c post : cells = pre ++ c :: post ->
  nthd 0 idx (len pre) = off pre /\ nthd 0 idx (len pre + 1) = off pre + len c.
Proof.
  intros E. unfold psums, nthd, len. split.
  - rewrite Nat2Z.id. rewrite psums_from_nth.
    + rewrite E. unfold lens. rewrite map_app. rewrite <- (map_length (@Arr.len Z) pre) at 1.
      rewrite firstn_app_exact. reflexivity.
    + unfold lens. rewrite map_length, E, app_length. lia.
  - replace (Z.to_nat (Z.of_nat (length pre) + 1)) with (length (pre ++ [c])) by (rewrite app_length; cbn; lia).
    rewrite psums_from_nth.
    + replace cells with ((pre ++ [c]) ++ post) by (rewrite E, <- app_assoc; reflexivity).
      unfold lens. rewrite map_app. rewrite <- (map_length (@Arr.len Z) (pre ++ [c])) at 1.
      rewrite firstn_app_exact. rewrite map_app, sumZ_app. cbn. rewrite Z.add_0_r. reflexivity.
    + unfold lens. rewrite map_length, E, !app_length. cbn. lia.
Qed.

Lemma cur_get site pre c post : cells = pre ++ c :: post -> get site cur_ (len pre) = Ok (off pre).
Proof.
  intros E. pose proof (len_nonneg pre) as Hp.
  assert (Hl : len cells = len pre + 1 + len post) by (rewrite E, len_app, len_cons; lia).
  pose proof (len_nonneg post).
  rewrite (get_ok _ 0) by (rewrite len_cur; lia). f_equal.
  rewrite nthd_slice by (rewrite ?len_idx; lia). cbn. apply (idx_at pre c post E).
Qed.

Lemma next_get site pre c post : cells = pre ++ c :: post -> get site next_ (len pre) = Ok (off pre + len c).
Proof.
  intros E. pose proof (len_nonneg pre) as Hp.
  assert (Hl : len cells = len pre + 1 + len post) by (rewrite E, len_app, len_cons; lia).
  pose proof (len_nonneg post).
  rewrite (get_ok _ 0) by (rewrite len_next; lia). f_equal.
  unfold nthd. rewrite nth_skipn.
  replace (1 + Z.to_nat (len pre))%nat with (Z.to_nat (len pre + 1)) by lia.
  apply (idx_at pre c post E).
Qed.

Lemma vals_slice pre c post : cells = pre ++ c :: post -> slice vals (off pre) (off pre + len c) = c.
Proof.
  intros E. unfold slice. rewrite E, concat_app. cbn [concat].
  rewrite <- len_concat.
  replace (len (concat pre) + len c - len (concat pre)) with (len c) by lia.
  replace (Z.to_nat (len (concat pre))) with (length (concat pre)) by (unfold len; lia).
  rewrite skipn_app_exact.
  replace (Z.to_nat (len c)) with (length c) by (unfold len; lia).
  apply firstn_app_exact.
Qed.

(* position after numba's negative-index wrap *)
Definition norm (i:Z) : Z := if i <? 0 then i + len cells else i.

Lemma getw_cur (site i:Z) : @getw Z site cur_ i = @get Z site cur_ (norm i).
Proof. unfold getw, norm. rewrite len_cur. destruct (i <? 0); reflexivity. Qed.
Lemma getw_next (site i:Z) : @getw Z site next_ i = @get Z site next_ (norm i).
Proof. unfold getw, norm. rewrite len_next. destruct (i <? 0); reflexivity. Qed.

Lemma row_len_ok (wrap:bool) pre c post i :
  cells = pre ++ c :: post -> (if wrap then norm i else i) = len pre ->
  row_len wrap cur_ next_ i = Ok (len c).
Proof.
  intros E Hi. unfold row_len. destruct wrap.
  - rewrite getw_next, getw_cur, Hi. rewrite (next_get _ pre c post E), (cur_get _ pre c post E). cbn [bind].
    f_equal. lia.
  - rewrite Hi. rewrite (next_get _ pre c post E), (cur_get _ pre c post E). cbn [bind]. f_equal. lia.
Qed.

(* pass 2 on one selected row: `sd` = the entries copied so far, z1/z2 = untouched zeros left *)
Lemma copy_row_ok (wrap:bool) pre c post i sd z1 z2 :
  cells = pre ++ c :: post -> (if wrap then norm i else i) = len pre ->
  copy_row wrap cur_ next_ vals i
    (1 + len sd, off sd, psums (lens sd) ++ repeat 0 (S z1), concat sd ++ repeat 0 (Z.to_nat (len c) + z2))
  = Ok (1 + len (sd ++ [c]), off (sd ++ [c]),
        psums (lens (sd ++ [c])) ++ repeat 0 z1, concat (sd ++ [c]) ++ repeat 0 z2).
Proof.
  intros E Hi. unfold copy_row.
  assert (Hn : (if wrap then getw 4 next_ i else get 4 next_ i) = Ok (off pre + len c)).
  { destruct wrap; [rewrite getw_next|]; rewrite Hi; apply (next_get _ pre c post E). }
  assert (Hc : (if wrap then getw 5 cur_ i else get 5 cur_ i) = Ok (off pre)).
  { destruct wrap; [rewrite getw_cur|]; rewrite Hi; apply (cur_get _ pre c post E). }
  rewrite Hn, Hc. cbn [bind].
  replace (off pre + len c - off pre) with (len c) by lia.
  rewrite (vals_slice pre c post E).
  pose proof (len_nonneg c) as Hc0. pose proof (off_nonneg sd) as Hs0.
  assert (Hdv : len (concat sd ++ repeat 0 (Z.to_nat (len c) + z2)) = off sd + len c + Z.of_nat z2).
  { rewrite len_app, len_concat, len_repeat. lia. }
  rewrite Hdv.
  replace (negb (len c =? len c) || (len c <? 0) || (off sd + len c + Z.of_nat z2 <? off sd + len c)) with false
    by (rewrite Z.eqb_refl; cbn; symmetry; rewrite orb_false_iff; split; [apply Z.ltb_ge; lia|apply Z.ltb_ge; lia]).
  (* the index write *)
  assert (Hlp : len (psums (lens sd)) = 1 + len sd).
  { rewrite len_psums. unfold lens, len. rewrite map_length. lia. }
  rewrite set_ok by (rewrite len_app, Hlp, len_repeat; pose proof (len_nonneg sd); lia).
  cbn [bind]. f_equal.
  assert (Hoff : off (sd ++ [c]) = off sd + len c) by (rewrite off_app; cbn; unfold off, lens; cbn; lia).
  f_equal; [f_equal; [f_equal|]|].
  - rewrite len_app. unfold len. cbn [length]. lia.
  - symmetry. exact Hoff.
  - unfold upd. rewrite <- Hlp. unfold len at 1. rewrite Nat2Z.id.
    cbn [repeat]. rewrite upd_nat_app_exact.
    unfold lens. rewrite map_app. cbn [map]. rewrite psums_snoc. rewrite <- app_assoc. reflexivity.
  - unfold write_slice. rewrite <- len_concat.
    replace (Z.to_nat (len (concat sd))) with (length (concat sd)) by (unfold len; lia).
    rewrite firstn_app_exact.
    replace (Z.to_nat (len (concat sd) + len c)) with (length (concat sd) + Z.to_nat (len c))%nat by (unfold len; lia).
    rewrite skipn_app_plus, skipn_repeat.
    rewrite concat_app. cbn [concat]. rewrite app_nil_r, <- app_assoc. reflexivity.
Qed.

End Rows.

(* ------------------------------------------------------------------ the filter kernel *)
Lemma mask_nil_r {A} (l:list A) : FilterIndex.mask l [] = [].
Proof. destruct l; reflexivity. Qed.

Lemma len_snoc {A} (l:list A) x : len (l ++ [x]) = len l + 1.
Proof. rewrite len_app. reflexivity. Qed.

Lemma filter_pass1_ok cells : forall flt pre rest count total,
  cells = pre ++ rest -> (length flt <= length rest)%nat ->
  filter_pass1 flt (len pre) (slice (psums (lens cells)) 0 (len (psums (lens cells)) - 1))
               (skipn 1 (psums (lens cells))) count total
  = Ok (count + len (FilterIndex.mask rest flt), total + off (FilterIndex.mask rest flt)).
Proof.
  induction flt as [|b t IH]; intros pre rest count total E Hl; cbn [filter_pass1].
  - rewrite mask_nil_r. cbn. f_equal. f_equal; lia.
  - destruct rest as [|c rest']; [cbn in Hl; lia|]. cbn [FilterIndex.mask].
    assert (E' : cells = (pre ++ [c]) ++ rest') by (rewrite <- app_assoc; exact E).
    rewrite <- (len_snoc pre c).
    destruct b.
    + rewrite (row_len_ok cells false pre c rest' (len pre) E eq_refl). cbn [bind].
      rewrite (IH (pre ++ [c]) rest' _ _ E') by (cbn in Hl; lia).
      f_equal. rewrite len_cons, off_cons. f_equal; lia.
    + apply (IH (pre ++ [c]) rest' _ _ E'). cbn in Hl; lia.
Qed.

Lemma filter_pass2_ok cells : forall flt pre rest sd z1 z2,
  cells = pre ++ rest -> (length flt <= length rest)%nat ->
  filter_pass2 flt (len pre) (slice (psums (lens cells)) 0 (len (psums (lens cells)) - 1))
               (skipn 1 (psums (lens cells))) (concat cells)
    (1 + len sd, off sd,
     psums (lens sd) ++ repeat 0 (length (FilterIndex.mask rest flt) + z1),
     concat sd ++ repeat 0 (Z.to_nat (off (FilterIndex.mask rest flt)) + z2))
  = Ok (1 + len (sd ++ FilterIndex.mask rest flt), off (sd ++ FilterIndex.mask rest flt),
        psums (lens (sd ++ FilterIndex.mask rest flt)) ++ repeat 0 z1,
        concat (sd ++ FilterIndex.mask rest flt) ++ repeat 0 z2).
Proof.
  induction flt as [|b t IH]; intros pre rest sd z1 z2 E Hl; cbn [filter_pass2].
  - rewrite mask_nil_r. cbn [length off lens map sumZ Z.to_nat Nat.add]. rewrite app_nil_r. reflexivity.
  - destruct rest as [|c rest']; [cbn in Hl; lia|]. cbn [FilterIndex.mask].
    assert (E' : cells = (pre ++ [c]) ++ rest') by (rewrite <- app_assoc; exact E).
    rewrite <- (len_snoc pre c).
    destruct b.
    + set (sr := FilterIndex.mask rest' t).
      replace (length (c :: sr) + z1)%nat with (S (length sr + z1)) by (cbn; lia).
      replace (Z.to_nat (off (c :: sr)) + z2)%nat with (Z.to_nat (len c) + (Z.to_nat (off sr) + z2))%nat
        by (rewrite off_cons; pose proof (len_nonneg c); pose proof (off_nonneg sr); lia).
      rewrite (copy_row_ok cells false pre c rest' (len pre) sd _ _ E eq_refl). cbn [bind].
      unfold sr. rewrite (IH (pre ++ [c]) rest' (sd ++ [c]) z1 z2 E') by (cbn in Hl; lia).
      rewrite <- !app_assoc. reflexivity.
    + apply (IH (pre ++ [c]) rest' sd z1 z2 E'). cbn in Hl; lia.
Qed.

Definition enc (cs:list cell) : list Z * list Z := (psums (lens cs), concat cs).

Theorem filter_indexed_correct cells flt :
  (length flt <= length cells)%nat ->
  apply_filter_to_index_values flt (psums (lens cells)) (concat cells)
  = Ok (enc (FilterIndex.mask cells flt)).
Proof.
  intros Hl. unfold apply_filter_to_index_values.
  pose proof (filter_pass1_ok cells flt [] cells 0 0 eq_refl Hl) as H1.
  change (len (@nil (list Z))) with 0 in H1. rewrite H1. cbn [bind].
  set (sel := FilterIndex.mask cells flt) in *.
  pose proof (off_nonneg sel) as Ho. pose proof (len_nonneg sel) as Hs.
  replace (0 + off sel <? 0) with false by (symmetry; apply Z.ltb_ge; lia).
  unfold zeros.
  replace (Z.to_nat (0 + len sel + 1)) with (S (length sel)) by (unfold len; lia).
  cbn [repeat]. unfold set. cbn [Z.ltb Z.compare Z.to_nat set_nat bind].
  pose proof (filter_pass2_ok cells flt [] cells [] 0%nat 0%nat eq_refl Hl) as H2.
  fold sel in H2. change (len (@nil (list Z))) with 0 in H2.
  cbn [off lens map sumZ psums psums_from concat app] in H2.
  rewrite !Nat.add_0_r in H2. replace (0 + off sel) with (off sel) by lia.
  change (1 + 0) with 1 in H2. rewrite H2. cbn [bind repeat].
  rewrite !app_nil_r. reflexivity.
Qed.

(* ------------------------------------------------------------------ the index kernel *)
(* entry selected by index i after numba's wrap of a negative index *)
Definition cell_at (cells:list cell) (i:Z) : cell := nthd [] cells (norm cells i).
Definition valid_ix (cells:list cell) (i:Z) : Prop := - len cells <= i < len cells.

Lemma split_at (cells:list cell) j : 0 <= j < len cells ->
  exists pre post, cells = pre ++ nthd [] cells j :: post /\ len pre = j.
Proof.
  intros H. unfold len in H.
  destruct (nth_split cells (@nil Z) (n:=Z.to_nat j)) as [pre [post [E L]]]; [lia|].
  exists pre, post. split; [exact E|]. unfold len. lia.
Qed.

Lemma norm_range cells i : valid_ix cells i -> 0 <= norm cells i < len cells.
Proof. unfold valid_ix, norm. destruct (i <? 0) eqn:E; lia. Qed.

Lemma index_pass1_ok cells : forall ix count total,
  Forall (valid_ix cells) ix ->
  index_pass1 ix (slice (psums (lens cells)) 0 (len (psums (lens cells)) - 1))
              (skipn 1 (psums (lens cells))) count total
  = Ok (count + len (map (cell_at cells) ix), total + off (map (cell_at cells) ix)).
Proof.
  induction ix as [|i t IH]; intros count total Hv; cbn [index_pass1 map].
  - cbn. f_equal. f_equal; lia.
  - pose proof (Forall_inv Hv) as Hi. pose proof (Forall_inv_tail Hv) as Ht.
    destruct (split_at cells (norm cells i) (norm_range cells i Hi)) as [pre [post [E L]]].
    rewrite (row_len_ok cells true pre _ post i E (eq_sym L)). cbn [bind].
    rewrite (IH _ _ Ht). f_equal. rewrite len_cons, off_cons. fold (cell_at cells i). f_equal; lia.
Qed.

Lemma index_pass2_ok cells : forall ix sd z1 z2,
  Forall (valid_ix cells) ix ->
  index_pass2 ix (slice (psums (lens cells)) 0 (len (psums (lens cells)) - 1))
              (skipn 1 (psums (lens cells))) (concat cells)
    (1 + len sd, off sd,
     psums (lens sd) ++ repeat 0 (length (map (cell_at cells) ix) + z1),
     concat sd ++ repeat 0 (Z.to_nat (off (map (cell_at cells) ix)) + z2))
  = Ok (1 + len (sd ++ map (cell_at cells) ix), off (sd ++ map (cell_at cells) ix),
        psums (lens (sd ++ map (cell_at cells) ix)) ++ repeat 0 z1,
        concat (sd ++ map (cell_at cells) ix) ++ repeat 0 z2).
Proof.
  induction ix as [|i t IH]; intros sd z1 z2 Hv; cbn [index_pass2 map].
  - cbn [length off lens map sumZ Z.to_nat Nat.add]. rewrite app_nil_r. reflexivity.
  - pose proof (Forall_inv Hv) as Hi. pose proof (Forall_inv_tail Hv) as Ht.
    destruct (split_at cells (norm cells i) (norm_range cells i Hi)) as [pre [post [E L]]].
    fold (cell_at cells i) in E.
    set (c := cell_at cells i) in *. set (sr := map (cell_at cells) t).
    replace (length (c :: sr) + z1)%nat with (S (length sr + z1)) by (cbn; lia).
    replace (Z.to_nat (off (c :: sr)) + z2)%nat with (Z.to_nat (len c) + (Z.to_nat (off sr) + z2))%nat
      by (rewrite off_cons; pose proof (len_nonneg c); pose proof (off_nonneg sr); lia).
    rewrite (copy_row_ok cells true pre c post i sd _ _ E (eq_sym L)). cbn [bind].
    unfold sr. rewrite (IH (sd ++ [c]) z1 z2 Ht). rewrite <- !app_assoc. reflexivity.
Qed.

Theorem index_indexed_correct cells ix :
  Forall (valid_ix cells) ix ->
  apply_indices_to_index_values ix (psums (lens cells)) (concat cells)
  = Ok (enc (map (cell_at cells) ix)).
Proof.
  intros Hv. unfold apply_indices_to_index_values.
  rewrite (index_pass1_ok cells ix 0 0 Hv). cbn [bind].
  set (sel := map (cell_at cells) ix) in *.
  pose proof (off_nonneg sel) as Ho. pose proof (len_nonneg sel) as Hs.
  replace (0 + off sel <? 0) with false by (symmetry; apply Z.ltb_ge; lia).
  unfold zeros.
  replace (Z.to_nat (0 + len sel + 1)) with (S (length sel)) by (unfold len; lia).
  cbn [repeat]. unfold set. cbn [Z.ltb Z.compare Z.to_nat set_nat bind].
  pose proof (index_pass2_ok cells ix [] 0%nat 0%nat Hv) as H2.
  fold sel in H2. change (len (@nil (list Z))) with 0 in H2.
  cbn [off lens map sumZ psums psums_from concat app] in H2.
  rewrite !Nat.add_0_r in H2. replace (0 + off sel) with (off sel) by lia.
  change (1 + 0) with 1 in H2. rewrite H2. cbn [bind repeat].
  rewrite !app_nil_r. reflexivity.
Qed.

(* for the index arrays the property quantifies over (entries in [0,n)) this is the plain gather *)
Lemma cell_at_gather cells ix :
  in_range (len cells) ix = true -> map (cell_at cells) ix = gather [] cells ix.
Proof.
  intros H. unfold gather. apply map_ext_in. intros i Hi. unfold in_range in H.
  rewrite forallb_forall in H. specialize (H i Hi). unfold cell_at, norm.
  destruct (i <? 0) eqn:E; [lia|reflexivity].
Qed.

Lemma in_range_valid cells ix : in_range (len cells) ix = true -> Forall (valid_ix cells) ix.
Proof.
  intros H. apply Forall_forall. intros i Hi. unfold in_range in H. rewrite forallb_forall in H.
  specialize (H i Hi). unfold valid_ix. lia.
Qed.

(* a filter entry that is set beyond the last row makes the kernel read out of bounds *)
Theorem filter_too_long_oob cells flt_ok :
  length flt_ok = length cells ->
  forall tail, apply_filter_to_index_values (flt_ok ++ true :: tail) (psums (lens cells)) (concat cells) = OOB 2.
Proof.
  intros Hl tail. unfold apply_filter_to_index_values.
  assert (H : forall flt pre rest count total, cells = pre ++ rest -> length flt = length rest ->
            filter_pass1 (flt ++ true :: tail) (len pre)
              (slice (psums (lens cells)) 0 (len (psums (lens cells)) - 1)) (skipn 1 (psums (lens cells)))
              count total = OOB 2).
  { induction flt as [|b t IH]; intros pre rest count total E Hr.
    - destruct rest; [|discriminate]. rewrite app_nil_r in E. subst pre. cbn [app filter_pass1].
      unfold row_len. rewrite get_oob; [reflexivity|]. rewrite len_next. lia.
    - destruct rest as [|c rest']; [discriminate|].
      assert (E' : cells = (pre ++ [c]) ++ rest') by (rewrite <- app_assoc; exact E).
      cbn [app filter_pass1]. rewrite <- (len_snoc pre c). destruct b.
      + rewrite (row_len_ok cells false pre c rest' (len pre) E eq_refl). cbn [bind].
        apply (IH _ _ _ _ E'). cbn in Hr; lia.
      + apply (IH _ _ _ _ E'). cbn in Hr; lia. }
  pose proof (H flt_ok [] cells 0 0 eq_refl Hl) as H1. change (len (@nil (list Z))) with 0 in H1.
  rewrite H1. reflexivity.
Qed.
