(* Proofs/MergeTop.v — C02: the streamed path of the repaired merge, from hypotheses on the inputs only
   (sorted keys, truthful unique hints, well-formed columns, distinct destination names) plus the C03
   end-to-end statement of the selected generator. *)
From Coq Require Import ZArith List Lia Bool.
From EV Require Import Res Arr Join JoinSpec JoinBase JoinIface JoinRows JoinDriver JoinMain
  MapStream MapStreamSpec MapStreamBase MapIndexedDriver Merge MergeSpec MergeBase MergeOrdered MergeMaps.
Import ListNotations.
Open Scope Z_scope.

(* a source frame whose columns all have n rows; indexed columns are well formed and no entry is
   longer than the value buffer of the map stream *)
Definition frame_ok (n:Z) (cols:frame) (bytes:Z) : Prop :=
  forall f, In f cols ->
    match snd f with
    | CFix _ _ d => len d = n
    | CIdx idx vals => wf_indexed idx vals /\ len idx - 1 = n /\
                       forall k, 0 <= k < n -> len (entry idx vals k) <= bytes
    end.

Lemma frame_ok_cols_ok n cols bytes inv m :
  frame_ok n cols bytes -> in_range_map n inv m -> cols_ok n cols (Some m) inv bytes.
Proof.
  intros Hf Hv. split; [exact Hv|]. intros f Hin. specialize (Hf f Hin). unfold col_ok.
  destruct (snd f) as [z e d|idx vals]; [exact Hf|]. destruct Hf as (Hwf & Hn & Hfit). split; [exact Hwf|]. split; [exact Hn|].
  intros t Ht Hne. apply Hfit. apply Hv; assumption.
Qed.

(* both join maps are in range — also when a key repeats on both sides and the b-side map is not monotone *)
Lemma jmaps_in_range how lu ru lk rk inv : how = 0 \/ how = 1 \/ how = 2 ->
  (match fst (jmaps how lu ru lk rk inv) with Some m => in_range_map (len lk) inv m | None => True end) /\
  (match snd (jmaps how lu ru lk rk inv) with Some m => in_range_map (len rk) inv m | None => True end).
Proof.
  intros Hhow. unfold jmaps.
  set (v := sel_variant how lu ru).
  pose proof (join_fst_in_range (v_left v) inv (sel_a how lk rk) (sel_b how lk rk)) as Hf.
  pose proof (join_snd_in_range (v_left v) inv (sel_a how lk rk) (sel_b how lk rk)) as Hs.
  destruct Hhow as [E|[E|E]]; subst how; cbn [Z.eqb Pos.eqb sel_a sel_b fst snd] in *;
    destruct (v_writes_l v); cbn [fst snd]; split; auto.
Qed.

Section Top.
Variables (how:Z) (lu ru:bool) (lk rk:list Z) (lcols rcols:frame) (lsuf rsuf:list Z) (cs mcs vf ccs:Z).
Let inv := merge_invalid lu ru (len lk) (len rk).
Let v := sel_variant how lu ru.
Let A := sel_a how lk rk.
Let B := sel_b how lk rk.

(* C03, end to end, for the generator the table selects (proved in Proofs/JoinMain.v for the both-unique
   variants; the other variants are being proved in C03 — to be instantiated when they land) *)
Hypothesis C03_selected :
  streamed v A B inv cs = Ok (expected (v_kind v) (v_left v) inv A B) \/
  (streamed v A B inv cs = Raise E_ValueError /\ LongRun (v_kind v) (v_left v) A B cs).

Hypothesis Hhow : how = 0 \/ how = 1 \/ how = 2.
Hypothesis Hmcs : 1 <= mcs.
Hypothesis Hvf : 0 <= vf.
Hypothesis Hccs : 1 <= ccs.
(* sorted key columns are what C03_selected needs to be satisfiable; the map streams themselves need nothing
   of the keys since fix-F-C02f (jmaps_in_range) *)
Hypothesis Hnolong : ~ LongRun (v_kind v) (v_left v) A B cs.     (* else the clear ValueError of C03 (F-C02g) *)
Hypothesis Hlframe : frame_ok (len lk) lcols (mcs * vf).
Hypothesis Hrframe : frame_ok (len rk) rcols (mcs * vf).
Hypothesis Hnames : NoDup (frame_names (ordered_dest how lu ru lk rk lcols rcols lsuf rsuf)).

Theorem ordered_merge_correct_gen :
  ordered_merge MFixed how lu ru lk rk lcols rcols lsuf rsuf (len lk) (len rk) cs mcs vf ccs
  = Ok (ordered_dest how lu ru lk rk lcols rcols lsuf rsuf).
Proof.
  destruct (jmaps_in_range how lu ru lk rk inv Hhow) as (Hvl & Hvr).
  apply ordered_merge_ok; try assumption.
  - destruct C03_selected as [H|(_ & H)]; [|contradiction]. fold inv v A B. rewrite H.
    destruct v as [k isl]. reflexivity.
  - fold inv. destruct (fst (jmaps how lu ru lk rk inv)) as [m|]; [|exact I].
    apply frame_ok_cols_ok; assumption.
  - fold inv. destruct (snd (jmaps how lu ru lk rk inv)) as [m|]; [|exact I].
    apply frame_ok_cols_ok; assumption.
Qed.

End Top.

(* both unique hints given and truthful: no hypothesis about C03 is left (streamed_both_unique_correct),
   no long run is possible (neither side is trimmed) *)
Theorem ordered_merge_both_unique how lk rk lcols rcols lsuf rsuf cs mcs vf ccs :
  how = 0 \/ how = 1 \/ how = 2 -> 1 <= cs -> 1 <= mcs -> 0 <= vf -> 1 <= ccs ->
  ssorted lk -> ssorted rk ->
  frame_ok (len lk) lcols (mcs * vf) -> frame_ok (len rk) rcols (mcs * vf) ->
  NoDup (frame_names (ordered_dest how true true lk rk lcols rcols lsuf rsuf)) ->
  ordered_merge MFixed how true true lk rk lcols rcols lsuf rsuf (len lk) (len rk) cs mcs vf ccs
  = Ok (ordered_dest how true true lk rk lcols rcols lsuf rsuf).
Proof.
  intros Hhow Hcs Hmcs Hvf Hccs HL HR Hlf Hrf Hn.
  assert (HA : ssorted (sel_a how lk rk) /\ ssorted (sel_b how lk rk)).
  { unfold sel_a, sel_b. destruct (how =? 1); split; assumption. }
  destruct HA as (HA & HB).
  apply ordered_merge_correct_gen; try assumption.
  - left. assert (Hv : sel_variant how true true = mkvar KBU (v_left (sel_variant how true true))).
    { destruct Hhow as [E|[E|E]]; subst how; reflexivity. }
    rewrite Hv. cbn [v_kind v_left]. apply streamed_both_unique_correct; assumption.
  - assert (Hk : v_kind (sel_variant how true true) = KBU).
    { destruct Hhow as [E|[E|E]]; subst how; reflexivity. }
    rewrite Hk. intros [(Ht & _)|(Ht & _)]; cbv in Ht; discriminate.
Qed.

(* ---------------------------------------------------------------- merge(): validation and path choice *)
Lemma all_same_len_cons n ls : (forall x, In x ls -> x = n) -> all_same_len (n :: ls) = true.
Proof.
  intros H. cbn [all_same_len]. apply forallb_forall. intros x Hx. rewrite (H x Hx). apply Z.eqb_refl.
Qed.

Lemma col_lens_same n (cols:frame) : (forall f, In f cols -> col_len (snd f) = n) ->
  all_same_len (n :: map (fun f => col_len (snd f)) cols) = true.
Proof.
  intros H. apply all_same_len_cons. intros x Hx. apply in_map_iff in Hx. destruct Hx as (f & <- & Hf). apply H. exact Hf.
Qed.

(* single keys, both ordered hints, how in {left,right,inner}: merge() is _ordered_merge *)
Theorem merge_streamed_path pd ver how lu ru lk rk lcols rcols lsuf rsuf cs mcs vf ccs :
  how = 0 \/ how = 1 \/ how = 2 ->
  (forall f, In f lcols -> col_len (snd f) = len lk) -> (forall f, In f rcols -> col_len (snd f) = len rk) ->
  merge pd (mk_margs ver how true lu true ru [lk] [rk] lcols rcols lsuf rsuf cs mcs vf ccs)
  = (do d <- ordered_merge ver how lu ru lk rk lcols rcols lsuf rsuf (len lk) (len rk) cs mcs vf ccs; Ok (true, d)).
Proof.
  intros Hhow Hl Hr. unfold merge.
  cbn [a_how a_lkeys a_rkeys a_lcols a_rcols a_ver a_lu a_ru a_lsuf a_rsuf a_cs a_mcs a_vf a_ccs].
  replace ((0 <=? how) && (how <=? 3)) with true by (destruct Hhow as [E|[E|E]]; subst; reflexivity).
  cbn [negb]. rewrite Z.eqb_refl. cbn [negb map].
  rewrite (col_lens_same (len lk) lcols Hl), (col_lens_same (len rk) rcols Hr). cbn [negb all_same_len forallb].
  unfold is_ordered. cbn [a_lo a_ro a_how a_lkeys a_rkeys andb].
  replace ((how =? 0) || (how =? 1) || (how =? 2)) with true by (destruct Hhow as [E|[E|E]]; subst; reflexivity).
  reflexivity.
Qed.

(* on the pandas path the unique hints are not even read *)
Theorem unique_hints_unread_on_pandas_path pd ver how lo lu ru ro lu' ru' lkeys rkeys lcols rcols lsuf rsuf cs mcs vf ccs :
  is_ordered (mk_margs ver how lo lu ro ru lkeys rkeys lcols rcols lsuf rsuf cs mcs vf ccs) = false ->
  merge pd (mk_margs ver how lo lu' ro ru' lkeys rkeys lcols rcols lsuf rsuf cs mcs vf ccs)
  = merge pd (mk_margs ver how lo lu ro ru lkeys rkeys lcols rcols lsuf rsuf cs mcs vf ccs).
Proof.
  intros H. unfold merge.
  assert (H' : is_ordered (mk_margs ver how lo lu' ro ru' lkeys rkeys lcols rcols lsuf rsuf cs mcs vf ccs) = false) by exact H.
  rewrite H, H'. reflexivity.
Qed.
