(* Proofs/MergeBase.v — C02: the building blocks of _ordered_merge
   (names, chunked_copy = identity, one column through one map = C04's theorems, the column loop). *)
From Coq Require Import ZArith List Lia Bool.
From EV Require Import Res Arr Join MapStream MapStreamSpec MapStreamBase MapStreamFixed MapStreamGen MapIndexedDriver
  Merge MergeSpec.
Import ListNotations.
Open Scope Z_scope.

(* ---------------------------------------------------------------- names *)
Lemma name_eqb_eq a : forall b, name_eqb a b = true <-> a = b.
Proof.
  induction a as [|x a IH]; intros [|y b]; cbn; split; intros H; try reflexivity; try discriminate.
  - apply andb_prop in H. destruct H as [H1 H2]. apply Z.eqb_eq in H1. apply IH in H2. subst. reflexivity.
  - inversion H; subst. rewrite Z.eqb_refl. cbn. apply IH. reflexivity.
Qed.

Lemma name_in_In n names : name_in n names = true <-> In n names.
Proof.
  unfold name_in. rewrite existsb_exists. split.
  - intros (x & Hx & He). apply name_eqb_eq in He. subst. exact Hx.
  - intros H. exists n. split; [exact H|]. apply name_eqb_eq. reflexivity.
Qed.

Lemma name_in_false n names : ~ In n names -> name_in n names = false.
Proof.
  intros H. destruct (name_in n names) eqn:E; [|reflexivity]. apply name_in_In in E. contradiction.
Qed.

Lemma dest_add_ok dest n c : ~ In n (frame_names dest) -> dest_add dest n c = Ok (dest ++ [(n, c)]).
Proof. intros H. unfold dest_add. rewrite name_in_false by exact H. reflexivity. Qed.

Lemma NoDup_app_l {A} (l1 l2:list A) : NoDup (l1 ++ l2) -> NoDup l1.
Proof.
  induction l1 as [|x l1 IH]; intros H; [constructor|].
  cbn in H. inversion H as [|? ? Hn Hd]; subst. constructor.
  - intros Hin. apply Hn. apply in_or_app. left. exact Hin.
  - apply IH. exact Hd.
Qed.

(* ---------------------------------------------------------------- chunked_copy is the identity *)
Lemma next_chunk_bounds i n cs : 0 <= i <= n -> 1 <= cs ->
  let ch := MapStream.next_chunk i n cs in fst ch = i /\ i <= snd ch <= n /\ (i < n -> i < snd ch).
Proof.
  intros Hi Hcs. unfold MapStream.next_chunk. destruct (i + cs <? n) eqn:E; cbn [fst snd]; lia.
Qed.

Lemma firstn_add {A} (l:list A) n m : firstn (n + m) l = firstn n l ++ firstn m (skipn n l).
Proof.
  revert l. induction n as [|n IH]; intros l; [reflexivity|].
  destruct l as [|x l]; cbn [Nat.add firstn skipn app]; [destruct m; reflexivity|]. rewrite IH. reflexivity.
Qed.

Lemma firstn_slice_app {A} (l:list A) a b : 0 <= a <= b ->
  firstn (Z.to_nat a) l ++ slice l a b = firstn (Z.to_nat b) l.
Proof.
  intros Ha. unfold slice.
  replace (Z.to_nat b) with (Z.to_nat a + Z.to_nat (b - a))%nat by lia.
  rewrite firstn_add. reflexivity.
Qed.

Lemma element_copy_loop_id {A} (src:list A) cs : 1 <= cs -> forall fuel i out,
  0 <= i <= len src -> out = firstn (Z.to_nat i) src -> (Z.of_nat fuel > len src - i) ->
  element_copy_loop fuel src cs i (MapStream.next_chunk i (len src) cs) out = Ok src.
Proof.
  intros Hcs. induction fuel as [|f IH]; intros i out Hi Hout Hf; [lia|].
  cbn [element_copy_loop].
  destruct (i <? len src) eqn:E.
  - pose proof (next_chunk_bounds i (len src) cs Hi Hcs) as (H1 & H2 & H3).
    set (ch := MapStream.next_chunk i (len src) cs) in *.
    specialize (H3 ltac:(lia)).
    rewrite np_slice_slice by lia. rewrite H1.
    replace (i + (snd ch - i)) with (snd ch) by lia.
    apply IH; [lia| |lia].
    rewrite Hout. apply firstn_slice_app. lia.
  - assert (i = len src) by lia. subst i. rewrite Hout. unfold len. rewrite Nat2Z.id, firstn_all. reflexivity.
Qed.

Lemma element_chunked_copy_id {A} (src:list A) cs : 1 <= cs -> element_chunked_copy src cs = Ok src.
Proof.
  intros Hcs. unfold element_chunked_copy.
  apply element_copy_loop_id; try assumption; try reflexivity.
  - pose proof (len_nonneg src). lia.
  - unfold len. lia.
Qed.

Lemma chunked_copy_id c cs : 1 <= cs -> chunked_copy c cs = Ok c.
Proof.
  intros Hcs. destruct c as [z e d|idx vals]; cbn [chunked_copy];
    rewrite !element_chunked_copy_id by exact Hcs; reflexivity.
Qed.

(* ---------------------------------------------------------------- one column through one map *)
(* the value of a destination column: the source read through a map whose invalid rows hold the marker *)
Definition gatherZ (c:column) (inv:Z) (m:list Z) : column :=
  match c with
  | CFix z e d => CFix z e (map_spec e d inv m)
  | CIdx idx vals => let r := indexed_spec idx vals inv m in CIdx (fst r) (snd r)
  end.

(* what a source column must satisfy for a map of valid entries < n *)
Definition col_ok (n:Z) (c:column) (inv:Z) (m:list Z) (bytes:Z) : Prop :=
  match c with
  | CFix _ _ d => len d = n
  | CIdx idx vals => wf_indexed idx vals /\ len idx - 1 = n /\ entries_fit idx vals inv m bytes
  end.

Lemma map_column_stream_ok n c m inv cs vf :
  1 <= cs -> 0 <= vf -> in_range_map n inv m -> col_ok n c inv m (cs * vf) ->
  map_column_stream c m inv cs vf = Ok (gatherZ c inv m).
Proof.
  intros Hcs Hvf Hv Hc. destruct c as [z e d|idx vals]; cbn [map_column_stream gatherZ col_ok stream_fuel] in *.
  - rewrite (map_stream_correct_any z e d inv m cs (S (length m)) Hcs); [reflexivity| |lia].
    rewrite Hc. exact Hv.
  - destruct Hc as (Hwf & Hn & Hfit).
    rewrite (indexed_stream_correct_top idx vals inv m cs vf (2 * length m + length idx + 2)%nat Hwf Hcs Hvf);
      [cbn [bind]; destruct (indexed_spec idx vals inv m); reflexivity| |exact Hfit|lia].
    rewrite Hn. exact Hv.
Qed.

(* ---------------------------------------------------------------- the column loop *)
Definition out_col (m:option (list Z)) (inv:Z) (c:column) : column :=
  match m with None => c | Some mm => gatherZ c inv mm end.

Definition side_out (cols:frame) (other:list (list Z)) (suffix:list Z) (m:option (list Z)) (inv:Z) : frame :=
  map (fun f => (spec_name (fst f) other suffix, out_col m inv (snd f))) cols.

Definition cols_ok (n:Z) (cols:frame) (m:option (list Z)) (inv bytes:Z) : Prop :=
  match m with
  | None => True
  | Some mm => in_range_map n inv mm /\ forall f, In f cols -> col_ok n (snd f) inv mm bytes
  end.

Lemma map_side_ok other suffix m inv cs vf ccs n : 1 <= cs -> 0 <= vf -> 1 <= ccs ->
  forall cols dest,
  cols_ok n cols m inv (cs * vf) ->
  NoDup (frame_names dest ++ frame_names (side_out cols other suffix m inv)) ->
  map_side MFixed dest cols other suffix m inv cs vf ccs = Ok (dest ++ side_out cols other suffix m inv).
Proof.
  intros Hcs Hvf Hccs. induction cols as [|f cols IH]; intros dest Hok Hnd.
  - cbn. rewrite app_nil_r. reflexivity.
  - unfold map_side. cbn [fold_res].
    change (dest_name MFixed dest (fst f) other suffix) with (spec_name (fst f) other suffix).
    assert (Hc : (match m with
                  | None => chunked_copy (snd f) ccs
                  | Some mm => map_column_stream (snd f) mm inv cs vf
                  end) = Ok (out_col m inv (snd f))).
    { destruct m as [mm|]; cbn [out_col].
      - destruct Hok as (Hv & Hall). apply (map_column_stream_ok n); try assumption. apply Hall. left. reflexivity.
      - apply chunked_copy_id. exact Hccs. }
    rewrite Hc. cbn [bind].
    cbn [side_out map frame_names] in Hnd. unfold frame_names in Hnd. cbn [map fst] in Hnd.
    rewrite dest_add_ok.
    2:{ apply NoDup_remove_2 in Hnd. intros Hin. apply Hnd. apply in_or_app. left. exact Hin. }
    cbn [bind].
    fold (map_side MFixed (dest ++ [(spec_name (fst f) other suffix, out_col m inv (snd f))]) cols other suffix m inv cs vf ccs).
    rewrite IH.
    + cbn [side_out map]. rewrite <- app_assoc. reflexivity.
    + destruct m as [mm|]; [|exact I]. destruct Hok as (Hv & Hall). split; [exact Hv|].
      intros g Hg. apply Hall. right. exact Hg.
    + unfold frame_names. rewrite map_app. cbn [map fst]. rewrite <- app_assoc. cbn [app].
      unfold frame_names, side_out in *.
      exact Hnd.
Qed.
