(* Proofs/CatalogueTrace.v — the verdicts recorded by run_trace (what ./check compares with the real code):
   for every history of the repaired model the `inv` and `data` verdicts of every recorded step are true. *)
From Coq Require Import ZArith List Bool Lia.
From EV Require Import Res Catalogue CatalogueSpec CatalogueBase CatalogueInv CatalogueRename CatalogueStep CatalogueObs CatalogueData CatalogueHandles CatalogueVerdicts.
Import ListNotations.
Open Scope Z_scope.

Lemma register_bound b : forall fs held,
  (forall f, In f held -> f < b) -> (forall f, In f fs -> f < b) -> forall f, In f (register held fs) -> f < b.
Proof.
  induction fs as [|x t IH]; intros held Hh Hf f I; cbn [register] in I; [apply Hh; exact I|].
  apply (IH (if zmem x held then held else held ++ [x])); auto.
  - intros y Iy. destruct (zmem x held); [apply Hh; exact Iy|]. apply in_app_iff in Iy. destruct Iy as [Iy|[<-|[]]]; [apply Hh; exact Iy | apply Hf; left; reflexivity].
  - intros y Iy. apply Hf. right. exact Iy.
Qed.

Lemma catalogued_bound s : Inv s -> forall f, In f (catalogued_fields s) -> f < next_id s.
Proof.
  intros [IA IB] f I. unfold catalogued_fields in I. apply in_flat_map in I. destruct I as (i & _ & I).
  apply in_flat_map in I. destruct I as ([k g] & Ikg & I). cbn [snd] in I. apply in_map_iff in I. destruct I as ([n f'] & E & In').
  cbn [snd] in E. subst f'.
  pose proof (In_d_find _ _ _ (sk_nd_py _ _ (IA i)) Ikg) as Fk.
  pose proof (catalogued_linked _ _ _ _ IA Fk) as L.
  pose proof (In_d_find _ _ _ (dk_nd_py _ _ (ib_df _ IB g L)) In') as Fn.
  destruct (dk_flds _ _ (ib_df _ IB g L) n f Fn) as (_ & _ & ?). lia.
Qed.

Lemma list_eqb_refl l : list_eqb l l = true.
Proof. apply name_eqb_refl. Qed.

Lemma zipall_app_l {A B} (f:A -> B -> bool) (b':list B) : forall (a:list A) (b:list B),
  length a = length b -> zipall f a b = true -> zipall f a (b ++ b') = true.
Proof.
  induction a as [|x a IH]; intros b L H; [reflexivity|].
  destruct b as [|y b]; [discriminate|]. cbn [zipall app] in *.
  apply andb_true_iff in H. destruct H as [H1 H2]. rewrite H1. cbn [andb]. apply IH; [cbn in L; lia | exact H2].
Qed.

Lemma chk_data_step c p s s' r held :
  step c p s = (s', r) -> (forall f, In f held -> f < next_id s) ->
  chk_data (observe s held) (observe s' (rescan s' held)) = true.
Proof.
  intros E Hb. unfold chk_data, observe, rescan. cbn [o_handles].
  destruct (register_prefix (catalogued_fields s') held) as [extra ->]. rewrite map_app.
  apply zipall_app_l; [rewrite !map_length; reflexivity|].
  induction held as [|f t IH]; cbn [map zipall]; [reflexivity|].
  rewrite IH by (intros x Ix; apply Hb; right; exact Ix). rewrite andb_true_r.
  destruct (step_keeps_data c p s s' r f E (Hb f (or_introl eq_refl))) as (T & D & _).
  unfold hdata_ok, observe_handle.
  destruct (py_valid s f); [|reflexivity]. destruct (h5_fld_path s f) as [[[? ?] ?]|]; [|reflexivity].
  destruct (py_valid s' f); [|reflexivity]. destruct (h5_fld_path s' f) as [[[? ?] ?]|]; [|reflexivity].
  rewrite T, D, Z.eqb_refl, list_eqb_refl. reflexivity.
Qed.

(* invariant of the run: the state satisfies Inv and every held handle is an existing object *)
Theorem run_trace_inv_data c : fix_a c = true -> fix_b c = true ->
  forall ops s held, Inv s -> (forall f, In f held -> f < next_id s) ->
  forall sr, In sr (fst (run_trace c ops s held)) ->
    nth 0 (sr_flags sr) false = true /\ nth 1 (sr_flags sr) false = true.
Proof.
  intros FA FB. induction ops as [|p t IH]; intros s held I Hb sr Isr; cbn [run_trace fst] in Isr; [contradiction|].
  destruct (step c p s) as [s' r] eqn:E.
  pose proof (step_Inv c p s s' r FA FB I E) as I'.
  assert (Hb' : forall f, In f (rescan s' held) -> f < next_id s').
  { unfold rescan. apply register_bound.
    - intros f If. destruct (step_keeps_data c p s s' r f E (Hb f If)) as (_ & _ & ?). pose proof (Hb f If). lia.
    - apply catalogued_bound. exact I'. }
  pose proof (Inv_chk_inv s' (rescan s' held) I') as V0.
  pose proof (chk_data_step c p s s' r held E Hb) as V1.
  destruct (all_true (verdicts p (is_ok r) (observe s held) (observe s' (rescan s' held)))).
  - destruct (run_trace c t s' (rescan s' held)) as [rest sf] eqn:ER. cbn [fst] in Isr. destruct Isr as [<-|Isr].
    + cbn [sr_flags verdicts nth]. auto.
    + apply (IH s' (rescan s' held) I' Hb' sr). rewrite ER. exact Isr.
  - cbn [fst] in Isr. destruct Isr as [<-|[]]. cbn [sr_flags verdicts nth]. auto.
Qed.

Corollary case_inv_data c ops : fix_a c = true -> fix_b c = true ->
  forall sr, In sr (fst (run_case c ops)) -> nth 0 (sr_flags sr) false = true /\ nth 1 (sr_flags sr) false = true.
Proof.
  intros FA FB sr Isr. unfold run_case in Isr.
  destruct (run_trace c ops init_state []) as [tr sf] eqn:E. cbn [fst] in Isr.
  apply (run_trace_inv_data c FA FB ops init_state [] init_Inv ltac:(intros ? [])). rewrite E. exact Isr.
Qed.

(* the state in which a recorded history ends (possibly early) satisfies the invariant, so the final
   reopen verdict of every dataset is true *)
Lemma run_trace_final_Inv c : fix_a c = true -> fix_b c = true ->
  forall ops s held, Inv s -> Inv (snd (run_trace c ops s held)).
Proof.
  intros FA FB. induction ops as [|p t IH]; intros s held I; cbn [run_trace snd]; [exact I|].
  destruct (step c p s) as [s' r] eqn:E. pose proof (step_Inv c p s s' r FA FB I E) as I'.
  destruct (all_true (verdicts p (is_ok r) (observe s held) (observe s' (rescan s' held)))).
  - specialize (IH s' (rescan s' held) I'). destruct (run_trace c t s' (rescan s' held)) as [rest sf]. exact IH.
  - exact I'.
Qed.

Corollary case_reopen_ok c ops : fix_a c = true -> fix_b c = true ->
  forall x, In x (snd (run_case c ops)) -> snd x = true.
Proof.
  intros FA FB x Ix. unfold run_case in Ix.
  pose proof (run_trace_final_Inv c FA FB ops init_state [] init_Inv) as I.
  destruct (run_trace c ops init_state []) as [tr sf]. cbn [snd] in *.
  unfold final_views in Ix. apply in_map_iff in Ix. destruct Ix as (i & <- & _). cbn [snd].
  apply Inv_chk_reopen. exact I.
Qed.

(* ------------------------------------------------------------------ the full statement: every verdict of every step *)
Theorem run_trace_all_true c : fix_a c = true -> fix_b c = true ->
  forall ops s held, Forall wf_op ops -> Inv s -> closed s held -> (forall f, In f held -> f < next_id s) ->
  forall sr, In sr (fst (run_trace c ops s held)) -> all_true (sr_flags sr) = true.
Proof.
  intros FA FB. induction ops as [|p t IH]; intros s held WF I CL Hb sr Isr; cbn [run_trace fst] in Isr; [contradiction|].
  inversion WF as [|? ? WFp WFt]; subst.
  destruct (step c p s) as [s' r] eqn:E.
  pose proof (step_Inv c p s s' r FA FB I E) as I'.
  assert (Hb' : forall f, In f (rescan s' held) -> f < next_id s').
  { unfold rescan. apply register_bound.
    - intros f If. destruct (step_keeps_data c p s s' r f E (Hb f If)) as (_ & _ & ?). pose proof (Hb f If). lia.
    - apply catalogued_bound. exact I'. }
  pose proof (step_verdicts c p s s' r held FA I CL Hb WFp E I') as V. rewrite V in Isr.
  destruct (run_trace c t s' (rescan s' held)) as [rest sf] eqn:ER. cbn [fst] in Isr. destruct Isr as [<-|Isr].
  - cbn [sr_flags]. exact V.
  - apply (IH s' (rescan s' held) WFt I' (rescan_closed s' held) Hb' sr). rewrite ER. exact Isr.
Qed.

Theorem case_ok_true c ops : fix_a c = true -> fix_b c = true -> Forall wf_op ops -> case_ok c ops = true.
Proof.
  intros FA FB WF. unfold case_ok.
  pose proof (run_trace_all_true c FA FB ops init_state [] WF init_Inv ltac:(intros ? []) ltac:(intros ? [])) as A.
  pose proof (case_reopen_ok c ops FA FB) as B. unfold run_case in *.
  destruct (run_trace c ops init_state []) as [tr sf]. cbn [fst snd] in *.
  apply andb_true_iff. split; apply forallb_forall; auto.
Qed.
