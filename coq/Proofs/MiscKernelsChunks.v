(* Proofs/MiscKernelsChunks.v — chunks, data_iterator *)
From Coq Require Import ZArith List Lia Bool.
From EV Require Import Res Arr MiscKernels MiscKernelsSpec MiscKernelsBase.
Import ListNotations.
Open Scope Z_scope.

Definition nchunks (length_ cs:Z) : nat := Z.to_nat ((length_ + cs - 1) / cs).

Lemma nchunks_lt length_ cs k : 1 <= cs -> (k < nchunks length_ cs)%nat -> Z.of_nat k * cs < length_.
Proof.
  intros Hc Hk. unfold nchunks in Hk.
  pose proof (Z.div_mod (length_ + cs - 1) cs ltac:(lia)) as Hd.
  pose proof (Z.mod_pos_bound (length_ + cs - 1) cs ltac:(lia)) as Hm.
  set (N := (length_ + cs - 1) / cs) in *. nia.
Qed.

Lemma nchunks_ge length_ cs : 1 <= cs -> length_ <= Z.of_nat (nchunks length_ cs) * cs.
Proof.
  intros Hc. unfold nchunks.
  pose proof (Z.div_mod (length_ + cs - 1) cs ltac:(lia)) as Hd.
  pose proof (Z.mod_pos_bound (length_ + cs - 1) cs ltac:(lia)) as Hm.
  set (N := (length_ + cs - 1) / cs) in *.
  destruct (Z_lt_le_dec N 0) as [Hn|Hn].
  - replace (Z.to_nat N) with 0%nat by lia. nia.
  - rewrite Z2Nat.id by lia. nia.
Qed.

Lemma nchunks_le length_ cs : 1 <= cs -> (nchunks length_ cs <= Z.to_nat length_)%nat.
Proof.
  intros Hc. unfold nchunks.
  pose proof (Z.div_mod (length_ + cs - 1) cs ltac:(lia)) as Hd.
  pose proof (Z.mod_pos_bound (length_ + cs - 1) cs ltac:(lia)) as Hm.
  set (N := (length_ + cs - 1) / cs) in *.
  destruct (Z_lt_le_dec N 0) as [Hn|Hn]; [lia|].
  destruct (Z_lt_le_dec length_ 0) as [Hl|Hl]; [nia|].
  apply Z2Nat.inj_le; try lia. nia.
Qed.

Lemma chunks_loop_spec length_ cs : 1 <= cs ->
  forall m k fuel, (k + m = nchunks length_ cs)%nat -> (m < fuel)%nat ->
  chunks_loop fuel length_ cs (Z.min length_ (Z.of_nat k * cs)) =
  Ok (map (fun k => (Z.of_nat k * cs, Z.min length_ ((Z.of_nat k + 1) * cs))) (seq k m)).
Proof.
  intros Hc. induction m as [|m IH]; intros k fuel Hk Hf; (destruct fuel as [|fuel]; [lia|]); cbn [chunks_loop seq map].
  - pose proof (nchunks_ge length_ cs Hc) as Hg. replace (nchunks length_ cs) with k in Hg by lia.
    replace (Z.min length_ (Z.of_nat k * cs)) with length_ by lia. rewrite Z.ltb_irrefl. reflexivity.
  - pose proof (nchunks_lt length_ cs k Hc ltac:(lia)) as Hl.
    replace (Z.min length_ (Z.of_nat k * cs)) with (Z.of_nat k * cs) by lia.
    replace (Z.of_nat k * cs <? length_) with true by (symmetry; apply Z.ltb_lt; lia).
    replace (Z.of_nat k * cs + cs) with (Z.of_nat (S k) * cs) by lia.
    rewrite (IH (S k) fuel) by lia. cbn [bind]. do 3 f_equal. lia.
Qed.

Theorem chunks_correct length_ cs fuel : 1 <= cs -> (chunks_fuel length_ <= fuel)%nat ->
  chunks fuel length_ cs = Ok (chunks_spec length_ cs).
Proof.
  intros Hc Hf. unfold chunks, chunks_spec.
  pose proof (chunks_loop_spec length_ cs Hc (nchunks length_ cs) 0%nat fuel eq_refl) as H.
  pose proof (nchunks_le length_ cs Hc). unfold chunks_fuel in Hf.
  cbn [Z.of_nat Z.mul] in H.
  destruct (Z_lt_le_dec length_ 0) as [Hl|Hl].
  - (* no chunk at all *)
    destruct fuel as [|fuel]; [lia|]. cbn [chunks_loop].
    replace (0 <? length_) with false by (symmetry; apply Z.ltb_ge; lia).
    replace (Z.to_nat ((length_ + cs - 1) / cs)) with 0%nat; [reflexivity|].
    symmetry. fold (nchunks length_ cs). lia.
  - replace (Z.min length_ 0) with 0 in H by lia. apply H. lia.
Qed.

(* a non-positive chunk size never advances: the generator yields (0, min(length, chunksize)) for ever *)
Theorem chunks_nonpositive_chunksize_spins length_ cs fuel : cs <= 0 -> 0 < length_ ->
  chunks fuel length_ cs = OutOfFuel.
Proof.
  intros Hc Hl. unfold chunks.
  assert (G : forall fuel cur, cur <= 0 -> chunks_loop fuel length_ cs cur = OutOfFuel).
  { induction fuel0 as [|f IH]; intros cur Hcur; cbn [chunks_loop]; [reflexivity|].
    replace (cur <? length_) with true by (symmetry; apply Z.ltb_lt; lia).
    rewrite IH by lia. reflexivity. }
  apply G. lia.
Qed.

(* the chunks tile [0, length) *)
Lemma chunks_spec_tile length_ cs : 1 <= cs -> 0 <= length_ ->
  forall (D:list Z), len D = length_ ->
  concat (map (fun c => slice D (fst c) (snd c)) (chunks_spec length_ cs)) = D.
Proof.
  intros Hc Hl D HD. unfold chunks_spec. fold (nchunks length_ cs).
  assert (G : forall m k, (k + m = nchunks length_ cs)%nat ->
    concat (map (fun c => slice D (fst c) (snd c))
      (map (fun k => (Z.of_nat k * cs, Z.min length_ ((Z.of_nat k + 1) * cs))) (seq k m)))
    = skipn (Z.to_nat (Z.min length_ (Z.of_nat k * cs))) D).
  { induction m as [|m IH]; intros k Hk; cbn [seq map concat].
    - pose proof (nchunks_ge length_ cs Hc) as Hg. replace (nchunks length_ cs) with k in Hg by lia.
      replace (Z.min length_ (Z.of_nat k * cs)) with (len D) by lia.
      unfold len. rewrite Nat2Z.id, skipn_all. reflexivity.
    - rewrite (IH (S k)) by lia. cbn [fst snd].
      pose proof (nchunks_lt length_ cs k Hc ltac:(lia)) as Hlt.
      replace (Z.min length_ (Z.of_nat k * cs)) with (Z.of_nat k * cs) by lia.
      replace ((Z.of_nat k + 1) * cs) with (Z.of_nat (S k) * cs) by lia.
      set (a := Z.of_nat k * cs). set (b := Z.min length_ (Z.of_nat (S k) * cs)).
      assert (Hab : a <= b) by (unfold a, b; lia).
      unfold slice.
      replace (Z.to_nat b) with (Z.to_nat a + Z.to_nat (b - a))%nat by lia.
      rewrite skipn_add. apply firstn_skipn. }
  rewrite (G (nchunks length_ cs) 0%nat eq_refl). cbn. replace (Z.min length_ 0) with 0 by lia. reflexivity.
Qed.

(* ------------------------------------------------------------------ data_iterator *)
Lemma skipn_nth_cons (w:list Z) k : (k < length w)%nat -> skipn k w = nth k w 0 :: skipn (S k) w.
Proof.
  revert k. induction w as [|x w IH]; intros k Hk; cbn in Hk; [lia|].
  destruct k; [reflexivity|]. cbn [skipn nth]. apply IH. lia.
Qed.

Lemma di_inner_fixed window start : forall n k, (k + n <= length window)%nat ->
  di_inner n true window start (start + Z.of_nat k) = Ok (firstn n (skipn k window)).
Proof.
  induction n as [|n IH]; intros k Hk; cbn [di_inner firstn]; [reflexivity|].
  replace (start + Z.of_nat k - start) with (Z.of_nat k) by lia.
  rewrite (get_ok 170 0) by (unfold len; lia). cbn [bind].
  replace (start + Z.of_nat k + 1) with (start + Z.of_nat (S k)) by lia.
  rewrite IH by lia. cbn [bind]. rewrite (skipn_nth_cons window k) by lia. cbn [firstn].
  unfold nthd. rewrite Nat2Z.id. reflexivity.
Qed.

Definition chunk_ok (D:list Z) (cs:Z) (c:Z * Z) : Prop :=
  0 <= fst c /\ fst c <= snd c /\ snd c <= len D /\ snd c - fst c <= cs * 2.

Lemma di_outer_fixed D cs cks : Forall (chunk_ok D cs) cks ->
  di_outer true D cs cks = Ok (concat (map (fun c => slice D (fst c) (snd c)) cks)).
Proof.
  induction cks as [|c t IH]; intros HF; cbn [di_outer map concat]; [reflexivity|].
  inversion HF as [|c' t' Hc Ht]; subst. destruct Hc as (H0 & H1 & H2 & H3).
  set (w := slice D (fst c) (fst c + cs * 2)).
  assert (Hw : (Z.to_nat (snd c - fst c) <= length w)%nat).
  { pose proof (len_slice_clamp D (fst c) (fst c + cs * 2) H0) as Hl. fold w in Hl. unfold len in *. lia. }
  pose proof (di_inner_fixed w (fst c) (Z.to_nat (snd c - fst c)) 0%nat ltac:(lia)) as Hi.
  replace (fst c + Z.of_nat 0) with (fst c) in Hi by lia. rewrite Hi. cbn [bind skipn].
  rewrite IH by assumption. cbn [bind]. f_equal. f_equal.
  unfold w, slice. rewrite firstn_firstn. f_equal. lia.
Qed.

Lemma chunks_spec_ok D cs : 1 <= cs -> Forall (chunk_ok D cs) (chunks_spec (len D) cs).
Proof.
  intros Hc. apply Forall_forall. intros c Hin. unfold chunks_spec in Hin.
  apply in_map_iff in Hin. destruct Hin as (k & <- & Hk). apply in_seq in Hk.
  fold (nchunks (len D) cs) in Hk.
  pose proof (nchunks_lt (len D) cs k Hc ltac:(lia)) as Hlt.
  unfold chunk_ok. cbn [fst snd]. nia.
Qed.

Theorem data_iterator_correct D cs fuel : 1 <= cs -> (chunks_fuel (len D) <= fuel)%nat ->
  data_iterator true fuel D cs = Ok D.
Proof.
  intros Hc Hf. unfold data_iterator. rewrite chunks_correct by assumption. cbn [bind].
  rewrite di_outer_fixed by (apply chunks_spec_ok; assumption).
  f_equal. apply chunks_spec_tile; [assumption|apply len_nonneg|reflexivity].
Qed.

(* the code as found works as long as there is a single chunk ... *)
Lemma di_inner_start0 window : forall n v, di_inner n false window 0 v = di_inner n true window 0 v.
Proof.
  induction n as [|n IH]; intros v; cbn [di_inner]; [reflexivity|].
  replace (v - 0) with v by lia. rewrite IH. reflexivity.
Qed.

Lemma di_outer_start0 D cs cks : Forall (fun c => fst c = 0) cks ->
  di_outer false D cs cks = di_outer true D cs cks.
Proof.
  induction cks as [|c t IH]; intros HF; cbn [di_outer]; [reflexivity|].
  inversion HF as [|c' t' Hc Ht]; subst. rewrite Hc, di_inner_start0, IH by assumption. reflexivity.
Qed.

Theorem data_iterator_orig_single_chunk D cs fuel : 1 <= cs -> len D <= cs -> (chunks_fuel (len D) <= fuel)%nat ->
  data_iterator false fuel D cs = Ok D.
Proof.
  intros Hc Hl Hf. rewrite <- (data_iterator_correct D cs fuel Hc Hf).
  unfold data_iterator. rewrite chunks_correct by assumption. cbn [bind].
  apply di_outer_start0. apply Forall_forall. intros c Hin. unfold chunks_spec in Hin.
  apply in_map_iff in Hin. destruct Hin as (k & <- & Hk). apply in_seq in Hk.
  fold (nchunks (len D) cs) in Hk. cbn [fst].
  destruct k as [|k]; [reflexivity|].
  pose proof (nchunks_lt (len D) cs 1%nat Hc ltac:(lia)). lia.
Qed.

(* ... and reads data[v] of a window that starts at `start` as soon as there is a second one (F-C10b) *)
Theorem data_iterator_orig_second_chunk_refuted :
  exists D cs, 1 <= cs /\ data_iterator false (chunks_fuel (len D)) D cs = OOB 170.
Proof. exists [10; 11; 12], 2. split; [lia|]. vm_compute. reflexivity. Qed.

(* with three full chunks the second one silently yields the wrong rows first *)
Example data_iterator_orig_wrong_rows :
  di_outer false [10;11;12;13;14;15] 2 [(0,2);(2,4)] = Ok [10;11;14;15].
Proof. vm_compute. reflexivity. Qed.

(* in fact the code as found fails on EVERY column longer than one chunk: the second chunk overruns its
   window unless there are three full chunks, and then the third one does *)
Lemma di_inner_orig_oob (w:list Z) start : forall n v, 0 <= v -> (0 < n)%nat -> len w < v + Z.of_nat n ->
  di_inner n false w start v = OOB 170.
Proof.
  induction n as [|n IH]; intros v Hv Hn Hl; [lia|]. cbn [di_inner].
  destruct (Z_lt_le_dec v (len w)) as [Hin|Hout].
  - rewrite (get_ok 170 0) by lia. cbn [bind]. rewrite IH by lia. reflexivity.
  - rewrite get_oob by lia. reflexivity.
Qed.

Lemma di_inner_orig_ok (w:list Z) start : forall n v, 0 <= v -> v + Z.of_nat n <= len w ->
  exists ys, di_inner n false w start v = Ok ys.
Proof.
  induction n as [|n IH]; intros v Hv Hl; cbn [di_inner]; [eexists; reflexivity|].
  rewrite (get_ok 170 0) by lia. cbn [bind]. destruct (IH (v + 1)) as (ys & E); try lia.
  rewrite E. cbn [bind]. eexists; reflexivity.
Qed.

Theorem data_iterator_orig_fails_beyond_one_chunk D cs fuel :
  1 <= cs -> cs < len D -> (chunks_fuel (len D) <= fuel)%nat ->
  data_iterator false fuel D cs = OOB 170.
Proof.
  intros Hc Hl Hf. unfold data_iterator. rewrite chunks_correct by assumption. cbn [bind].
  unfold chunks_spec. fold (nchunks (len D) cs).
  pose proof (nchunks_ge (len D) cs Hc) as Hge.
  set (n := len D) in *.
  assert (HN2 : (2 <= nchunks n cs)%nat) by nia.
  replace (nchunks n cs) with (S (S (nchunks n cs - 2))) by lia.
  cbn [seq map di_outer fst snd].
  replace (Z.of_nat 0 * cs) with 0 by lia. replace ((Z.of_nat 0 + 1) * cs) with cs by lia.
  replace (Z.of_nat 1 * cs) with cs by lia. replace ((Z.of_nat 1 + 1) * cs) with (2 * cs) by lia.
  (* first chunk: start = 0, fine *)
  destruct (di_inner_orig_ok (slice D 0 (0 + cs * 2)) 0 (Z.to_nat (Z.min n cs - 0)) 0 ltac:(lia)) as (ys0 & E0).
  { rewrite len_slice_clamp by lia. fold n. lia. }
  rewrite E0. cbn [bind].
  destruct (Z_lt_le_dec n (3 * cs)) as [Hlt|Hge3].
  - (* the second chunk overruns its window *)
    rewrite di_inner_orig_oob; [reflexivity|lia|lia|].
    rewrite len_slice_clamp by lia. fold n. lia.
  - (* three full chunks: the second one reads the wrong rows, the third one overruns *)
    destruct (di_inner_orig_ok (slice D cs (cs + cs * 2)) cs (Z.to_nat (Z.min n (2 * cs) - cs)) cs ltac:(lia)) as (ys1 & E1).
    { rewrite len_slice_clamp by lia. fold n. lia. }
    rewrite E1. cbn [bind].
    assert (HN3 : (3 <= nchunks n cs)%nat) by nia.
    replace (nchunks n cs - 2)%nat with (S (nchunks n cs - 3)) by lia.
    cbn [seq map di_outer fst snd].
    replace (Z.of_nat 2 * cs) with (2 * cs) by lia. replace ((Z.of_nat 2 + 1) * cs) with (3 * cs) by lia.
    rewrite di_inner_orig_oob; [reflexivity|lia|lia|].
    rewrite len_slice_clamp by lia. fold n. lia.
Qed.
