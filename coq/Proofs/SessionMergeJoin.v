(* Proofs/SessionMergeJoin.v — Session.join (C19): destination row k receives the value joined to the last
   span of foreign-key indices equal to k, 0 when there is none; invalid indices (>= INVALID_INDEX) are dropped. *)
From Coq Require Import ZArith List Lia Bool ZifyBool.
From EV Require Import Res Arr MapStream SessionMerge SessionMergeSpec SessionMergeTop.
From EV Require Spans SpansSpec SpansField.
Import ListNotations.
Open Scope Z_scope.

Lemma np_get_ok (l:list Z) k : 0 <= k < len l -> np_get l k = Ok (nthZ l k).
Proof.
  intros H. unfold np_get. replace (k <? 0) with false by lia. replace (k <? 0) with false by lia.
  unfold len in H. destruct (nth_error l (Z.to_nat k)) eqn:E.
  - f_equal. unfold nthZ, nthd. symmetry. apply nth_error_nth. exact E.
  - apply nth_error_None in E. lia.
Qed.

Lemma nthZ_app_r (l1 l2:list Z) i : nthZ (l1 ++ l2) (len l1 + i) = nthZ l2 i \/ i < 0.
Proof.
  destruct (Z_lt_ge_dec i 0) as [H|H]; [right; exact H|left].
  unfold nthZ. rewrite nthd_app_r by lia. f_equal. lia.
Qed.

(* the values at the interior span boundaries of a suffix *)
Lemma bounds_values : forall t x pre,
  mapM (np_get (pre ++ x :: t)) (SpansSpec.bounds_from Spans.Z_neqb (len pre) (x :: t)) = Ok (run_heads_from x t).
Proof.
  induction t as [|y t IH]; intros x pre; [reflexivity|].
  change (SpansSpec.bounds_from Spans.Z_neqb (len pre) (x :: y :: t))
    with (if Spans.Z_neqb x y then (len pre + 1) :: SpansSpec.bounds_from Spans.Z_neqb (len pre + 1) (y :: t)
          else SpansSpec.bounds_from Spans.Z_neqb (len pre + 1) (y :: t)).
  cbn [run_heads_from]. change (Spans.Z_neqb x y) with (negb (x =? y)).
  assert (Hpre : pre ++ x :: y :: t = (pre ++ [x]) ++ y :: t) by (rewrite <- app_assoc; reflexivity).
  assert (Hlen : len pre + 1 = len (pre ++ [x])) by (rewrite len_app, len_cons, len_nil; lia).
  specialize (IH y (pre ++ [x])). rewrite <- Hpre, <- Hlen in IH.
  destruct (x =? y) eqn:E; cbn [negb].
  - exact IH.
  - cbn [mapM]. rewrite np_get_ok.
    + cbn [bind]. rewrite IH. cbn [bind]. f_equal. f_equal.
      rewrite Hpre, Hlen. destruct (nthZ_app_r (pre ++ [x]) (y :: t) 0) as [H|H]; [|lia].
      rewrite Z.add_0_r in H. rewrite H. reflexivity.
    + rewrite len_app, !len_cons. pose proof (len_nonneg pre). pose proof (len_nonneg t). lia.
Qed.

Lemma uniq_values fk :
  mapM (np_get fk) (removelast (Spans.get_spans_for_field Spans.Z_neqb fk)) = Ok (run_heads fk).
Proof.
  rewrite SpansField.get_spans_for_field_ref. destruct fk as [|x t]; [reflexivity|].
  unfold SpansSpec.spans_ref.
  change (0 :: SpansSpec.bounds_from Spans.Z_neqb 0 (x :: t) ++ [len (x :: t)])
    with ((0 :: SpansSpec.bounds_from Spans.Z_neqb 0 (x :: t)) ++ [len (x :: t)]).
  rewrite removelast_last. cbn [mapM run_heads].
  rewrite np_get_ok by (rewrite len_cons; pose proof (len_nonneg t); lia). cbn [bind].
  pose proof (bounds_values t x []) as H. cbn [app] in H. rewrite len_nil in H. rewrite H. reflexivity.
Qed.

Lemma mask_filter (INV:Z) : forall (uniq vals:list Z), length vals = length uniq ->
  combine (mask_select uniq (map (fun u => u <? INV) uniq)) (mask_select vals (map (fun u => u <? INV) uniq))
  = filter (fun p => fst p <? INV) (combine uniq vals).
Proof.
  induction uniq as [|u t IH]; intros vals Hl; destruct vals as [|v vt]; cbn [length] in Hl; try lia; [reflexivity|].
  cbn [map mask_select combine filter fst]. destruct (u <? INV); cbn [combine]; rewrite IH by lia; reflexivity.
Qed.

Lemma mask_select_length {A} : forall (l:list A) m, length l = length m ->
  length (mask_select l m) = length (filter (fun b:bool => b) m).
Proof.
  induction l as [|x t IH]; intros m H; destruct m as [|b mt]; cbn [length] in H; try lia; [reflexivity|].
  cbn [mask_select filter]. destruct b; cbn [length]; rewrite IH by lia; reflexivity.
Qed.

Lemma fancy_assign_ok : forall idx vals dest,
  length vals = length idx -> (forall k, In k idx -> 0 <= k < len dest) ->
  exists dest', fancy_assign dest idx vals = Ok dest' /\ len dest' = len dest /\
    forall k, 0 <= k < len dest -> nthZ dest' k = last_value k (combine idx vals) (nthZ dest k).
Proof.
  induction idx as [|i t IH]; intros vals dest Hl Hr; destruct vals as [|v vt]; cbn [length] in Hl; try lia.
  - exists dest. repeat split; reflexivity.
  - cbn [fancy_assign combine last_value].
    pose proof (Hr i (or_introl eq_refl)) as Hi.
    replace (i <? 0) with false by lia. replace ((i <? 0) || (len dest <=? i)) with false by lia.
    destruct (IH vt (upd dest i v)) as (d' & E & Hlen & Hv); [lia| |].
    + intros k Hk. rewrite len_upd. apply Hr. right. exact Hk.
    + exists d'. rewrite len_upd in Hlen, Hv. split; [exact E|]. split; [exact Hlen|].
      intros k Hk. rewrite (Hv k Hk). unfold nthZ. destruct (i =? k) eqn:E2.
      * assert (i = k) by lia. subst k. rewrite nthd_upd_same by lia. reflexivity.
      * rewrite nthd_upd_other by lia. reflexivity.
Qed.

Lemma In_mask_select {A} : forall (l:list A) m x, In x (mask_select l m) -> In x l.
Proof.
  induction l as [|y t IH]; intros m x H; destruct m as [|b mt]; cbn [mask_select] in H; try destruct H.
  destruct b; [destruct H as [<-|H]; [left; reflexivity|right; exact (IH _ _ H)]|right; exact (IH _ _ H)].
Qed.

Lemma In_run_heads_from : forall t x k, In k (run_heads_from x t) -> In k t.
Proof.
  induction t as [|y t IH]; intros x k H; cbn [run_heads_from] in H; [destruct H|].
  destruct (x =? y); [right; exact (IH _ _ H)|destruct H as [<-|H]; [left; reflexivity|right; exact (IH _ _ H)]].
Qed.
Lemma In_run_heads fk k : In k (run_heads fk) -> In k fk.
Proof.
  destruct fk as [|x t]; cbn [run_heads]; [intros []|].
  intros [<-|H]; [left; reflexivity|right; exact (In_run_heads_from _ _ _ H)].
Qed.

Lemma nth_map_seq (f:nat -> Z) n k d : (k < n)%nat -> nth k (map f (seq 0 n)) d = f k.
Proof.
  intros H. rewrite (nth_indep _ d (f 0%nat)) by (rewrite map_length, seq_length; exact H).
  rewrite map_nth, seq_nth by exact H. reflexivity.
Qed.

Theorem session_join_correct_gen n fk vals :
  0 <= n -> length vals = length (run_heads fk) ->
  (forall k, In k fk -> k < INVALID_INDEX -> 0 <= k < n) ->
  session_join n fk vals = Ok (join_rows INVALID_INDEX n fk vals).
Proof.
  intros Hn Hl Hr. unfold session_join. rewrite uniq_values. cbn [bind].
  set (uniq := run_heads fk) in *.
  set (flt := map (fun u => u <? INVALID_INDEX) uniq).
  replace (negb (len vals =? len flt)) with false
    by (unfold len, flt; rewrite map_length; lia).
  set (dest := repeat 0 (Z.to_nat n)).
  assert (Hd : len dest = n) by (unfold dest, len; rewrite repeat_length; lia).
  destruct (fancy_assign_ok (mask_select uniq flt) (mask_select vals flt) dest) as (d' & E & Hlen & Hv).
  - rewrite !mask_select_length; [reflexivity| |]; unfold flt; rewrite map_length; lia.
  - intros k Hk. rewrite Hd.
    assert (Hku : In k uniq) by (apply (In_mask_select _ _ _ Hk)).
    apply Hr; [apply In_run_heads; exact Hku|].
    (* k passed the filter *)
    clear - Hk. unfold flt in Hk. induction uniq as [|u t IH]; cbn [map mask_select] in Hk; [destruct Hk|].
    destruct (u <? INVALID_INDEX) eqn:E; [destruct Hk as [<-|Hk]; [lia|exact (IH Hk)]|exact (IH Hk)].
  - rewrite E. f_equal. unfold join_rows. fold uniq.
    rewrite <- (mask_filter INVALID_INDEX uniq vals Hl). fold flt.
    apply (list_eq_nthd 0).
    + rewrite Hlen, Hd. unfold len, seqZ0. rewrite !map_length, seq_length. lia.
    + intros k Hk. rewrite Hlen, Hd in Hk. fold (nthZ d' k). rewrite (Hv k ltac:(lia)).
      unfold seqZ0. rewrite map_map. unfold nthd. rewrite nth_map_seq by lia.
      replace (Z.of_nat (Z.to_nat k)) with k by lia. f_equal.
      unfold nthZ, nthd, dest. apply nth_repeat.
Qed.
