(* Proofs/UniqueOrder.v — C14: order laws of lexcmp / Z.compare and the properties of the
   specification functions (sort_uniq, index_of, count) over any carrier whose comparison is a
   strict total order. *)
From Coq Require Import ZArith List Lia Bool Sorted Permutation.
From EV Require Import Res Arr UniqueSpec.
Import ListNotations.
Open Scope Z_scope.

(* ---- lexcmp is a strict total order ------------------------------------------------ *)
Lemma lexcmp_refl a : lexcmp a a = Eq.
Proof. induction a as [|x a IH]; cbn [lexcmp]; [reflexivity|]. rewrite Z.compare_refl. exact IH. Qed.

Lemma lexcmp_eq a b : lexcmp a b = Eq <-> a = b.
Proof.
  split; [|intros ->; apply lexcmp_refl].
  revert b. induction a as [|x a IH]; intros [|y b] H; cbn [lexcmp] in H; try discriminate; [reflexivity|].
  destruct (Z.compare_spec x y) as [E|E|E]; try discriminate. subst. f_equal. apply IH. exact H.
Qed.

Lemma lexcmp_antisym a b : lexcmp b a = CompOpp (lexcmp a b).
Proof.
  revert b. induction a as [|x a IH]; intros [|y b]; cbn [lexcmp]; try reflexivity.
  rewrite (Z.compare_antisym x y). destruct (x ?= y); cbn [CompOpp]; auto.
Qed.

Lemma lexcmp_trans a b c : lexcmp a b = Lt -> lexcmp b c = Lt -> lexcmp a c = Lt.
Proof.
  revert b c. induction a as [|x a IH]; intros [|y b] [|z c] H1 H2; cbn [lexcmp] in *; try discriminate; try reflexivity.
  destruct (Z.compare_spec x y) as [E1|E1|E1]; try discriminate;
  destruct (Z.compare_spec y z) as [E2|E2|E2]; try discriminate;
  destruct (Z.compare_spec x z) as [E3|E3|E3]; try lia; try reflexivity.
  eapply IH; eauto.
Qed.

Lemma lexcmp_app_same p a b : lexcmp (p ++ a) (p ++ b) = lexcmp a b.
Proof. induction p as [|x p IH]; cbn [app lexcmp]; [reflexivity|]. rewrite Z.compare_refl. exact IH. Qed.

Lemma Zcompare_antisym a b : (b ?= a) = CompOpp (a ?= b).
Proof. apply Z.compare_antisym. Qed.
Lemma Zcompare_trans a b c : (a ?= b) = Lt -> (b ?= c) = Lt -> (a ?= c) = Lt.
Proof. rewrite !Z.compare_lt_iff. lia. Qed.

(* ---- generic part ------------------------------------------------------------------- *)
Section Order.
Context {A:Type} (cmp:A -> A -> comparison).
Hypothesis cmp_eq : forall a b, cmp a b = Eq <-> a = b.
Hypothesis cmp_antisym : forall a b, cmp b a = CompOpp (cmp a b).
Hypothesis cmp_trans : forall a b c, cmp a b = Lt -> cmp b c = Lt -> cmp a c = Lt.

Definition slt (a b:A) : Prop := cmp a b = Lt.

Lemma slt_irrefl a : ~ slt a a.
Proof. unfold slt. intros H. assert (cmp a a = Eq) as E by (apply cmp_eq; reflexivity). congruence. Qed.

Lemma slt_asym a b : slt a b -> ~ slt b a.
Proof. intros H1 H2. apply (slt_irrefl a). eapply cmp_trans; eauto. Qed.

Lemma eqc_true a b : eqc cmp a b = true <-> a = b.
Proof. unfold eqc. rewrite <- cmp_eq. destruct (cmp a b); split; congruence. Qed.

Lemma eqc_refl a : eqc cmp a a = true.
Proof. apply eqc_true. reflexivity. Qed.

Lemma eqc_false a b : eqc cmp a b = false <-> a <> b.
Proof. rewrite <- eqc_true. destruct (eqc cmp a b); split; congruence. Qed.

Lemma dec_eq (a b:A) : {a = b} + {a <> b}.
Proof. destruct (eqc cmp a b) eqn:E; [left; apply eqc_true; exact E|right; apply eqc_false; exact E]. Qed.

(* ---- sort_uniq ---- *)
Lemma insert_u_in x l z : In z (insert_u cmp x l) <-> z = x \/ In z l.
Proof.
  induction l as [|y t IH]; cbn [insert_u].
  - cbn. intuition.
  - destruct (cmp x y) eqn:E; cbn [In].
    + apply cmp_eq in E. subst. intuition.
    + intuition.
    + rewrite IH. intuition.
Qed.

Lemma insert_u_sorted x l : StronglySorted slt l -> StronglySorted slt (insert_u cmp x l).
Proof.
  induction 1 as [|y t Ht IH Hall]; cbn [insert_u].
  - constructor; constructor.
  - destruct (cmp x y) eqn:E.
    + constructor; assumption.
    + constructor; [constructor; assumption|]. constructor; [exact E|].
      rewrite Forall_forall in *. intros z Hz. eapply cmp_trans; [exact E|]. apply Hall. exact Hz.
    + constructor; [exact IH|]. rewrite Forall_forall in *. intros z Hz.
      apply insert_u_in in Hz. destruct Hz as [->|Hz]; [|apply Hall; exact Hz].
      unfold slt. rewrite cmp_antisym, E. reflexivity.
Qed.

Lemma sort_uniq_sorted l : StronglySorted slt (sort_uniq cmp l).
Proof. induction l as [|x t IH]; cbn [sort_uniq fold_right]; [constructor|]. apply insert_u_sorted. exact IH. Qed.

Lemma sort_uniq_in l z : In z (sort_uniq cmp l) <-> In z l.
Proof.
  induction l as [|x t IH]; cbn [sort_uniq fold_right]; [reflexivity|].
  fold (sort_uniq cmp t). rewrite insert_u_in, IH. cbn. intuition.
Qed.

Lemma ssorted_NoDup l : StronglySorted slt l -> NoDup l.
Proof.
  induction 1 as [|y t Ht IH Hall]; constructor; [|exact IH].
  intros Hin. rewrite Forall_forall in Hall. apply (slt_irrefl y). apply Hall. exact Hin.
Qed.

Lemma ssorted_unique l1 l2 :
  StronglySorted slt l1 -> StronglySorted slt l2 -> (forall x, In x l1 <-> In x l2) -> l1 = l2.
Proof.
  intros H1. revert l2. induction H1 as [|a t1 Ht1 IH Hall1]; intros l2 H2 Hin.
  - destruct l2 as [|b t2]; [reflexivity|]. exfalso. apply (Hin b). left; reflexivity.
  - destruct H2 as [|b t2 Ht2 Hall2].
    + exfalso. apply (Hin a). left; reflexivity.
    + rewrite Forall_forall in Hall1, Hall2.
      assert (a = b) as ->.
      { destruct (proj1 (Hin a) (or_introl eq_refl)) as [E|Ha]; [auto|].
        destruct (proj2 (Hin b) (or_introl eq_refl)) as [E|Hb]; [auto|].
        exfalso. apply (slt_asym a b); [apply Hall1; exact Hb|apply Hall2; exact Ha]. }
      f_equal. apply IH; [exact Ht2|]. intros x. split; intros Hx.
      * destruct (proj1 (Hin x) (or_intror Hx)) as [E|Hx']; [|exact Hx'].
        subst. exfalso. apply (slt_irrefl x). apply Hall1. exact Hx.
      * destruct (proj2 (Hin x) (or_intror Hx)) as [E|Hx']; [|exact Hx'].
        subst. exfalso. apply (slt_irrefl x). apply Hall2. exact Hx.
Qed.

(* ---- index_of ---- *)
Lemma index_of_shift x l i : index_of cmp x l i = i + index_of cmp x l 0.
Proof.
  revert i. induction l as [|y t IH]; intros i; cbn [index_of]; [lia|].
  destruct (eqc cmp x y); [lia|]. pose proof (IH (i + 1)) as H1. pose proof (IH (0 + 1)) as H2. lia.
Qed.

Lemma index_of_range x l : 0 <= index_of cmp x l 0 <= len l.
Proof.
  induction l as [|y t IH]; cbn [index_of]; [unfold len; cbn [length]; lia|].
  rewrite len_cons. destruct (eqc cmp x y); [pose proof (len_nonneg t); lia|].
  rewrite (index_of_shift x t (0 + 1)). lia.
Qed.

Lemma index_of_in x l : In x l -> 0 <= index_of cmp x l 0 < len l.
Proof.
  induction l as [|y t IH]; intros H; [contradiction|].
  cbn [index_of]. rewrite len_cons. destruct (eqc cmp x y) eqn:E; [pose proof (len_nonneg t); lia|].
  apply eqc_false in E. destruct H as [->|H]; [congruence|]. rewrite (index_of_shift x t (0 + 1)). specialize (IH H). lia.
Qed.

Lemma index_of_notin x l : ~ In x l -> index_of cmp x l 0 = len l.
Proof.
  induction l as [|y t IH]; intros H; cbn [index_of]; [reflexivity|].
  rewrite len_cons. destruct (eqc cmp x y) eqn:E.
  - apply eqc_true in E. subst. exfalso. apply H. left; reflexivity.
  - rewrite (index_of_shift x t (0 + 1)), IH; [lia|]. intros Hin. apply H. right; exact Hin.
Qed.

Lemma index_of_nth d x l : In x l -> nthd d l (index_of cmp x l 0) = x.
Proof.
  induction l as [|y t IH]; intros H; [contradiction|].
  cbn [index_of]. destruct (eqc cmp x y) eqn:E.
  - apply eqc_true in E. subst. reflexivity.
  - apply eqc_false in E. destruct H as [->|H]; [congruence|].
    rewrite (index_of_shift x t (0 + 1)). replace (0 + 1 + index_of cmp x t 0) with (index_of cmp x t 0 + 1) by lia.
    rewrite nthd_cons_succ by (pose proof (index_of_range x t); lia). apply IH. exact H.
Qed.

(* nothing equal to x before its index: it is the first occurrence *)
Lemma index_of_first d x l j : 0 <= j < index_of cmp x l 0 -> nthd d l j <> x.
Proof.
  revert j. induction l as [|y t IH]; intros j Hj; cbn [index_of] in Hj; [lia|].
  destruct (eqc cmp x y) eqn:E; [lia|]. apply eqc_false in E.
  destruct (Z.eq_dec j 0) as [->|Hj0]; [rewrite nthd_cons_0; congruence|].
  replace j with ((j - 1) + 1) by lia. rewrite nthd_cons_succ by lia. apply IH.
  rewrite (index_of_shift x t (0 + 1)) in Hj. lia.
Qed.

Lemma index_of_app_in x l1 l2 : In x l1 -> index_of cmp x (l1 ++ l2) 0 = index_of cmp x l1 0.
Proof.
  induction l1 as [|y t IH]; intros H; [contradiction|].
  cbn [app index_of]. destruct (eqc cmp x y) eqn:E; [reflexivity|].
  apply eqc_false in E. destruct H as [->|H]; [congruence|].
  rewrite (index_of_shift x (t ++ l2) (0 + 1)), (index_of_shift x t (0 + 1)), IH by exact H. reflexivity.
Qed.

Lemma index_of_app_notin x l1 l2 : ~ In x l1 -> index_of cmp x (l1 ++ l2) 0 = len l1 + index_of cmp x l2 0.
Proof.
  induction l1 as [|y t IH]; intros H; cbn [app]; [unfold len; cbn [length]; lia|].
  cbn [index_of]. rewrite len_cons. destruct (eqc cmp x y) eqn:E.
  - apply eqc_true in E. subst. exfalso. apply H. left; reflexivity.
  - rewrite (index_of_shift x (t ++ l2) (0 + 1)), IH; [lia|]. intros Hin. apply H. right; exact Hin.
Qed.

Lemma index_of_NoDup_nth d l k : NoDup l -> 0 <= k < len l -> index_of cmp (nthd d l k) l 0 = k.
Proof.
  intros Hnd. revert k. induction Hnd as [|y t Hy Hnd IH]; intros k Hk; [unfold len in Hk; cbn [length] in Hk; lia|].
  rewrite len_cons in Hk. cbn [index_of]. destruct (Z.eq_dec k 0) as [->|Hk0].
  - rewrite nthd_cons_0, eqc_refl. reflexivity.
  - replace k with ((k - 1) + 1) by lia. rewrite nthd_cons_succ by lia.
    assert (Hin : In (nthd d t (k - 1)) t).
    { unfold nthd. apply nth_In. unfold len in Hk. lia. }
    destruct (eqc cmp (nthd d t (k - 1)) y) eqn:E.
    + apply eqc_true in E. rewrite E in Hin. contradiction.
    + rewrite (index_of_shift _ t (0 + 1)), IH by lia. lia.
Qed.

(* ---- count ---- *)
Lemma count_nil x : count cmp x [] = 0.
Proof. reflexivity. Qed.

Lemma count_cons x y l : count cmp x (y :: l) = (if eqc cmp x y then 1 else 0) + count cmp x l.
Proof. unfold count. cbn [filter]. destruct (eqc cmp x y); [rewrite len_cons|]; lia. Qed.

Lemma count_app x l1 l2 : count cmp x (l1 ++ l2) = count cmp x l1 + count cmp x l2.
Proof. unfold count. rewrite filter_app, len_app. reflexivity. Qed.

Lemma count_nonneg x l : 0 <= count cmp x l.
Proof. unfold count. apply len_nonneg. Qed.

Lemma count_notin x l : ~ In x l -> count cmp x l = 0.
Proof.
  induction l as [|y t IH]; intros H; [reflexivity|]. rewrite count_cons.
  destruct (eqc cmp x y) eqn:E.
  - apply eqc_true in E. subst. exfalso. apply H. left; reflexivity.
  - rewrite IH; [lia|]. intros Hin. apply H. right; exact Hin.
Qed.

Lemma count_in x l : In x l -> 1 <= count cmp x l.
Proof.
  induction l as [|y t IH]; intros H; [contradiction|]. rewrite count_cons.
  pose proof (count_nonneg x t). destruct (eqc cmp x y) eqn:E; [lia|].
  apply eqc_false in E. destruct H as [->|H]; [congruence|]. specialize (IH H). lia.
Qed.

Lemma sum_indicator_NoDup a u :
  NoDup u -> In a u -> sumZ (map (fun x => if eqc cmp x a then 1 else 0) u) = 1.
Proof.
  induction 1 as [|y t Hy Hnd IH]; intros Hin; [contradiction|]. cbn [map sumZ].
  destruct Hin as [->|Hin].
  - rewrite eqc_refl. assert (sumZ (map (fun x => if eqc cmp x a then 1 else 0) t) = 0) as ->; [|lia].
    clear IH Hnd. induction t as [|z t IH]; [reflexivity|]. cbn [map sumZ].
    destruct (eqc cmp z a) eqn:E.
    + apply eqc_true in E. subst. exfalso. apply Hy. left; reflexivity.
    + rewrite IH; [lia|]. intros H. apply Hy. right; exact H.
  - destruct (eqc cmp y a) eqn:E.
    + apply eqc_true in E. subst. contradiction.
    + rewrite IH by exact Hin. lia.
Qed.

Lemma sumZ_map_add {B} (f g:B -> Z) l : sumZ (map (fun x => f x + g x) l) = sumZ (map f l) + sumZ (map g l).
Proof. induction l as [|x t IH]; cbn [map sumZ]; [reflexivity|]. rewrite IH. lia. Qed.

Lemma counts_sum_gen u xs :
  NoDup u -> (forall x, In x xs -> In x u) -> sumZ (map (fun x => count cmp x xs) u) = len xs.
Proof.
  intros Hnd. induction xs as [|a xs IH]; intros Hin.
  - clear Hin Hnd. change (len (@nil A)) with 0. induction u as [|y t IHu]; [reflexivity|]. cbn [map sumZ].
    rewrite count_nil, IHu. reflexivity.
  - rewrite len_cons.
    rewrite (map_ext _ (fun x => (if eqc cmp x a then 1 else 0) + count cmp x xs)) by (intros; apply count_cons).
    rewrite (sumZ_map_add (fun x => if eqc cmp x a then 1 else 0) (fun x => count cmp x xs)).
    rewrite sum_indicator_NoDup; [|exact Hnd|apply Hin; left; reflexivity].
    rewrite IH; [lia|]. intros x Hx. apply Hin. right; exact Hx.
Qed.

(* ---- the specification functions meet the property text ---- *)
(* uniques: strictly increasing, and exactly the values of the column *)
Theorem spec_uniques_sorted xs : StronglySorted slt (sort_uniq cmp xs).
Proof. apply sort_uniq_sorted. Qed.
Theorem spec_uniques_members xs x : In x (sort_uniq cmp xs) <-> In x xs.
Proof. apply sort_uniq_in. Qed.

(* index: position of the first occurrence of each unique value *)
Theorem spec_index_first_occurrence d xs k :
  0 <= k < len (sort_uniq cmp xs) ->
  let u := nthd d (sort_uniq cmp xs) k in
  let i := index_of cmp u xs 0 in
  0 <= i < len xs /\ nthd d xs i = u /\ forall j, 0 <= j < i -> nthd d xs j <> u.
Proof.
  intros Hk u i.
  assert (Hin : In u xs).
  { apply sort_uniq_in. unfold u, nthd. apply nth_In. unfold len in Hk. lia. }
  split; [apply index_of_in; exact Hin|]. split; [apply index_of_nth; exact Hin|].
  intros j Hj. apply index_of_first. exact Hj.
Qed.

(* inverse: uniques[inverse[i]] = xs[i] *)
Theorem spec_inverse_reconstructs d xs i :
  0 <= i < len xs ->
  let k := index_of cmp (nthd d xs i) (sort_uniq cmp xs) 0 in
  0 <= k < len (sort_uniq cmp xs) /\ nthd d (sort_uniq cmp xs) k = nthd d xs i.
Proof.
  intros Hi k.
  assert (Hin : In (nthd d xs i) (sort_uniq cmp xs)).
  { apply sort_uniq_in. unfold nthd. apply nth_In. unfold len in Hi. lia. }
  split; [apply index_of_in; exact Hin|apply index_of_nth; exact Hin].
Qed.

(* counts: multiplicities, every one >= 1, summing to the row count *)
Theorem spec_counts_sum xs : sumZ (map (fun x => count cmp x xs) (sort_uniq cmp xs)) = len xs.
Proof.
  apply counts_sum_gen; [apply ssorted_NoDup, sort_uniq_sorted|]. intros x Hx. apply sort_uniq_in. exact Hx.
Qed.

(* isin: flag i is true iff row i is a member of the test set (None entries match nothing) *)
Theorem spec_isin_iff xs tests i :
  0 <= i < len xs ->
  forall d, nthd false (spec_isin cmp xs tests) i = true <-> In (Some (nthd d xs i)) tests.
Proof.
  intros Hi d. unfold spec_isin.
  assert (Hn : nthd false (map (fun x => existsb (eqc cmp x) (somes tests)) xs) i
               = existsb (eqc cmp (nthd d xs i)) (somes tests)).
  { unfold nthd. rewrite (nth_indep _ false (existsb (eqc cmp d) (somes tests)))
      by (rewrite map_length; unfold len in Hi; lia).
    apply (map_nth (fun x => existsb (eqc cmp x) (somes tests))). }
  rewrite Hn, existsb_exists. clear Hn. generalize (nthd d xs i) as x. intros x. split.
  - intros [y [Hy E]]. apply eqc_true in E. subst y.
    clear Hi. induction tests as [|[t|] ts IH]; cbn [somes] in Hy; [contradiction| |].
    + destruct Hy as [->|Hy]; [left; reflexivity|right; apply IH; exact Hy].
    + right; apply IH; exact Hy.
  - intros Hin. exists x. split; [|apply eqc_refl].
    clear Hi. induction tests as [|[t|] ts IH]; cbn [somes]; [contradiction| |].
    + destruct Hin as [E|Hin]; [left; congruence|right; apply IH; exact Hin].
    + destruct Hin as [E|Hin]; [discriminate|apply IH; exact Hin].
Qed.
End Order.
