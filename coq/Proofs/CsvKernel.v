(* Proofs/CsvKernel.v — one-step and run lemmas for the byte-level FSM of Model/Csv.v *)
From Coq Require Import ZArith List Lia Bool.
From EV Require Import Res Arr Csv CsvSpec CsvBase.
Import ListNotations.
Open Scope Z_scope.

Definition nows (t:list Z) : Prop := match t with x :: _ => x <> WS | [] => True end.

Section Kernel.
Variable src offs : list Z.
Variable maxrow ncols : Z.
Let w := maxrow + 1.

(* ---- classify ---------------------------------------------------------------------- *)
Lemma lookahead i b x t : 0 <= i -> suf src i = b :: x :: t ->
  (i + 1 <? len src) = true /\ (forall site, get site src (i + 1) = Ok x).
Proof.
  intros Hi H. destruct (suf_cons src i b (x :: t) Hi H) as (_ & _ & Hs & _).
  destruct (suf_cons src (i + 1) x t ltac:(lia) Hs) as (Hlt & _ & _ & Hg).
  split; [apply Z.ltb_lt; lia|exact Hg].
Qed.

Lemma cl_sep i cand ic e : classify src i SEP false cand ic e = Ok (false, true, false, false, cand, e).
Proof. reflexivity. Qed.

Lemma cl_nl i cand ic e : classify src i NL false cand ic e = Ok (false, true, true, false, cand, i).
Proof. reflexivity. Qed.

Lemma cl_plain i b cand ic e : special b = false ->
  classify src i b false cand ic e = Ok (true, false, false, false, cand, e).
Proof.
  unfold special. intros H. apply orb_false_elim in H. destruct H as (H & H4).
  apply orb_false_elim in H. destruct H as (H & H3). apply orb_false_elim in H. destruct H as (H1 & H2).
  unfold classify. rewrite H1, H3, H2, H4. reflexivity.
Qed.

Lemma cl_open i cand e : classify src i ESC false cand i e = Ok (false, false, false, true, cand, e).
Proof. unfold classify. cbn. rewrite Z.eqb_refl. reflexivity. Qed.

Lemma cl_in i b ic e : b <> ESC -> classify src i b true false ic e = Ok (true, false, false, true, false, e).
Proof.
  intros H. unfold classify. destruct (b =? SEP); [reflexivity|]. destruct (b =? NL); [reflexivity|].
  destruct (b =? ESC) eqn:E; [apply Z.eqb_eq in E; contradiction|]. cbn [negb andb]. rewrite andb_false_r. reflexivity.
Qed.

Lemma cl_q2 i ic e : classify src i ESC true true ic e = Ok (true, false, false, true, false, e).
Proof. reflexivity. Qed.

Lemma cl_q1 i t ic e : 0 <= i -> suf src i = ESC :: ESC :: t ->
  classify src i ESC true false ic e = Ok (false, false, false, true, true, e).
Proof.
  intros Hi H. destruct (lookahead i _ _ _ Hi H) as (Hlt & Hg).
  unfold classify. cbn [Z.eqb SEP NL ESC Pos.eqb negb]. rewrite Hlt, Hg. reflexivity.
Qed.

Lemma cl_close i d t ic e : 0 <= i -> suf src i = ESC :: d :: t -> d = SEP \/ d = NL ->
  classify src i ESC true false ic e = Ok (false, false, false, false, false, e).
Proof.
  intros Hi H Hd. destruct (lookahead i _ _ _ Hi H) as (Hlt & Hg).
  unfold classify. cbn [Z.eqb SEP NL ESC Pos.eqb negb]. rewrite Hlt, Hg. cbn [bind].
  destruct Hd as [-> | ->]; reflexivity.
Qed.

(* ---- skip_ws ----------------------------------------------------------------------- *)
Lemma skip_ws_stay n i b t : 0 <= i -> suf src i = b :: t -> nows t -> skip_ws n src i = Ok i.
Proof.
  intros Hi H Hn. destruct (suf_cons src i b t Hi H) as (Hlt & _ & Hs & _).
  destruct t as [|x t'].
  - apply suf_nil_iff in Hs; try lia. destruct n; cbn [skip_ws];
      (destruct (i + 1 <? len src) eqn:E; [apply Z.ltb_lt in E; lia|reflexivity]).
  - destruct (suf_cons src (i + 1) x t' ltac:(lia) Hs) as (Hlt2 & _ & _ & Hg).
    assert (E : (i + 1 <? len src) = true) by (apply Z.ltb_lt; lia).
    assert (Ex : (x =? WS) = false) by (apply Z.eqb_neq; exact Hn).
    destruct n; cbn [skip_ws]; rewrite E, Hg; cbn [bind]; rewrite Ex; reflexivity.
Qed.

(* ---- single steps ------------------------------------------------------------------ *)
(* a byte that does not end the cell *)
Lemma step_inner i e c r vfc esc cand k cs ic coff cvc inds vals b t wc esc' cand' :
  0 <= i -> suf src i = b :: t ->
  classify src i b esc cand ic e = Ok (wc, false, false, esc', cand', e) ->
  (wc && (0 <=? r) = true -> 0 <= coff + cs + k < len vals /\ cs + (k + 1) < cvc) ->
  fsm_step src offs maxrow (mkSt i e c r vfc esc cand k cs ic false false coff cvc inds vals) =
  Ok (mkSt (i + 1) e c r vfc esc' cand' (if wc && (0 <=? r) then k + 1 else k) cs ic false false coff cvc inds
           (if wc && (0 <=? r) then upd vals (coff + cs + k) b else vals)).
Proof.
  intros Hi H Hc Hb. destruct (suf_cons src i b t Hi H) as (_ & _ & _ & Hg).
  unfold fsm_step. cbn [s_index s_esc s_cand s_icstart s_eol s_row s_vals s_coff s_cstart s_count s_cvc s_col s_vfull s_vfc s_inds s_ifull].
  rewrite Hg. cbn [bind]. rewrite Hc. cbn [bind].
  destruct (wc && (0 <=? r)) eqn:E.
  - destruct (Hb eq_refl) as (Hb1 & Hb2). rewrite set_ok by lia. cbn [bind].
    destruct (cs + (k + 1) >=? cvc) eqn:E2; [apply Z.geb_le in E2; lia|]. reflexivity.
  - reflexivity.
Qed.

Hypothesis Hoffs : len offs = ncols + 1.

(* separator: ends the cell, moves to the next column *)
Lemma step_sep i e c r vfc k cs ic coff cvc inds vals t :
  0 <= i -> suf src i = SEP :: t -> nows t ->
  shape ncols w inds -> 0 <= c -> c + 1 < ncols -> -1 <= r -> r + 1 < w ->
  fsm_step src offs maxrow (mkSt i e c r vfc false false k cs ic false false coff cvc inds vals) =
  let inds1 := if 0 <=? r then put2 inds c (r + 1) (cs + k) else inds in
  Ok (mkSt (i + 1) e (c + 1) r vfc false false 0 (I2 inds1 (c + 1) (if r <? 0 then r + w else r)) (i + 1) false false
           (nthZ offs (c + 1)) (nthZ offs (c + 2) - nthZ offs (c + 1)) inds1 vals).
Proof.
  intros Hi H Hn Hsh Hc Hc1 Hr Hr1. destruct (suf_cons src i SEP t Hi H) as (_ & _ & _ & Hg).
  unfold fsm_step. cbn [s_index s_esc s_cand s_icstart s_eol s_row s_vals s_coff s_cstart s_count s_cvc s_col s_vfull s_vfc s_inds s_ifull].
  rewrite Hg. cbn [bind]. rewrite cl_sep. cbn [bind andb].
  assert (Hsh1 : shape ncols w (if 0 <=? r then put2 inds c (r + 1) (cs + k) else inds)).
  { destruct (0 <=? r); [apply shape_put2; [assumption|lia]|assumption]. }
  destruct (0 <=? r) eqn:Er.
  - apply Z.leb_le in Er. rewrite (set2_ok 4 ncols w) by (try assumption; lia). cbn [bind].
    rewrite !getZ_ok by lia. cbn [bind].
    rewrite (get2w_ok 7 ncols w) by (try assumption; unfold w in *; lia). cbn [bind].
    rewrite (skip_ws_stay _ i SEP t) by assumption. cbn [bind].
    replace (c + 1 + 1) with (c + 2) by lia. reflexivity.
  - cbn [bind]. rewrite !getZ_ok by lia. cbn [bind].
    rewrite (get2w_ok 7 ncols w) by (try assumption; unfold w in *; lia). cbn [bind].
    rewrite (skip_ws_stay _ i SEP t) by assumption. cbn [bind].
    replace (c + 1 + 1) with (c + 2) by lia. reflexivity.
Qed.

(* line break: ends the cell and the record *)
Lemma step_nl i e c r vfc k cs ic coff cvc inds vals t :
  0 <= i -> suf src i = NL :: t -> nows t ->
  shape ncols w inds -> 0 <= c < ncols -> -1 <= r -> r + 1 < w ->
  fsm_step src offs maxrow (mkSt i e c r vfc false false k cs ic false false coff cvc inds vals) =
  let inds1 := if 0 <=? r then put2 inds c (r + 1) (cs + k) else inds in
  Ok (mkSt (i + 1) i 0 (r + 1) vfc false false 0 (I2 inds1 0 (r + 1)) (i + 1) (if r + 1 =? maxrow then true else false) false
           (nthZ offs 0) (nthZ offs 1 - nthZ offs 0) inds1 vals).
Proof.
  intros Hi H Hn Hsh Hc Hr Hr1. destruct (suf_cons src i NL t Hi H) as (_ & _ & _ & Hg).
  unfold fsm_step. cbn [s_index s_esc s_cand s_icstart s_eol s_row s_vals s_coff s_cstart s_count s_cvc s_col s_vfull s_vfc s_inds s_ifull].
  rewrite Hg. cbn [bind]. rewrite cl_nl. cbn [bind andb].
  assert (Hsh1 : shape ncols w (if 0 <=? r then put2 inds c (r + 1) (cs + k) else inds)).
  { destruct (0 <=? r); [apply shape_put2; [assumption|lia]|assumption]. }
  assert (Hrw : (if r + 1 <? 0 then r + 1 + w else r + 1) = r + 1).
  { destruct (r + 1 <? 0) eqn:E; [apply Z.ltb_lt in E; lia|reflexivity]. }
  destruct (0 <=? r) eqn:Er.
  - apply Z.leb_le in Er. rewrite (set2_ok 4 ncols w) by (try assumption; lia). cbn [bind].
    rewrite !getZ_ok by lia. cbn [bind].
    rewrite (get2w_ok 7 ncols w) by (try assumption; unfold w in *; lia). cbn [bind].
    rewrite (skip_ws_stay _ i NL t) by assumption. cbn [bind]. rewrite Hrw.
    destruct (r + 1 =? maxrow); reflexivity.
  - cbn [bind]. rewrite !getZ_ok by lia. cbn [bind].
    rewrite (get2w_ok 7 ncols w) by (try assumption; unfold w in *; lia). cbn [bind].
    rewrite (skip_ws_stay _ i NL t) by assumption. cbn [bind]. rewrite Hrw.
    destruct (r + 1 =? maxrow); reflexivity.
Qed.

(* ---- runs -------------------------------------------------------------------------- *)
Definition noexit (s:st) : Prop := s_index s <> len src /\ s_ifull s = false /\ s_vfull s = false.

Inductive runn : nat -> st -> st -> Prop :=
| runn0 s : runn 0 s s
| runnS n s s1 s2 : fsm_step src offs maxrow s = Ok s1 -> noexit s1 -> runn n s1 s2 -> runn (S n) s s2.

Lemma runn_trans n m a b c : runn n a b -> runn m b c -> runn (n + m) a c.
Proof. induction 1; intros H2; cbn; [assumption|]. eapply runnS; eauto. Qed.

Lemma runn_one s s1 : fsm_step src offs maxrow s = Ok s1 -> noexit s1 -> runn 1 s s1.
Proof. intros. eapply runnS; eauto. constructor. Qed.

Lemma loop_runn n f s s1 : runn n s s1 -> fsm_loop (n + f) src offs maxrow s = fsm_loop f src offs maxrow s1.
Proof.
  induction 1 as [|n s s1 s2 Hst (Hi & Hf1 & Hf2) Hr IH]; [reflexivity|].
  cbn [Nat.add fsm_loop]. rewrite Hst. cbn [bind]. rewrite Hf1, Hf2.
  destruct (s_index s1 =? len src) eqn:E; [apply Z.eqb_eq in E; contradiction|]. cbn [orb]. exact IH.
Qed.

Lemma skip_ws_ge n : forall i j, skip_ws n src i = Ok j -> i <= j.
Proof.
  induction n as [|n IH]; intros i j H; cbn [skip_ws] in H.
  - destruct (i + 1 <? len src); [|inversion H; lia].
    destruct (get 8 src (i + 1)); cbn [bind] in H; try discriminate.
    destruct (a =? WS); [discriminate|inversion H; lia].
  - destruct (i + 1 <? len src); [|inversion H; lia].
    destruct (get 8 src (i + 1)); cbn [bind] in H; try discriminate.
    destruct (a =? WS); [apply IH in H; lia|inversion H; lia].
Qed.

Lemma step_index s s' : fsm_step src offs maxrow s = Ok s' -> s_index s < s_index s'.
Proof.
  unfold fsm_step. intros H.
  repeat match type of H with
  | bind ?x _ = Ok _ => let E := fresh "E" in destruct x eqn:E; cbn [bind] in H; try discriminate H
  | context[match ?p with pair _ _ => _ end] => destruct p
  | (if ?b then _ else _) = Ok _ => destruct b eqn:?
  end; inversion H; subst; cbn [s_index]; try lia;
  match goal with E : skip_ws _ _ _ = Ok _ |- _ => apply skip_ws_ge in E; lia end.
Qed.

Lemma runn_index n s s' : runn n s s' -> s_index s + Z.of_nat n <= s_index s'.
Proof.
  induction 1 as [|n s s1 s2 Hst Hne Hr IH]; [lia|]. apply step_index in Hst. lia.
Qed.

Definition out_of (s:st) : fout :=
  mkFout (s_eol s + 1) (s_row s) (s_ifull s) (s_vfull s) (s_vfc s) (s_inds s) (s_vals s) (s_esc s) (s_cand s).

Lemma loop_last f s s1 : fsm_step src offs maxrow s = Ok s1 -> s_index s1 = len src ->
  fsm_loop (S f) src offs maxrow s = Ok (out_of s1).
Proof. intros Hst Hi. cbn [fsm_loop]. rewrite Hst. cbn [bind]. rewrite Hi, Z.eqb_refl. reflexivity. Qed.

(* ---- one cell ------------------------------------------------------------------------ *)
Section Cell.
Variables (e c r vfc cs ic coff cvc : Z) (inds : arr2).
Let wr := 0 <=? r.
Definition S0 (i:Z) (esc cand:bool) (k:Z) (vals:list Z) : st :=
  mkSt i e c r vfc esc cand k cs ic false false coff cvc inds vals.

Definition fits (k:Z) (vals bs:list Z) : Prop :=
  wr = true -> 0 <= coff + cs + k /\ coff + cs + k + len bs <= len vals /\ cs + k + len bs < cvc.

Lemma noexit_S0 i esc cand k vals x t : 0 <= i -> suf src i = x :: t -> noexit (S0 i esc cand k vals).
Proof.
  intros Hi H. destruct (suf_cons src i x t Hi H) as (Hlt & _). unfold noexit, S0. cbn. repeat split; lia.
Qed.

Lemma run_plain bs : forall i k vals rest,
  0 <= i -> 0 <= k -> suf src i = bs ++ rest -> rest <> [] ->
  forallb (fun b => negb (special b)) bs = true -> fits k vals bs ->
  runn (length bs) (S0 i false false k vals)
       (S0 (i + len bs) false false (if wr then k + len bs else k) (if wr then wrs vals (coff + cs + k) bs else vals)).
Proof.
  induction bs as [|b bs IH]; intros i k vals rest Hi Hk H Hrest Hall Hfit.
  - rewrite len_nil, !Z.add_0_r. cbn [wrs]. destruct wr; constructor.
  - cbn [forallb] in Hall. apply andb_prop in Hall. destruct Hall as (Hb & Hall).
    apply negb_true_iff in Hb. cbn [app] in H.
    destruct (suf_cons src i b (bs ++ rest) Hi H) as (_ & _ & Hs & _).
    pose proof (len_nonneg bs) as Hlb. rewrite len_cons in *.
    eapply runnS.
    + apply (step_inner i e c r vfc false false k cs ic coff cvc inds vals b (bs ++ rest) true false false Hi H).
      * apply cl_plain. exact Hb.
      * cbn [andb]. fold wr. intros Hw. destruct (Hfit Hw) as (F1 & F2 & F3). rewrite len_cons in *. lia.
    + cbn [andb]. fold wr. destruct (bs ++ rest) as [|x t] eqn:E.
      { destruct bs; cbn in E; [contradiction|discriminate]. }
      eapply (noexit_S0 (i + 1)); [lia|exact Hs].
    + cbn [andb]. fold wr. fold (S0 (i + 1) false false (if wr then k + 1 else k) (if wr then upd vals (coff + cs + k) b else vals)).
      replace (i + (len bs + 1)) with ((i + 1) + len bs) by lia.
      destruct wr eqn:Ew.
      * replace (k + (len bs + 1)) with ((k + 1) + len bs) by lia. cbn [wrs].
        replace (coff + cs + k + 1) with (coff + cs + (k + 1)) by lia.
        apply (IH (i + 1) (k + 1) (upd vals (coff + cs + k) b) rest); try lia; try assumption.
        intros _. destruct (Hfit Ew) as (F1 & F2 & F3). rewrite len_cons in *. rewrite len_upd. lia.
      * apply (IH (i + 1) k vals rest); try lia; try assumption. intros Hw; congruence.
Qed.

Lemma run_qbody t : forall i k vals d rest,
  0 <= i -> 0 <= k -> suf src i = escape_quotes t ++ ESC :: d :: rest -> d = SEP \/ d = NL -> fits k vals t ->
  runn (length (escape_quotes t) + 1) (S0 i true false k vals)
       (S0 (i + len (escape_quotes t) + 1) false false (if wr then k + len t else k)
           (if wr then wrs vals (coff + cs + k) t else vals)).
Proof.
  induction t as [|b t IH]; intros i k vals d rest Hi Hk H Hd Hfit.
  - cbn [escape_quotes app length Nat.add] in *. rewrite len_nil, !Z.add_0_r. cbn [wrs].
    apply runn_one.
    + unfold S0. rewrite (step_inner i e c r vfc true false k cs ic coff cvc inds vals ESC (d :: rest) false false false Hi H).
      * cbn [andb]. destruct wr; reflexivity.
      * eapply cl_close; eauto.
      * cbn [andb]. discriminate.
    + destruct (suf_cons src i ESC (d :: rest) Hi H) as (_ & _ & Hs & _).
      destruct wr; eapply (noexit_S0 (i + 1)); try lia; exact Hs.
  - pose proof (len_nonneg t) as Hlt. pose proof (len_nonneg (escape_quotes t)) as Hle.
    cbn [escape_quotes] in *. destruct (b =? ESC) eqn:Eb.
    + (* doubled quote: two steps, one byte written *)
      apply Z.eqb_eq in Eb. subst b. cbn [app] in H.
      destruct (suf_cons src i ESC _ Hi H) as (_ & _ & Hs & _).
      destruct (suf_cons src (i + 1) ESC _ ltac:(lia) Hs) as (_ & _ & Hs2 & _).
      rewrite !len_cons. cbn [length].
      replace (S (S (length (escape_quotes t))) + 1)%nat with (1 + (1 + (length (escape_quotes t) + 1)))%nat by lia.
      eapply runn_trans; [|eapply runn_trans].
      * apply runn_one.
        -- apply (step_inner i e c r vfc true false k cs ic coff cvc inds vals ESC _ false true true Hi H).
           ++ eapply cl_q1; eauto.
           ++ cbn [andb]. discriminate.
        -- cbn [andb]. eapply (noexit_S0 (i + 1) true true k vals); [lia|exact Hs].
      * cbn [andb]. apply runn_one.
        -- apply (step_inner (i + 1) e c r vfc true true k cs ic coff cvc inds vals ESC _ true true false ltac:(lia) Hs).
           ++ apply cl_q2.
           ++ cbn [andb]. fold wr. intros Hw. destruct (Hfit Hw) as (F1 & F2 & F3). rewrite len_cons in *. lia.
        -- cbn [andb]. fold wr.
           destruct (escape_quotes t ++ ESC :: d :: rest) as [|x tt] eqn:E.
           { destruct (escape_quotes t); discriminate. }
           eapply (noexit_S0 (i + 1 + 1)); [lia|exact Hs2].
      * cbn [andb]. fold wr.
        fold (S0 (i + 1 + 1) true false (if wr then k + 1 else k) (if wr then upd vals (coff + cs + k) ESC else vals)).
        replace (i + (len (escape_quotes t) + 1 + 1) + 1) with ((i + 1 + 1) + len (escape_quotes t) + 1) by lia.
        destruct wr eqn:Ew.
        -- replace (k + (len t + 1)) with ((k + 1) + len t) by lia. cbn [wrs].
           replace (coff + cs + k + 1) with (coff + cs + (k + 1)) by lia.
           apply (IH (i + 1 + 1) (k + 1) (upd vals (coff + cs + k) ESC) d rest); try lia; try assumption.
           intros _. destruct (Hfit Ew) as (F1 & F2 & F3). rewrite len_cons in *. rewrite len_upd. lia.
        -- apply (IH (i + 1 + 1) k vals d rest); try lia; try assumption. intros Hw; congruence.
    + (* ordinary byte inside quotes *)
      apply Z.eqb_neq in Eb. cbn [app] in H.
      destruct (suf_cons src i b _ Hi H) as (_ & _ & Hs & _).
      rewrite !len_cons. cbn [length Nat.add].
      eapply runnS.
      * apply (step_inner i e c r vfc true false k cs ic coff cvc inds vals b _ true true false Hi H).
        -- apply cl_in. exact Eb.
        -- cbn [andb]. fold wr. intros Hw. destruct (Hfit Hw) as (F1 & F2 & F3). rewrite len_cons in *. lia.
      * cbn [andb]. fold wr.
        destruct (escape_quotes t ++ ESC :: d :: rest) as [|x tt] eqn:E.
        { destruct (escape_quotes t); discriminate. }
        eapply (noexit_S0 (i + 1)); [lia|exact Hs].
      * cbn [andb]. fold wr.
        fold (S0 (i + 1) true false (if wr then k + 1 else k) (if wr then upd vals (coff + cs + k) b else vals)).
        replace (i + (len (escape_quotes t) + 1) + 1) with ((i + 1) + len (escape_quotes t) + 1) by lia.
        destruct wr eqn:Ew.
        -- replace (k + (len t + 1)) with ((k + 1) + len t) by lia. cbn [wrs].
           replace (coff + cs + k + 1) with (coff + cs + (k + 1)) by lia.
           apply (IH (i + 1) (k + 1) (upd vals (coff + cs + k) b) d rest); try lia; try assumption.
           intros _. destruct (Hfit Ew) as (F1 & F2 & F3). rewrite len_cons in *. rewrite len_upd. lia.
        -- apply (IH (i + 1) k vals d rest); try lia; try assumption. intros Hw; congruence.
Qed.

End Cell.

End Kernel.
