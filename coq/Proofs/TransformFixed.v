(* Proofs/TransformFixed.v — fixed_string_transform: row i of the memory is the first N bytes of
   cell i, zero padded; FixedStringImporter over any chunking. *)
From Coq Require Import ZArith List Bool Lia ZifyBool.
From EV Require Import Res Arr Transform TransformSpec TransformBase TransformCat TransformLeaky.
Import ListNotations.
Open Scope Z_scope.

Lemma fs_copy_ok vals A B D :
  forall cs cp rest E, vals = A ++ (cp ++ cs ++ rest) ++ B -> (length cs <= length E)%nat ->
  fs_copy (length cs) (len A + len cp) (len D + len cp) vals (D ++ cp ++ E)
  = Ok (D ++ (cp ++ cs) ++ skipn (length cs) E).
Proof.
  induction cs as [|x cs IH]; intros cp rest E Hs Hl.
  - cbn [length fs_copy skipn]. rewrite app_nil_r. reflexivity.
  - cbn [length fs_copy].
    assert (G1 : get 61 vals (len A + len cp) = Ok x).
    { rewrite Hs. replace (A ++ (cp ++ (x :: cs) ++ rest) ++ B) with ((A ++ cp) ++ x :: (cs ++ rest ++ B))
        by (rewrite <- !app_assoc; reflexivity).
      rewrite <- len_app. apply get_app_mid. }
    rewrite G1. cbn [bind].
    destruct E as [|e E]; [cbn in Hl; lia|].
    assert (G2 : set 62 (D ++ cp ++ e :: E) (len D + len cp) x = Ok (D ++ (cp ++ [x]) ++ E)).
    { replace (D ++ cp ++ e :: E) with ((D ++ cp) ++ e :: E) by (rewrite <- app_assoc; reflexivity).
      rewrite <- len_app. rewrite set_app_mid. f_equal. rewrite <- !app_assoc. reflexivity. }
    rewrite G2. cbn [bind].
    replace (len A + len cp + 1) with (len A + len (cp ++ [x])) by (rewrite len_app; cbn; lia).
    replace (len D + len cp + 1) with (len D + len (cp ++ [x])) by (rewrite len_app; cbn; lia).
    rewrite (IH (cp ++ [x]) rest E).
    + cbn [skipn]. f_equal. rewrite <- !app_assoc. reflexivity.
    + rewrite Hs. rewrite <- !app_assoc. reflexivity.
    + cbn in Hl. lia.
Qed.

Lemma len_firstn_min {A} (n:Z) (l:list A) : 0 <= n -> len (firstn (Z.to_nat n) l) = Z.min n (len l).
Proof. intros H. unfold len. rewrite firstn_length. lia. Qed.

Lemma len_pad_to n l : 0 <= n -> len (pad_to n l) = n.
Proof.
  intros H. unfold pad_to. rewrite len_app, len_zeros; rewrite len_firstn_min by exact H; lia.
Qed.

Lemma zeros_add a b : 0 <= a -> 0 <= b -> zeros (a + b) = zeros a ++ zeros b.
Proof.
  intros Ha Hb. unfold zeros. rewrite <- repeat_app. f_equal. lia.
Qed.

Lemma len_concat_pad n (l:list (list Z)) : 0 <= n -> len (concat (map (pad_to n) l)) = len l * n.
Proof.
  intros H. induction l as [|x l IH]; cbn [map concat]; [reflexivity|].
  rewrite len_app, len_pad_to, IH, len_cons by exact H. lia.
Qed.

Lemma fs_rows_ok c strlen cells R :
  0 <= strlen -> rows_viewed c cells ->
  forall post pre, cells = pre ++ post ->
  fs_rows (length post) (len pre) c strlen (concat (map (pad_to strlen) pre) ++ zeros (len post * strlen) ++ R)
  = Ok (concat (map (pad_to strlen) cells) ++ R).
Proof.
  intros Hs Hrv. induction post as [|cell post IH]; intros pre Hc.
  - rewrite app_nil_r in Hc. subst pre. cbn [length fs_rows len Z.of_nat Z.mul zeros Z.to_nat repeat app]. reflexivity.
  - cbn [length fs_rows].
    destruct (Hrv pre cell post Hc) as [ks A B Hrow Hi0 Hi1 Hvals Hbase].
    rewrite Hi0, Hi1. cbn [bind].
    set (k := Z.min (len cell) strlen).
    pose proof (len_nonneg cell) as Hcl. pose proof (len_nonneg post) as Hpl.
    replace (Z.min (ks + len cell + c_off c) (ks + c_off c + strlen) - (ks + c_off c)) with k by (unfold k; lia).
    assert (Hcell : cell = firstn (Z.to_nat k) cell ++ skipn (Z.to_nat k) cell) by (symmetry; apply firstn_skipn).
    assert (Hkl : Z.to_nat k = length (firstn (Z.to_nat k) cell)).
    { rewrite firstn_length. unfold k, len in *. lia. }
    rewrite len_cons.
    replace ((len post + 1) * strlen) with (strlen + len post * strlen) by lia.
    rewrite zeros_add by lia.
    pose proof (fs_copy_ok (c_vals c) A B (concat (map (pad_to strlen) pre))
                  (firstn (Z.to_nat k) cell) [] (skipn (Z.to_nat k) cell)
                  (zeros strlen ++ zeros (len post * strlen) ++ R)) as HC.
    cbn [app len length Z.of_nat] in HC. rewrite !Z.add_0_r in HC.
    rewrite <- Hkl in HC. rewrite <- Hcell in HC.
    rewrite len_concat_pad in HC by exact Hs.
    replace (ks + c_off c) with (len A) by lia.
    replace (len pre * strlen) with (len pre * strlen) in HC by reflexivity.
    rewrite <- app_assoc.
    rewrite HC; [|exact Hvals|rewrite app_length; unfold zeros; rewrite repeat_length; unfold k, len in *; lia].
    cbn [bind].
    replace (len pre + 1) with (len (pre ++ [cell])) by (rewrite len_app; reflexivity).
    specialize (IH (pre ++ [cell])). rewrite <- app_assoc in IH. specialize (IH Hc).
    rewrite map_app, concat_app in IH. cbn [map concat] in IH. rewrite app_nil_r in IH.
    rewrite <- IH. f_equal. rewrite <- !app_assoc. f_equal.
    rewrite skipn_app. unfold pad_to.
    replace (firstn (Z.to_nat strlen) cell) with (firstn (Z.to_nat k) cell).
    2:{ unfold k. destruct (Z_le_gt_dec (len cell) strlen).
        - rewrite Z.min_l by lia. rewrite !firstn_all2 by (unfold len in *; lia). reflexivity.
        - rewrite Z.min_r by lia. reflexivity. }
    rewrite <- app_assoc. f_equal.
    rewrite skipn_zeros by exact Hs. rewrite len_firstn_min by (unfold k; lia).
    replace (Z.min k (len cell)) with k by (unfold k; lia).
    replace (strlen - Z.of_nat (Z.to_nat k)) with (strlen - k) by (unfold k; lia).
    f_equal.
    replace (Z.to_nat k - length (zeros strlen))%nat with O.
    + reflexivity.
    + unfold zeros. rewrite repeat_length. unfold k. lia.
Qed.

Lemma fixed_import_part_ok n data off slack tail cells :
  0 <= n -> 0 <= off ->
  fixed_import_part n data (mk_chunk off slack tail cells) = Ok (data ++ spec_fixed n cells).
Proof.
  intros Hn Ho. unfold fixed_import_part, fixed_string_transform. rewrite mk_chunk_rows.
  pose proof (fs_rows_ok (mk_chunk off slack tail cells) n cells [] Hn (rows_viewed_mk off slack tail cells Ho)
                cells [] eq_refl) as H.
  cbn [map concat app len length Z.of_nat] in H. rewrite !app_nil_r in H.
  replace (Z.to_nat (len cells)) with (length cells) by (unfold len; lia).
  fold (len cells) in H. rewrite H. reflexivity.
Qed.

(* fixed strings are the first N bytes (zero padded), whatever the chunking and buffer layout *)
Theorem fixed_string_is_firstn_proof n cc off slack tail :
  0 <= n -> 0 <= off ->
  fixed_import n (map (mk_chunk off slack tail) cc) = Ok (spec_fixed n (concat cc)).
Proof.
  intros Hn Ho. unfold fixed_import.
  assert (H : forall data, fold_res (fixed_import_part n) data (map (mk_chunk off slack tail) cc)
                           = Ok (data ++ spec_fixed n (concat cc))).
  { induction cc as [|cells cc IH]; intros data; cbn [map fold_res concat].
    - unfold spec_fixed. cbn. rewrite app_nil_r. reflexivity.
    - rewrite fixed_import_part_ok by assumption. cbn [bind]. rewrite IH.
      unfold spec_fixed. rewrite map_app, concat_app, app_assoc. reflexivity. }
  apply H.
Qed.
