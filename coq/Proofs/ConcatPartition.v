(* Proofs/ConcatPartition.v — C16, whole-column corollaries of the specification: when the
   boundary array is a partition of the rows (non-decreasing, first 0, last #rows), the output
   entries parsed back as CSV lines and laid end to end are exactly the non-empty strings of
   the column, in order: nothing is lost, duplicated or moved between spans.  Also: one entry
   per span. *)
From Coq Require Import ZArith List Bool Lia.
From EV Require Import Arr ConcatSpec ConcatCsv.
Import ListNotations.
Open Scope Z_scope.

Lemma firstn_app_skipn {A} (n k:nat) (m:list A) :
  firstn n m ++ firstn k (skipn n m) = firstn (n + k) m.
Proof.
  revert m; induction n as [|n IH]; intros m; [reflexivity|].
  destruct m as [|x m]; cbn [firstn skipn Nat.add app].
  - now rewrite !firstn_nil.
  - now rewrite IH.
Qed.

Lemma skipn_skipn_add {A} (a b:nat) (l:list A) : skipn b (skipn a l) = skipn (a + b) l.
Proof.
  revert l; induction a as [|a IH]; intros l; [reflexivity|].
  destruct l as [|x l]; cbn [skipn Nat.add]; [now rewrite skipn_nil|apply IH].
Qed.

Lemma slice_app {A} (l:list A) a b c : 0 <= a -> a <= b -> b <= c ->
  slice l a b ++ slice l b c = slice l a c.
Proof.
  intros Ha Hab Hbc. unfold slice.
  replace (Z.to_nat b) with (Z.to_nat a + Z.to_nat (b - a))%nat by lia.
  rewrite <- skipn_skipn_add, firstn_app_skipn. f_equal. lia.
Qed.

Lemma last_cons_default {A} (x:A) l d1 d2 : last (x :: l) d1 = last (x :: l) d2.
Proof.
  revert x; induction l as [|y l IH]; intros x; [reflexivity|].
  change (last (x :: y :: l) d1) with (last (y :: l) d1).
  change (last (x :: y :: l) d2) with (last (y :: l) d2). apply IH.
Qed.

Lemma sortedb_cons2 a b t : sortedb (a :: b :: t) = true -> a <= b /\ sortedb (b :: t) = true.
Proof.
  change (sortedb (a :: b :: t)) with ((a <=? b) && sortedb (b :: t)).
  intros H. apply andb_true_iff in H. destruct H as [H1 H2]. split; [lia|exact H2].
Qed.

Lemma sortedb_le_last t : forall a, sortedb (a :: t) = true -> a <= last (a :: t) a.
Proof.
  induction t as [|b t IH]; intros a H; [cbn; lia|].
  apply sortedb_cons2 in H. destruct H as [Hab Hs].
  change (last (a :: b :: t) a) with (last (b :: t) a).
  rewrite (last_cons_default b t a b). specialize (IH b Hs). lia.
Qed.

(* the spans of a non-decreasing boundary array tile the rows between its first and last entry *)
Lemma spans_tile {A} (strs:list A) t : forall a, sortedb (a :: t) = true -> 0 <= a ->
  concat (map (fun p => slice strs (fst p) (snd p)) (adjacent_pairs (a :: t)))
  = slice strs a (last (a :: t) a).
Proof.
  induction t as [|b t IH]; intros a H Ha.
  - cbn [adjacent_pairs map concat last]. unfold slice. now rewrite Z.sub_diag.
  - apply sortedb_cons2 in H. destruct H as [Hab Hs].
    change (adjacent_pairs (a :: b :: t)) with ((a, b) :: adjacent_pairs (b :: t)).
    cbn [map concat fst snd]. rewrite (IH b Hs) by lia.
    change (last (a :: b :: t) a) with (last (b :: t) a).
    rewrite (last_cons_default b t a b).
    apply slice_app; [lia|lia|apply sortedb_le_last; exact Hs].
Qed.

Lemma concat_map_filter {A B} (f:B -> bool) (g:A -> list B) l :
  concat (map (fun p => filter f (g p)) l) = filter f (concat (map g l)).
Proof.
  induction l as [|x l IH]; [reflexivity|].
  cbn [map concat]. now rewrite filter_app, IH.
Qed.

Definition is_partition (spans:list Z) (n:Z) : Prop :=
  sortedb spans = true /\ hd 0 spans = 0 /\ last spans 0 = n.

Theorem concat_partition_complete_proof strs spans :
  is_partition spans (len strs) ->
  concat (map csv_parse_line (concat_spec spans strs)) = filter nonempty strs.
Proof.
  intros (Hs & Hh & Hl). unfold concat_spec. rewrite map_map.
  rewrite (map_ext _ (fun p => filter nonempty (span_strs strs p)))
    by (intros p; apply concat_entry_parses_back_proof).
  rewrite concat_map_filter. f_equal.
  destruct spans as [|a t].
  - cbn in Hl. cbn [adjacent_pairs map concat].
    destruct strs as [|s strs]; [reflexivity|]. rewrite len_cons in Hl.
    pose proof (len_nonneg strs). lia.
  - cbn [hd] in Hh. subst a. unfold span_strs.
    rewrite (spans_tile strs t 0 Hs) by lia.
    rewrite Hl. apply slice_full.
Qed.

(* one output entry per span *)
Theorem concat_entry_count_proof strs spans :
  length (concat_spec spans strs) = pred (length spans).
Proof.
  unfold concat_spec. rewrite map_length.
  induction spans as [|a t IH]; [reflexivity|].
  destruct t as [|b t]; [reflexivity|].
  change (adjacent_pairs (a :: b :: t)) with ((a, b) :: adjacent_pairs (b :: t)).
  cbn [length pred] in *. now rewrite IH.
Qed.
