(* Proofs/SessionMergeTop.v — Session.ordered_merge_left / ordered_merge_right (C19):
   every argument form returns the payload columns of the relational left join. *)
From Coq Require Import ZArith List Lia Bool ZifyBool.
From EV Require Import Res Arr Join JoinSpec JoinBase JoinIface JoinRows JoinDriver JoinMain
  MapStream MapStreamSpec MapHelpers MapStreamFixed SessionMerge SessionMergeSpec SessionMergeBase SessionMergeLeft.
Import ListNotations.
Open Scope Z_scope.

(* ------------------------------------------------------------------ mapM *)
Lemma mapM_ok {A B} (f:A -> res B) (g:A -> B) : forall l,
  (forall x, In x l -> f x = Ok (g x)) -> mapM f l = Ok (map g l).
Proof.
  induction l as [|x t IH]; intros H; cbn [mapM map]; [reflexivity|].
  rewrite (H x (or_introl eq_refl)). cbn [bind]. rewrite IH by (intros y Hy; apply H; right; exact Hy).
  reflexivity.
Qed.

Lemma mapM_map {A B C} (f:B -> res C) (h:A -> B) : forall l, mapM f (map h l) = mapM (fun x => f (h x)) l.
Proof. induction l as [|x t IH]; cbn [mapM map]; [reflexivity|]. rewrite IH. reflexivity. Qed.

Lemma combine_const {A B} (z:B) : forall (l:list A), combine l (map (fun _ => z) l) = map (fun s => (s, z)) l.
Proof. induction l as [|x t IH]; cbn [combine map]; [reflexivity|]. rewrite IH. reflexivity. Qed.

Lemma repeat_as_map {A B} (z:A) : forall (m:list B), repeat z (length m) = map (fun _ => z) m.
Proof. induction m as [|x t IH]; cbn [repeat length map]; [reflexivity|]. rewrite IH. reflexivity. Qed.

(* the payload columns a call produced: the returned tuple, or else the content of the sinks *)
Definition oml_payloads (o:oml_out) : option (list (list Z)) :=
  match oml_ret o with Some l => Some l | None => oml_sinks o end.

Definition streamable (ver:version) (fm:form) (mk:mapk) : bool :=
  match fm, mk, ver with
  | FFldSink, MFld, _ => true
  | FFldSink, MArr, Orig => true
  | _, _, _ => false
  end.

Definition zero_sinks (L:list Z) (srcs:list (list Z)) : list (list Z) :=
  map (fun _ => repeat 0 (length L)) srcs.

Section OML.
Variables (L R:list Z) (srcs:list (list Z)) (lu:bool).
Hypothesis Hsrcs : srcs <> [].
Hypothesis HL : sorted L.
Hypothesis HLu : lu = true -> ssorted L.
Hypothesis HR : ssorted R.
Hypothesis Hbig : len R <= INVALID_INDEX.              (* INVALID_INDEX = 2^62 is not a row number *)
Hypothesis Hlen : forall s, In s srcs -> len s = len R.   (* payload columns of the right table *)

Let inv := INVALID_INDEX.
Let jm := map snd (left_join inv L R).
Let expected_cols := map (left_payload 0 L R) srcs.

Lemma srcs_match {T} (X Y:T) : match srcs with [] => X | _ :: _ => Y end = Y.
Proof. destruct srcs; [congruence|reflexivity]. Qed.

Lemma Hninv : ~ (0 <= inv < len R).
Proof. unfold inv. lia. Qed.

Lemma jm_len : length jm = length L.
Proof.
  pose proof (len_left_join_unique inv L R HR) as H. unfold len in H. fold jm in H. lia.
Qed.

Lemma map_valid_col s : In s srcs -> map_valid 0 s jm inv = Ok (left_payload 0 L R s).
Proof.
  intros Hs. rewrite (@map_valid_correct_gen Z 0 s inv jm).
  - unfold jm. rewrite (map_spec_left_payload 0 s inv L R Hninv). reflexivity.
  - unfold jm. apply join_map_in_range. rewrite (Hlen s Hs). lia.
Qed.

Lemma map_valid_into_zero s : In s srcs ->
  map_valid_into s jm (repeat 0 (length L)) inv = Ok (left_payload 0 L R s).
Proof.
  intros Hs. unfold map_valid_into. rewrite <- jm_len, repeat_as_map.
  exact (map_valid_col s Hs).
Qed.

(* ---- every in-memory form (anything but field sinks + field map) ---- *)
Theorem oml_inmemory_correct ver cs fm sinks0 mk :
  streamable ver fm mk = false ->
  (fm = FArrSink -> sinks0 = zero_sinks L srcs) ->
  exists o, ordered_merge_left ver cs L R srcs fm sinks0 mk lu true = Ok o /\
            oml_payloads o = Some expected_cols /\
            (oml_ret o = Some expected_cols <-> (fm = FArr \/ fm = FFld)).
Proof.
  intros Hst Hz. unfold ordered_merge_left. rewrite srcs_match.
  cbn [negb]. fold (streamable ver fm mk). rewrite Hst.
  destruct (gen_left_map_correct lu L R inv HL HLu HR (repeat 0 (length L))) as (u & Eg).
  { unfold len. rewrite repeat_length. reflexivity. }
  fold inv. rewrite Eg. cbn [bind]. fold jm.
  unfold map_fields.
  destruct fm.
  - rewrite (mapM_ok _ (left_payload 0 L R) srcs map_valid_col). cbn [bind].
    eexists. split; [reflexivity|]. unfold oml_payloads. cbn [oml_ret oml_sinks].
    split; [reflexivity|]. split; [intros _; left; reflexivity|reflexivity].
  - rewrite (Hz eq_refl). unfold zero_sinks. rewrite combine_const, mapM_map. cbn [fst snd].
    rewrite (mapM_ok _ (left_payload 0 L R) srcs map_valid_into_zero). cbn [bind].
    eexists. split; [reflexivity|]. unfold oml_payloads. cbn [oml_ret oml_sinks].
    split; [reflexivity|]. split; [discriminate|intros [H|H]; discriminate].
  - rewrite (mapM_ok _ (left_payload 0 L R) srcs map_valid_col). cbn [bind].
    eexists. split; [reflexivity|]. unfold oml_payloads. cbn [oml_ret oml_sinks].
    split; [reflexivity|]. split; [intros _; right; reflexivity|reflexivity].
  - rewrite (mapM_ok _ (left_payload 0 L R) srcs map_valid_col). cbn [bind].
    eexists. split; [reflexivity|]. unfold oml_payloads. cbn [oml_ret oml_sinks].
    split; [reflexivity|]. split; [discriminate|intros [H|H]; discriminate].
Qed.

(* ---- the streamed form (repaired code): field keys, payloads, sinks and map ---- *)
Lemma stream_col cs s : 1 <= cs -> In s srcs ->
  ordered_map_valid_stream 0 0 (S (length jm)) Fixed s jm inv cs = Ok (left_payload 0 L R s).
Proof.
  intros Hcs Hs. rewrite (@map_stream_correct_gen Z 0 0 s inv jm cs (S (length jm)) Hcs).
  - unfold jm. rewrite (map_spec_left_payload 0 s inv L R Hninv). reflexivity.
  - unfold jm. apply join_map_valid; [exact HL|exact HR|]. rewrite (Hlen s Hs). lia.
  - lia.
Qed.

(* given that the streamed generator selected by the flags returns the join map ... *)
Lemma oml_streamed_from_map cs :
  1 <= cs ->
  streamed (mkvar (if lu then KBU else KRU) true) L R inv cs = Ok ([], jm) ->
  ordered_merge_left Fixed cs L R srcs FFldSink [] MFld lu true
  = Ok (mk_oml None (Some expected_cols) (Some jm)).
Proof.
  intros Hcs Hm. unfold ordered_merge_left. rewrite srcs_match.
  cbn [negb]. fold inv. rewrite Hm. cbn [bind]. unfold streaming_map_fields.
  rewrite (mapM_ok _ (left_payload 0 L R) srcs (fun s => stream_col cs s Hcs)). cbn [bind]. reflexivity.
Qed.

Lemma expected_left k : v_writes_l (mkvar k true) = false -> expected k true inv L R = ([], jm).
Proof. intros H. rewrite expected_eq, H. reflexivity. Qed.

(* both keys unique: full, every chunk size *)
Theorem oml_streamed_both_unique_correct cs :
  lu = true -> 1 <= cs ->
  ordered_merge_left Fixed cs L R srcs FFldSink [] MFld lu true
  = Ok (mk_oml None (Some expected_cols) (Some jm)).
Proof.
  intros Hlu Hcs. apply oml_streamed_from_map; [exact Hcs|]. rewrite Hlu.
  rewrite (streamed_both_unique_correct true L R inv cs Hcs (HLu Hlu) HR).
  rewrite expected_left by reflexivity. reflexivity.
Qed.

(* right key unique, left key with duplicates: relative to the C03 theorem for the right-unique
   streamed generator (kind KRU), which is proved on another branch (Proofs/JoinRU.v) *)
Theorem oml_streamed_right_unique_partial cs :
  lu = false -> 1 <= cs ->
  streamed (mkvar KRU true) L R inv cs = Ok (expected KRU true inv L R) ->
  ordered_merge_left Fixed cs L R srcs FFldSink [] MFld lu true
  = Ok (mk_oml None (Some expected_cols) (Some jm)).
Proof.
  intros Hlu Hcs Hk. apply oml_streamed_from_map; [exact Hcs|]. rewrite Hlu, Hk.
  rewrite expected_left by reflexivity. reflexivity.
Qed.

(* the only other outcome of the generic driver theorem: the documented clear error *)
Theorem oml_streamed_right_unique_error cs :
  lu = false -> streamed (mkvar KRU true) L R inv cs = Raise E_ValueError ->
  ordered_merge_left Fixed cs L R srcs FFldSink [] MFld lu true = Raise E_ValueError.
Proof.
  intros Hlu Hk. unfold ordered_merge_left. rewrite srcs_match.
  cbn [negb]. fold inv. rewrite Hlu, Hk. reflexivity.
Qed.

(* the array, field and streamed forms of the same call return the same payload values *)
Theorem oml_forms_agree ver1 cs1 fm1 sinks1 mk1 ver2 cs2 fm2 sinks2 mk2 :
  streamable ver1 fm1 mk1 = false -> (fm1 = FArrSink -> sinks1 = zero_sinks L srcs) ->
  streamable ver2 fm2 mk2 = false -> (fm2 = FArrSink -> sinks2 = zero_sinks L srcs) ->
  exists o1 o2, ordered_merge_left ver1 cs1 L R srcs fm1 sinks1 mk1 lu true = Ok o1 /\
                ordered_merge_left ver2 cs2 L R srcs fm2 sinks2 mk2 lu true = Ok o2 /\
                oml_payloads o1 = oml_payloads o2.
Proof.
  intros H1 Z1 H2 Z2.
  destruct (oml_inmemory_correct ver1 cs1 fm1 sinks1 mk1 H1 Z1) as (o1 & E1 & P1 & _).
  destruct (oml_inmemory_correct ver2 cs2 fm2 sinks2 mk2 H2 Z2) as (o2 & E2 & P2 & _).
  exists o1, o2. rewrite P1, P2. auto.
Qed.

Theorem oml_streamed_agrees_both_unique ver cs0 fm sinks0 mk cs :
  lu = true -> 1 <= cs ->
  streamable ver fm mk = false -> (fm = FArrSink -> sinks0 = zero_sinks L srcs) ->
  exists o1 o2, ordered_merge_left ver cs0 L R srcs fm sinks0 mk lu true = Ok o1 /\
                ordered_merge_left Fixed cs L R srcs FFldSink [] MFld lu true = Ok o2 /\
                oml_payloads o1 = oml_payloads o2.
Proof.
  intros Hlu Hcs H1 Z1.
  destruct (oml_inmemory_correct ver cs0 fm sinks0 mk H1 Z1) as (o1 & E1 & P1 & _).
  exists o1, (mk_oml None (Some expected_cols) (Some jm)).
  rewrite (oml_streamed_both_unique_correct cs Hlu Hcs), P1. auto.
Qed.

End OML.

(* row-by-row reading (the property text): row r holds the payload of THE right row with
   the same key, the empty value 0 when there is none *)
Theorem left_payload_rows (L R s:list Z) r : ssorted R -> 0 <= r < len L ->
  len (left_payload 0 L R s) = len L /\
  ((exists j, 0 <= j < len R /\ nthZ R j = nthZ L r /\ nthZ (left_payload 0 L R s) r = nthZ s j) \/
   ((forall j, 0 <= j < len R -> nthZ R j <> nthZ L r) /\ nthZ (left_payload 0 L R s) r = 0)).
Proof.
  intros HR Hr. rewrite (left_payload_unique 0 L R s HR). rewrite len_map. split; [reflexivity|].
  assert (Hrow : nthZ (map (fun key => pick 0 s (look R key)) L) r = pick 0 s (look R (nthZ L r)))
    by (unfold nthZ; exact (nthd_map (fun key => pick 0 s (look R key)) 0 0 L r Hr)).
  rewrite Hrow. pose proof (look_spec R (nthZ L r) HR) as Hl.
  destruct (look R (nthZ L r)) as [j|]; cbn [pick].
  - left. exists j. destruct Hl as (Hj & Hk & _). repeat split; try lia; try assumption.
  - right. split; [exact (proj1 Hl)|reflexivity].
Qed.


(* ------------------------------------------------------------------ the code as found *)
(* F-C19a, Session level, a chunk size larger than both inputs (as in production): the streamed
   form loses the unmatched tail *)
Lemma oml_streamed_orig_witness :
  ordered_merge_left Orig 8 [0;2;3;4] [1;2] [[101;102]] FFldSink [] MFld false true
  = Ok (mk_oml None (Some [[0;102]]) (Some [INVALID_INDEX; 1])) /\
  map (left_payload 0 [0;2;3;4] [1;2]) [[101;102]] = [[0;102;0;0]].
Proof. split; vm_compute; reflexivity. Qed.

(* F-C19a, a run of equal left keys split by a chunk end loses its match *)
Lemma streamed_old_split_witness :
  streamed_old [1;1;1;2] [1;2] INVALID_INDEX 1 = Ok ([0; INVALID_INDEX; INVALID_INDEX; 1], true) /\
  map snd (left_join INVALID_INDEX [1;1;1;2] [1;2]) = [0;0;0;1].
Proof. split; vm_compute; reflexivity. Qed.

Lemma streamed_old_tail_witness :
  streamed_old [0;2;3;4] [1;2] INVALID_INDEX 8 = Ok ([INVALID_INDEX; 1], true) /\
  map snd (left_join INVALID_INDEX [0;2;3;4] [1;2]) = [INVALID_INDEX; 1; INVALID_INDEX; INVALID_INDEX].
Proof. split; vm_compute; reflexivity. Qed.

(* F-C19b *)
Lemma streamed_old_empty_witness :
  streamed_old [1;2] [] INVALID_INDEX 8 = Raise E_StopIteration /\
  map_stream_old [] [INVALID_INDEX] INVALID_INDEX 8 = Raise E_StopIteration /\
  map_stream_old [5] [] INVALID_INDEX 8 = Raise E_StopIteration.
Proof. repeat split; vm_compute; reflexivity. Qed.

(* F-C19c *)
Lemma oml_streamable_orig_witness :
  ordered_merge_left Orig 8 [0;1] [0;2] [[101;102]] FFldSink [] MFld true true = Raise E_ValueError /\
  ordered_merge_left Orig 8 [0;1] [0;2] [[101;102]] FFldSink [] MArr false true = Raise E_ValueError /\
  ordered_merge_left Fixed 8 [0;1] [0;2] [[101;102]] FFldSink [] MFld true true
    = Ok (mk_oml None (Some [[101;0]]) (Some [0; INVALID_INDEX])) /\
  ordered_merge_left Fixed 8 [0;1] [0;2] [[101;102]] FFldSink [] MArr false true
    = Ok (mk_oml None (Some [[101;0]]) None).
Proof. repeat split; vm_compute; reflexivity. Qed.

(* ------------------------------------------------------------------ wrappers used by Props/C19.v *)
Lemma omr_inmemory_correct : forall left_on right_on srcs left_unique,
  srcs <> [] -> sorted right_on -> (true = true -> ssorted right_on) -> ssorted left_on ->
  len left_on <= INVALID_INDEX -> (forall s, In s srcs -> len s = len left_on) ->
  forall ver cs fm sinks0 mk,
  streamable ver fm mk = false -> (fm = FArrSink -> sinks0 = zero_sinks right_on srcs) ->
  left_unique = true ->
  exists o, ordered_merge_right ver cs left_on right_on srcs fm sinks0 mk left_unique true = Ok o /\
            oml_payloads o = Some (map (left_payload 0 right_on left_on) srcs).
Proof.
  intros lo ro srcs lu H1 H2 H3 H4 H5 H6 ver cs fm sinks0 mk H7 H8 ->.
  destruct (oml_inmemory_correct ro lo srcs true H1 H2 H3 H4 H5 H6 ver cs fm sinks0 mk H7 H8) as (o & E & P & _).
  exists o. split; [exact E|exact P].
Qed.

Lemma streamed_old_refuted_lemma :
  exists L R cs, sorted L /\ ssorted R /\ 1 <= cs /\ len L < cs /\
    forall m u, streamed_old L R INVALID_INDEX cs = Ok (m, u) -> m <> map snd (left_join INVALID_INDEX L R).
Proof.
  exists [0;2;3;4], [1;2], 8.
  split; [apply sortedb_sorted; reflexivity|]. split; [apply ssortedb_ssorted; reflexivity|].
  split; [lia|]. split; [reflexivity|].
  intros m u H. rewrite (proj1 streamed_old_tail_witness) in H. injection H as <- _.
  rewrite (proj2 streamed_old_tail_witness). discriminate.
Qed.
