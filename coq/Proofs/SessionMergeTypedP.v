(* Proofs/SessionMergeTypedP.v — typed payloads and histories of Session.ordered_merge_left (C19).

   Every payload is handled on its own: whatever the dtypes of the other payloads of the same call, of the other
   sinks, and whatever calls came before, the column a sink receives is the left-join payload of ITS source, in the
   dtype the argument form prescribes — provided the sink's dtype can hold the source's values (same dtype, or an
   integer/bool source into an integer sink that is wide enough). *)
From Coq Require Import ZArith List Lia Bool ZifyBool.
From EV Require Import Res Arr Join JoinSpec JoinBase JoinIface JoinDriver JoinMain JoinRU JoinMainKRU
  MapStream SessionMerge SessionMergeSpec SessionMergeTop SessionMergeStream SessionMergeTyped.
Import ListNotations.
Open Scope Z_scope.

(* ------------------------------------------------------------------ casts that keep the value *)
Lemma dtype_eqb_refl a : dtype_eqb a a = true.
Proof. destruct a; cbn [dtype_eqb]; try reflexivity; apply Z.eqb_refl. Qed.

Lemma cast_same a v : cast a a v = Some v.
Proof. unfold cast. rewrite dtype_eqb_refl. reflexivity. Qed.

Definition int_like (a:dtype) : bool := match a with DFloat _ | DBytes _ => false | _ => true end.

(* v is a value of dtype b *)
Definition fits (b:dtype) (v:Z) : Prop :=
  match b with
  | DBool => v = 0 \/ v = 1
  | DInt n => 1 <= n /\ - 2 ^ (n - 1) <= v < 2 ^ (n - 1)
  | DUInt n => 0 <= n /\ 0 <= v < 2 ^ n
  | DFloat _ | DBytes _ => False
  end.

Lemma wrap_s_fits n v : 1 <= n -> - 2 ^ (n - 1) <= v < 2 ^ (n - 1) -> wrap_s n v = v.
Proof.
  intros Hn Hv. unfold wrap_s.
  assert (E : 2 ^ n = 2 * 2 ^ (n - 1)).
  { replace n with (Z.succ (n - 1)) at 1 by lia. rewrite Z.pow_succ_r by lia. reflexivity. }
  rewrite Z.mod_small by lia. lia.
Qed.

Lemma wrap_u_fits n v : 0 <= v < 2 ^ n -> wrap_u n v = v.
Proof. intros Hv. unfold wrap_u. apply Z.mod_small. exact Hv. Qed.

Lemma cast_fits a b v : int_like a = true -> fits b v -> cast a b v = Some v.
Proof.
  intros Ha Hf. unfold cast. destruct (dtype_eqb a b) eqn:E; [reflexivity|].
  destruct b as [|n|n|n|n]; cbn [fits] in Hf.
  - destruct a as [|m|m|m|m]; cbn [dtype_eqb int_like] in *; try discriminate;
      (destruct Hf as [-> | ->]; reflexivity).
  - destruct Hf as (Hn & Hv).
    destruct a; cbn [int_like] in Ha; try discriminate; rewrite (wrap_s_fits n v Hn Hv); reflexivity.
  - destruct Hf as (Hn & Hv).
    destruct a; cbn [int_like] in Ha; try discriminate; rewrite (wrap_u_fits n v Hv); reflexivity.
  - contradiction.
  - contradiction.
Qed.

(* the column l of dtype a is stored unchanged in an array of dtype b *)
Definition preserved (a b:dtype) (l:list Z) : Prop :=
  dtype_eqb a b = true \/ (int_like a = true /\ Forall (fits b) l).

Lemma cast_col_preserved a b l : preserved a b l -> cast_col a b l = Ok l.
Proof.
  intros H. unfold cast_col. rewrite <- (map_id l) at 2. apply mapM_ok. intros v Hv.
  destruct H as [E | (Ha & Hf)].
  - unfold cast. rewrite E. reflexivity.
  - rewrite (cast_fits a b v Ha); [reflexivity|]. rewrite Forall_forall in Hf. exact (Hf v Hv).
Qed.

Definition well_staged (srcs:list tcol) (dts:list dtype) : Prop :=
  Forall2 (fun s d => preserved (fst s) d (snd s)) srcs dts.

Lemma staged_cols srcs dts : well_staged srcs dts ->
  mapM (fun p : dtype * list Z * dtype => cast_col (fst (fst p)) (snd p) (snd (fst p))) (combine srcs dts) = Ok (map snd srcs).
Proof.
  intros H. induction H as [|s d srcs dts Hsd _ IH]; cbn [combine mapM map]; [reflexivity|].
  cbn [fst snd]. rewrite (cast_col_preserved _ _ _ Hsd). cbn [bind]. rewrite IH. reflexivity.
Qed.

Lemma well_staged_same srcs : well_staged srcs (map fst srcs).
Proof.
  induction srcs as [|s t IH]; cbn [map]; constructor; [|exact IH].
  left. apply dtype_eqb_refl.
Qed.

(* ------------------------------------------------------------------ the dtypes the caller observes *)
Lemma out_dtypes_nosinks st fm bk srcs snk_dts : has_sinks fm = false ->
  out_dtypes st fm bk srcs snk_dts = Ok (map fst srcs).
Proof. intros H. unfold out_dtypes. rewrite H. reflexivity. Qed.

Lemma out_dtypes_streamed bk : forall srcs snk_dts, length snk_dts = length srcs ->
  out_dtypes true FFldSink bk srcs snk_dts = Ok snk_dts.
Proof.
  unfold out_dtypes. cbn [has_sinks].
  induction srcs as [|s t IH]; intros [|d ds] Hl; cbn [length] in Hl; try discriminate; cbn [combine mapM]; [reflexivity|].
  cbn [fst snd staged_dtype bind]. rewrite IH by lia. reflexivity.
Qed.

(* ------------------------------------------------------------------ the typed call is the untyped call, tagged *)
Theorem oml_t_reduces cs L R srcs fm snk_dts sinks0 mk lu ru bk dts :
  (has_sinks fm = true -> length snk_dts = length srcs) ->
  out_dtypes (is_streamed fm mk) fm bk srcs snk_dts = Ok dts ->
  well_staged srcs dts ->
  ordered_merge_left_t cs L R srcs fm snk_dts sinks0 mk lu ru bk =
  (do o <- ordered_merge_left Fixed cs L R (map snd srcs) fm sinks0 mk lu ru;
   Ok (mk_toml (tag dts (oml_ret o)) (tag dts (oml_sinks o)) (oml_map o))).
Proof.
  intros Hl Hd Hw. unfold ordered_merge_left_t.
  assert (E : has_sinks fm && negb (len srcs =? len snk_dts) = false).
  { destruct (has_sinks fm) eqn:Hs; [|reflexivity]. cbn [andb]. unfold len. rewrite (Hl eq_refl).
    rewrite Z.eqb_refl. reflexivity. }
  rewrite E, Hd. cbn [bind]. rewrite (staged_cols srcs dts Hw). cbn [bind]. reflexivity.
Qed.

Definition toml_payloads (o:toml_out) : option (list tcol) :=
  match toml_ret o with Some l => Some l | None => toml_sinks o end.

Definition expected_t (dts:list dtype) (L R:list Z) (srcs:list tcol) : list tcol :=
  combine dts (map (left_payload 0 L R) (map snd srcs)).

Section Typed.
Variables (L R:list Z) (srcs:list tcol) (lu:bool).
Hypothesis Hsrcs : srcs <> [].
Hypothesis HL : sorted L.
Hypothesis HLu : lu = true -> ssorted L.
Hypothesis HR : ssorted R.
Hypothesis Hbig : len R <= INVALID_INDEX.
Hypothesis Hlen : forall s, In s srcs -> len (snd s) = len R.

Lemma vals_nonempty : map snd srcs <> [].
Proof. destruct srcs; [congruence|discriminate]. Qed.

Lemma vals_len : forall c, In c (map snd srcs) -> len c = len R.
Proof. intros c Hc. apply in_map_iff in Hc. destruct Hc as (s & <- & Hs). exact (Hlen s Hs). Qed.

(* every in-memory form *)
Theorem oml_t_inmemory_correct cs fm snk_dts sinks0 mk bk dts :
  is_streamed fm mk = false ->
  (has_sinks fm = true -> length snk_dts = length srcs) ->
  (fm = FArrSink -> sinks0 = zero_sinks L (map snd srcs)) ->
  out_dtypes false fm bk srcs snk_dts = Ok dts ->
  well_staged srcs dts ->
  exists o, ordered_merge_left_t cs L R srcs fm snk_dts sinks0 mk lu true bk = Ok o /\
            toml_payloads o = Some (expected_t dts L R srcs).
Proof.
  intros Hst Hl Hz Hd Hw.
  rewrite (oml_t_reduces cs L R srcs fm snk_dts sinks0 mk lu true bk dts Hl) by (try rewrite Hst; assumption).
  assert (Hst' : streamable Fixed fm mk = false).
  { unfold is_streamed in Hst. unfold streamable. destruct fm, mk; try reflexivity; discriminate. }
  destruct (oml_inmemory_correct L R (map snd srcs) lu vals_nonempty HL HLu HR Hbig vals_len Fixed cs fm sinks0 mk Hst' Hz)
    as (o & E & P & _).
  rewrite E. cbn [bind]. eexists. split; [reflexivity|].
  unfold toml_payloads, oml_payloads in *. cbn [toml_ret toml_sinks]. unfold expected_t.
  destruct (oml_ret o) as [l|]; cbn [tag].
  - injection P as ->. reflexivity.
  - rewrite P. reflexivity.
Qed.

(* the streamed form: every chunk size; a left key with duplicates must not hold a run as long as a chunk *)
Theorem oml_t_streamed_correct cs snk_dts bk :
  1 <= cs -> (lu = true \/ (lu = false /\ no_long_run L cs)) ->
  length snk_dts = length srcs ->
  well_staged srcs snk_dts ->
  ordered_merge_left_t cs L R srcs FFldSink snk_dts [] MFld lu true bk
  = Ok (mk_toml None (Some (expected_t snk_dts L R srcs)) (Some (map snd (left_join INVALID_INDEX L R)))).
Proof.
  intros Hcs Hk Hl Hw.
  rewrite (oml_t_reduces cs L R srcs FFldSink snk_dts [] MFld lu true bk snk_dts (fun _ => Hl)
             (out_dtypes_streamed bk srcs snk_dts Hl) Hw).
  destruct Hk as [Hlu | (Hlu & Hn)].
  - rewrite (oml_streamed_both_unique_correct L R (map snd srcs) lu vals_nonempty HL HLu HR Hbig vals_len cs Hlu Hcs).
    reflexivity.
  - rewrite Hlu.
    rewrite (oml_streamed_right_unique_correct L R (map snd srcs) vals_nonempty HL HR Hbig vals_len cs Hcs Hn).
    reflexivity.
Qed.

End Typed.

(* ------------------------------------------------------------------ every payload on its own *)
(* the column sink k receives in a call with many payloads is the column it receives in a call with payload k
   alone: it depends neither on the position of the payload, nor on the other payloads and their dtypes *)
Theorem oml_t_streamed_payloads_independent L R lu cs bk :
  sorted L -> (lu = true -> ssorted L) -> ssorted R -> len R <= INVALID_INDEX ->
  1 <= cs -> (lu = true \/ (lu = false /\ no_long_run L cs)) ->
  forall srcs snk_dts, srcs <> [] -> (forall s, In s srcs -> len (snd s) = len R) ->
  length snk_dts = length srcs -> well_staged srcs snk_dts ->
  exists cols,
    ordered_merge_left_t cs L R srcs FFldSink snk_dts [] MFld lu true bk
    = Ok (mk_toml None (Some cols) (Some (map snd (left_join INVALID_INDEX L R)))) /\
    Forall2 (fun (sd:tcol * dtype) (c:tcol) =>
               ordered_merge_left_t cs L R [fst sd] FFldSink [snd sd] [] MFld lu true bk
               = Ok (mk_toml None (Some [c]) (Some (map snd (left_join INVALID_INDEX L R)))))
            (combine srcs snk_dts) cols.
Proof.
  intros HL HLu HR Hbig Hcs Hk srcs snk_dts Hne Hlen Hl Hw.
  exists (expected_t snk_dts L R srcs). split.
  - exact (oml_t_streamed_correct L R srcs lu Hne HL HLu HR Hbig Hlen cs snk_dts bk Hcs Hk Hl Hw).
  - clear Hne Hl. unfold expected_t. induction Hw as [|s d srcs dts Hsd Hw IH]; cbn [combine map]; constructor.
    + cbv beta. cbn [fst snd].
      assert (Hs : forall x, In x [s] -> len (snd x) = len R).
      { intros x [<-|[]]. apply Hlen. left. reflexivity. }
      assert (Hw1 : well_staged [s] [d]) by (constructor; [exact Hsd|constructor]).
      exact (oml_t_streamed_correct L R [s] lu ltac:(discriminate) HL HLu HR Hbig Hs cs [d] bk Hcs Hk eq_refl Hw1).
    + apply IH. intros x Hx. apply Hlen. right. exact Hx.
Qed.

(* ------------------------------------------------------------------ histories *)
(* the result of call k of a history is the result of that call on its own *)
Theorem history_call_alone {C O} (call:C -> O) (calls:list C) (k:nat) (d:C) (d':O) :
  (k < length calls)%nat -> nth k (history call calls) d' = call (nth k calls d).
Proof.
  intros Hk. unfold history. rewrite (nth_indep (map call calls) d' (call d)) by (rewrite map_length; exact Hk).
  apply map_nth.
Qed.

Lemma history_length {C O} (call:C -> O) calls : length (history call calls) = length calls.
Proof. apply map_length. Qed.

(* ------------------------------------------------------------------ non-vacuity *)
Definition f64 := DFloat 64.
Definition bits_70_5 : Z := 4634590711657168896.      (* 70.5 *)
Definition bits_81_25 : Z := 4635347571006013440.     (* 81.25 *)

(* an int32 count, a float64 weight and an int64 stamp joined in one streamed call: each sink gets its own column *)
Example oml_t_mixed_example :
  ordered_merge_left_t 3 [100;100;200;400] [100;200;300]
    [(DInt 32, [3;2;0]); (f64, [bits_70_5; bits_81_25; 7]); (DInt 64, [2 ^ 53 + 1; - 2 ^ 63; 2 ^ 32 + 5])]
    FFldSink [DInt 32; f64; DInt 64] [] MFld false true BMem
  = Ok (mk_toml None
          (Some [(DInt 32, [3;3;2;0]); (f64, [bits_70_5; bits_70_5; bits_81_25; 0]);
                 (DInt 64, [2 ^ 53 + 1; 2 ^ 53 + 1; - 2 ^ 63; 0])])
          (Some [0;0;1;INVALID_INDEX])).
Proof. vm_compute. reflexivity. Qed.

Example well_staged_example :
  well_staged [(DInt 8, [127; -128]); (DBool, [1;0]); (f64, [bits_70_5; 0])] [DInt 64; DInt 8; f64].
Proof.
  apply Forall2_cons; [|apply Forall2_cons; [|apply Forall2_cons; [|apply Forall2_nil]]].
  - right. split; [reflexivity|]. apply Forall_cons; [|apply Forall_cons; [|apply Forall_nil]]; cbn; lia.
  - right. split; [reflexivity|]. apply Forall_cons; [|apply Forall_cons; [|apply Forall_nil]]; cbn; lia.
  - left. reflexivity.
Qed.
