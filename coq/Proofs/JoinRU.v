(* Proofs/JoinRU.v — KindOK for the right-unique kernels
   (generate_ordered_map_to_left_right_unique_partial, ..._to_inner_right_unique_partial;
   Model/Join.v step_ru): left side sorted and trimmed, right side strictly increasing and
   untrimmed.

   Because the right keys are unique, a left row has at most one partner, so every loop
   iteration that advances i completes exactly one row of the join: the output is always
   `rows_upto I`, there is no "half emitted" row.  What the look-ahead `left[i+1] != left[i]`
   decides is only whether the right cursor may leave the matched key; the frontier fact
   "every consumed right key is smaller than every remaining left key" is kept because
     - either the next left key is different, hence (sorted) larger,
     - or the WINDOW ends at i+1, and then Trim says the run of the left key really ends there
       (or the left side is exhausted).
   The to_left kernel has no `r < len(r_result)` guard: Loc (r <= i) keeps the writes in range,
   since i < i_max <= cs = len(r_result). *)
From Coq Require Import ZArith List Lia Bool ZifyBool.
From EV Require Import Res Arr Join JoinSpec JoinBase JoinIface JoinRows JoinWin.
Import ListNotations.
Open Scope Z_scope.

Section RU.
Variables (emit:bool) (L R:list Z) (inv cs:Z).
Hypothesis HL : sorted L.
Hypothesis HR : ssorted R.
Hypothesis Hcs : 1 <= cs.

Definition AbsRU (I J:Z) (sb:sub) (O:list (Z * Z)) : Prop :=
  s_inner sb = false /\
  0 <= I <= len L /\ 0 <= J <= len R /\ O = rows_upto emit inv L R I /\
  (forall j' i', 0 <= j' < J -> I <= i' < len L -> nthZ R j' < nthZ L i').

Definition LocRU (s:fsm) : Prop := fr s <= fi s.

Lemma sortedR_RU : sorted R. Proof. apply ssorted_sorted, HR. Qed.

(* the row of left key L[I] when every earlier right key is smaller and R[J] is larger *)
Lemma row_none_RU I J : 0 <= I < len L -> 0 <= J <= len R ->
  (forall j', 0 <= j' < J -> nthZ R j' < nthZ L I) ->
  (J < len R -> nthZ L I < nthZ R J) ->
  row emit inv R I (nthZ L I) = if emit then [(I, inv)] else [].
Proof.
  intros HI HJ Hlt Hgt.
  rewrite (row_interval emit inv R I (nthZ L I) J J); try lia.
  - replace (J <? J) with false by lia. reflexivity.
  - intros j Hj. specialize (Hlt j Hj). lia.
  - intros j Hj. specialize (Hgt ltac:(lia)). pose proof (sortedR_RU J j ltac:(lia) ltac:(lia) ltac:(lia)). lia.
Qed.

(* ... and when R[J] is the (only, since R is strictly increasing) partner *)
Lemma row_one_RU I J : 0 <= I < len L -> 0 <= J < len R ->
  (forall j', 0 <= j' < J -> nthZ R j' < nthZ L I) -> nthZ L I = nthZ R J ->
  row emit inv R I (nthZ L I) = [(I, J)].
Proof.
  intros HI HJ Hlt Heq.
  rewrite (row_interval emit inv R I (nthZ L I) J (J + 1)); try lia.
  - replace (J <? J + 1) with true by lia. replace (J + 1 - J) with 1 by lia.
    rewrite (seqZ_cons J 1) by lia. rewrite seqZ_nil by lia. reflexivity.
  - intros j Hj. specialize (Hlt j Hj). lia.
  - intros j Hj. replace j with J by lia. lia.
  - intros j Hj. pose proof (HR J j ltac:(lia) ltac:(lia) ltac:(lia)). lia.
Qed.

Lemma kstep_ok_RU : forall p la lb ra rb s ol orr O,
  Win KRU emit L R inv cs p la lb ra rb -> Buf cs s -> Pos p s -> LocRU s ->
  AbsRU (la + fi s) (ra + fj s) (sub_of s) O -> OutRel KRU emit ol orr s O ->
  (kstep KRU emit p s = Ok None /\
   (fi s >= ki_max p \/ fj s >= kj_max p \/ fr s >= cs))
  \/
  (exists s' O', kstep KRU emit p s = Ok (Some s') /\
     Buf cs s' /\ Pos p s' /\ LocRU s' /\
     AbsRU (la + fi s') (ra + fj s') (sub_of s') O' /\ OutRel KRU emit ol orr s' O' /\
     fi s <= fi s' /\ fj s <= fj s' /\ fr s <= fr s' /\
     kmeas cs p s' < kmeas cs p s /\
     (fi s + fj s + fr s < fi s' + fj s' + fr s' \/
      (finner s = false /\ finner s' = true /\ fi s' = fi s /\ fj s' = fj s /\ fr s' = fr s))).
Proof.
  intros p la lb ra rb s ol orr O HW HB HP HLoc HA HO.
  pose proof (win_facts _ _ _ _ _ _ _ _ _ _ _ HW) as W. destruct W.
  cbn [ltrim rtrim v_ltrim v_rtrim v_kind] in wf_ltrim, wf_rtrim.
  destruct HB as (Hll & Hlr & Hrr). destruct HP as (Hpi & Hpj & Hpinn).
  destruct HA as (Hinn & HI & HJ & HOeq & Hfront). cbn [sub_of s_inner] in Hinn.
  unfold LocRU in HLoc.
  assert (Hlenl : ki_max p <= len (kleft p)) by lia.
  assert (Hlenr : len (kright p) = kj_max p) by lia.
  cbn [kstep]. unfold step_ru.
  assert (Hcond : (if emit then (fi s <? ki_max p) && (fj s <? len (kright p))
                   else (fi s <? ki_max p) && (fj s <? kj_max p)) =
                  (fi s <? ki_max p) && (fj s <? kj_max p))
    by (rewrite Hlenr; destruct emit; reflexivity).
  rewrite Hcond. clear Hcond.
  destruct ((fi s <? ki_max p) && (fj s <? kj_max p)) eqn:Ec.
  2:{ left. split; [reflexivity|]. lia. }
  right.
  assert (Hi : fi s < ki_max p) by lia.
  assert (Hj : fj s < kj_max p) by lia.
  assert (Hr : fr s < cs) by lia.        (* Loc: r <= i < i_max <= cs *)
  rewrite (wf_getl 31) by lia. rewrite (wf_getr 32) by lia. cbn [bind].
  set (I := la + fi s) in *. set (J := ra + fj s) in *.
  set (a := nthZ L I). set (b := nthZ R J).
  assert (HIlt : 0 <= I < len L) by (unfold I; lia).
  assert (HJlt : 0 <= J < len R) by (unfold J; lia).
  assert (Hfront_I : forall j', 0 <= j' < J -> nthZ R j' < nthZ L I) by (intros j' Hj'; apply Hfront; lia).
  destruct (a <? b) eqn:E1; [|destruct (b <? a) eqn:E2].
  - (* left key smaller: unmatched *)
    assert (Hrow : row emit inv R I (nthZ L I) = if emit then [(I, inv)] else []).
    { apply (row_none_RU I J); try lia; try assumption. }
    destruct (Bool.bool_dec emit true) as [Ee|Ee].
    + rewrite Ee. rewrite set_ok by lia. cbn [bind].
      eexists _, (O ++ [(I, inv)]). split; [reflexivity|].
      simp_st.
      splits; try lia.
      * unfold Buf. simp_st. rewrite len_upd. lia.
      * unfold Pos. simp_st. splits; try lia; try (intros Hx; rewrite Hinn in Hx; discriminate).
      * unfold LocRU. simp_st. lia.
      * unfold AbsRU. simp_st. splits; try assumption; try lia.
        -- replace (la + (fi s + 1)) with (I + 1) by (unfold I; lia).
           rewrite rows_upto_succ by lia. rewrite HOeq, Hrow, Ee. reflexivity.
        -- intros j' i' Hj' Hi'. apply Hfront; unfold I, J in *; lia.
      * rewrite <- Ee. apply (OutRel_push KRU emit cs ol orr s _ O I inv HO); simp_st; try lia; try reflexivity.
        -- rewrite wf_inv. reflexivity.
        -- intros Hx. rewrite Ee in Hx. cbv in Hx. discriminate.
      * unfold kmeas. simp_st. rewrite Hinn. lia.
    + apply Bool.not_true_is_false in Ee. rewrite Ee.
      eexists _, O. split; [reflexivity|].
      simp_st.
      splits; try lia.
      * unfold Buf. simp_st. lia.
      * unfold Pos. simp_st. splits; try lia; try (intros Hx; rewrite Hinn in Hx; discriminate).
      * unfold LocRU. simp_st. lia.
      * unfold AbsRU. simp_st. splits; try assumption; try lia.
        -- replace (la + (fi s + 1)) with (I + 1) by (unfold I; lia).
           rewrite rows_upto_succ by lia. rewrite HOeq, Hrow, Ee, app_nil_r. reflexivity.
        -- intros j' i' Hj' Hi'. apply Hfront; unfold I, J in *; lia.
      * rewrite <- Ee. apply (OutRel_same KRU emit ol orr s _ O HO); reflexivity.
      * unfold kmeas. simp_st. rewrite Hinn. lia.
  - (* right key smaller: skip it *)
    eexists _, O. split; [reflexivity|].
    simp_st.
    splits; try lia.
    * unfold Buf. simp_st. lia.
    * unfold Pos. simp_st. splits; try lia; try (intros Hx; rewrite Hinn in Hx; discriminate).
    * unfold LocRU. simp_st. lia.
    * unfold AbsRU. simp_st. splits; try assumption; try lia.
      intros j' i' Hj' Hi'. fold I in Hi'.
      destruct (Z.eq_dec j' J) as [->|Hne].
      -- fold b. pose proof (HL I i' ltac:(lia) ltac:(lia) ltac:(lia)) as Hs. fold a in Hs. lia.
      -- apply Hfront; unfold J in *; lia.
    * apply (OutRel_same KRU emit ol orr s _ O HO); reflexivity.
    * unfold kmeas. simp_st. rewrite Hinn. lia.
  - (* equal keys: the one match; the look-ahead decides whether j may leave R[J] *)
    assert (Hab : a = b) by lia.
    assert (Hrow : row emit inv R I (nthZ L I) = [(I, J)]).
    { apply (row_one_RU I J); try lia; try assumption. }
    assert (Hl' : (if emit then Ok (lres s) else set 35 (lres s) (fr s) (fi s + ki_off p)) =
                  Ok (if emit then lres s else upd (lres s) (fr s) I)).
    { destruct emit; [reflexivity|]. rewrite set_ok by lia. unfold I. rewrite wf_ioff. do 2 f_equal. lia. }
    rewrite Hl'. cbn [bind]. rewrite set_ok by lia. cbn [bind].
    (* the look-ahead: when it says "advance j", every remaining left key is larger than a *)
    assert (Hadv : exists adv,
              (if ki_max p <=? fi s + 1 then Ok true
               else do x <- get 37 (kleft p) (fi s + 1); Ok (negb (x =? a))) = Ok adv /\
              (adv = true -> forall i', I + 1 <= i' < len L -> a < nthZ L i')).
    { destruct (ki_max p <=? fi s + 1) eqn:Em.
      - (* the window ends here: Trim *)
        exists true. split; [reflexivity|]. intros _ i' Hi'.
        assert (HIb : I = lb - 1) by (unfold I; lia).
        destruct wf_ltrim as [Hend|(Hlt & Hne)]; [lia|].
        pose proof (HL (lb - 1) lb ltac:(lia) ltac:(lia) ltac:(lia)) as H1.
        pose proof (HL lb i' ltac:(lia) ltac:(lia) ltac:(lia)) as H2.
        unfold a. rewrite HIb. lia.
      - rewrite (wf_getl 37) by lia. cbn [bind].
        replace (la + (fi s + 1)) with (I + 1) by (unfold I; lia).
        eexists. split; [reflexivity|]. intros Hne i' Hi'.
        pose proof (HL I (I + 1) ltac:(lia) ltac:(lia) ltac:(lia)) as H1.
        pose proof (HL (I + 1) i' ltac:(lia) ltac:(lia) ltac:(lia)) as H2.
        fold a in H1. lia. }
    destruct Hadv as (adv & Eadv & Hadvp). rewrite Eadv. cbn [bind]. clear Eadv.
    eexists _, (O ++ [(I, J)]). split; [reflexivity|].
    simp_st.
    assert (Hjn : fj s <= (if adv then fj s + 1 else fj s) <= fj s + 1) by (destruct adv; lia).
    set (j1 := if adv then fj s + 1 else fj s) in *.
    splits; try lia.
    * unfold Buf. simp_st. rewrite len_upd. destruct emit; [|rewrite len_upd]; lia.
    * unfold Pos. simp_st. splits; try lia; try (intros Hx; rewrite Hinn in Hx; discriminate).
    * unfold LocRU. simp_st. lia.
    * unfold AbsRU. simp_st. splits; try assumption; try lia.
      -- replace (la + (fi s + 1)) with (I + 1) by (unfold I; lia).
         rewrite rows_upto_succ by lia. rewrite Hrow, HOeq. reflexivity.
      -- intros j' i' Hj' Hi'.
         destruct (Z.eq_dec j' J) as [->|Hne].
         ++ assert (Eadv : adv = true) by (destruct adv; [reflexivity|unfold j1, J in *; lia]).
            fold b. rewrite <- Hab. apply (Hadvp Eadv). unfold I in *. lia.
         ++ apply Hfront; unfold I, J in *; lia.
    * apply (OutRel_push KRU emit cs ol orr s _ O I J HO); simp_st; try lia.
      -- rewrite wf_joff. unfold J. f_equal. lia.
      -- intros Hx. destruct emit; [cbv in Hx; discriminate|reflexivity].
    * unfold kmeas. simp_st. rewrite Hinn. lia.
Qed.

Lemma Abs_final_RU : forall I J sb O, AbsRU I J sb O -> s_inner sb = false ->
  0 <= I <= len L -> 0 <= J <= len R -> (I = len L \/ J = len R) ->
  O ++ (if emit then unmatched inv I (len L) else []) = join_spec emit inv L R.
Proof.
  intros I J sb O (_ & _ & _ & HO & Hfront) _ HI HJ Hend. subst O.
  symmetry. apply rows_unmatched_tail; [lia|].
  intros i Hi. destruct Hend as [He|He]; [lia|].
  apply matches_from_none. intros j Hj. specialize (Hfront j i ltac:(lia) ltac:(lia)). lia.
Qed.

Lemma Abs_prefix_RU : forall I J sb O, AbsRU I J sb O -> 0 <= I <= len L -> 0 <= J <= len R ->
  exists rest, join_spec emit inv L R = O ++ rest.
Proof. intros I J sb O (_ & _ & _ & HO & _) HI _. subst O. apply rows_upto_prefix. exact HI. Qed.

Definition KindOK_RU : KindOK KRU emit L R inv cs.
Proof.
  refine (mkKindOK KRU emit L R inv cs AbsRU LocRU _ _ _ kstep_ok_RU Abs_final_RU Abs_prefix_RU).
  - intros s Hr Hi Hj. unfold LocRU. lia.
  - unfold AbsRU. simp_st. pose proof (len_nonneg L). pose proof (len_nonneg R).
    splits; try lia; try reflexivity.
  - intros I J sb O (_ & _ & _ & HO & _) HI HJ. subst O.
    pose proof (len_rows_upto emit inv L R I HI). pose proof (len_nonneg R). nia.
Defined.

End RU.
