(* Proofs/StableSortProofs.v — theory of Model/StableSort.v (used by C09 and C07).

   Main results, for a boolean total preorder `kle` on keys:
     isort_perm, isort_sorted         insertion sort of (key,pos) pairs permutes and sorts
     sorted_perm_unique               a sorted permutation of pairs with distinct positions is unique
     argsort_perm / argsort_spec      argsort is a permutation of 0..n-1, orders the keys, keeps ties in
                                      their original order  (= numpy's kind='stable' contract)
     argsort_unique                   ... and it is the only such permutation
     lex_le_trans / lex_le_total      the lexicographic order on key tuples is again a total preorder
     lsd_pass                         one LSD pass: stably sorting by key A an arrangement that is
                                      stably sorted by B gives the arrangement stably sorted by (A,B) *)
From Coq Require Import ZArith List Bool Lia Permutation Sorted.
From EV Require Import Res Arr StableSort.
Import ListNotations.
Open Scope Z_scope.

(* ------------------------------------------------------------------ iota / nthd helpers *)
Lemma iota_length s n : length (iota s n) = n.
Proof. revert s; induction n as [|n IH]; intros s; cbn; [reflexivity|]. rewrite IH; reflexivity. Qed.

Lemma iota_In s n x : In x (iota s n) <-> s <= x < s + Z.of_nat n.
Proof.
  revert s; induction n as [|n IH]; intros s; cbn [iota In].
  - split; [tauto|lia].
  - rewrite IH. split; intros H; [destruct H; lia|].
    destruct (Z.eq_dec s x); [left; assumption|right; lia].
Qed.

Lemma iota_NoDup s n : NoDup (iota s n).
Proof.
  revert s; induction n as [|n IH]; intros s; cbn; constructor; [|apply IH].
  rewrite iota_In. lia.
Qed.

Lemma iota_nth s n k : (k < n)%nat -> nth k (iota s n) 0 = s + Z.of_nat k.
Proof.
  revert s k; induction n as [|n IH]; intros s k H; [lia|].
  destruct k; cbn [iota nth]; [lia|]. rewrite IH by lia. lia.
Qed.

Lemma iota_S s n : iota s (S n) = iota s n ++ [s + Z.of_nat n].
Proof.
  revert s; induction n as [|n IH]; intros s.
  - cbn. f_equal. lia.
  - change (iota s (S (S n))) with (s :: iota (s + 1) (S n)). rewrite IH. cbn [iota app].
    f_equal. f_equal. f_equal. lia.
Qed.

Lemma map_nthd_iota {A} (d:A) (l:list A) : map (nthd d l) (iota 0 (length l)) = l.
Proof.
  induction l as [|x t IH] using rev_ind; [reflexivity|].
  rewrite app_length. cbn [length]. rewrite Nat.add_1_r, iota_S, map_app. cbn [map].
  f_equal.
  - transitivity (map (nthd d t) (iota 0 (length t))); [|exact IH].
    apply map_ext_in. intros k Hk. apply iota_In in Hk.
    apply nthd_app_l. unfold len. lia.
  - f_equal. unfold nthd. rewrite Z.add_0_l, Nat2Z.id. rewrite app_nth2 by lia.
    rewrite Nat.sub_diag. reflexivity.
Qed.

Lemma combine_app' {A B} (l1 l2:list A) (m1 m2:list B) :
  length l1 = length m1 -> combine (l1 ++ l2) (m1 ++ m2) = combine l1 m1 ++ combine l2 m2.
Proof.
  revert m1; induction l1 as [|x t IH]; intros [|y m1] H; cbn in *; try discriminate; [reflexivity|].
  f_equal. apply IH. lia.
Qed.

Lemma combine_map_iota {K} (d:K) (keys:list K) :
  combine keys (iota 0 (length keys)) = map (fun p => (nthd d keys p, p)) (iota 0 (length keys)).
Proof.
  induction keys as [|x t IH] using rev_ind; [reflexivity|].
  rewrite app_length. cbn [length]. rewrite Nat.add_1_r, iota_S, map_app.
  rewrite combine_app' by (rewrite iota_length; reflexivity). cbn [map combine].
  f_equal.
  - rewrite IH. apply map_ext_in. intros k Hk. apply iota_In in Hk. f_equal.
    symmetry. apply nthd_app_l. unfold len. lia.
  - f_equal. f_equal. unfold nthd. rewrite Z.add_0_l, Nat2Z.id. rewrite app_nth2 by lia.
    rewrite Nat.sub_diag. reflexivity.
Qed.

(* ------------------------------------------------------------------ the pair order *)
Section Theory.
Context {K:Type}.
Variable kle : K -> K -> bool.
Hypothesis kle_trans : forall a b c, kle a b = true -> kle b c = true -> kle a c = true.
Hypothesis kle_total : forall a b, kle a b = true \/ kle b a = true.

Lemma kle_refl a : kle a a = true.
Proof. destruct (kle_total a a); assumption. Qed.

Definition pleP (x y:K*Z) : Prop := ple kle x y = true.

Lemma ple_inv x y : ple kle x y = true ->
  kle (fst x) (fst y) = true /\ (kle (fst y) (fst x) = true -> snd x <= snd y).
Proof.
  unfold ple. destruct (kle (fst x) (fst y)) eqn:E1; [|discriminate].
  destruct (kle (fst y) (fst x)) eqn:E2; intros H; split; auto; intros; try discriminate. lia.
Qed.

Lemma ple_intro x y :
  kle (fst x) (fst y) = true -> (kle (fst y) (fst x) = true -> snd x <= snd y) -> ple kle x y = true.
Proof.
  intros H1 H2. unfold ple. rewrite H1. destruct (kle (fst y) (fst x)) eqn:E2; [|reflexivity].
  apply Z.leb_le. auto.
Qed.

Lemma ple_refl x : ple kle x x = true.
Proof. apply ple_intro; [apply kle_refl|lia]. Qed.

Lemma ple_total x y : ple kle x y = true \/ ple kle y x = true.
Proof.
  destruct (kle (fst x) (fst y)) eqn:E1; destruct (kle (fst y) (fst x)) eqn:E2.
  - destruct (Z_le_gt_dec (snd x) (snd y)).
    + left. apply ple_intro; auto.
    + right. apply ple_intro; auto. intros; lia.
  - left. apply ple_intro; auto. intros; congruence.
  - right. apply ple_intro; auto. intros; congruence.
  - destruct (kle_total (fst x) (fst y)); congruence.
Qed.

Lemma ple_trans x y z : ple kle x y = true -> ple kle y z = true -> ple kle x z = true.
Proof.
  intros H1 H2. apply ple_inv in H1. apply ple_inv in H2. destruct H1 as [A1 B1]. destruct H2 as [A2 B2].
  apply ple_intro.
  - eapply kle_trans; eauto.
  - intros Hzx.
    assert (kle (fst y) (fst x) = true) by (eapply kle_trans; eauto).
    assert (kle (fst z) (fst y) = true) by (eapply kle_trans; eauto).
    specialize (B1 H). specialize (B2 H0). lia.
Qed.

Lemma ple_antisym_pos x y : ple kle x y = true -> ple kle y x = true -> snd x = snd y.
Proof.
  intros H1 H2. apply ple_inv in H1. apply ple_inv in H2. destruct H1 as [A1 B1]. destruct H2 as [A2 B2].
  specialize (B1 A2). specialize (B2 A1). lia.
Qed.

(* ------------------------------------------------------------------ insertion sort *)
Lemma insert_perm x l : Permutation (insert kle x l) (x :: l).
Proof.
  induction l as [|y t IH]; cbn [insert]; [reflexivity|].
  destruct (ple kle x y); [reflexivity|].
  rewrite IH. apply perm_swap.
Qed.

Lemma isort_perm l : Permutation (isort kle l) l.
Proof.
  induction l as [|x t IH]; cbn [isort]; [reflexivity|].
  rewrite insert_perm. constructor. exact IH.
Qed.

Lemma insert_sorted x l : StronglySorted pleP l -> StronglySorted pleP (insert kle x l).
Proof.
  induction l as [|y t IH]; intros Hs; cbn [insert].
  - constructor; constructor.
  - inversion Hs as [|? ? Ht Hall]; subst.
    destruct (ple kle x y) eqn:E.
    + constructor; [exact Hs|]. constructor; [exact E|].
      eapply Forall_impl; [|exact Hall]. intros z Hz. unfold pleP in *. eapply ple_trans; eauto.
    + constructor; [apply IH; exact Ht|].
      eapply Permutation_Forall; [symmetry; apply insert_perm|].
      constructor; [|exact Hall].
      destruct (ple_total x y) as [H|H]; [congruence|exact H].
Qed.

Lemma isort_sorted l : StronglySorted pleP (isort kle l).
Proof.
  induction l as [|x t IH]; cbn [isort]; [constructor|]. apply insert_sorted. exact IH.
Qed.

(* ------------------------------------------------------------------ uniqueness *)
Lemma NoDup_map_inj {A B} (f:A -> B) l a b :
  NoDup (map f l) -> In a l -> In b l -> f a = f b -> a = b.
Proof.
  induction l as [|x t IH]; intros Hn Ha Hb Hf; [destruct Ha|].
  cbn in Hn. inversion Hn as [|? ? Hnot Hn']; subst.
  destruct Ha as [->|Ha]; destruct Hb as [->|Hb]; auto.
  - exfalso. apply Hnot. rewrite Hf. apply in_map. exact Hb.
  - exfalso. apply Hnot. rewrite <- Hf. apply in_map. exact Ha.
Qed.

Lemma sorted_perm_unique l1 l2 :
  NoDup (map snd l1) -> Permutation l1 l2 ->
  StronglySorted pleP l1 -> StronglySorted pleP l2 -> l1 = l2.
Proof.
  revert l2. induction l1 as [|a t1 IH]; intros l2 Hn Hp H1 H2.
  - apply Permutation_nil in Hp. subst. reflexivity.
  - destruct l2 as [|b t2]; [symmetry in Hp; apply Permutation_nil in Hp; discriminate|].
    assert (Hab : a = b).
    { assert (Ha2 : In a (b :: t2)) by (eapply Permutation_in; [exact Hp|left; reflexivity]).
      assert (Hb1 : In b (a :: t1)) by (eapply Permutation_in; [symmetry; exact Hp|left; reflexivity]).
      destruct Ha2 as [Ha2|Ha2]; [congruence|]. destruct Hb1 as [Hb1|Hb1]; [congruence|].
      inversion H1 as [|? ? _ F1]; subst. inversion H2 as [|? ? _ F2]; subst.
      rewrite Forall_forall in F1, F2.
      specialize (F1 b Hb1). specialize (F2 a Ha2).
      assert (Hs : snd a = snd b) by (apply ple_antisym_pos; assumption).
      apply (NoDup_map_inj snd (a :: t1)); auto; [left; reflexivity|right; exact Hb1]. }
    subst b. f_equal. apply IH.
    + cbn in Hn. inversion Hn; assumption.
    + eapply Permutation_cons_inv; exact Hp.
    + inversion H1; assumption.
    + inversion H2; assumption.
Qed.

(* ------------------------------------------------------------------ argsort *)
(* the (key, position) pairs of a list of positions *)
Definition tag (d:K) (keys:list K) (ps:list Z) : list (K*Z) := map (fun p => (nthd d keys p, p)) ps.

Lemma tag_snd d keys ps : map snd (tag d keys ps) = ps.
Proof. unfold tag. rewrite map_map. cbn. apply map_id. Qed.

Lemma tag_of_snd d keys (l:list (K*Z)) :
  Forall (fun x => fst x = nthd d keys (snd x)) l -> l = tag d keys (map snd l).
Proof.
  induction 1 as [|x t Hx _ IH]; [reflexivity|]. cbn [map tag]. unfold tag in IH. rewrite <- IH. f_equal.
  destruct x as [k p]; cbn in *. congruence.
Qed.

Lemma argsort_tag d keys :
  isort kle (combine keys (iota 0 (length keys))) = tag d keys (argsort kle keys).
Proof.
  unfold argsort. apply tag_of_snd.
  eapply Permutation_Forall; [symmetry; apply isort_perm|].
  rewrite (combine_map_iota d). apply Forall_forall. intros x Hx.
  apply in_map_iff in Hx. destruct Hx as [p [<- _]]. reflexivity.
Qed.

Lemma argsort_perm keys : Permutation (argsort kle keys) (iota 0 (length keys)).
Proof.
  unfold argsort. rewrite isort_perm.
  destruct keys as [|k0 t]; [reflexivity|].
  rewrite (combine_map_iota k0). fold (tag k0 (k0 :: t) (iota 0 (length (k0 :: t)))).
  rewrite tag_snd. reflexivity.
Qed.

Lemma argsort_length keys : length (argsort kle keys) = length keys.
Proof. rewrite (Permutation_length (argsort_perm keys)). apply iota_length. Qed.

Lemma argsort_range keys x : In x (argsort kle keys) -> 0 <= x < len keys.
Proof.
  intros H. eapply Permutation_in in H; [|apply argsort_perm]. apply iota_In in H. unfold len. lia.
Qed.

Lemma argsort_sorted d keys : StronglySorted pleP (tag d keys (argsort kle keys)).
Proof. rewrite <- argsort_tag. apply isort_sorted. Qed.

(* any permutation of the positions whose tagged list is sorted IS the stable argsort *)
Lemma argsort_unique d keys q :
  Permutation q (iota 0 (length keys)) -> StronglySorted pleP (tag d keys q) -> q = argsort kle keys.
Proof.
  intros Hp Hs.
  assert (E : tag d keys q = tag d keys (argsort kle keys)).
  { apply sorted_perm_unique.
    - rewrite tag_snd. eapply Permutation_NoDup; [symmetry; exact Hp|apply iota_NoDup].
    - unfold tag. apply Permutation_map. rewrite Hp. symmetry. apply argsort_perm.
    - exact Hs.
    - apply argsort_sorted. }
  apply (f_equal (map snd)) in E. rewrite !tag_snd in E. exact E.
Qed.

End Theory.

(* ------------------------------------------------------------------ sortedness by index *)
Lemma SS_nth {A} (R:A -> A -> Prop) d l i j :
  StronglySorted R l -> (i < j < length l)%nat -> R (nth i l d) (nth j l d).
Proof.
  intros Hs. revert i j. induction Hs as [|x t Ht IH Hall]; intros i j H; cbn in H; [lia|].
  destruct i; destruct j; try lia; cbn [nth].
  - rewrite Forall_forall in Hall. apply Hall. apply nth_In. lia.
  - apply IH. lia.
Qed.

Lemma SS_of_nth {A} (R:A -> A -> Prop) d l :
  (forall i j, (i < j < length l)%nat -> R (nth i l d) (nth j l d)) -> StronglySorted R l.
Proof.
  induction l as [|x t IH]; intros H; constructor.
  - apply IH. intros i j Hij. apply (H (S i) (S j)). cbn. lia.
  - apply Forall_forall. intros y Hy. apply (In_nth _ _ d) in Hy. destruct Hy as [n [Hn <-]].
    apply (H O (S n)). cbn. lia.
Qed.

Lemma SS_map_impl {X Y Z'} (R:Y -> Y -> Prop) (R':Z' -> Z' -> Prop) (f:X -> Y) (g:X -> Z') l :
  (forall x y, In x l -> In y l -> R (f x) (f y) -> R' (g x) (g y)) ->
  StronglySorted R (map f l) -> StronglySorted R' (map g l).
Proof.
  induction l as [|a t IH]; intros H Hs; cbn in *; constructor.
  - apply IH; [|inversion Hs; assumption]. intros x y Hx Hy. apply H; right; assumption.
  - inversion Hs as [|? ? _ Hall]; subst. rewrite Forall_forall in *. intros z Hz.
    apply in_map_iff in Hz. destruct Hz as [y [<- Hy]]. apply H; [left; reflexivity|right; exact Hy|].
    apply Hall. apply in_map. exact Hy.
Qed.

Lemma nth_map_in {A B} (f:A -> B) da db l i : (i < length l)%nat -> nth i (map f l) db = f (nth i l da).
Proof.
  intros H. rewrite (nth_indep _ db (f da)) by (rewrite map_length; exact H). apply map_nth.
Qed.

Lemma nthd_map {A B} (f:A -> B) da db l k : 0 <= k < len l -> nthd db (map f l) k = f (nthd da l k).
Proof.
  intros H. unfold nthd, len in *. rewrite (nth_indep _ db (f da)) by (rewrite map_length; lia).
  apply map_nth.
Qed.

(* ------------------------------------------------------------------ human-readable contract *)
Section Contract.
Context {K:Type}.
Variable kle : K -> K -> bool.
Hypothesis kle_trans : forall a b c, kle a b = true -> kle b c = true -> kle a c = true.
Hypothesis kle_total : forall a b, kle a b = true \/ kle b a = true.

(* q orders the keys and keeps equivalent keys in their original order *)
Definition stable_sorting (d:K) (keys:list K) (q:list Z) : Prop :=
  Permutation q (iota 0 (length keys)) /\
  forall i j, 0 <= i -> i < j -> j < len q ->
    kle (nthd d keys (nthd 0 q i)) (nthd d keys (nthd 0 q j)) = true /\
    (kle (nthd d keys (nthd 0 q j)) (nthd d keys (nthd 0 q i)) = true -> nthd 0 q i < nthd 0 q j).

Lemma stable_sorting_tag d keys q :
  stable_sorting d keys q -> StronglySorted (pleP kle) (tag d keys q).
Proof.
  intros [Hp H]. apply (SS_of_nth _ (d, 0)). unfold tag. rewrite map_length. intros i j Hij.
  specialize (H (Z.of_nat i) (Z.of_nat j)). unfold len in H.
  destruct H as [H1 H2]; try lia.
  rewrite !(nth_map_in _ 0) by lia. unfold nthd in *. rewrite !Nat2Z.id in *.
  apply ple_intro; cbn [fst snd]; [exact H1|]. intros Hx. specialize (H2 Hx). lia.
Qed.

Theorem argsort_stable_sorting d keys : stable_sorting d keys (argsort kle keys).
Proof.
  split; [apply argsort_perm|]. intros i j Hi Hij Hj.
  pose proof (argsort_sorted kle kle_trans kle_total d keys) as Hs.
  pose proof (SS_nth _ (d, 0) _ (Z.to_nat i) (Z.to_nat j) Hs) as H.
  unfold tag in H. rewrite map_length in H. unfold len in Hj.
  assert (Hr : (Z.to_nat i < Z.to_nat j < length (argsort kle keys))%nat) by lia.
  specialize (H Hr).
  rewrite !(nth_map_in _ 0) in H by lia. unfold pleP in H. apply ple_inv in H. cbn [fst snd] in H.
  destruct H as [H1 H2]. unfold nthd at 2 4 6 8. split; [exact H1|]. intros Hx. specialize (H2 Hx).
  assert (Hne : nth (Z.to_nat i) (argsort kle keys) 0 <> nth (Z.to_nat j) (argsort kle keys) 0).
  { intros E. pose proof (argsort_perm kle keys) as Hp.
    assert (Hnd : NoDup (argsort kle keys)) by (eapply Permutation_NoDup; [symmetry; exact Hp|apply iota_NoDup]).
    pose proof (proj1 (NoDup_nth (argsort kle keys) 0) Hnd (Z.to_nat i) (Z.to_nat j)) as Hn.
    assert (Z.to_nat i = Z.to_nat j) by (apply Hn; [lia|lia|exact E]). lia. }
  unfold nthd in *. lia.
Qed.

Theorem stable_sorting_unique d keys q : stable_sorting d keys q -> q = argsort kle keys.
Proof.
  intros H. apply (argsort_unique kle kle_trans kle_total d); [apply H|].
  apply stable_sorting_tag. exact H.
Qed.

End Contract.

(* ------------------------------------------------------------------ lexicographic order *)
Section LexTheory.
Context {K:Type}.
Variable kle : K -> K -> bool.
Hypothesis kle_trans : forall a b c, kle a b = true -> kle b c = true -> kle a c = true.
Hypothesis kle_total : forall a b, kle a b = true \/ kle b a = true.

Lemma lex_le_total r1 r2 : lex_le kle r1 r2 = true \/ lex_le kle r2 r1 = true.
Proof.
  revert r2. induction r1 as [|a t1 IH]; intros [|b t2]; cbn [lex_le]; auto.
  destruct (kle a b) eqn:E1; destruct (kle b a) eqn:E2; auto.
  destruct (kle_total a b); congruence.
Qed.

Lemma lex_le_trans r1 r2 r3 :
  lex_le kle r1 r2 = true -> lex_le kle r2 r3 = true -> lex_le kle r1 r3 = true.
Proof.
  revert r2 r3. induction r1 as [|a t1 IH]; intros [|b t2] [|c t3]; cbn [lex_le]; auto; try discriminate.
  destruct (kle a b) eqn:Eab; [|discriminate].
  destruct (kle b c) eqn:Ebc; [|intros; discriminate].
  assert (Eac : kle a c = true) by (eapply kle_trans; eauto). rewrite Eac.
  destruct (kle b a) eqn:Eba; destruct (kle c b) eqn:Ecb; destruct (kle c a) eqn:Eca; intros H1 H2; auto;
    try (eapply IH; eassumption);
    try (assert (kle c b = true) by (eapply kle_trans; eauto); congruence);
    try (assert (kle b a = true) by (eapply kle_trans; eauto); congruence).
Qed.

End LexTheory.

Lemma Zleb_trans a b c : (a <=? b) = true -> (b <=? c) = true -> (a <=? c) = true.
Proof. rewrite !Z.leb_le. lia. Qed.
Lemma Zleb_total a b : (a <=? b) = true \/ (b <=? a) = true.
Proof. rewrite !Z.leb_le. lia. Qed.

Lemma cell_le_trans a b c : cell_le a b = true -> cell_le b c = true -> cell_le a c = true.
Proof. intros H1 H2. exact (lex_le_trans Z.leb Zleb_trans a b c H1 H2). Qed.
Lemma cell_le_total a b : cell_le a b = true \/ cell_le b a = true.
Proof. exact (lex_le_total Z.leb Zleb_total a b). Qed.

(* ------------------------------------------------------------------ one LSD pass *)
Section LSD.
Context {KA KB KAB:Type}.
Variable kleA : KA -> KA -> bool.
Variable kleB : KB -> KB -> bool.
Variable kleAB : KAB -> KAB -> bool.
Hypothesis kleB_total : forall a b, kleB a b = true \/ kleB b a = true.
(* key functions on original positions; AB is the lexicographic product, A most significant *)
Variable kA : Z -> KA.
Variable kB : Z -> KB.
Variable kAB : Z -> KAB.
Hypothesis Hlex : forall p1 p2,
  kleAB (kAB p1) (kAB p2) =
  if kleA (kA p1) (kA p2) then (if kleA (kA p2) (kA p1) then kleB (kB p1) (kB p2) else true) else false.

Lemma lsd_pass (q index:list Z) :
  StronglySorted (pleP kleB) (map (fun p => (kB p, p)) q) ->
  Forall (fun k => 0 <= k < len q) index ->
  StronglySorted (pleP kleA) (map (fun k => (kA (nthd 0 q k), k)) index) ->
  StronglySorted (pleP kleAB) (map (fun p => (kAB p, p)) (map (nthd 0 q) index)).
Proof.
  intros HB Hr HA. rewrite map_map.
  eapply SS_map_impl; [|exact HA]. cbn beta.
  intros k1 k2 Hk1 Hk2 H. rewrite Forall_forall in Hr.
  pose proof (Hr k1 Hk1) as R1. pose proof (Hr k2 Hk2) as R2.
  unfold pleP in *. apply ple_inv in H. cbn [fst snd] in H. destruct H as [H1 H2].
  set (a := nthd 0 q k1) in *. set (b := nthd 0 q k2) in *.
  (* when the A keys tie, k1 <= k2 and the B-sortedness of q applies *)
  assert (HBab : kleA (kA b) (kA a) = true -> ple kleB (kB a, a) (kB b, b) = true).
  { intros Hba. specialize (H2 Hba).
    destruct (Z.eq_dec k1 k2) as [->|Hne].
    - subst a b. apply ple_refl. exact kleB_total.
    - pose proof (SS_nth _ (kB 0, 0) _ (Z.to_nat k1) (Z.to_nat k2) HB) as Hn.
      rewrite map_length in Hn. unfold len in *.
      assert (Hlt : (Z.to_nat k1 < Z.to_nat k2 < length q)%nat) by lia. specialize (Hn Hlt).
      rewrite !(nth_map_in _ 0) in Hn by lia. exact Hn. }
  apply ple_intro; cbn [fst snd].
  - rewrite Hlex, H1. destruct (kleA (kA b) (kA a)) eqn:Eba; [|reflexivity].
    specialize (HBab eq_refl). apply ple_inv in HBab. apply HBab.
  - rewrite Hlex. destruct (kleA (kA b) (kA a)) eqn:Eba; [|discriminate]. rewrite H1.
    intros Hb. specialize (HBab eq_refl). apply ple_inv in HBab. cbn [fst snd] in HBab. apply HBab. exact Hb.
Qed.

End LSD.
