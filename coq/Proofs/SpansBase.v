(* Proofs/SpansBase.v — generic lemmas: for_range invariants, integer ranges, strict sortedness. *)
From Coq Require Import ZArith List Lia Bool.
From EV Require Import Res Arr Spans SpansSpec.
Import ListNotations.
Open Scope Z_scope.

(* ---- for_range ------------------------------------------------------------------------------ *)
Lemma for_range_inv {St:Type} (P:Z -> St -> Prop) (body:Z -> St -> res St) (n:nat) (i:Z) (s:St) :
  P i s ->
  (forall k st, i <= k < i + Z.of_nat n -> P k st -> exists st', body k st = Ok st' /\ P (k + 1) st') ->
  exists s', for_range n i body s = Ok s' /\ P (i + Z.of_nat n) s'.
Proof.
  revert i s. induction n as [|n IH]; intros i s H0 Hstep.
  - exists s. cbn [for_range]. split; [reflexivity|]. replace (i + Z.of_nat 0) with i by lia. exact H0.
  - cbn [for_range]. destruct (Hstep i s) as [s1 [Hb H1]]; [lia|exact H0|].
    rewrite Hb. cbn [bind].
    destruct (IH (i + 1) s1 H1) as [s' [Hr Hp]].
    + intros k st Hk Hp. apply Hstep; [lia|exact Hp].
    + exists s'. split; [exact Hr|]. replace (i + Z.of_nat (S n)) with (i + 1 + Z.of_nat n) by lia. exact Hp.
Qed.

Lemma for_range_ext {St:Type} (b1 b2:Z -> St -> res St) (n:nat) (i:Z) (s:St) :
  (forall k st, i <= k < i + Z.of_nat n -> b1 k st = b2 k st) ->
  for_range n i b1 s = for_range n i b2 s.
Proof.
  revert i s. induction n as [|n IH]; intros i s H; [reflexivity|].
  cbn [for_range]. rewrite H by lia. destruct (b2 i s); cbn [bind]; try reflexivity.
  apply IH. intros k st Hk. apply H. lia.
Qed.

(* ---- zrange ---------------------------------------------------------------------------------- *)
Fixpoint zrange (i:Z) (n:nat) : list Z :=
  match n with O => [] | S n' => i :: zrange (i + 1) n' end.

Lemma zrange_length i n : length (zrange i n) = n.
Proof. revert i; induction n as [|n IH]; intros i; cbn; [reflexivity|]. rewrite IH; reflexivity. Qed.

Lemma zrange_snoc i n : zrange i (S n) = zrange i n ++ [i + Z.of_nat n].
Proof.
  revert i; induction n as [|n IH]; intros i.
  - cbn. f_equal. lia.
  - cbn [zrange app]. f_equal. specialize (IH (i + 1)). cbn [zrange] in IH. rewrite IH. f_equal. f_equal. lia.
Qed.

Lemma zrange_shift i n : zrange (i + 1) n = map (fun k => k + 1) (zrange i n).
Proof. revert i; induction n as [|n IH]; intros i; cbn [zrange map]; [reflexivity|]. rewrite IH. reflexivity. Qed.

Lemma in_zrange i n k : In k (zrange i n) <-> i <= k < i + Z.of_nat n.
Proof.
  revert i; induction n as [|n IH]; intros i; cbn [zrange In].
  - lia.
  - rewrite IH. lia.
Qed.

(* ---- generic "tabulate" loop: dest[i] = f i for i in range(m) ---------------------------------- *)
Lemma firstn_all_len {A} (l:list A) m : len l = m -> firstn (Z.to_nat m) l = l.
Proof. intros H. unfold len in H. replace (Z.to_nat m) with (length l) by lia. apply firstn_all. Qed.

Lemma for_range_tabulate {B:Type} (body:Z -> list B -> res (list B)) (f:Z -> B) (m:Z) (dest0:list B) :
  len dest0 = m ->
  (forall i dest, 0 <= i < m -> len dest = m -> body i dest = Ok (upd dest i (f i))) ->
  for_range (Z.to_nat m) 0 body dest0 = Ok (map f (zrange 0 (Z.to_nat m))).
Proof.
  intros Hlen Hbody. pose proof (len_nonneg dest0) as Hm0.
  destruct (for_range_inv (fun k dest => len dest = m /\ 0 <= k <= m /\
                                        firstn (Z.to_nat k) dest = map f (zrange 0 (Z.to_nat k)))
              body (Z.to_nat m) 0 dest0) as [d [Hr [Hl [_ Hf]]]].
  - split; [exact Hlen|]. split; [lia|]. reflexivity.
  - intros k st Hk [Hl [Hk2 Hf]]. exists (upd st k (f k)). split; [apply Hbody; lia|].
    split; [rewrite len_upd; exact Hl|]. split; [lia|].
    replace (Z.to_nat (k + 1)) with (S (Z.to_nat k)) by lia.
    unfold upd. rewrite firstn_succ_upd_nat by (unfold len in Hl; lia).
    rewrite zrange_snoc, map_app, Hf. cbn [map]. do 3 f_equal. lia.
  - rewrite Hr. f_equal. replace (0 + Z.of_nat (Z.to_nat m)) with m in Hf by lia.
    rewrite <- Hf. symmetry. apply firstn_all_len. exact Hl.
Qed.

(* ---- strict sortedness, list-level ---------------------------------------------------------------- *)
Lemma nthZ_cons_0 x l : nthZ (x :: l) 0 = x.
Proof. reflexivity. Qed.
Lemma nthZ_cons_succ x l i : 0 <= i -> nthZ (x :: l) (i + 1) = nthZ l i.
Proof. intros H. unfold nthZ. apply nthd_cons_succ. exact H. Qed.

Lemma In_nthZ l y : In y l -> exists i, 0 <= i < len l /\ nthZ l i = y.
Proof.
  intros H. destruct (In_nth l y 0 H) as [n [Hn Hy]]. exists (Z.of_nat n). unfold len, nthZ, nthd.
  rewrite Nat2Z.id. split; [lia|exact Hy].
Qed.
Lemma nthZ_In l i : 0 <= i < len l -> In (nthZ l i) l.
Proof. intros H. unfold nthZ, nthd, len in *. apply nth_In. lia. Qed.

Lemma ssorted_nil : ssorted [].
Proof. intros i j Hi Hij Hj. unfold len in Hj; cbn in Hj; lia. Qed.

Lemma ssorted_cons_inv x l : ssorted (x :: l) -> ssorted l /\ (forall y, In y l -> x < y).
Proof.
  intros H. split.
  - intros i j Hi Hij Hj. specialize (H (i + 1) (j + 1)). rewrite !nthZ_cons_succ in H by lia.
    apply H; try lia. rewrite len_cons. lia.
  - intros y Hy. destruct (In_nthZ l y Hy) as [i [Hi Hn]]. specialize (H 0 (i + 1)).
    rewrite nthZ_cons_0, nthZ_cons_succ in H by lia. rewrite <- Hn. apply H; try lia. rewrite len_cons. lia.
Qed.

Lemma ssorted_cons x l : ssorted l -> (forall y, In y l -> x < y) -> ssorted (x :: l).
Proof.
  intros Hs Hx i j Hi Hij Hj. rewrite len_cons in Hj.
  replace j with ((j - 1) + 1) by lia. rewrite nthZ_cons_succ by lia.
  destruct (Z.eq_dec i 0) as [->|Hi0].
  - rewrite nthZ_cons_0. apply Hx. apply nthZ_In. lia.
  - replace i with ((i - 1) + 1) by lia. rewrite nthZ_cons_succ by lia. apply Hs; lia.
Qed.

Lemma ssorted_app l1 l2 : ssorted l1 -> ssorted l2 -> (forall x y, In x l1 -> In y l2 -> x < y) -> ssorted (l1 ++ l2).
Proof.
  induction l1 as [|x t IH]; intros H1 H2 H12; [exact H2|].
  cbn [app]. destruct (ssorted_cons_inv x t H1) as [Ht Hx]. apply ssorted_cons.
  - apply IH; [exact Ht|exact H2|]. intros a b Ha Hb. apply H12; [right; exact Ha|exact Hb].
  - intros y Hy. apply in_app_or in Hy. destruct Hy as [Hy|Hy]; [apply Hx; exact Hy|].
    apply H12; [left; reflexivity|exact Hy].
Qed.

Lemma ssorted_single x : ssorted [x].
Proof. apply ssorted_cons; [apply ssorted_nil|]. intros y []. Qed.

(* two strictly sorted lists with the same elements are equal *)
Lemma ssorted_ext l1 l2 : ssorted l1 -> ssorted l2 -> (forall k, In k l1 <-> In k l2) -> l1 = l2.
Proof.
  revert l2. induction l1 as [|x t1 IH]; intros l2 H1 H2 Hin.
  - destruct l2 as [|y t2]; [reflexivity|]. exfalso. apply (proj2 (Hin y)). left; reflexivity.
  - destruct l2 as [|y t2]; [exfalso; apply (proj1 (Hin x)); left; reflexivity|].
    destruct (ssorted_cons_inv x t1 H1) as [Ht1 Hx]. destruct (ssorted_cons_inv y t2 H2) as [Ht2 Hy].
    assert (x = y) as ->.
    { destruct (proj1 (Hin x) (or_introl eq_refl)) as [E|E]; [symmetry; exact E|].
      destruct (proj2 (Hin y) (or_introl eq_refl)) as [E'|E']; [exact E'|].
      specialize (Hx y E'). specialize (Hy x E). lia. }
    f_equal. apply IH; [exact Ht1|exact Ht2|]. intros k. split; intros Hk.
    + destruct (proj1 (Hin k) (or_intror Hk)) as [E|E]; [|exact E]. specialize (Hx k Hk). lia.
    + destruct (proj2 (Hin k) (or_intror Hk)) as [E|E]; [|exact E]. specialize (Hy k Hk). lia.
Qed.

Lemma ssorted_bounds l i : ssorted l -> 0 <= i < len l -> nthZ l 0 <= nthZ l i <= nthZ l (len l - 1).
Proof.
  intros H Hi. pose proof (ssorted_sorted l H) as Hs. split; apply Hs; lia.
Qed.

Lemma ssorted_filter (p:Z -> bool) l : ssorted l -> ssorted (filter p l).
Proof.
  induction l as [|x t IH]; intros H; [exact H|].
  destruct (ssorted_cons_inv x t H) as [Ht Hx]. cbn [filter]. destruct (p x).
  - apply ssorted_cons; [apply IH; exact Ht|]. intros y Hy. apply filter_In in Hy. apply Hx. tauto.
  - apply IH; exact Ht.
Qed.

Lemma ssorted_zrange i n : ssorted (zrange i n).
Proof.
  revert i; induction n as [|n IH]; intros i; cbn [zrange]; [apply ssorted_nil|].
  apply ssorted_cons; [apply IH|]. intros y Hy. apply in_zrange in Hy. lia.
Qed.

(* nth of a map over a range *)
Lemma nthd_map_zrange {B} (d:B) (f:Z -> B) n i : 0 <= i < Z.of_nat n -> nthd d (map f (zrange 0 n)) i = f i.
Proof.
  intros Hi. unfold nthd.
  assert (forall s k, (k < n)%nat -> nth k (map f (zrange s n)) d = f (s + Z.of_nat k)) as G.
  { clear. induction n as [|n IH]; intros s k Hk; [lia|]. cbn [zrange map]. destruct k; cbn [nth].
    - f_equal. lia.
    - rewrite IH by lia. f_equal. lia. }
  rewrite G by lia. f_equal. lia.
Qed.

(* span_pairs as a table over positions *)
Lemma span_pairs_zrange sp :
  span_pairs sp = map (fun i => (nthZ sp i, nthZ sp (i + 1))) (zrange 0 (Z.to_nat (len sp - 1))).
Proof.
  induction sp as [|a t IH]; [reflexivity|].
  destruct t as [|b t'].
  - reflexivity.
  - change (span_pairs (a :: b :: t')) with ((a, b) :: span_pairs (b :: t')). rewrite IH.
    rewrite (len_cons a). replace (Z.to_nat (len (b :: t') + 1 - 1)) with (S (Z.to_nat (len (b :: t') - 1)))
      by (rewrite len_cons; pose proof (len_nonneg t'); lia).
    cbn [zrange map]. f_equal. rewrite zrange_shift, map_map. apply map_ext_in. intros i Hi.
    apply in_zrange in Hi. rewrite !nthZ_cons_succ by lia. reflexivity.
Qed.

Lemma len_span_pairs sp : len (span_pairs sp) = Z.max 0 (len sp - 1).
Proof. rewrite span_pairs_zrange. unfold len at 1. rewrite map_length, zrange_length. lia. Qed.
