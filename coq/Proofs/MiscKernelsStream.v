(* Proofs/MiscKernelsStream.v — ordered_inner_map_left_unique_streamed: the driver computes the global walk
   ilus_walk segment by segment (one kernel call = one segment), never raises, never overruns, terminates. *)
From Coq Require Import ZArith List Lia Bool.
From EV Require Import Res Arr MiscKernels MiscKernelsSpec MiscKernelsBase MiscKernelsInner.
Import ListNotations.
Open Scope Z_scope.

Lemma ilus_walk_nil_r bs l q i j : ilus_walk bs l q i j [] = [].
Proof. destruct l; reflexivity. Qed.

Lemma ilus_walk_cons bs x l' y r' q i j :
  ilus_walk bs (x :: l') q i j (y :: r') =
  if x <? y then ilus_walk bs l' q (i + 1) j (y :: r')
  else if y <? x then ilus_walk bs (x :: l') (next_q bs q) i (j + 1) r'
  else (i, j) :: (if (q <=? 1) || run_ends y r' then ilus_walk bs l' (next_q bs q) (i + 1) (j + 1) r'
                  else ilus_walk bs (x :: l') (next_q bs q) i (j + 1) r').
Proof. reflexivity. Qed.

Definition shift (i0 j0:Z) (ps:list (Z * Z)) : list (Z * Z) := map (fun p => (fst p + i0, snd p + j0)) ps.
Definition q_after (bs q n:Z) : Z := if n <? q then q - n else bs.

Lemma run_ends_app y rc' rrest : rc' <> [] -> run_ends y (rc' ++ rrest) = run_ends y rc'.
Proof. destruct rc'; [congruence|reflexivity]. Qed.

Section Seg.
Variables (bs i0 j0:Z).
Hypothesis Hbs : 1 <= bs.

(* one kernel call on the chunk remainders lc, rc = a segment of the global walk over lc ++ lrest, rc ++ rrest *)
Lemma segment lrest rrest : forall n lc rc cap q il jl,
  (length lc + length rc <= n)%nat -> 1 <= q <= bs ->
  (rc = [] \/ len rc = Z.min q (len (rc ++ rrest))) ->
  exists lp lc2 rp rc2,
    lc = lp ++ lc2 /\ rc = rp ++ rc2 /\
    fst (snd (ilu_walk lc cap il jl rc)) = il + len lp /\
    snd (snd (ilu_walk lc cap il jl rc)) = jl + len rp /\
    len (fst (ilu_walk lc cap il jl rc)) <= Z.max 0 cap /\
    (lc <> [] -> rc <> [] -> 0 < cap -> 0 < len lp + len rp) /\
    ilus_walk bs (lc ++ lrest) q (il + i0) (jl + j0) (rc ++ rrest) =
      shift i0 j0 (fst (ilu_walk lc cap il jl rc)) ++
      ilus_walk bs (lc2 ++ lrest) (q_after bs q (len rp)) (il + len lp + i0) (jl + len rp + j0) (rc2 ++ rrest).
Proof.
  assert (Hstop : forall lc rc cap q il jl, 1 <= q <= bs ->
            ilu_walk lc cap il jl rc = ([], (il, jl)) -> (lc <> [] -> rc <> [] -> 0 < cap -> False) ->
            exists lp lc2 rp rc2,
              lc = lp ++ lc2 /\ rc = rp ++ rc2 /\
              fst (snd (ilu_walk lc cap il jl rc)) = il + len lp /\
              snd (snd (ilu_walk lc cap il jl rc)) = jl + len rp /\
              len (fst (ilu_walk lc cap il jl rc)) <= Z.max 0 cap /\
              (lc <> [] -> rc <> [] -> 0 < cap -> 0 < len lp + len rp) /\
              ilus_walk bs (lc ++ lrest) q (il + i0) (jl + j0) (rc ++ rrest) =
                shift i0 j0 (fst (ilu_walk lc cap il jl rc)) ++
                ilus_walk bs (lc2 ++ lrest) (q_after bs q (len rp)) (il + len lp + i0) (jl + len rp + j0) (rc2 ++ rrest)).
  { intros lc rc cap q il jl Hq Hw Hno. exists [], lc, [], rc. rewrite Hw. cbn [fst snd app shift map].
    rewrite !len_nil. unfold q_after. replace (0 <? q) with true by (symmetry; apply Z.ltb_lt; lia).
    rewrite !Z.add_0_r, Z.sub_0_r. repeat split; try lia; [rewrite len_nil; lia|]. intros H1 H2 H3. exfalso. apply (Hno H1 H2 H3). }
  induction n as [|n IH]; intros lc rc cap q il jl Hn Hq Hrc.
  - destruct lc; [|cbn in Hn; lia]. apply Hstop; [assumption|reflexivity|congruence].
  - destruct lc as [|x lc']; [apply Hstop; [assumption|reflexivity|congruence]|].
    destruct rc as [|y rc']; [apply Hstop; [assumption|apply ilu_walk_nil_r|congruence]|].
    destruct Hrc as [Hrc|Hrc]; [discriminate|].
    rewrite ilu_walk_cons.
    destruct (cap <=? 0) eqn:Ecap.
    { apply Z.leb_le in Ecap.
      destruct (Hstop (x :: lc') (y :: rc') cap q il jl Hq) as (lp & lc2 & rp & rc2 & H).
      - rewrite ilu_walk_cons. replace (cap <=? 0) with true by (symmetry; apply Z.leb_le; lia). reflexivity.
      - intros; lia.
      - rewrite ilu_walk_cons in H. replace (cap <=? 0) with true in H by (symmetry; apply Z.leb_le; lia).
        exists lp, lc2, rp, rc2. exact H. }
    apply Z.leb_gt in Ecap. cbn [length] in Hn.
    change ((x :: lc') ++ lrest) with (x :: (lc' ++ lrest)).
    change ((y :: rc') ++ rrest) with (y :: (rc' ++ rrest)).
    rewrite ilus_walk_cons.
    (* the state of q and rc after moving j by one *)
    assert (Hq1 : 1 <= next_q bs q <= bs) by (unfold next_q; destruct (q <=? 1) eqn:E; [|apply Z.leb_gt in E]; lia).
    assert (Hrc1 : rc' = [] \/ len rc' = Z.min (next_q bs q) (len (rc' ++ rrest))).
    { change ((y :: rc') ++ rrest) with (y :: (rc' ++ rrest)) in Hrc. rewrite !len_cons in Hrc.
      unfold next_q. destruct (q <=? 1) eqn:E.
      - apply Z.leb_le in E. left. pose proof (len_nonneg rc'). pose proof (len_nonneg (rc' ++ rrest)).
        assert (len rc' = 0) by lia. destruct rc'; [reflexivity|rewrite len_cons in *; pose proof (len_nonneg rc'); lia].
      - apply Z.leb_gt in E. right. lia. }
    assert (Hqa : forall m, 0 <= m -> (q <= 1 -> m = 0) ->
              q_after bs (next_q bs q) m = q_after bs q (m + 1)).
    { intros m Hm H1. unfold q_after, next_q. destruct (q <=? 1) eqn:E.
      - apply Z.leb_le in E. rewrite (H1 E).
        replace (0 <? bs) with true by (symmetry; apply Z.ltb_lt; lia).
        replace (0 + 1 <? q) with false by (symmetry; apply Z.ltb_ge; lia). lia.
      - apply Z.leb_gt in E. destruct (m <? q - 1) eqn:E1.
        + apply Z.ltb_lt in E1. replace (m + 1 <? q) with true by (symmetry; apply Z.ltb_lt; lia). lia.
        + apply Z.ltb_ge in E1. replace (m + 1 <? q) with false by (symmetry; apply Z.ltb_ge; lia). reflexivity. }
    assert (Hrp0 : forall (rp rc2:list Z), rc' = rp ++ rc2 -> q <= 1 -> len rp = 0).
    { intros rp rc2 Hsplit H1. change ((y :: rc') ++ rrest) with (y :: (rc' ++ rrest)) in Hrc.
      rewrite !len_cons in Hrc. pose proof (len_nonneg (rc' ++ rrest)). pose proof (len_nonneg rc').
      assert (len rc' = 0) by lia. rewrite Hsplit, len_app in *. pose proof (len_nonneg rp). pose proof (len_nonneg rc2). lia. }
    destruct (x <? y).
    { destruct (IH lc' (y :: rc') cap q (il + 1) jl ltac:(cbn [length]; lia) Hq (or_intror Hrc))
        as (lp & lc2 & rp & rc2 & H1 & H2 & H3 & H4 & H5 & H6 & H7).
      exists (x :: lp), lc2, rp, rc2. rewrite len_cons.
      split; [cbn [app]; congruence|]. split; [assumption|]. split; [lia|]. split; [assumption|]. split; [assumption|].
      split; [intros; pose proof (len_nonneg lp); pose proof (len_nonneg rp); lia|].
      change ((y :: rc') ++ rrest) with (y :: (rc' ++ rrest)) in H7.
      replace (il + i0 + 1) with (il + 1 + i0) by lia. rewrite H7. do 2 f_equal. lia. }
    destruct (y <? x).
    { destruct (IH (x :: lc') rc' cap (next_q bs q) il (jl + 1) ltac:(cbn [length]; lia) Hq1 Hrc1)
        as (lp & lc2 & rp & rc2 & H1 & H2 & H3 & H4 & H5 & H6 & H7).
      exists lp, lc2, (y :: rp), rc2. rewrite len_cons.
      split; [assumption|]. split; [cbn [app]; congruence|]. split; [assumption|]. split; [lia|]. split; [assumption|].
      split; [intros; pose proof (len_nonneg lp); pose proof (len_nonneg rp); lia|].
      change ((x :: lc') ++ lrest) with (x :: (lc' ++ lrest)) in H7.
      replace (jl + j0 + 1) with (jl + 1 + j0) by lia. rewrite H7.
      rewrite (Hqa (len rp) (len_nonneg rp) (Hrp0 rp rc2 H2)). do 2 f_equal. lia. }
    (* equal keys: a pair is emitted *)
    assert (Hends : (q <=? 1) || run_ends y (rc' ++ rrest) = run_ends y rc').
    { destruct rc' as [|y' rc''].
      - cbn [app run_ends]. change ((y :: []) ++ rrest) with (y :: rrest) in Hrc.
        rewrite !len_cons, len_nil in Hrc. destruct (q <=? 1) eqn:E; [reflexivity|]. apply Z.leb_gt in E.
        destruct rrest; [reflexivity|]. rewrite len_cons in Hrc. pose proof (len_nonneg rrest). lia.
      - rewrite run_ends_app by congruence. replace (q <=? 1) with false; [reflexivity|].
        symmetry. apply Z.leb_gt. change (((y :: y' :: rc'') ++ rrest)) with (y :: y' :: (rc'' ++ rrest)) in Hrc.
        rewrite !len_cons in Hrc. pose proof (len_nonneg rc''). pose proof (len_nonneg (rc'' ++ rrest)). lia. }
    rewrite Hends. cbv zeta.
    destruct (run_ends y rc').
    + destruct (IH lc' rc' (cap - 1) (next_q bs q) (il + 1) (jl + 1) ltac:(lia) Hq1 Hrc1)
        as (lp & lc2 & rp & rc2 & H1 & H2 & H3 & H4 & H5 & H6 & H7).
      exists (x :: lp), lc2, (y :: rp), rc2. rewrite !len_cons. cbn [fst snd].
      split; [cbn [app]; congruence|]. split; [cbn [app]; congruence|]. split; [lia|]. split; [lia|].
      split; [rewrite len_cons; lia|].
      split; [intros; pose proof (len_nonneg lp); pose proof (len_nonneg rp); lia|].
      cbn [shift map app fst snd]. f_equal.
      replace (il + i0 + 1) with (il + 1 + i0) by lia. replace (jl + j0 + 1) with (jl + 1 + j0) by lia.
      fold (shift i0 j0 (fst (ilu_walk lc' (cap - 1) (il + 1) (jl + 1) rc'))). rewrite H7.
      rewrite (Hqa (len rp) (len_nonneg rp) (Hrp0 rp rc2 H2)). do 2 f_equal; lia.
    + destruct (IH (x :: lc') rc' (cap - 1) (next_q bs q) il (jl + 1) ltac:(cbn [length]; lia) Hq1 Hrc1)
        as (lp & lc2 & rp & rc2 & H1 & H2 & H3 & H4 & H5 & H6 & H7).
      exists lp, lc2, (y :: rp), rc2. rewrite !len_cons. cbn [fst snd].
      split; [assumption|]. split; [cbn [app]; congruence|]. split; [lia|]. split; [lia|].
      split; [rewrite len_cons; lia|].
      split; [intros; pose proof (len_nonneg lp); pose proof (len_nonneg rp); lia|].
      cbn [shift map app fst snd]. f_equal.
      replace (jl + j0 + 1) with (jl + 1 + j0) by lia.
      change ((x :: lc') ++ lrest) with (x :: (lc' ++ lrest)) in H7.
      fold (shift i0 j0 (fst (ilu_walk (x :: lc') (cap - 1) il (jl + 1) rc'))). rewrite H7.
      rewrite (Hqa (len rp) (len_nonneg rp) (Hrp0 rp rc2 H2)). do 2 f_equal; lia.
Qed.

End Seg.
