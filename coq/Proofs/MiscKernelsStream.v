(* Proofs/MiscKernelsStream.v — ordered_inner_map_left_unique_streamed: the driver computes the global walk
   ilus_walk segment by segment (one kernel call = one segment), never raises, never overruns, terminates. *)
From Coq Require Import ZArith List Lia Bool.
From EV Require Import Res Arr MiscKernels MiscKernelsSpec MiscKernelsBase MiscKernelsInner.
Import ListNotations.
Open Scope Z_scope.

Lemma ilus_walk_nil_r bs l q i j : ilus_walk bs l q i j [] = [].
Proof. destruct l; reflexivity. Qed.

Lemma ilus_walk_cons bs x l' y r' q i j :
  ilus_walk bs (x :: l') q i j (y :: r') =
  if x <? y then ilus_walk bs l' q (i + 1) j (y :: r')
  else if y <? x then ilus_walk bs (x :: l') (next_q bs q) i (j + 1) r'
  else (i, j) :: (if (q <=? 1) || run_ends y r' then ilus_walk bs l' (next_q bs q) (i + 1) (j + 1) r'
                  else ilus_walk bs (x :: l') (next_q bs q) i (j + 1) r').
Proof. reflexivity. Qed.

Definition shift (i0 j0:Z) (ps:list (Z * Z)) : list (Z * Z) := map (fun p => (fst p + i0, snd p + j0)) ps.
Definition q_after (bs q n:Z) : Z := if n <? q then q - n else bs.

Lemma run_ends_app y rc' rrest : rc' <> [] -> run_ends y (rc' ++ rrest) = run_ends y rc'.
Proof. destruct rc'; [congruence|reflexivity]. Qed.

Section Seg.
Variables (bs i0 j0:Z).
Hypothesis Hbs : 1 <= bs.

(* one kernel call on the chunk remainders lc, rc = a segment of the global walk over lc ++ lrest, rc ++ rrest *)
Lemma segment lrest rrest : forall n lc rc cap q il jl,
  (length lc + length rc <= n)%nat -> 1 <= q <= bs ->
  (rc = [] \/ len rc = Z.min q (len (rc ++ rrest))) ->
  exists lp lc2 rp rc2,
    lc = lp ++ lc2 /\ rc = rp ++ rc2 /\
    fst (snd (ilu_walk lc cap il jl rc)) = il + len lp /\
    snd (snd (ilu_walk lc cap il jl rc)) = jl + len rp /\
    len (fst (ilu_walk lc cap il jl rc)) <= Z.max 0 cap /\
    (lc <> [] -> rc <> [] -> 0 < cap -> 0 < len lp + len rp) /\
    ilus_walk bs (lc ++ lrest) q (il + i0) (jl + j0) (rc ++ rrest) =
      shift i0 j0 (fst (ilu_walk lc cap il jl rc)) ++
      ilus_walk bs (lc2 ++ lrest) (q_after bs q (len rp)) (il + len lp + i0) (jl + len rp + j0) (rc2 ++ rrest).
Proof.
  assert (Hstop : forall lc rc cap q il jl, 1 <= q <= bs ->
            ilu_walk lc cap il jl rc = ([], (il, jl)) -> (lc <> [] -> rc <> [] -> 0 < cap -> False) ->
            exists lp lc2 rp rc2,
              lc = lp ++ lc2 /\ rc = rp ++ rc2 /\
              fst (snd (ilu_walk lc cap il jl rc)) = il + len lp /\
              snd (snd (ilu_walk lc cap il jl rc)) = jl + len rp /\
              len (fst (ilu_walk lc cap il jl rc)) <= Z.max 0 cap /\
              (lc <> [] -> rc <> [] -> 0 < cap -> 0 < len lp + len rp) /\
              ilus_walk bs (lc ++ lrest) q (il + i0) (jl + j0) (rc ++ rrest) =
                shift i0 j0 (fst (ilu_walk lc cap il jl rc)) ++
                ilus_walk bs (lc2 ++ lrest) (q_after bs q (len rp)) (il + len lp + i0) (jl + len rp + j0) (rc2 ++ rrest)).
  { intros lc rc cap q il jl Hq Hw Hno. exists [], lc, [], rc. rewrite Hw. cbn [fst snd app shift map].
    rewrite !len_nil. unfold q_after. replace (0 <? q) with true by (symmetry; apply Z.ltb_lt; lia).
    rewrite !Z.add_0_r, Z.sub_0_r. repeat split; try lia; [rewrite len_nil; lia|]. intros H1 H2 H3. exfalso. apply (Hno H1 H2 H3). }
  induction n as [|n IH]; intros lc rc cap q il jl Hn Hq Hrc.
  - destruct lc; [|cbn in Hn; lia]. apply Hstop; [assumption|reflexivity|congruence].
  - destruct lc as [|x lc']; [apply Hstop; [assumption|reflexivity|congruence]|].
    destruct rc as [|y rc']; [apply Hstop; [assumption|apply ilu_walk_nil_r|congruence]|].
    destruct Hrc as [Hrc|Hrc]; [discriminate|].
    rewrite ilu_walk_cons.
    destruct (cap <=? 0) eqn:Ecap.
    { apply Z.leb_le in Ecap.
      destruct (Hstop (x :: lc') (y :: rc') cap q il jl Hq) as (lp & lc2 & rp & rc2 & H).
      - rewrite ilu_walk_cons. replace (cap <=? 0) with true by (symmetry; apply Z.leb_le; lia). reflexivity.
      - intros; lia.
      - rewrite ilu_walk_cons in H. replace (cap <=? 0) with true in H by (symmetry; apply Z.leb_le; lia).
        exists lp, lc2, rp, rc2. exact H. }
    apply Z.leb_gt in Ecap. cbn [length] in Hn.
    change ((x :: lc') ++ lrest) with (x :: (lc' ++ lrest)).
    change ((y :: rc') ++ rrest) with (y :: (rc' ++ rrest)).
    rewrite ilus_walk_cons.
    (* the state of q and rc after moving j by one *)
    assert (Hq1 : 1 <= next_q bs q <= bs) by (unfold next_q; destruct (q <=? 1) eqn:E; [|apply Z.leb_gt in E]; lia).
    assert (Hrc1 : rc' = [] \/ len rc' = Z.min (next_q bs q) (len (rc' ++ rrest))).
    { change ((y :: rc') ++ rrest) with (y :: (rc' ++ rrest)) in Hrc. rewrite !len_cons in Hrc.
      unfold next_q. destruct (q <=? 1) eqn:E.
      - apply Z.leb_le in E. left. pose proof (len_nonneg rc'). pose proof (len_nonneg (rc' ++ rrest)).
        assert (len rc' = 0) by lia. destruct rc'; [reflexivity|rewrite len_cons in *; pose proof (len_nonneg rc'); lia].
      - apply Z.leb_gt in E. right. lia. }
    assert (Hqa : forall m, 0 <= m -> (q <= 1 -> m = 0) ->
              q_after bs (next_q bs q) m = q_after bs q (m + 1)).
    { intros m Hm H1. unfold q_after, next_q. destruct (q <=? 1) eqn:E.
      - apply Z.leb_le in E. rewrite (H1 E).
        replace (0 <? bs) with true by (symmetry; apply Z.ltb_lt; lia).
        replace (0 + 1 <? q) with false by (symmetry; apply Z.ltb_ge; lia). lia.
      - apply Z.leb_gt in E. destruct (m <? q - 1) eqn:E1.
        + apply Z.ltb_lt in E1. replace (m + 1 <? q) with true by (symmetry; apply Z.ltb_lt; lia). lia.
        + apply Z.ltb_ge in E1. replace (m + 1 <? q) with false by (symmetry; apply Z.ltb_ge; lia). reflexivity. }
    assert (Hrp0 : forall (rp rc2:list Z), rc' = rp ++ rc2 -> q <= 1 -> len rp = 0).
    { intros rp rc2 Hsplit H1. change ((y :: rc') ++ rrest) with (y :: (rc' ++ rrest)) in Hrc.
      rewrite !len_cons in Hrc. pose proof (len_nonneg (rc' ++ rrest)). pose proof (len_nonneg rc').
      assert (len rc' = 0) by lia. rewrite Hsplit, len_app in *. pose proof (len_nonneg rp). pose proof (len_nonneg rc2). lia. }
    destruct (x <? y).
    { destruct (IH lc' (y :: rc') cap q (il + 1) jl ltac:(cbn [length]; lia) Hq (or_intror Hrc))
        as (lp & lc2 & rp & rc2 & H1 & H2 & H3 & H4 & H5 & H6 & H7).
      exists (x :: lp), lc2, rp, rc2. rewrite len_cons.
      split; [cbn [app]; congruence|]. split; [assumption|]. split; [lia|]. split; [assumption|]. split; [assumption|].
      split; [intros; pose proof (len_nonneg lp); pose proof (len_nonneg rp); lia|].
      change ((y :: rc') ++ rrest) with (y :: (rc' ++ rrest)) in H7.
      replace (il + i0 + 1) with (il + 1 + i0) by lia. rewrite H7. do 2 f_equal. lia. }
    destruct (y <? x).
    { destruct (IH (x :: lc') rc' cap (next_q bs q) il (jl + 1) ltac:(cbn [length]; lia) Hq1 Hrc1)
        as (lp & lc2 & rp & rc2 & H1 & H2 & H3 & H4 & H5 & H6 & H7).
      exists lp, lc2, (y :: rp), rc2. rewrite len_cons.
      split; [assumption|]. split; [cbn [app]; congruence|]. split; [assumption|]. split; [lia|]. split; [assumption|].
      split; [intros; pose proof (len_nonneg lp); pose proof (len_nonneg rp); lia|].
      change ((x :: lc') ++ lrest) with (x :: (lc' ++ lrest)) in H7.
      replace (jl + j0 + 1) with (jl + 1 + j0) by lia. rewrite H7.
      rewrite (Hqa (len rp) (len_nonneg rp) (Hrp0 rp rc2 H2)). do 2 f_equal. lia. }
    (* equal keys: a pair is emitted *)
    assert (Hends : (q <=? 1) || run_ends y (rc' ++ rrest) = run_ends y rc').
    { destruct rc' as [|y' rc''].
      - cbn [app run_ends]. change ((y :: []) ++ rrest) with (y :: rrest) in Hrc.
        rewrite !len_cons, len_nil in Hrc. destruct (q <=? 1) eqn:E; [reflexivity|]. apply Z.leb_gt in E.
        destruct rrest; [reflexivity|]. rewrite len_cons in Hrc. pose proof (len_nonneg rrest). lia.
      - rewrite run_ends_app by congruence. replace (q <=? 1) with false; [reflexivity|].
        symmetry. apply Z.leb_gt. change (((y :: y' :: rc'') ++ rrest)) with (y :: y' :: (rc'' ++ rrest)) in Hrc.
        rewrite !len_cons in Hrc. pose proof (len_nonneg rc''). pose proof (len_nonneg (rc'' ++ rrest)). lia. }
    rewrite Hends. cbv zeta.
    destruct (run_ends y rc').
    + destruct (IH lc' rc' (cap - 1) (next_q bs q) (il + 1) (jl + 1) ltac:(lia) Hq1 Hrc1)
        as (lp & lc2 & rp & rc2 & H1 & H2 & H3 & H4 & H5 & H6 & H7).
      exists (x :: lp), lc2, (y :: rp), rc2. rewrite !len_cons. cbn [fst snd].
      split; [cbn [app]; congruence|]. split; [cbn [app]; congruence|]. split; [lia|]. split; [lia|].
      split; [rewrite len_cons; lia|].
      split; [intros; pose proof (len_nonneg lp); pose proof (len_nonneg rp); lia|].
      cbn [shift map app fst snd]. f_equal.
      replace (il + i0 + 1) with (il + 1 + i0) by lia. replace (jl + j0 + 1) with (jl + 1 + j0) by lia.
      fold (shift i0 j0 (fst (ilu_walk lc' (cap - 1) (il + 1) (jl + 1) rc'))). rewrite H7.
      rewrite (Hqa (len rp) (len_nonneg rp) (Hrp0 rp rc2 H2)). do 2 f_equal; lia.
    + destruct (IH (x :: lc') rc' (cap - 1) (next_q bs q) il (jl + 1) ltac:(cbn [length]; lia) Hq1 Hrc1)
        as (lp & lc2 & rp & rc2 & H1 & H2 & H3 & H4 & H5 & H6 & H7).
      exists lp, lc2, (y :: rp), rc2. rewrite !len_cons. cbn [fst snd].
      split; [assumption|]. split; [cbn [app]; congruence|]. split; [lia|]. split; [lia|].
      split; [rewrite len_cons; lia|].
      split; [intros; pose proof (len_nonneg lp); pose proof (len_nonneg rp); lia|].
      cbn [shift map app fst snd]. f_equal.
      replace (jl + j0 + 1) with (jl + 1 + j0) by lia.
      change ((x :: lc') ++ lrest) with (x :: (lc' ++ lrest)) in H7.
      fold (shift i0 j0 (fst (ilu_walk (x :: lc') (cap - 1) il (jl + 1) rc'))). rewrite H7.
      rewrite (Hqa (len rp) (len_nonneg rp) (Hrp0 rp rc2 H2)). do 2 f_equal; lia.
Qed.

End Seg.

(* ------------------------------------------------------------------ chunk refill of one side *)
Lemma firstn_nonempty (l:list Z) n : l <> [] -> (0 < n)%nat -> firstn n l <> [].
Proof. destruct l; [congruence|]. destruct n; [lia|]. cbn. congruence. Qed.

Lemma refill_spec bs (X Xpre c2 rest:list Z) i' (r:Z * Z) next ii (c:list Z) :
  1 <= bs -> X = Xpre ++ c2 ++ rest -> len Xpre = i' -> snd r = i' + len c2 -> next = snd r ->
  skipn (Z.to_nat ii) c = c2 ->
  exists r' c' rest',
    (if (i' =? snd r) && (i' <? len X)
     then do '(rg, nx) <- chunks_next (len X) bs next; Ok (rg, nx, slice X (fst rg) (snd rg))
     else Ok (r, next, skipn (Z.to_nat ii) c)) = Ok (r', snd r', c') /\
    c2 ++ rest = c' ++ rest' /\ snd r' = i' + len c' /\ (rest' <> [] -> c' <> []) /\
    ((c2 = [] /\ rest <> [] /\ len c' = Z.min bs (len (c' ++ rest'))) \/ (c' = c2 /\ rest' = rest /\ (rest <> [] -> c2 <> []))).
Proof.
  intros Hbs HX Hi Hr Hn Hsk.
  assert (HlenX : len X = i' + len c2 + len rest) by (rewrite HX, !len_app; lia).
  pose proof (len_nonneg c2) as Hc2. pose proof (len_nonneg rest) as Hrest.
  destruct c2 as [|a c2'].
  - destruct rest as [|b rest0].
    + (* end of the column *)
      exists r, [], []. rewrite len_nil in *.
      replace (i' <? len X) with false by (symmetry; apply Z.ltb_ge; lia). rewrite andb_false_r.
      rewrite Hsk, Hn. repeat split; try congruence; try lia. right. repeat split; congruence.
    + (* next chunk *)
      rewrite len_nil in *. rewrite len_cons in *. pose proof (len_nonneg rest0) as Hrest0.
      replace (i' =? snd r) with true by (symmetry; apply Z.eqb_eq; lia).
      replace (i' <? len X) with true by (symmetry; apply Z.ltb_lt; lia). cbn [andb].
      unfold chunks_next. rewrite Hn. replace (snd r) with i' by lia.
      replace (i' <? len X) with true by (symmetry; apply Z.ltb_lt; lia). cbn [bind fst snd].
      set (e := Z.min (len X) (i' + bs)).
      set (kk := Z.to_nat (e - i')).
      exists (i', e), (firstn kk (b :: rest0)), (skipn kk (b :: rest0)).
      assert (Hsl : slice X i' e = firstn kk (b :: rest0)).
      { unfold slice. fold kk. f_equal. rewrite HX. cbn [app]. subst i'. unfold len. rewrite Nat2Z.id.
        apply skipn_len_app. }
      rewrite Hsl. cbn [snd].
      assert (Hkk : (0 < kk)%nat) by (unfold kk, e; lia).
      assert (Hlk : len (firstn kk (b :: rest0)) = e - i').
      { unfold len. rewrite firstn_length. cbn [length]. unfold kk, e. unfold len in *. cbn [length] in *. lia. }
      split; [reflexivity|]. split; [cbn [app]; symmetry; apply firstn_skipn|]. split; [lia|].
      split; [intros _; apply firstn_nonempty; [congruence|assumption]|].
      left. split; [reflexivity|]. split; [congruence|]. rewrite firstn_skipn, Hlk, len_cons. unfold e. lia.
  - (* the chunk still has rows *)
    exists r, (a :: c2'), rest. rewrite len_cons in *. pose proof (len_nonneg c2').
    replace (i' =? snd r) with false by (symmetry; apply Z.eqb_neq; lia). cbn [andb].
    rewrite Hsk, Hn. repeat split; try congruence; try lia. right. repeat split; congruence.
Qed.

(* ------------------------------------------------------------------ the driver invariant *)
Lemma len_overwrite (buf new:list Z) : len new <= len buf -> len (overwrite buf new) = len buf.
Proof. unfold overwrite, len. rewrite app_length, skipn_length. lia. Qed.

Lemma slice_overwrite (buf new:list Z) : len new <= len buf -> slice (overwrite buf new) 0 (len new) = new.
Proof.
  intros _. unfold slice, overwrite. cbn [Z.to_nat skipn]. rewrite Z.sub_0_r. unfold len. rewrite Nat2Z.id.
  apply firstn_len_app.
Qed.

Lemma out_append (out buf new:list Z) n : n = len new -> len new <= len buf ->
  (if 0 <? n then out ++ slice (overwrite buf new) 0 n else out) = out ++ new.
Proof.
  intros -> H. rewrite slice_overwrite by assumption. destruct new as [|z new]; [cbn; rewrite app_nil_r; reflexivity|].
  rewrite len_cons. pose proof (len_nonneg new).
  replace (0 <? len new + 1) with true by (symmetry; apply Z.ltb_lt; lia). reflexivity.
Qed.

Definition dinv (bs:Z) (L R:list Z) (s:ilus) (m:nat) : Prop :=
  exists Lpre lc lrest Rpre rc rrest q done,
    L = Lpre ++ lc ++ lrest /\ R = Rpre ++ rc ++ rrest /\
    u_lc s = lc /\ u_rc s = rc /\ len Lpre = u_i s /\ len Rpre = u_j s /\
    snd (u_lr s) = u_i s + len lc /\ snd (u_rr s) = u_j s + len rc /\
    u_lnext s = snd (u_lr s) /\ u_rnext s = snd (u_rr s) /\
    (lrest <> [] -> lc <> []) /\ (rrest <> [] -> rc <> []) /\
    1 <= q <= bs /\ (rc = [] \/ len rc = Z.min q (len (rc ++ rrest))) /\
    len (u_lti s) = bs /\ len (u_rti s) = bs /\
    u_outl s = map fst done /\ u_outr s = map snd done /\
    done ++ ilus_walk bs (lc ++ lrest) q (u_i s) (u_j s) (rc ++ rrest) = ilus_walk bs L bs 0 0 R /\
    (length (lc ++ lrest) + length (rc ++ rrest) <= m)%nat.

Lemma ilus_step bs L R s m : 1 <= bs -> dinv bs L R s m ->
  (ilus_iter bs L R s = Ok None /\
   u_outl s = map fst (ilus_walk bs L bs 0 0 R) /\ u_outr s = map snd (ilus_walk bs L bs 0 0 R)) \/
  (exists s' m', ilus_iter bs L R s = Ok (Some s') /\ dinv bs L R s' m' /\ (m' < m)%nat).
Proof.
  intros Hbs (Lpre & lc & lrest & Rpre & rc & rrest & q & done & HL & HR & Hlc & Hrc & Hi & Hj & Hlr & Hrr &
              Hln & Hrn & Hlne & Hrne & Hq & Hrq & Hlti & Hrti & Hol & Hor & Htot & Hm).
  unfold ilus_iter.
  assert (HlenL : len L = u_i s + len lc + len lrest) by (rewrite HL, !len_app; lia).
  assert (HlenR : len R = u_j s + len rc + len rrest) by (rewrite HR, !len_app; lia).
  destruct lc as [|x lc'].
  { left. assert (lrest = []) as -> by (destruct lrest; [reflexivity|exfalso; apply Hlne; congruence]).
    rewrite len_nil in HlenL. replace (u_i s <? len L) with false by (symmetry; apply Z.ltb_ge; lia).
    cbn [andb]. split; [reflexivity|]. cbn [app ilus_walk] in Htot. rewrite app_nil_r in Htot. subst done.
    split; assumption. }
  destruct rc as [|y rc'].
  { left. assert (rrest = []) as -> by (destruct rrest; [reflexivity|exfalso; apply Hrne; congruence]).
    rewrite len_nil in HlenR. replace (u_j s <? len R) with false by (symmetry; apply Z.ltb_ge; lia).
    rewrite andb_false_r. split; [reflexivity|]. cbn [app] in Htot. rewrite ilus_walk_nil_r, app_nil_r in Htot.
    subst done. split; assumption. }
  right.
  pose proof (len_nonneg lc') as Hlc'. pose proof (len_nonneg rc') as Hrc'.
  pose proof (len_nonneg lrest) as Hlrest. pose proof (len_nonneg rrest) as Hrrest.
  rewrite len_cons in *.
  replace (u_i s <? len L) with true by (symmetry; apply Z.ltb_lt; lia).
  replace (u_j s <? len R) with true by (symmetry; apply Z.ltb_lt; lia). cbn [andb].
  rewrite Hlc, Hrc.
  rewrite (ordered_inner_map_left_unique_partial_correct (u_i s) (u_j s) (x :: lc') (y :: rc') (u_lti s) (u_rti s))
    by (try (unfold ilu_pre_b; apply Z.leb_le); lia).
  unfold ilu_partial_spec.
  set (w := ilu_walk (x :: lc') (len (u_lti s)) 0 0 (y :: rc')).
  destruct Hrq as [Hrq|Hrq]; [discriminate|].
  destruct (segment bs (u_i s) (u_j s) Hbs lrest rrest (length (x :: lc') + length (y :: rc'))%nat
              (x :: lc') (y :: rc') (len (u_lti s)) q 0 0 (le_n _) Hq (or_intror (eq_trans (len_cons y rc') Hrq)))
    as (lp & lc2 & rp & rc2 & S1 & S2 & S3 & S4 & S5 & S6 & S7).
  fold w in S3, S4, S5, S7.
  set (ii := fst (snd w)) in *. set (jj := snd (snd w)) in *.
  pose proof (len_nonneg lp) as Hlp. pose proof (len_nonneg rp) as Hrp.
  pose proof (len_nonneg lc2) as Hlc2. pose proof (len_nonneg rc2) as Hrc2.
  assert (Hl1 : len lc' + 1 = len lp + len lc2) by (rewrite <- (len_cons x lc'), S1, len_app; reflexivity).
  assert (Hr1 : len rc' + 1 = len rp + len rc2) by (rewrite <- (len_cons y rc'), S2, len_app; reflexivity).
  assert (Hprog : 0 < len lp + len rp) by (apply S6; [congruence|congruence|lia]).
  cbn [bind].
  (* what is appended to the two result fields *)
  set (newl := map (fun p : Z * Z => fst p + u_i s) (fst w)).
  set (newr := map (fun p : Z * Z => snd p + u_j s) (fst w)).
  assert (Hnl : len newl = len (fst w)) by (unfold newl, len; rewrite map_length; reflexivity).
  assert (Hnr : len newr = len (fst w)) by (unfold newr, len; rewrite map_length; reflexivity).
  assert (Houtl : (if 0 <? len (fst w) then u_outl s ++ slice (overwrite (u_lti s) newl) 0 (len (fst w))
                   else u_outl s) = u_outl s ++ newl).
  { apply out_append; [symmetry; exact Hnl|lia]. }
  assert (Houtr : (if 0 <? len (fst w) then u_outr s ++ slice (overwrite (u_rti s) newr) 0 (len (fst w))
                   else u_outr s) = u_outr s ++ newr).
  { apply out_append; [symmetry; exact Hnr|lia]. }
  rewrite Houtl, Houtr.
  replace (snd (u_lr s) <? u_i s + ii) with false by (symmetry; apply Z.ltb_ge; lia).
  replace (snd (u_rr s) <? u_j s + jj) with false by (symmetry; apply Z.ltb_ge; lia).
  destruct (refill_spec bs L (Lpre ++ lp) lc2 lrest (u_i s + ii) (u_lr s) (u_lnext s) ii (x :: lc') Hbs)
    as (lr' & lcn & lrestn & F1 & F2 & F3 & F4 & F5);
    [rewrite HL, S1, <- !app_assoc; reflexivity | rewrite len_app; lia | lia | assumption
     | rewrite S1, S3; replace (Z.to_nat (0 + len lp)) with (length lp) by (unfold len; lia); apply skipn_len_app |].
  destruct (refill_spec bs R (Rpre ++ rp) rc2 rrest (u_j s + jj) (u_rr s) (u_rnext s) jj (y :: rc') Hbs)
    as (rr' & rcn & rrestn & G1 & G2 & G3 & G4 & G5);
    [rewrite HR, S2, <- !app_assoc; reflexivity | rewrite len_app; lia | lia | assumption
     | rewrite S2, S4; replace (Z.to_nat (0 + len rp)) with (length rp) by (unfold len; lia); apply skipn_len_app |].
  rewrite F1, G1.
  eexists. exists (length (lc2 ++ lrest) + length (rc2 ++ rrest))%nat.
  split; [reflexivity|]. split.
  - (* the invariant is re-established *)
    exists (Lpre ++ lp), lcn, lrestn, (Rpre ++ rp), rcn, rrestn,
           (if len rc2 =? 0 then (if len rrest =? 0 then q_after bs q (len rp) else bs) else q_after bs q (len rp)),
           (done ++ shift (u_i s) (u_j s) (fst w)).
    cbn [u_i u_j u_lr u_rr u_lnext u_rnext u_lc u_rc u_lti u_rti u_outl u_outr].
    assert (Hqa : 1 <= q_after bs q (len rp) <= bs).
    { unfold q_after. destruct (len rp <? q) eqn:E; [apply Z.ltb_lt in E|]; lia. }
    split; [rewrite HL, S1, <- !app_assoc, F2; reflexivity|].
    split; [rewrite HR, S2, <- !app_assoc, G2; reflexivity|].
    split; [reflexivity|]. split; [reflexivity|].
    split; [rewrite len_app; lia|]. split; [rewrite len_app; lia|].
    split; [assumption|]. split; [assumption|]. split; [reflexivity|]. split; [reflexivity|].
    split; [assumption|]. split; [assumption|].
    split; [destruct (len rc2 =? 0); [destruct (len rrest =? 0)|]; lia|].
    split.
    { destruct G5 as [(E1 & E2 & E3)|(E1 & E2 & E3)].
      - right. subst rc2. rewrite len_nil. cbn [Z.eqb].
        replace (len rrest =? 0) with false; [exact E3|].
        symmetry. apply Z.eqb_neq. destruct rrest; [congruence|rewrite len_cons; pose proof (len_nonneg rrest); lia].
      - subst rcn rrestn. destruct rc2 as [|c rc2']; [left; reflexivity|right].
        rewrite len_cons in *. pose proof (len_nonneg rc2').
        replace (len rc2' + 1 =? 0) with false by (symmetry; apply Z.eqb_neq; lia).
        change ((y :: rc') ++ rrest) with (y :: (rc' ++ rrest)) in Hrq.
        change ((c :: rc2') ++ rrest) with (c :: (rc2' ++ rrest)).
        rewrite !len_cons, !len_app in *. unfold q_after.
        replace (len rp <? q) with true by (symmetry; apply Z.ltb_lt; lia). lia. }
    split; [rewrite len_overwrite; lia|]. split; [rewrite len_overwrite; lia|].
    split; [rewrite map_app, Hol; f_equal; unfold newl, shift; rewrite map_map; reflexivity|].
    split; [rewrite map_app, Hor; f_equal; unfold newr, shift; rewrite map_map; reflexivity|].
    split.
    { rewrite <- Htot, <- app_assoc. f_equal. symmetry. rewrite !Z.add_0_l in S7.
      rewrite S7. f_equal. rewrite <- F2, <- G2.
      replace (len lp + u_i s) with (u_i s + ii) by lia. replace (len rp + u_j s) with (u_j s + jj) by lia.
      f_equal.
      destruct (len rc2 =? 0) eqn:E0; [|reflexivity]. destruct (len rrest =? 0) eqn:E1; [reflexivity|].
      apply Z.eqb_eq in E0. apply Z.eqb_neq in E1.
      change ((y :: rc') ++ rrest) with (y :: (rc' ++ rrest)) in Hrq. rewrite !len_cons, !len_app in Hrq.
      unfold q_after. replace (len rp <? q) with false by (symmetry; apply Z.ltb_ge; lia). reflexivity. }
    rewrite <- F2, <- G2. apply le_n.
  - (* progress *)
    rewrite !app_length. cbn [length] in Hm. rewrite !app_length in Hm. cbn [length] in Hm.
    unfold len in Hl1, Hr1, Hprog. lia.
Qed.

Lemma ilus_loop_spec bs L R : 1 <= bs -> forall fuel s m, dinv bs L R s m -> (m < fuel)%nat ->
  exists sf, ilus_loop fuel bs L R s = Ok sf /\
    u_outl sf = map fst (ilus_walk bs L bs 0 0 R) /\ u_outr sf = map snd (ilus_walk bs L bs 0 0 R).
Proof.
  intros Hbs. induction fuel as [|fuel IH]; intros s m HD Hf; [lia|]. cbn [ilus_loop].
  destruct (ilus_step bs L R s m Hbs HD) as [(E & O1 & O2)|(s' & m' & E & D & Lt)]; rewrite E; cbn [bind].
  - exists s. repeat split; assumption.
  - apply (IH s' m' D). lia.
Qed.

Lemma len_zeros n : 0 <= n -> len (zeros n) = n.
Proof. intros H. unfold zeros. rewrite len_repeat. lia. Qed.

Theorem streamed_bs_correct bs L R fuel : 1 <= bs -> L <> [] -> R <> [] -> (ilus_fuel L R <= fuel)%nat ->
  ordered_inner_map_left_unique_streamed_bs fuel bs L R = Ok (ilus_spec bs L R).
Proof.
  intros Hbs HL HR Hf. unfold ordered_inner_map_left_unique_streamed_bs, chunks_next, ilus_fuel in *.
  assert (HlL : 0 < len L) by (destruct L; [congruence|rewrite len_cons; pose proof (len_nonneg L); lia]).
  assert (HlR : 0 < len R) by (destruct R; [congruence|rewrite len_cons; pose proof (len_nonneg R); lia]).
  replace (0 <? len L) with true by (symmetry; apply Z.ltb_lt; lia).
  replace (0 <? len R) with true by (symmetry; apply Z.ltb_lt; lia). cbn [bind fst snd].
  set (kl := Z.to_nat (Z.min (len L) (0 + bs) - 0)). set (kr := Z.to_nat (Z.min (len R) (0 + bs) - 0)).
  assert (HsL : slice L 0 (Z.min (len L) (0 + bs)) = firstn kl L) by reflexivity.
  assert (HsR : slice R 0 (Z.min (len R) (0 + bs)) = firstn kr R) by reflexivity.
  rewrite HsL, HsR.
  assert (Hkl : (0 < kl)%nat) by (unfold kl; lia). assert (Hkr : (0 < kr)%nat) by (unfold kr; lia).
  assert (Hll : len (firstn kl L) = Z.min (len L) bs) by (unfold len; rewrite firstn_length; unfold kl, len; lia).
  assert (Hlr : len (firstn kr R) = Z.min (len R) bs) by (unfold len; rewrite firstn_length; unfold kr, len; lia).
  match goal with |- context [ilus_loop fuel bs L R ?s0] => set (s := s0) end.
  assert (HD : dinv bs L R s (length L + length R)).
  { exists [], (firstn kl L), (skipn kl L), [], (firstn kr R), (skipn kr R), bs, [].
    unfold s. cbn [u_i u_j u_lr u_rr u_lnext u_rnext u_lc u_rc u_lti u_rti u_outl u_outr fst snd app map].
    rewrite !firstn_skipn.
    repeat split; try reflexivity; try lia; try (rewrite len_zeros; lia);
      try (intros _; apply firstn_nonempty; assumption); try (right; lia). }
  destruct (ilus_loop_spec bs L R Hbs fuel s _ HD ltac:(lia)) as (sf & E & O1 & O2).
  rewrite E. cbn [bind]. unfold ilus_spec. rewrite O1, O2. reflexivity.
Qed.

Theorem ordered_inner_map_left_unique_streamed_correct L R fuel :
  L <> [] -> R <> [] -> (ilus_fuel L R <= fuel)%nat ->
  ordered_inner_map_left_unique_streamed fuel L R = Ok (ilus_spec 4 L R).
Proof. intros. apply streamed_bs_correct; try assumption. lia. Qed.

(* an empty column: next() on the exhausted chunk generator *)
Theorem ordered_inner_map_left_unique_streamed_empty_raises L R fuel : L = [] \/ R = [] ->
  ordered_inner_map_left_unique_streamed fuel L R = Raise E_StopIteration.
Proof.
  intros [->| ->]; unfold ordered_inner_map_left_unique_streamed, ordered_inner_map_left_unique_streamed_bs, chunks_next.
  - reflexivity.
  - destruct (0 <? len L); reflexivity.
Qed.

(* what the driver computes is not the inner join when a run of equal right keys crosses a chunk boundary:
   the left key is dropped at the boundary and the rest of the run finds no partner *)
Theorem ordered_inner_map_left_unique_streamed_chunk_boundary_refuted :
  exists L R, ssorted L /\ sorted R /\
    ordered_inner_map_left_unique_streamed (ilus_fuel L R) L R <> Ok (inner_left_unique_join L R).
Proof.
  exists [1], [0;0;0;1;1]. split; [apply ssortedb_ssorted; reflexivity|].
  split; [apply sortedb_sorted; reflexivity|]. vm_compute. discriminate.
Qed.

Example ordered_inner_map_left_unique_streamed_example :
  ordered_inner_map_left_unique_streamed 40 [0;1;2;3;5;6;7;8] [0;1;1;2;4;5;5;6;8;9;9;10] =
  Ok (inner_left_unique_join [0;1;2;3;5;6;7;8] [0;1;1;2;4;5;5;6;8;9;9;10]).
Proof. vm_compute. reflexivity. Qed.
