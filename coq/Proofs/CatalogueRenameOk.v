(* Proofs/CatalogueRenameOk.v — WHEN DataFrame.rename succeeds (C15).  CatalogueRename.df_rename_run says what a rename
   does when it returns and that it changes nothing when it raises; this file says which of the two happens, for every
   order in which the columns were created (the two passes iterate _columns in creation order; the order decides which
   temporary names get_unique_name hands out): the rename returns exactly when its keys are distinct column names and
   the resulting names are distinct.  In particular EVERY permutation / cycle / chain of the column names, over any
   names ('_'-suffixed variants of one another included) and any creation order, succeeds. *)
From Coq Require Import ZArith List Bool Lia Arith.
From EV Require Import Res Catalogue CatalogueSpec CatalogueBase CatalogueInv CatalogueRename CatalogueStep.
Import ListNotations.
Open Scope Z_scope.

(* the run of a rename whose two checks pass: both passes go through (same proof as df_rename_run, which only states
   the disjunction) *)
Theorem df_rename_run_ok c g m s rest :
  fix_a c = true -> df_ok s g ->
  remove_keys (d_keys (py_cols s g)) (d_keys m) = Ok rest -> clash_list rest (map snd m) [] = [] ->
  exists s1, same_but_grp s s1 g /\
     df_rename c g m s = (set_py_cols s1 (fupd (py_cols s1) g (renamed m (py_cols s g))), Ok tt) /\
     NoDup (d_keys (h5_grp s1 g)) /\ same_map (h5_grp s1 g) (renamed m (py_cols s g)).
Proof.
  intros FA [ND1 ND2 SM FL] R C.
  assert (DR : df_rename c g m s =
     match remove_keys (d_keys (py_cols s g)) (d_keys m) with
     | Ok keys => if negb (length (clash_list keys (map snd m) []) =? 0)%nat then (s, Raise E_ValueError)
                  else bindM (rename_pass1 (fix_a c) g m (py_cols s g) (d_keys (py_cols s g)) [] [])
                         (fun p => bindM (rename_pass2 g (fst p) (snd p) [])
                                     (fun final => modify (fun s0 => set_py_cols s0 (fupd (py_cols s0) g final)))) s
     | OOB x => (s, OOB x) | Raise e => (s, Raise e) | OutOfFuel => (s, OutOfFuel)
     end).
  { unfold df_rename. unfold bindM at 1. unfold mget at 1. cbv zeta. unfold bindM at 1. unfold liftR at 1.
    destruct (remove_keys (d_keys (py_cols s g)) (d_keys m)); try reflexivity.
    destruct (negb (length (clash_list a (map snd m) []) =? 0)%nat); reflexivity. }
  rewrite DR. clear DR. rewrite R, C. cbn [length Nat.eqb negb].
  pose proof (subst_NoDup m _ rest ND1 R C) as NS.
  rewrite FA.
  destruct (pass1_ok g m (py_cols s g) s (d_keys (py_cols s g)) [] []) as (s1 & fr' & Q & R1 & SB1 & NDH1 & SM1 & NDM & FQ & FL1 & FR1 & LO1).
  - exact ND2.
  - intros k. cbn [tab map app]. symmetry. apply SM.
  - exact ND1.
  - cbn. apply incl_refl.
  - intros ? [].
  - intros ? [].
  - intros ? [].
  - exact I.
  - exact NS.
  - cbn [app] in R1, SM1, NDM, FR1, LO1.
    destruct (pass2_ok g fr' Q s1 []) as (s2 & R2 & SB2 & NDH2 & SM2).
    + exact NDH1.
    + exact SM1.
    + exact NDM.
    + cbn [fins map app]. change (map e_fin Q) with (fins Q). rewrite FQ. exact NS.
    + exact LO1.
    + exact FR1.
    + exists s2. cbn [app] in R2, SM2. rewrite (ftab_renamed m Q (py_cols s g) FQ FL1) in R2, SM2.
      split; [eapply sbg_trans; eassumption|]. split.
      * unfold bindM at 1.
        change (rename_pass1 true g m (py_cols s g) (d_keys (py_cols s g)) [] [] s)
          with (rename_pass1 true g m (py_cols s g) (d_keys (py_cols s g)) [] (tab []) s).
        rewrite R1. cbn [fst snd]. unfold bindM at 1.
        change (rename_pass2 g fr' (tab Q) [] s1) with (rename_pass2 g fr' (tab Q) (ftab []) s1).
        rewrite R2. reflexivity.
      * split; [exact NDH2 | exact SM2].
Qed.

(* ------------------------------------------------------------------ the two checks, completely *)
Lemma remove_keys_complete : forall ks keys,
  NoDup keys -> NoDup ks -> incl ks keys -> exists rest, remove_keys keys ks = Ok rest.
Proof.
  induction ks as [|k t IH]; intros keys NK ND IN; cbn [remove_keys]; [eauto|].
  inversion ND as [|? ? NI ND']; subst.
  assert (Hk : nmem k keys = true) by (apply nmem_In; apply IN; left; reflexivity). rewrite Hk.
  apply IH; [apply nremove_NoDup; exact NK | exact ND'|].
  intros x Hx. apply nremove_In; [exact NK|]. split; [apply IN; right; exact Hx | intros ->; contradiction].
Qed.

Lemma clash_list_complete : forall vs keys,
  NoDup vs -> (forall v, In v vs -> ~ In v keys) -> clash_list keys vs [] = [].
Proof.
  induction vs as [|v t IH]; intros keys ND H; cbn [clash_list]; [reflexivity|].
  inversion ND as [|? ? NI ND']; subst.
  assert (Hv : nmem v keys = false) by (apply nmem_false; apply H; left; reflexivity). rewrite Hv.
  apply IH; [exact ND'|]. intros x Hx I. apply in_app_iff in I. destruct I as [I|[->|[]]].
  - apply (H x); [right; exact Hx | exact I].
  - contradiction.
Qed.

Lemma NoDup_map_injective {A B} (f:A -> B) : forall l a b,
  NoDup (map f l) -> In a l -> In b l -> f a = f b -> a = b.
Proof.
  induction l as [|h t IH]; intros a b ND Ia Ib E; [destruct Ia|]. cbn [map] in ND.
  inversion ND as [|? ? NI ND']; subst. destruct Ia as [->|Ia]; destruct Ib as [->|Ib].
  - reflexivity.
  - exfalso. apply NI. rewrite E. apply in_map. exact Ib.
  - exfalso. apply NI. rewrite <- E. apply in_map. exact Ia.
  - apply IH; assumption.
Qed.

Lemma subst_key (m:ndict) k v : NoDup (d_keys m) -> In (k, v) m -> subst m k = v.
Proof. intros ND I. unfold subst. rewrite (In_d_find m k v ND I). reflexivity. Qed.

Lemma values_as_subst (m:ndict) : NoDup (d_keys m) -> map snd m = map (subst m) (d_keys m).
Proof.
  intros ND. unfold d_keys. rewrite map_map. apply map_ext_in. intros [k v] I. cbn [fst snd].
  symmetry. apply subst_key; assumption.
Qed.

(* ---- the rename returns exactly when its keys are distinct column names and the resulting names are distinct *)
Theorem rename_succeeds_iff c g m s :
  fix_a c = true -> df_ok s g ->
  ((exists s', df_rename c g m s = (s', Ok tt)) <->
   (NoDup (d_keys m) /\ incl (d_keys m) (d_keys (py_cols s g)) /\ NoDup (map (subst m) (d_keys (py_cols s g))))).
Proof.
  intros FA DG. pose proof (dk_nd_py _ _ DG) as NDc. split.
  - intros [s' E].
    (* read the checks off the code *)
    unfold df_rename in E. unfold bindM at 1 in E. unfold mget at 1 in E. cbv zeta in E. unfold bindM at 1 in E. unfold liftR at 1 in E.
    destruct (remove_keys (d_keys (py_cols s g)) (d_keys m)) as [rest|x|e|] eqn:R; try (inversion E; fail).
    destruct (length (clash_list rest (map snd m) []) =? 0)%nat eqn:C; cbn [negb] in E; [|inversion E].
    apply length0_nil in C. destruct (remove_keys_spec _ _ _ NDc R) as (A & B & _ & _).
    split; [exact A|]. split; [exact B|]. eapply subst_NoDup; eassumption.
  - intros (NDm & INC & NS).
    destruct (remove_keys_complete (d_keys m) (d_keys (py_cols s g)) NDc NDm INC) as [rest R].
    destruct (remove_keys_spec _ _ _ NDc R) as (_ & _ & _ & D).
    assert (C : clash_list rest (map snd m) [] = []).
    { apply clash_list_complete.
      - rewrite (values_as_subst m NDm). apply NoDup_map_inj; [exact NDm|].
        intros a b Ia Ib Eab. eapply (NoDup_map_injective (subst m)); [exact NS | apply INC; exact Ia | apply INC; exact Ib | exact Eab].
      - intros v Iv Ir. rewrite (values_as_subst m NDm) in Iv. apply in_map_iff in Iv. destruct Iv as (k & Ek & Ik).
        apply D in Ir. destruct Ir as [Ic Nk].
        assert (Sv : subst m v = v) by (unfold subst; rewrite (proj2 (d_find_None m v) Nk); reflexivity).
        assert (Hvk : v = k).
        { eapply (NoDup_map_injective (subst m)); [exact NS | exact Ic | apply INC; exact Ik | congruence]. }
        apply Nk. rewrite Hvk. exact Ik. }
    destruct (df_rename_run_ok c g m s rest FA DG R C) as (s1 & _ & E & _). eauto.
Qed.

(* ---- every permutation of the column names (every cycle, swap, chain that ends on a vacated name; identities allowed),
   whatever the names and whatever the order in which the columns were created, is carried out: the frame then lists
   `subst m` of its old names in the old order and the h5 group holds the same map *)
Theorem permutation_rename_succeeds c g m s :
  fix_a c = true -> df_ok s g ->
  NoDup (d_keys m) -> incl (d_keys m) (d_keys (py_cols s g)) ->
  NoDup (map (subst m) (d_keys (py_cols s g))) ->
  exists s', df_rename c g m s = (s', Ok tt) /\ py_cols s' g = renamed m (py_cols s g) /\
             same_map (h5_grp s' g) (py_cols s' g).
Proof.
  intros FA DG NDm INC NS. pose proof (dk_nd_py _ _ DG) as NDc.
  destruct (proj2 (rename_succeeds_iff c g m s FA DG) (conj NDm (conj INC NS))) as [s' E].
  destruct (df_rename_run c g m s FA DG) as [[e R]|(s1 & SB & R & NDH & SM & _)]; rewrite R in E; [discriminate E|].
  clear E. eexists. split; [exact R|]. cbn. rewrite fupd_same. split; [reflexivity | exact SM].
Qed.

(* the smallest histories of the seeded class: columns created as a_, a__, a and the 3-cycle; columns a, b_, a_, b and
   two swaps at once — computed on the model, both sides, handles included *)
Definition nA := [97]. Definition nA_ := [97; 95]. Definition nA__ := [97; 95; 95].
Definition nB := [98]. Definition nB_ := [98; 95]. Definition nD := [100].
Definition cfg_rep := mkCfg true true true.
Definition frame_of (cols:list name) : list op :=
  OCreateDF 0 nD :: map (fun n => OCreate 0 nD n 0 [1; 2]) cols.
Example three_cycle_computed :
  let s := run_ops cfg_rep (frame_of [nA_; nA__; nA]) init_state in
  let (s', r) := step cfg_rep (ORename 0 nD [(nA_, nA__); (nA__, nA); (nA, nA_)]) s in
  is_ok r = true /\ py_cols s' 1 = [(nA__, 2); (nA, 3); (nA_, 4)] /\
  map (d_find (h5_grp s' 1)) [nA__; nA; nA_] = [Some 2; Some 3; Some 4] /\ length (h5_grp s' 1) = 3%nat.
Proof. vm_compute. repeat split; reflexivity. Qed.
Example two_swaps_computed :
  let s := run_ops cfg_rep (frame_of [nA; nB_; nA_; nB]) init_state in
  let (s', r) := step cfg_rep (ORename 0 nD [(nA, nB_); (nB_, nA); (nA_, nB); (nB, nA_)]) s in
  is_ok r = true /\ py_cols s' 1 = [(nB_, 2); (nA, 3); (nB, 4); (nA_, 5)] /\
  map (d_find (h5_grp s' 1)) [nB_; nA; nB; nA_] = [Some 2; Some 3; Some 4; Some 5] /\ length (h5_grp s' 1) = 4%nat.
Proof. vm_compute. repeat split; reflexivity. Qed.

(* ---- the same for the history step ds_i[d].rename(m) in a consistent state *)
Lemma rename_step_is_df_rename c i d m s g :
  d_find (py_dfs s i) d = Some g -> step c (ORename i d m) s = df_rename c g m s.
Proof. intros H. cbn [step]. unfold bindM at 1. unfold ds_getitem. rewrite H. reflexivity. Qed.

Theorem rename_step_succeeds_iff c i d m s g :
  fix_a c = true -> Inv s -> d_find (py_dfs s i) d = Some g ->
  ((exists s', step c (ORename i d m) s = (s', Ok tt)) <->
   (NoDup (d_keys m) /\ incl (d_keys m) (d_keys (py_cols s g)) /\ NoDup (map (subst m) (d_keys (py_cols s g))))).
Proof.
  intros FA I H. rewrite (rename_step_is_df_rename c i d m s g H).
  apply rename_succeeds_iff; [exact FA|]. apply (ib_df _ (proj2 I)). eapply catalogued_linked; [exact (proj1 I) | exact H].
Qed.
