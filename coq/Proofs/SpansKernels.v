(* Proofs/SpansKernels.v — the compiled span kernels (_get_spans_for_2_fields_njit,
   _get_spans_for_multi_fields_njit) return the reference span list of the zipped column. *)
From Coq Require Import ZArith List Lia Bool.
From EV Require Import Res Arr Spans SpansSpec SpansBase SpansRef.
Import ListNotations.
Open Scope Z_scope.

Lemma np_slice_firstn {A} (l:list A) m : 0 <= m <= len l -> np_slice l 0 m = firstn (Z.to_nat m) l.
Proof.
  intros H. pose proof (len_nonneg l) as Hl. unfold np_slice, norm_bound, slice. change (0 <? 0) with false. cbv iota.
  destruct (m <? 0) eqn:E; [lia|]. rewrite (Z.min_l 0) by lia. rewrite (Z.min_l m) by lia.
  cbn [Z.to_nat skipn]. f_equal. lia.
Qed.

Lemma filter_snoc {A} (p:A -> bool) l x : filter p (l ++ [x]) = filter p l ++ (if p x then [x] else []).
Proof. induction l as [|h t IH]; cbn [app filter]; [destruct (p x); reflexivity|]. rewrite IH. destruct (p h); reflexivity. Qed.

Lemma len_filter_le {A} (p:A -> bool) l : len (filter p l) <= len l.
Proof. unfold len. induction l as [|h t IH]; cbn [filter length]; [lia|]. destruct (p h); cbn [length]; lia. Qed.

(* ---- the common loop: count/spans state, boundary test ne ---------------------------------------- *)
Section Loop.
Variable ne : Z -> bool.
Variable n : Z.
Variable body : Z -> Z * list Z -> res (Z * list Z).
Hypothesis Hbody : forall i count spans, 1 <= i < n -> 0 <= count < i -> len spans = n + 1 ->
  body i (count, spans) = Ok (if ne i then (count + 1, upd spans (count + 1) i) else (count, spans)).

Definition F (k:Z) : list Z := filter ne (zrange 1 (Z.to_nat (k - 1))).

Lemma span_loop spans0 : 1 <= n -> len spans0 = n + 1 -> nthZ spans0 0 = 0 ->
  exists count spans, for_range (range_len 1 n) 1 body (0, spans0) = Ok (count, spans) /\
    len spans = n + 1 /\ count = len (F n) /\ 0 <= count < n /\
    firstn (Z.to_nat (count + 1)) spans = 0 :: F n.
Proof.
  intros Hn Hl H0.
  destruct (for_range_inv (fun k (st:Z * list Z) => let '(count, spans) := st in
              1 <= k <= n /\ len spans = n + 1 /\ count = len (F k) /\ 0 <= count < k /\
              firstn (Z.to_nat (count + 1)) spans = 0 :: F k)
            body (range_len 1 n) 1 (0, spans0)) as [[count spans] [Hr Hp]].
  - split; [lia|]. split; [exact Hl|]. unfold F. cbn [Z.sub Z.to_nat zrange filter]. 
    replace (Z.to_nat (1 - 1)) with 0%nat by lia. cbn [zrange filter].
    split; [reflexivity|]. split; [lia|]. cbn [Z.add Z.to_nat Pos.to_nat Pos.iter_op Nat.add firstn].
    destruct spans0 as [|s0 t0]; [unfold len in Hl; cbn in Hl; lia|]. cbn [firstn]. cbn in H0. rewrite H0. reflexivity.
  - unfold range_len. intros k [count spans] Hk [Hk1 [Hls [Hc [Hcb Hf]]]].
    rewrite Hbody by lia.
    assert (HF : F (k + 1) = F k ++ (if ne k then [k] else [])).
    { unfold F. replace (Z.to_nat (k + 1 - 1)) with (S (Z.to_nat (k - 1))) by lia.
      rewrite zrange_snoc, filter_snoc. replace (1 + Z.of_nat (Z.to_nat (k - 1))) with k by lia. reflexivity. }
    destruct (ne k) eqn:En.
    + exists (count + 1, upd spans (count + 1) k). split; [reflexivity|].
      split; [lia|]. split; [rewrite len_upd; exact Hls|].
      split; [rewrite HF, len_app; replace (len [k]) with 1 by reflexivity; lia|]. split; [lia|].
      replace (Z.to_nat (count + 1 + 1)) with (S (Z.to_nat (count + 1))) by lia.
      unfold upd. rewrite firstn_succ_upd_nat by (unfold len in Hls; lia).
      rewrite Hf, HF. reflexivity.
    + exists (count, spans). split; [reflexivity|]. split; [lia|]. split; [exact Hls|].
      rewrite HF, app_nil_r. split; [exact Hc|]. split; [lia|]. exact Hf.
  - exists count, spans. split; [exact Hr|]. unfold range_len in Hp.
    replace (1 + Z.of_nat (Z.to_nat (n - 1))) with n in Hp by lia. tauto.
Qed.

(* the loop followed by the closing write and the final slice *)
Lemma span_loop_close spans0 (s1 s2:Z) : 1 <= n -> len spans0 = n + 1 ->
  (do spans <- set s1 spans0 0 0;
   do '(count, spans) <- for_range (range_len 1 n) 1 body (0, spans);
   do '(count, spans) <-
     (if 0 <? n then do spans' <- set s2 spans (count + 1) n; Ok (count + 1, spans')
      else Ok (count, spans));
   Ok (np_slice spans 0 (count + 1))) = Ok (0 :: F n ++ [n]).
Proof.
  intros Hn Hl. rewrite set_ok by lia. cbn [bind].
  destruct (span_loop (upd spans0 0 0)) as [count [spans [Hr [Hls [Hc [Hcb Hf]]]]]];
    [exact Hn|rewrite len_upd; exact Hl| |].
  { unfold nthZ. apply nthd_upd_same. lia. }
  rewrite Hr. cbn [bind]. destruct (0 <? n) eqn:E; [|lia].
  rewrite set_ok by lia. cbn [bind].
  rewrite np_slice_firstn by (rewrite len_upd; lia).
  replace (Z.to_nat (count + 1 + 1)) with (S (Z.to_nat (count + 1))) by lia.
  unfold upd. rewrite firstn_succ_upd_nat by (unfold len in Hls; lia). rewrite Hf. reflexivity.
Qed.
End Loop.

(* F with a test that agrees with bnd on [1, n) is the interior of the reference *)
Lemma F_inner {A} (d:A) neqb (xs:list A) (ne:Z -> bool) :
  (forall k, 1 <= k < len xs -> ne k = bnd d neqb xs k) -> F ne (len xs) = inner d neqb xs.
Proof.
  intros H. unfold F, inner. replace (Z.to_nat (len xs - 1)) with (length xs - 1)%nat by (unfold len; lia).
  apply filter_ext_in. intros k Hk. apply in_zrange in Hk. apply H. unfold len. lia.
Qed.

Lemma neqb_sym {A} (neqb:A -> A -> bool) (H:forall x y, neqb x y = false <-> x = y) x y : neqb x y = neqb y x.
Proof.
  destruct (neqb x y) eqn:E1, (neqb y x) eqn:E2; try reflexivity.
  - apply H in E2. subst. assert (neqb x x = false) by (apply H; reflexivity). congruence.
  - apply H in E1. subst. assert (neqb y y = false) by (apply H; reflexivity). congruence.
Qed.

(* ---- two fields ------------------------------------------------------------------------------------ *)
Section TwoFields.
Context {A B:Type}.
Variable neqbA : A -> A -> bool.
Variable neqbB : B -> B -> bool.
Variable dA : A.
Variable dB : B.
Hypothesis HA : forall x y, neqbA x y = false <-> x = y.
Hypothesis HB : forall x y, neqbB x y = false <-> x = y.

(* inequality of zipped rows *)
Definition pair_neqb (p q:A * B) : bool := neqbA (fst p) (fst q) || neqbB (snd p) (snd q).

Lemma pair_neqb_spec p q : pair_neqb p q = false <-> p = q.
Proof.
  destruct p as [a b], q as [a' b']. unfold pair_neqb. cbn [fst snd]. rewrite orb_false_iff, HA, HB.
  split; [intros [-> ->]; reflexivity|intros H; inversion H; auto].
Qed.

Theorem get_spans_for_2_fields_ref (a0:list A) (a1:list B) : len a0 = len a1 ->
  get_spans_for_2_fields neqbA neqbB a0 a1 = Ok (spans_ref pair_neqb (combine a0 a1)).
Proof.
  intros Hlen. destruct a0 as [|x0 t0] eqn:E0.
  - destruct a1; [reflexivity|]. rewrite len_cons, len_nil in Hlen. pose proof (len_nonneg a1). lia.
  - rewrite <- E0 in *. set (n := len a0).
    assert (Hn : 1 <= n) by (unfold n; rewrite E0, len_cons; pose proof (len_nonneg t0); lia).
    set (xs := combine a0 a1).
    assert (Hxs : len xs = n). { unfold xs, len in *. rewrite combine_length. lia. }
    assert (Hne : xs <> []). { intros H. rewrite H in Hxs. rewrite len_nil in Hxs. lia. }
    rewrite (spans_ref_closed (dA, dB)) by exact Hne.
    unfold get_spans_for_2_fields, get_spans_for_2_fields_njit. fold n.
    set (ne := fun i => neqbA (nthd dA a0 i) (nthd dA a0 (i - 1)) || neqbB (nthd dB a1 i) (nthd dB a1 (i - 1))).
    rewrite (span_loop_close ne n (spans2_body neqbA neqbB a0 a1)).
    + rewrite Hxs. f_equal. f_equal. f_equal. rewrite <- Hxs. apply F_inner.
      intros k Hk. unfold ne, bnd, xs, pair_neqb, nthd.
      rewrite !combine_nth by (unfold len in Hlen; lia). cbn [fst snd].
      rewrite (neqb_sym neqbA HA), (neqb_sym neqbB HB). reflexivity.
    + intros i count spans Hi Hc Hl. unfold spans2_body.
      rewrite (get_ok 11 dA) by (fold n; lia). cbn [bind].
      rewrite (get_ok 12 dA) by (fold n; lia). cbn [bind].
      unfold ne. destruct (neqbA (nthd dA a0 i) (nthd dA a0 (i - 1))) eqn:E1; cbn [bind orb].
      * rewrite set_ok by lia. reflexivity.
      * rewrite (get_ok 13 dB) by (rewrite <- Hlen; fold n; lia). cbn [bind].
        rewrite (get_ok 14 dB) by (rewrite <- Hlen; fold n; lia). cbn [bind].
        destruct (neqbB (nthd dB a1 i) (nthd dB a1 (i - 1))); [rewrite set_ok by lia|]; reflexivity.
    + exact Hn.
    + unfold len. rewrite repeat_length. unfold n, len. lia.
Qed.
End TwoFields.

(* ---- several fields ------------------------------------------------------------------------------- *)
Section Multi.
Context {A:Type}.
Variable neqb : A -> A -> bool.
Variable d : A.
Hypothesis Hneqb : forall x y, neqb x y = false <-> x = y.

(* inequality of rows (lists of keys) *)
Fixpoint list_neqb (a b:list A) : bool :=
  match a, b with
  | [], [] => false
  | x :: a', y :: b' => neqb x y || list_neqb a' b'
  | _, _ => true
  end.
Lemma list_neqb_spec a b : list_neqb a b = false <-> a = b.
Proof.
  revert b. induction a as [|x a IH]; intros [|y b]; cbn [list_neqb]; try (split; congruence).
  rewrite orb_false_iff, IH, Hneqb. split; [intros [-> ->]; reflexivity|intros H; inversion H; auto].
Qed.

(* the table seen as a column of rows *)
Definition row_at (fields:list (list A)) (i:Z) : list A := map (fun f => nthd d f i) fields.
Definition rows_of (fields:list (list A)) (n:Z) : list (list A) := map (row_at fields) (zrange 0 (Z.to_nat n)).

Lemma multi_not_equal_ok fields n i : Forall (fun f => len f = n) fields -> 1 <= i < n ->
  multi_not_equal neqb fields i = Ok (list_neqb (row_at fields (i - 1)) (row_at fields i)).
Proof.
  intros Hall Hi. induction Hall as [|f t Hf Ht IH]; [reflexivity|].
  cbn [multi_not_equal row_at map list_neqb].
  rewrite (get_ok 22 d) by lia. cbn [bind]. rewrite (get_ok 23 d) by lia. cbn [bind].
  rewrite (neqb_sym neqb Hneqb (nthd d f (i - 1))).
  destruct (neqb (nthd d f i) (nthd d f (i - 1))); cbn [orb]; [reflexivity|]. apply IH.
Qed.

Theorem get_spans_for_multi_fields_ref (fields:list (list A)) (n:Z) :
  fields <> [] -> Forall (fun f => len f = n) fields ->
  get_spans_for_multi_fields neqb fields = Ok (spans_ref list_neqb (rows_of fields n)).
Proof.
  intros Hne Hall. destruct fields as [|f0 ft] eqn:Ef; [congruence|]. rewrite <- Ef in *.
  assert (Hf0 : len f0 = n). { rewrite Ef in Hall. inversion Hall; assumption. }
  assert (Hn0 : 0 <= n) by (rewrite <- Hf0; apply len_nonneg).
  assert (Hg : forall s, get s fields 0 = Ok f0) by (intros s; rewrite Ef; reflexivity).
  unfold get_spans_for_multi_fields, get_spans_for_multi_fields_njit. rewrite !Hg. cbn [bind]. rewrite Hf0.
  set (xs := rows_of fields n).
  assert (Hxs : len xs = n). { unfold xs, rows_of, len. rewrite map_length, zrange_length. lia. }
  destruct (Z.eq_dec n 0) as [->|Hnz].
  - cbn. reflexivity.
  - assert (Hn : 1 <= n) by lia.
    assert (Hxne : xs <> []). { intros H. rewrite H, len_nil in Hxs. lia. }
    rewrite (spans_ref_closed []) by exact Hxne.
    set (ne := fun i => list_neqb (row_at fields (i - 1)) (row_at fields i)).
    rewrite (span_loop_close ne n (multi_body neqb fields)).
    + rewrite Hxs. f_equal. f_equal. f_equal. rewrite <- Hxs. apply F_inner.
      intros k Hk. unfold ne, bnd, xs, rows_of. rewrite !nthd_map_zrange by lia. reflexivity.
    + intros i count spans Hi Hc Hl. unfold multi_body. rewrite (multi_not_equal_ok fields n) by assumption.
      cbn [bind]. fold (ne i). destruct (ne i); [rewrite set_ok by lia|]; reflexivity.
    + exact Hn.
    + unfold len. rewrite repeat_length. lia.
Qed.
End Multi.
