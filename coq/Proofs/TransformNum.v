(* Proofs/TransformNum.v — transform_int / transform_float and NumericImporter: the three validation
   modes, for every chunking.  The text->number parser is a Section variable. *)
From Coq Require Import ZArith List Bool Lia ZifyBool.
From EV Require Import Res Arr Transform TransformSpec TransformBase TransformCat TransformLeaky TransformFixed.
Import ListNotations.
Open Scope Z_scope.

(* ---- widths and elements ---- *)
Lemma map2sub_psums acc l :
  map2sub (tl (psums_from acc l)) (firstn (length l) (psums_from acc l)) = l.
Proof.
  revert acc. induction l as [|x l IH]; intros acc; [reflexivity|].
  cbn [psums_from tl length firstn].
  pose proof (psums_from_hd (acc + x) l) as HQ. specialize (IH (acc + x)).
  set (Q := psums_from (acc + x) l) in *.
  rewrite HQ at 1. cbn [map2sub]. f_equal; [ring|]. exact IH.
Qed.

Lemma slice_app_l {A} (l t:list A) a b : 0 <= a -> b <= len l -> slice (l ++ t) a b = slice l a b.
Proof.
  intros Ha Hb. unfold slice. destruct (Z_le_gt_dec b a).
  - replace (Z.to_nat (b - a)) with O by lia. reflexivity.
  - rewrite skipn_app. rewrite firstn_app.
    replace (Z.to_nat (b - a) - length (skipn (Z.to_nat a) l))%nat with O.
    + cbn [firstn]. apply app_nil_r.
    + rewrite skipn_length. unfold len in *. lia.
Qed.

Lemma widths_ok off slack tail cells :
  let c := mk_chunk off slack tail cells in
  slice (c_inds c) 1 (c_rows c + 1) = tl (psums (map len cells)) /\
  slice (c_inds c) 0 (c_rows c) = firstn (length cells) (psums (map len cells)).
Proof.
  cbn [mk_chunk c_inds c_rows].
  assert (Hl : len (psums (map len cells)) = len cells + 1).
  { unfold psums. rewrite len_psums_from. unfold len. rewrite map_length. reflexivity. }
  split.
  - rewrite slice_app_l by lia. unfold slice. replace (len cells + 1 - 1) with (len cells) by lia.
    cbn [Z.to_nat Pos.to_nat Pos.iter_op Nat.add skipn]. unfold psums. rewrite (psums_from_hd 0 (map len cells)).
    cbn [skipn tl]. apply firstn_all2. 
    pose proof (psums_from_length 0 (map len cells)) as HL. rewrite (psums_from_hd 0 (map len cells)) in HL.
    cbn [length] in HL. rewrite map_length in HL. unfold len in *. lia.
  - rewrite slice_app_l by lia. unfold slice. cbn [Z.to_nat skipn]. rewrite Z.sub_0_r.
    unfold len. rewrite Nat2Z.id. reflexivity.
Qed.

Lemma maximum0_ge l x : In x l -> x <= maximum0 l.
Proof.
  induction l as [|y l IH]; intros H; [destruct H|]. cbn [maximum0].
  destruct H as [->|H]; [lia|]. specialize (IH H). lia.
Qed.

Lemma maximum0_nonneg l : 0 <= maximum0 l.
Proof. induction l as [|y l IH]; cbn [maximum0]; lia. Qed.

Lemma lstrip_nul_zeros k r : lstrip_nul (repeat 0 k ++ r) = lstrip_nul r.
Proof. induction k as [|k IH]; cbn [repeat app lstrip_nul]; [reflexivity|]. exact IH. Qed.

Lemma strip_nul_pad w cell : len cell <= w -> strip_nul (pad_to w cell) = strip_nul cell.
Proof.
  intros H. unfold pad_to, strip_nul. rewrite firstn_all2 by (unfold len in H; lia).
  rewrite rev_app_distr. unfold zeros.
  assert (Hr : forall k, rev (repeat 0 k) = repeat 0 k).
  { induction k as [|k IH]; [reflexivity|]. cbn [repeat rev]. rewrite IH. clear.
    induction k as [|k IH]; [reflexivity|]. cbn [repeat app]. rewrite IH. reflexivity. }
  rewrite Hr, lstrip_nul_zeros. reflexivity.
Qed.

Lemma split_rows_concat w (l:list (list Z)) R : (forall x, In x l -> len x = w) -> 0 <= w ->
  split_rows (length l) w (concat l ++ R) = l.
Proof.
  intros H Hw. induction l as [|x l IH]; [reflexivity|].
  cbn [length split_rows concat]. rewrite <- app_assoc.
  assert (Hx : Z.to_nat w = length x) by (specialize (H x (or_introl eq_refl)); unfold len in H; lia).
  rewrite Hx. rewrite firstn_app, Nat.sub_diag, firstn_all. cbn [firstn]. rewrite app_nil_r.
  rewrite skipn_app, Nat.sub_diag, skipn_all. cbn [skipn app].
  rewrite IH by (intros y Hy; apply H; right; exact Hy). reflexivity.
Qed.

Lemma num_elements_ok off slack tail cells : 0 <= off ->
  num_elements (mk_chunk off slack tail cells) = Ok (map strip_nul cells).
Proof.
  intros Ho. unfold num_elements.
  destruct (widths_ok off slack tail cells) as [W1 W0]. cbn zeta in W1, W0.
  rewrite W1, W0.
  assert (Hll : len (tl (psums (map len cells))) = len (firstn (length cells) (psums (map len cells)))).
  { unfold psums. rewrite (psums_from_hd 0 (map len cells)). cbn [tl].
    pose proof (psums_from_length 0 (map len cells)) as HL. rewrite (psums_from_hd 0 (map len cells)) in HL.
    cbn [length] in HL. rewrite map_length in HL.
    unfold len in *. rewrite firstn_length. cbn [length]. lia. }
  rewrite Hll. rewrite Z.eqb_refl. cbn [negb].
  pose proof (map2sub_psums 0 (map len cells)) as HW. rewrite map_length in HW. fold (psums (map len cells)) in HW.
  rewrite HW. rewrite mk_chunk_rows.
  set (w := maximum0 (map len cells)).
  assert (Hw0 : 0 <= w) by apply maximum0_nonneg.
  assert (Hle : forall cell, In cell cells -> len cell <= w).
  { intros cell Hin. apply maximum0_ge. apply in_map. exact Hin. }
  unfold fixed_string_transform.
  replace (Z.to_nat (len cells)) with (length cells) by (unfold len; lia).
  pose proof (len_nonneg cells) as Hcl.
  destruct (Z.eq_dec w 0) as [E0|En0].
  - (* all cells empty: 'S0' is stored as 'S1', nothing is copied *)
    rewrite E0. replace (Z.max 1 0) with 1 by reflexivity.
    pose proof (fs_rows_ok (mk_chunk off slack tail cells) 0 cells (zeros (len cells)) (Z.le_refl 0)
                  (rows_viewed_mk off slack tail cells Ho) cells [] eq_refl) as H.
    cbn [map concat app len length Z.of_nat] in H. fold (len cells) in H.
    rewrite Z.mul_0_r in H. cbn [zeros Z.to_nat repeat app] in H. fold (zeros (len cells)) in H.
    replace (len cells * 1) with (len cells) by lia. rewrite H. cbn [bind]. f_equal.
    assert (Hall : forall cell, In cell cells -> cell = []).
    { intros cell Hin. specialize (Hle cell Hin). pose proof (len_nonneg cell).
      destruct cell; [reflexivity|]. rewrite len_cons in Hle. pose proof (len_nonneg cell). lia. }
    assert (Hpad : concat (map (pad_to 0) cells) = []).
    { clear - cells. induction cells as [|x l IH]; [reflexivity|]. cbn [map concat]. rewrite IH.
      unfold pad_to. cbn. reflexivity. }
    rewrite Hpad. cbn [app]. clear - Hall.
    unfold zeros, len. rewrite Nat2Z.id.
    induction cells as [|x l IH]; [reflexivity|].
    cbn [length repeat split_rows]. change (Z.to_nat 1) with 1%nat. cbn [firstn skipn map].
    rewrite IH by (intros; apply Hall; right; assumption).
    rewrite (Hall x (or_introl eq_refl)). reflexivity.
  - replace (Z.max 1 w) with w by lia.
    pose proof (fs_rows_ok (mk_chunk off slack tail cells) w cells [] Hw0
                  (rows_viewed_mk off slack tail cells Ho) cells [] eq_refl) as H.
    cbn [map concat app len length Z.of_nat] in H. fold (len cells) in H. rewrite !app_nil_r in H.
    rewrite H. cbn [bind]. f_equal.
    pose proof (split_rows_concat w (map (pad_to w) cells) []) as HS.
    rewrite map_length, app_nil_r in HS. rewrite HS.
    + rewrite map_map. apply map_ext_in. intros cell Hin. apply strip_nul_pad. apply Hle. exact Hin.
    + intros x Hx. apply in_map_iff in Hx. destruct Hx as [cell [<- _]]. apply len_pad_to. exact Hw0.
    + exact Hw0.
Qed.

(* ---- the validation modes ---- *)
Section NumProof.
  Variable parse : list Z -> option Z.
  Variable rng : option (Z * Z).
  Variable inv_text : list Z.
  Variable inv_val : Z.
  Hypothesis Hblank : forall e, np_is_blank e = true -> parse e = None.   (* int('  ') / float('') raise *)
  Hypothesis Hinv : parse inv_text = Some inv_val.                        (* inv_text = str(invalid_value) *)
  Hypothesis Hrng : in_rng rng inv_val = true.                            (* the invalid value is storable *)

  Lemma store_ok v : in_rng rng v = true -> store rng v = Ok v.
  Proof.
    unfold in_rng, store, store_int. destruct rng as [[lo hi]|]; [|reflexivity]. intros ->. reflexivity.
  Qed.
  Lemma store_bad v : in_rng rng v = false -> store rng v = Raise E_Overflow.
  Proof.
    unfold in_rng, store, store_int. destruct rng as [[lo hi]|]; [|discriminate]. intros ->. reflexivity.
  Qed.

  Definition cls_e (e:list Z) : cls :=
    if np_is_blank e then Empty
    else match parse e with
         | Some v => if in_rng rng v then Good v else OutOfRange
         | None => Unparseable
         end.

  Lemma classify_strip cell : classify parse rng cell = cls_e (strip_nul cell).
  Proof. reflexivity. Qed.

  (* per element, each mode computes the decision table *)
  Lemma strict_elem e :
    np_cast parse rng e = bind (validate MODE_STRICT inv_val (cls_e e)) (fun p => Ok (fst p)).
  Proof.
    unfold np_cast, cls_e. destruct (np_is_blank e) eqn:B.
    - rewrite (Hblank e B). reflexivity.
    - destruct (parse e) as [v|]; [|reflexivity].
      destruct (in_rng rng v) eqn:R; [rewrite store_ok by exact R|rewrite store_bad by exact R]; reflexivity.
  Qed.

  Lemma allow_elem e :
    (if np_is_blank e then np_cast parse rng inv_text else np_cast parse rng e)
    = bind (validate MODE_ALLOW_EMPTY inv_val (cls_e e)) (fun p => Ok (fst p)) /\
    (forall p, validate MODE_ALLOW_EMPTY inv_val (cls_e e) = Ok p -> snd p = if negb (np_is_blank e) then 1 else 0).
  Proof.
    unfold np_cast, cls_e. destruct (np_is_blank e) eqn:B.
    - rewrite Hinv, store_ok by exact Hrng. split; [reflexivity|]. cbn. intros p H. inversion H. reflexivity.
    - destruct (parse e) as [v|].
      + destruct (in_rng rng v) eqn:R; [rewrite store_ok by exact R|rewrite store_bad by exact R];
          (split; [reflexivity|cbn; intros p H; inversion H; reflexivity]).
      + split; [reflexivity|cbn; intros p H; inversion H].
  Qed.

  Definition relaxed_f (e:list Z) : res (Z * Z) :=
    match (match parse e with Some v => store rng v | None => Raise E_ValueError end) with
    | Ok v => Ok (v, 1)
    | _ => do v <- store rng inv_val; Ok (v, 0)
    end.

  Lemma relaxed_elem e : relaxed_f e = validate MODE_RELAXED inv_val (cls_e e).
  Proof.
    unfold relaxed_f, cls_e. destruct (np_is_blank e) eqn:B.
    - rewrite (Hblank e B). rewrite store_ok by exact Hrng. reflexivity.
    - destruct (parse e) as [v|].
      + destruct (in_rng rng v) eqn:R; [rewrite store_ok by exact R; reflexivity|].
        rewrite store_bad by exact R. rewrite store_ok by exact Hrng. reflexivity.
      + rewrite store_ok by exact Hrng. reflexivity.
  Qed.

  Lemma map_res_fst {A} (g:A -> res Z) (h:A -> res (Z * Z)) l :
    (forall x, g x = bind (h x) (fun p => Ok (fst p))) ->
    map_res g l = bind (map_res h l) (fun r => Ok (map fst r)).
  Proof.
    intros H. induction l as [|x l IH]; [reflexivity|]. cbn [map_res]. rewrite H, IH.
    destruct (h x); cbn [bind]; try reflexivity. destruct (map_res h l); reflexivity.
  Qed.

  Lemma map_res_snd {A} (h:A -> res (Z * Z)) (fl:A -> Z) l r :
    (forall x p, h x = Ok p -> snd p = fl x) -> map_res h l = Ok r -> map snd r = map fl l.
  Proof.
    intros H. revert r. induction l as [|x l IH]; intros r Hr; cbn [map_res] in Hr.
    - inversion Hr. reflexivity.
    - destruct (h x) as [p| | |] eqn:E; cbn [bind] in Hr; try discriminate.
      destruct (map_res h l) as [r'| | |] eqn:E'; cbn [bind] in Hr; try discriminate.
      inversion Hr. cbn [map]. rewrite (H x p E), (IH r' eq_refl). reflexivity.
  Qed.

  Definition vrow (mode:Z) (cell:list Z) : res (Z * Z) := validate mode inv_val (classify parse rng cell).

  (* one chunk: results and flags are the decision table applied to each cell *)
  Lemma transform_num_ok mode off slack tail cells : 0 <= off -> mode_ok mode = true ->
    transform_num parse rng mode inv_text inv_val (mk_chunk off slack tail cells)
    = bind (map_res (vrow mode) cells)
           (fun r => Ok (map fst r, if mode =? MODE_STRICT then None else Some (map snd r))).
  Proof.
    intros Ho Hm. unfold transform_num. rewrite num_elements_ok by exact Ho. cbn [bind].
    unfold vrow. unfold mode_ok in Hm.
    destruct (mode =? MODE_STRICT) eqn:E0.
    - assert (mode = MODE_STRICT) by lia. subst mode.
      rewrite map_res_map.
      rewrite (map_res_fst _ (fun cell => validate MODE_STRICT inv_val (classify parse rng cell))).
      + destruct (map_res _ cells); reflexivity.
      + intros cell. rewrite classify_strip. apply strict_elem.
    - destruct (mode =? MODE_ALLOW_EMPTY) eqn:E1.
      + assert (mode = MODE_ALLOW_EMPTY) by lia. subst mode.
        rewrite map_res_map.
        rewrite (map_res_fst _ (fun cell => validate MODE_ALLOW_EMPTY inv_val (classify parse rng cell))).
        * destruct (map_res _ cells) as [r| | |] eqn:ER; cbn [bind]; try reflexivity.
          f_equal. f_equal. f_equal.
          rewrite (map_res_snd (fun cell => validate MODE_ALLOW_EMPTY inv_val (classify parse rng cell))
                     (fun cell => if negb (np_is_blank (strip_nul cell)) then 1 else 0) cells r).
          -- rewrite !map_map. reflexivity.
          -- intros cell p Hp. rewrite classify_strip in Hp. exact (proj2 (allow_elem (strip_nul cell)) p Hp).
          -- exact ER.
        * intros cell. rewrite classify_strip. exact (proj1 (allow_elem (strip_nul cell))).
      + destruct (mode =? MODE_RELAXED) eqn:E2; [|cbn in Hm; discriminate].
        assert (mode = MODE_RELAXED) by lia. subst mode.
        rewrite map_res_map.
        rewrite (map_res_ext _ (fun cell => validate MODE_RELAXED inv_val (classify parse rng cell))).
        * destruct (map_res _ cells); reflexivity.
        * intros cell _. rewrite classify_strip. apply relaxed_elem.
  Qed.

  Definition flags_of (mode:Z) (r:list (Z * Z)) : list Z := if mode =? MODE_STRICT then [] else map snd r.

  Lemma fold_num_import_ok mode off slack tail : 0 <= off -> mode_ok mode = true ->
    forall cc d fl,
    fold_res (num_import_part parse rng mode inv_text inv_val) (d, fl) (map (mk_chunk off slack tail) cc)
    = bind (map_res (vrow mode) (concat cc)) (fun r => Ok (d ++ map fst r, fl ++ flags_of mode r)).
  Proof.
    intros Ho Hm. induction cc as [|cells cc IH]; intros d fl; cbn [map fold_res concat].
    - cbn [map_res bind map]. unfold flags_of. destruct (mode =? MODE_STRICT); cbn [map]; rewrite !app_nil_r; reflexivity.
    - unfold num_import_part at 1. rewrite transform_num_ok by assumption.
      rewrite map_res_app.
      destruct (map_res (vrow mode) cells) as [r1| | |]; cbn [bind]; try reflexivity.
      cbn [fst snd]. rewrite IH.
      destruct (map_res (vrow mode) (concat cc)) as [r2| | |]; cbn [bind]; try reflexivity.
      unfold flags_of. rewrite !map_app.
      destruct (mode =? MODE_STRICT); rewrite <- !app_assoc; cbn [app]; rewrite ?app_nil_r; reflexivity.
  Qed.

  (* NumericImporter (int / float dtypes) = the validation-mode decision table applied to the whole
     column, whatever the chunking *)
  Theorem validation_mode_rule_proof mode cc off slack tail :
    0 <= off -> mode_ok mode = true ->
    num_import parse rng mode inv_text inv_val (map (mk_chunk off slack tail) cc)
    = spec_num parse rng mode inv_val (concat cc).
  Proof.
    intros Ho Hm. unfold num_import. rewrite fold_num_import_ok by assumption.
    unfold spec_num, vrow, flags_of. destruct (map_res _ (concat cc)); reflexivity.
  Qed.
End NumProof.

(* ---- py_int facts ---- *)
Lemma lstrip_blank e : np_is_blank e = true -> lstrip e = [] \/ exists t, lstrip e = 0 :: t.
Proof.
  induction e as [|b e IH]; intros H; [left; reflexivity|].
  cbn [np_is_blank forallb] in H. apply andb_prop in H. destruct H as [Hb He].
  cbn [lstrip]. destruct (is_ws b) eqn:W.
  - apply IH. exact He.
  - right. cbn [orb] in Hb. assert (b = 0) by lia. subst. exists e. reflexivity.
Qed.

Lemma py_int_blank e : np_is_blank e = true -> py_int e = None.
Proof.
  intros H. unfold py_int, py_int_nolimit. destruct (lstrip_blank e H) as [->|[t ->]]; reflexivity.
Qed.
