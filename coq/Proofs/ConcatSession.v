(* Proofs/ConcatSession.v — C16: the repaired Session.apply_spans_concat loop returns the
   specification for every src_chunksize >= 1 and every value buffer that holds one span output. *)
From Coq Require Import ZArith List Lia Bool ZifyBool.
From EV Require Import Res Arr Concat ConcatSpec ConcatLists ConcatKernel ConcatSpan ConcatBatch.
Import ListNotations.
Open Scope Z_scope.

Lemma adjacent_pairs_length l : length (adjacent_pairs l) = pred (length l).
Proof.
  induction l as [|x t IH]; [reflexivity|]. destruct t as [|y t']; [reflexivity|].
  rewrite adjacent_pairs_cons2. cbn [length] in *. rewrite IH. reflexivity.
Qed.

Lemma adjacent_pairs_skipn : forall s l, skipn s (adjacent_pairs l) = adjacent_pairs (skipn s l).
Proof.
  induction s as [|s IH]; intros l; [reflexivity|].
  destruct l as [|x t]; [reflexivity|]. destruct t as [|y t'].
  - cbn [adjacent_pairs skipn]. destruct s; reflexivity.
  - rewrite adjacent_pairs_cons2. cbn [skipn]. apply IH.
Qed.

Lemma spans_split (spans:list Z) (s:nat) :
  (s < pred (length spans))%nat ->
  exists spre a rest, spans = spre ++ a :: rest /\ length spre = s /\ rest <> [] /\
                      length rest = (pred (length spans) - s)%nat /\
                      skipn s (adjacent_pairs spans) = adjacent_pairs (a :: rest).
Proof.
  intros Hs. pose proof (firstn_skipn s spans) as Hfs.
  destruct (skipn s spans) as [|a rest] eqn:Es.
  { exfalso. assert (Hl : length (skipn s spans) = 0%nat) by (rewrite Es; reflexivity).
    rewrite skipn_length in Hl. lia. }
  assert (Hl : length (skipn s spans) = S (length rest)) by (rewrite Es; reflexivity).
  rewrite skipn_length in Hl.
  exists (firstn s spans), a, rest. split; [symmetry; exact Hfs|].
  split; [rewrite firstn_length; lia|]. split; [destruct rest; [cbn [length] in Hl; lia|discriminate]|].
  split; [lia|]. rewrite adjacent_pairs_skipn, Es. reflexivity.
Qed.

Lemma In_skipn {A} (x:A) n l : In x (skipn n l) -> In x l.
Proof. intros H. rewrite <- (firstn_skipn n l). apply in_or_app. right. exact H. Qed.

Section Session.
Variable strs : list (list Z).
Variable spans : list Z.
Variables csz N : Z.
Hypothesis Hrange : spans_in_range spans (len strs).
Hypothesis Hcsz : 1 <= csz.
Hypothesis Hfits : fits N (concat_spec spans strs).

Let ents := concat_spec spans strs.
Let m := length ents.
Let si := psums (map (@len Z) strs).
Let sv := concat strs.

Definition out_i_at (ents:list (list Z)) (s:nat) : list Z :=
  match s with O => [] | _ => psums (map (@len Z) (firstn s ents)) end.

Lemma m_spans : m = pred (length spans).
Proof. unfold m, ents. rewrite concat_spec_entries, map_length. apply adjacent_pairs_length. Qed.

Lemma loop_cond (s:nat) : (Z.of_nat s <? len spans - 1) = (s <? m)%nat.
Proof. rewrite m_spans. unfold len. destruct (length spans); lia. Qed.

Lemma session_loop_ok : forall fuel (s:nat) di dv index_v,
  (s <= m)%nat -> len di = csz + 1 -> len dv = N ->
  (s = 0%nat -> exists irest, di = 0 :: irest) ->
  (fuel > m - s)%nat ->
  session_loop true fuel spans si sv di dv csz (N / 2) (Z.of_nat s) index_v
               (len (concat (firstn s ents))) (out_i_at ents s) (concat (firstn s ents))
  = Ok (spec_indices ents, spec_values ents).
Proof.
  induction fuel as [|fuel IH]; intros s di dv index_v Hs Hdi Hdv Hfirst Hfuel; [lia|].
  cbn [session_loop]. rewrite loop_cond.
  destruct (s <? m)%nat eqn:Esm.
  2:{ (* all spans done *)
      assert (s = m) by lia. subst s.
      assert (Hfa : firstn m ents = ents) by apply firstn_all.
      unfold out_i_at. rewrite Hfa. unfold spec_indices, spec_values, m. destruct ents; reflexivity. }
  assert (Hsm : (s < m)%nat) by lia. clear Esm.
  rewrite m_spans in Hsm.
  destruct (spans_split spans s Hsm) as (spre & a & rest & Hsp & Hlspre & Hrest & Hlrest & Hskip).
  set (es := skipn s ents).
  assert (Hes : es = map (entry_of strs) (adjacent_pairs (a :: rest))).
  { unfold es, ents. rewrite concat_spec_entries, <- Hskip. apply skipn_map. }
  (* the index buffer: first batch starts at slot 1 (slot 0 holds 0), later ones at slot 0 *)
  assert (Hbuf : exists iacc irest, di = iacc ++ irest /\ len iacc = (if Z.of_nat s =? 0 then 1 else 0)
                                    /\ (s = 0%nat -> iacc = [0]) /\ (s <> 0%nat -> iacc = [])).
  { destruct s as [|s'].
    - destruct (Hfirst eq_refl) as (irest & ->). exists [0], irest. repeat split; try reflexivity. congruence.
    - exists [], di. repeat split; try reflexivity. discriminate. }
  destruct Hbuf as (iacc & irest & Hdi2 & Hliacc & Hi0 & Hi1).
  assert (Hrange2 : Forall (fun x => 0 <= x <= len strs) (a :: rest)).
  { unfold spans_in_range in Hrange. rewrite Hsp in Hrange. apply Forall_app in Hrange. tauto. }
  assert (Hfits2 : forall e, In e es -> len e + Z.max 0 (N / 2 - 1) <= N).
  { intros e He. apply Hfits. fold ents. eapply In_skipn. exact He. }
  assert (Hes_ne : exists e0 es0, es = e0 :: es0).
  { rewrite Hes. destruct rest as [|b r]; [congruence|]. rewrite adjacent_pairs_cons2. cbn [map]. eauto. }
  destruct Hes_ne as (e0 & es0 & Hes0).
  assert (Hfirst2 : len (@nil Z) + len (hd [] es) <= N).
  { rewrite Hes0. cbn [hd]. rewrite len_nil.
    assert (len e0 + Z.max 0 (N / 2 - 1) <= N) by (apply Hfits2; rewrite Hes0; left; reflexivity). lia. }
  unfold apply_spans_concat_2.
  replace (Z.to_nat (len spans - 1 - Z.of_nat s)) with (length rest)
    by (rewrite Hlrest; unfold len; destruct (length spans); lia).
  rewrite <- Hliacc.
  replace (Z.of_nat s) with (len spre) by (unfold len; rewrite Hlspre; reflexivity).
  rewrite Hsp at 1. rewrite Hdi2.
  replace dv with (blit dv 0 []) at 1 by apply blit_nil.
  destruct (span_loop_ok strs csz (N / 2) (len (concat (firstn s ents))) N rest spre a iacc irest [] dv)
    as (k & Hk & Hki & Hkv & Hrun); try assumption.
  - rewrite <- Hes. exact Hfits2.
  - rewrite <- Hes. exact Hfirst2.
  - rewrite <- len_app, <- Hdi2. exact Hdi.
  - rewrite Hliacc. destruct (Z.of_nat s =? 0); lia.
  - change (len (@nil Z)) with 0 in Hrun, Hkv. rewrite !Z.add_0_l in Hrun, Hkv.
    unfold si, sv. rewrite Hrun. clear Hrun. rewrite <- Hes in *. cbn [bind app] in *.
    rewrite ?Z.add_0_l.
    set (batch := firstn k es) in *.
    assert (Hlen_offs : len (iacc ++ offs_from (len (concat (firstn s ents))) (map (@len Z) batch))
                        = len iacc + Z.of_nat k).
    { rewrite len_app. f_equal. unfold len. rewrite offs_from_length, map_length. unfold batch.
      rewrite firstn_length. f_equal. assert (length es = length rest).
      { rewrite Hes, map_length, adjacent_pairs_length. reflexivity. } lia. }
    assert ((len iacc + Z.of_nat k >? 0) || (len (concat batch) >? 0) = true) as ->.
    { pose proof (len_nonneg iacc). apply orb_true_iff. left. lia. }
    rewrite <- Hlen_offs at 1. rewrite slice_app_prefix.
    rewrite slice_blit0.
    assert (Hfn : firstn (s + k) ents = firstn s ents ++ batch) by apply firstn_add.
    replace (len spre + Z.of_nat k) with (Z.of_nat (s + k)) by (unfold len; rewrite Hlspre; lia).
    replace (len (concat (firstn s ents)) + len (concat batch)) with (len (concat (firstn (s + k) ents)))
      by (rewrite Hfn, concat_app, len_app; reflexivity).
    replace (concat (firstn s ents) ++ concat batch) with (concat (firstn (s + k) ents))
      by (rewrite Hfn, concat_app; reflexivity).
    replace (out_i_at ents s ++ iacc ++ offs_from (len (concat (firstn s ents))) (map (@len Z) batch))
      with (out_i_at ents (s + k)).
    + apply IH.
      * rewrite m_spans. lia.
      * rewrite len_app, Hlen_offs. rewrite Hdi2, len_app in Hdi. unfold len in *. rewrite skipn_length. lia.
      * rewrite len_blit; lia.
      * intros H0. lia.
      * rewrite m_spans in *. lia.
    + destruct (s + k)%nat as [|sk] eqn:Esk; [lia|]. unfold out_i_at at 1. rewrite Hfn.
      rewrite map_app. unfold psums. rewrite !psums_from_offs, offs_from_app.
      rewrite <- len_concat.
      destruct s as [|s'].
      * rewrite (Hi0 eq_refl). cbn [firstn concat map offs_from out_i_at app]. reflexivity.
      * rewrite (Hi1 ltac:(discriminate)). unfold out_i_at. unfold psums. rewrite psums_from_offs.
        cbn [app]. reflexivity.
Qed.

End Session.
