(* Proofs/SessionMergeStream.v — the streamed form of Session.ordered_merge_left for a left key with duplicates
   (C19), from the C03 end-to-end theorem of the right-unique streamed generator (Proofs/JoinMainKRU.v). *)
From Coq Require Import ZArith List Lia Bool ZifyBool.
From EV Require Import Res Arr Join JoinSpec JoinBase JoinIface JoinDriver JoinMain JoinRU JoinMainKRU
  MapStream SessionMerge SessionMergeSpec SessionMergeTop.
Import ListNotations.
Open Scope Z_scope.

Section Stream.
Variables (L R:list Z) (srcs:list (list Z)).
Hypothesis Hsrcs : srcs <> [].
Hypothesis HL : sorted L.
Hypothesis HR : ssorted R.
Hypothesis Hbig : len R <= INVALID_INDEX.
Hypothesis Hlen : forall s, In s srcs -> len s = len R.

Lemma HLu_false : false = true -> ssorted L.
Proof. discriminate. Qed.

(* every chunk size: the join, or the documented clear error — and the error only when a whole window of cs
   equal left keys continues beyond the window *)
Theorem oml_streamed_right_unique_total cs : 1 <= cs ->
  ordered_merge_left Fixed cs L R srcs FFldSink [] MFld false true
  = Ok (mk_oml None (Some (map (left_payload 0 L R) srcs)) (Some (map snd (left_join INVALID_INDEX L R))))
  \/ (ordered_merge_left Fixed cs L R srcs FFldSink [] MFld false true = Raise E_ValueError /\ long_run_in cs L).
Proof.
  intros Hcs.
  destruct (streamed_right_unique_ok true L R INVALID_INDEX cs Hcs HL HR) as [H|(H & Hlong)].
  - left. exact (oml_streamed_right_unique_partial L R srcs false Hsrcs HL HLu_false HR Hbig Hlen cs eq_refl Hcs H).
  - right. split.
    + exact (oml_streamed_right_unique_error L R srcs false Hsrcs Hlen cs eq_refl H).
    + apply (LongRun_KRU true L R cs). exact Hlong.
Qed.

Theorem oml_streamed_right_unique_correct cs : 1 <= cs -> no_long_run L cs ->
  ordered_merge_left Fixed cs L R srcs FFldSink [] MFld false true
  = Ok (mk_oml None (Some (map (left_payload 0 L R) srcs)) (Some (map snd (left_join INVALID_INDEX L R)))).
Proof.
  intros Hcs Hn. destruct (oml_streamed_right_unique_total cs Hcs) as [H|(_ & Hlong)]; [exact H|].
  exfalso. exact (no_long_run_not L cs Hn Hlong).
Qed.

(* the streamed form agrees with every in-memory form *)
Theorem oml_streamed_agrees_right_unique ver cs0 fm sinks0 mk cs :
  1 <= cs -> no_long_run L cs ->
  streamable ver fm mk = false -> (fm = FArrSink -> sinks0 = zero_sinks L srcs) ->
  exists o1 o2, ordered_merge_left ver cs0 L R srcs fm sinks0 mk false true = Ok o1 /\
                ordered_merge_left Fixed cs L R srcs FFldSink [] MFld false true = Ok o2 /\
                oml_payloads o1 = oml_payloads o2.
Proof.
  intros Hcs Hn H1 Z1.
  destruct (oml_inmemory_correct L R srcs false Hsrcs HL HLu_false HR Hbig Hlen ver cs0 fm sinks0 mk H1 Z1)
    as (o1 & E1 & P1 & _).
  exists o1, (mk_oml None (Some (map (left_payload 0 L R) srcs)) (Some (map snd (left_join INVALID_INDEX L R)))).
  rewrite (oml_streamed_right_unique_correct cs Hcs Hn), P1. auto.
Qed.

End Stream.
