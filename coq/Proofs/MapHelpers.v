(* Proofs/MapHelpers.v — the non-streaming helpers map_valid and safe_map_values equal map_spec. *)
From Coq Require Import ZArith List Lia Bool.
From EV Require Import Res Arr MapStream MapStreamSpec MapStreamBase.
Import ListNotations.
Open Scope Z_scope.

(* in_range_map / valid_map_in_range: Proofs/MapStreamBase.v *)

Section Helpers.
Context {A:Type}.
Variable empty : A.
Variable data : list A.
Variable inv : Z.

Lemma mv_loop_spec m : in_range_map (len data) inv m ->
  forall n i result, 0 <= i -> i + Z.of_nat n = len m -> len result = len m ->
  exists r', mv_loop n data m inv i result = Ok r' /\ len r' = len result /\
    forall k, 0 <= k ->
      nthd empty r' k = if (i <=? k) && (k <? len m) && negb (nthZ m k =? inv)
                        then nthd empty data (nthZ m k) else nthd empty result k.
Proof.
  intros Hr. induction n as [|n IH]; intros i result Hi Hn Hl.
  - exists result. split; [reflexivity|]. split; [reflexivity|]. intros k Hk.
    replace ((i <=? k) && (k <? len m)) with false by lia. reflexivity.
  - cbn [mv_loop]. rewrite (getZ_ok 211 m i) by lia. cbn [bind].
    destruct (nthZ m i =? inv) eqn:E; cbn [negb bind].
    + destruct (IH (i + 1) result) as [r' [H1 [H2 H3]]]; try lia.
      exists r'. split; [exact H1|]. split; [exact H2|]. intros k Hk. rewrite H3 by lia.
      destruct (Z.eq_dec k i) as [->|Hne].
      * replace ((i + 1 <=? i) && (i <? len m)) with false by lia. rewrite E.
        cbn [negb]. rewrite !andb_false_r. reflexivity.
      * replace (i + 1 <=? k) with (i <=? k) by lia. reflexivity.
    + pose proof (Hr i ltac:(lia) ltac:(lia)) as Hb.
      rewrite (get_ok 212 empty data) by lia. cbn [bind].
      rewrite set_ok by lia. cbn [bind].
      destruct (IH (i + 1) (upd result i (nthd empty data (nthZ m i)))) as [r' [H1 [H2 H3]]]; try lia.
      { rewrite len_upd. lia. }
      exists r'. split; [exact H1|]. split; [rewrite H2; apply len_upd|]. intros k Hk. rewrite H3 by lia.
      destruct (Z.eq_dec k i) as [->|Hne].
      * replace ((i + 1 <=? i) && (i <? len m)) with false by lia. cbn [andb].
        replace ((i <=? i) && (i <? len m)) with true by lia. rewrite E. cbn [negb andb].
        apply nthd_upd_same. lia.
      * replace (i + 1 <=? k) with (i <=? k) by lia. rewrite nthd_upd_other by lia. reflexivity.
Qed.

Theorem map_valid_correct_gen m : in_range_map (len data) inv m ->
  map_valid empty data m inv = Ok (map_spec empty data inv m).
Proof.
  intros Hr. unfold map_valid.
  destruct (mv_loop_spec m Hr (length m) 0 (map (fun _ => empty) m)) as [r' [H1 [H2 H3]]]; try lia.
  { unfold len. lia. } { apply len_map. }
  rewrite H1. f_equal. rewrite len_map in H2.
  apply (list_eq_nthd empty).
  - unfold map_spec. rewrite len_map. exact H2.
  - intros k Hk. rewrite H2 in Hk. unfold map_spec.
    rewrite (nthd_map (fun k0 => if k0 =? inv then empty else nthd empty data k0) 0 empty m k) by lia.
    fold (nthZ m k). rewrite H3 by lia.
    rewrite (nthd_map (fun _:Z => empty) 0 empty m k) by lia.
    replace ((0 <=? k) && (k <? len m)) with true by lia. cbn [andb].
    destruct (nthZ m k =? inv); reflexivity.
Qed.

Lemma get_filter_of site m i : 0 <= i < len m -> get site (filter_of inv m) i = Ok (negb (nthZ m i =? inv)).
Proof.
  intros H. rewrite (get_ok site false) by (unfold filter_of; rewrite len_map; lia).
  unfold filter_of. rewrite (nthd_map _ 0 false) by lia. reflexivity.
Qed.

Lemma smv_loop_spec m ev : in_range_map (len data) inv m ->
  forall n i result, 0 <= i -> i + Z.of_nat n = len m -> len result = len m ->
  exists r', smv_loop n data m (filter_of inv m) i ev result = Ok r' /\ len r' = len result /\
    forall k, 0 <= k ->
      nthd empty r' k = if (i <=? k) && (k <? len m)
                        then (if nthZ m k =? inv then ev else nthd empty data (nthZ m k))
                        else nthd empty result k.
Proof.
  intros Hr. induction n as [|n IH]; intros i result Hi Hn Hl.
  - exists result. split; [reflexivity|]. split; [reflexivity|]. intros k Hk.
    replace ((i <=? k) && (k <? len m)) with false by lia. reflexivity.
  - cbn [smv_loop]. rewrite get_filter_of by lia. cbn [bind].
    set (x := if nthZ m i =? inv then ev else nthd empty data (nthZ m i)).
    assert (Hset : (if negb (nthZ m i =? inv)
                    then do k <- get 202 m i; do x0 <- get 203 data k; set 204 result i x0
                    else set 205 result i ev) = Ok (upd result i x)).
    { unfold x. destruct (nthZ m i =? inv) eqn:E; cbn [negb].
      - apply set_ok. lia.
      - rewrite (getZ_ok 202 m i) by lia. cbn [bind].
        pose proof (Hr i ltac:(lia) ltac:(lia)) as Hb.
        rewrite (get_ok 203 empty data) by lia. cbn [bind]. apply set_ok. lia. }
    rewrite Hset. cbn [bind].
    destruct (IH (i + 1) (upd result i x)) as [r' [H1 [H2 H3]]]; try lia.
    { rewrite len_upd. lia. }
    exists r'. split; [exact H1|]. split; [rewrite H2; apply len_upd|]. intros k Hk. rewrite H3 by lia.
    destruct (Z.eq_dec k i) as [->|Hne].
    + replace ((i + 1 <=? i) && (i <? len m)) with false by lia.
      replace ((i <=? i) && (i <? len m)) with true by lia. apply nthd_upd_same. lia.
    + replace (i + 1 <=? k) with (i <=? k) by lia. rewrite nthd_upd_other by lia. reflexivity.
Qed.

Theorem safe_map_values_correct_gen m (ev:option A) : in_range_map (len data) inv m ->
  safe_map_values empty Fixed data m (filter_of inv m) ev
  = Ok (map_spec (match ev with Some e => e | None => empty end) data inv m).
Proof.
  intros Hr. unfold safe_map_values.
  set (e := match ev with Some e => e | None => empty end).
  assert (He : match ev with None => Ok empty | Some e0 => Ok e0 end = Ok e) by (destruct ev; reflexivity).
  rewrite He. cbn [bind].
  destruct (smv_loop_spec m e Hr (length m) 0 (map (fun _ => empty) m)) as [r' [H1 [H2 H3]]]; try lia.
  { unfold len. lia. } { apply len_map. }
  rewrite H1. f_equal. rewrite len_map in H2.
  apply (list_eq_nthd empty).
  - unfold map_spec. rewrite len_map. exact H2.
  - intros k Hk. rewrite H2 in Hk. unfold map_spec.
    rewrite (nthd_map (fun k0 => if k0 =? inv then e else nthd e data k0) 0 empty m k) by lia.
    fold (nthZ m k). rewrite H3 by lia.
    replace ((0 <=? k) && (k <? len m)) with true by lia.
    destruct (nthZ m k =? inv) eqn:E; [reflexivity|].
    pose proof (Hr k ltac:(lia) ltac:(lia)) as Hb.
    unfold nthd. apply nth_indep. unfold len in Hb. lia.
Qed.

End Helpers.
