(* Proofs/JoinAll.v — C03 for all eight streamed variants at once, and the corollaries that
   C10 (no out-of-bounds access), C11 (index range) and C12 (termination) harvest from it. *)
From Coq Require Import ZArith List Lia Bool ZifyBool.
From EV Require Import Res Arr Join JoinSpec JoinBase JoinIface JoinRows JoinWin JoinDriver
                       JoinBU JoinRU JoinGen JoinLU JoinMain.
Import ListNotations.
Open Scope Z_scope.

(* the precondition each kernel kind assumes of the two key columns: sorted ascending, and strictly
   so on the side(s) the variant's name declares unique *)
Definition kind_pre (k:kind) (L R:list Z) : Prop :=
  match k with
  | KGen => sorted L /\ sorted R
  | KLU => ssorted L /\ sorted R
  | KRU => sorted L /\ ssorted R
  | KBU => ssorted L /\ ssorted R
  end.

Definition KindOK_all (k:kind) (emit:bool) (L R:list Z) (inv cs:Z) :
  kind_pre k L R -> 1 <= cs -> KindOK k emit L R inv cs.
Proof.
  intros H Hcs. destruct k; cbn [kind_pre] in H; destruct H as [H1 H2].
  - first [exact (KindOK_Gen emit L R inv cs H1 H2 Hcs) | exact (KindOK_Gen emit L R inv cs H1 H2)].
  - first [exact (KindOK_LU emit L R inv cs H1 H2 Hcs) | exact (KindOK_LU emit L R inv cs H1 H2)].
  - first [exact (KindOK_RU emit L R inv cs H1 H2 Hcs) | exact (KindOK_RU emit L R inv cs H1 H2)].
  - first [exact (KindOK_BU emit L R inv cs H1 H2 Hcs) | exact (KindOK_BU emit L R inv cs H1 H2)].
Defined.

(* every window of cs consecutive keys that does not reach the end of the column holds two different
   adjacent keys: then trimming a chunk never leaves it empty *)
Definition windows_ok (cs:Z) (X:list Z) : Prop :=
  forall a, 0 <= a -> a + cs < len X -> exists k, a < k < a + cs /\ nthZ X (k - 1) <> nthZ X k.

Definition chunks_ok (k:kind) (cs:Z) (L R:list Z) : Prop :=
  (v_ltrim (mkvar k true) = true -> windows_ok cs L) /\
  (v_rtrim (mkvar k true) = true -> windows_ok cs R).

Lemma windows_ok_not_long cs X : windows_ok cs X -> ~ long_run_in cs X.
Proof.
  intros H (a & Ha & Hlt & Hall). destruct (H a Ha Hlt) as (k & Hk & Hne). apply Hne. apply Hall. exact Hk.
Qed.

Lemma windows_ok_short cs X : len X <= cs -> windows_ok cs X.
Proof. intros H a Ha Hlt. lia. Qed.

Lemma windows_ok_ssorted cs X : 2 <= cs -> ssorted X -> windows_ok cs X.
Proof.
  intros Hcs HX a Ha Hlt. exists (a + 1). split; [lia|].
  specialize (HX a (a + 1) ltac:(lia) ltac:(lia) ltac:(lia)). replace (a + 1 - 1) with a by lia. lia.
Qed.

Section All.
Variables (k:kind) (is_left:bool) (L R:list Z) (inv cs:Z).
Hypothesis Hpre : kind_pre k L R.
Hypothesis Hcs : 1 <= cs.

(* total correctness: the relational join, or the clear error — and that only for a long run *)
Theorem streamed_total :
  streamed (mkvar k is_left) L R inv cs = Ok (expected k is_left inv L R) \/
  (streamed (mkvar k is_left) L R inv cs = Raise E_ValueError /\ LongRun k is_left L R cs).
Proof. exact (streamed_ok k is_left L R inv cs (KindOK_all k is_left L R inv cs Hpre Hcs) Hcs). Qed.

Theorem streamed_correct :
  chunks_ok k cs L R -> streamed (mkvar k is_left) L R inv cs = Ok (expected k is_left inv L R).
Proof.
  intros (HwL & HwR). destruct streamed_total as [H|(_ & [(Ht & Hl)|(Ht & Hl)])]; [exact H| |]; exfalso.
  - apply (windows_ok_not_long cs L); [apply HwL; destruct k; exact Ht|exact Hl].
  - apply (windows_ok_not_long cs R); [apply HwR; destruct k; exact Ht|exact Hl].
Qed.

Theorem streamed_no_oob : forall site, streamed (mkvar k is_left) L R inv cs <> OOB site.
Proof. intros site. destruct streamed_total as [H|(H & _)]; rewrite H; discriminate. Qed.

Theorem streamed_terminates : streamed (mkvar k is_left) L R inv cs <> OutOfFuel.
Proof. destruct streamed_total as [H|(H & _)]; rewrite H; discriminate. Qed.

Theorem streamed_raises_only_value_error : forall c,
  streamed (mkvar k is_left) L R inv cs = Raise c -> c = E_ValueError /\ ~ chunks_ok k cs L R.
Proof.
  intros c Hc. destruct streamed_total as [H|(H & Hl)]; rewrite H in Hc; [discriminate|].
  split; [congruence|]. intros (HwL & HwR). destruct Hl as [(Ht & Hl)|(Ht & Hl)].
  - apply (windows_ok_not_long cs L); [apply HwL; destruct k; exact Ht|exact Hl].
  - apply (windows_ok_not_long cs R); [apply HwR; destruct k; exact Ht|exact Hl].
Qed.
End All.

(* chunking is unobservable: any two chunk sizes the inputs fit give the same maps *)
Theorem streamed_chunking_unobservable k is_left L R inv cs1 cs2 :
  kind_pre k L R -> 1 <= cs1 -> 1 <= cs2 -> chunks_ok k cs1 L R -> chunks_ok k cs2 L R ->
  streamed (mkvar k is_left) L R inv cs1 = streamed (mkvar k is_left) L R inv cs2.
Proof.
  intros Hpre H1 H2 Hc1 Hc2.
  rewrite (streamed_correct k is_left L R inv cs1 Hpre H1 Hc1).
  rewrite (streamed_correct k is_left L R inv cs2 Hpre H2 Hc2). reflexivity.
Qed.

(* whenever two chunk sizes both succeed the results agree, and an error is never a wrong answer *)
Theorem streamed_results_agree k is_left L R inv cs1 cs2 r1 r2 :
  kind_pre k L R -> 1 <= cs1 -> 1 <= cs2 ->
  streamed (mkvar k is_left) L R inv cs1 = Ok r1 -> streamed (mkvar k is_left) L R inv cs2 = Ok r2 -> r1 = r2.
Proof.
  intros Hpre H1 H2 E1 E2.
  destruct (streamed_total k is_left L R inv cs1 Hpre H1) as [H|(H & _)]; rewrite H in E1; [|discriminate].
  destruct (streamed_total k is_left L R inv cs2 Hpre H2) as [H'|(H' & _)]; rewrite H' in E2; [|discriminate].
  congruence.
Qed.

(* the maps only hold row indices in range, or the marker: no fixed-width overflow for any storable input *)
Theorem expected_in_range k is_left inv L R :
  (forall x, In x (fst (expected k is_left inv L R)) -> 0 <= x < len L) /\
  (forall y, In y (snd (expected k is_left inv L R)) -> y = inv \/ 0 <= y < len R).
Proof.
  rewrite expected_eq. cbn [fst snd]. split.
  - intros x Hx. destruct (v_writes_l (mkvar k is_left)); [|contradiction].
    apply in_map_iff in Hx. destruct Hx as (p & <- & Hp). apply join_spec_range in Hp. lia.
  - intros y Hy. apply in_map_iff in Hy. destruct Hy as (p & <- & Hp). apply join_spec_range in Hp. tauto.
Qed.

Example all_hyps_nonvacuous :
  kind_pre KGen [1;1;2;3;3] [1;3;3;4] /\ chunks_ok KGen 3 [1;1;2;3;3] [1;3;3;4] /\
  streamed (mkvar KGen true) [1;1;2;3;3] [1;3;3;4] (-1) 3 = Ok ([0;1;2;3;3;4;4], [0;0;-1;1;2;1;2]).
Proof.
  split; [split; apply sortedb_sorted; reflexivity|]. split; [|reflexivity].
  split; intros _ a Ha Hlt.
  - assert (a = 0 \/ a = 1) as [->| ->] by (cbn in Hlt; lia); [exists 2|exists 2]; (split; [lia|cbv; discriminate]).
  - assert (a = 0) as -> by (cbn in Hlt; lia). exists 1. split; [lia|cbv; discriminate].
Qed.
