(* Proofs/CsvBase.v — infrastructure for the CSV proofs: suffix view of the source, byte-run
   writes, the 2-D index array, prefix sums of text lengths. *)
From Coq Require Import ZArith List Lia Bool.
From EV Require Import Res Arr Csv CsvSpec.
Import ListNotations.
Open Scope Z_scope.

(* ---- suffix view ------------------------------------------------------------------ *)
Definition suf (src:list Z) (i:Z) : list Z := skipn (Z.to_nat i) src.

Lemma skipn_S_tl {A} n (l:list A) : skipn (S n) l = tl (skipn n l).
Proof. revert l. induction n as [|n IH]; intros [|x l]; cbn; auto. apply (IH l). Qed.

Lemma nth_repeat_lt {A} (x d:A) n m : (m < n)%nat -> nth m (repeat x n) d = x.
Proof. revert m. induction n as [|n IH]; intros [|m] H; cbn; try lia; auto. apply IH. lia. Qed.

Lemma suf_0 src : suf src 0 = src.
Proof. reflexivity. Qed.

Lemma suf_len src i : 0 <= i -> i <= len src -> len (suf src i) = len src - i.
Proof. intros H1 H2. unfold suf, len in *. rewrite skipn_length. lia. Qed.

Lemma suf_cons src i b t : 0 <= i -> suf src i = b :: t ->
  i < len src /\ nthZ src i = b /\ suf src (i + 1) = t /\ (forall site, get site src i = Ok b).
Proof.
  intros Hi H. unfold suf in *.
  assert (Hlt : (Z.to_nat i < length src)%nat).
  { destruct (Nat.lt_ge_cases (Z.to_nat i) (length src)) as [|Hge]; [assumption|].
    rewrite skipn_all2 in H by lia. discriminate. }
  assert (Hn : nthZ src i = b).
  { unfold nthZ, nthd. pose proof (nth_skipn src (Z.to_nat i) 0%nat 0) as E. rewrite H in E. cbn in E.
    rewrite Nat.add_0_r in E. symmetry. exact E. }
  assert (Hs : skipn (Z.to_nat (i + 1)) src = t).
  { replace (Z.to_nat (i + 1)) with (S (Z.to_nat i)) by lia.
    rewrite skipn_S_tl. rewrite H. reflexivity. }
  repeat split; try assumption.
  - unfold len; lia.
  - intros site. rewrite (get_ok site 0) by (unfold len; lia). f_equal. exact Hn.
Qed.

Lemma suf_nil_iff src i : 0 <= i -> i <= len src -> (suf src i = [] <-> i = len src).
Proof.
  intros H1 H2. split; intros H.
  - pose proof (suf_len src i H1 H2) as L. rewrite H in L. rewrite len_nil in L. lia.
  - subst. unfold suf, len. rewrite Nat2Z.id. apply skipn_all.
Qed.

Lemma suf_app_len src i l rest : 0 <= i -> suf src i = l ++ rest -> suf src (i + len l) = rest.
Proof.
  revert i. induction l as [|b l IH]; intros i Hi H.
  - rewrite len_nil, Z.add_0_r. exact H.
  - cbn [app] in H. destruct (suf_cons src i b (l ++ rest) Hi H) as (_ & _ & Hs & _).
    rewrite len_cons. replace (i + (len l + 1)) with ((i + 1) + len l) by lia.
    apply IH; [lia|exact Hs].
Qed.

Lemma suf_bound src i l : 0 <= i -> suf src i = l -> i + len l <= len src \/ l = [].
Proof.
  intros Hi H. destruct (Z_le_gt_dec i (len src)) as [Hle|Hgt].
  - left. rewrite <- H. rewrite suf_len by lia. lia.
  - right. rewrite <- H. unfold suf. apply skipn_all2. unfold len in Hgt. lia.
Qed.

(* ---- writing a run of bytes ------------------------------------------------------- *)
Fixpoint wrs (v:list Z) (p:Z) (bs:list Z) : list Z :=
  match bs with [] => v | b :: t => wrs (upd v p b) (p + 1) t end.

Lemma len_wrs v p bs : len (wrs v p bs) = len v.
Proof. revert v p. induction bs as [|b t IH]; intros v p; cbn [wrs]; [reflexivity|]. rewrite IH. apply len_upd. Qed.

Lemma nth_wrs_out v p bs j : 0 <= p -> 0 <= j -> (j < p \/ p + len bs <= j) -> nthZ (wrs v p bs) j = nthZ v j.
Proof.
  revert v p. induction bs as [|b t IH]; intros v p Hp Hj H; cbn [wrs]; [reflexivity|].
  rewrite len_cons in H. pose proof (len_nonneg t) as Ht. rewrite IH by lia. unfold nthZ. apply nthd_upd_other; lia.
Qed.

Lemma nth_wrs_in v p bs j : 0 <= p -> p + len bs <= len v -> 0 <= j < len bs ->
  nthZ (wrs v p bs) (p + j) = nthZ bs j.
Proof.
  revert v p j. induction bs as [|b t IH]; intros v p j Hp Hb Hj; [unfold len in Hj; cbn in Hj; lia|].
  rewrite len_cons in Hb, Hj. pose proof (len_nonneg t) as Ht. cbn [wrs]. destruct (Z.eq_dec j 0) as [->|Hne].
  - rewrite Z.add_0_r. rewrite nth_wrs_out by lia. unfold nthZ. rewrite nthd_upd_same by lia. reflexivity.
  - replace (p + j) with ((p + 1) + (j - 1)) by lia. rewrite IH; try lia.
    + unfold nthZ. replace j with ((j - 1) + 1) at 2 by lia. rewrite nthd_cons_succ by lia. reflexivity.
    + rewrite len_upd. lia.
Qed.

Lemma wrs_app v p a b : wrs v p (a ++ b) = wrs (wrs v p a) (p + len a) b.
Proof.
  revert v p. induction a as [|x a IH]; intros v p; cbn [app wrs].
  - rewrite len_nil, Z.add_0_r. reflexivity.
  - rewrite IH. rewrite len_cons. f_equal. lia.
Qed.

(* ---- the 2-D index array ---------------------------------------------------------- *)
Definition I2 (a:arr2) (c k:Z) : Z := nthZ (nthd [] (snd a) c) k.
Definition put2 (a:arr2) (c k v:Z) : arr2 := (fst a, upd (snd a) c (upd (nthd [] (snd a) c) k v)).

Definition shape (ncols w:Z) (a:arr2) : Prop :=
  fst a = w /\ len (snd a) = ncols /\ forall c, 0 <= c < ncols -> len (nthd [] (snd a) c) = w.

Lemma get2_ok site ncols w a c k : shape ncols w a -> 0 <= c < ncols -> 0 <= k < w ->
  get2 site a c k = Ok (I2 a c k).
Proof.
  intros (Hf & Hl & Hr) Hc Hk. unfold get2. rewrite (get_ok site []) by lia. cbn [bind].
  rewrite (get_ok site 0) by (rewrite Hr; lia). reflexivity.
Qed.

Lemma get2w_ok site ncols w a c k : shape ncols w a -> 0 <= c < ncols -> -1 <= k < w -> 0 < w ->
  get2w site a c k = Ok (I2 a c (if k <? 0 then k + w else k)).
Proof.
  intros (Hf & Hl & Hr) Hc Hk Hw. unfold get2w. rewrite (get_ok site []) by lia. cbn [bind].
  rewrite Hf. rewrite (get_ok site 0); [reflexivity|]. rewrite Hr by lia. destruct (k <? 0) eqn:E; lia.
Qed.

Lemma set2_ok site ncols w a c k v : shape ncols w a -> 0 <= c < ncols -> 0 <= k < w ->
  set2 site a c k v = Ok (put2 a c k v).
Proof.
  intros (Hf & Hl & Hr) Hc Hk. unfold set2. rewrite (get_ok site []) by lia. cbn [bind].
  rewrite set_ok by (rewrite Hr; lia). cbn [bind]. rewrite set_ok by lia. reflexivity.
Qed.

Lemma shape_put2 ncols w a c k v : shape ncols w a -> 0 <= c < ncols -> shape ncols w (put2 a c k v).
Proof.
  intros (Hf & Hl & Hr) Hc. unfold put2. repeat split; cbn [fst snd].
  - exact Hf.
  - rewrite len_upd. exact Hl.
  - intros c' Hc'. destruct (Z.eq_dec c' c) as [->|Hne].
    + rewrite nthd_upd_same by lia. rewrite len_upd. apply Hr; lia.
    + rewrite nthd_upd_other by lia. apply Hr; lia.
Qed.

Lemma I2_put2_same ncols w a c k v : shape ncols w a -> 0 <= c < ncols -> 0 <= k < w ->
  I2 (put2 a c k v) c k = v.
Proof.
  intros (Hf & Hl & Hr) Hc Hk. unfold I2, put2. cbn [snd]. rewrite nthd_upd_same by lia.
  unfold nthZ. apply nthd_upd_same. rewrite Hr; lia.
Qed.

Lemma I2_put2_other ncols w a c k v c' k' : shape ncols w a -> 0 <= c < ncols -> 0 <= k ->
  0 <= c' -> 0 <= k' -> (c' <> c \/ k' <> k) -> I2 (put2 a c k v) c' k' = I2 a c' k'.
Proof.
  intros (Hf & Hl & Hr) Hc Hk Hc' Hk' Hne. unfold I2, put2. cbn [snd].
  destruct (Z.eq_dec c' c) as [->|Hcn].
  - rewrite nthd_upd_same by lia. unfold nthZ. apply nthd_upd_other; lia.
  - rewrite nthd_upd_other by lia. reflexivity.
Qed.

Lemma shape_zeros2 ncols w : 0 <= ncols -> 0 <= w -> shape ncols w (zeros2 ncols w).
Proof.
  intros Hn Hw. unfold zeros2, shape. cbn [fst snd]. repeat split.
  - unfold len. rewrite repeat_length. lia.
  - intros c Hc. unfold nthd. rewrite nth_repeat_lt by lia. unfold zeros, len. rewrite repeat_length. lia.
Qed.
