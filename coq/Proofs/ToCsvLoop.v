(* Proofs/ToCsvLoop.v — the to_csv chunk loop writes header :: selected rows for every
   chunk_row_size >= 1, within a closed-form fuel. *)
From Coq Require Import ZArith List Bool Lia.
From EV Require Import Res Arr ToCsv ToCsvSpec.
Import ListNotations.
Open Scope Z_scope.

(* ---- zip and slices --------------------------------------------------------------------------- *)
Section Zip.
Context {A:Type}.

Lemma zip_cons_firstn k : forall (c:list A) rows,
  zip_cons (firstn k c) (firstn k rows) = firstn k (zip_cons c rows).
Proof.
  induction k as [|k IH]; intros c rows; [reflexivity|].
  destruct c as [|x c]; [reflexivity|]. destruct rows as [|r rows]; [reflexivity|].
  cbn. f_equal. apply IH.
Qed.

Lemma zip_cons_skipn k : forall (c:list A) rows,
  zip_cons (skipn k c) (skipn k rows) = skipn k (zip_cons c rows).
Proof.
  induction k as [|k IH]; intros c rows; [reflexivity|].
  destruct c as [|x c]; [destruct (skipn (S k) rows); reflexivity|].
  destruct rows as [|r rows]; [cbn; destruct (skipn k c); reflexivity|].
  cbn. apply IH.
Qed.

Lemma map_firstn {B} (f:A -> B) k : forall l, map f (firstn k l) = firstn k (map f l).
Proof. induction k; intros [|x l]; cbn; try reflexivity. f_equal. auto. Qed.

Lemma map_skipn {B} (f:A -> B) k : forall l, map f (skipn k l) = skipn k (map f l).
Proof. induction k; intros [|x l]; cbn; try reflexivity. auto. Qed.

Lemma zipcols_firstn k : forall cols : list (list A),
  zipcols (map (firstn k) cols) = firstn k (zipcols cols).
Proof.
  induction cols as [|c rest IH]; [destruct k; reflexivity|].
  destruct rest as [|c2 rest'].
  - cbn. apply map_firstn.
  - change (zipcols (map (firstn k) (c :: c2 :: rest')))
      with (zip_cons (firstn k c) (zipcols (map (firstn k) (c2 :: rest')))).
    rewrite IH. apply zip_cons_firstn.
Qed.

Lemma zipcols_skipn k : forall cols : list (list A),
  zipcols (map (skipn k) cols) = skipn k (zipcols cols).
Proof.
  induction cols as [|c rest IH]; [destruct k; reflexivity|].
  destruct rest as [|c2 rest'].
  - cbn. apply map_skipn.
  - change (zipcols (map (skipn k) (c :: c2 :: rest')))
      with (zip_cons (skipn k c) (zipcols (map (skipn k) (c2 :: rest')))).
    rewrite IH. apply zip_cons_skipn.
Qed.

Lemma zipcols_slice (cols:list (list A)) a b :
  zipcols (map (fun c => slice c a b) cols) = slice (zipcols cols) a b.
Proof.
  unfold slice.
  rewrite <- (map_map (skipn (Z.to_nat a)) (firstn (Z.to_nat (b - a)))).
  rewrite zipcols_firstn, zipcols_skipn. reflexivity.
Qed.

Lemma zip_cons_length (c:list A) : forall rows, (length (zip_cons c rows) <= length c)%nat.
Proof.
  induction c as [|x c IH]; intros rows; [cbn; lia|].
  destruct rows; cbn; [lia|]. specialize (IH rows). lia.
Qed.

Lemma zipcols_length_le (c:list A) rest : (length (zipcols (c :: rest)) <= length c)%nat.
Proof.
  destruct rest as [|c2 r].
  - cbn. rewrite map_length. lia.
  - change (zipcols (c :: c2 :: r)) with (zip_cons c (zipcols (c2 :: r))). apply zip_cons_length.
Qed.

End Zip.

Lemma skipn_skipn' {A} a : forall b (l:list A), skipn a (skipn b l) = skipn (b + a) l.
Proof.
  intros b. induction b as [|b IH]; intros l; [reflexivity|].
  destruct l; cbn [skipn plus]; [destruct a; reflexivity | apply IH].
Qed.

(* ---- the filter ------------------------------------------------------------------------------- *)
Section Select.
Context {A:Type}.

Lemma select_nil_r (f:list bool) : select f (@nil A) = [].
Proof. destruct f; reflexivity. Qed.

Lemma select_app (f:list bool) : forall a b : list A,
  select f (a ++ b) = select f a ++ select (skipn (length a) f) b.
Proof.
  induction f as [|x f IH]; intros a b.
  - cbn. destruct (length a); cbn; rewrite ?select_nil_r; destruct a; reflexivity.
  - destruct a as [|r a]; [reflexivity|].
    cbn [app select length skipn]. rewrite IH. destruct x; reflexivity.
Qed.

(* rows selected among `rows`, which are the rows k, k+1, ... of the frame *)
Definition sel_from (flt:option (list bool)) (k:nat) (rows:list A) : list A :=
  match flt with None => rows | Some f => select (skipn k f) rows end.

Lemma sel_from_nil flt k : sel_from flt k [] = [].
Proof. destruct flt; cbn; [apply select_nil_r | reflexivity]. Qed.

Lemma sel_from_app flt k (a b:list A) :
  sel_from flt k (a ++ b) = sel_from flt k a ++ sel_from flt (k + length a) b.
Proof.
  destruct flt as [f|]; cbn; [|reflexivity].
  rewrite select_app. rewrite skipn_skipn'. reflexivity.
Qed.

End Select.

Lemma skipn_nth_error {A} (f:list A) k :
  skipn k f = match nth_error f k with Some b => b :: skipn (S k) f | None => [] end.
Proof.
  revert k. induction f as [|x f IH]; intros k.
  - destruct k; reflexivity.
  - destruct k; [reflexivity|]. cbn [skipn nth_error]. apply IH.
Qed.

Lemma selected_spec f idx : 0 <= idx ->
  selected (Some f) idx = match nth_error f (Z.to_nat idx) with Some b => b | None => false end.
Proof.
  intros H. unfold selected. destruct (idx <? len f) eqn:E.
  - unfold get. destruct (idx <? 0) eqn:E0; [lia|].
    destruct (nth_error f (Z.to_nat idx)); reflexivity.
  - destruct (nth_error f (Z.to_nat idx)) eqn:N; [|reflexivity].
    assert (nth_error f (Z.to_nat idx) <> None) as Hn by congruence.
    apply nth_error_Some in Hn. unfold len in E. lia.
Qed.

Definition written (v:variant) (rows:list (list cell)) : bytes := concat (map (write_row v) rows).

Lemma written_app v a b : written v (a ++ b) = written v a ++ written v b.
Proof. unfold written. rewrite map_app, concat_app. reflexivity. Qed.

Lemma emit_rows_spec v flt start rows : forall i, 0 <= i + start ->
  emit_rows v flt start i rows = written v (sel_from flt (Z.to_nat (i + start)) rows).
Proof.
  induction rows as [|r t IH]; intros i Hi.
  - rewrite sel_from_nil. reflexivity.
  - cbn [emit_rows]. rewrite IH by lia.
    destruct flt as [f|].
    + rewrite selected_spec by lia. cbn [sel_from].
      rewrite (skipn_nth_error f (Z.to_nat (i + start))).
      replace (Z.to_nat (i + 1 + start)) with (S (Z.to_nat (i + start))) by lia.
      destruct (nth_error f (Z.to_nat (i + start))) as [b|] eqn:N.
      * cbn [select]. destruct b; reflexivity.
      * cbn [select app].
        assert (Hs : skipn (S (Z.to_nat (i + start))) f = []).
        { apply skipn_all2. apply nth_error_None in N. lia. }
        rewrite Hs. destruct t; reflexivity.
    + cbn [selected sel_from]. reflexivity.
Qed.

(* ---- the loop --------------------------------------------------------------------------------- *)
Lemma csv_loop_ok v cols flt chunk : 0 < chunk ->
  forall fuel k out,
    (match cols with
     | [] => (0 < fuel)%nat
     | c0 :: _ => Z.of_nat k <= len c0 /\ len c0 - Z.of_nat k < Z.of_nat fuel * chunk
     end) ->
    csv_loop fuel v cols flt chunk (Z.of_nat k) out
    = match cols, v with
      | [], V_orig => Raise E_IndexError
      | _, _ => Ok (out ++ written v (sel_from flt k (skipn k (zipcols cols))))
      end.
Proof.
  intros Hc. induction fuel as [|fuel IH]; intros k out Hf.
  - destruct cols; lia.
  - cbn [csv_loop]. rewrite zipcols_slice.
    rewrite emit_rows_spec by lia. rewrite Z.add_0_l, Nat2Z.id.
    destruct cols as [|c0 rest].
    + cbn [map]. destruct v; [reflexivity|]. cbn [zipcols]. unfold slice.
      rewrite !skipn_nil, firstn_nil, !sel_from_nil. reflexivity.
    + cbn [map]. destruct Hf as [Hk Hfuel].
      set (rows := zipcols (c0 :: rest)).
      assert (Hrl : (length rows <= length c0)%nat) by apply zipcols_length_le.
      assert (Hlen : len (slice c0 (Z.of_nat k) (Z.of_nat k + chunk)) = Z.min chunk (len c0 - Z.of_nat k)).
      { rewrite len_slice_clamp by lia. lia. }
      rewrite Hlen.
      unfold slice. replace (Z.of_nat k + chunk - Z.of_nat k) with chunk by lia.
      rewrite Nat2Z.id.
      set (cn := Z.to_nat chunk).
      destruct (Z.min chunk (len c0 - Z.of_nat k) <? chunk) eqn:E.
      * (* short chunk: it holds all remaining rows *)
        apply Z.ltb_lt in E.
        assert (Hall : firstn cn (skipn k rows) = skipn k rows).
        { apply firstn_all2. rewrite skipn_length. unfold len in *. lia. }
        rewrite Hall. destruct v; reflexivity.
      * apply Z.ltb_ge in E.
        replace (Z.of_nat k + chunk) with (Z.of_nat (k + cn)) by lia.
        rewrite IH.
        2:{ split; [lia|]. nia. }
        rewrite <- app_assoc, <- written_app.
        assert (Hsplit : sel_from flt k (skipn k rows)
                         = sel_from flt k (firstn cn (skipn k rows)) ++ sel_from flt (k + cn) (skipn (k + cn) rows)).
        { rewrite <- (firstn_skipn cn (skipn k rows)) at 1. rewrite sel_from_app.
          rewrite skipn_skipn'.
          destruct (Nat.le_gt_cases cn (length (skipn k rows))) as [Hle|Hgt].
          - rewrite firstn_length_le by exact Hle. reflexivity.
          - assert (Hn : skipn (k + cn) rows = []).
            { apply skipn_all2. rewrite skipn_length in Hgt. lia. }
            rewrite Hn, !sel_from_nil. reflexivity. }
        rewrite Hsplit. destruct v; reflexivity.
Qed.
