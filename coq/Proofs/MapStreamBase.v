(* Proofs/MapStreamBase.v — lemmas shared by the proofs about Model/MapStream.v:
   numpy slicing helpers, chunk fetch, get_valid_value_extents, next_map_subchunk and the
   sub-chunk decomposition (a chain of non-empty consecutive ranges covering the map chunk). *)
From Coq Require Import ZArith List Lia Bool.
From EV Require Import Res Arr MapStream MapStreamSpec.
Import ListNotations.
Open Scope Z_scope.

(* ---------- numpy slicing ---------- *)
Lemma np_norm_id n a : 0 <= a <= n -> np_norm n a = a.
Proof. intros H. unfold np_norm. destruct (a <? 0) eqn:E; lia. Qed.

Lemma np_slice_slice {A} (l:list A) a b : 0 <= a <= len l -> 0 <= b <= len l -> np_slice l a b = slice l a b.
Proof. intros Ha Hb. unfold np_slice. rewrite !np_norm_id by lia. reflexivity. Qed.

(* a[lo:hi] with hi beyond the end clamps *)
Lemma np_slice_clamp {A} (l:list A) a b : 0 <= a <= len l -> len l <= b -> np_slice l a b = slice l a (len l).
Proof.
  intros Ha Hb. unfold np_slice. rewrite np_norm_id by lia.
  unfold np_norm. destruct (b <? 0) eqn:E; [pose proof (len_nonneg l); lia|].
  rewrite Z.min_r by lia. reflexivity.
Qed.

Lemma nth_repeat_any {A} (x d:A) n k : (k < n)%nat -> nth k (repeat x n) d = x.
Proof. revert k. induction n as [|n IH]; intros k H; [lia|]. destruct k; cbn; [reflexivity|]. apply IH. lia. Qed.

Lemma len_np_slice_fill {A} (l:list A) a b v : len (np_slice_fill l a b v) = len l.
Proof.
  unfold np_slice_fill.
  set (a' := np_norm (len l) a). set (b' := np_norm (len l) b).
  assert (Ha : 0 <= a' <= len l).
  { unfold a', np_norm. pose proof (len_nonneg l). destruct (a <? 0) eqn:E0; lia. }
  assert (Hb : 0 <= b' <= len l).
  { unfold b', np_norm. pose proof (len_nonneg l). destruct (b <? 0) eqn:E0; lia. }
  destruct (a' <? b') eqn:E; [|reflexivity].
  rewrite !len_app. unfold len in *. rewrite firstn_length, repeat_length, skipn_length. lia.
Qed.

Lemma nthd_np_slice_fill {A} (d:A) (l:list A) a b v i :
  0 <= a -> a <= b -> b <= len l -> 0 <= i ->
  nthd d (np_slice_fill l a b v) i = if (a <=? i) && (i <? b) then v else nthd d l i.
Proof.
  intros Ha Hab Hb Hi. unfold np_slice_fill. rewrite !np_norm_id by lia.
  destruct (a <? b) eqn:E.
  - destruct (Z_lt_dec i a) as [Hia|Hia].
    + rewrite nthd_app_l by (unfold len in *; rewrite firstn_length; lia).
      replace ((a <=? i) && (i <? b)) with false by lia.
      unfold nthd. apply nth_firstn. lia.
    + rewrite nthd_app_r by (unfold len in *; rewrite firstn_length; lia).
      assert (Hlf : len (firstn (Z.to_nat a) l) = a) by (unfold len in *; rewrite firstn_length; lia).
      rewrite Hlf.
      destruct (Z_lt_dec i b) as [Hib|Hib].
      * rewrite nthd_app_l by (unfold len; rewrite repeat_length; lia).
        replace ((a <=? i) && (i <? b)) with true by lia.
        unfold nthd. apply nth_repeat_any. lia.
      * rewrite nthd_app_r by (unfold len; rewrite repeat_length; lia).
        replace ((a <=? i) && (i <? b)) with false by lia.
        unfold len. rewrite repeat_length. unfold nthd. rewrite nth_skipn. f_equal. lia.
  - replace ((a <=? i) && (i <? b)) with false by lia. reflexivity.
Qed.

Lemma slice_slice_nthd {A} (d:A) (l:list A) a b i :
  0 <= a -> a <= b -> b <= len l -> 0 <= i < b - a -> nthd d (slice l a b) i = nthd d l (a + i).
Proof. intros. apply nthd_slice; lia. Qed.

Lemma len_repeat {A} (x:A) n : len (repeat x n) = Z.of_nat n.
Proof. unfold len. rewrite repeat_length. reflexivity. Qed.

Lemma len_map {A B} (f:A -> B) l : len (map f l) = len l.
Proof. unfold len. rewrite map_length. reflexivity. Qed.

Lemma nthd_map {A B} (f:A -> B) (da:A) (db:B) l i : 0 <= i < len l -> nthd db (map f l) i = f (nthd da l i).
Proof.
  intros H. unfold nthd, len in *. rewrite (nth_indep _ db (f da)) by (rewrite map_length; lia).
  apply map_nth.
Qed.

(* ---------- next_chunk / untrimmed_chunk ---------- *)
Lemma untrimmed_chunk_spec (field:list Z) start cs :
  0 <= start <= len field -> 1 <= cs ->
  let e := Z.min (start + cs) (len field) in
  untrimmed_chunk field start cs = ((start, e), slice field start e, e - start, start).
Proof.
  intros Hs Hcs e. unfold untrimmed_chunk, next_chunk.
  destruct (start + cs <? len field) eqn:E; cbn [fst snd].
  - replace e with (start + cs) by lia. rewrite np_slice_slice by lia. reflexivity.
  - replace e with (len field) by lia. rewrite np_slice_slice by lia. reflexivity.
Qed.

(* ---------- chains of sub-chunks ---------- *)
Fixpoint chain (subs:list (Z * Z)) (a e:Z) : Prop :=
  match subs with
  | [] => a = e
  | p :: t => fst p = a /\ a < snd p /\ snd p <= e /\ chain t (snd p) e
  end.

(* ---------- nms_skip / nms_span / next_map_subchunk ---------- *)
Lemma nms_skip_bounds fuel map_ sm inv :
  0 <= sm <= len map_ -> (Z.to_nat (len map_ - sm) < fuel)%nat ->
  exists sm1, nms_skip fuel map_ sm inv = Ok sm1 /\ sm <= sm1 <= len map_.
Proof.
  revert sm. induction fuel as [|f IH]; intros sm Hs Hf; [lia|].
  cbn [nms_skip]. destruct (sm <? len map_) eqn:E.
  - rewrite (getZ_ok 101 map_ sm) by lia. cbn [bind].
    destruct (nthZ map_ sm =? inv).
    + destruct (IH (sm + 1)) as [s1 [H1 H2]]; [lia|lia|]. exists s1. split; [exact H1|lia].
    + exists sm. split; [reflexivity|lia].
  - exists sm. split; [reflexivity|lia].
Qed.

Lemma nms_span_bounds fuel map_ sm start cs :
  0 <= sm <= len map_ -> (Z.to_nat (len map_ - sm) < fuel)%nat ->
  exists sm2, nms_span fuel map_ sm start cs = Ok sm2 /\ sm <= sm2 <= len map_ /\
              (sm < len map_ -> nthZ map_ sm - start < cs -> sm + 1 <= sm2).
Proof.
  revert sm. induction fuel as [|f IH]; intros sm Hs Hf; [lia|].
  cbn [nms_span]. destruct (sm <? len map_) eqn:E.
  - rewrite (getZ_ok 103 map_ sm) by lia. cbn [bind].
    destruct (nthZ map_ sm - start <? cs) eqn:E2.
    + destruct (IH (sm + 1)) as [s2 [H1 [H2 _]]]; [lia|lia|]. exists s2. split; [exact H1|]. split; lia.
    + exists sm. split; [reflexivity|]. split; lia.
  - exists sm. split; [reflexivity|]. split; lia.
Qed.

Lemma next_map_subchunk_progress map_ sm inv cs :
  0 <= sm < len map_ -> 1 <= cs ->
  exists nsm, next_map_subchunk map_ sm inv cs = Ok nsm /\ sm < nsm <= len map_.
Proof.
  intros Hs Hcs. unfold next_map_subchunk.
  assert (Hlen : len map_ = Z.of_nat (length map_)) by reflexivity.
  destruct (nms_skip_bounds (S (length map_)) map_ sm inv) as [sm1 [H1 B1]]; [lia|lia|].
  rewrite H1. cbn [bind].
  destruct (sm1 <? len map_) eqn:E.
  - rewrite (getZ_ok 102 map_ sm1) by lia. cbn [bind].
    destruct (nms_span_bounds (S (length map_)) map_ sm1 (nthZ map_ sm1) cs) as [sm2 [H2 [B2 P2]]]; [lia|lia|].
    exists sm2. split; [exact H2|]. specialize (P2 ltac:(lia) ltac:(lia)). lia.
  - cbn [bind].
    destruct (nms_span_bounds (S (length map_)) map_ sm1 (-1) cs) as [sm2 [H2 [B2 _]]]; [lia|lia|].
    exists sm2. split; [exact H2|]. lia.
Qed.

(* the sub-chunker of fix-F-C02f *)
Lemma nms2_loop_bounds fuel map_ inv cs : forall sm found lo hi,
  0 <= sm <= len map_ -> (Z.to_nat (len map_ - sm) < fuel)%nat ->
  exists sm2, nms2_loop fuel map_ sm inv cs found lo hi = Ok sm2 /\ sm <= sm2 <= len map_ /\
              (sm < len map_ -> found = false -> sm + 1 <= sm2).
Proof.
  induction fuel as [|f IH]; intros sm found lo hi Hs Hf; [lia|].
  cbn [nms2_loop]. destruct (sm <? len map_) eqn:E.
  - rewrite (getZ_ok 104 map_ sm) by lia. cbn [bind].
    destruct (nthZ map_ sm =? inv) eqn:Ei; cbn [negb].
    + destruct (IH (sm + 1) found lo hi) as [s2 [H1 [H2 _]]]; [lia|lia|].
      exists s2. split; [exact H1|]. split; lia.
    + destruct found; cbn [negb].
      * destruct (Z.max hi (nthZ map_ sm) - Z.min lo (nthZ map_ sm) >=? cs) eqn:Ec.
        -- exists sm. split; [reflexivity|]. split; [lia|]. intros _ Hd. discriminate.
        -- destruct (IH (sm + 1) true (Z.min lo (nthZ map_ sm)) (Z.max hi (nthZ map_ sm))) as [s2 [H1 [H2 _]]]; [lia|lia|].
           exists s2. split; [exact H1|]. split; [lia|]. intros _ Hd. discriminate.
      * destruct (IH (sm + 1) true (nthZ map_ sm) (nthZ map_ sm)) as [s2 [H1 [H2 _]]]; [lia|lia|].
        exists s2. split; [exact H1|]. split; lia.
  - exists sm. split; [reflexivity|]. split; lia.
Qed.

Lemma next_map_subchunk2_progress map_ sm inv cs :
  0 <= sm < len map_ ->
  exists nsm, next_map_subchunk2 map_ sm inv cs = Ok nsm /\ sm < nsm <= len map_.
Proof.
  intros Hs. unfold next_map_subchunk2.
  assert (Hlen : len map_ = Z.of_nat (length map_)) by reflexivity.
  destruct (nms2_loop_bounds (S (length map_)) map_ inv cs sm false inv inv) as [nsm [H1 [B1 P1]]]; [lia|lia|].
  exists nsm. split; [exact H1|]. specialize (P1 ltac:(lia) eq_refl). lia.
Qed.

Lemma next_map_subchunk_v_progress ver map_ sm inv cs :
  0 <= sm < len map_ -> 1 <= cs ->
  exists nsm, next_map_subchunk_v ver map_ sm inv cs = Ok nsm /\ sm < nsm <= len map_.
Proof.
  intros Hs Hcs. unfold next_map_subchunk_v. destruct (span_kernels ver).
  - apply next_map_subchunk2_progress. exact Hs.
  - apply next_map_subchunk_progress; assumption.
Qed.

Lemma subchunks_loop_chain fuel ver map_ inv cs sm :
  0 <= sm <= len map_ -> 1 <= cs -> (Z.to_nat (len map_ - sm) < fuel)%nat ->
  exists subs, subchunks_loop fuel ver map_ inv cs sm = Ok subs /\ chain subs sm (len map_).
Proof.
  revert sm. induction fuel as [|f IH]; intros sm Hs Hcs Hf; [lia|].
  cbn [subchunks_loop]. destruct (sm <? len map_) eqn:E.
  - destruct (next_map_subchunk_v_progress ver map_ sm (match ver with Orig => -1 | _ => inv end) cs)
      as [nsm [H1 B1]]; [lia|lia|].
    rewrite H1. cbn [bind].
    destruct (IH nsm) as [rest [H2 C2]]; [lia|lia|lia|].
    rewrite H2. cbn [bind]. exists ((sm, nsm) :: rest). split; [reflexivity|].
    cbn [chain fst snd]. repeat split; try lia. exact C2.
  - exists []. split; [reflexivity|]. cbn [chain]. lia.
Qed.

(* ---------- get_valid_value_extents ---------- *)
Definition all_inv (chunk:list Z) (inv s e:Z) : Prop := forall i, s <= i < e -> nthZ chunk i = inv.

Lemma gve_first_spec n chunk i inv :
  0 <= i -> i + Z.of_nat n <= len chunk ->
  (all_inv chunk inv i (i + Z.of_nat n) /\ gve_first n chunk i inv = Ok (inv, i + Z.of_nat n - 1)) \/
  (exists i0, i <= i0 < i + Z.of_nat n /\ all_inv chunk inv i i0 /\ nthZ chunk i0 <> inv /\
              gve_first n chunk i inv = Ok (nthZ chunk i0, i0)).
Proof.
  revert i. induction n as [|n IH]; intros i Hi Hn.
  - left. split; [intros j Hj; lia|]. cbn [gve_first]. f_equal. f_equal. lia.
  - cbn [gve_first]. rewrite (getZ_ok 111 chunk i) by lia. cbn [bind].
    destruct (nthZ chunk i =? inv) eqn:E; cbn [negb].
    + destruct (IH (i + 1)) as [[Ha Hr]|[i0 [Hb [Ha [Hne Hr]]]]]; [lia|lia| |].
      * left. split.
        -- intros j Hj. destruct (Z.eq_dec j i) as [->|]; [lia|]. apply Ha. lia.
        -- rewrite Hr. f_equal. f_equal. lia.
      * right. exists i0. split; [lia|]. split.
        -- intros j Hj. destruct (Z.eq_dec j i) as [->|]; [lia|]. apply Ha. lia.
        -- split; [exact Hne|exact Hr].
    + right. exists i. split; [lia|]. split; [intros j Hj; lia|]. split; [lia|reflexivity].
Qed.

Lemma gve_last_spec fuel chunk j i inv :
  0 <= i -> j < len chunk -> (Z.to_nat (j - i + 1) < fuel)%nat ->
  (all_inv chunk inv i (j + 1) /\ gve_last fuel chunk j i inv = Ok inv) \/
  (exists j0, i <= j0 <= j /\ all_inv chunk inv (j0 + 1) (j + 1) /\ nthZ chunk j0 <> inv /\
              gve_last fuel chunk j i inv = Ok (nthZ chunk j0)).
Proof.
  revert j. induction fuel as [|f IH]; intros j Hi Hj Hf; [lia|].
  cbn [gve_last]. destruct (j >=? i) eqn:E.
  - rewrite (getZ_ok 112 chunk j) by lia. cbn [bind].
    destruct (nthZ chunk j =? inv) eqn:E2; cbn [negb].
    + destruct (IH (j - 1)) as [[Ha Hr]|[j0 [Hb [Ha [Hne Hr]]]]]; [lia|lia|lia| |].
      * left. split; [|exact Hr].
        intros k Hk. destruct (Z.eq_dec k j) as [->|]; [lia|]. apply Ha. lia.
      * right. exists j0. split; [lia|]. split.
        -- intros k Hk. destruct (Z.eq_dec k j) as [->|]; [lia|]. apply Ha. lia.
        -- split; [exact Hne|exact Hr].
    + right. exists j. split; [lia|]. split; [intros k Hk; lia|]. split; [lia|reflexivity].
  - left. split; [intros k Hk; lia|reflexivity].
Qed.

(* the two outcomes of get_valid_value_extents on a non-empty range *)
Lemma gve_spec chunk s e inv :
  0 <= s -> s < e -> e <= len chunk ->
  (all_inv chunk inv s e /\ get_valid_value_extents chunk s e inv = Ok (inv, inv)) \/
  (exists i0 j0, s <= i0 /\ i0 <= j0 /\ j0 < e /\
      all_inv chunk inv s i0 /\ all_inv chunk inv (j0 + 1) e /\
      nthZ chunk i0 <> inv /\ nthZ chunk j0 <> inv /\
      get_valid_value_extents chunk s e inv = Ok (nthZ chunk i0, nthZ chunk j0)).
Proof.
  intros Hs Hse He. unfold get_valid_value_extents.
  destruct (e <=? s) eqn:E; [lia|].
  destruct (gve_first_spec (Z.to_nat (e - s)) chunk s inv) as [[Ha Hr]|[i0 [Hb [Ha [Hne Hr]]]]]; [lia|lia| |].
  - left. replace (s + Z.of_nat (Z.to_nat (e - s))) with e in * by lia. split; [exact Ha|].
    rewrite Hr. cbn [bind].
    destruct (gve_last_spec (S (Z.to_nat (e - s))) chunk (e - 1) (e - 1) inv) as [[Ha2 Hr2]|[j0 [Hb2 [Ha2 [Hne2 Hr2]]]]];
      [lia|lia|lia| |].
    + rewrite Hr2. reflexivity.
    + exfalso. apply Hne2. apply Ha. lia.
  - right. replace (s + Z.of_nat (Z.to_nat (e - s))) with e in * by lia.
    rewrite Hr. cbn [bind].
    destruct (gve_last_spec (S (Z.to_nat (e - s))) chunk (e - 1) i0 inv) as [[Ha2 Hr2]|[j0 [Hb2 [Ha2 [Hne2 Hr2]]]]];
      [lia|lia|lia| |].
    + exfalso. apply Hne. apply Ha2. lia.
    + exists i0, j0. replace (e - 1 + 1) with e in * by lia.
      repeat split; try lia; try assumption. rewrite Hr2. reflexivity.
Qed.

(* ---------- get_valid_value_extents after fix-F-C02f: min / max of the valid entries ---------- *)
Definition ext_state (chunk:list Z) (inv s i first last:Z) : Prop :=
  (first = inv /\ last = inv /\ all_inv chunk inv s i) \/
  (exists i0 j0, s <= i0 < i /\ s <= j0 < i /\ nthZ chunk i0 = first /\ nthZ chunk j0 = last /\
     first <> inv /\ last <> inv /\
     forall t, s <= t < i -> nthZ chunk t <> inv -> first <= nthZ chunk t <= last).

Lemma gve2_loop_spec chunk inv s n : forall i first last,
  0 <= s -> s <= i -> i + Z.of_nat n <= len chunk -> ext_state chunk inv s i first last ->
  exists f l, gve2_loop n chunk i inv first last = Ok (f, l) /\ ext_state chunk inv s (i + Z.of_nat n) f l.
Proof.
  induction n as [|n IH]; intros i first last Hs Hi Hn St.
  - exists first, last. split; [reflexivity|]. replace (i + Z.of_nat 0) with i by lia. exact St.
  - cbn [gve2_loop]. rewrite (getZ_ok 113 chunk i) by lia. cbn [bind].
    replace (i + Z.of_nat (S n)) with (i + 1 + Z.of_nat n) by lia.
    destruct (nthZ chunk i =? inv) eqn:Ei; cbn [negb].
    + apply IH; try lia.
      destruct St as [[H1 [H2 Ha]]|[i0 [j0 [B1 [B2 [E1 [E2 [N1 [N2 Hb]]]]]]]]].
      * left. split; [exact H1|]. split; [exact H2|].
        intros t Ht. destruct (Z.eq_dec t i) as [->|]; [lia|]. apply Ha. lia.
      * right. exists i0, j0. repeat split; try lia; try assumption;
          (destruct (Z.eq_dec t i) as [->|]; [lia|]; apply Hb; [lia|assumption]).
    + destruct St as [[H1 [H2 Ha]]|[i0 [j0 [B1 [B2 [E1 [E2 [N1 [N2 Hb]]]]]]]]].
      * subst first last. rewrite Z.eqb_refl. apply IH; try lia.
        right. exists i, i. repeat split; try lia;
          (destruct (Z.eq_dec t i) as [->|]; [lia|]; exfalso; apply H0; apply Ha; lia).
      * destruct (first =? inv) eqn:Ef; [lia|]. apply IH; try lia.
        right.
        exists (if nthZ chunk i <? first then i else i0), (if nthZ chunk i >? last then i else j0).
        destruct (nthZ chunk i <? first) eqn:Elo; destruct (nthZ chunk i >? last) eqn:Ehi;
          repeat split; try lia;
          (destruct (Z.eq_dec t i) as [->|]; [lia|]; pose proof (Hb t ltac:(lia) H0); lia).
Qed.

(* the two outcomes of the repaired get_valid_value_extents *)
Lemma gve2_spec chunk s e inv :
  0 <= s -> s <= e -> e <= len chunk ->
  (all_inv chunk inv s e /\ get_valid_value_extents2 chunk s e inv = Ok (inv, inv)) \/
  (exists i0 j0, s <= i0 < e /\ s <= j0 < e /\ nthZ chunk i0 <> inv /\ nthZ chunk j0 <> inv /\
      (forall t, s <= t < e -> nthZ chunk t <> inv -> nthZ chunk i0 <= nthZ chunk t <= nthZ chunk j0) /\
      get_valid_value_extents2 chunk s e inv = Ok (nthZ chunk i0, nthZ chunk j0)).
Proof.
  intros Hs Hse He. unfold get_valid_value_extents2.
  destruct (gve2_loop_spec chunk inv s (Z.to_nat (e - s)) s inv inv) as [f [l [Hr St]]]; try lia.
  { left. split; [reflexivity|]. split; [reflexivity|]. intros t Ht. lia. }
  replace (s + Z.of_nat (Z.to_nat (e - s))) with e in St by lia.
  destruct St as [[H1 [H2 Ha]]|[i0 [j0 [B1 [B2 [E1 [E2 [N1 [N2 Hb]]]]]]]]].
  - left. subst f l. split; [exact Ha|exact Hr].
  - right. exists i0, j0. subst f l. repeat split; try lia; try assumption; apply Hb; assumption.
Qed.

(* ---------- in-range maps (no order required) on slices ---------- *)
Definition in_range_map (n inv:Z) (m:list Z) : Prop :=
  forall i, 0 <= i < len m -> nthZ m i <> inv -> 0 <= nthZ m i < n.

Lemma valid_map_in_range n inv m : valid_map n inv m -> in_range_map n inv m.
Proof. intros [H _]. exact H. Qed.

Lemma in_range_map_slice n inv m a b :
  0 <= a -> a <= b -> b <= len m -> in_range_map n inv m -> in_range_map n inv (slice m a b).
Proof.
  intros Ha Hab Hb Hr i Hi Hne. rewrite len_slice in Hi by lia. unfold nthZ in *.
  rewrite nthd_slice in * by lia. apply Hr; [lia|exact Hne].
Qed.

(* ---------- valid_map on slices ---------- *)
Lemma valid_map_slice n inv m a b :
  0 <= a -> a <= b -> b <= len m -> valid_map n inv m -> valid_map n inv (slice m a b).
Proof.
  intros Ha Hab Hb [Hr Hm].
  assert (Hl : len (slice m a b) = b - a) by (apply len_slice; lia).
  split.
  - intros i Hi Hne. rewrite Hl in Hi. unfold nthZ in *. rewrite nthd_slice in * by lia. apply Hr; [lia|exact Hne].
  - intros i j Hi Hij Hj Hni Hnj. rewrite Hl in Hj. unfold nthZ in *.
    rewrite (nthd_slice 0 m a b i) in * by lia. rewrite (nthd_slice 0 m a b j) in * by lia.
    apply Hm; try lia; assumption.
Qed.
