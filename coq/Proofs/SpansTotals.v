(* Proofs/SpansTotals.v — C08, whole-column corollary: the span sizes telescope, so the counts
   of the spans of a column add up to its row count (no row is outside every span or in two). *)
From Coq Require Import ZArith List Bool Lia.
From EV Require Import Res Arr Spans SpansSpec.
Import ListNotations.
Open Scope Z_scope.

Lemma last_cons_default_Z (x:Z) l d1 d2 : last (x :: l) d1 = last (x :: l) d2.
Proof.
  revert x; induction l as [|y l IH]; intros x; [reflexivity|].
  change (last (x :: y :: l) d1) with (last (y :: l) d1).
  change (last (x :: y :: l) d2) with (last (y :: l) d2). apply IH.
Qed.

Lemma count_ref_telescopes t : forall a, sumZ (count_ref (a :: t)) = last (a :: t) a - a.
Proof.
  induction t as [|b t IH]; intros a.
  - cbn. lia.
  - change (count_ref (a :: b :: t)) with ((b - a) :: count_ref (b :: t)).
    cbn [sumZ]. rewrite IH.
    change (last (a :: b :: t) a) with (last (b :: t) a).
    rewrite (last_cons_default_Z b t a b). lia.
Qed.

Lemma nth_length_last (t:list Z) : forall a d, nth (length t) (a :: t) d = last (a :: t) d.
Proof.
  induction t as [|b t IH]; intros a d; [reflexivity|].
  change (last (a :: b :: t) d) with (last (b :: t) d).
  cbn [length nth]. apply IH.
Qed.

Theorem count_ref_sum_pf sp : 1 <= len sp ->
  sumZ (count_ref sp) = nthZ sp (len sp - 1) - nthZ sp 0.
Proof.
  destruct sp as [|a t]; intros H; [cbn in H; lia|].
  rewrite count_ref_telescopes. unfold nthZ, nthd. rewrite len_cons.
  replace (Z.to_nat (len t + 1 - 1)) with (length t) by (unfold len; lia).
  rewrite nth_length_last. cbn [Z.to_nat nth].
  now rewrite (last_cons_default_Z a t a 0).
Qed.

Theorem counts_sum_to_rows_pf {A} (d:A) (xs:list A) sp :
  is_spans d xs sp -> sumZ (count_ref sp) = len xs.
Proof.
  intros (_ & Hl & H0 & Hn & _). rewrite count_ref_sum_pf by exact Hl. lia.
Qed.
