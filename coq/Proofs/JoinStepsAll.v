(* Proofs/JoinStepsAll.v — the quantitative C12 statements of JoinSteps.v for all eight streamed
   variants at once (KindOK_all of JoinAll.v), in plain nat arithmetic, and an evaluated example. *)
From Coq Require Import ZArith List Lia Bool ZifyBool.
From EV Require Import Res Arr Join JoinSpec JoinBase JoinIface JoinDriver JoinMain JoinAll JoinSteps.
Import ListNotations.
Open Scope Z_scope.

Section AllSteps.
Variables (k:kind) (is_left:bool) (L R:list Z) (inv cs:Z).
Hypothesis Hpre : kind_pre k L R.
Hypothesis Hcs : 1 <= cs.

Notation NSPEC := (length (join_spec is_left inv L R)).

(* the driver's main loop ends within |L|+|R|+|join|+1 iterations and its tail loop within |L|+1, whatever
   the chunk size and whatever the outcome (the maps, or the clear ValueError) *)
Theorem streamed_linear_iterations : forall fm ft:nat,
  (fm > length L + length R + NSPEC)%nat -> (ft > length L)%nat ->
  streamed_with fm ft (mkvar k is_left) L R inv cs = streamed (mkvar k is_left) L R inv cs.
Proof.
  intros fm ft Hfm Hft.
  apply (streamed_with_eq k is_left L R inv cs (KindOK_all k is_left L R inv cs Hpre Hcs) Hcs); unfold len; lia.
Qed.

Corollary streamed_with_terminates : forall fm ft:nat,
  (fm > length L + length R + NSPEC)%nat -> (ft > length L)%nat ->
  streamed_with fm ft (mkvar k is_left) L R inv cs <> OutOfFuel.
Proof.
  intros fm ft Hfm Hft. rewrite (streamed_linear_iterations fm ft Hfm Hft).
  apply (streamed_terminates k is_left L R inv cs Hpre Hcs).
Qed.

(* total work of a successful run: iterations of both loops, loop bodies of both kernels, scan bodies *)
Theorem streamed_linear_work : forall out,
  streamed (mkvar k is_left) L R inv cs = Ok out ->
  exists c, streamed_cnt (mkvar k is_left) L R inv cs = Ok (out, c) /\
    (c_calls c + c_tail c <= length L + length R + NSPEC)%nat /\
    (c_ksteps c + c_rsteps c <= 2 * (length L + length R + NSPEC) + c_calls c)%nat /\
    (c_scan c <= NSPEC)%nat.
Proof.
  intros out E. rewrite streamed_cnt_erase in E.
  destruct (streamed_cnt (mkvar k is_left) L R inv cs) as [[o c]| | |] eqn:Ec; cbn [bind fst] in E; try discriminate.
  injection E as ->. exists c. split; [reflexivity|].
  pose proof (streamed_cnt_bound k is_left L R inv cs (KindOK_all k is_left L R inv cs Hpre Hcs) Hcs out c Ec)
    as (H1 & H2 & H3).
  unfold len in *. lia.
Qed.

(* every prefix of an execution - `it` completed main-loop iterations from the driver's initial state, having
   executed `ks` kernel loop bodies - is within the same bounds, however the run ends (exit, or the clear
   ValueError raised by a later chunk fetch) *)
Theorem streamed_linear_work_prefix : forall lc rc it ks d',
  fetch_chunk (v_ltrim (mkvar k is_left)) 0 cs L = Ok lc -> fetch_chunk (v_rtrim (mkvar k is_left)) 0 cs R = Ok rc ->
  iters k is_left L R inv cs (init_drv cs lc rc) it ks d' ->
  (it <= length L + length R + NSPEC)%nat /\ (ks <= 2 * (length L + length R + NSPEC) + it)%nat.
Proof.
  intros lc rc it ks d' El Er Hit.
  pose proof (streamed_prefix_bound k is_left L R inv cs (KindOK_all k is_left L R inv cs Hpre Hcs) Hcs lc rc it ks d' El Er Hit)
    as (H1 & H2).
  unfold len in *. lia.
Qed.

End AllSteps.

(* the instrumented driver is the model's driver with counters *)
Theorem streamed_cnt_is_streamed : forall v L R inv cs,
  streamed v L R inv cs = do x <- streamed_cnt v L R inv cs; Ok (fst x).
Proof. exact streamed_cnt_erase. Qed.

(* a non-trivial input (duplicates on both sides, several chunks, the C03 witness plus an unmatched left
   tail): the hypotheses hold; here |L|+|R|+|join| = 8+4+10 = 22, the driver makes 5+1 iterations, the
   kernels execute 10+3 loop bodies and 3 scan bodies; with too little fuel the copy runs out of fuel *)
Example linear_nonvacuous :
  kind_pre KGen [1;1;2;3;3;5;6;8] [1;3;3;4] /\
  streamed_cnt (mkvar KGen true) [1;1;2;3;3;5;6;8] [1;3;3;4] (-1) 3 =
    Ok (([0;1;2;3;3;4;4;5;6;7], [0;0;-1;1;2;1;2;-1;-1;-1]), mkcounts 5 10 3 1 3) /\
  streamed_with 23 9 (mkvar KGen true) [1;1;2;3;3;5;6;8] [1;3;3;4] (-1) 3 =
    Ok ([0;1;2;3;3;4;4;5;6;7], [0;0;-1;1;2;1;2;-1;-1;-1]) /\
  streamed_with 5 9 (mkvar KGen true) [1;1;2;3;3;5;6;8] [1;3;3;4] (-1) 3 = OutOfFuel.
Proof.
  split; [|vm_compute; auto].
  split; apply sortedb_sorted; reflexivity.
Qed.
