(* Proofs/MergeCopy.v — C02, extension E4 (part 2): the copied side.
   When the b side of the selected generator is declared unique (v_writes_l = false) _ordered_merge does not
   create the a-side map; it copies the a-side columns with chunked_copy (identity, MergeBase.chunked_copy_id).
   Here: if the hint is truthful (b strictly sorted) every a row has exactly one row in the left join, so the
   a side of join_pairs is [Some 0; ...; Some (n-1)], and gathering a well-formed column through that list
   returns the column itself.  Hence ordered_dest = map fields ++ merge_spec for EVERY variant. *)
From Coq Require Import ZArith List Lia Bool.
From EV Require Import Res Arr Join JoinSpec JoinBase JoinIface JoinRows MapStream MapStreamSpec MapIndexedDriver
  Merge MergeSpec MergeBase MergeOrdered MergeMaps MergeTop MergeRows.
Import ListNotations.
Open Scope Z_scope.

(* ---------------------------------------------------------------- gathering through 0..n-1 is the identity *)
Lemma map_nthd_seqZ {A} (e:A) (d:list A) : map (fun k => nthd e d k) (seqZ 0 (len d)) = d.
Proof.
  apply (nth_ext _ _ e e).
  - rewrite map_length. unfold seqZ, len. rewrite map_length, seq_length. lia.
  - intros k Hk. rewrite map_length in Hk. unfold seqZ in *. rewrite map_length, seq_length in Hk.
    rewrite map_map. rewrite (nth_indep _ e ((fun x => nthd e d (Z.of_nat x)) 0%nat)) by (rewrite map_length, seq_length; exact Hk).
    rewrite (map_nth (fun x => nthd e d (Z.of_nat x))). rewrite seq_nth by exact Hk.
    unfold nthd. cbn [Nat.add Z.to_nat]. rewrite Nat2Z.id. reflexivity.
Qed.

Lemma decode_seqZ idx vals : decode idx vals = map (entry idx vals) (seqZ 0 (len idx - 1)).
Proof.
  unfold decode, seqZ. rewrite map_map. cbn [Z.to_nat]. replace (Z.to_nat (len idx - 1)) with (length idx - 1)%nat by (unfold len; lia).
  reflexivity.
Qed.

Lemma slice_0 {A} (l:list A) b : slice l 0 b = firstn (Z.to_nat b) l.
Proof. unfold slice. cbn [Z.to_nat skipn]. rewrite Z.sub_0_r. reflexivity. Qed.

Lemma sorted_nth_le idx i j : sorted idx -> 0 <= i -> i <= j -> j < len idx -> nthZ idx i <= nthZ idx j.
Proof. intros H. apply H. Qed.

(* the first m entries of a well-formed indexed column: their bytes are vals[0 : idx m], their offsets idx[0 : m+1] *)
Lemma encode_prefix idx vals : wf_indexed idx vals -> forall m:nat, Z.of_nat m <= len idx - 1 ->
  let strs := map (entry idx vals) (seqZ 0 (Z.of_nat m)) in
  concat strs = slice vals 0 (nthZ idx (Z.of_nat m)) /\
  psums (map (@len Z) strs) = firstn (S m) idx /\
  sumZ (map (@len Z) strs) = nthZ idx (Z.of_nat m).
Proof.
  intros (H1 & H0 & Hs & Hlast). induction m as [|m IH]; intros Hm strs.
  - subst strs. cbn [Z.of_nat]. rewrite seqZ_nil by lia. cbn [map concat psums psums_from sumZ]. rewrite H0.
    split; [reflexivity|]. split; [|reflexivity].
    destruct idx as [|x t]; [rewrite len_nil in H1; lia|]. rewrite nthZ_cons_0 in H0. subst x. reflexivity.
  - specialize (IH ltac:(lia)). cbv zeta in IH. destruct IH as (IHc & IHp & IHs).
    subst strs. replace (Z.of_nat (S m)) with (Z.of_nat m + 1) by lia.
    rewrite seqZ_snoc by lia. rewrite Z.add_0_l. rewrite !map_app. cbn [map].
    set (M := Z.of_nat m) in *.
    assert (Hle : 0 <= nthZ idx M <= nthZ idx (M + 1)).
    { split; [rewrite <- H0; apply Hs; lia|apply Hs; lia]. }
    assert (Hup : nthZ idx (M + 1) <= len vals).
    { rewrite <- Hlast. apply Hs; lia. }
    assert (Hlen : len (entry idx vals M) = nthZ idx (M + 1) - nthZ idx M).
    { unfold entry. apply len_slice; lia. }
    split; [|split].
    + rewrite concat_app. cbn [concat]. rewrite app_nil_r. rewrite IHc. unfold entry.
      rewrite !slice_0. apply firstn_slice_app. lia.
    + unfold psums in *. rewrite psums_from_snoc. rewrite IHp, IHs, Hlen.
      replace (0 + nthZ idx M + (nthZ idx (M + 1) - nthZ idx M)) with (nthZ idx (M + 1)) by lia.
      replace (S (S m)) with (Z.to_nat ((M + 1) + 1)) by lia.
      rewrite (firstn_snoc 0 idx (M + 1)) by lia.
      replace (Z.to_nat (M + 1)) with (S m) by lia. reflexivity.
    + rewrite sumZ_app. cbn [sumZ]. rewrite IHs, Hlen. lia.
Qed.

(* a well-formed indexed column is the encoding of its own entries *)
Lemma encode_decode idx vals : wf_indexed idx vals ->
  offsets_of (decode idx vals) = idx /\ concat (decode idx vals) = vals.
Proof.
  intros Hwf. pose proof Hwf as (H1 & H0 & Hs & Hlast).
  pose proof (encode_prefix idx vals Hwf (Z.to_nat (len idx - 1)) ltac:(lia)) as H. cbv zeta in H.
  rewrite Z2Nat.id in H by lia. rewrite <- decode_seqZ in H. destruct H as (Hc & Hp & _).
  split.
  - unfold offsets_of. rewrite Hp. replace (S (Z.to_nat (len idx - 1))) with (length idx) by (unfold len in *; lia).
    apply firstn_all.
  - rewrite Hc, Hlast. apply slice_full.
Qed.

(* the columns of a side: n rows each, indexed columns well formed *)
Definition frame_wf (n:Z) (cols:frame) : Prop :=
  forall f, In f cols ->
    match snd f with
    | CFix _ _ d => len d = n
    | CIdx idx vals => wf_indexed idx vals /\ len idx - 1 = n
    end.

Lemma frame_ok_wf n cols bytes : frame_ok n cols bytes -> frame_wf n cols.
Proof.
  intros H f Hf. specialize (H f Hf). destruct (snd f); [exact H|]. destruct H as (H1 & H2 & _). split; assumption.
Qed.

Lemma frame_wf_idx_len_ok n cols : frame_wf n cols -> idx_len_ok n cols.
Proof.
  intros H f Hf. specialize (H f Hf). destruct (snd f); [exact I|]. destruct H as (_ & H). exact H.
Qed.

Definition all_rows (n:Z) : list (option Z) := map Some (seqZ 0 n).

Lemma gather_all_rows c n :
  match c with
  | CFix _ _ d => len d = n
  | CIdx idx vals => wf_indexed idx vals /\ len idx - 1 = n
  end -> gather_col c (all_rows n) = c.
Proof.
  unfold all_rows. destruct c as [z e d|idx vals]; cbn [gather_col]; rewrite map_map.
  - intros <-. f_equal. apply map_nthd_seqZ.
  - intros (Hwf & <-). rewrite <- decode_seqZ. destruct (encode_decode idx vals Hwf) as (-> & ->). reflexivity.
Qed.

Lemma side_out_copy cols other suf inv n : frame_wf n cols ->
  side_out cols other suf None inv = map (fun f => (spec_name (fst f) other suf, gather_col (snd f) (all_rows n))) cols.
Proof.
  intros H. unfold side_out. apply map_ext_in. intros f Hf. cbn [out_col]. rewrite gather_all_rows; [reflexivity|].
  exact (H f Hf).
Qed.

(* ---------------------------------------------------------------- a unique b side: one output row per a row *)
Lemma jf_fst_all inv R : ssorted R -> forall L i0, 0 <= i0 ->
  map fst (jf true inv L R i0) = seqZ i0 (len L).
Proof.
  intros HR. induction L as [|key t IH]; intros i0 Hi0; cbn [jf].
  - rewrite len_nil. rewrite seqZ_nil by lia. reflexivity.
  - rewrite map_app, IH by lia. rewrite len_cons. pose proof (len_nonneg t).
    rewrite (seqZ_cons i0 (len t + 1)) by lia. replace (len t + 1 - 1) with (len t) by lia.
    change (i0 :: seqZ (i0 + 1) (len t)) with ([i0] ++ seqZ (i0 + 1) (len t)). f_equal.
    unfold row. pose proof (matches_unique key R HR) as Hu.
    destruct (matches key R) as [|a [|b ms]]; cbn [map fst length] in *; try reflexivity. lia.
Qed.

Lemma conv_fst inv (sp:list (Z * Z)) : map fst (map (conv inv) sp) = map Some (map fst sp).
Proof. rewrite !map_map. reflexivity. Qed.

(* the a side of the left join on key rows, b strictly sorted *)
Lemma left_pairs_fst_all inv L R : len R <= inv -> ssorted R ->
  map fst (left_pairs (map single L) (map single R) 0) = all_rows (len L).
Proof.
  intros Hl HR. rewrite (left_pairs_jf inv R Hl). rewrite conv_fst. rewrite (jf_fst_all inv R HR) by lia. reflexivity.
Qed.

Lemma merge_invalid_ge lu ru n m : n <= INVALID_INDEX_64 -> n <= merge_invalid lu ru n m.
Proof.
  intros H. unfold merge_invalid, INT64_INDEX_LENGTH, INVALID_INDEX_32, INVALID_INDEX_64 in *.
  destruct (lu || ru); [|exact H].
  destruct (n <? 2147483647) eqn:E1; cbn [andb]; [|exact H].
  destruct (m <? 2147483647); [lia|exact H].
Qed.

Lemma merge_invalid_ge_r lu ru n m : m <= INVALID_INDEX_64 -> m <= merge_invalid lu ru n m.
Proof.
  intros H. unfold merge_invalid, INT64_INDEX_LENGTH, INVALID_INDEX_32, INVALID_INDEX_64 in *.
  destruct (lu || ru); [|exact H].
  destruct (n <? 2147483647) eqn:E1; cbn [andb]; [|exact H].
  destruct (m <? 2147483647) eqn:E2; [lia|exact H].
Qed.

(* ---------------------------------------------------------------- every variant: ordered_dest = maps ++ merge_spec *)
Theorem ordered_dest_is_merge_spec_all how lu ru lk rk lcols rcols lsuf rsuf :
  let inv := merge_invalid lu ru (len lk) (len rk) in
  how = 0 \/ how = 1 \/ how = 2 ->
  sorted lk -> sorted rk -> nbd (sel_a how lk rk) (sel_b how lk rk) ->
  (* the unique hint on the b side, where it is given (the a-side map is then not written), is truthful *)
  (v_writes_l (sel_variant how lu ru) = false -> ssorted (sel_b how lk rk)) ->
  len lk <= inv -> len rk <= inv ->
  frame_wf (len lk) lcols -> frame_wf (len rk) rcols ->
  ordered_dest how lu ru lk rk lcols rcols lsuf rsuf
  = map_fields (fst (jmaps how lu ru lk rk inv)) (snd (jmaps how lu ru lk rk inv)) ++
    merge_spec how [lk] [rk] lcols rcols lsuf rsuf.
Proof.
  intros inv Hhow HL HR Hd Hu HiL HiR HwL HwR.
  destruct (v_writes_l (sel_variant how lu ru)) eqn:Hw.
  { apply ordered_dest_is_merge_spec; try assumption; apply frame_wf_idx_len_ok; assumption. }
  specialize (Hu eq_refl).
  unfold ordered_dest. fold inv. unfold jmaps. rewrite Hw.
  unfold merge_spec. rewrite !key_rows_single.
  set (v := sel_variant how lu ru) in *.
  destruct Hhow as [E|[E|E]]; subst how; cbn [Z.eqb Pos.eqb sel_a sel_b fst snd] in *; f_equal.
  - (* left, right side unique: the left columns are copied *)
    assert (Hv : v_left v = true) by reflexivity. rewrite Hv.
    unfold join_pairs. cbn [Z.eqb]. f_equal.
    + rewrite (left_pairs_fst_all inv lk rk HiR Hu). apply side_out_copy. exact HwL.
    + rewrite (left_pairs_jf inv rk HiR). rewrite <- jf_spec.
      apply (side_out_spec _ _ _ _ _ (len rk)); [rewrite jf_spec; apply join_snd_valid; assumption| |apply frame_wf_idx_len_ok; exact HwR].
      apply map_opt_snd.
  - (* right, left side unique: the right columns are copied *)
    assert (Hv : v_left v = true) by reflexivity. rewrite Hv.
    unfold join_pairs. cbn [Z.eqb Pos.eqb]. rewrite swap_fst, swap_snd. f_equal.
    + rewrite (left_pairs_jf inv lk HiL). rewrite <- jf_spec.
      apply (side_out_spec _ _ _ _ _ (len lk)); [rewrite jf_spec; apply join_snd_valid; assumption| |apply frame_wf_idx_len_ok; exact HwL].
      apply map_opt_snd.
    + rewrite (left_pairs_fst_all inv rk lk HiL Hu). apply side_out_copy. exact HwR.
  - (* inner always writes both maps *)
    discriminate Hw.
Qed.
