(* Proofs/CsvTable.v — the columnar layout invariant of the staging buffers (pure list reasoning) *)
From Coq Require Import ZArith List Lia Bool.
From EV Require Import Res Arr Csv CsvSpec CsvBase.
Import ListNotations.
Open Scope Z_scope.

(* total length of the first k texts *)
Definition pre (l:list (list Z)) (k:nat) : Z := sumZ (map (fun t => len t) (firstn k l)).

Lemma pre_0 l : pre l 0 = 0.
Proof. reflexivity. Qed.

Lemma pre_cons t l k : pre (t :: l) (S k) = len t + pre l k.
Proof. reflexivity. Qed.

Lemma pre_S l k : (k < length l)%nat -> pre l (S k) = pre l k + len (nth k l []).
Proof.
  revert k. induction l as [|t l IH]; intros k H; cbn in H; [lia|].
  destruct k as [|k].
  - rewrite pre_cons, !pre_0. cbn [nth]. lia.
  - rewrite !pre_cons. rewrite (IH k) by lia. cbn [nth]. lia.
Qed.

Lemma pre_nonneg l k : 0 <= pre l k.
Proof.
  revert k. induction l as [|t l IH]; intros [|k]; try (unfold pre; cbn; lia).
  rewrite pre_cons. specialize (IH k). pose proof (len_nonneg t). lia.
Qed.

Lemma len_concat (l:list (list Z)) : len (concat l) = sumZ (map (fun t => len t) l).
Proof. induction l as [|t l IH]; cbn [concat map sumZ]; [reflexivity|]. rewrite len_app, IH. reflexivity. Qed.

Lemma pre_all l : pre l (length l) = len (concat l).
Proof. unfold pre. rewrite firstn_all. symmetry. apply len_concat. Qed.

Lemma pre_mono l k : (k <= length l)%nat -> pre l k <= len (concat l).
Proof.
  revert k. induction l as [|t l IH]; intros k H.
  - destruct k; unfold pre; cbn; lia.
  - destruct k as [|k]; cbn [concat]; rewrite len_app.
    + rewrite pre_0. pose proof (len_nonneg t). pose proof (len_nonneg (concat l)). lia.
    + rewrite pre_cons. cbn in H. specialize (IH k ltac:(lia)). lia.
Qed.

Lemma concat_at l k j : (k < length l)%nat -> 0 <= j < len (nth k l []) ->
  nthZ (concat l) (pre l k + j) = nthZ (nth k l []) j.
Proof.
  revert k. induction l as [|t l IH]; intros k H Hj; cbn in H; [lia|].
  destruct k as [|k]; cbn [concat nth] in *.
  - rewrite pre_0, Z.add_0_l. unfold nthZ. apply nthd_app_l. exact Hj.
  - rewrite pre_cons. unfold nthZ. pose proof (pre_nonneg l k) as Hp. rewrite nthd_app_r by lia.
    replace (len t + pre l k + j - len t) with (pre l k + j) by lia.
    apply IH; [lia|exact Hj].
Qed.

(* psums of the lengths, pointwise *)
Lemma psums_from_nth acc (l:list Z) k : (k <= length l)%nat ->
  nth k (psums_from acc l) 0 = acc + sumZ (firstn k l).
Proof.
  revert acc k. induction l as [|x l IH]; intros acc k H; cbn in H.
  - destruct k; [cbn; lia|lia].
  - destruct k as [|k]; cbn [psums_from nth firstn sumZ]; [lia|]. rewrite IH by lia. lia.
Qed.

Lemma enc_indices_nth (l:list (list Z)) k : (k <= length l)%nat -> nth k (enc_indices l) 0 = pre l k.
Proof.
  intros H. unfold enc_indices, psums, pre. rewrite psums_from_nth by (rewrite map_length; exact H).
  rewrite firstn_map. lia.
Qed.

Lemma enc_indices_length (l:list (list Z)) : length (enc_indices l) = S (length l).
Proof. unfold enc_indices, psums. rewrite psums_from_length, map_length. reflexivity. Qed.

Section Table.
Variables (ncols w V : Z) (offs : list Z) (rows : list (list cell)).
Let nrows := len rows.

Definition colt (c:Z) : list (list Z) := column (Z.to_nat c) rows.
Definition P (c k:Z) : Z := pre (colt c) (Z.to_nat k).
Definition CB (c:Z) : list Z := concat (colt c).
Definition cell_text (r c:Z) : list Z := nth (Z.to_nat r) (colt c) [].

Lemma colt_length c : length (colt c) = length rows.
Proof. unfold colt, column. apply map_length. Qed.

Lemma P_0 c : P c 0 = 0.
Proof. reflexivity. Qed.

Lemma P_succ c r : 0 <= r < nrows -> P c (r + 1) = P c r + len (cell_text r c).
Proof.
  intros H. unfold P, cell_text, nrows, len in *. replace (Z.to_nat (r + 1)) with (S (Z.to_nat r)) by lia.
  apply pre_S. rewrite colt_length. lia.
Qed.

Lemma P_nonneg c k : 0 <= P c k.
Proof. apply pre_nonneg. Qed.

Lemma P_le c k : 0 <= k <= nrows -> P c k <= len (CB c).
Proof. intros H. unfold P, CB, nrows, len in *. apply pre_mono. rewrite colt_length. lia. Qed.

Lemma CB_at c r j : 0 <= r < nrows -> 0 <= j < len (cell_text r c) ->
  nthZ (CB c) (P c r + j) = nthZ (cell_text r c) j.
Proof.
  intros Hr Hj. unfold CB, P, cell_text, nrows, len in *. apply concat_at; [rewrite colt_length; lia|exact Hj].
Qed.

Hypothesis Hncols : 0 < ncols.
Hypothesis Hoffs : len offs = ncols + 1.
Hypothesis Hoffs0 : nthZ offs 0 = 0.
Hypothesis Hbudget : forall c, 0 <= c < ncols -> nthZ offs c + len (CB c) < nthZ offs (c + 1).
Hypothesis HV : nthZ offs ncols <= V.

Lemma offs_step c : 0 <= c < ncols -> nthZ offs c <= nthZ offs (c + 1).
Proof. intros H. specialize (Hbudget c H). pose proof (len_nonneg (CB c)). lia. Qed.

Lemma offs_mono_nat n : forall c, 0 <= c -> c + Z.of_nat n <= ncols -> nthZ offs c <= nthZ offs (c + Z.of_nat n).
Proof.
  induction n as [|n IH]; intros c Hc H.
  - rewrite Z.add_0_r. lia.
  - specialize (IH c Hc ltac:(lia)). pose proof (offs_step (c + Z.of_nat n) ltac:(lia)) as Hs.
    replace (c + Z.of_nat (S n)) with (c + Z.of_nat n + 1) by lia. lia.
Qed.

Lemma offs_mono c c' : 0 <= c -> c <= c' -> c' <= ncols -> nthZ offs c <= nthZ offs c'.
Proof.
  intros H1 H2 H3. replace c' with (c + Z.of_nat (Z.to_nat (c' - c))) by lia. apply offs_mono_nat; lia.
Qed.

Lemma offs_nonneg c : 0 <= c <= ncols -> 0 <= nthZ offs c.
Proof. intros H. rewrite <- Hoffs0. apply offs_mono; lia. Qed.

(* f c = number of records whose cell of column c has been stored *)
Definition Good (f:Z -> Z) (inds:arr2) (vals:list Z) : Prop :=
  shape ncols w inds /\ len vals = V /\
  forall c, 0 <= c < ncols ->
    0 <= f c <= nrows /\
    (forall k, 0 <= k <= f c -> I2 inds c k = P c k) /\
    (forall j, 0 <= j < P c (f c) -> nthZ vals (nthZ offs c + j) = nthZ (CB c) j).

Lemma Good_ext f g inds vals : (forall c, 0 <= c < ncols -> f c = g c) -> Good f inds vals -> Good g inds vals.
Proof.
  intros E (Hs & Hv & H). split; [exact Hs|]. split; [exact Hv|]. intros c Hc. rewrite <- (E c Hc). apply (H c Hc).
Qed.

Lemma Good_fits f inds vals c r : Good f inds vals -> 0 <= c < ncols -> 0 <= r < nrows ->
  0 <= nthZ offs c + P c r /\ nthZ offs c + P c r + len (cell_text r c) <= len vals /\
  P c r + len (cell_text r c) < nthZ offs (c + 1) - nthZ offs c.
Proof.
  intros (Hs & Hv & H) Hc Hr. pose proof (P_succ c r Hr) as Hp. pose proof (P_le c (r + 1) ltac:(lia)) as Hle.
  pose proof (Hbudget c Hc) as Hb. pose proof (offs_nonneg c ltac:(lia)) as Hn. pose proof (P_nonneg c r) as Hpn.
  pose proof (offs_mono (c + 1) ncols ltac:(lia) ltac:(lia) ltac:(lia)) as Hm.
  repeat split; lia.
Qed.

Lemma Good_cell f inds vals c r : Good f inds vals -> 0 <= c < ncols -> f c = r -> 0 <= r < nrows -> r + 1 < w ->
  Good (fun x => if x =? c then r + 1 else f x)
       (put2 inds c (r + 1) (P c r + len (cell_text r c)))
       (wrs vals (nthZ offs c + P c r) (cell_text r c)).
Proof.
  intros HG Hc Hf Hr Hw. pose proof (Good_fits f inds vals c r HG Hc Hr) as (F1 & F2 & F3).
  destruct HG as (Hs & Hv & H). pose proof (offs_nonneg c ltac:(lia)) as Hon. pose proof (P_nonneg c r) as Hpn.
  split; [apply shape_put2; assumption|]. split; [rewrite len_wrs; exact Hv|].
  intros c' Hc'. destruct (H c' Hc') as (Hf' & Hi' & Hb').
  destruct (c' =? c) eqn:E.
  - apply Z.eqb_eq in E. subst c'. split; [lia|]. split.
    + intros k Hk. destruct (Z.eq_dec k (r + 1)) as [->|Hne].
      * rewrite (I2_put2_same ncols w) by (try assumption; lia). symmetry. apply P_succ. exact Hr.
      * rewrite (I2_put2_other ncols w) by (try assumption; lia). apply Hi'. lia.
    + intros j Hj. rewrite P_succ in Hj by exact Hr.
      destruct (Z_lt_ge_dec j (P c r)) as [Hlt|Hge].
      * rewrite nth_wrs_out by lia. apply Hb'. rewrite Hf. lia.
      * replace (nthZ offs c + j) with (nthZ offs c + P c r + (j - P c r)) by lia.
        rewrite nth_wrs_in by lia. replace j with (P c r + (j - P c r)) at 2 by lia.
        symmetry. apply CB_at; [exact Hr|lia].
  - apply Z.eqb_neq in E. split; [exact Hf'|]. split.
    + intros k Hk. rewrite (I2_put2_other ncols w) by (try assumption; lia). apply Hi'. exact Hk.
    + intros j Hj. rewrite nth_wrs_out; [apply Hb'; exact Hj| | |].
      * lia.
      * pose proof (offs_nonneg c' ltac:(lia)). lia.
      * pose proof (P_le c' (f c') Hf') as Hle. pose proof (Hbudget c' Hc') as Hbu.
        destruct (Z_lt_ge_dec c' c) as [Hlt|Hge].
        -- left. pose proof (offs_mono (c' + 1) c ltac:(lia) ltac:(lia) ltac:(lia)). lia.
        -- right. pose proof (offs_mono (c + 1) c' ltac:(lia) ltac:(lia) ltac:(lia)). lia.
Qed.

Lemma Good_init inds vals : shape ncols w inds -> len vals = V -> 0 < w ->
  (forall c, 0 <= c < ncols -> I2 inds c 0 = 0) -> Good (fun _ => 0) inds vals.
Proof.
  intros Hs Hv Hw H0. split; [exact Hs|]. split; [exact Hv|]. intros c Hc.
  split; [split; [lia|unfold nrows; apply len_nonneg]|]. split.
  - intros k Hk. assert (k = 0) by lia. subst. rewrite P_0. apply H0. assumption.
  - intros j Hj. rewrite P_0 in Hj. lia.
Qed.

End Table.
