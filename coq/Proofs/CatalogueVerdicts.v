(* Proofs/CatalogueVerdicts.v — the rename verdict of the harness (chk_rename on observations) holds for every
   df.rename step of the repaired model. *)
From Coq Require Import ZArith List Bool Lia.
From EV Require Import Res Catalogue CatalogueSpec CatalogueBase CatalogueInv CatalogueRename CatalogueStep CatalogueObs CatalogueHandles.
Import ListNotations.
Open Scope Z_scope.

(* ------------------------------------------------------------------ reflexivity of the equality tests *)
Lemma names_eqb_refl l : names_eqb l l = true.
Proof. induction l as [|h t IH]; cbn [names_eqb]; [reflexivity|]. rewrite name_eqb_refl, IH. reflexivity. Qed.

Lemma all2_refl {A} (f:A -> A -> bool) l : (forall x, f x x = true) -> all2 f l l = true.
Proof. intros H. induction l as [|h t IH]; cbn [all2]; [reflexivity|]. rewrite H, IH. reflexivity. Qed.

Lemma hstat_eqb_refl h : hstat_eqb h h = true.
Proof.
  destruct h as [| |i d n t dat]; cbn [hstat_eqb]; try reflexivity.
  unfold list_eqb. rewrite !Z.eqb_refl, !name_eqb_refl. reflexivity.
Qed.

Lemma dfobs_eqb_refl x : dfobs_eqb x x = true.
Proof. unfold dfobs_eqb. rewrite !name_eqb_refl, !names_eqb_refl. reflexivity. Qed.

Lemma fentry_eqb_refl x : fentry_eqb x x = true.
Proof. unfold fentry_eqb. rewrite name_eqb_refl, names_eqb_refl. reflexivity. Qed.

Lemma dsobs_eqb_refl x : dsobs_eqb x x = true.
Proof. unfold dsobs_eqb. rewrite !all2_refl; auto using dfobs_eqb_refl, fentry_eqb_refl. Qed.

Lemma obs_eqb_refl o : obs_eqb o o = true.
Proof. unfold obs_eqb. rewrite !all2_refl; auto using dsobs_eqb_refl, hstat_eqb_refl. Qed.

Lemma all2_map2 {A B C} (p:B -> C -> bool) (F:A -> B) (G:A -> C) (l:list A) :
  (forall x, In x l -> p (F x) (G x) = true) -> all2 p (map F l) (map G l) = true.
Proof.
  induction l as [|h t IH]; intros H; cbn [map all2]; [reflexivity|].
  rewrite (H h (or_introl eq_refl)), IH; [reflexivity|]. intros x Ix. apply H. right. exact Ix.
Qed.

(* the registry is closed: every catalogued field object is held *)
Definition closed (s:state) (held:list Z) : Prop := forall f, In f (catalogued_fields s) -> In f held.

Lemma rescan_closed s held : closed s (rescan s held).
Proof. intros f I. unfold rescan. apply register_all. exact I. Qed.

Lemma rescan_noop s held : closed s held -> rescan s held = held.
Proof. intros H. unfold rescan. apply register_noop. exact H. Qed.

(* ------------------------------------------------------------------ df.rename *)
Theorem rename_verdict c i d m s s' r held :
  fix_a c = true -> Inv s -> closed s held -> step c (ORename i d m) s = (s', r) ->
  chk_rename (ORename i d m) (is_ok r) (observe s held) (observe s' (rescan s' held)) = true.
Proof.
  intros FA I CL E. destruct (rename_step_spec c i d m s s' r FA I E) as (I' & HF & HS).
  unfold chk_rename. cbn [as_rename].
  destruct (is_ok r) eqn:OK.
  2:{ rewrite (HF eq_refl). rewrite (rescan_noop s held CL). cbn [negb orb]. apply obs_eqb_refl. }
  destruct (HS eq_refl) as (g & Hd & C1 & C2 & C3 & C4 & C5 & C6 & C7 & C8 & C9).
  pose proof (proj1 I) as IA. pose proof (proj1 I') as IA'.
  assert (r = Ok tt) by (destruct r as [[]| | |]; try discriminate; reflexivity). subst r.
  assert (FOL : forall k f, d_find (py_cols s g) k = Some f -> d_find (py_cols s' g) (subst m k) = Some f).
  { intros k f Hf. apply (handles_follow_rename c i d m s s' g k f FA I E Hd Hf). }
  assert (BACK : forall n f, d_find (py_cols s' g) n = Some f -> exists k, d_find (py_cols s g) k = Some f).
  { intros n f H. rewrite C1 in H.
    destruct (renamed_find m _ n f (dk_nd_py _ _ (ib_df _ (proj2 I) g (catalogued_linked _ _ _ _ IA Hd))) H) as (k & _ & F). eauto. }
  assert (CAT : forall f, In f (catalogued_fields s') -> In f (catalogued_fields s)).
  { intros f H. apply in_catalogued in H. destruct H as (i0 & d0 & g0 & n0 & Ii & Idg & Inf). apply in_catalogued.
    rewrite C4 in Idg. destruct (Z.eq_dec g0 g) as [->|NE].
    - pose proof (In_d_find _ _ _ (dk_nd_py _ _ (ib_df _ (proj2 I') g (catalogued_linked _ _ _ _ IA' ltac:(rewrite C4; exact Hd)))) Inf) as F.
      destruct (BACK n0 f F) as (k & Fk). exists i0, d0, g, k. repeat split; auto. apply d_find_In. exact Fk.
    - destruct (C3 g0 NE) as [Ec _]. rewrite Ec in Inf. exists i0, d0, g0, n0. auto. }
  assert (CL' : closed s' held) by (intros f H; apply CL; apply CAT; exact H).
  rewrite (rescan_noop s' held CL').
  unfold rename_effect, observe. cbn [o_ds o_handles]. apply andb_true_iff. split.
  - (* datasets *)
    assert (DS : forall idx, rename_ds_ok i d m idx (observe_ds s idx) (observe_ds s' idx) = true).
    { intros idx. unfold rename_ds_ok, observe_ds. cbn [o_dfs]. rewrite C4. apply all2_map2. intros [k g0] Ikg.
      pose proof (In_d_find _ _ _ (sk_nd_py _ _ (IA idx)) Ikg) as Fk.
      unfold rename_df_ok, observe_df. cbn [o_key o_nameattr o_cols fst snd].
      rewrite name_eqb_refl, C6, name_eqb_refl. cbn [andb].
      destruct ((idx =? i) && name_eqb k d) eqn:HIT.
      - apply andb_true_iff in HIT. destruct HIT as [H1 H2]. apply Z.eqb_eq in H1. apply name_eqb_spec in H2. subst idx k.
        assert (g0 = g) by congruence. subst g0. rewrite C1, renamed_keys. apply names_eqb_refl.
      - assert (NE : g0 <> g).
        { intros ->. destruct (frame_place_unique s idx k i d g IA Fk Hd) as [-> ->].
          rewrite Z.eqb_refl, name_eqb_refl in HIT. discriminate. }
        destruct (C3 g0 NE) as [-> _]. apply names_eqb_refl. }
    unfold ds_indices. cbn [map all2i]. rewrite !DS. reflexivity.
  - (* handles *)
    apply all2_map2. intros f If. unfold rename_h_ok.
    destruct (py_valid s f) eqn:V.
    2:{ assert (OH : observe_handle s f = HInvalid) by (unfold observe_handle; rewrite V; reflexivity).
        rewrite OH. unfold observe_handle. rewrite C7, V. reflexivity. }
    destruct (h5_fld_path s f) as [[[i0 d0] n0]|] eqn:P.
    + assert (OH : observe_handle s f = HLive i0 d0 n0 (fld_type s f) (fld_data s f))
        by (unfold observe_handle; rewrite V, P; reflexivity).
      rewrite OH. destruct (path_place s f i0 d0 n0 I P) as (Ii & g0 & Hd0 & Hf0).
      assert (Hd0' : d_find (py_dfs s' i0) d0 = Some g0) by (rewrite C4; exact Hd0).
      destruct (Z.eq_dec g0 g) as [->|NE].
      * destruct (frame_place_unique s i0 d0 i d g IA Hd0 Hd) as [-> ->].
        rewrite Z.eqb_refl, name_eqb_refl. cbn [andb].
        rewrite (observe_catalogued s' f i d g (subst m n0) I' Ii Hd0' (FOL n0 f Hf0)), C8, C9. apply hstat_eqb_refl.
      * assert (HIT : (i0 =? i) && name_eqb d0 d = false).
        { destruct ((i0 =? i) && name_eqb d0 d) eqn:X; [|reflexivity]. apply andb_true_iff in X. destruct X as [X1 X2].
          apply Z.eqb_eq in X1. apply name_eqb_spec in X2. subst. congruence. }
        rewrite HIT. destruct (C3 g0 NE) as [Ec _].
        rewrite (observe_catalogued s' f i0 d0 g0 n0 I' Ii Hd0' ltac:(rewrite Ec; exact Hf0)), C8, C9. apply hstat_eqb_refl.
    + assert (OH : observe_handle s f = HDead) by (unfold observe_handle; rewrite V, P; reflexivity).
      rewrite OH. unfold observe_handle. rewrite C7, V.
      destruct (h5_fld_path s' f) as [[[i1 d1] n1]|] eqn:P'; [|reflexivity]. exfalso.
      destruct (path_place s' f i1 d1 n1 I' P') as (Ii & g1 & Hd1 & Hf1). rewrite C4 in Hd1.
      destruct (Z.eq_dec g1 g) as [->|NE].
      * destruct (BACK n1 f Hf1) as (k & Fk). rewrite (path_of_catalogued s f i1 d1 g k I Ii Hd1 Fk) in P. discriminate.
      * destruct (C3 g1 NE) as [Ec _]. rewrite Ec in Hf1. rewrite (path_of_catalogued s f i1 d1 g1 n1 I Ii Hd1 Hf1) in P. discriminate.
Qed.
