(* Proofs/CatalogueVerdicts.v — the rename verdict of the harness (chk_rename on observations) holds for every
   df.rename step of the repaired model. *)
From Coq Require Import ZArith List Bool Lia.
From EV Require Import Res Catalogue CatalogueSpec CatalogueBase CatalogueInv CatalogueRename CatalogueStep CatalogueObs CatalogueHandles.
Import ListNotations.
Open Scope Z_scope.

(* ------------------------------------------------------------------ reflexivity of the equality tests *)
Lemma names_eqb_refl l : names_eqb l l = true.
Proof. induction l as [|h t IH]; cbn [names_eqb]; [reflexivity|]. rewrite name_eqb_refl, IH. reflexivity. Qed.

Lemma all2_refl {A} (f:A -> A -> bool) l : (forall x, f x x = true) -> all2 f l l = true.
Proof. intros H. induction l as [|h t IH]; cbn [all2]; [reflexivity|]. rewrite H, IH. reflexivity. Qed.

Lemma hstat_eqb_refl h : hstat_eqb h h = true.
Proof.
  destruct h as [| |i d n t dat]; cbn [hstat_eqb]; try reflexivity.
  unfold list_eqb. rewrite !Z.eqb_refl, !name_eqb_refl. reflexivity.
Qed.

Lemma dfobs_eqb_refl x : dfobs_eqb x x = true.
Proof. unfold dfobs_eqb. rewrite !name_eqb_refl, !names_eqb_refl. reflexivity. Qed.

Lemma fentry_eqb_refl x : fentry_eqb x x = true.
Proof. unfold fentry_eqb. rewrite name_eqb_refl, names_eqb_refl. reflexivity. Qed.

Lemma dsobs_eqb_refl x : dsobs_eqb x x = true.
Proof. unfold dsobs_eqb. rewrite !all2_refl; auto using dfobs_eqb_refl, fentry_eqb_refl. Qed.

Lemma obs_eqb_refl o : obs_eqb o o = true.
Proof. unfold obs_eqb. rewrite !all2_refl; auto using dsobs_eqb_refl, hstat_eqb_refl. Qed.

Lemma all2_map2 {A B C} (p:B -> C -> bool) (F:A -> B) (G:A -> C) (l:list A) :
  (forall x, In x l -> p (F x) (G x) = true) -> all2 p (map F l) (map G l) = true.
Proof.
  induction l as [|h t IH]; intros H; cbn [map all2]; [reflexivity|].
  rewrite (H h (or_introl eq_refl)), IH; [reflexivity|]. intros x Ix. apply H. right. exact Ix.
Qed.

(* the registry is closed: every catalogued field object is held *)
Definition closed (s:state) (held:list Z) : Prop := forall f, In f (catalogued_fields s) -> In f held.

Lemma rescan_closed s held : closed s (rescan s held).
Proof. intros f I. unfold rescan. apply register_all. exact I. Qed.

Lemma rescan_noop s held : closed s held -> rescan s held = held.
Proof. intros H. unfold rescan. apply register_noop. exact H. Qed.

(* ------------------------------------------------------------------ df.rename *)
Theorem rename_verdict c i d m s s' r held :
  fix_a c = true -> Inv s -> closed s held -> step c (ORename i d m) s = (s', r) ->
  chk_rename (ORename i d m) (is_ok r) (observe s held) (observe s' (rescan s' held)) = true.
Proof.
  intros FA I CL E. destruct (rename_step_spec c i d m s s' r FA I E) as (I' & HF & HS).
  unfold chk_rename. cbn [as_rename].
  destruct (is_ok r) eqn:OK.
  2:{ rewrite (HF eq_refl). rewrite (rescan_noop s held CL). cbn [negb orb]. apply obs_eqb_refl. }
  destruct (HS eq_refl) as (g & Hd & C1 & C2 & C3 & C4 & C5 & C6 & C7 & C8 & C9).
  pose proof (proj1 I) as IA. pose proof (proj1 I') as IA'.
  assert (r = Ok tt) by (destruct r as [[]| | |]; try discriminate; reflexivity). subst r.
  assert (FOL : forall k f, d_find (py_cols s g) k = Some f -> d_find (py_cols s' g) (subst m k) = Some f).
  { intros k f Hf. apply (handles_follow_rename c i d m s s' g k f FA I E Hd Hf). }
  assert (BACK : forall n f, d_find (py_cols s' g) n = Some f -> exists k, d_find (py_cols s g) k = Some f).
  { intros n f H. rewrite C1 in H.
    destruct (renamed_find m _ n f (dk_nd_py _ _ (ib_df _ (proj2 I) g (catalogued_linked _ _ _ _ IA Hd))) H) as (k & _ & F). eauto. }
  assert (CAT : forall f, In f (catalogued_fields s') -> In f (catalogued_fields s)).
  { intros f H. apply in_catalogued in H. destruct H as (i0 & d0 & g0 & n0 & Ii & Idg & Inf). apply in_catalogued.
    rewrite C4 in Idg. destruct (Z.eq_dec g0 g) as [->|NE].
    - pose proof (In_d_find _ _ _ (dk_nd_py _ _ (ib_df _ (proj2 I') g (catalogued_linked _ _ _ _ IA' ltac:(rewrite C4; exact Hd)))) Inf) as F.
      destruct (BACK n0 f F) as (k & Fk). exists i0, d0, g, k. repeat split; auto. apply d_find_In. exact Fk.
    - destruct (C3 g0 NE) as [Ec _]. rewrite Ec in Inf. exists i0, d0, g0, n0. auto. }
  assert (CL' : closed s' held) by (intros f H; apply CL; apply CAT; exact H).
  rewrite (rescan_noop s' held CL').
  unfold rename_effect, observe. cbn [o_ds o_handles]. apply andb_true_iff. split.
  - (* datasets *)
    assert (DS : forall idx, rename_ds_ok i d m idx (observe_ds s idx) (observe_ds s' idx) = true).
    { intros idx. unfold rename_ds_ok, observe_ds. cbn [o_dfs]. rewrite C4. apply all2_map2. intros [k g0] Ikg.
      pose proof (In_d_find _ _ _ (sk_nd_py _ _ (IA idx)) Ikg) as Fk.
      unfold rename_df_ok, observe_df. cbn [o_key o_nameattr o_cols fst snd].
      rewrite name_eqb_refl, C6, name_eqb_refl. cbn [andb].
      destruct ((idx =? i) && name_eqb k d) eqn:HIT.
      - apply andb_true_iff in HIT. destruct HIT as [H1 H2]. apply Z.eqb_eq in H1. apply name_eqb_spec in H2. subst idx k.
        assert (g0 = g) by congruence. subst g0. rewrite C1, renamed_keys. apply names_eqb_refl.
      - assert (NE : g0 <> g).
        { intros ->. destruct (frame_place_unique s idx k i d g IA Fk Hd) as [-> ->].
          rewrite Z.eqb_refl, name_eqb_refl in HIT. discriminate. }
        destruct (C3 g0 NE) as [-> _]. apply names_eqb_refl. }
    unfold ds_indices. cbn [map all2i]. rewrite !DS. reflexivity.
  - (* handles *)
    apply all2_map2. intros f If. unfold rename_h_ok.
    destruct (py_valid s f) eqn:V.
    2:{ assert (OH : observe_handle s f = HInvalid) by (unfold observe_handle; rewrite V; reflexivity).
        rewrite OH. unfold observe_handle. rewrite C7, V. reflexivity. }
    destruct (h5_fld_path s f) as [[[i0 d0] n0]|] eqn:P.
    + assert (OH : observe_handle s f = HLive i0 d0 n0 (fld_type s f) (fld_data s f))
        by (unfold observe_handle; rewrite V, P; reflexivity).
      rewrite OH. destruct (path_place s f i0 d0 n0 I P) as (Ii & g0 & Hd0 & Hf0).
      assert (Hd0' : d_find (py_dfs s' i0) d0 = Some g0) by (rewrite C4; exact Hd0).
      destruct (Z.eq_dec g0 g) as [->|NE].
      * destruct (frame_place_unique s i0 d0 i d g IA Hd0 Hd) as [-> ->].
        rewrite Z.eqb_refl, name_eqb_refl. cbn [andb].
        rewrite (observe_catalogued s' f i d g (subst m n0) I' Ii Hd0' (FOL n0 f Hf0)), C8, C9. apply hstat_eqb_refl.
      * assert (HIT : (i0 =? i) && name_eqb d0 d = false).
        { destruct ((i0 =? i) && name_eqb d0 d) eqn:X; [|reflexivity]. apply andb_true_iff in X. destruct X as [X1 X2].
          apply Z.eqb_eq in X1. apply name_eqb_spec in X2. subst. congruence. }
        rewrite HIT. destruct (C3 g0 NE) as [Ec _].
        rewrite (observe_catalogued s' f i0 d0 g0 n0 I' Ii Hd0' ltac:(rewrite Ec; exact Hf0)), C8, C9. apply hstat_eqb_refl.
    + assert (OH : observe_handle s f = HDead) by (unfold observe_handle; rewrite V, P; reflexivity).
      rewrite OH. unfold observe_handle. rewrite C7, V.
      destruct (h5_fld_path s' f) as [[[i1 d1] n1]|] eqn:P'; [|reflexivity]. exfalso.
      destruct (path_place s' f i1 d1 n1 I' P') as (Ii & g1 & Hd1 & Hf1). rewrite C4 in Hd1.
      destruct (Z.eq_dec g1 g) as [->|NE].
      * destruct (BACK n1 f Hf1) as (k & Fk). rewrite (path_of_catalogued s f i1 d1 g k I Ii Hd1 Fk) in P. discriminate.
      * destruct (C3 g1 NE) as [Ec _]. rewrite Ec in Hf1. rewrite (path_of_catalogued s f i1 d1 g1 n1 I Ii Hd1 Hf1) in P. discriminate.
Qed.

(* ------------------------------------------------------------------ dataframe.move *)
From EV Require Import CatalogueData.

Lemma move_step_lookups c i d n j d' n' s s' :
  step c (OFMove i d n j d' n') s = (s', Ok tt) ->
  exists sg f g nf, d_find (py_dfs s i) d = Some sg /\ d_find (py_cols s sg) n = Some f /\
                    d_find (py_dfs s j) d' = Some g /\ edf_move c f g n' s = (s', Ok nf).
Proof.
  intros E. cbn [step] in E.
  unfold bindM at 1 in E. unfold ds_getitem at 1 in E. destruct (d_find (py_dfs s i) d) as [sg|] eqn:Hd; [|discriminate].
  unfold bindM at 1 in E. unfold df_getitem at 1 in E. destruct (d_find (py_cols s sg) n) as [f|] eqn:Hf; [|discriminate].
  unfold bindM at 1 in E. unfold ds_getitem at 1 in E. destruct (d_find (py_dfs s j) d') as [g|] eqn:Hd'; [|discriminate].
  unfold bindM in E. destruct (edf_move c f g n' s) as [s1 [nf|x|e|]] eqn:E1; inversion E; subst.
  exists sg, f, g, nf. auto.
Qed.

Lemma zipall_map_prefix {A B C} (p:B -> C -> bool) (F:A -> B) (G:A -> C) (e:list A) : forall l,
  (forall x, In x l -> p (F x) (G x) = true) -> zipall p (map F l) (map G (l ++ e)) = true.
Proof.
  induction l as [|h t IH]; intros H; cbn [map app zipall]; [reflexivity|].
  rewrite (H h (or_introl eq_refl)), IH; [reflexivity|]. intros x Ix. apply H. right. exact Ix.
Qed.

Theorem move_verdict c i d n j d' n' s s' r held :
  fix_a c = true -> Inv s -> closed s held -> (forall f, In f held -> f < next_id s) ->
  In i ds_indices -> In j ds_indices ->
  step c (OFMove i d n j d' n') s = (s', r) ->
  chk_move (OFMove i d n j d' n') (is_ok r) (observe s held) (observe s' (rescan s' held)) = true.
Proof.
  intros FA I CL HB Ii Ij E. unfold chk_move.
  destruct (is_ok r && negb ((i =? j) && name_eqb d d')) eqn:C; [|reflexivity].
  apply andb_true_iff in C. destruct C as [OK DIFF].
  assert (r = Ok tt) by (destruct r as [[]| | |]; try discriminate; reflexivity). subst r.
  destruct (move_step_lookups _ _ _ _ _ _ _ _ _ E) as (sg & f & g & nf & Hd & Hf & Hd' & E1).
  pose proof (proj1 I) as IA. pose proof (proj2 I) as IB.
  pose proof (catalogued_linked _ _ _ _ IA Hd) as Lsg. pose proof (catalogued_linked _ _ _ _ IA Hd') as Lg.
  assert (NE : sg <> g).
  { intros ->. destruct (frame_place_unique s i d j d' g IA Hd Hd') as [-> ->].
    rewrite Z.eqb_refl, name_eqb_refl in DIFF. discriminate. }
  destruct (edf_move_keeps c f g n' s s' (Ok nf) sg n FA I Lsg Hf Lg E1) as (I' & H).
  destruct (H nf eq_refl NE) as (Vf & Fn & Vnf & Tnf & Dnf & -> & P1 & P2 & P3 & P4 & P5 & P6).
  pose proof (dk_nd_py _ _ (ib_df _ IB sg Lsg)) as NDsg.
  assert (Hn' : d_find (py_cols s g) n' = None).
  { destruct (d_find (py_cols s g) n') as [x|] eqn:X; [|reflexivity]. exfalso.
    (* the copy would have raised *)
    unfold edf_move in E1. unfold bindM at 1 in E1. unfold field_dataframe at 1 in E1. unfold bindM at 1 in E1.
    unfold field_ensure_valid at 1 in E1.
    destruct (dk_flds _ _ (ib_df _ IB sg Lsg) n f Hf) as (V & FD & _). rewrite V in E1.
    destruct (py_fdf s f =? g) eqn:Eg.
    - apply Z.eqb_eq in Eg. destruct FD as [FD|FD]; [congruence|]. pose proof (ib_lt _ IB g Lg). unfold NONE in *. lia.
    - unfold bindM at 1 in E1. unfold edf_copy at 1 in E1. unfold bindM at 1 in E1. rewrite copy_field_into_run in E1.
      rewrite V in E1. rewrite (proj2 (d_mem_true _ _) (d_find_keys _ _ _ X)) in E1. discriminate. }
  assert (Fval : py_valid s f = true) by (apply (dk_flds _ _ (ib_df _ IB sg Lsg) n f Hf)).
  assert (OHf : observe_handle s f = HLive i d n (fld_type s f) (fld_data s f)) by (eapply observe_catalogued; eassumption).
  assert (Hd'2 : d_find (py_dfs s' j) d' = Some g) by (rewrite P1; exact Hd').
  assert (OHnf : observe_handle s' (next_id s) = HLive j d' n' (fld_type s f) (fld_data s f)).
  { rewrite (observe_catalogued s' (next_id s) j d' g n' I' Ij Hd'2 Fn), Tnf, Dnf. reflexivity. }
  (* where the field objects of s are in s' *)
  assert (STAY : forall i0 d0 g0 n0 x, d_find (py_dfs s i0) d0 = Some g0 -> d_find (py_cols s g0) n0 = Some x -> x <> f ->
                   d_find (py_cols s' g0) n0 = Some x).
  { intros i0 d0 g0 n0 x H0 H1 NX. destruct (Z.eq_dec g0 sg) as [->|N1].
    - rewrite P3, d_find_del by exact NDsg. destruct (name_eqb n0 n) eqn:En; [|exact H1].
      apply name_eqb_spec in En. subst. congruence.
    - destruct (Z.eq_dec g0 g) as [->|N2].
      + rewrite P4, d_find_set. destruct (name_eqb n0 n') eqn:En; [|exact H1]. apply name_eqb_spec in En. subst. congruence.
      + rewrite (P5 g0 N1 N2). exact H1. }
  assert (BACK : forall g1 n1 x, d_find (py_cols s' g1) n1 = Some x -> x <> next_id s -> d_find (py_cols s g1) n1 = Some x).
  { intros g1 n1 x H1 NX. destruct (Z.eq_dec g1 sg) as [->|N1].
    - rewrite P3, d_find_del in H1 by exact NDsg. destruct (name_eqb n1 n); [discriminate | exact H1].
    - destruct (Z.eq_dec g1 g) as [->|N2].
      + rewrite P4, d_find_set in H1. destruct (name_eqb n1 n'); [congruence | exact H1].
      + rewrite (P5 g1 N1 N2) in H1. exact H1. }
  unfold observe. cbn [o_handles]. unfold rescan.
  destruct (register_prefix (catalogued_fields s') held) as [extra EX].
  assert (INnf : In (next_id s) (held ++ extra)).
  { rewrite <- EX. apply register_all. apply in_catalogued. exists j, d', g, n'. split; [exact Ij|].
    split; [apply d_find_In; exact Hd'2 | apply d_find_In; exact Fn]. }
  assert (INf : In f held).
  { apply CL. apply in_catalogued. exists i, d, sg, n. split; [exact Ii|]. split; apply d_find_In; assumption. }
  rewrite EX. repeat (apply andb_true_iff; split).
  - (* every old handle *)
    apply zipall_map_prefix. intros x Ix. pose proof (HB x Ix) as LTx. unfold move_h_ok.
    destruct (py_valid s x) eqn:V.
    2:{ assert (OH : observe_handle s x = HInvalid) by (unfold observe_handle; rewrite V; reflexivity). rewrite OH. cbn [is_live_at].
        assert (x <> f) by congruence. unfold observe_handle. rewrite (P6 x H0 ltac:(lia)), V. reflexivity. }
    destruct (h5_fld_path s x) as [[[i0 d0] n0]|] eqn:P.
    + assert (OH : observe_handle s x = HLive i0 d0 n0 (fld_type s x) (fld_data s x)) by (unfold observe_handle; rewrite V, P; reflexivity).
      rewrite OH. destruct (path_place s x i0 d0 n0 I P) as (Ii0 & g0 & Hd0 & Hf0).
      destruct (is_live_at i d n (HLive i0 d0 n0 (fld_type s x) (fld_data s x))) eqn:LA.
      * cbn [is_live_at] in LA. apply andb_true_iff in LA. destruct LA as [LA L3]. apply andb_true_iff in LA. destruct LA as [L1 L2].
        apply Z.eqb_eq in L1. apply name_eqb_spec in L2, L3. subst i0 d0 n0.
        assert (g0 = sg) by congruence. subst g0. assert (x = f) by congruence. subst x.
        unfold observe_handle. rewrite Vf. reflexivity.
      * assert (NX : x <> f).
        { intros ->. rewrite OHf in OH. inversion OH; subst. cbn [is_live_at] in LA. rewrite Z.eqb_refl, !name_eqb_refl in LA. discriminate. }
        assert (Hd0' : d_find (py_dfs s' i0) d0 = Some g0) by (rewrite P1; exact Hd0).
        rewrite (observe_catalogued s' x i0 d0 g0 n0 I' Ii0 Hd0' (STAY i0 d0 g0 n0 x Hd0 Hf0 NX)).
        destruct (step_keeps_data c _ s s' _ x E LTx) as (T & D & _). rewrite T, D. apply hstat_eqb_refl.
    + assert (OH : observe_handle s x = HDead) by (unfold observe_handle; rewrite V, P; reflexivity). rewrite OH. cbn [is_live_at].
      assert (NX : x <> f) by (intros ->; unfold observe_handle in OHf; rewrite V, P in OHf; discriminate).
      unfold observe_handle. rewrite (P6 x NX ltac:(lia)), V.
      destruct (h5_fld_path s' x) as [[[i1 d1] n1]|] eqn:P'; [|reflexivity]. exfalso.
      destruct (path_place s' x i1 d1 n1 I' P') as (Ii1 & g1 & Hd1 & Hf1). rewrite P1 in Hd1.
      pose proof (BACK g1 n1 x Hf1 ltac:(lia)) as Hf1'.
      rewrite (path_of_catalogued s x i1 d1 g1 n1 I Ii1 Hd1 Hf1') in P. discriminate.
  - rewrite !map_length, app_length. apply Nat.leb_le. lia.
  - apply forallb_forall. intros h Ih. destruct (is_live_at i d n h) eqn:LA; [|reflexivity]. cbn [negb orb].
    apply existsb_exists. exists (observe_handle s' (next_id s)). split; [apply in_map; exact INnf|].
    rewrite OHnf. cbn [is_live_at]. rewrite Z.eqb_refl, !name_eqb_refl. cbn [andb].
    apply in_map_iff in Ih. destruct Ih as (x & <- & Ix).
    (* the only handle live at (i,d,n) is f *)
    assert (x = f).
    { unfold observe_handle in LA. destruct (py_valid s x) eqn:V; [|discriminate].
      destruct (h5_fld_path s x) as [[[i0 d0] n0]|] eqn:P; [|discriminate].
      cbn [is_live_at] in LA. apply andb_true_iff in LA. destruct LA as [LA L3]. apply andb_true_iff in LA. destruct LA as [L1 L2].
      apply Z.eqb_eq in L1. apply name_eqb_spec in L2, L3. subst i0 d0 n0.
      destruct (path_place s x i d n I P) as (_ & g0 & Hd0 & Hf0). assert (g0 = sg) by congruence. subst g0. congruence. }
    subst x. rewrite OHf. cbn [same_content]. unfold list_eqb. rewrite Z.eqb_refl, name_eqb_refl. reflexivity.
  - apply existsb_exists. exists (observe_handle s f). split; [apply in_map; exact INf|].
    rewrite OHf. cbn [is_live_at]. rewrite Z.eqb_refl, !name_eqb_refl. reflexivity.
Qed.

(* dataframe.move within one frame that returns is exactly df.rename(name, new) *)
Lemma move_within_is_rename c i d n n' s s' :
  Inv s -> step c (OFMove i d n i d n') s = (s', Ok tt) -> step c (ORename i d [(n, n')]) s = (s', Ok tt).
Proof.
  intros I E. destruct (move_step_lookups _ _ _ _ _ _ _ _ _ E) as (sg & f & g & nf & Hd & Hf & Hd' & E1).
  assert (g = sg) by congruence. subst g. clear Hd'.
  pose proof (catalogued_linked _ _ _ _ (proj1 I) Hd) as L.
  destruct (dk_flds _ _ (ib_df _ (proj2 I) sg L) n f Hf) as (V & FD & _).
  cbn [step]. unfold bindM at 1. unfold ds_getitem. rewrite Hd.
  unfold edf_move in E1. unfold bindM at 1 in E1. unfold field_dataframe at 1 in E1. unfold bindM at 1 in E1.
  unfold field_ensure_valid at 1 in E1. rewrite V in E1.
  destruct (py_fdf s f =? sg) eqn:Eg.
  - unfold bindM at 1 in E1. destruct (field_name f s) as [sx r1] eqn:E2. pose proof (field_name_pure _ _ _ _ E2) as ->.
    destruct r1 as [cur|x|e|]; try discriminate.
    assert (cur = n).
    { unfold field_name, bindM, field_ensure_valid in E2. rewrite V in E2.
      destruct (h5_fld_path s f) as [[[pi pd] pn]|] eqn:P; [|discriminate]. injection E2 as X. subst pn.
      apply (path_is_place s sg n f pi pd cur I L Hf P). }
    subst cur. unfold bindM at 1 in E1. destruct (df_rename c sg [(n, n')] s) as [s1 [[]|x|e|]] eqn:E3; inversion E1; subst.
    reflexivity.
  - exfalso. apply Z.eqb_neq in Eg. destruct FD as [FD|FD]; [contradiction|].
    unfold bindM at 1 in E1. destruct (edf_copy c f sg n' s) as [s1 r1] eqn:E4.
    destruct (edf_copy_keeps c f sg n' s s1 r1 I L E4) as (_ & HOk & _).
    destruct r1 as [x|x|e|]; try discriminate. destruct (HOk x eq_refl) as (-> & _).
    destruct (copied_frame c s f sg n') as (_ & _ & _ & _ & F5 & _ & _ & _ & F9 & _).
    assert (NEf : f <> next_id s).
    { destruct (dk_flds _ _ (ib_df _ (proj2 I) sg L) n f Hf) as (_ & _ & ?). lia. }
    destruct (F9 f NEf) as (V1 & FD1 & _).
    unfold bindM at 1 in E1. unfold field_dataframe at 1 in E1. unfold bindM at 1 in E1. unfold field_ensure_valid at 1 in E1.
    rewrite V1, V, FD1, FD in E1. cbn in E1. discriminate.
Qed.

Definition wf_op (p:op) : Prop :=
  match p with OFMove i _ _ j _ _ => In i ds_indices /\ In j ds_indices | _ => True end.

(* all four verdicts of a step *)
Theorem step_verdicts c p s s' r held :
  fix_a c = true -> Inv s -> closed s held -> (forall f, In f held -> f < next_id s) -> wf_op p ->
  step c p s = (s', r) -> Inv s' ->
  all_true (verdicts p (is_ok r) (observe s held) (observe s' (rescan s' held))) = true.
Proof.
  intros FA I CL HB WF E I'. unfold verdicts, all_true. cbn [forallb].
  rewrite (Inv_chk_inv s' _ I').
  assert (V1 : chk_data (observe s held) (observe s' (rescan s' held)) = true).
  { unfold chk_data, observe, rescan. cbn [o_handles].
    destruct (register_prefix (catalogued_fields s') held) as [extra ->].
    apply zipall_map_prefix. intros f If.
    destruct (step_keeps_data c p s s' r f E (HB f If)) as (T & D & _).
    unfold hdata_ok, observe_handle.
    destruct (py_valid s f); [|reflexivity]. destruct (h5_fld_path s f) as [[[? ?] ?]|]; [|reflexivity].
    destruct (py_valid s' f); [|reflexivity]. destruct (h5_fld_path s' f) as [[[? ?] ?]|]; [|reflexivity].
    unfold list_eqb. rewrite T, D, Z.eqb_refl, name_eqb_refl. reflexivity. }
  rewrite V1. cbn [andb].
  assert (V2 : chk_rename p (is_ok r) (observe s held) (observe s' (rescan s' held)) = true).
  { destruct p; try reflexivity.
    - apply (rename_verdict c); assumption.
    - unfold chk_rename. cbn [as_rename]. destruct ((i =? j) && name_eqb d d') eqn:SAME; [|reflexivity].
      apply andb_true_iff in SAME. destruct SAME as [S1 S2]. apply Z.eqb_eq in S1. apply name_eqb_spec in S2. subst j d'.
      destruct (is_ok r) eqn:OK; [|reflexivity].
      assert (r = Ok tt) by (destruct r as [[]| | |]; try discriminate; reflexivity). subst r.
      pose proof (move_within_is_rename c i d n n' s s' I E) as E'.
      pose proof (rename_verdict c i d [(n, n')] s s' (Ok tt) held FA I CL E') as RV.
      unfold chk_rename in RV. cbn [as_rename is_ok] in RV. exact RV. }
  rewrite V2. cbn [andb].
  assert (V3 : chk_move p (is_ok r) (observe s held) (observe s' (rescan s' held)) = true).
  { destruct p; try reflexivity. destruct WF as [W1 W2]. apply (move_verdict c); assumption. }
  rewrite V3. reflexivity.
Qed.
