(* Proofs/SessionMergePandas.v — Session.merge_left / merge_right / merge_inner (C19).
   pandas.merge is a Section variable; its assumed behaviour (the relational join: every row of
   the left frame in order with its matches in right-frame order, NaN when there is none; for
   how='inner' some permutation of the matching pairs) is an explicit hypothesis, exercised by
   the correspondence run on every generated key pair. *)
From Coq Require Import ZArith List Lia Bool ZifyBool Permutation.
From EV Require Import Res Arr JoinSpec JoinBase MapStream MapStreamSpec MapHelpers MapIndexedHelper
  SessionMerge SessionMergeSpec SessionMergeBase SessionMergeTop.
Import ListNotations.
Open Scope Z_scope.

(* what a mapped payload must be *)
Definition payload_left (L R:list Z) (p:payload) : payload :=
  match p with
  | PNum d => PNum (left_payload 0 L R d)
  | PIdx i v => let strs := left_payload [] L R (decode i v) in PIdx (offsets_of strs) (concat strs)
  end.
Definition payload_rows (rows:list Z) (p:payload) : payload :=
  match p with
  | PNum d => PNum (map (nthd 0 d) rows)
  | PIdx i v => let strs := map (nthd [] (decode i v)) rows in PIdx (offsets_of strs) (concat strs)
  end.
(* a payload column of a table with n rows *)
Definition wf_payload (n:Z) (p:payload) : Prop :=
  match p with
  | PNum d => len d = n
  | PIdx i v => wf_indexed i v /\ len i - 1 = n
  end.

Lemma NAN_neg : NAN_INT64 < 0. Proof. reflexivity. Qed.

Lemma opt_map_of_join (os:list (option Z)) :
  (forall o, In o os -> match o with Some j => 0 <= j | None => True end) ->
  opt_map_of os = (map (unopt NAN_INT64) os, filter_of NAN_INT64 (map (unopt NAN_INT64) os)).
Proof.
  intros H. unfold opt_map_of, filter_of. f_equal. rewrite map_map. apply map_ext_in. intros o Ho.
  specialize (H o Ho). destruct o as [j|]; cbn [unopt].
  - pose proof NAN_neg. destruct (j =? NAN_INT64) eqn:E; [lia|reflexivity].
  - reflexivity.
Qed.

Lemma left_rows_opts L R : forall o, In o (map snd (left_rows L R)) ->
  match o with Some j => 0 <= j | None => True end.
Proof.
  intros o Ho. apply in_map_iff in Ho. destruct Ho as (p & <- & Hp).
  pose proof (left_rows_from_range R L 0 p Hp) as Hr. destruct (snd p); [lia|exact I].
Qed.

Lemma map_payload_left L R p :
  wf_payload (len R) p ->
  map_payload p (map snd (left_join NAN_INT64 L R)) (filter_of NAN_INT64 (map snd (left_join NAN_INT64 L R)))
  = Ok (payload_left L R p).
Proof.
  intros Hwf. pose proof NAN_neg as Hn. pose proof (len_nonneg R) as HR0.
  destruct p as [d|i v]; cbn [map_payload wf_payload payload_left] in *.
  - rewrite (@safe_map_values_correct_gen Z 0 d NAN_INT64 _ None).
    + cbn [bind]. rewrite (map_spec_left_payload 0 d NAN_INT64 L R) by lia. reflexivity.
    + apply join_map_in_range. lia.
  - destruct Hwf as (Hwf & Hl).
    rewrite (safe_map_indexed_values_correct_top i v NAN_INT64 _ [] Hwf).
    + cbn [bind]. cbv zeta. rewrite (map_spec_left_payload [] (decode i v) NAN_INT64 L R) by lia. reflexivity.
    + apply join_map_in_range. lia.
Qed.

(* ---- inner: rows read through an explicit list of row numbers ---- *)
Lemma filter_of_all_true (rows:list Z) : (forall r, In r rows -> 0 <= r) ->
  filter_of (-1) rows = map (fun _ => true) rows.
Proof.
  intros H. unfold filter_of. apply map_ext_in. intros r Hr. specialize (H r Hr).
  destruct (r =? -1) eqn:E; [lia|reflexivity].
Qed.

Lemma map_spec_rows {A} (empty:A) data (rows:list Z) : (forall r, In r rows -> 0 <= r) ->
  map_spec empty data (-1) rows = map (nthd empty data) rows.
Proof.
  intros H. unfold map_spec. apply map_ext_in. intros r Hr. specialize (H r Hr).
  destruct (r =? -1) eqn:E; [lia|reflexivity].
Qed.

Lemma in_range_rows n (rows:list Z) : (forall r, In r rows -> 0 <= r < n) -> in_range_map n (-1) rows.
Proof.
  intros H i Hi _. apply H. unfold nthZ, nthd. apply nth_In. unfold len in Hi. lia.
Qed.

Lemma map_payload_rows n rows p :
  wf_payload n p -> (forall r, In r rows -> 0 <= r < n) ->
  map_payload p rows (map (fun _ => true) rows) = Ok (payload_rows rows p).
Proof.
  intros Hwf Hr.
  assert (Hr0 : forall r, In r rows -> 0 <= r) by (intros r H; specialize (Hr r H); lia).
  rewrite <- (filter_of_all_true rows Hr0).
  destruct p as [d|i v]; cbn [map_payload wf_payload payload_rows] in *.
  - rewrite (@safe_map_values_correct_gen Z 0 d (-1) rows None).
    + cbn [bind]. rewrite (map_spec_rows 0 d rows Hr0). reflexivity.
    + apply in_range_rows. rewrite Hwf. exact Hr.
  - destruct Hwf as (Hwf & Hl).
    rewrite (safe_map_indexed_values_correct_top i v (-1) rows [] Hwf).
    + cbn [bind]. cbv zeta. rewrite (map_spec_rows [] (decode i v) rows Hr0). reflexivity.
    + apply in_range_rows. rewrite Hl. exact Hr.
Qed.

Lemma inner_join_from_range R : forall L i0 p, In p (inner_join_from L R i0) ->
  i0 <= fst p < i0 + len L /\ 0 <= snd p < len R.
Proof.
  induction L as [|key t IH]; intros i0 p Hin; cbn [inner_join_from] in Hin; [destruct Hin|].
  rewrite len_cons. pose proof (len_nonneg t).
  apply in_app_or in Hin. destruct Hin as [Hin|Hin].
  - apply in_map_iff in Hin. destruct Hin as (j & <- & Hj). cbn [fst snd]. apply matches_In in Hj. lia.
  - specialize (IH _ _ Hin). lia.
Qed.

Section Pandas.
Variable pd_merge_left : list Z -> list Z -> list (Z * option Z).
Variable pd_merge_inner : list Z -> list Z -> list (Z * Z).
Hypothesis pd_left_is_join : forall L R, pd_merge_left L R = left_rows L R.
Hypothesis pd_inner_is_join : forall L R, Permutation (pd_merge_inner L R) (inner_join L R).

Theorem merge_left_correct_gen L R (fields:list payload) :
  (forall p, In p fields -> wf_payload (len R) p) ->
  merge_left pd_merge_left L R fields = Ok (map (payload_left L R) fields).
Proof.
  intros Hwf. unfold merge_left. rewrite pd_left_is_join.
  rewrite (opt_map_of_join _ (left_rows_opts L R)). rewrite <- left_join_rows.
  apply mapM_ok. intros p Hp. apply map_payload_left. exact (Hwf p Hp).
Qed.

(* merge_right is the left join of the RIGHT keys against the LEFT keys *)
Theorem merge_right_correct_gen L R (fields:list payload) :
  (forall p, In p fields -> wf_payload (len L) p) ->
  merge_right pd_merge_left L R fields = Ok (map (payload_left R L) fields).
Proof.
  intros Hwf. unfold merge_right. rewrite pd_left_is_join.
  rewrite (opt_map_of_join _ (left_rows_opts R L)). rewrite <- left_join_rows.
  apply mapM_ok. intros p Hp. apply map_payload_left. exact (Hwf p Hp).
Qed.

(* merge_inner: one permutation `pairs` of the matching pairs; every left payload is read at the
   left rows of `pairs`, every right payload at its right rows *)
Theorem merge_inner_correct_gen L R (lf rf:list payload) :
  (forall p, In p lf -> wf_payload (len L) p) ->
  (forall p, In p rf -> wf_payload (len R) p) ->
  exists pairs, Permutation pairs (inner_join L R) /\
    merge_inner pd_merge_inner L R lf rf
    = Ok (map (payload_rows (map fst pairs)) lf, map (payload_rows (map snd pairs)) rf).
Proof.
  intros Hl Hr. exists (pd_merge_inner L R). split; [apply pd_inner_is_join|].
  unfold merge_inner.
  assert (Hrange : forall p, In p (pd_merge_inner L R) -> 0 <= fst p < len L /\ 0 <= snd p < len R).
  { intros p Hp. apply (Permutation_in _ (pd_inner_is_join L R)) in Hp.
    pose proof (inner_join_from_range R L 0 p Hp). lia. }
  set (df := pd_merge_inner L R) in *. cbv zeta.
  assert (Hf1 : map (fun _ : Z * Z => true) df = map (fun _ : Z => true) (map fst df)) by (rewrite map_map; reflexivity).
  assert (Hf2 : map (fun _ : Z * Z => true) df = map (fun _ : Z => true) (map snd df)) by (rewrite map_map; reflexivity).
  rewrite (mapM_ok _ (payload_rows (map fst df)) lf).
  2:{ intros p Hp. rewrite Hf1. apply (map_payload_rows (len L)); [exact (Hl p Hp)|].
      intros r Hin. apply in_map_iff in Hin. destruct Hin as (q & <- & Hq). exact (proj1 (Hrange q Hq)). }
  cbn [bind].
  rewrite (mapM_ok _ (payload_rows (map snd df)) rf).
  2:{ intros p Hp. rewrite Hf2. apply (map_payload_rows (len R)); [exact (Hr p Hp)|].
      intros r Hin. apply in_map_iff in Hin. destruct Hin as (q & <- & Hq). exact (proj2 (Hrange q Hq)). }
  reflexivity.
Qed.

End Pandas.
