(* Proofs/FilterIndexSort.v — Session.dataset_sort_index (repeated stable argsort, least
   significant key first) is THE stable sort of the key rows in lexicographic order. *)
From Coq Require Import ZArith List Bool Lia Permutation Sorted.
From EV Require Import Res Arr StableSort StableSortProofs FilterIndex FilterIndexSpec.
Import ListNotations.
Open Scope Z_scope.

Definition rowle : list cell -> list cell -> bool := lex_le cell_le.

Lemma rowle_trans a b c : rowle a b = true -> rowle b c = true -> rowle a c = true.
Proof. intros H1 H2. exact (lex_le_trans cell_le cell_le_trans a b c H1 H2). Qed.
Lemma rowle_total a b : rowle a b = true \/ rowle b a = true.
Proof. exact (lex_le_total cell_le cell_le_total a b). Qed.

(* ---- numpy indexing with in-range indices is a plain gather ---- *)
Lemma map_res_ok {A B} (f:A -> res B) (g:A -> B) l :
  (forall x, In x l -> f x = Ok (g x)) -> map_res f l = Ok (map g l).
Proof.
  induction l as [|x t IH]; intros H; cbn [map_res map]; [reflexivity|].
  rewrite H by (left; reflexivity). cbn [bind]. rewrite IH by (intros; apply H; right; assumption).
  reflexivity.
Qed.

Lemma np_take1_ok {A} (d:A) l k : 0 <= k < len l -> np_take1 l k = Ok (nthd d l k).
Proof.
  intros H. unfold np_take1, getw. destruct (k <? 0) eqn:E; [lia|].
  rewrite (get_ok _ d) by lia. reflexivity.
Qed.

Lemma np_take_ok {A} (d:A) l idx :
  Forall (fun k => 0 <= k < len l) idx -> np_take l idx = Ok (gather d l idx).
Proof.
  intros H. unfold np_take, gather. apply map_res_ok. rewrite Forall_forall in H.
  intros x Hx. apply np_take1_ok. apply H. exact Hx.
Qed.

(* ---- rows ---- *)
Lemma rows_of_length n cols : length (rows_of n cols) = Z.to_nat n.
Proof. unfold rows_of. rewrite map_length. apply iota_length. Qed.

Lemma rows_of_nthd n cols p : 0 <= p < n -> nthd [] (rows_of n cols) p = row_at cols p.
Proof.
  intros H. unfold rows_of. rewrite (nthd_map _ 0) by (unfold len; rewrite iota_length; lia).
  f_equal. unfold nthd. rewrite iota_nth by lia. lia.
Qed.

Lemma const_tag_sorted {K} (kle:K -> K -> bool) (c:K) s n :
  kle c c = true -> StronglySorted (pleP kle) (map (fun p => (c, p)) (iota s n)).
Proof.
  intros Hc. revert s. induction n as [|n IH]; intros s; cbn [iota map]; constructor; [apply IH|].
  apply Forall_forall. intros x Hx. apply in_map_iff in Hx. destruct Hx as [p [<- Hp]].
  apply iota_In in Hp. apply ple_intro; cbn [fst snd]; [exact Hc|intros; lia].
Qed.

Lemma lexsort_perm_nil n : 0 <= n -> lexsort_perm (rows_of n []) = iota 0 (Z.to_nat n).
Proof.
  intros Hn. unfold lexsort_perm. symmetry.
  apply (argsort_unique (lex_le cell_le) rowle_trans rowle_total []).
  - rewrite rows_of_length. reflexivity.
  - unfold tag. erewrite map_ext_in; [apply (const_tag_sorted _ []); reflexivity|].
    intros p Hp. apply iota_In in Hp. cbn beta. rewrite rows_of_nthd by lia. reflexivity.
Qed.

(* ---- one pass ---- *)
Lemma sort_pass_step n raw suffix :
  0 <= n -> len raw = n ->
  sort_pass raw (lexsort_perm (rows_of n suffix)) = Ok (lexsort_perm (rows_of n (raw :: suffix))).
Proof.
  intros Hn Hraw. unfold sort_pass.
  set (rowsB := rows_of n suffix). set (q := lexsort_perm rowsB).
  assert (HlenB : length rowsB = Z.to_nat n) by apply rows_of_length.
  assert (Hqperm : Permutation q (iota 0 (Z.to_nat n))).
  { unfold q, lexsort_perm. rewrite <- HlenB. apply argsort_perm. }
  assert (Hqlen : length q = Z.to_nat n).
  { rewrite (Permutation_length Hqperm). apply iota_length. }
  assert (Hqr : forall x, In x q -> 0 <= x < n).
  { intros x Hx. eapply Permutation_in in Hx; [|exact Hqperm]. apply iota_In in Hx. lia. }
  rewrite (np_take_ok []) by (apply Forall_forall; intros x Hx; specialize (Hqr x Hx); lia).
  cbn [bind]. set (fdata := gather [] raw q).
  assert (Hflen : length fdata = Z.to_nat n) by (unfold fdata, gather; rewrite map_length; exact Hqlen).
  set (index := argsort cell_le fdata).
  assert (Hiperm : Permutation index (iota 0 (Z.to_nat n))).
  { unfold index. rewrite <- Hflen. apply argsort_perm. }
  assert (Hir : forall k, In k index -> 0 <= k < len q).
  { intros k Hk. eapply Permutation_in in Hk; [|exact Hiperm]. apply iota_In in Hk. unfold len. lia. }
  rewrite (np_take_ok 0) by (apply Forall_forall; exact Hir).
  f_equal. unfold lexsort_perm.
  apply (argsort_unique (lex_le cell_le) rowle_trans rowle_total []).
  - rewrite rows_of_length. unfold gather.
    transitivity (map (nthd 0 q) (iota 0 (length q))).
    + apply Permutation_map. rewrite Hqlen. exact Hiperm.
    + rewrite map_nthd_iota. exact Hqperm.
  - unfold tag, gather.
    erewrite (map_ext_in _ (fun p => (row_at (raw :: suffix) p, p))).
    2:{ intros p Hp. apply in_map_iff in Hp. destruct Hp as [k [<- Hk]].
        rewrite rows_of_nthd; [reflexivity|]. apply Hqr. apply nth_In. specialize (Hir k Hk).
        unfold len in Hir. lia. }
    apply (lsd_pass cell_le rowle rowle rowle_total
                    (fun p => nthd [] raw p) (fun p => row_at suffix p) (fun p => row_at (raw :: suffix) p)).
    + intros p1 p2. reflexivity.
    + pose proof (argsort_sorted (lex_le cell_le) rowle_trans rowle_total [] rowsB) as Hs.
      fold q in Hs. unfold tag in Hs.
      erewrite map_ext_in; [exact Hs|]. intros p Hp. cbn beta. unfold rowsB.
      rewrite rows_of_nthd by (apply Hqr; exact Hp). reflexivity.
    + apply Forall_forall. exact Hir.
    + pose proof (argsort_sorted cell_le cell_le_trans cell_le_total [] fdata) as Hs.
      fold index in Hs. unfold tag in Hs.
      erewrite map_ext_in; [exact Hs|]. intros k Hk. cbn beta. unfold fdata, gather.
      rewrite (nthd_map _ 0) by (apply Hir; exact Hk). reflexivity.
Qed.

Lemma sort_passes_inv n todo suffix :
  0 <= n -> Forall (fun c => len c = n) todo ->
  sort_passes todo (lexsort_perm (rows_of n suffix)) = Ok (lexsort_perm (rows_of n (rev todo ++ suffix))).
Proof.
  intros Hn. revert suffix. induction todo as [|raw t IH]; intros suffix Hall; cbn [sort_passes].
  - reflexivity.
  - pose proof (Forall_inv Hall) as Hraw. pose proof (Forall_inv_tail Hall) as Ht. cbn beta in Hraw.
    rewrite (sort_pass_step _ _ _ Hn Hraw). cbn [bind].
    rewrite IH by exact Ht. cbn [rev]. rewrite <- app_assoc. reflexivity.
Qed.

(* session.py:239-269 with the start permutation both call sites pass *)
Theorem dataset_sort_index_lexsort readers n :
  readers <> [] -> 0 <= n -> Forall (fun c => len c = n) readers ->
  dataset_sort_index readers (iota 0 (Z.to_nat n)) = Ok (lexsort_perm (rows_of n readers)).
Proof.
  intros Hne Hn Hall. unfold dataset_sort_index.
  destruct (rev readers) as [|raw t] eqn:E.
  - exfalso. apply Hne. apply (f_equal (@rev _)) in E. rewrite rev_involutive in E. exact E.
  - change (do acc <- sort_pass raw (iota 0 (Z.to_nat n)); sort_passes t acc)
      with (sort_passes (raw :: t) (iota 0 (Z.to_nat n))).
    rewrite <- (lexsort_perm_nil n Hn). rewrite <- E.
    rewrite sort_passes_inv; [|exact Hn|].
    + rewrite rev_involutive, app_nil_r. reflexivity.
    + apply Forall_rev. exact Hall.
Qed.

(* the result is the unique permutation that orders the key rows and keeps tied rows in order *)
Theorem lexsort_perm_stable keyrows :
  stable_sorting rowle [] keyrows (lexsort_perm keyrows).
Proof. apply argsort_stable_sorting; [exact rowle_trans|exact rowle_total]. Qed.

Theorem lexsort_perm_unique keyrows q :
  stable_sorting rowle [] keyrows q -> q = lexsort_perm keyrows.
Proof. apply stable_sorting_unique; [exact rowle_trans|exact rowle_total]. Qed.
