(* Proofs/JournalFinal.v — journal_table = journal_spec (arbitrary physical order). *)
From Coq Require Import ZArith List Lia Bool Sorted Permutation.
From EV Require Import Res Arr Journal JournalSpec JournalBase JournalWalk JournalMerge JournalSort JournalMain.
Import ListNotations.
Open Scope Z_scope.

Lemma flat_map_map' {A B C:Type} (f:B -> list C) (g:A -> B) l : flat_map f (map g l) = flat_map (fun x => f (g x)) l.
Proof. induction l as [|x l IH]; cbn [map flat_map]; [reflexivity|]. rewrite IH. reflexivity. Qed.

Lemma map_flat_map' {A B C:Type} (f:B -> C) (g:A -> list B) l : map f (flat_map g l) = flat_map (fun x => map f (g x)) l.
Proof. induction l as [|x l IH]; cbn [map flat_map]; [reflexivity|]. rewrite map_app, IH. reflexivity. Qed.

Lemma flat_map_ext_Forall {A B:Type} (f g:A -> list B) (P:A -> Prop) l :
  Forall P l -> (forall x, P x -> f x = g x) -> flat_map f l = flat_map g l.
Proof. intros H Hfg. induction H as [|x l Hx H IH]; cbn [flat_map]; [reflexivity|]. rewrite IH, (Hfg x Hx). reflexivity. Qed.

Lemma filter_map_swap' {A B:Type} (g:B -> bool) (f:A -> B) l : filter g (map f l) = map f (filter (fun x => g (f x)) l).
Proof. induction l as [|x l IH]; cbn [map filter]; [reflexivity|]. destruct (g (f x)); cbn [map]; rewrite IH; reflexivity. Qed.

Lemma nthd_map_in {A:Type} (d:A) (f:Z -> A) (l:list Z) p : 0 <= p < len l -> nthd d (map f l) p = f (nthZ l p).
Proof.
  intros H. unfold nthd, nthZ, nthd, len in *. rewrite (nth_indep _ d (f 0)) by (rewrite map_length; lia). apply map_nth.
Qed.

Definition phys (osi nsi:list Z) (s:src) : src :=
  match s with FromOld p => FromOld (nthZ osi p) | FromNew q => FromNew (nthZ nsi q) end.

Definition src_ok (no nn:Z) (s:src) : Prop :=
  match s with FromOld p => 0 <= p < no | FromNew q => 0 <= q < nn end.

Section Final.
Variables (okeys ovf nkeys:list Z) (f0:col * col) (fs:list (col * col)).
Let fields := f0 :: fs.
Let osi := dataset_sort_index [okeys; ovf].
Let nsi := dataset_sort_index [nkeys].
Let oks := take okeys osi.
Let nks := take nkeys nsi.
Hypothesis Hl : length okeys = length ovf.
Hypothesis Hnd : NoDup nkeys.
Hypothesis Hwf : Forall wf_field fields.

Lemma kdif_cell f p q : wf_field f -> 0 <= p < len osi -> 0 <= q < len nsi ->
  kdif osi nsi f p q = cell_differs f (nthZ osi p) (nthZ nsi q).
Proof.
  destruct f as [[od|oo ov] [nd|no nv]]; cbn [wf_field]; intros H Hp Hq; try contradiction; cbn [kdif cell_differs].
  - rewrite !nthZ_take by lia. reflexivity.
  - rewrite !nthd_map_in by lia. reflexivity.
Qed.

Lemma difS_row_gen (l:list (col * col)) p q : Forall wf_field l -> 0 <= p < len osi -> 0 <= q < len nsi ->
  existsb (fun f => kdif osi nsi f p q) l = row_differs l (nthZ osi p) (nthZ nsi q).
Proof.
  intros Hw Hp Hq. unfold row_differs. induction Hw as [|f l' Hf Hw IH]; cbn [existsb]; [reflexivity|].
  rewrite IH, kdif_cell by auto. reflexivity.
Qed.

Lemma difS_row p q : 0 <= p < len osi -> 0 <= q < len nsi ->
  existsb (fun f => kdif osi nsi f p q) fields = row_differs fields (nthZ osi p) (nthZ nsi q).
Proof. intros. apply difS_row_gen; auto. Qed.

Lemma osi_as_map : osi = map (nthZ osi) (upto (length osi)).
Proof. rewrite <- iota_upto. symmetry. apply map_nthZ_iota. Qed.

Lemma versions_sorted k :
  versions okeys ovf k = map (nthZ osi) (filter (fun p => nthZ oks p =? k) (upto (length oks))).
Proof.
  rewrite dsi2_versions by exact Hl. fold osi. rewrite osi_as_map at 1. rewrite filter_map_swap'.
  f_equal. unfold oks. rewrite take_length. apply filter_ext_in. intros p Hp.
  rewrite upto_zrange in Hp. apply In_zrange in Hp. rewrite nthZ_take by (unfold len; lia). reflexivity.
Qed.

Lemma key_block_entry x : entry_ok oks nks x ->
  key_block okeys ovf nkeys fields (e_key x) = map (phys osi nsi) (eblock (x, kfun osi nsi fields x)).
Proof.
  intros (Hpos & Hnew & Ha & Hold & Hnw & Hnb).
  assert (Hlo : len oks = len osi) by (unfold oks; apply len_take').
  assert (Hln : len nks = len nsi) by (unfold nks; apply len_take').
  unfold key_block. rewrite versions_sorted, Hpos. rewrite (dsi1_new_row nkeys _ Hnd). fold nsi nks. rewrite Hnew.
  unfold eblock, block, kfun. cbn [fst snd]. rewrite map_app, !map_map. cbn [phys].
  f_equal.
  destruct (e_old x =? -1) eqn:Eo.
  - apply Z.eqb_eq in Eo. specialize (Hnb Eo). replace (e_new x =? -1) with false by (symmetry; apply Z.eqb_neq; exact Hnb).
    cbn [option_map orb]. rewrite Eo. rewrite zrange_nil by lia. reflexivity.
  - apply Z.eqb_neq in Eo. destruct Hold as [Hold|Hold]; [contradiction|]. cbn [orb].
    destruct (e_new x =? -1) eqn:En; cbn [option_map negb andb]; [reflexivity|].
    apply Z.eqb_neq in En. destruct Hnw as [Hnw|Hnw]; [contradiction|].
    rewrite zrange_snoc by lia. rewrite map_app. cbn [map].
    destruct (map (nthZ osi) (zrange (e_a x) (e_old x)) ++ [nthZ osi (e_old x)]) eqn:El; [destruct (map (nthZ osi) (zrange (e_a x) (e_old x))); discriminate|].
    rewrite <- El. rewrite last_snoc. rewrite difS_row by lia. destruct (row_differs fields _ _); reflexivity.
Qed.

Lemma eblock_range x : entry_ok oks nks x -> Forall (src_ok (len osi) (len nsi)) (eblock (x, kfun osi nsi fields x)).
Proof.
  intros (_ & _ & Ha & Hold & Hnw & Hnb).
  assert (Hlo : len oks = len osi) by (unfold oks; apply len_take').
  assert (Hln : len nks = len nsi) by (unfold nks; apply len_take').
  unfold eblock. cbn [fst snd]. apply Forall_app. split.
  - apply Forall_forall. intros s Hs. apply in_map_iff in Hs. destruct Hs as (p & <- & Hp). apply In_zrange in Hp.
    cbn [src_ok]. destruct Hold as [Hold|Hold]; lia.
  - unfold kfun. destruct (e_old x =? -1) eqn:Eo; cbn [orb].
    + apply Z.eqb_eq in Eo. specialize (Hnb Eo). constructor; [|constructor]. cbn [src_ok]. destruct Hnw; lia.
    + destruct (e_new x =? -1) eqn:En; cbn [negb andb]; [constructor|].
      apply Z.eqb_neq in En. destruct (existsb _ fields); constructor; [|constructor]. cbn [src_ok]. destruct Hnw; lia.
Qed.

Lemma out_col_phys P f : wf_field f -> Forall (src_ok (len osi) (len nsi)) P ->
  out_col (map (phys osi nsi) P) f = outS osi nsi P f.
Proof.
  destruct f as [[od|oo ov] [nd|no nv]]; cbn [wf_field]; intros H HP; try contradiction; cbn [out_col outS].
  - f_equal. rewrite map_map. apply map_ext_in. intros s Hs. rewrite Forall_forall in HP. specialize (HP s Hs).
    destruct s as [p|q]; cbn [phys cellnum src_ok] in *; rewrite nthZ_take by lia; reflexivity.
  - rewrite map_map.
    replace (map (fun x => match phys osi nsi x with FromOld i => cell oo ov i | FromNew j => cell no nv j end) P)
      with (map (cellstr (map (cell oo ov) osi) (map (cell no nv) nsi)) P); [reflexivity|].
    apply map_ext_in. intros s Hs. rewrite Forall_forall in HP. specialize (HP s Hs).
    destruct s as [p|q]; cbn [phys cellstr src_ok] in *; rewrite nthd_map_in by lia; reflexivity.
Qed.

Theorem journal_table_correct_nonempty fuel : Z.of_nat fuel > len okeys + len nkeys ->
  journal_table fuel okeys ovf nkeys fields = Ok (journal_spec okeys ovf nkeys fields).
Proof.
  intros Hf. destruct (journal_table_sorted_view fuel okeys ovf nkeys fields Hl Hnd Hwf Hf) as (E & HW & Hr).
  fold osi nsi in HW, Hr. fold oks nks in HW. rewrite Hr. f_equal. unfold journal_spec.
  assert (Hso : sorted oks) by (apply dsi2_keys_sorted; exact Hl).
  assert (Hsn : ssorted nks) by (apply dsi1_keys_ssorted; exact Hnd).
  pose proof (W_entries oks nks Hso Hsn 0 0 E HW (Pre_0 oks nks)) as Hent.
  set (PS := planE E (map (kfun osi nsi fields) E)).
  assert (HPS : PS = flat_map (fun x => eblock (x, kfun osi nsi fields x)) E).
  { unfold PS, planE. rewrite combine_map_r, flat_map_map'. reflexivity. }
  assert (Hplan : plan okeys ovf nkeys fields = map (phys osi nsi) PS).
  { unfold plan. assert (Hk : all_keys okeys nkeys = map e_key E).
    { rewrite <- (W_all_keys oks nks Hso Hsn E HW). unfold oks, nks, osi, nsi.
      apply all_keys_perm; apply Permutation_sym; apply take_perm; [apply dsi2_perm; exact Hl|apply dsi1_perm]. }
    rewrite Hk, flat_map_map', HPS, map_flat_map'.
    apply (flat_map_ext_Forall _ _ (entry_ok oks nks)); [exact Hent|]. intros x Hx. apply key_block_entry. exact Hx. }
  assert (Hrange : Forall (src_ok (len osi) (len nsi)) PS).
  { rewrite HPS. apply Forall_forall. intros s Hs. apply in_flat_map in Hs. destruct Hs as (x & Hx & Hs).
    rewrite Forall_forall in Hent. pose proof (eblock_range x (Hent x Hx)) as Hr'. rewrite Forall_forall in Hr'. auto. }
  rewrite Hplan. apply map_ext_in. intros f Hin. symmetry. apply out_col_phys; auto.
  rewrite Forall_forall in Hwf. auto.
Qed.
End Final.

Theorem journal_table_correct fuel okeys ovf nkeys fields :
  length okeys = length ovf -> NoDup nkeys -> Forall wf_field fields ->
  Z.of_nat fuel > len okeys + len nkeys ->
  journal_table fuel okeys ovf nkeys fields = Ok (journal_spec okeys ovf nkeys fields).
Proof.
  intros Hl Hnd Hwf Hf. destruct fields as [|f0 fs].
  - destruct (journal_table_sorted_view fuel okeys ovf nkeys [] Hl Hnd Hwf Hf) as (E & _ & Hr). rewrite Hr. reflexivity.
  - apply journal_table_correct_nonempty; auto.
Qed.

(* when the versions of a key are physically stored oldest first, history order = physical order *)
Lemma isort_vf_sorted_id ovf l :
  StronglySorted (fun a b => nthZ ovf a <= nthZ ovf b) l -> fold_right (ins_vf ovf) [] l = l.
Proof.
  induction l as [|x l IH]; intros H; cbn [fold_right]; [reflexivity|].
  apply StronglySorted_inv in H. destruct H as [H Hx]. rewrite (IH H).
  destruct l as [|y t]; cbn [ins_vf]; [reflexivity|].
  apply Forall_inv in Hx. replace (nthZ ovf x <=? nthZ ovf y) with true by (symmetry; apply Z.leb_le; exact Hx). reflexivity.
Qed.

Theorem versions_physical okeys ovf k :
  StronglySorted (fun a b => nthZ ovf a <= nthZ ovf b) (filter (fun i => nthZ okeys i =? k) (upto (length okeys))) ->
  versions okeys ovf k = filter (fun i => nthZ okeys i =? k) (upto (length okeys)).
Proof. intros H. unfold versions. apply isort_vf_sorted_id. exact H. Qed.
