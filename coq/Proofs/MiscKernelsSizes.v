(* Proofs/MiscKernelsSizes.v — the result-size kernels, ordered_get_last_as_filter, the dict/flag helpers *)
From Coq Require Import ZArith List Lia Bool.
From EV Require Import Res Arr MiscKernels MiscKernelsSpec MiscKernelsBase.
Import ListNotations.
Open Scope Z_scope.

(* ------------------------------------------------------------------ run_count *)
Lemma run_count_spec s1 s2 : forall t pre x k cnt fuel,
  len pre = k -> (length t < fuel)%nat ->
  run_count fuel s1 s2 (pre ++ x :: t) k cnt = Ok (cnt + lead x t, k + lead x t).
Proof.
  induction t as [|y t IH]; intros pre x k cnt fuel Hk Hf; (destruct fuel as [|fuel]; [cbn in Hf; lia|]);
    cbn [run_count lead].
  - rewrite len_mid, len_nil. replace (k + 1 <? len pre + 0 + 1) with false by (symmetry; apply Z.ltb_ge; lia).
    f_equal. f_equal; lia.
  - rewrite len_mid, len_cons.
    replace (k + 1 <? len pre + (len t + 1) + 1) with true
      by (symmetry; apply Z.ltb_lt; pose proof (len_nonneg t); lia).
    rewrite (get_mid s2 pre x (y :: t) k Hk).
    rewrite <- (app_snoc pre x (y :: t)).
    rewrite (get_mid s1 (pre ++ [x]) y t (k + 1)) by (rewrite len_snoc; lia). cbn [bind].
    destruct (y =? x) eqn:E.
    + apply Z.eqb_eq in E. subst y.
      rewrite (IH (pre ++ [x]) x (k + 1) (cnt + 1) fuel) by (try rewrite len_snoc; cbn in Hf; lia).
      f_equal. f_equal; lia.
    + f_equal. f_equal; lia.
Qed.

Theorem ordered_left_map_result_size_correct left right :
  ordered_left_map_result_size left right = Ok (left_size_spec left right).
Proof.
  unfold ordered_left_map_result_size, left_size_spec.
  destruct left as [|x lt]; [reflexivity|].
  destruct right as [|y rt].
  - replace (0 <? len (x :: lt)) with true by (symmetry; apply Z.ltb_lt; rewrite len_cons; pose proof (len_nonneg lt); lia).
    cbn [len length Z.of_nat Z.ltb Z.compare andb]. f_equal; lia.
  - replace (0 <? len (x :: lt)) with true by (symmetry; apply Z.ltb_lt; rewrite len_cons; pose proof (len_nonneg lt); lia).
    replace (0 <? len (y :: rt)) with true by (symmetry; apply Z.ltb_lt; rewrite len_cons; pose proof (len_nonneg rt); lia).
    cbn [andb].
    rewrite !get_head. cbn [bind].
    destruct (x <? y); [reflexivity|]. destruct (y <? x); [reflexivity|].
    pose proof (run_count_spec 112 113 lt [] x 0 1 (S (length (x :: lt))) eq_refl ltac:(cbn; lia)) as H1.
    pose proof (run_count_spec 114 115 rt [] y 0 1 (S (length (y :: rt))) eq_refl ltac:(cbn; lia)) as H2.
    cbn [app] in H1, H2. rewrite H1. cbn [bind]. rewrite H2. cbn [bind]. f_equal.
Qed.

(* what the code returns is not the size of the left join (the test suite pins the value 4 for this input) *)
Theorem ordered_left_map_result_size_is_not_join_size_refuted :
  exists left right, sorted left /\ sorted right /\
    ordered_left_map_result_size left right <> Ok (left_join_size left right).
Proof.
  exists [1;1;2;2;3;5;5;5;6;8], [1;1;2;3;5;5;6;7;8;8;8].
  split; [apply sortedb_sorted; reflexivity|]. split; [apply sortedb_sorted; reflexivity|].
  vm_compute. discriminate.
Qed.

(* ------------------------------------------------------------------ outer size *)
Lemma count_up_spec n : forall fuel i sz, (Z.to_nat (n - i) < fuel)%nat ->
  count_up fuel n i sz = Ok (sz + Z.max 0 (n - i)).
Proof.
  induction fuel as [|fuel IH]; intros i sz Hf; [lia|]. cbn [count_up].
  destruct (i <? n) eqn:E.
  - apply Z.ltb_lt in E. rewrite IH by lia. f_equal. lia.
  - apply Z.ltb_ge in E. f_equal. lia.
Qed.

Lemma outer_nil_r l : outer_size_spec l [] = len l.
Proof. destruct l; reflexivity. Qed.

Lemma outer_cons x l' y r' :
  outer_size_spec (x :: l') (y :: r') =
  1 + (if x <? y then outer_size_spec l' (y :: r')
       else if y <? x then outer_size_spec (x :: l') r' else outer_size_spec l' r').
Proof. reflexivity. Qed.

Lemma outer_main_spec F : forall n l r lpre rpre i j sz fuel,
  (length l + length r <= n)%nat -> (n < fuel)%nat -> len lpre = i -> len rpre = j ->
  (length l + length r < F)%nat ->
  (do '(i', j', sz') <- outer_main fuel (lpre ++ l) (rpre ++ r) i j sz;
   do sz1 <- count_up F (len (lpre ++ l)) i' sz';
   count_up F (len (rpre ++ r)) j' sz1) = Ok (sz + outer_size_spec l r).
Proof.
  induction n as [|n IH]; intros l r lpre rpre i j sz fuel Hn Hf Hi Hj HF;
    (destruct fuel as [|fuel]; [lia|]); cbn [outer_main].
  - destruct l; [|cbn in Hn; lia]. destruct r; [|cbn in Hn; lia].
    rewrite (ltb_len_nil lpre i Hi). cbn [andb bind].
    rewrite count_up_spec by (rewrite app_nil_r; lia). cbn [bind].
    rewrite count_up_spec by (rewrite app_nil_r; lia). rewrite !app_nil_r. cbn [outer_size_spec len length Z.of_nat].
    f_equal. lia.
  - destruct l as [|x l'].
    + rewrite (ltb_len_nil lpre i Hi). cbn [andb bind].
      rewrite count_up_spec by (rewrite app_nil_r; lia). cbn [bind].
      rewrite count_up_spec by (rewrite len_app; cbn in HF; unfold len in *; lia).
      cbn [outer_size_spec]. rewrite app_nil_r, len_app. f_equal. pose proof (len_nonneg r). lia.
    + rewrite (ltb_len_cons lpre x l' i Hi). cbn [andb].
      destruct r as [|y r'].
      * rewrite (ltb_len_nil rpre j Hj). cbn [bind].
        rewrite count_up_spec by (rewrite len_app; cbn in HF; unfold len in *; cbn [length]; lia). cbn [bind].
        rewrite count_up_spec by (rewrite app_nil_r; lia).
        rewrite outer_nil_r, app_nil_r, len_app. f_equal. pose proof (len_nonneg (x :: l')). lia.
      * rewrite (ltb_len_cons rpre y r' j Hj).
        rewrite (get_mid 120 lpre x l' i Hi), (get_mid 121 rpre y r' j Hj). cbn [bind].
        rewrite outer_cons. cbn [length] in Hn, HF.
        destruct (x <? y).
        { rewrite <- (app_snoc lpre x l').
          rewrite (IH l' (y :: r') (lpre ++ [x]) rpre (i + 1) j (sz + 1) fuel); try (cbn [length]; lia);
            try (rewrite len_snoc; lia). f_equal. lia. }
        destruct (y <? x).
        { rewrite <- (app_snoc rpre y r').
          rewrite (IH (x :: l') r' lpre (rpre ++ [y]) i (j + 1) (sz + 1) fuel); try (cbn [length]; lia);
            try (rewrite len_snoc; lia). f_equal. lia. }
        rewrite <- (app_snoc lpre x l'), <- (app_snoc rpre y r').
        rewrite (IH l' r' (lpre ++ [x]) (rpre ++ [y]) (i + 1) (j + 1) (sz + 1) fuel); try (cbn [length]; lia);
          try (rewrite len_snoc; lia). f_equal. lia.
Qed.

Theorem ordered_outer_map_result_size_both_unique_correct left right fuel :
  (outer_fuel left right <= fuel)%nat ->
  ordered_outer_map_result_size_both_unique fuel left right = Ok (outer_size_spec left right).
Proof.
  intros Hf. unfold ordered_outer_map_result_size_both_unique, outer_fuel in *.
  pose proof (outer_main_spec fuel (length left + length right) left right [] [] 0 0 0 fuel
                ltac:(lia) ltac:(lia) eq_refl eq_refl ltac:(lia)) as H.
  cbn [app] in H. rewrite H. f_equal.
Qed.

(* ------------------------------------------------------------------ ordered_get_last_as_filter *)
Fixpoint neq_body (l:list Z) : list Z :=
  match l with
  | [] => []
  | x :: t => match t with [] => [] | y :: _ => (if x =? y then 0 else 1) :: neq_body t end
  end.

Lemma last_spec_body x t : last_spec (x :: t) = neq_body (x :: t) ++ [1].
Proof.
  revert x. induction t as [|y t IH]; intros x; [reflexivity|].
  change (last_spec (x :: y :: t)) with ((if x =? y then 0 else 1) :: last_spec (y :: t)).
  change (neq_body (x :: y :: t)) with ((if x =? y then 0 else 1) :: neq_body (y :: t)).
  rewrite IH. reflexivity.
Qed.

Lemma ogl_loop_spec : forall t x fpre done rest i,
  len fpre = i -> len done = i -> length rest = length (x :: t) ->
  ogl_loop (length t) (fpre ++ x :: t) (done ++ rest) i =
  Ok (done ++ neq_body (x :: t) ++ skipn (length t) rest).
Proof.
  induction t as [|y t IH]; intros x fpre done rest i Hf Hd Hr; cbn [ogl_loop length].
  - cbn [neq_body skipn app]. reflexivity.
  - rewrite (get_mid 140 fpre x (y :: t) i Hf).
    rewrite <- (app_snoc fpre x (y :: t)).
    rewrite (get_mid 141 (fpre ++ [x]) y t (i + 1)) by (rewrite len_snoc; lia). cbn [bind].
    destruct rest as [|r0 rest']; [cbn in Hr; lia|].
    rewrite (set_mid 142 done r0 rest' i _ Hd). cbn [bind].
    rewrite <- (app_snoc done _ rest').
    rewrite (IH y (fpre ++ [x]) (done ++ [if x =? y then 0 else 1]) rest' (i + 1));
      try (rewrite len_snoc; lia); [|cbn in Hr; cbn; lia].
    change (neq_body (x :: y :: t)) with ((if x =? y then 0 else 1) :: neq_body (y :: t)).
    rewrite <- app_assoc. reflexivity.
Qed.

Lemma skipn_repeat_last n : skipn n (repeat 0 (S n)) = [0].
Proof. induction n as [|n IH]; [reflexivity|]. exact IH. Qed.

Lemma ogl_nonempty fixed x t :
  ordered_get_last_as_filter fixed (x :: t) = Ok (last_spec (x :: t)).
Proof.
  unfold ordered_get_last_as_filter, zeros.
  replace (Z.to_nat (len (x :: t) - 1)) with (length t) by (unfold len; cbn [length]; lia).
  replace (Z.to_nat (len (x :: t))) with (S (length t)) by (unfold len; cbn [length]; lia).
  pose proof (ogl_loop_spec t x [] [] (repeat 0 (S (length t))) 0 eq_refl eq_refl) as H.
  cbn [app] in H. rewrite H by (rewrite repeat_length; reflexivity). cbn [bind].
  replace (0 <? len (x :: t)) with true by (symmetry; apply Z.ltb_lt; rewrite len_cons; pose proof (len_nonneg t); lia).
  rewrite andb_false_r. rewrite skipn_repeat_last.
  rewrite (set_mid 143 (neq_body (x :: t)) 0 []) by (rewrite len_snoc; lia).
  rewrite last_spec_body. reflexivity.
Qed.

Theorem ordered_get_last_as_filter_correct field :
  ordered_get_last_as_filter true field = Ok (last_spec field).
Proof. destruct field as [|x t]; [reflexivity|apply ogl_nonempty]. Qed.

Theorem ordered_get_last_as_filter_orig_nonempty field : field <> [] ->
  ordered_get_last_as_filter false field = Ok (last_spec field).
Proof. destruct field as [|x t]; [congruence|intros _; apply ogl_nonempty]. Qed.

(* F-C10a: the code as found writes result[-1] of a zero-length buffer *)
Theorem ordered_get_last_as_filter_orig_empty_oob_refuted :
  ordered_get_last_as_filter false [] = OOB 143.
Proof. reflexivity. Qed.

(* ------------------------------------------------------------------ foreign keys *)
Lemma fk_loop_spec pk : forall fk done rest i, len done = i -> length rest = length fk ->
  fk_loop pk fk (done ++ rest) i = Ok (done ++ fk_spec pk fk).
Proof.
  induction fk as [|f t IH]; intros done rest i Hd Hr; cbn [fk_loop fk_spec map].
  - destruct rest; [reflexivity|cbn in Hr; lia].
  - destruct rest as [|r0 rest']; [cbn in Hr; lia|].
    rewrite (set_mid 180 done r0 rest' i _ Hd). cbn [bind].
    rewrite <- (app_snoc done _ rest'). rewrite (IH (done ++ [_]) rest' (i + 1)); try (rewrite len_snoc; lia);
      [|cbn in Hr; lia].
    rewrite <- app_assoc. reflexivity.
Qed.

Theorem foreign_key_is_in_primary_key_correct pk fk :
  foreign_key_is_in_primary_key pk fk = Ok (fk_spec pk fk).
Proof.
  unfold foreign_key_is_in_primary_key, zeros.
  apply (fk_loop_spec pk fk [] (repeat 0 (Z.to_nat (len fk))) 0 eq_refl).
  rewrite repeat_length. unfold len. lia.
Qed.

(* ------------------------------------------------------------------ duplicates *)
Lemma fdf_loop_spec : forall l fpre done rest seen i,
  len fpre = i -> len done = i -> length rest = length l ->
  fdf_loop (length l) (fpre ++ l) (done ++ rest) seen i = Ok (done ++ dup_spec seen l).
Proof.
  induction l as [|x t IH]; intros fpre done rest seen i Hf Hd Hr; cbn [fdf_loop length dup_spec].
  - destruct rest; [reflexivity|cbn in Hr; lia].
  - destruct rest as [|r0 rest']; [cbn in Hr; lia|].
    rewrite (get_mid 185 fpre x t i Hf). cbn [bind].
    change (memZ x seen) with (memZ_spec x seen).
    destruct (memZ_spec x seen).
    + rewrite (set_mid 186 done r0 rest' i _ Hd). cbn [bind].
      rewrite <- (app_snoc fpre x t), <- (app_snoc done 0 rest').
      rewrite (IH (fpre ++ [x]) (done ++ [0]) rest' seen (i + 1)); try (rewrite len_snoc; lia); [|cbn in Hr; lia].
      rewrite <- app_assoc. reflexivity.
    + rewrite (set_mid 187 done r0 rest' i _ Hd). cbn [bind].
      rewrite <- (app_snoc fpre x t), <- (app_snoc done 1 rest').
      rewrite (IH (fpre ++ [x]) (done ++ [1]) rest' (x :: seen) (i + 1)); try (rewrite len_snoc; lia); [|cbn in Hr; lia].
      rewrite <- app_assoc. reflexivity.
Qed.

Theorem filter_duplicate_fields_correct field :
  filter_duplicate_fields field = Ok (dup_spec [] field).
Proof.
  unfold filter_duplicate_fields.
  apply (fdf_loop_spec field [] [] (repeat 1 (length field)) [] 0 eq_refl eq_refl).
  apply repeat_length.
Qed.

(* meaning: row i is kept iff its value does not occur before it *)
Lemma dup_spec_meaning : forall l seen i, 0 <= i < len l ->
  nthZ (dup_spec seen l) i = (if memZ_spec (nthZ l i) (seen ++ firstn (Z.to_nat i) l) then 0 else 1).
Proof.
  induction l as [|x t IH]; intros seen i Hi; [unfold len in Hi; cbn in Hi; lia|].
  rewrite len_cons in Hi. cbn [dup_spec].
  destruct (Z.eq_dec i 0) as [->|Hne].
  - cbn [Z.to_nat firstn]. rewrite app_nil_r. unfold nthZ. rewrite nthd_cons_0.
    destruct (memZ_spec x seen); reflexivity.
  - replace i with ((i - 1) + 1) by lia. unfold nthZ in *.
    rewrite (nthd_cons_succ 0 x t (i - 1)) by lia.
    replace (Z.to_nat (i - 1 + 1)) with (S (Z.to_nat (i - 1))) by lia. cbn [firstn].
    assert (Hmem : forall s, memZ_spec (nthd 0 t (i - 1)) (s ++ x :: firstn (Z.to_nat (i - 1)) t) =
                             memZ_spec (nthd 0 t (i - 1)) ((x :: s) ++ firstn (Z.to_nat (i - 1)) t)).
    { intros s. unfold memZ_spec. set (f := Z.eqb (nthd 0 t (i - 1))). cbn [app existsb]. rewrite !existsb_app. cbn [existsb].
      destruct (f x); destruct (existsb f s); destruct (existsb f (firstn (Z.to_nat (i - 1)) t)); reflexivity. }
    destruct (memZ_spec x seen) eqn:E.
    + rewrite (nthd_cons_succ 0 0 _ (i - 1)) by lia. rewrite IH by lia.
      rewrite Hmem. unfold memZ_spec in *. cbn [app existsb]. rewrite !existsb_app.
      destruct (nthd 0 t (i - 1) =? x) eqn:Ex; [|reflexivity].
      apply Z.eqb_eq in Ex. rewrite Ex. cbn [orb]. rewrite E. reflexivity.
    + rewrite (nthd_cons_succ 0 1 _ (i - 1)) by lia. rewrite IH by lia. rewrite Hmem. reflexivity.
Qed.

(* ------------------------------------------------------------------ flags *)
Lemma fold_count (p:Z -> bool) : forall (l:list Z) (acc:Z),
  fold_left (fun (count f:Z) => if p f then count + 1 else count) l acc = acc + count_if p l.
Proof.
  induction l as [|x t IH]; intros acc; cbn [fold_left]; unfold count_if in *; cbn [filter].
  - rewrite len_nil. lia.
  - rewrite IH. destruct (p x); [rewrite len_cons|]; lia.
Qed.

Theorem count_flag_empty_correct flags : count_flag_empty flags = count_if (fun f => f =? 0) flags.
Proof. unfold count_flag_empty. rewrite (fold_count (fun f => f =? 0)). lia. Qed.

Theorem count_flag_not_set_correct flags flag :
  count_flag_not_set flags flag = count_if (fun f => Z.land f flag =? 0) flags.
Proof. unfold count_flag_not_set. rewrite (fold_count (fun f => Z.land f flag =? 0)). lia. Qed.

Theorem count_flag_set_correct flags flag :
  count_flag_set flags flag = count_if (fun f => negb (Z.land f flag =? 0)) flags.
Proof. unfold count_flag_set. rewrite (fold_count (fun f => negb (Z.land f flag =? 0))). lia. Qed.
