(* Proofs/GroupEmbed.v — C07: the group-wise reference sees the keys only through comparisons.

   The harness turns an order type (small integer ranks per key column) into concrete key values: integers at
   both ends of every dtype, values beyond 2^53, fixed / indexed strings that differ only in trailing blanks,
   control characters, case or high bytes.  For ANY map f of key values that preserves the comparison
   (kle' (f a) (f b) = kle a b — an order embedding), the groups of the mapped keys are the mapped groups, every
   group has the same members in the same order, hence every aggregate column (count, first, last, min, max, ...)
   is the same.  So a group-by whose result on some concrete key values is not the image of its result on their
   ranks breaks the property (this is how key-value-dependent shortcuts — comparisons after stripping, after a
   cast to float64 — are caught from rank-level cases). *)
From Coq Require Import ZArith List Bool Lia.
From EV Require Import Res Arr StableSort Spans SpansSpec FilterIndex FilterIndexSpec Group GroupSpec.
Import ListNotations.
Open Scope Z_scope.

Section Embed.
Context {K K':Type}.
Variable kle : K -> K -> bool.
Variable kle' : K' -> K' -> bool.
Variable f : K -> K'.
Hypothesis f_embeds : forall a b, kle' (f a) (f b) = kle a b.

Lemma insert_uniq_embed r l : insert_uniq kle' (f r) (map f l) = map f (insert_uniq kle r l).
Proof.
  induction l as [|x t IH]; [reflexivity|].
  cbn [map insert_uniq]. rewrite !f_embeds.
  destruct (kle r x); [destruct (kle x r); reflexivity|]. cbn [map]. rewrite IH. reflexivity.
Qed.

Lemma groups_by_embed keys : groups_by kle' (map f keys) = map f (groups_by kle keys).
Proof.
  unfold groups_by. induction keys as [|k t IH]; [reflexivity|].
  cbn [map fold_right]. rewrite IH. apply insert_uniq_embed.
Qed.

Lemma members_by_embed {A} k keys (vals:list A) :
  members_by kle' (f k) (map f keys) vals = members_by kle k keys vals.
Proof.
  unfold members_by. revert vals. induction keys as [|x t IH]; intros vals; [reflexivity|].
  destruct vals as [|v vs]; [reflexivity|].
  cbn [map combine filter fst].
  assert (He : keqb kle' (f x) (f k) = keqb kle x k) by (unfold keqb; rewrite !f_embeds; reflexivity).
  rewrite He. destruct (keqb kle x k); cbn [map snd]; rewrite IH; reflexivity.
Qed.

Theorem agg_by_embed {A B} (g:list A -> B) keys (vals:list A) :
  agg_by kle' g (map f keys) vals = agg_by kle g keys vals.
Proof.
  unfold agg_by. rewrite groups_by_embed, map_map.
  apply map_ext. intros k. rewrite members_by_embed. reflexivity.
Qed.
End Embed.

(* key tuples: a cell-wise map that preserves the cell comparison preserves the lexicographic row comparison *)
Lemma lex_le_map (c:cell -> cell) :
  (forall a b, cell_le (c a) (c b) = cell_le a b) ->
  forall r1 r2, rowle (map c r1) (map c r2) = rowle r1 r2.
Proof.
  intros Hc. unfold rowle. induction r1 as [|a t IH]; intros r2; destruct r2 as [|b u]; try reflexivity.
  cbn [map lex_le]. rewrite !Hc, IH. reflexivity.
Qed.

(* the statement used by the harness: group-wise aggregates of key ROWS are invariant under a cell embedding *)
Theorem agg_ref_key_embedding_pf : forall (c:cell -> cell) {A B} (g:list A -> B) kr (vals:list A),
  (forall a b, cell_le (c a) (c b) = cell_le a b) ->
  agg_ref g (map (map c) kr) vals = agg_ref g kr vals /\
  groups (map (map c) kr) = map (map c) (groups kr).
Proof.
  intros c A B g kr vals Hc. split.
  - unfold agg_ref. apply (agg_by_embed rowle rowle (map c) (lex_le_map c Hc)).
  - unfold groups. apply (groups_by_embed rowle rowle (map c) (lex_le_map c Hc)).
Qed.
