(* Proofs/FlagFormP.v — the dispatch of the Session merges depends on the truth value of a hint only, not on its type
   form, exactly when the hint is compared by value; the identity test is refuted (F-C19g). *)
From Coq Require Import ZArith List Bool Lia.
From EV Require Import Res Arr Join JoinSpec MapStream SessionMerge SessionMergeSpec SessionMergeTyped FlagForm
  SessionMergeInner SessionMergeInnerTop.
Import ListNotations.
Open Scope Z_scope.

Lemma hint_by_value_denotes f b : flag_denotes f b -> hint_by_value f = b.
Proof.
  unfold hint_by_value; destruct f as [c|c|z|z|c]; cbn [flag_denotes py_eq_False]; intro H; subst.
  - apply negb_involutive.
  - apply negb_involutive.
  - destruct b; reflexivity.
  - destruct b; reflexivity.
  - apply negb_involutive.
Qed.

Lemma hint_by_identity_python_bool b : hint_by_identity (PyBool b) = b.
Proof. destruct b; reflexivity. Qed.

Lemma hint_by_identity_wrong : exists f, flag_denotes f false /\ hint_by_identity f = true.
Proof. exists (NpBool false). split; reflexivity. Qed.

(* every non-singleton form of False is taken for True by the identity test *)
Lemma hint_by_identity_only_singleton f : flag_denotes f false -> f <> PyBool false -> hint_by_identity f = true.
Proof.
  destruct f as [c|c|z|z|c]; cbn [flag_denotes]; intros H N; try reflexivity.
  subst c. exfalso; apply N; reflexivity.
Qed.

Lemma wire_python_bool z : 0 <= z < 10 -> hint_by_value (flag_of_wire z) = negb (z =? 0).
Proof.
  intro H. unfold flag_of_wire. destruct (z <? 10) eqn:E; [|lia].
  unfold hint_by_value; cbn [py_eq_False]. apply negb_involutive.
Qed.

Lemma oml_pf_forms ver cs L R srcs fm sinks0 mk fl fr bl br :
  flag_denotes fl bl -> flag_denotes fr br ->
  ordered_merge_left_pf ver cs L R srcs fm sinks0 mk fl fr = ordered_merge_left ver cs L R srcs fm sinks0 mk bl br.
Proof. intros Hl Hr. unfold ordered_merge_left_pf. rewrite (hint_by_value_denotes _ _ Hl), (hint_by_value_denotes _ _ Hr). reflexivity. Qed.

Lemma oml_t_pf_forms cs L R srcs fm dts sinks0 mk fl fr bk bl br :
  flag_denotes fl bl -> flag_denotes fr br ->
  ordered_merge_left_t_pf cs L R srcs fm dts sinks0 mk fl fr bk = ordered_merge_left_t cs L R srcs fm dts sinks0 mk bl br bk.
Proof. intros Hl Hr. unfold ordered_merge_left_t_pf. rewrite (hint_by_value_denotes _ _ Hl), (hint_by_value_denotes _ _ Hr). reflexivity. Qed.

Lemma omi_pf_forms L R ls rs fm ls0 rs0 fl fr bl br :
  flag_denotes fl bl -> flag_denotes fr br ->
  ordered_merge_inner_pf L R ls rs fm ls0 rs0 fl fr = ordered_merge_inner L R ls rs fm ls0 rs0 bl br.
Proof. intros Hl Hr. unfold ordered_merge_inner_pf. rewrite (hint_by_value_denotes _ _ Hl), (hint_by_value_denotes _ _ Hr). reflexivity. Qed.

(* F-C19g: the as-found identity dispatch of ordered_merge_inner, left key [1;1;2] truthfully flagged np.False_ *)
Lemma omi_found_refuted :
  exists fl fr, flag_denotes fl false /\ flag_denotes fr true /\
  ordered_merge_inner_pf_found [1;1;2] [1;2] [[101;102;103]] [[601;602]] FArr [] [] fl fr <>
  ordered_merge_inner [1;1;2] [1;2] [[101;102;103]] [[601;602]] FArr [] [] false true.
Proof.
  exists (NpBool false), (NpBool true). split; [reflexivity|]. split; [reflexivity|].
  vm_compute. discriminate.
Qed.

(* ------------------------------------------------------------------ key columns of two integer dtypes *)
From EV Require Import SessionMergeTypedP.

Lemma cast_keys_fits a b R : int_like a = true -> (forall v, In v R -> fits b v) -> cast_keys a b R = R.
Proof.
  intros Ha H. unfold cast_keys. rewrite <- (map_id R) at 2. apply map_ext_in. intros v Hv.
  rewrite (cast_fits a b v Ha (H v Hv)). reflexivity.
Qed.

(* the class of seeded/C19-r3-1: left int32 [1;2;7;7;9], right int64 [1;2;2^32+7;2^33] *)
Lemma cast_keys_changes_the_join :
  left_payload 0 [1;2;7;7;9] (cast_keys (DInt 64) (DInt 32) [1;2;4294967303;8589934592]) [11;22;33;44] <>
  left_payload 0 [1;2;7;7;9] [1;2;4294967303;8589934592] [11;22;33;44].
Proof. vm_compute. discriminate. Qed.
