(* Proofs/JoinIface.v — what a kernel kind must prove (KindOK), stated against global row
   indices, so that the generic driver proof (JoinDriver.v) can carry it across chunk
   refills and buffer flushes. *)
From Coq Require Import ZArith List Lia Bool ZifyBool.
From EV Require Import Res Arr Join JoinSpec JoinBase.
Import ListNotations.
Open Scope Z_scope.

(* the resume sub-state of the general FSM *)
Record sub := mksub { s_ii : Z; s_jj : Z; s_iimax : Z; s_jjmax : Z; s_inner : bool }.
Definition sub_of (s:fsm) : sub := mksub (fii s) (fjj s) (fiimax s) (fjjmax s) (finner s).

Definition unmatched (inv a b:Z) : list (Z * Z) := map (fun x => (x, inv)) (seqZ a (b - a)).

Section Iface.
Variables (k:kind) (emit:bool) (L R:list Z) (inv cs:Z).

Definition wl : bool := v_writes_l (mkvar k emit).
Definition ltrim : bool := v_ltrim (mkvar k emit).
Definition rtrim : bool := v_rtrim (mkvar k emit).

(* the window a kernel call sees *)
Definition Win (p:kparams) (la lb ra rb:Z) : Prop :=
  kinv p = inv /\
  ki_off p = la /\ ki_max p = lb - la /\ chunk_ok ltrim L cs la lb (kleft p) /\
  kj_off p = ra /\ kj_max p = rb - ra /\ chunk_ok rtrim R cs ra rb (kright p).

Definition Buf (s:fsm) : Prop :=
  len (lres s) = cs /\ len (rres s) = cs /\ 0 <= fr s <= cs.

Definition Pos (p:kparams) (s:fsm) : Prop :=
  0 <= fi s <= ki_max p /\ 0 <= fj s <= kj_max p /\
  (finner s = true -> fi s < ki_max p /\ fj s < kj_max p).

(* everything emitted so far: flushed output ++ the first r buffer entries *)
Definition OutRel (ol orr:list Z) (s:fsm) (O:list (Z * Z)) : Prop :=
  orr ++ slice (rres s) 0 (fr s) = map snd O /\
  (if wl then ol ++ slice (lres s) 0 (fr s) = map fst O else ol = []).

Definition kmeas (p:kparams) (s:fsm) : Z :=
  2 * (ki_max p - fi s) + 2 * (kj_max p - fj s) + 2 * (cs - fr s) + (if finner s then 0 else 1).

Record KindOK : Type := mkKindOK {
  Abs : Z -> Z -> sub -> list (Z * Z) -> Prop;
  Loc : fsm -> Prop;
  Loc_init : forall s, fr s = 0 -> 0 <= fi s -> 0 <= fj s -> Loc s;
  Abs_init : Abs 0 0 (mksub 0 0 (-1) (-1) false) [];
  Abs_len : forall I J sb O, Abs I J sb O -> 0 <= I <= len L -> 0 <= J <= len R ->
            len O <= len L * len R + len L + len R;
  kstep_ok : forall p la lb ra rb s ol orr O,
    Win p la lb ra rb -> Buf s -> Pos p s -> Loc s ->
    Abs (la + fi s) (ra + fj s) (sub_of s) O -> OutRel ol orr s O ->
    (kstep k emit p s = Ok None /\
     (fi s >= ki_max p \/ fj s >= kj_max p \/ fr s >= cs))
    \/
    (exists s' O', kstep k emit p s = Ok (Some s') /\
       Buf s' /\ Pos p s' /\ Loc s' /\
       Abs (la + fi s') (ra + fj s') (sub_of s') O' /\ OutRel ol orr s' O' /\
       fi s <= fi s' /\ fj s <= fj s' /\ fr s <= fr s' /\
       kmeas p s' < kmeas p s /\
       (* progress: some counter advanced, or the inner block was just entered *)
       (fi s + fj s + fr s < fi s' + fj s' + fr s' \/
        (finner s = false /\ finner s' = true /\ fi s' = fi s /\ fj s' = fj s /\ fr s' = fr s)));
  Abs_final : forall I J sb O, Abs I J sb O -> s_inner sb = false ->
    0 <= I <= len L -> 0 <= J <= len R -> (I = len L \/ J = len R) ->
    O ++ (if emit then unmatched inv I (len L) else []) = join_spec emit inv L R;
  (* E3 (C12): whatever has been emitted so far is a prefix of the final join, hence
     len O <= len (join_spec ...) — the basis of the LINEAR bound on driver iterations *)
  Abs_prefix : forall I J sb O, Abs I J sb O -> 0 <= I <= len L -> 0 <= J <= len R ->
    exists rest, join_spec emit inv L R = O ++ rest
}.

End Iface.
