(* Proofs/MapStreamFixed.v — ordered_map_valid_stream (code after the C04 fixes, version Fixed0: old kernels, non-decreasing maps; used by MapStreamOrig; the final code is in MapStreamGen.v) = map_spec, for every
   invalid marker, every chunk size >= 1, every element type; and the fuel bound. *)
From Coq Require Import ZArith List Lia Bool.
From EV Require Import Res Arr MapStream MapStreamSpec MapStreamBase.
Import ListNotations.
Open Scope Z_scope.

Lemma skipn_add {A} (l:list A) x y : skipn x (skipn y l) = skipn (y + x) l.
Proof.
  revert l. induction y as [|y IH]; intros l; [reflexivity|].
  destruct l; [rewrite !skipn_nil; reflexivity|]. cbn [skipn Nat.add]. apply IH.
Qed.

Lemma skipn_slice_skipn {A} (l:list A) a b : 0 <= a -> a <= b -> b <= len l ->
  skipn (Z.to_nat a) l = slice l a b ++ skipn (Z.to_nat b) l.
Proof.
  intros Ha Hab Hb. unfold slice.
  rewrite <- (firstn_skipn (Z.to_nat (b - a)) (skipn (Z.to_nat a) l)) at 1.
  f_equal. rewrite skipn_add. f_equal. lia.
Qed.

Section StreamProof.
Context {A:Type}.
Variables (zfill empty : A).
Variable data : list A.
Variable inv : Z.

Definition fval (k:Z) : A := if k =? inv then empty else nthd empty data k.

Lemma map_spec_fval m : map_spec empty data inv m = map fval m.
Proof. reflexivity. Qed.

(* the kernel loop writes result[i] = f(map[i]) for i in [sm, sm_end) and nothing else *)
Lemma omv_partial_loop_spec fuel values map_values d_start sm_end :
  forall sm result,
  0 <= sm -> sm <= sm_end -> sm_end <= len map_values -> sm_end <= len result ->
  (Z.to_nat (sm_end - sm) < fuel)%nat ->
  (forall i, sm <= i < sm_end -> nthZ map_values i <> inv ->
      0 <= nthZ map_values i - d_start < len values /\
      nthd empty values (nthZ map_values i - d_start) = nthd empty data (nthZ map_values i)) ->
  exists r', omv_partial_loop fuel values map_values sm sm_end d_start result inv empty = Ok (sm_end, r') /\
             len r' = len result /\
             forall i, 0 <= i ->
               nthd empty r' i = if (sm <=? i) && (i <? sm_end) then fval (nthZ map_values i) else nthd empty result i.
Proof.
  induction fuel as [|f IH]; intros sm result Hs Hse He Hr Hf Hv; [lia|].
  cbn [omv_partial_loop]. destruct (sm <? sm_end) eqn:E.
  - rewrite (getZ_ok 121 map_values sm) by lia. cbn [bind].
    set (x := fval (nthZ map_values sm)).
    assert (Hset : (if nthZ map_values sm =? inv then set 122 result sm empty
                    else do x0 <- get 123 values (nthZ map_values sm - d_start); set 124 result sm x0)
                   = Ok (upd result sm x)).
    { unfold x, fval. destruct (nthZ map_values sm =? inv) eqn:E2.
      - apply set_ok. lia.
      - destruct (Hv sm) as [Hb Heq]; [lia|lia|].
        rewrite (get_ok 123 empty values) by lia. cbn [bind]. rewrite Heq. apply set_ok. lia. }
    rewrite Hset. cbn [bind].
    destruct (IH (sm + 1) (upd result sm x)) as [r' [H1 [H2 H3]]]; try lia.
    { rewrite len_upd. lia. }
    { intros i Hi. apply Hv. lia. }
    exists r'. split; [exact H1|]. split; [rewrite H2; apply len_upd|].
    intros i Hi. rewrite H3 by lia.
    destruct (Z.eq_dec i sm) as [->|Hne].
    + replace ((sm + 1 <=? sm) && (sm <? sm_end)) with false by lia.
      replace ((sm <=? sm) && (sm <? sm_end)) with true by lia.
      apply nthd_upd_same. lia.
    + rewrite nthd_upd_other by lia.
      destruct ((sm + 1 <=? i) && (i <? sm_end)) eqn:E3.
      * replace ((sm <=? i) && (i <? sm_end)) with true by lia. reflexivity.
      * replace ((sm <=? i) && (i <? sm_end)) with false by lia. reflexivity.
  - exists result. replace sm with sm_end in * by lia. split; [reflexivity|]. split; [reflexivity|].
    intros i Hi. replace ((sm_end <=? i) && (i <? sm_end)) with false by lia. reflexivity.
Qed.

(* one sub-chunk of the repaired driver *)
Lemma stream_subchunk_spec map_ rd s e :
  0 <= s -> s < e -> e <= len map_ -> e <= len rd -> valid_map (len data) inv map_ ->
  exists rd', stream_subchunk zfill empty Fixed0 data map_ inv rd (s, e) = Ok rd' /\
              len rd' = len rd /\
              forall i, 0 <= i ->
                nthd empty rd' i = if (s <=? i) && (i <? e) then fval (nthZ map_ i) else nthd empty rd i.
Proof.
  intros Hs Hse He Hr [Hrange Hmono]. unfold stream_subchunk, get_valid_value_extents_v, span_kernels. cbn [fst snd].
  destruct (gve_spec map_ s e inv) as [[Ha Hg]|[i0 [j0 [H1 [H2 [H3 [Ha1 [Ha2 [Hn1 [Hn2 Hg]]]]]]]]]]; try lia.
  - rewrite Hg. cbn [bind]. rewrite Z.eqb_refl.
    exists (np_slice_fill rd s e empty). split; [reflexivity|]. split; [apply len_np_slice_fill|].
    intros i Hi. rewrite nthd_np_slice_fill by lia.
    destruct ((s <=? i) && (i <? e)) eqn:E; [|reflexivity].
    unfold fval. rewrite Ha by lia. rewrite Z.eqb_refl. reflexivity.
  - rewrite Hg. cbn [bind].
    destruct (nthZ map_ i0 =? inv) eqn:E; [lia|].
    pose proof (Hrange i0 ltac:(lia) Hn1) as Hr1.
    pose proof (Hrange j0 ltac:(lia) Hn2) as Hr2.
    pose proof (Hmono i0 j0 ltac:(lia) ltac:(lia) ltac:(lia) Hn1 Hn2) as Hm12.
    rewrite np_slice_slice by lia.
    unfold ordered_map_valid_partial.
    destruct (omv_partial_loop_spec (S (Z.to_nat (e - s))) (slice data (nthZ map_ i0) (nthZ map_ j0 + 1))
                map_ (nthZ map_ i0) e s rd) as [r' [HL [HL2 HL3]]]; try lia.
    { intros i Hi Hne.
      assert (Hi0 : i0 <= i).
      { destruct (Z_lt_dec i i0) as [Hlt|]; [|lia]. exfalso. apply Hne. apply Ha1. lia. }
      assert (Hj0 : i <= j0).
      { destruct (Z_lt_dec j0 i) as [Hlt|]; [|lia]. exfalso. apply Hne. apply Ha2. lia. }
      pose proof (Hmono i0 i ltac:(lia) ltac:(lia) ltac:(lia) Hn1 Hne).
      pose proof (Hmono i j0 ltac:(lia) ltac:(lia) ltac:(lia) Hne Hn2).
      rewrite len_slice by lia. split; [lia|].
      rewrite nthd_slice by lia. f_equal. lia. }
    rewrite HL. cbn [bind]. exists r'. split; [reflexivity|]. split; [exact HL2|exact HL3].
Qed.

(* all sub-chunks of one map chunk *)
Lemma stream_fold_spec map_ : valid_map (len data) inv map_ ->
  forall subs a rd, chain subs a (len map_) -> 0 <= a -> len map_ <= len rd ->
  exists rd', fold_res (stream_subchunk zfill empty Fixed0 data map_ inv) subs rd = Ok rd' /\
              len rd' = len rd /\
              forall i, 0 <= i ->
                nthd empty rd' i = if (a <=? i) && (i <? len map_) then fval (nthZ map_ i) else nthd empty rd i.
Proof.
  intros Hv. induction subs as [|[s e] t IH]; intros a rd Hc Ha Hl.
  - cbn [chain] in Hc. exists rd. split; [reflexivity|]. split; [reflexivity|].
    intros i Hi. replace ((a <=? i) && (i <? len map_)) with false by lia. reflexivity.
  - cbn [chain fst snd] in Hc. destruct Hc as [-> [H1 [H2 Hc]]].
    cbn [fold_res].
    destruct (stream_subchunk_spec map_ rd a e) as [rd1 [E1 [L1 P1]]]; try lia; [exact Hv|].
    rewrite E1. cbn [bind].
    destruct (IH e rd1 Hc ltac:(lia) ltac:(lia)) as [rd2 [E2 [L2 P2]]].
    exists rd2. split; [exact E2|]. split; [lia|].
    intros i Hi. rewrite P2 by lia. rewrite P1 by lia.
    destruct ((e <=? i) && (i <? len map_)) eqn:Ea.
    + replace ((a <=? i) && (i <? len map_)) with true by lia. reflexivity.
    + destruct ((a <=? i) && (i <? e)) eqn:Eb.
      * replace ((a <=? i) && (i <? len map_)) with true by lia. reflexivity.
      * replace ((a <=? i) && (i <? len map_)) with false by lia. reflexivity.
Qed.

Lemma stream_loop_spec mapf cs kfuel :
  1 <= cs -> valid_map (len data) inv mapf -> (Z.to_nat (len mapf) < kfuel)%nat ->
  forall fuel m_off rd out,
  0 <= m_off <= len mapf -> len rd = cs -> (Z.to_nat (len mapf - m_off) < fuel)%nat ->
  let e := Z.min (m_off + cs) (len mapf) in
  stream_loop zfill empty fuel kfuel Fixed0 data mapf inv cs (m_off, e) (slice mapf m_off e) (e - m_off) m_off rd out
  = Ok (out ++ map fval (skipn (Z.to_nat m_off) mapf)).
Proof.
  intros Hcs Hv Hk. induction fuel as [|f IH]; intros m_off rd out Hm Hrd Hf e; [lia|].
  cbn [stream_loop]. rewrite Z.add_0_l.
  destruct (m_off <? len mapf) eqn:E.
  - assert (He : m_off < e <= len mapf) by lia.
    set (map_ := slice mapf m_off e).
    assert (Hlm : len map_ = e - m_off) by (apply len_slice; lia).
    assert (Hvm : valid_map (len data) inv map_) by (apply valid_map_slice; try lia; exact Hv).
    unfold get_map_subchunks.
    destruct (subchunks_loop_chain kfuel Fixed0 map_ inv cs 0) as [subs [Hs Hc]]; try lia.
    rewrite Hs. cbn [bind].
    destruct (stream_fold_spec map_ Hvm subs 0 rd Hc ltac:(lia) ltac:(lia)) as [rd' [Hfo [Hl' Hp']]].
    rewrite Hfo. cbn [bind].
    cbn [snd].
    rewrite (untrimmed_chunk_spec mapf e cs) by lia. cbv zeta.
    rewrite (IH e rd' (out ++ np_slice rd' 0 (e - m_off))) by lia.
    rewrite <- app_assoc. apply f_equal. apply f_equal.
    rewrite (skipn_slice_skipn mapf m_off e) by lia. rewrite map_app.
    apply (f_equal2 (@app A)); [|reflexivity].
    rewrite np_slice_slice by lia.
    apply (list_eq_nthd empty).
    + rewrite len_slice by lia. rewrite len_map. fold map_. lia.
    + intros i Hi. rewrite len_slice in Hi by lia.
      rewrite nthd_slice by lia. rewrite Z.add_0_l. rewrite Hp' by lia.
      replace ((0 <=? i) && (i <? len map_)) with true by lia.
      fold map_. rewrite (nthd_map fval 0 empty) by lia. reflexivity.
  - replace m_off with (len mapf) by lia.
    unfold len. rewrite Nat2Z.id. rewrite skipn_all. cbn [map]. rewrite app_nil_r. reflexivity.
Qed.

Theorem map_stream_correct_gen (m:list Z) (cs:Z) (fuel:nat) :
  1 <= cs -> valid_map (len data) inv m -> (fuel >= length m + 1)%nat ->
  ordered_map_valid_stream zfill empty fuel Fixed0 data m inv cs = Ok (map_spec empty data inv m).
Proof.
  intros Hcs Hv Hf. unfold ordered_map_valid_stream.
  destruct (cs <? 0) eqn:E; [lia|].
  pose proof (len_nonneg m) as Hm0.
  rewrite (untrimmed_chunk_spec m 0 cs) by lia. cbv zeta.
  rewrite Z.add_0_l.
  pose proof (stream_loop_spec m cs fuel Hcs Hv ltac:(unfold len; lia) fuel 0 (repeat empty (Z.to_nat cs)) []
                ltac:(lia) ltac:(rewrite len_repeat; lia) ltac:(unfold len; lia)) as H.
  cbv zeta in H. rewrite Z.add_0_l, Z.sub_0_r in H. rewrite Z.sub_0_r. rewrite H.
  cbn [app skipn Z.to_nat]. reflexivity.
Qed.

End StreamProof.
