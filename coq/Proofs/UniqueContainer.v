(* Proofs/UniqueContainer.v — C14: isin depends on the test collection only through its set of
   non-None members.  FieldDataOps.apply_isin accepts a list, a set or an ndarray; a set is turned
   into a list (`list(test_elements)`: each member once, in an order the caller does not control),
   a list / ndarray may repeat members.  Whatever the container, the answer must be the same:
   stated for the specification (every carrier) and for the model of the indexed-string path. *)
From Coq Require Import ZArith List Lia Bool Sorted Permutation.
From EV Require Import Res Arr UniqueSpec Unique UniqueOrder UniqueUtf8 UniqueSort UniqueStore UniqueIsin.
Import ListNotations.
Open Scope Z_scope.

(* two test collections with the same non-None members *)
Definition same_members {A} (ts ts':list (option A)) : Prop :=
  forall a, In (Some a) ts <-> In (Some a) ts'.

Lemma in_somes {A} (a:A) l : In a (somes l) <-> In (Some a) l.
Proof.
  induction l as [|[b|] t IH]; cbn [somes In].
  - tauto.
  - rewrite IH. split; (intros [E|H]; [left; congruence|right; exact H]).
  - rewrite IH. split; [intros H; right; exact H|intros [E|H]; [discriminate|exact H]].
Qed.

Lemma existsb_same_members {A} (p:A -> bool) l l' :
  (forall a, In a l <-> In a l') -> existsb p l = existsb p l'.
Proof.
  intros H. destruct (existsb p l) eqn:E; symmetry.
  - apply existsb_exists in E. destruct E as [x [Hx Px]]. apply existsb_exists. exists x.
    split; [apply H; exact Hx|exact Px].
  - apply not_true_is_false. intros E'. apply existsb_exists in E'. destruct E' as [x [Hx Px]].
    assert (existsb p l = true) by (apply existsb_exists; exists x; split; [apply H; exact Hx|exact Px]).
    congruence.
Qed.

Section Generic.
Context {A:Type} (cmp:A -> A -> comparison).

(* the specification: any carrier, any order, any multiplicities, None entries anywhere *)
Theorem spec_isin_container_independent (xs:list A) ts ts' :
  same_members ts ts' -> spec_isin cmp xs ts = spec_isin cmp xs ts'.
Proof.
  intros H. unfold spec_isin. apply map_ext. intros x. apply existsb_same_members.
  intros a. rewrite !in_somes. apply H.
Qed.

(* removing duplicates (what a Python set does) and permuting are instances *)
Corollary spec_isin_perm (xs:list A) ts ts' :
  Permutation ts ts' -> spec_isin cmp xs ts = spec_isin cmp xs ts'.
Proof.
  intros P. apply spec_isin_container_independent. intros a. split; intros H.
  - eapply Permutation_in; [exact P|exact H].
  - eapply Permutation_in; [apply Permutation_sym; exact P|exact H].
Qed.

Corollary spec_isin_dup (xs:list A) (t:option A) ts :
  In t ts -> spec_isin cmp xs (t :: ts) = spec_isin cmp xs ts.
Proof.
  intros Hin. apply spec_isin_container_independent. intros a. cbn [In]. split.
  - intros [E|H]; [subst t; exact Hin|exact H].
  - intros H. right. exact H.
Qed.
End Generic.

Lemma same_members_map {A B} (f:A -> B) (ts ts':list (option A)) :
  same_members ts ts' -> same_members (map (option_map f) ts) (map (option_map f) ts').
Proof.
  intros H b. rewrite !in_map_iff. split; intros [[a|] [E Hin]]; cbn [option_map] in E; try discriminate;
    exists (Some a); (split; [exact E|apply H; exact Hin]).
Qed.

(* the model of the indexed-string path (np.sort of the test strings, UTF-8 encoding, binary search):
   list, set and ndarray forms of the same test values give the same flags *)
Theorem isin_indexed_container_independent (ts ts':list (option (list Z))) xs ind vals fuel fuel' :
  Forall (fun s => valid_strb s = true) (somes ts) ->
  Forall (fun s => valid_strb s = true) (somes ts') ->
  stored xs ind vals ->
  (fuel >= isin_fuel (somes ts))%nat -> (fuel' >= isin_fuel (somes ts'))%nat ->
  same_members ts ts' ->
  isin_for_indexed_string_field fuel (Some ts) ind vals
  = isin_for_indexed_string_field fuel' (Some ts') ind vals.
Proof.
  intros Hv Hv' Hst Hf Hf' Hm.
  rewrite (isin_indexed_correct ts xs ind vals fuel Hv Hst Hf).
  rewrite (isin_indexed_correct ts' xs ind vals fuel' Hv' Hst Hf').
  f_equal. apply spec_isin_container_independent. apply same_members_map. exact Hm.
Qed.
