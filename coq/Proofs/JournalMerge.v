(* Proofs/JournalMerge.v — compare_*_rows_for_journalling and merge_*journalled_entries*
   over the entries of W (Proofs/JournalWalk.v). *)
From Coq Require Import ZArith List Lia Bool Sorted.
From EV Require Import Res Arr Journal JournalSpec JournalBase JournalWalk.
Import ListNotations.
Open Scope Z_scope.

(* ---- small array facts ---------------------------------------------------------------- *)
Lemma upd_nat_same {A:Type} (d:A) (l:list A) n : (n < length l)%nat -> upd_nat l n (nth n l d) = l.
Proof.
  revert n; induction l as [|x l IH]; intros n H; cbn [length] in H; [lia|].
  destruct n; cbn [upd_nat nth]; [reflexivity|]. f_equal. apply IH. lia.
Qed.

Lemma upd_same {A:Type} (d:A) (l:list A) i : 0 <= i < len l -> upd l i (nthd d l i) = l.
Proof. intros H. unfold upd, nthd, len in *. apply upd_nat_same. lia. Qed.

Lemma get_nth {A:Type} site (l:list A) t d : (t < length l)%nat -> get site l (Z.of_nat t) = Ok (nth t l d).
Proof.
  intros H. rewrite (get_ok site d) by (unfold len; lia). unfold nthd. rewrite Nat2Z.id. reflexivity.
Qed.

Lemma get_map {A:Type} (f:A -> Z) site (l:list A) t d : (t < length l)%nat ->
  get site (map f l) (Z.of_nat t) = Ok (f (nth t l d)).
Proof.
  intros H. rewrite (get_nth site (map f l) t (f d)) by (rewrite map_length; exact H). rewrite map_nth. reflexivity.
Qed.

Lemma nthZ_map_nat {A:Type} (f:A -> Z) (l:list A) t d : (t < length l)%nat ->
  nthZ (map f l) (Z.of_nat t) = f (nth t l d).
Proof.
  intros H. unfold nthZ, nthd. rewrite Nat2Z.id. rewrite (nth_indep _ 0 (f d)) by (rewrite map_length; exact H).
  apply map_nth.
Qed.

Lemma len_map {A B:Type} (f:A -> B) l : len (map f l) = len l.
Proof. unfold len. rewrite map_length. reflexivity. Qed.

Lemma list_eqb_eq a b : list_eqb a b = true <-> a = b.
Proof.
  revert b; induction a as [|x a IH]; intros [|y b]; cbn [list_eqb]; try (split; [discriminate|discriminate]); [tauto|].
  rewrite andb_true_iff, Z.eqb_eq, IH. split; [intros [-> ->]; reflexivity|intros H; inversion H; auto].
Qed.

(* ---- the to_keep update of one compared field ------------------------------------------- *)
Definition keep_step (om nm:list Z) (dif:Z -> Z -> bool) (t:Z) (b:bool) : bool :=
  if b then true
  else if nthZ om t =? -1 then true
  else if nthZ nm t =? -1 then false
  else dif (nthZ om t) (nthZ nm t).

Definition maps_ok (om nm:list Z) (no nn:Z) : Prop :=
  len nm = len om /\
  (forall t, 0 <= t < len om -> nthZ om t = -1 \/ 0 <= nthZ om t < no) /\
  (forall t, 0 <= t < len om -> nthZ nm t = -1 \/ 0 <= nthZ nm t < nn).

Lemma compare_rows_spec om nm of nf tk :
  maps_ok om nm (len of) (len nf) -> len tk = len om ->
  exists tk', compare_rows om nm of nf tk = Ok tk' /\ len tk' = len om /\
    forall t, 0 <= t < len om ->
      nthd false tk' t = keep_step om nm (fun a b => negb (nthZ of a =? nthZ nf b)) t (nthd false tk t).
Proof.
  intros (Hl & Ho & Hn) Ht. unfold compare_rows.
  pose (g := keep_step om nm (fun a b => negb (nthZ of a =? nthZ nf b))).
  destruct (for_range_pointwise false g
    (fun i tk0 => do k <- get 10 tk0 i;
       if negb k then
         do om0 <- get 11 om i;
         if om0 =? -1 then set 12 tk0 i true
         else do nm0 <- get 13 nm i;
              if nm0 =? -1 then set 14 tk0 i false
              else do a <- get 15 of om0; do b <- get 16 nf nm0; set 17 tk0 i (negb (a =? b))
       else Ok tk0) (len om)) with (k := length om) (i := 0) (tk := tk) as (tk' & Hr & Hl' & Hp); try (unfold len; lia).
  - intros i tk0 Hi Hl0. rewrite (get_ok 10 false tk0 i) by lia. cbn [bind].
    unfold g, keep_step. destruct (nthd false tk0 i) eqn:Ek; cbn [negb].
    + rewrite <- Ek. rewrite upd_same by lia. reflexivity.
    + rewrite (getZ_ok 11 om i) by lia. cbn [bind]. destruct (nthZ om i =? -1) eqn:E1.
      * apply set_ok. lia.
      * rewrite (getZ_ok 13 nm i) by lia. cbn [bind]. destruct (nthZ nm i =? -1) eqn:E2.
        -- apply set_ok. lia.
        -- apply Z.eqb_neq in E1, E2. destruct (Ho i Hi) as [|Ho']; [lia|]. destruct (Hn i Hi) as [|Hn']; [lia|].
           rewrite (getZ_ok 15 of) by lia. cbn [bind]. rewrite (getZ_ok 16 nf) by lia. cbn [bind].
           apply set_ok. lia.
  - exact Ht.
  - exists tk'. split; [exact Hr|]. split; [exact Hl'|]. intros t Ht'. rewrite (Hp t Ht').
    replace (0 <=? t) with true by (symmetry; apply Z.leb_le; lia). reflexivity.
Qed.

(* ---- indexed-string storage: decode (encode strs) = strs -------------------------------- *)
Lemma psums_from_len acc l : len (psums_from acc l) = len l + 1.
Proof. unfold len. rewrite psums_from_length. lia. Qed.

Lemma nthZ_psums_from l : forall acc p, 0 <= p <= len l ->
  nthZ (psums_from acc l) p = acc + sumZ (firstn (Z.to_nat p) l).
Proof.
  induction l as [|x l IH]; intros acc p Hp.
  - assert (p = 0) by (unfold len in Hp; cbn [length] in Hp; lia). subst. cbn. lia.
  - rewrite len_cons in Hp. cbn [psums_from]. destruct (Z.eq_dec p 0) as [->|Hne].
    + cbn. lia.
    + replace p with ((p - 1) + 1) at 1 by lia. unfold nthZ. rewrite nthd_cons_succ by lia.
      fold (nthZ (psums_from (acc + x) l) (p - 1)). rewrite IH by lia.
      replace (Z.to_nat p) with (S (Z.to_nat (p - 1))) by lia. cbn [firstn sumZ]. lia.
Qed.

Lemma sumZ_len_concat (strs:list (list Z)) : sumZ (map len strs) = len (concat strs).
Proof. induction strs as [|s t IH]; cbn [map sumZ concat]; [reflexivity|]. rewrite len_app, IH. reflexivity. Qed.

Lemma skipn_nth_cons {A:Type} (d:A) (l:list A) n : (n < length l)%nat -> skipn n l = nth n l d :: skipn (S n) l.
Proof.
  revert n; induction l as [|x l IH]; intros n H; cbn [length] in H; [lia|].
  destruct n; [reflexivity|]. cbn [skipn nth]. apply IH. lia.
Qed.

Lemma slice_mid (A s B:list Z) : slice (A ++ s ++ B) (len A) (len A + len s) = s.
Proof.
  unfold slice, len. rewrite Nat2Z.id. replace (Z.to_nat (Z.of_nat (length A) + Z.of_nat (length s) - Z.of_nat (length A))) with (length s) by lia.
  rewrite skipn_app, skipn_all, Nat.sub_diag. cbn [skipn app].
  rewrite firstn_app, firstn_all, Nat.sub_diag. cbn [firstn]. apply app_nil_r.
Qed.

Lemma sum_firstn_lens (strs:list (list Z)) n : sumZ (firstn n (map len strs)) = len (concat (firstn n strs)).
Proof. rewrite firstn_map. apply sumZ_len_concat. Qed.

Lemma firstn_succ_nth {A:Type} (d:A) (l:list A) n : (n < length l)%nat -> firstn (S n) l = firstn n l ++ [nth n l d].
Proof.
  revert n; induction l as [|x l IH]; intros n H; cbn [length] in H; [lia|].
  destruct n; [reflexivity|]. cbn [firstn nth app]. f_equal. apply IH. lia.
Qed.

(* the p-th stored string of encode strs is the p-th string *)
Lemma cell_encode (strs:list (list Z)) p : 0 <= p < len strs ->
  cell (fst (encode strs)) (snd (encode strs)) p = nthd [] strs p.
Proof.
  intros Hp. unfold encode, cell, psums. cbn [fst snd].
  rewrite !nthZ_psums_from by (rewrite len_map; lia). rewrite !Z.add_0_l, !sum_firstn_lens.
  assert (Hn : (Z.to_nat p < length strs)%nat) by (unfold len in Hp; lia).
  replace (Z.to_nat (p + 1)) with (S (Z.to_nat p)) by lia.
  rewrite (firstn_succ_nth [] strs _ Hn). rewrite concat_app. cbn [concat]. rewrite app_nil_r, len_app.
  rewrite <- (firstn_skipn (Z.to_nat p) strs) at 1. rewrite (skipn_nth_cons [] strs _ Hn).
  rewrite concat_app. cbn [concat]. unfold nthd. apply slice_mid.
Qed.

Lemma len_encode_offs strs : len (fst (encode strs)) = len strs + 1.
Proof. unfold encode, psums. cbn [fst]. rewrite psums_from_len, len_map. reflexivity. Qed.

Lemma encode_offs_nth strs p : 0 <= p <= len strs ->
  nthZ (fst (encode strs)) p = len (concat (firstn (Z.to_nat p) strs)).
Proof.
  intros Hp. unfold encode, psums. cbn [fst]. rewrite nthZ_psums_from by (rewrite len_map; lia).
  rewrite Z.add_0_l. apply sum_firstn_lens.
Qed.

Lemma encode_offs_step strs p : 0 <= p < len strs ->
  nthZ (fst (encode strs)) (p + 1) = nthZ (fst (encode strs)) p + len (nthd [] strs p).
Proof.
  intros Hp. rewrite !encode_offs_nth by lia.
  assert (Hn : (Z.to_nat p < length strs)%nat) by (unfold len in Hp; lia).
  replace (Z.to_nat (p + 1)) with (S (Z.to_nat p)) by lia.
  rewrite (firstn_succ_nth [] strs _ Hn). rewrite concat_app, len_app. cbn [concat]. rewrite app_nil_r. reflexivity.
Qed.

Lemma encode_last strs : nthZ (fst (encode strs)) (len strs) = len (snd (encode strs)).
Proof.
  rewrite encode_offs_nth by (pose proof (len_nonneg strs); lia). replace (Z.to_nat (len strs)) with (length strs) by (unfold len; lia). rewrite firstn_all. reflexivity.
Qed.

Lemma compare_indexed_rows_spec om nm (os ns:list (list Z)) tk :
  maps_ok om nm (len os) (len ns) -> len tk = len om ->
  exists tk', compare_indexed_rows om nm (fst (encode os)) (snd (encode os)) (fst (encode ns)) (snd (encode ns)) tk = Ok tk' /\
    len tk' = len om /\
    forall t, 0 <= t < len om ->
      nthd false tk' t = keep_step om nm (fun a b => negb (list_eqb (nthd [] os a) (nthd [] ns b))) t (nthd false tk t).
Proof.
  intros (Hl & Ho & Hn) Ht. unfold compare_indexed_rows.
  replace (len om =? len nm) with true by (symmetry; apply Z.eqb_eq; lia). cbn [negb].
  pose proof (len_nonneg os) as Hos. pose proof (len_nonneg ns) as Hns.
  unfold get_last. rewrite !len_encode_offs.
  rewrite (getZ_ok 20) by (rewrite len_encode_offs; lia). cbn [bind].
  replace (len os + 1 - 1) with (len os) by lia. rewrite encode_last, Z.eqb_refl. cbn [negb].
  rewrite (getZ_ok 21) by (rewrite len_encode_offs; lia). cbn [bind].
  replace (len ns + 1 - 1) with (len ns) by lia. rewrite encode_last, Z.eqb_refl. cbn [negb].
  pose (g := keep_step om nm (fun a b => negb (list_eqb (nthd [] os a) (nthd [] ns b)))).
  destruct (for_range_pointwise false g
    (fun i tk0 => do k <- get 22 tk0 i;
       if negb k then
         do om0 <- get 23 om i;
         if om0 =? -1 then set 24 tk0 i true
         else do nm0 <- get 25 nm i;
              if nm0 =? -1 then set 26 tk0 i false
              else
                do oa <- get 27 (fst (encode os)) om0;
                do ob <- get 28 (fst (encode os)) (om0 + 1);
                do na <- get 29 (fst (encode ns)) nm0;
                do nb <- get 30 (fst (encode ns)) (nm0 + 1);
                set 31 tk0 i (negb (list_eqb (slice (snd (encode os)) oa ob) (slice (snd (encode ns)) na nb)))
       else Ok tk0) (len om)) with (k := length om) (i := 0) (tk := tk) as (tk' & Hr & Hl' & Hp); try (unfold len; lia).
  - intros i tk0 Hi Hl0. rewrite (get_ok 22 false tk0 i) by lia. cbn [bind].
    unfold g, keep_step. destruct (nthd false tk0 i) eqn:Ek; cbn [negb].
    + rewrite <- Ek. rewrite upd_same by lia. reflexivity.
    + rewrite (getZ_ok 23 om i) by lia. cbn [bind]. destruct (nthZ om i =? -1) eqn:E1.
      * apply set_ok. lia.
      * rewrite (getZ_ok 25 nm i) by lia. cbn [bind]. destruct (nthZ nm i =? -1) eqn:E2.
        -- apply set_ok. lia.
        -- apply Z.eqb_neq in E1, E2. destruct (Ho i Hi) as [|Ho']; [lia|]. destruct (Hn i Hi) as [|Hn']; [lia|].
           rewrite (getZ_ok 27) by (rewrite len_encode_offs; lia). cbn [bind].
           rewrite (getZ_ok 28) by (rewrite len_encode_offs; lia). cbn [bind].
           rewrite (getZ_ok 29) by (rewrite len_encode_offs; lia). cbn [bind].
           rewrite (getZ_ok 30) by (rewrite len_encode_offs; lia). cbn [bind].
           fold (cell (fst (encode os)) (snd (encode os)) (nthZ om i)).
           fold (cell (fst (encode ns)) (snd (encode ns)) (nthZ nm i)).
           rewrite !cell_encode by lia. apply set_ok. lia.
  - exact Ht.
  - exists tk'. split; [exact Hr|]. split; [exact Hl'|]. intros t Ht'. rewrite (Hp t Ht').
    replace (0 <=? t) with true by (symmetry; apply Z.leb_le; lia). reflexivity.
Qed.

Definition dE : entry := (0, 0, 0, 0).

(* ---- the merge plan over entries --------------------------------------------------------- *)
Definition eblock (xk:entry * bool) : list src :=
  map FromOld (zrange (e_a (fst xk)) (e_old (fst xk) + 1)) ++ (if snd xk then [FromNew (e_new (fst xk))] else []).
Definition planE (E:list entry) (keep:list bool) : list src := flat_map eblock (combine E keep).

Definition ebound (no nn:Z) (x:entry) : Prop :=
  0 <= e_a x /\ (e_old x = -1 \/ (e_a x <= e_old x /\ e_old x < no)) /\ (e_new x = -1 \/ 0 <= e_new x < nn).
Definition keep_valid (E:list entry) (keep:list bool) : Prop :=
  forall xk, In xk (combine E keep) -> snd xk = true -> e_new (fst xk) <> -1.

Lemma planE_cons x E kp keep : planE (x :: E) (kp :: keep) = eblock (x, kp) ++ planE E keep.
Proof. reflexivity. Qed.

Lemma keep_valid_tail x E kp keep : keep_valid (x :: E) (kp :: keep) -> keep_valid E keep.
Proof. intros H xk Hin. apply H. right. exact Hin. Qed.

Lemma eblock_len x kp : 0 <= e_a x -> (e_old x = -1 \/ e_a x <= e_old x) ->
  len (eblock (x, kp)) = Z.max 0 (e_old x + 1 - e_a x) + (if kp then 1 else 0).
Proof.
  intros Ha Ho. unfold eblock. cbn [fst snd]. rewrite len_app, len_map, zrange_length.
  destruct kp; unfold len; cbn [length]; lia.
Qed.

Lemma planE_length oks : forall E keep cur, chain oks cur E -> Forall (fun x => 0 <= e_a x /\ (e_old x = -1 \/ (e_a x <= e_old x /\ e_old x < len oks))) E ->
  length keep = length E -> 0 <= cur <= len oks ->
  len (planE E keep) = (len oks - cur) + count_true keep.
Proof.
  induction E as [|x E IH]; intros keep cur Hc Hb Hl Hcur.
  - destruct keep; [|discriminate]. cbn [chain] in Hc. unfold planE, count_true, len. cbn [combine flat_map filter length]. unfold len in *. lia.
  - destruct keep as [|kp keep]; [discriminate|]. cbn [chain] in Hc. destruct Hc as [Ha Hc].
    inversion Hb as [|? ? (Hx1 & Hx2) Hb']; subst.
    unfold planE. cbn [combine flat_map]. rewrite len_app. fold (planE E keep).
    rewrite eblock_len by (try lia; destruct Hx2; lia).
    destruct (e_old x =? -1) eqn:Eo.
    + apply Z.eqb_eq in Eo. rewrite (IH keep (e_a x)) by (auto; cbn [length] in Hl; lia).
      unfold count_true. cbn [filter]. destruct kp; [rewrite len_cons|]; lia.
    + apply Z.eqb_neq in Eo. rewrite (IH keep (e_old x + 1)) by (auto; cbn [length] in Hl; lia).
      unfold count_true. cbn [filter]. destruct kp; [rewrite len_cons|]; lia.
Qed.

(* ---- merge_journalled_entries -------------------------------------------------------------- *)
Section MergeNum.
Variables (oks osrc nsrc:list Z).
Hypothesis Hlo : len osrc = len oks.

Definition cellnum (s:src) : Z := match s with FromOld p => nthZ osrc p | FromNew q => nthZ nsrc q end.

Lemma copy_old_spec fuel lim : forall cur d dest X,
  0 <= cur -> lim < len osrc -> 0 <= d -> d + Z.max 0 (lim + 1 - cur) <= len dest ->
  firstn (Z.to_nat d) dest = X -> Z.of_nat fuel > Z.max 0 (lim + 1 - cur) ->
  exists dest', copy_old fuel lim osrc (cur, d, dest) = Ok (Z.max cur (lim + 1), d + Z.max 0 (lim + 1 - cur), dest') /\
    len dest' = len dest /\
    firstn (Z.to_nat (d + Z.max 0 (lim + 1 - cur))) dest' = X ++ map (nthZ osrc) (zrange cur (lim + 1)).
Proof.
  induction fuel as [|f IH]; intros cur d dest X Hc Hlim Hd Hb HX Hf; [lia|].
  cbn [copy_old]. destruct (cur <=? lim) eqn:E.
  - apply Z.leb_le in E. rewrite (getZ_ok 41 osrc cur) by lia. cbn [bind].
    rewrite (set_ok 42 dest d) by lia. cbn [bind].
    destruct (IH (cur + 1) (d + 1) (upd dest d (nthZ osrc cur)) (X ++ [nthZ osrc cur])) as (dest' & Hr & Hl & HX'); try lia.
    + rewrite len_upd. lia.
    + rewrite firstn_upd_snoc by lia. rewrite HX. reflexivity.
    + exists dest'. rewrite len_upd in Hl.
      replace (Z.max cur (lim + 1)) with (Z.max (cur + 1) (lim + 1)) by lia.
      replace (d + Z.max 0 (lim + 1 - cur)) with (d + 1 + Z.max 0 (lim + 1 - (cur + 1))) by lia.
      split; [exact Hr|]. split; [exact Hl|].
      rewrite HX'. rewrite <- app_assoc. cbn [app]. rewrite (zrange_cons cur) by lia. reflexivity.
  - apply Z.leb_gt in E. exists dest. rewrite zrange_nil by lia. cbn [map]. rewrite app_nil_r.
    replace (Z.max 0 (lim + 1 - cur)) with 0 by lia. rewrite Z.add_0_r.
    replace (Z.max cur (lim + 1)) with cur by lia. auto.
Qed.

Definition mbodyL (fuel:nat) (st:Z * Z * list Z) (xk:entry * bool) : res (Z * Z * list Z) :=
  do '(cur_old, cur_dest, dest1) <- copy_old fuel (e_old (fst xk)) osrc st;
  if snd xk then
    do v <- get 45 nsrc (e_new (fst xk));
    do dest2 <- set 46 dest1 cur_dest v;
    Ok (cur_old, cur_dest + 1, dest2)
  else Ok (cur_old, cur_dest, dest1).

Lemma merge_entries_fold fuel E keep dest : length keep = length E ->
  merge_entries fuel (map e_old E) (map e_new E) keep osrc nsrc dest =
  (do '(_, _, dest') <- fold_res (mbodyL fuel) (0, 0, dest) (combine E keep); Ok dest').
Proof.
  intros Hl. unfold merge_entries. rewrite map_length.
  replace (length E) with (length (combine E keep)) at 1 by (rewrite combine_length; lia).
  rewrite (for_range_fold (dE, false) (combine E keep) 0 _ (mbodyL fuel)); [reflexivity|].
  intros t st Ht. rewrite combine_length in Ht. rewrite Z.add_0_l.
  rewrite (combine_nth E keep t dE false) by lia. unfold mbodyL. cbn [fst snd].
  rewrite (get_map e_old 40 E t dE) by lia. cbn [bind].
  destruct (copy_old fuel (e_old (nth t E dE)) osrc st) as [[[c d] de]| | |]; cbn [bind]; try reflexivity.
  rewrite (get_nth 43 keep t false) by lia. cbn [bind].
  destruct (nth t keep false); [|reflexivity].
  rewrite (get_map e_new 44 E t dE) by lia. cbn [bind]. reflexivity.
Qed.

Lemma merge_fold_num fuel : forall E keep cur d dest X,
  chain oks cur E -> Forall (ebound (len oks) (len nsrc)) E -> length keep = length E -> keep_valid E keep ->
  0 <= cur -> 0 <= d -> d + len (planE E keep) <= len dest -> firstn (Z.to_nat d) dest = X ->
  Z.of_nat fuel > len oks ->
  exists cur' dest', fold_res (mbodyL fuel) (cur, d, dest) (combine E keep) = Ok (cur', d + len (planE E keep), dest') /\
    len dest' = len dest /\
    firstn (Z.to_nat (d + len (planE E keep))) dest' = X ++ map cellnum (planE E keep).
Proof.
  induction E as [|x E IH]; intros keep cur d dest X Hc Hb Hl Hkv Hcur Hd Hlen HX Hf.
  - destruct keep; [|discriminate]. unfold planE. cbn [combine flat_map fold_res map]. change (len (@nil src)) with 0. rewrite Z.add_0_r, app_nil_r.
    exists cur, dest. auto.
  - destruct keep as [|kp keep]; [discriminate|]. cbn [chain] in Hc. destruct Hc as [Ha Hc].
    pose proof (Forall_inv Hb) as (Hx0 & Hx1 & Hx2). pose proof (Forall_inv_tail Hb) as Hb'.
    rewrite planE_cons in *. cbn [combine fold_res].
    rewrite len_app in Hlen. rewrite len_app.
    assert (Hbl : len (eblock (x, kp)) = Z.max 0 (e_old x + 1 - e_a x) + (if kp then 1 else 0)).
    { apply eblock_len; [lia|]. destruct Hx1; lia. }
    unfold mbodyL at 1. cbn [fst snd].
    subst cur.
    assert (H1 : e_old x < len osrc) by (pose proof (len_nonneg osrc); destruct Hx1; lia).
    assert (H2 : d + Z.max 0 (e_old x + 1 - e_a x) <= len dest) by (pose proof (len_nonneg (planE E keep)); destruct kp; lia).
    assert (H3 : Z.of_nat fuel > Z.max 0 (e_old x + 1 - e_a x)) by (destruct Hx1; lia).
    destruct (copy_old_spec fuel (e_old x) (e_a x) d dest X Hx0 H1 Hd H2 HX H3) as (dest1 & Hr1 & Hl1 & HX1).
    rewrite Hr1. cbn [bind].
    assert (Hcur2 : Z.max (e_a x) (e_old x + 1) = (if e_old x =? -1 then e_a x else e_old x + 1)).
    { destruct (e_old x =? -1) eqn:Eo; [apply Z.eqb_eq in Eo; lia|apply Z.eqb_neq in Eo; destruct Hx1; lia]. }
    rewrite Hcur2.
    assert (Hcur2' : 0 <= (if e_old x =? -1 then e_a x else e_old x + 1)) by (destruct (e_old x =? -1); destruct Hx1; lia).
    pose proof (len_nonneg (planE E keep)) as Hpl.
    destruct kp; cbv beta iota in Hbl.
    + assert (Hq : 0 <= e_new x < len nsrc).
      { destruct Hx2 as [Hx2|Hx2]; [|exact Hx2]. exfalso. apply (Hkv (x, true)); [left; reflexivity|reflexivity|exact Hx2]. }
      rewrite (getZ_ok 45 nsrc) by lia. cbn [bind]. rewrite set_ok by lia. cbn [bind].
      destruct (IH keep _ (d + Z.max 0 (e_old x + 1 - e_a x) + 1) (upd dest1 (d + Z.max 0 (e_old x + 1 - e_a x)) (nthZ nsrc (e_new x)))
                  (X ++ map (nthZ osrc) (zrange (e_a x) (e_old x + 1)) ++ [nthZ nsrc (e_new x)]) Hc Hb')
        as (cur' & dest' & Hr & Hl' & HX'); try lia.
      * cbn [length] in Hl. lia.
      * apply (keep_valid_tail _ _ _ _ Hkv).
      * rewrite len_upd. lia.
      * rewrite firstn_upd_snoc by lia. rewrite HX1. rewrite <- app_assoc. reflexivity.
      * exists cur', dest'. rewrite len_upd in Hl'.
        replace (d + (len (eblock (x, true)) + len (planE E keep))) with (d + Z.max 0 (e_old x + 1 - e_a x) + 1 + len (planE E keep)) by lia.
        split; [exact Hr|]. split; [lia|]. rewrite HX'. unfold eblock. cbn [fst snd].
        rewrite !map_app, map_map. cbn [map cellnum]. rewrite <- !app_assoc. reflexivity.
    + destruct (IH keep _ (d + Z.max 0 (e_old x + 1 - e_a x)) dest1
                  (X ++ map (nthZ osrc) (zrange (e_a x) (e_old x + 1))) Hc Hb')
        as (cur' & dest' & Hr & Hl' & HX'); try lia.
      * cbn [length] in Hl. lia.
      * apply (keep_valid_tail _ _ _ _ Hkv).
      * exact HX1.
      * exists cur', dest'.
        replace (d + (len (eblock (x, false)) + len (planE E keep))) with (d + Z.max 0 (e_old x + 1 - e_a x) + len (planE E keep)) by lia.
        split; [exact Hr|]. split; [lia|]. rewrite HX'. unfold eblock. cbn [fst snd].
        rewrite !map_app, map_map. cbn [map cellnum]. rewrite app_nil_r, <- !app_assoc. reflexivity.
Qed.

Theorem merge_entries_spec fuel E keep :
  chain oks 0 E -> Forall (ebound (len oks) (len nsrc)) E -> length keep = length E -> keep_valid E keep ->
  Z.of_nat fuel > len oks ->
  merge_entries fuel (map e_old E) (map e_new E) keep osrc nsrc (repeat 0 (Z.to_nat (len oks + count_true keep)))
  = Ok (map cellnum (planE E keep)).
Proof.
  intros Hc Hb Hl Hkv Hf. rewrite merge_entries_fold by exact Hl.
  pose proof (len_nonneg oks) as Hn.
  assert (HL : len (planE E keep) = len oks + count_true keep).
  { rewrite (planE_length oks E keep 0); auto; try lia.
    eapply Forall_impl; [|exact Hb]. intros x (H0 & H1 & _). auto. }
  assert (Hct : 0 <= count_true keep) by (unfold count_true; apply len_nonneg).
  destruct (merge_fold_num fuel E keep 0 0 (repeat 0 (Z.to_nat (len oks + count_true keep))) [] Hc Hb Hl Hkv)
    as (cur' & dest' & Hr & Hl' & HX); try lia.
  - rewrite len_repeat. lia.
  - reflexivity.
  - rewrite Hr. cbn [bind]. rewrite len_repeat in Hl'. rewrite Z.add_0_l in HX.
    replace (len (planE E keep)) with (len dest') in HX by lia. rewrite firstn_len_all in HX. rewrite HX. reflexivity.
Qed.
End MergeNum.

(* ---- merge_indexed_journalled_entries(_count) -------------------------------------------- *)
Fixpoint runs (ia:Z) (C:list (list Z)) : list Z :=
  match C with [] => [] | c :: t => (ia + len c) :: runs (ia + len c) t end.

Lemma psums_from_runs ia C : psums_from ia (map len C) = ia :: runs ia C.
Proof. revert ia; induction C as [|c C IH]; intros ia; cbn [map psums_from runs]; [reflexivity|]. rewrite IH. reflexivity. Qed.

Lemma runs_app ia C1 C2 : runs ia (C1 ++ C2) = runs ia C1 ++ runs (ia + len (concat C1)) C2.
Proof.
  revert ia; induction C1 as [|c C1 IH]; intros ia; cbn [app runs concat].
  - unfold len at 1. cbn [length]. rewrite Z.add_0_r. reflexivity.
  - rewrite IH. rewrite len_app. rewrite Z.add_assoc. reflexivity.
Qed.

Lemma len_runs ia C : len (runs ia C) = len C.
Proof. revert ia; induction C as [|c C IH]; intros ia; cbn [runs]; [reflexivity|]. rewrite !len_cons, IH. reflexivity. Qed.

Lemma blit_spec site dest p src a b X :
  0 <= a -> a <= b -> b <= len src -> 0 <= p -> p + (b - a) <= len dest -> firstn (Z.to_nat p) dest = X ->
  exists dest', blit site dest p src a b = Ok dest' /\ len dest' = len dest /\
    firstn (Z.to_nat (p + (b - a))) dest' = X ++ slice src a b.
Proof.
  intros Ha Hab Hb Hp Hd HX. unfold blit.
  replace ((0 <=? a) && (a <=? b) && (b <=? len src) && (0 <=? p) && (p + (b - a) <=? len dest)) with true
    by (symmetry; rewrite !andb_true_iff, !Z.leb_le; lia).
  eexists. split; [reflexivity|].
  assert (Hs : length (slice src a b) = Z.to_nat (b - a)).
  { unfold slice. rewrite firstn_length, skipn_length. unfold len in *. lia. }
  assert (Hf : length (firstn (Z.to_nat p) dest) = Z.to_nat p) by (rewrite firstn_length; unfold len in *; lia).
  split.
  - unfold len. rewrite !app_length, Hf, Hs, skipn_length. unfold len in *. lia.
  - rewrite app_assoc. rewrite firstn_app.
    replace (Z.to_nat (p + (b - a)) - length (firstn (Z.to_nat p) dest ++ slice src a b))%nat with 0%nat
      by (rewrite app_length, Hf, Hs; lia).
    cbn [firstn]. rewrite app_nil_r. rewrite firstn_all2 by (rewrite app_length, Hf, Hs; lia). rewrite HX. reflexivity.
Qed.

Lemma blit_cell site (S:list (list Z)) r dv ia XV :
  0 <= r < len S -> 0 <= ia -> ia + len (nthd [] S r) <= len dv -> firstn (Z.to_nat ia) dv = XV ->
  let a := nthZ (fst (encode S)) r in
  let b := nthZ (fst (encode S)) (r + 1) in
  b - a = len (nthd [] S r) /\
  exists dv', (if 0 <? b - a then blit site dv (ia + (b - a) - (b - a)) (snd (encode S)) a b else Ok dv) = Ok dv' /\
    len dv' = len dv /\ firstn (Z.to_nat (ia + len (nthd [] S r))) dv' = XV ++ nthd [] S r.
Proof.
  intros Hr Hia Hd HX a b.
  assert (Hab : b - a = len (nthd [] S r)) by (unfold a, b; rewrite encode_offs_step by lia; lia).
  split; [exact Hab|]. pose proof (len_nonneg (nthd [] S r)) as Hc.
  destruct (0 <? b - a) eqn:E.
  - assert (Ha0 : 0 <= a) by (unfold a; rewrite encode_offs_nth by lia; apply len_nonneg).
    assert (Hbl : b <= len (snd (encode S))).
    { unfold b. rewrite encode_offs_nth by lia. unfold encode. cbn [snd].
      rewrite <- (firstn_skipn (Z.to_nat (r + 1)) S) at 2. rewrite concat_app, len_app.
      pose proof (len_nonneg (concat (skipn (Z.to_nat (r + 1)) S))). lia. }
    replace (ia + (b - a) - (b - a)) with ia by lia.
    destruct (blit_spec site dv ia (snd (encode S)) a b XV Ha0 ltac:(lia) Hbl Hia ltac:(lia) HX) as (dv' & Hr' & Hl & HX').
    exists dv'. split; [exact Hr'|]. split; [exact Hl|]. rewrite <- Hab. rewrite HX'.
    f_equal. fold (cell (fst (encode S)) (snd (encode S)) r). unfold a, b. apply cell_encode. lia.
  - apply Z.ltb_ge in E. assert (Hz : len (nthd [] S r) = 0) by lia.
    exists dv. split; [reflexivity|]. split; [reflexivity|]. rewrite Hz, Z.add_0_r.
    destruct (nthd [] S r) as [|y l]; [rewrite app_nil_r; exact HX|]. rewrite len_cons in Hz. pose proof (len_nonneg l). lia.
Qed.

Section MergeStr.
Variables (oks:list Z) (os ns:list (list Z)).
Hypothesis Hlo : len os = len oks.

Definition cellstr (s:src) : list Z := match s with FromOld p => nthd [] os p | FromNew q => nthd [] ns q end.
Definition oldcells (a b:Z) : list (list Z) := map (nthd [] os) (zrange a b).

Lemma count_old_spec fuel lim : forall cur acc,
  0 <= cur -> lim < len os -> Z.of_nat fuel > Z.max 0 (lim + 1 - cur) ->
  count_old fuel lim (fst (encode os)) (cur, acc) =
  Ok (Z.max cur (lim + 1), acc + len (concat (oldcells cur (lim + 1)))).
Proof.
  induction fuel as [|f IH]; intros cur acc Hc Hlim Hf; [lia|].
  cbn [count_old]. destruct (cur <=? lim) eqn:E.
  - apply Z.leb_le in E. rewrite (getZ_ok 51) by (rewrite len_encode_offs; lia). cbn [bind].
    rewrite (getZ_ok 52) by (rewrite len_encode_offs; lia). cbn [bind].
    rewrite IH by lia. rewrite encode_offs_step by lia.
    unfold oldcells. rewrite (zrange_cons cur) by lia. cbn [map concat]. rewrite len_app.
    f_equal. f_equal; lia.
  - apply Z.leb_gt in E. unfold oldcells. rewrite zrange_nil by lia. cbn [map concat].
    f_equal. f_equal; [lia|]. unfold len; cbn [length]; lia.
Qed.

Definition cbodyL (fuel:nat) (st:Z * Z) (xk:entry * bool) : res (Z * Z) :=
  do '(cur_old, acc_val) <- count_old fuel (e_old (fst xk)) (fst (encode os)) st;
  if snd xk then
    do b <- get 55 (fst (encode ns)) (e_new (fst xk) + 1);
    do a <- get 56 (fst (encode ns)) (e_new (fst xk));
    Ok (cur_old, acc_val + (b - a))
  else Ok (cur_old, acc_val).

Lemma merge_indexed_count_fold fuel E keep : length keep = length E ->
  merge_indexed_count fuel (map e_old E) (map e_new E) keep (fst (encode os)) (fst (encode ns)) =
  (do '(_, acc) <- fold_res (cbodyL fuel) (0, 0) (combine E keep); Ok acc).
Proof.
  intros Hl. unfold merge_indexed_count. rewrite map_length.
  replace (length E) with (length (combine E keep)) at 1 by (rewrite combine_length; lia).
  rewrite (for_range_fold (dE, false) (combine E keep) 0 _ (cbodyL fuel)); [reflexivity|].
  intros t st Ht. rewrite combine_length in Ht. rewrite Z.add_0_l.
  rewrite (combine_nth E keep t dE false) by lia. unfold cbodyL. cbn [fst snd].
  rewrite (get_map e_old 50 E t dE) by lia. cbn [bind].
  destruct (count_old fuel (e_old (nth t E dE)) (fst (encode os)) st) as [[c a]| | |]; cbn [bind]; try reflexivity.
  rewrite (get_nth 53 keep t false) by lia. cbn [bind].
  destruct (nth t keep false); [|reflexivity].
  rewrite (get_map e_new 54 E t dE) by lia. cbn [bind]. reflexivity.
Qed.

Lemma count_fold_spec fuel : forall E keep cur acc,
  chain oks cur E -> Forall (ebound (len oks) (len ns)) E -> length keep = length E -> keep_valid E keep ->
  0 <= cur -> Z.of_nat fuel > len oks ->
  exists cur', fold_res (cbodyL fuel) (cur, acc) (combine E keep) =
    Ok (cur', acc + len (concat (map cellstr (planE E keep)))).
Proof.
  induction E as [|x E IH]; intros keep cur acc Hc Hb Hl Hkv Hcur Hf.
  - destruct keep; [|discriminate]. cbn [combine fold_res]. unfold planE. cbn [combine flat_map map concat].
    exists cur. f_equal. f_equal. unfold len; cbn [length]; lia.
  - destruct keep as [|kp keep]; [discriminate|]. cbn [chain] in Hc. destruct Hc as [Ha Hc]. subst cur.
    pose proof (Forall_inv Hb) as (Hx0 & Hx1 & Hx2). pose proof (Forall_inv_tail Hb) as Hb'.
    rewrite planE_cons. cbn [combine fold_res]. unfold cbodyL at 1. cbn [fst snd].
    pose proof (len_nonneg os) as Hnos.
    rewrite count_old_spec by (destruct Hx1; lia).
    cbn [bind].
    assert (Hcur2 : Z.max (e_a x) (e_old x + 1) = (if e_old x =? -1 then e_a x else e_old x + 1)).
    { destruct (e_old x =? -1) eqn:Eo; [apply Z.eqb_eq in Eo; lia|apply Z.eqb_neq in Eo; destruct Hx1; lia]. }
    rewrite Hcur2.
    assert (Hcur2' : 0 <= (if e_old x =? -1 then e_a x else e_old x + 1)) by (destruct (e_old x =? -1); destruct Hx1; lia).
    rewrite map_app, concat_app, len_app. unfold eblock at 1. cbn [fst snd]. rewrite map_app, concat_app, len_app, map_map.
    change (map (fun p => cellstr (FromOld p)) (zrange (e_a x) (e_old x + 1))) with (oldcells (e_a x) (e_old x + 1)).
    destruct kp.
    + assert (Hq : 0 <= e_new x < len ns).
      { destruct Hx2 as [Hx2|Hx2]; [|exact Hx2]. exfalso. apply (Hkv (x, true)); [left; reflexivity|reflexivity|exact Hx2]. }
      rewrite (getZ_ok 55) by (rewrite len_encode_offs; lia). cbn [bind].
      rewrite (getZ_ok 56) by (rewrite len_encode_offs; lia). cbn [bind].
      rewrite encode_offs_step by lia.
      destruct (IH keep _ (acc + len (concat (oldcells (e_a x) (e_old x + 1))) +
                           (nthZ (fst (encode ns)) (e_new x) + len (nthd [] ns (e_new x)) - nthZ (fst (encode ns)) (e_new x))) Hc Hb')
        as (cur' & Hr); try lia.
      * cbn [length] in Hl. lia.
      * apply (keep_valid_tail _ _ _ _ Hkv).
      * exists cur'. rewrite Hr. f_equal. f_equal. cbn [map concat cellstr]. rewrite app_nil_r. lia.
    + cbn [bind]. destruct (IH keep _ (acc + len (concat (oldcells (e_a x) (e_old x + 1)))) Hc Hb') as (cur' & Hr); try lia.
      * cbn [length] in Hl. lia.
      * apply (keep_valid_tail _ _ _ _ Hkv).
      * exists cur'. rewrite Hr. f_equal. f_equal. cbn [map concat]. change (len (@nil Z)) with 0. lia.
Qed.

Theorem merge_indexed_count_spec fuel E keep :
  chain oks 0 E -> Forall (ebound (len oks) (len ns)) E -> length keep = length E -> keep_valid E keep ->
  Z.of_nat fuel > len oks ->
  merge_indexed_count fuel (map e_old E) (map e_new E) keep (fst (encode os)) (fst (encode ns))
  = Ok (len (concat (map cellstr (planE E keep)))).
Proof.
  intros Hc Hb Hl Hkv Hf. rewrite merge_indexed_count_fold by exact Hl.
  destruct (count_fold_spec fuel E keep 0 0 Hc Hb Hl Hkv) as (cur' & Hr); try lia.
  rewrite Hr. reflexivity.
Qed.
End MergeStr.

Section MergeStr2.
Variables (oks:list Z) (os ns:list (list Z)).
Hypothesis Hlo : len os = len oks.

Notation ocells := (oldcells os).
Notation cstr := (cellstr os ns).

Lemma oldcells_cons cur lim : cur <= lim -> ocells cur (lim + 1) = nthd [] os cur :: ocells (cur + 1) (lim + 1).
Proof. intros H. unfold oldcells. rewrite (zrange_cons cur) by lia. reflexivity. Qed.

Lemma copy_old_indexed_spec fuel lim : forall cur cd ia di dv XI XV,
  0 <= cur -> lim < len os -> 0 <= cd -> 0 <= ia ->
  cd + len (ocells cur (lim + 1)) <= len di -> ia + len (concat (ocells cur (lim + 1))) <= len dv ->
  firstn (Z.to_nat cd) di = XI -> firstn (Z.to_nat ia) dv = XV -> Z.of_nat fuel > Z.max 0 (lim + 1 - cur) ->
  exists di' dv',
    copy_old_indexed fuel lim (fst (encode os)) (snd (encode os)) (cur, cd, ia, di, dv) =
      Ok (Z.max cur (lim + 1), cd + len (ocells cur (lim + 1)), ia + len (concat (ocells cur (lim + 1))), di', dv') /\
    len di' = len di /\ len dv' = len dv /\
    firstn (Z.to_nat (cd + len (ocells cur (lim + 1)))) di' = XI ++ runs ia (ocells cur (lim + 1)) /\
    firstn (Z.to_nat (ia + len (concat (ocells cur (lim + 1))))) dv' = XV ++ concat (ocells cur (lim + 1)).
Proof.
  induction fuel as [|f IH]; intros cur cd ia di dv XI XV Hc Hlim Hcd Hia Hdi Hdv HXI HXV Hf; [lia|].
  cbn [copy_old_indexed]. destruct (cur <=? lim) eqn:E.
  - apply Z.leb_le in E. rewrite oldcells_cons in * by lia. cbn [concat runs] in *.
    rewrite len_cons in *. rewrite len_app in *.
    pose proof (len_nonneg (ocells (cur + 1) (lim + 1))) as Hn1.
    pose proof (len_nonneg (concat (ocells (cur + 1) (lim + 1)))) as Hn2.
    pose proof (len_nonneg (nthd [] os cur)) as Hn3.
    rewrite (getZ_ok 61) by (rewrite len_encode_offs; lia). cbn [bind].
    rewrite (getZ_ok 62) by (rewrite len_encode_offs; lia). cbn [bind]. cbv zeta.
    rewrite (set_ok 63 di cd) by lia. cbn [bind].
    destruct (blit_cell 64 os cur dv ia XV ltac:(lia) Hia ltac:(lia) HXV) as (Hab & dv1 & Hb1 & Hl1 & HX1).
    rewrite Hb1. cbn [bind]. rewrite Hab.
    destruct (IH (cur + 1) (cd + 1) (ia + len (nthd [] os cur)) (upd di cd (ia + len (nthd [] os cur))) dv1
                 (XI ++ [ia + len (nthd [] os cur)]) (XV ++ nthd [] os cur))
      as (di' & dv' & Hr & Hl2 & Hl3 & HX2 & HX3); try lia.
    + rewrite len_upd. lia.
    + rewrite firstn_upd_snoc by lia. rewrite HXI. reflexivity.
    + exact HX1.
    + exists di', dv'. rewrite len_upd in Hl2.
      replace (Z.max cur (lim + 1)) with (Z.max (cur + 1) (lim + 1)) by lia.
      replace (cd + (len (ocells (cur + 1) (lim + 1)) + 1)) with (cd + 1 + len (ocells (cur + 1) (lim + 1))) by lia.
      replace (ia + (len (nthd [] os cur) + len (concat (ocells (cur + 1) (lim + 1)))))
        with (ia + len (nthd [] os cur) + len (concat (ocells (cur + 1) (lim + 1)))) by lia.
      split; [exact Hr|]. split; [lia|]. split; [lia|]. split.
      * rewrite HX2. rewrite <- app_assoc. reflexivity.
      * rewrite HX3. rewrite <- app_assoc. reflexivity.
  - apply Z.leb_gt in E. exists di, dv. unfold oldcells. rewrite zrange_nil by lia. cbn [map concat runs].
    change (len (@nil (list Z))) with 0. change (len (@nil Z)) with 0. rewrite !Z.add_0_r, !app_nil_r.
    replace (Z.max cur (lim + 1)) with cur by lia. auto.
Qed.

Definition ibodyL (fuel:nat) (st:mi_state) (xk:entry * bool) : res mi_state :=
  do '(cur_old, cur_dest, ind_acc, di1, dv1) <-
     copy_old_indexed fuel (e_old (fst xk)) (fst (encode os)) (snd (encode os)) st;
  if snd xk then
    do b <- get 67 (fst (encode ns)) (e_new (fst xk) + 1);
    do a <- get 68 (fst (encode ns)) (e_new (fst xk));
    let ind_delta := b - a in
    let ind_acc' := ind_acc + ind_delta in
    do di2 <- set 69 di1 cur_dest ind_acc';
    do dv2 <- (if 0 <? ind_delta
               then blit 70 dv1 (ind_acc' - ind_delta) (snd (encode ns)) a b
               else Ok dv1);
    Ok (cur_old, cur_dest + 1, ind_acc', di2, dv2)
  else Ok (cur_old, cur_dest, ind_acc, di1, dv1).

Lemma merge_indexed_fold fuel E keep di dv : length keep = length E ->
  merge_indexed fuel (map e_old E) (map e_new E) keep (fst (encode os)) (snd (encode os))
                (fst (encode ns)) (snd (encode ns)) di dv =
  (do di0 <- set 59 di 0 0;
   do '(_, _, _, di', dv') <- fold_res (ibodyL fuel) (0, 1, 0, di0, dv) (combine E keep); Ok (di', dv')).
Proof.
  intros Hl. unfold merge_indexed. destruct (set 59 di 0 0) as [di0| | |]; cbn [bind]; try reflexivity.
  rewrite map_length.
  replace (length E) with (length (combine E keep)) at 1 by (rewrite combine_length; lia).
  rewrite (for_range_fold (dE, false) (combine E keep) 0 _ (ibodyL fuel)); [reflexivity|].
  intros t st Ht. rewrite combine_length in Ht. rewrite Z.add_0_l.
  rewrite (combine_nth E keep t dE false) by lia. unfold ibodyL. cbn [fst snd].
  rewrite (get_map e_old 60 E t dE) by lia. cbn [bind].
  destruct (copy_old_indexed fuel (e_old (nth t E dE)) (fst (encode os)) (snd (encode os)) st)
    as [[[[[c d] ia] i1] v1]| | |]; cbn [bind]; try reflexivity.
  rewrite (get_nth 65 keep t false) by lia. cbn [bind].
  destruct (nth t keep false); [|reflexivity].
  rewrite (get_map e_new 66 E t dE) by lia. cbn [bind]. reflexivity.
Qed.

Lemma merge_fold_str fuel : forall E keep cur cd ia di dv XI XV,
  chain oks cur E -> Forall (ebound (len oks) (len ns)) E -> length keep = length E -> keep_valid E keep ->
  0 <= cur -> 0 <= cd -> 0 <= ia ->
  cd + len (planE E keep) <= len di -> ia + len (concat (map cstr (planE E keep))) <= len dv ->
  firstn (Z.to_nat cd) di = XI -> firstn (Z.to_nat ia) dv = XV -> Z.of_nat fuel > len oks ->
  exists cur' di' dv',
    fold_res (ibodyL fuel) (cur, cd, ia, di, dv) (combine E keep) =
      Ok (cur', cd + len (planE E keep), ia + len (concat (map cstr (planE E keep))), di', dv') /\
    len di' = len di /\ len dv' = len dv /\
    firstn (Z.to_nat (cd + len (planE E keep))) di' = XI ++ runs ia (map cstr (planE E keep)) /\
    firstn (Z.to_nat (ia + len (concat (map cstr (planE E keep))))) dv' = XV ++ concat (map cstr (planE E keep)).
Proof.
  induction E as [|x E IH]; intros keep cur cd ia di dv XI XV Hc Hb Hl Hkv Hcur Hcd Hia Hdi Hdv HXI HXV Hf.
  - destruct keep; [|discriminate]. unfold planE. cbn [combine flat_map fold_res map concat runs].
    change (len (@nil src)) with 0. change (len (@nil Z)) with 0. rewrite !Z.add_0_r, !app_nil_r.
    exists cur, di, dv. auto.
  - destruct keep as [|kp keep]; [discriminate|]. cbn [chain] in Hc. destruct Hc as [Ha Hc]. subst cur.
    pose proof (Forall_inv Hb) as (Hx0 & Hx1 & Hx2). pose proof (Forall_inv_tail Hb) as Hb'.
    pose proof (len_nonneg os) as Hnos.
    rewrite planE_cons in *. cbn [combine fold_res].
    assert (Hmap : map cstr (eblock (x, kp)) = ocells (e_a x) (e_old x + 1) ++ (if kp then [nthd [] ns (e_new x)] else [])).
    { unfold eblock. cbn [fst snd]. rewrite map_app, map_map. destruct kp; reflexivity. }
    rewrite map_app, Hmap in *. rewrite !concat_app in *. rewrite !len_app in *.
    rewrite runs_app. rewrite runs_app.
    set (C := ocells (e_a x) (e_old x + 1)) in *.
    set (P := planE E keep) in *.
    assert (HlenC : len C = Z.max 0 (e_old x + 1 - e_a x)) by (unfold C, oldcells; rewrite len_map, zrange_length; reflexivity).
    pose proof (len_nonneg (concat C)) as HnC. pose proof (len_nonneg P) as HnP.
    pose proof (len_nonneg (concat (map cstr P))) as HnCP.
    assert (Hblk : len (eblock (x, kp)) = len C + (if kp then 1 else 0)).
    { rewrite eblock_len by (try lia; destruct Hx1; lia). lia. }
    unfold ibodyL at 1. cbn [fst snd].
    assert (Hcur2 : Z.max (e_a x) (e_old x + 1) = (if e_old x =? -1 then e_a x else e_old x + 1)).
    { destruct (e_old x =? -1) eqn:Eo; [apply Z.eqb_eq in Eo; lia|apply Z.eqb_neq in Eo; destruct Hx1; lia]. }
    assert (Hcur2' : 0 <= (if e_old x =? -1 then e_a x else e_old x + 1)) by (destruct (e_old x =? -1); destruct Hx1; lia).
    destruct kp; cbv beta iota in Hblk, Hdi, Hdv |- *.
    + assert (Hq : 0 <= e_new x < len ns).
      { destruct Hx2 as [Hx2|Hx2]; [|exact Hx2]. exfalso. apply (Hkv (x, true)); [left; reflexivity|reflexivity|exact Hx2]. }
      cbn [concat] in *. rewrite app_nil_r in *. cbn [runs].
      pose proof (len_nonneg (nthd [] ns (e_new x))) as Hnc.
      destruct (copy_old_indexed_spec fuel (e_old x) (e_a x) cd ia di dv XI XV)
        as (di1 & dv1 & Hr1 & Hl1 & Hl1' & HX1 & HX1'); try assumption; try (fold C; destruct Hx1; lia).
      fold C in Hr1, HX1, HX1'. rewrite Hr1. cbn [bind]. rewrite Hcur2.
      rewrite (getZ_ok 67) by (rewrite len_encode_offs; lia). cbn [bind].
      rewrite (getZ_ok 68) by (rewrite len_encode_offs; lia). cbn [bind]. cbv zeta.
      rewrite (set_ok 69 di1) by lia. cbn [bind].
      destruct (blit_cell 70 ns (e_new x) dv1 (ia + len (concat C)) (XV ++ concat C) Hq ltac:(lia) ltac:(lia) HX1')
        as (Hab & dv2 & Hb2 & Hl2 & HX2).
      rewrite Hb2. cbn [bind]. rewrite Hab.
      destruct (IH keep _ (cd + len C + 1) (ia + len (concat C) + len (nthd [] ns (e_new x)))
                  (upd di1 (cd + len C) (ia + len (concat C) + len (nthd [] ns (e_new x)))) dv2
                  (XI ++ runs ia C ++ [ia + len (concat C) + len (nthd [] ns (e_new x))])
                  (XV ++ concat C ++ nthd [] ns (e_new x)) Hc Hb')
        as (cur' & di' & dv' & Hr & Hl3 & Hl3' & HX3 & HX3'); try lia.
      * cbn [length] in Hl. lia.
      * apply (keep_valid_tail _ _ _ _ Hkv).
      * rewrite len_upd. fold P. lia.
      * fold P. lia.
      * rewrite firstn_upd_snoc by lia. rewrite HX1. rewrite <- app_assoc. reflexivity.
      * rewrite HX2. rewrite <- app_assoc. reflexivity.
      * fold P in Hr, HX3, HX3'. exists cur', di', dv'. rewrite len_upd in Hl3.
        replace (cd + (len (eblock (x, true)) + len P)) with (cd + len C + 1 + len P) by lia.
        replace (ia + (len (concat C) + len (nthd [] ns (e_new x)) + len (concat (map cstr P))))
          with (ia + len (concat C) + len (nthd [] ns (e_new x)) + len (concat (map cstr P))) by lia.
        split; [exact Hr|]. split; [lia|]. split; [lia|]. split.
        -- rewrite HX3. rewrite <- !app_assoc. cbn [app]. rewrite concat_app, len_app. cbn [concat]. rewrite app_nil_r.
           rewrite Z.add_assoc. reflexivity.
        -- rewrite HX3'. rewrite <- !app_assoc. reflexivity.
    + cbn [concat] in *. change (len (@nil Z)) with 0 in *. rewrite ?Z.add_0_r in *. rewrite app_nil_r in *. cbn [runs app].
      destruct (copy_old_indexed_spec fuel (e_old x) (e_a x) cd ia di dv XI XV)
        as (di1 & dv1 & Hr1 & Hl1 & Hl1' & HX1 & HX1'); try assumption; try (fold C; destruct Hx1; lia).
      fold C in Hr1, HX1, HX1'. rewrite Hr1. cbn [bind]. rewrite Hcur2.
      destruct (IH keep _ (cd + len C) (ia + len (concat C)) di1 dv1 (XI ++ runs ia C) (XV ++ concat C) Hc Hb')
        as (cur' & di' & dv' & Hr & Hl3 & Hl3' & HX3 & HX3'); try lia; try assumption.
      * cbn [length] in Hl. lia.
      * apply (keep_valid_tail _ _ _ _ Hkv).
      * fold P. lia.
      * fold P. lia.
      * fold P in Hr, HX3, HX3'. exists cur', di', dv'.
        replace (cd + (len (eblock (x, false)) + len P)) with (cd + len C + len P) by lia.
        replace (ia + (len (concat C) + len (concat (map cstr P)))) with (ia + len (concat C) + len (concat (map cstr P))) by lia.
        split; [exact Hr|]. split; [lia|]. split; [lia|]. split.
        -- rewrite HX3. rewrite <- !app_assoc. rewrite ?app_nil_r. reflexivity.
        -- rewrite HX3'. rewrite <- !app_assoc. rewrite ?app_nil_r. reflexivity.
Qed.
End MergeStr2.
