(* Proofs/UniqueSort.v — C14: the Gallina definitions of numpy sort / argsort (stable insertion
   sort) used by Model/Unique.v: permutation, sortedness, commutation with order embeddings,
   and sort = take(argsort). *)
From Coq Require Import ZArith List Lia Bool Sorted Permutation.
From EV Require Import Res Arr UniqueSpec Unique UniqueOrder.
Import ListNotations.
Open Scope Z_scope.

Section SortLemmas.
Context {A:Type} (le:A -> A -> bool).

Lemma insert_perm x l : Permutation (insert le x l) (x :: l).
Proof.
  induction l as [|y t IH]; cbn [insert]; [apply Permutation_refl|].
  destruct (le x y); [apply Permutation_refl|].
  eapply Permutation_trans; [apply perm_skip; exact IH|apply perm_swap].
Qed.

Lemma isort_perm l : Permutation (isort le l) l.
Proof.
  induction l as [|x t IH]; cbn [isort]; [apply Permutation_refl|].
  eapply Permutation_trans; [apply insert_perm|apply perm_skip; exact IH].
Qed.

Lemma isort_length l : length (isort le l) = length l.
Proof. apply Permutation_length, isort_perm. Qed.

Lemma isort_Forall (P:A -> Prop) l : Forall P l -> Forall P (isort le l).
Proof. intros H. eapply Permutation_Forall; [apply Permutation_sym, isort_perm|exact H]. Qed.

Hypothesis le_total : forall a b, le a b = false -> le b a = true.
Hypothesis le_trans : forall a b c, le a b = true -> le b c = true -> le a c = true.

Definition leP (a b:A) : Prop := le a b = true.

Lemma insert_sorted x l : StronglySorted leP l -> StronglySorted leP (insert le x l).
Proof.
  induction 1 as [|y t Ht IH Hall]; cbn [insert].
  - constructor; constructor.
  - destruct (le x y) eqn:E.
    + constructor; [constructor; assumption|]. constructor; [exact E|].
      rewrite Forall_forall in *. intros z Hz. eapply le_trans; [exact E|apply Hall; exact Hz].
    + constructor; [exact IH|]. rewrite Forall_forall in *. intros z Hz.
      apply (Permutation_in _ (insert_perm x t)) in Hz. destruct Hz as [<-|Hz]; [apply le_total; exact E|].
      apply Hall. exact Hz.
Qed.

Lemma isort_sorted l : StronglySorted leP (isort le l).
Proof. induction l as [|x t IH]; cbn [isort]; [constructor|]. apply insert_sorted. exact IH. Qed.
End SortLemmas.

(* an order embedding commutes with the sort *)
Lemma map_insert {A B} (f:A -> B) (leA:A -> A -> bool) (leB:B -> B -> bool) (P:A -> Prop) x l :
  (forall a b, P a -> P b -> leB (f a) (f b) = leA a b) -> P x -> Forall P l ->
  map f (insert leA x l) = insert leB (f x) (map f l).
Proof.
  intros Hle Hx Hl. induction Hl as [|y t Hy Ht IH]; cbn [insert map]; [reflexivity|].
  rewrite Hle by assumption. destruct (leA x y); cbn [map]; [reflexivity|]. rewrite IH. reflexivity.
Qed.

Lemma map_isort {A B} (f:A -> B) (leA:A -> A -> bool) (leB:B -> B -> bool) (P:A -> Prop) l :
  (forall a b, P a -> P b -> leB (f a) (f b) = leA a b) -> Forall P l ->
  map f (isort leA l) = isort leB (map f l).
Proof.
  intros Hle Hl. induction Hl as [|x t Hx Ht IH]; cbn [isort map]; [reflexivity|].
  rewrite (map_insert f leA leB P) by (try assumption; apply isort_Forall; exact Ht).
  rewrite IH. reflexivity.
Qed.

(* ---- iota / argsort ---- *)
Lemma iota_length k n : length (iota k n) = n.
Proof. revert k; induction n as [|n IH]; intros k; cbn [iota length]; [reflexivity|]. rewrite IH. reflexivity. Qed.

Lemma iota_in k n x : In x (iota k n) <-> k <= x < k + Z.of_nat n.
Proof.
  revert k; induction n as [|n IH]; intros k; cbn [iota In]; [lia|]. rewrite IH. lia.
Qed.

Lemma iota_NoDup k n : NoDup (iota k n).
Proof.
  revert k; induction n as [|n IH]; intros k; cbn [iota]; constructor; [|apply IH].
  rewrite iota_in. lia.
Qed.

Lemma map_snd_combine_iota {A} (l:list A) k : map snd (combine l (iota k (length l))) = iota k (length l).
Proof. revert k; induction l as [|x t IH]; intros k; cbn [length iota combine map]; [reflexivity|]. rewrite IH. reflexivity. Qed.

Lemma map_fst_combine_iota {A} (l:list A) k : map fst (combine l (iota k (length l))) = l.
Proof. revert k; induction l as [|x t IH]; intros k; cbn [length iota combine map]; [reflexivity|]. rewrite IH. reflexivity. Qed.

Lemma combine_iota_nth {A} (d:A) (l:list A) k :
  Forall (fun p => nth (Z.to_nat (snd p - k)) l d = fst p /\ k <= snd p) (combine l (iota k (length l))).
Proof.
  revert k; induction l as [|x t IH]; intros k; cbn [length iota combine]; constructor.
  - cbn [fst snd]. replace (Z.to_nat (k - k)) with O by lia. split; [reflexivity|lia].
  - eapply Forall_impl; [|apply (IH (k + 1))]. intros [y i]. cbn [fst snd]. intros [H1 H2].
    replace (Z.to_nat (i - k)) with (S (Z.to_nat (i - (k + 1)))) by lia. cbn [nth]. split; [exact H1|lia].
Qed.

Lemma argsort_perm {A} (le:A -> A -> bool) l : Permutation (argsort le l) (iota 0 (length l)).
Proof.
  unfold argsort. rewrite <- (map_snd_combine_iota l 0) at 2. apply Permutation_map. apply isort_perm.
Qed.

Lemma argsort_length {A} (le:A -> A -> bool) l : len (argsort le l) = len l.
Proof. unfold len. rewrite (Permutation_length (argsort_perm le l)), iota_length. reflexivity. Qed.

Lemma argsort_in {A} (le:A -> A -> bool) l x : In x (argsort le l) <-> 0 <= x < len l.
Proof.
  unfold len. split; intros H.
  - apply (Permutation_in _ (argsort_perm le l)) in H. apply iota_in in H. lia.
  - apply (Permutation_in _ (Permutation_sym (argsort_perm le l))). apply iota_in. lia.
Qed.

Lemma argsort_NoDup {A} (le:A -> A -> bool) l : NoDup (argsort le l).
Proof. eapply Permutation_NoDup; [apply Permutation_sym, argsort_perm|apply iota_NoDup]. Qed.

(* sorted = original[argsort] *)
Lemma take_argsort {A} (d:A) (le:A -> A -> bool) l : map (nthd d l) (argsort le l) = isort le l.
Proof.
  unfold argsort. rewrite map_map.
  set (le' := fun p q : A * Z => le (fst p) (fst q)).
  set (L := combine l (iota 0 (length l))).
  assert (HF : Forall (fun p => nthd d l (snd p) = fst p) (isort le' L)).
  { apply isort_Forall. eapply Forall_impl; [|apply (combine_iota_nth d l 0)].
    intros [y i]. cbn [fst snd]. intros [H1 H2]. unfold nthd. rewrite Z.sub_0_r in H1. exact H1. }
  rewrite (map_ext_in _ fst).
  - rewrite (map_isort fst le' le (fun _ => True)).
    + unfold L. rewrite map_fst_combine_iota. reflexivity.
    + intros a b _ _. reflexivity.
    + apply Forall_forall. intros; exact I.
  - rewrite Forall_forall in HF. exact HF.
Qed.
