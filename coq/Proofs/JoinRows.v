(* Proofs/JoinRows.v — the join specification row by row: rows_upto, the row of one left
   key on a sorted right side, and the bound on the number of output rows. *)
From Coq Require Import ZArith List Lia Bool ZifyBool.
From EV Require Import Res Arr Join JoinSpec JoinBase JoinIface.
Import ListNotations.
Open Scope Z_scope.

Definition row (emit:bool) (inv:Z) (R:list Z) (i key:Z) : list (Z * Z) :=
  match matches key R with
  | [] => if emit then [(i, inv)] else []
  | ms => map (fun j => (i, j)) ms
  end.

Fixpoint jf (emit:bool) (inv:Z) (L R:list Z) (i0:Z) : list (Z * Z) :=
  match L with
  | [] => []
  | key :: t => row emit inv R i0 key ++ jf emit inv t R (i0 + 1)
  end.

Lemma jf_spec emit inv L R : jf emit inv L R 0 = join_spec emit inv L R.
Proof.
  unfold join_spec, left_join, inner_join. generalize 0 as i0.
  induction L as [|key t IH]; intros i0; destruct emit; cbn [jf left_join_from inner_join_from]; try reflexivity.
  - rewrite IH. unfold row. destruct (matches key R); reflexivity.
  - rewrite IH. unfold row. destruct (matches key R); reflexivity.
Qed.

Lemma jf_app emit inv l1 l2 R i0 :
  jf emit inv (l1 ++ l2) R i0 = jf emit inv l1 R i0 ++ jf emit inv l2 R (i0 + len l1).
Proof.
  revert i0. induction l1 as [|x t IH]; intros i0; cbn [jf app].
  - rewrite len_nil, Z.add_0_r. reflexivity.
  - rewrite IH, len_cons, <- app_assoc. do 3 f_equal. lia.
Qed.

Definition rows_upto (emit:bool) (inv:Z) (L R:list Z) (I:Z) : list (Z * Z) :=
  jf emit inv (firstn (Z.to_nat I) L) R 0.

Lemma rows_upto_0 emit inv L R : rows_upto emit inv L R 0 = [].
Proof. reflexivity. Qed.

Lemma len_firstn (l:list Z) n : 0 <= n <= len l -> len (firstn (Z.to_nat n) l) = n.
Proof. intros H. unfold len in *. rewrite firstn_length. lia. Qed.

Lemma rows_upto_succ emit inv L R I : 0 <= I < len L ->
  rows_upto emit inv L R (I + 1) = rows_upto emit inv L R I ++ row emit inv R I (nthZ L I).
Proof.
  intros H. unfold rows_upto. rewrite (firstn_snoc 0 L I H). rewrite jf_app. cbn [jf].
  rewrite app_nil_r, len_firstn by lia. reflexivity.
Qed.

Lemma rows_upto_all emit inv L R : rows_upto emit inv L R (len L) = join_spec emit inv L R.
Proof.
  unfold rows_upto, len. rewrite Nat2Z.id, firstn_all. apply jf_spec.
Qed.

Lemma jf_unmatched emit inv R : forall l i0, 0 <= i0 ->
  (forall x, In x l -> matches x R = []) ->
  jf emit inv l R i0 = if emit then unmatched inv i0 (i0 + len l) else [].
Proof.
  induction l as [|x t IH]; intros i0 Hi0 H; cbn [jf].
  - rewrite len_nil. unfold unmatched. rewrite seqZ_nil by lia. destruct emit; reflexivity.
  - rewrite IH by (try lia; intros; apply H; right; assumption).
    unfold row. rewrite (H x) by (left; reflexivity). rewrite len_cons. destruct emit; [|reflexivity].
    unfold unmatched. rewrite (seqZ_cons i0 (i0 + (len t + 1) - i0)) by (pose proof (len_nonneg t); lia).
    cbn [map app]. do 3 f_equal. lia.
Qed.

(* if no left row from I on has a match, the join is rows_upto I plus the unmatched tail *)
Lemma rows_unmatched_tail emit inv L R I : 0 <= I <= len L ->
  (forall i, I <= i < len L -> matches (nthZ L i) R = []) ->
  join_spec emit inv L R = rows_upto emit inv L R I ++ (if emit then unmatched inv I (len L) else []).
Proof.
  intros HI H. rewrite <- jf_spec. rewrite <- (firstn_skipn (Z.to_nat I) L) at 1.
  rewrite jf_app. unfold rows_upto. f_equal. rewrite len_firstn by lia. rewrite Z.add_0_l.
  rewrite jf_unmatched; try lia.
  - assert (Hl : len (skipn (Z.to_nat I) L) = len L - I) by (unfold len in *; rewrite skipn_length; lia).
    rewrite Hl. replace (I + (len L - I)) with (len L) by lia. reflexivity.
  - intros x Hx. apply In_nth with (d:=0) in Hx. destruct Hx as (n & Hn & <-).
    rewrite skipn_length in Hn. rewrite nth_skipn.
    specialize (H (I + Z.of_nat n)). unfold nthZ, nthd in H.
    replace (Z.to_nat (I + Z.of_nat n)) with (Z.to_nat I + n)%nat in H by lia. apply H. unfold len in *. lia.
Qed.

Lemma len_matches_from key R j0 : len (matches_from key R j0) <= len R.
Proof.
  revert j0. induction R as [|x t IH]; intros j0; cbn [matches_from]; [lia|].
  rewrite len_cons. destruct (x =? key); [rewrite len_cons|]; specialize (IH (j0 + 1)); lia.
Qed.

Lemma len_row emit inv R i key : len (row emit inv R i key) <= len R + 1.
Proof.
  unfold row. pose proof (len_matches_from key R 0) as H. unfold matches.
  destruct (matches_from key R 0) eqn:E.
  - destruct emit; [rewrite len_cons, len_nil|rewrite len_nil]; pose proof (len_nonneg R); lia.
  - unfold len in *. rewrite map_length. lia.
Qed.

Lemma len_jf emit inv R : forall l i0, len (jf emit inv l R i0) <= len l * (len R + 1).
Proof.
  induction l as [|x t IH]; intros i0; cbn [jf]; [unfold len; cbn [length]; lia|].
  rewrite len_app, len_cons. pose proof (len_row emit inv R i0 x). specialize (IH (i0 + 1)). nia.
Qed.

Lemma len_rows_upto emit inv L R I : 0 <= I <= len L -> len (rows_upto emit inv L R I) <= I * (len R + 1).
Proof.
  intros H. unfold rows_upto. pose proof (len_jf emit inv R (firstn (Z.to_nat I) L) 0) as H1.
  rewrite len_firstn in H1 by lia. exact H1.
Qed.

(* the row of a key on a sorted right side, given the interval of its matches *)
Lemma row_interval emit inv R i key a b :
  0 <= a <= b -> b <= len R ->
  (forall j, 0 <= j < a -> nthZ R j <> key) ->
  (forall j, a <= j < b -> nthZ R j = key) ->
  (forall j, b <= j < len R -> nthZ R j <> key) ->
  row emit inv R i key = if a <? b then map (fun j => (i, j)) (seqZ a (b - a))
                         else if emit then [(i, inv)] else [].
Proof.
  intros Hab Hb H1 H2 H3. unfold row, matches.
  rewrite (matches_from_interval key R 0 a b) by (try lia; assumption). rewrite Z.add_0_l.
  destruct (a <? b) eqn:E.
  - rewrite (seqZ_cons a (b - a)) by lia. reflexivity.
  - rewrite seqZ_nil by lia. reflexivity.
Qed.

(* every row of the join holds a left row index in range and a right row index in range or the marker *)
Lemma matches_from_range key R : forall j0 j, In j (matches_from key R j0) -> j0 <= j < j0 + len R.
Proof.
  induction R as [|x t IH]; intros j0 j Hin; cbn [matches_from] in Hin; [contradiction|].
  rewrite len_cons. pose proof (len_nonneg t).
  destruct (x =? key).
  - destruct Hin as [<-|Hin]; [lia|]. specialize (IH _ _ Hin). lia.
  - specialize (IH _ _ Hin). lia.
Qed.

Lemma row_range emit inv R i key p : In p (row emit inv R i key) ->
  fst p = i /\ (snd p = inv \/ 0 <= snd p < len R).
Proof.
  unfold row, matches. destruct (matches_from key R 0) eqn:E.
  - destruct emit; [|contradiction]. intros [<-|[]]. cbn. auto.
  - rewrite <- E. intros Hin. apply in_map_iff in Hin. destruct Hin as (j & <- & Hj).
    apply matches_from_range in Hj. cbn. split; [reflexivity|right; lia].
Qed.

Lemma jf_range emit inv R : forall l i0 p, In p (jf emit inv l R i0) ->
  i0 <= fst p < i0 + len l /\ (snd p = inv \/ 0 <= snd p < len R).
Proof.
  induction l as [|x t IH]; intros i0 p Hin; cbn [jf] in Hin; [contradiction|].
  rewrite len_cons. pose proof (len_nonneg t).
  apply in_app_or in Hin. destruct Hin as [Hin|Hin].
  - apply row_range in Hin. destruct Hin as [H1 H2]. split; [lia|exact H2].
  - specialize (IH _ _ Hin). destruct IH as [H1 H2]. split; [lia|exact H2].
Qed.

Lemma join_spec_range emit inv L R p : In p (join_spec emit inv L R) ->
  0 <= fst p < len L /\ (snd p = inv \/ 0 <= snd p < len R).
Proof. rewrite <- jf_spec. intros H. apply jf_range in H. lia. Qed.

(* ------------------------------------------------------------------ prefixes of the join (E3 / C12)
   rows_upto I, extended by any prefix of row I, is a prefix of the whole join *)
Lemma rows_upto_split emit inv L R I : 0 <= I <= len L ->
  join_spec emit inv L R = rows_upto emit inv L R I ++ jf emit inv (skipn (Z.to_nat I) L) R I.
Proof.
  intros HI. rewrite <- jf_spec. rewrite <- (firstn_skipn (Z.to_nat I) L) at 1.
  rewrite jf_app. unfold rows_upto. rewrite len_firstn by lia. rewrite Z.add_0_l. reflexivity.
Qed.

Lemma rows_upto_prefix emit inv L R I : 0 <= I <= len L ->
  exists rest, join_spec emit inv L R = rows_upto emit inv L R I ++ rest.
Proof. intros HI. eexists. apply rows_upto_split. exact HI. Qed.

Lemma rows_row_prefix emit inv L R I pre suf : 0 <= I < len L ->
  row emit inv R I (nthZ L I) = pre ++ suf ->
  exists rest, join_spec emit inv L R = (rows_upto emit inv L R I ++ pre) ++ rest.
Proof.
  intros HI Hrow. destruct (rows_upto_prefix emit inv L R (I + 1) ltac:(lia)) as (rest & E).
  exists (suf ++ rest). rewrite E, rows_upto_succ by lia. rewrite Hrow, <- !app_assoc. reflexivity.
Qed.

Lemma matches_from_app key l1 l2 j0 :
  matches_from key (l1 ++ l2) j0 = matches_from key l1 j0 ++ matches_from key l2 (j0 + len l1).
Proof.
  revert j0. induction l1 as [|x t IH]; intros j0; cbn [app matches_from].
  - rewrite len_nil, Z.add_0_r. reflexivity.
  - rewrite IH, len_cons. replace (j0 + 1 + len t) with (j0 + (len t + 1)) by lia.
    destruct (x =? key); reflexivity.
Qed.

(* on a right side whose keys before a differ from key and whose keys a..c-1 equal it, the row of
   key starts with the pairs (i,a) .. (i,c-1) *)
Lemma row_run_prefix emit inv R i key a c : 0 <= a < c -> c <= len R ->
  (forall j, 0 <= j < a -> nthZ R j <> key) ->
  (forall j, a <= j < c -> nthZ R j = key) ->
  exists suf, row emit inv R i key = map (fun j => (i, j)) (seqZ a (c - a)) ++ suf.
Proof.
  intros Hac Hc Hlt Heq.
  assert (Hlf : len (firstn (Z.to_nat c) R) = c) by (apply len_firstn; lia).
  assert (Hnth : forall j, 0 <= j < c -> nthZ (firstn (Z.to_nat c) R) j = nthZ R j).
  { intros j Hj. unfold nthZ, nthd. apply nth_firstn. lia. }
  assert (Hm : matches key R = seqZ a (c - a) ++ matches_from key (skipn (Z.to_nat c) R) c).
  { unfold matches. rewrite <- (firstn_skipn (Z.to_nat c) R) at 1. rewrite matches_from_app, Hlf, Z.add_0_l.
    f_equal. rewrite (matches_from_interval key _ 0 a c); try lia.
    - rewrite Z.add_0_l. reflexivity.
    - intros j Hj. rewrite Hnth by lia. apply Hlt. exact Hj.
    - intros j Hj. rewrite Hnth by lia. apply Heq. exact Hj. }
  unfold row. rewrite Hm. rewrite (seqZ_cons a (c - a)) by lia. cbn [app].
  eexists. rewrite <- map_app. cbn [map app]. reflexivity.
Qed.
