(* Proofs/JournalKeysProofs.v — key_enc is an order isomorphism between the stored cells of an S<w> column (bytewise
   lexicographic order) and Z; consequences for journal_table on byte keys (C17, strengthening). *)
From Coq Require Import ZArith List Bool Lia.
From EV Require Import Res Arr Journal JournalSpec JournalKeys JournalKeysSpec JournalMain JournalFinal.
Import ListNotations.
Open Scope Z_scope.

Lemma pow256_pos n : 0 < 256 ^ len (A:=Z) n.
Proof. apply Z.pow_pos_nonneg; [lia | apply len_nonneg]. Qed.

Lemma be_bound l : is_bytes l -> 0 <= be_val l < 256 ^ len l.
Proof.
  induction 1 as [|b t Hb Ht IH]; cbn [be_val].
  - cbn. lia.
  - rewrite len_cons. rewrite Z.pow_add_r by (try apply len_nonneg; lia).
    pose proof (pow256_pos t) as Hp. rewrite Z.pow_1_r. nia.
Qed.

Lemma be_lt_iff : forall a b, length a = length b -> is_bytes a -> is_bytes b ->
  (lex_lt a b <-> be_val a < be_val b).
Proof.
  induction a as [|x a IH]; intros [|y b] Hl Ha Hb; cbn [lex_lt be_val]; try discriminate.
  - lia.
  - inversion Ha as [|? ? Hx Ha']; inversion Hb as [|? ? Hy Hb']; subst.
    assert (Hl' : length a = length b) by (cbn in Hl; lia).
    specialize (IH b Hl' Ha' Hb').
    pose proof (be_bound a Ha') as Ba. pose proof (be_bound b Hb') as Bb.
    assert (Hlen : len a = len b) by (unfold len; rewrite Hl'; reflexivity).
    rewrite Hlen in *. pose proof (pow256_pos b) as Hp.
    set (P := 256 ^ len b) in *.
    split.
    + intros [Hlt | [Heq Hr]].
      * assert (x + 1 <= y) by lia. nia.
      * subst. apply IH in Hr. lia.
    + intros Hv. destruct (Z_lt_dec x y) as [Hxy|Hxy]; [left; exact Hxy|].
      destruct (Z.eq_dec x y) as [He|He].
      * right. split; [exact He|]. subst. apply IH. lia.
      * exfalso. assert (y + 1 <= x) by lia. nia.
Qed.

Lemma be_inj : forall a b, length a = length b -> is_bytes a -> is_bytes b -> be_val a = be_val b -> a = b.
Proof.
  induction a as [|x a IH]; intros [|y b] Hl Ha Hb Hv; cbn [be_val] in *; try discriminate; [reflexivity|].
  inversion Ha as [|? ? Hx Ha']; inversion Hb as [|? ? Hy Hb']; subst.
  assert (Hl' : length a = length b) by (cbn in Hl; lia).
  pose proof (be_bound a Ha') as Ba. pose proof (be_bound b Hb') as Bb.
  assert (Hlen : len a = len b) by (unfold len; rewrite Hl'; reflexivity).
  rewrite Hlen in *. pose proof (pow256_pos b) as Hp.
  set (P := 256 ^ len b) in *.
  assert (x = y).
  { destruct (Z_lt_dec x y); [assert (x + 1 <= y) by lia; nia|].
    destruct (Z_lt_dec y x); [assert (y + 1 <= x) by lia; nia|]. lia. }
  subst. f_equal. apply IH; auto. lia.
Qed.

Lemma pad_length w bs : length (pad w bs) = w.
Proof. unfold pad. rewrite firstn_length, app_length, repeat_length. lia. Qed.

Lemma in_firstn {A} (x:A) n l : In x (firstn n l) -> In x l.
Proof.
  revert l. induction n as [|n IH]; intros [|y l] H; cbn in H; try contradiction.
  destruct H as [H|H]; [left; exact H|right; apply IH; exact H].
Qed.

Lemma pad_bytes w bs : is_bytes bs -> is_bytes (pad w bs).
Proof.
  intros H. unfold pad, is_bytes in *. apply Forall_forall. intros x Hx.
  apply in_firstn in Hx. apply in_app_or in Hx. destruct Hx as [Hx|Hx].
  - rewrite Forall_forall in H. auto.
  - apply repeat_spec in Hx. subst. lia.
Qed.

(* ---- the order isomorphism ----------------------------------------------------------- *)
Theorem key_enc_lt_iff : forall w a b, is_bytes a -> is_bytes b ->
  (key_lt w a b <-> key_enc w a < key_enc w b).
Proof.
  intros w a b Ha Hb. unfold key_lt, key_enc. apply be_lt_iff.
  - rewrite !pad_length. reflexivity.
  - apply pad_bytes; exact Ha.
  - apply pad_bytes; exact Hb.
Qed.

Theorem key_enc_eq_iff : forall w a b, is_bytes a -> is_bytes b ->
  (key_eq w a b <-> key_enc w a = key_enc w b).
Proof.
  intros w a b Ha Hb. unfold key_eq, key_enc. split.
  - intros ->. reflexivity.
  - apply be_inj; [rewrite !pad_length; reflexivity | apply pad_bytes; exact Ha | apply pad_bytes; exact Hb].
Qed.

(* ---- boolean versions ---------------------------------------------------------------- *)
Lemma lex_ltb_spec a b : lex_ltb a b = true <-> lex_lt a b.
Proof.
  revert b. induction a as [|x a IH]; intros [|y b]; cbn [lex_ltb lex_lt]; try (split; [discriminate|tauto]); try tauto.
  rewrite orb_true_iff, andb_true_iff, Z.ltb_lt, Z.eqb_eq, IH. tauto.
Qed.

Lemma list_eqb_eq a b : list_eqb a b = true <-> a = b.
Proof.
  revert b. induction a as [|x a IH]; intros [|y b]; cbn [list_eqb]; try (split; [discriminate|discriminate]); try tauto.
  rewrite andb_true_iff, Z.eqb_eq, IH. split; [intros [-> ->]; reflexivity | intros H; inversion H; auto].
Qed.

Definition cellw (w:nat) (x:list Z) : Prop := length x = w /\ is_bytes x.

Lemma ltb_be w x y : cellw w x -> cellw w y -> lex_ltb x y = (be_val x <? be_val y).
Proof.
  intros [Lx Bx] [Ly By]. apply eq_true_iff_eq. rewrite lex_ltb_spec, Z.ltb_lt.
  apply be_lt_iff; auto. congruence.
Qed.

Lemma eqb_be w x y : cellw w x -> cellw w y -> list_eqb x y = (be_val x =? be_val y).
Proof.
  intros [Lx Bx] [Ly By]. apply eq_true_iff_eq. rewrite list_eqb_eq, Z.eqb_eq. split.
  - intros ->. reflexivity.
  - apply be_inj; auto. congruence.
Qed.

Lemma ins_key_lex_cells w x l : cellw w x -> Forall (cellw w) l -> Forall (cellw w) (ins_key_lex x l).
Proof.
  intros Hx Hl. induction Hl as [|y t Hy Ht IH]; cbn [ins_key_lex].
  - constructor; [exact Hx|constructor].
  - destruct (lex_ltb x y); [constructor; [exact Hx|constructor; assumption]|].
    destruct (list_eqb x y); constructor; assumption.
Qed.

Lemma ins_key_enc w x l : cellw w x -> Forall (cellw w) l ->
  ins_key (be_val x) (map be_val l) = map be_val (ins_key_lex x l).
Proof.
  intros Hx Hl. induction Hl as [|y t Hy Ht IH]; cbn [ins_key_lex ins_key map]; [reflexivity|].
  rewrite (ltb_be w x y Hx Hy), (eqb_be w x y Hx Hy).
  destruct (be_val x <? be_val y); [reflexivity|].
  destruct (be_val x =? be_val y); [reflexivity|].
  cbn [map]. rewrite IH. reflexivity.
Qed.

Lemma fold_ins_enc w (ks:list (list Z)) : Forall (cellw w) ks ->
  Forall (cellw w) (fold_right ins_key_lex [] ks) /\
  fold_right ins_key [] (map be_val ks) = map be_val (fold_right ins_key_lex [] ks).
Proof.
  induction 1 as [|x t Hx Ht [IHc IHe]]; cbn [fold_right map].
  - split; [constructor|reflexivity].
  - split; [apply ins_key_lex_cells; assumption|].
    rewrite IHe. apply (ins_key_enc w); assumption.
Qed.

(* the ascending distinct codes are the codes of the ascending (lexicographic) distinct cells *)
Theorem all_keys_enc : forall w okeys nkeys, Forall is_bytes okeys -> Forall is_bytes nkeys ->
  all_keys (map (key_enc w) okeys) (map (key_enc w) nkeys) = map be_val (all_keys_lex w okeys nkeys).
Proof.
  intros w okeys nkeys Ho Hn. unfold all_keys, all_keys_lex.
  rewrite <- map_app.
  assert (Hc : Forall (cellw w) (map (pad w) (okeys ++ nkeys))).
  { apply Forall_forall. intros c Hc. apply in_map_iff in Hc. destruct Hc as [k [<- Hk]].
    split; [apply pad_length|apply pad_bytes].
    apply in_app_or in Hk. destruct Hk as [Hk|Hk]; [rewrite Forall_forall in Ho|rewrite Forall_forall in Hn]; auto. }
  destruct (fold_ins_enc w _ Hc) as [_ He]. rewrite <- He.
  rewrite map_map. reflexivity.
Qed.

Lemma NoDup_map_on {A B} (f:A -> B) (l:list A) :
  (forall x y, In x l -> In y l -> f x = f y -> x = y) -> NoDup l -> NoDup (map f l).
Proof.
  intros Hinj Hnd. induction Hnd as [|x t Hx Ht IH]; cbn [map]; constructor.
  - intros Hin. apply in_map_iff in Hin. destruct Hin as [y [Hxy Hy]].
    assert (y = x) by (apply Hinj; [right; exact Hy|left; reflexivity|exact Hxy]). subst. contradiction.
  - apply IH. intros a b Ha Hb. apply Hinj; right; assumption.
Qed.

(* journal_table on byte keys, whatever the size parameters: the per-key history specification over the codes *)
Theorem journal_table_bytes_correct : forall w cs scs fuel okeys ovf nkeys fields,
  length okeys = length ovf -> Forall is_bytes okeys -> Forall is_bytes nkeys ->
  NoDup (map (pad w) nkeys) -> Forall wf_field fields ->
  Z.of_nat fuel > len okeys + len nkeys ->
  journal_table_bytes w cs scs fuel okeys ovf nkeys fields =
  Ok (journal_spec (map (key_enc w) okeys) ovf (map (key_enc w) nkeys) fields).
Proof.
  intros w cs scs fuel okeys ovf nkeys fields Hl Ho Hn Hnd Hwf Hf.
  unfold journal_table_bytes, journal_table_sized.
  apply journal_table_correct; auto.
  - rewrite map_length. exact Hl.
  - unfold key_enc. rewrite <- map_map. apply NoDup_map_on; [|exact Hnd].
    intros x y Hx Hy. apply in_map_iff in Hx. apply in_map_iff in Hy.
    destruct Hx as [a [<- Ha]]. destruct Hy as [b [<- Hb]]. rewrite Forall_forall in Hn.
    apply be_inj; [rewrite !pad_length; reflexivity | apply pad_bytes; auto | apply pad_bytes; auto].
  - unfold len in *. rewrite !map_length. exact Hf.
Qed.

Theorem journal_table_size_independent : forall cs scs fuel okeys ovf nkeys fields,
  length okeys = length ovf -> NoDup nkeys -> Forall wf_field fields ->
  Z.of_nat fuel > len okeys + len nkeys ->
  journal_table_sized cs scs fuel okeys ovf nkeys fields = Ok (journal_spec okeys ovf nkeys fields).
Proof. intros. unfold journal_table_sized. apply journal_table_correct; assumption. Qed.
