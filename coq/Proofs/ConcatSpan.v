(* Proofs/ConcatSpan.v — C16: one iteration of the span loop of _apply_spans_concat_2 writes
   concat_entry of the span's strings and records the end offset. *)
From Coq Require Import ZArith List Lia Bool ZifyBool.
From EV Require Import Res Arr Concat ConcatSpec ConcatLists ConcatKernel.
Import ListNotations.
Open Scope Z_scope.

Lemma SEP_ne_DELIM : SEP <> DELIM.
Proof. unfold SEP, DELIM. lia. Qed.

Lemma blit_blit0 dv x y : len x + len y <= len dv -> blit (blit dv 0 x) (len x) y = blit dv 0 (x ++ y).
Proof. intros H. rewrite <- (blit_blit dv 0 x y) by lia. f_equal. Qed.

(* the value part: what the span writes into dest_values *)
Lemma span_values_ok strs a b dv0 acc :
  0 <= a <= len strs -> 0 <= b <= len strs ->
  let si := psums (map (@len Z) strs) in
  let sv := concat strs in
  let e := concat_entry (slice strs a b) in
  len acc + len e <= len dv0 ->
  exists cur nxt,
    get 2 si a = Ok cur /\ get 2 si b = Ok nxt /\
    (do non_empties <-
        (if b - a =? 1 then Ok (if nxt - cur >? 0 then 1 else 0)
         else if b - a >? 1 then count_nonempty (Z.to_nat (b - a)) a si 0
         else Ok 0);
     if non_empties =? 1 then
        do '(comma, quotes) <- scan_flags (Z.to_nat (nxt - cur)) cur sv SEP DELIM false false;
        emit_range cur nxt sv (blit dv0 0 acc) DELIM (comma || quotes) (len acc) 0
      else if non_empties >? 1 then
        multi_loop (Z.to_nat (b - a)) a a si sv (blit dv0 0 acc) SEP DELIM (len acc) 0 true
      else Ok (blit dv0 0 acc, 0))
    = Ok (blit dv0 0 (acc ++ e), len e).
Proof.
  intros Ha Hb si sv e Hfit.
  pose proof (len_nonneg acc) as Hacc. pose proof (len_nonneg e) as He.
  assert (Hlsi : len si = len strs + 1) by (unfold si; rewrite psums_len, len_map; reflexivity).
  destruct (Z_le_gt_dec b a) as [Hba|Hab].
  - (* empty or reversed span: nothing is written *)
    exists (nthZ si a), (nthZ si b).
    rewrite !getZ_ok by lia. split; [reflexivity|]. split; [reflexivity|].
    assert ((b - a =? 1) = false) as -> by lia. assert ((b - a >? 1) = false) as -> by lia.
    cbn [bind]. change (0 =? 1) with false. change (0 >? 1) with false. cbn iota.
    unfold e. rewrite slice_empty by lia. change (concat_entry []) with (@nil Z).
    rewrite app_nil_r. reflexivity.
  - set (ws := slice strs a b) in *.
    set (F := firstn (Z.to_nat a) strs). set (T := skipn (Z.to_nat b) strs).
    assert (Hlws : len ws = b - a) by (apply len_slice; lia).
    destruct (psums_frame strs a b ltac:(lia) ltac:(lia) ltac:(lia)) as (sp & sp2 & Hsp & Hsp2 & Hsi1 & Hsi2).
    fold ws F T in Hsi1, Hsi2. fold si in Hsi1, Hsi2.
    assert (Hsv : sv = concat F ++ concat ws ++ concat T).
    { unfold sv. rewrite (firstn_skipn_slice strs a b) at 1 by lia. rewrite !concat_app. reflexivity. }
    set (o := len (concat F)) in *.
    exists o, (o + len (concat ws)).
    split.
    { rewrite Hsi1, <- Hsp. rewrite psums_from_offs. apply get_app_mid. }
    split.
    { rewrite Hsi2. replace b with (len (sp ++ sp2)) by (rewrite len_app; lia).
      rewrite psums_from_offs. apply get_app_mid. }
    replace (o + len (concat ws) - o) with (len (concat ws)) by lia.
    assert (Hne : (do non_empties <-
        (if b - a =? 1 then Ok (if len (concat ws) >? 0 then 1 else 0)
         else if b - a >? 1 then count_nonempty (Z.to_nat (b - a)) a si 0
         else Ok 0); Ok non_empties) = Ok (cnt ws)).
    { pose proof (cnt_nonneg ws) as Hc0. pose proof (cnt_le_len ws) as Hc1.
      destruct (b - a =? 1) eqn:E1.
      - cbn [bind]. f_equal. rewrite concat_pos. destruct (cnt ws >? 0) eqn:E; lia.
      - assert ((b - a >? 1) = true) as -> by lia.
        replace (Z.to_nat (b - a)) with (length ws) by (rewrite <- to_nat_len; lia).
        rewrite Hsi1, <- Hsp. rewrite count_nonempty_ok. reflexivity. }
    assert (Hne' : (if b - a =? 1 then Ok (if len (concat ws) >? 0 then 1 else 0)
         else if b - a >? 1 then count_nonempty (Z.to_nat (b - a)) a si 0
         else Ok 0) = Ok (cnt ws)).
    { destruct (if b - a =? 1 then Ok (if len (concat ws) >? 0 then 1 else 0)
         else if b - a >? 1 then count_nonempty (Z.to_nat (b - a)) a si 0 else Ok 0); cbn [bind] in Hne; congruence. }
    rewrite Hne'. cbn [bind]. clear Hne Hne'.
    pose proof (cnt_nonneg ws) as Hc0.
    replace (blit dv0 0 acc) with (blit (blit dv0 0 acc) (len acc) []) by apply blit_nil.
    assert (Hl0 : len (blit dv0 0 acc) = len dv0) by (apply len_blit; lia).
    destruct (cnt ws =? 1) eqn:E1.
    + (* exactly one non-empty entry: the whole byte range of the span is that entry *)
      rewrite Hsv. unfold o. rewrite to_nat_len.
      rewrite (scan_flags_ok SEP DELIM SEP_ne_DELIM). cbn [bind orb].
      fold (cq_of SEP DELIM (concat ws)).
      change 0 with (len (@nil Z)) at 2.
      assert (Hent : esc DELIM (cq_of SEP DELIM (concat ws)) (concat ws) = e).
      { unfold e. rewrite cnt_one_entry by lia. apply esc_csv. }
      rewrite (emit_range_ok DELIM (concat ws) (concat F) (concat T)); try lia; try reflexivity.
      * rewrite Hent. cbn [app].
        rewrite blit_blit0 by lia. reflexivity.
      * rewrite Hent, Hl0. change (len (@nil Z)) with 0. lia.
    + destruct (cnt ws >? 1) eqn:E2.
      * (* several non-empty entries *)
        replace (Z.to_nat (b - a)) with (length ws) by (rewrite <- to_nat_len; lia).
        rewrite Hsv, Hsi1, <- Hsp.
        change 0 with (len (@nil Z)) at 2. change true with (negb false) at 1.
        assert (Hent : join_from SEP DELIM false ws = e) by (unfold e; apply join_from_entry).
        rewrite (multi_loop_ok SEP DELIM SEP_ne_DELIM); try lia; try reflexivity; try discriminate.
        -- rewrite Hent. cbn [app].
           rewrite blit_blit0 by lia. reflexivity.
        -- rewrite Hent, Hl0. change (len (@nil Z)) with 0. lia.
      * (* no non-empty entry *)
        assert (Hz : cnt ws = 0) by lia.
        destruct (cnt_zero_entry ws Hz) as [Hent _]. fold e in Hent.
        rewrite Hent. rewrite blit_nil, app_nil_r. reflexivity.
Qed.

Lemma one_span_ok strs spre a b srest iacc x irest dv0 acc start_v :
  0 <= a <= len strs -> 0 <= b <= len strs ->
  let e := concat_entry (slice strs a b) in
  len acc + len e <= len dv0 ->
  one_span (len spre) (spre ++ a :: b :: srest) (psums (map (@len Z) strs)) (concat strs)
           (iacc ++ x :: irest) (blit dv0 0 acc) SEP DELIM start_v (len iacc) (len acc)
  = Ok ((iacc ++ [len acc + len e + start_v]) ++ irest, blit dv0 0 (acc ++ e), len iacc + 1, len acc + len e).
Proof.
  intros Ha Hb e Hfit. unfold one_span.
  rewrite get_app_mid. cbn [bind].
  rewrite snoc_frame_cons, <- (len_snoc spre a), get_app_mid. cbn [bind].
  destruct (span_values_ok strs a b dv0 acc Ha Hb Hfit) as (cur & nxt & G1 & G2 & Hv).
  rewrite G1, G2. cbn [bind].
  apply bind_ok in Hv. destruct Hv as (n & Hn & Hv).
  rewrite Hn. cbn [bind]. rewrite Hv. cbn [bind]. fold e.
  rewrite set_app_mid. cbn [bind]. rewrite <- app_assoc. reflexivity.
Qed.
