(* Proofs/FieldWorldProofs.v — C01, Part 1 of Model/FieldWorld.v: fields are independent.
   What field i holds after an interleaved history over several fields is what it holds after its
   own operations alone; hence the round-trip theorem of IdxWriterProofs holds per field for every
   interleaving. *)
From Coq Require Import ZArith List Lia Bool.
From EV Require Import Res Arr IdxWriter IdxWriterSpec StoreProofs IdxWriterProofs FieldWorld.
Import ListNotations.
Open Scope Z_scope.

(* ---- get / set on lists ------------------------------------------------------------------ *)
Section GS.
Context {X:Type}.

Lemma set_inv s (l l':list X) i v : set s l i v = Ok l' -> 0 <= i < len l /\ l' = upd l i v.
Proof.
  intros H. destruct (Z_lt_dec i 0) as [Hn|Hn].
  - rewrite set_oob in H by lia. discriminate.
  - destruct (Z_lt_dec i (len l)) as [Hl|Hl].
    + rewrite set_ok in H by lia. inversion H. split; [lia|reflexivity].
    + rewrite set_oob in H by lia. discriminate.
Qed.

Lemma get_site s s' (l:list X) i v : get s l i = Ok v -> get s' l i = Ok v.
Proof.
  unfold get. destruct (i <? 0); [discriminate|]. destruct (nth_error l (Z.to_nat i)); [auto|discriminate].
Qed.

Lemma get_upd_same s (l:list X) i v : 0 <= i < len l -> get s (upd l i v) i = Ok v.
Proof.
  intros H. rewrite (get_ok s v) by (rewrite len_upd; exact H). rewrite nthd_upd_same by exact H. reflexivity.
Qed.

Lemma get_upd_other s (l:list X) i j v : 0 <= i -> i <> j -> get s (upd l i v) j = get s l j.
Proof.
  intros Hi Hij. destruct (Z_lt_dec j 0) as [Hn|Hn].
  - rewrite !get_oob by (try rewrite len_upd; lia). reflexivity.
  - destruct (Z_lt_dec j (len l)) as [Hl|Hl].
    + rewrite !(get_ok s v) by (try rewrite len_upd; lia).
      rewrite nthd_upd_other by lia. reflexivity.
    + rewrite !get_oob by (try rewrite len_upd; lia). reflexivity.
Qed.

Lemma get_app_l s (l1 l2:list X) i v : get s l1 i = Ok v -> get s (l1 ++ l2) i = Ok v.
Proof.
  intros H. pose proof (get_Ok_inv _ _ _ _ H) as R. rewrite (get_ok s v) in H by exact R.
  rewrite (get_ok s v) by (rewrite len_app; pose proof (len_nonneg l2); lia).
  rewrite nthd_app_l by exact R. exact H.
Qed.

Lemma get_app_new s (l:list X) v : get s (l ++ [v]) (len l) = Ok v.
Proof.
  rewrite (get_ok s v) by (rewrite len_app; pose proof (len_nonneg l); cbn; unfold len; cbn; lia).
  rewrite nthd_app_r by lia. replace (len l - len l) with 0 by lia. reflexivity.
Qed.
End GS.

(* ---- map_res ------------------------------------------------------------------------------ *)
Lemma map_res_get {X Y} (f:X -> res Y) : forall (l:list X) (l':list Y), map_res f l = Ok l' ->
  len l' = len l /\ forall s i x, get s l i = Ok x -> exists y, f x = Ok y /\ get s l' i = Ok y.
Proof.
  induction l as [|a t IH]; intros l' H; cbn [map_res] in H.
  - inversion H. split; [reflexivity|]. intros s i x G. apply get_Ok_inv in G. cbn in G. unfold len in G; cbn in G; lia.
  - apply bind_ok in H. destruct H as (y & Hy & H). apply bind_ok in H. destruct H as (t' & Ht & H).
    inversion H; subst l'. destruct (IH t' Ht) as (L & G). split; [rewrite !len_cons; lia|].
    intros s i x Gx. pose proof (get_Ok_inv _ _ _ _ Gx) as R. rewrite len_cons in R.
    destruct (Z.eq_dec i 0) as [->|Hi].
    + cbn in Gx. inversion Gx; subst x. exists y. split; [exact Hy|reflexivity].
    + assert (Gt : get s t (i - 1) = Ok x).
      { rewrite (get_ok s x) in Gx by (rewrite len_cons; lia). rewrite (get_ok s x) by lia.
        replace i with ((i - 1) + 1) in Gx by lia. rewrite nthd_cons_succ in Gx by lia. exact Gx. }
      destruct (G s (i - 1) x Gt) as (y' & Hy' & Gy'). exists y'. split; [exact Hy'|].
      pose proof (get_Ok_inv _ _ _ _ Gy') as R'.
      rewrite (get_ok s y') in Gy' by exact R'. rewrite (get_ok s y') by (rewrite len_cons; lia).
      replace i with ((i - 1) + 1) at 1 by lia. rewrite nthd_cons_succ by lia. exact Gy'.
Qed.

Lemma map_res_total {X Y} (f:X -> res Y) : forall (l:list X),
  (forall x, In x l -> exists y, f x = Ok y) -> exists l', map_res f l = Ok l'.
Proof.
  induction l as [|a t IH]; intros H; cbn [map_res].
  - eauto.
  - destruct (H a (or_introl eq_refl)) as (y & Hy). rewrite Hy. cbn [bind].
    destruct (IH (fun x Hx => H x (or_intror Hx))) as (t' & Ht). rewrite Ht. cbn [bind]. eauto.
Qed.

(* ---- the projection of an interleaved history -------------------------------------------- *)
Lemma proj_cons_same i m t : proj i ((i, m) :: t) = m :: proj i t.
Proof. unfold proj. cbn [filter fst]. rewrite Z.eqb_refl. reflexivity. Qed.

Lemma proj_cons_other i j m t : j <> i -> proj i ((j, m) :: t) = proj i t.
Proof. intros H. unfold proj. cbn [filter fst]. destruct (j =? i) eqn:E; [lia|reflexivity]. Qed.

Lemma world_step_len fs i m fs' : world_step fs i m = Ok fs' -> len fs' = len fs.
Proof.
  unfold world_step. intros H. apply bind_ok in H. destruct H as (f & _ & H).
  apply bind_ok in H. destruct H as (f' & _ & H). apply set_inv in H. destruct H as (_ & ->). apply len_upd.
Qed.

(* (a) soundness: whatever the interleaving did to field i is what field i's own history does *)
Lemma world_run_proj : forall h fs fs', world_run fs h = Ok fs' ->
  forall i, get 30 fs' i = bind (get 30 fs i) (fun f => fld_run f (proj i h)).
Proof.
  induction h as [|[j m] t IH]; intros fs fs' H i; cbn [world_run] in H.
  - inversion H; subst fs'. unfold proj. cbn [filter map fld_run]. destruct (get 30 fs i); reflexivity.
  - apply bind_ok in H. destruct H as (fs1 & Hs & H). rewrite (IH fs1 fs' H i).
    unfold world_step in Hs. apply bind_ok in Hs. destruct Hs as (fj & Gj & Hs).
    apply bind_ok in Hs. destruct Hs as (fj' & Oj & Hs). apply set_inv in Hs. destruct Hs as (R & ->).
    destruct (Z.eq_dec j i) as [->|Hij].
    + rewrite get_upd_same by exact R. rewrite Gj. cbn [bind]. rewrite proj_cons_same. cbn [fld_run].
      rewrite Oj. reflexivity.
    + rewrite get_upd_other by (try exact Hij; lia). rewrite proj_cons_other by exact Hij. reflexivity.
Qed.

(* (b) totality: if every field's own history runs, every interleaving of them runs *)
Lemma world_run_total : forall h fs,
  (forall i m, In (i, m) h -> 0 <= i < len fs) ->
  (forall i f, get 30 fs i = Ok f -> exists f', fld_run f (proj i h) = Ok f') ->
  exists fs', world_run fs h = Ok fs'.
Proof.
  induction h as [|[j m] t IH]; intros fs Hr Hp; cbn [world_run].
  - eauto.
  - assert (Rj : 0 <= j < len fs) by (apply (Hr j m); left; reflexivity).
    destruct fs as [|f0 ft] eqn:Efs; [unfold len in Rj; cbn in Rj; lia|]. rewrite <- Efs in *.
    pose proof (get_ok 30 f0 fs j Rj) as Gj.
    destruct (Hp j _ Gj) as (fj2 & Hrun). rewrite proj_cons_same in Hrun. cbn [fld_run] in Hrun.
    apply bind_ok in Hrun. destruct Hrun as (fj' & Oj & Hrun).
    unfold world_step. rewrite Gj. cbn [bind]. rewrite Oj. cbn [bind]. rewrite set_ok by exact Rj. cbn [bind].
    apply IH.
    + intros i m' Hin. rewrite len_upd. apply (Hr i m'). right. exact Hin.
    + intros i f Gi. destruct (Z.eq_dec j i) as [<-|Hij].
      * rewrite get_upd_same in Gi by exact Rj. inversion Gi; subst f. eauto.
      * rewrite get_upd_other in Gi by (try exact Hij; lia). destruct (Hp i f Gi) as (f' & Hf).
        rewrite proj_cons_other in Hf by exact Hij. eauto.
Qed.

(* ---- one field alone ----------------------------------------------------------------------- *)
(* the writer operations of a field's history (reads leave no trace) *)
Definition mops_iw (ms:list mop) : list iwop :=
  flat_map (fun m => match m with MOp o => [o] | MRead => [] end) ms.

Lemma fld_run_idx : forall ms w w', iw_run w (mops_iw ms) = Ok w' -> fld_run (FIdx w) ms = Ok (FIdx w').
Proof.
  induction ms as [|m t IH]; intros w w' H; cbn [mops_iw flat_map] in H; cbn [fld_run].
  - cbn in H. inversion H. reflexivity.
  - destruct m as [o|]; cbn [app] in H.
    + cbn [iw_run] in H. apply bind_ok in H. destruct H as (w1 & O & H).
      cbn [fld_op]. rewrite O. cbn [bind]. apply IH. exact H.
    + cbn [fld_op bind]. apply IH. exact H.
Qed.

(* plain fields: every operation succeeds; the data is the written sequence *)
Lemma st_data_clear_gen {X} (s:store X) : st_data (st_clear s) = [].
Proof. destruct s; reflexivity. Qed.

Lemma fld_run_plain : forall ms s,
  exists s', fld_run (FPlain s) ms = Ok (FPlain s')
             /\ st_data s' = hist_written (st_data s) (mops_iw ms).
Proof.
  induction ms as [|m t IH]; intros s; cbn [fld_run mops_iw flat_map].
  - exists s. split; reflexivity.
  - destruct m as [o|]; cbn [fld_op app].
    + destruct o as [p| |p| |]; cbn [plain_op hist_written].
      * destruct (st_write_part_ok [] s p) as (s1 & H1 & D1). rewrite H1. cbn [bind].
        destruct (IH s1) as (s2 & H2 & D2). exists s2. split; [exact H2|]. rewrite D2, D1. reflexivity.
      * cbn [bind]. apply IH.
      * destruct (st_write_part_ok [] s p) as (s1 & H1 & D1). rewrite H1. cbn [bind].
        destruct (IH s1) as (s2 & H2 & D2). exists s2. split; [exact H2|]. rewrite D2, D1. reflexivity.
      * cbn [bind]. destruct (IH (st_clear s)) as (s2 & H2 & D2). exists s2. split; [exact H2|].
        rewrite D2, st_data_clear_gen. reflexivity.
      * cbn [bind]. apply IH.
    + cbn [bind]. apply IH.
Qed.

(* ---- the theorem ----------------------------------------------------------------------------- *)
(* the admissible worlds: chunk sizes >= 1; each indexed field's own history is one of the property *)
Definition world_ok (specs:list fspec) (h:list (Z * mop)) : Prop :=
  (forall i m, In (i, m) h -> 0 <= i < len specs) /\
  (forall i h5 cs, get 30 specs i = Ok (SIdx h5 cs) ->
     1 <= cs /\ hist_ok false (mops_iw (proj i h)) = true).

(* what field i must hold *)
Definition field_written (i:Z) (h:list (Z * mop)) : list (list Z) := hist_written [] (mops_iw (proj i h)).

Definition field_holds (s:fspec) (f:fld) (strs:list (list Z)) : Prop :=
  match s with
  | SIdx _ _ => fld_idx_data f = (stored_offsets strs, spec_bytes strs)
  | SPlain _ => fld_plain_data f = strs
  end.

Lemma fresh_field_alone (s:fspec) (ms:list mop) :
  (forall h5 cs, s = SIdx h5 cs -> 1 <= cs /\ hist_ok false (mops_iw ms) = true) ->
  exists f0 f, fld_fresh s = Ok f0 /\ fld_run f0 ms = Ok f /\ field_holds s f (hist_written [] (mops_iw ms)).
Proof.
  intros Hs. destruct s as [h5 cs|h5]; cbn [fld_fresh field_holds].
  - destruct (Hs h5 cs eq_refl) as (Hcs & Hok).
    pose proof (idx_writer_roundtrip_lemma h5 cs (mops_iw ms) Hcs Hok) as HR. unfold iw_history in HR.
    apply bind_ok in HR. destruct HR as (w0 & H0 & HR). apply bind_ok in HR. destruct HR as (w & Hw & HR).
    rewrite H0. cbn [bind]. exists (FIdx w0), (FIdx w). split; [reflexivity|]. split.
    + apply fld_run_idx. exact Hw.
    + cbn [fld_idx_data]. inversion HR. reflexivity.
  - destruct (fld_run_plain ms (if h5 then H5 [] else Mem None)) as (s' & Hr & Hd).
    exists (FPlain (if h5 then H5 [] else Mem None)), (FPlain s'). split; [reflexivity|]. split; [exact Hr|].
    cbn [fld_plain_data]. rewrite Hd. destruct h5; reflexivity.
Qed.

Lemma interleaved_roundtrip_lemma (specs:list fspec) (h:list (Z * mop)) :
  world_ok specs h ->
  exists fs, world_history specs h = Ok fs /\ len fs = len specs /\
    forall i s, get 30 specs i = Ok s ->
      exists f, get 30 fs i = Ok f /\ field_holds s f (field_written i h).
Proof.
  intros (Hr & Hi). unfold world_history.
  destruct (map_res_total fld_fresh specs) as (fs0 & H0).
  { intros s Hin. destruct (fresh_field_alone s []) as (f0 & _ & Hf & _).
    - intros h5 cs ->. apply In_nth_error in Hin. destruct Hin as (n & Hn).
      assert (G : get 30 specs (Z.of_nat n) = Ok (SIdx h5 cs)).
      { unfold get. destruct (Z.ltb_spec (Z.of_nat n) 0) as [E|E]; [lia|]. rewrite Nat2Z.id, Hn. reflexivity. }
      destruct (Hi _ _ _ G) as (Hcs & _). split; [exact Hcs|reflexivity].
    - eauto. }
  rewrite H0. cbn [bind]. destruct (map_res_get fld_fresh specs fs0 H0) as (L0 & G0).
  destruct (world_run_total h fs0) as (fs & Hrun).
  { intros i m Hin. rewrite L0. apply (Hr i m Hin). }
  { intros i f Gi. pose proof (get_Ok_inv _ _ _ _ Gi) as R. rewrite L0 in R.
    destruct specs as [|s0 st] eqn:Es; [unfold len in R; cbn in R; lia|]. rewrite <- Es in *.
    pose proof (get_ok 30 s0 specs i R) as Gs. destruct (G0 30 i _ Gs) as (f0 & Hf0 & Gf0).
    rewrite Gi in Gf0. inversion Gf0; subst f0.
    destruct (fresh_field_alone (nthd s0 specs i) (proj i h)) as (f0' & f' & Hf0' & Hrun' & _).
    - intros h5 cs E. apply (Hi i h5 cs). rewrite Gs, E. reflexivity.
    - rewrite Hf0 in Hf0'. inversion Hf0'; subst f0'. eauto. }
  exists fs. split; [exact Hrun|]. split.
  { clear - Hrun L0. revert fs0 fs Hrun L0. induction h as [|[j m] t IH]; intros fs0 fs Hrun L0; cbn [world_run] in Hrun.
    - inversion Hrun; subst. exact L0.
    - apply bind_ok in Hrun. destruct Hrun as (fs1 & Hs & Hrun). apply (IH fs1 fs Hrun).
      rewrite (world_step_len _ _ _ _ Hs). exact L0. }
  intros i s Gs. destruct (G0 30 i s Gs) as (f0 & Hf0 & Gf0).
  destruct (fresh_field_alone s (proj i h)) as (f0' & f' & Hf0' & Hrun' & Hh).
  { intros h5 cs E. apply (Hi i h5 cs). rewrite Gs, E. reflexivity. }
  rewrite Hf0 in Hf0'. inversion Hf0'; subst f0'.
  exists f'. split; [|exact Hh].
  rewrite (world_run_proj h fs0 fs Hrun i), Gf0. cbn [bind]. exact Hrun'.
Qed.

(* the frame property on its own (any fields, any state): an interleaved run, seen from field i,
   is field i's own run *)
Lemma fields_independent_lemma (fs fs':list fld) (h:list (Z * mop)) (i:Z) (f:fld) :
  world_run fs h = Ok fs' -> get 30 fs i = Ok f ->
  exists f', get 30 fs' i = Ok f' /\ fld_run f (proj i h) = Ok f'.
Proof.
  intros Hrun G. pose proof (world_run_proj h fs fs' Hrun i) as P. rewrite G in P. cbn [bind] in P.
  assert (R : 0 <= i < len fs') .
  { assert (L : len fs' = len fs).
    { clear - Hrun. revert fs fs' Hrun. induction h as [|[j m] t IH]; intros fs fs' Hrun; cbn [world_run] in Hrun.
      - inversion Hrun; reflexivity.
      - apply bind_ok in Hrun. destruct Hrun as (fs1 & Hs & Hrun). rewrite (IH fs1 fs' Hrun).
        apply (world_step_len _ _ _ _ Hs). }
    rewrite L. apply (get_Ok_inv _ _ _ _ G). }
  rewrite (get_ok 30 f fs' i R) in P. exists (nthd f fs' i). split; [apply get_ok; exact R|]. symmetry. exact P.
Qed.

(* two interleavings of the same per-field histories leave every field in the same state *)
Lemma interleavings_agree_lemma (fs fs1 fs2:list fld) (h1 h2:list (Z * mop)) :
  (forall i, proj i h1 = proj i h2) ->
  world_run fs h1 = Ok fs1 -> world_run fs h2 = Ok fs2 ->
  forall i, get 30 fs1 i = get 30 fs2 i.
Proof.
  intros Hp H1 H2 i. rewrite (world_run_proj h1 fs fs1 H1 i), (world_run_proj h2 fs fs2 H2 i), Hp. reflexivity.
Qed.
