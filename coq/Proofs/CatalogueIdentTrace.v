(* Proofs/CatalogueIdentTrace.v — the identity verdict along whole histories (what ./check evaluates on the model side). *)
From Coq Require Import ZArith List Bool Lia.
From EV Require Import Res Catalogue CatalogueSpec CatalogueIdentSpec CatalogueBase CatalogueInv CatalogueStep CatalogueIdent.
Import ListNotations.
Open Scope Z_scope.

Theorem step_ident_verdict c p s s' r :
  fix_a c = true -> fix_b c = true -> Inv s -> step c p s = (s', r) ->
  chk_ident (keys_before s) (ident_obs s s') = true.
Proof.
  intros FA FB I E. eapply ident_verdict_true; [exact FB | exact I | eapply step_Inv; eassumption | exact E].
Qed.

Lemma ident_trace_true_from c : forall ops s,
  fix_a c = true -> fix_b c = true -> Inv s -> forallb (fun x => snd x) (ident_trace c ops s) = true.
Proof.
  induction ops as [|p t IH]; intros s FA FB I; cbn [ident_trace]; [reflexivity|].
  destruct (step c p s) as [s' r] eqn:E. cbn [forallb snd].
  rewrite (step_ident_verdict c p s s' r FA FB I E). cbn [andb].
  apply IH; try assumption. eapply step_Inv; eassumption.
Qed.

Theorem ident_trace_true c ops :
  fix_a c = true -> fix_b c = true -> forallb (fun x => snd x) (ident_trace c ops init_state) = true.
Proof. intros FA FB. apply ident_trace_true_from; try assumption. apply init_Inv. Qed.

(* non-vacuity / the seeded shape: an EMPTY frame is created, required again, then used — one object throughout *)
Example require_on_empty_frame_same_object :
  let c := mkCfg true true true in
  let D := [100] in
  let (s1, _) := step c (OCreateDF 0 D) init_state in
  let (s2, r) := step c (ORequireDF 0 D) s1 in
  d_find (py_dfs s1 0) D = Some 1 /\ py_cols s1 1 = [] /\ is_ok r = true /\ s2 = s1 /\
  ident_obs s1 s2 = [[(D, Some (0, D))]; []].
Proof. vm_compute. repeat split; reflexivity. Qed.
